import WcModel.Model.Parse
import WcModel.Model.ToRe
import WcModel.Proofs.Regex
/-
  C18 (all patterns) — regex level.

  `Re.bnorm` rewrites the bytes spelling of "every code unit" (`[\x00-\xff]`, produced for an
  emptied class) into the str spelling (`[\x00-\U0010ffff]`); two regexes are *bytes twins*
  (`ReBytesTwin`) when they are equal except that at some class positions one has
  `.cls neg [fullRange b₁]` where the other has `.cls neg [fullRange b₂]`.
    * `ReBytesTwin_iff_bnorm` : twins ⇔ equal normal forms (so the relation is decidable and an
      equivalence);
    * `ReBytesTwin.M_iff`     : twins have the same `Re.M` from every state whose unread text is
      Latin-1 (every code unit < 256), hence the same `FullMatch` / `PrefixMatch` on Latin-1
      subjects.
-/
namespace WcModel

/-! ### the normal form -/

def normItems (items : List ClsItem) : List ClsItem :=
  if items = [fullRange true] then [fullRange false] else items

def Re.bnorm : Re → Re
  | .cls neg items => .cls neg (normItems items)
  | .cat a b => .cat a.bnorm b.bnorm
  | .alt a b => .alt a.bnorm b.bnorm
  | .grp r => .grp r.bnorm
  | .cap r => .cap r.bnorm
  | .gcap r => .gcap r.bnorm
  | .opt r => .opt r.bnorm
  | .star l r => .star l r.bnorm
  | .plus r => .plus r.bnorm
  | .rep lo hi r => .rep lo hi r.bnorm
  | .look n r => .look n r.bnorm
  | .flags s i r => .flags s i r.bnorm
  | .eps => .eps
  | .lit c => .lit c
  | .any => .any
  | .bos => .bos
  | .eos => .eos

theorem fullRange_ne : fullRange true ≠ fullRange false := by decide

theorem normItems_idem (items : List ClsItem) : normItems (normItems items) = normItems items := by
  unfold normItems
  split
  · simp [fullRange_ne.symm]
  · simp

theorem normItems_full (b : Bool) : normItems [fullRange b] = [fullRange false] := by
  cases b <;> simp [normItems, fullRange_ne.symm]

theorem Re.bnorm_idem (r : Re) : r.bnorm.bnorm = r.bnorm := by
  induction r <;> simp_all [Re.bnorm, normItems_idem]

/-- the two spellings -/
inductive ReBytesTwin : Re → Re → Prop
  | refl (r) : ReBytesTwin r r
  | full (neg : Bool) (b₁ b₂ : Bool) : ReBytesTwin (.cls neg [fullRange b₁]) (.cls neg [fullRange b₂])
  | cat {a a' b b'} : ReBytesTwin a a' → ReBytesTwin b b' → ReBytesTwin (.cat a b) (.cat a' b')
  | alt {a a' b b'} : ReBytesTwin a a' → ReBytesTwin b b' → ReBytesTwin (.alt a b) (.alt a' b')
  | grp {r r'} : ReBytesTwin r r' → ReBytesTwin (.grp r) (.grp r')
  | cap {r r'} : ReBytesTwin r r' → ReBytesTwin (.cap r) (.cap r')
  | gcap {r r'} : ReBytesTwin r r' → ReBytesTwin (.gcap r) (.gcap r')
  | opt {r r'} : ReBytesTwin r r' → ReBytesTwin (.opt r) (.opt r')
  | star (l) {r r'} : ReBytesTwin r r' → ReBytesTwin (.star l r) (.star l r')
  | plus {r r'} : ReBytesTwin r r' → ReBytesTwin (.plus r) (.plus r')
  | rep (lo hi) {r r'} : ReBytesTwin r r' → ReBytesTwin (.rep lo hi r) (.rep lo hi r')
  | look (n) {r r'} : ReBytesTwin r r' → ReBytesTwin (.look n r) (.look n r')
  | flags (s i) {r r'} : ReBytesTwin r r' → ReBytesTwin (.flags s i r) (.flags s i r')

theorem ReBytesTwin.bnorm_eq {r₁ r₂ : Re} (h : ReBytesTwin r₁ r₂) : r₁.bnorm = r₂.bnorm := by
  induction h with
  | refl r => rfl
  | full neg b₁ b₂ => simp [Re.bnorm, normItems_full]
  | cat _ _ ih₁ ih₂ => simp [Re.bnorm, ih₁, ih₂]
  | alt _ _ ih₁ ih₂ => simp [Re.bnorm, ih₁, ih₂]
  | grp _ ih => simp [Re.bnorm, ih]
  | cap _ ih => simp [Re.bnorm, ih]
  | gcap _ ih => simp [Re.bnorm, ih]
  | opt _ ih => simp [Re.bnorm, ih]
  | star _ _ ih => simp [Re.bnorm, ih]
  | plus _ ih => simp [Re.bnorm, ih]
  | rep _ _ _ ih => simp [Re.bnorm, ih]
  | look _ _ ih => simp [Re.bnorm, ih]
  | flags _ _ _ ih => simp [Re.bnorm, ih]

theorem normItems_eq_cases {i₁ i₂ : List ClsItem} (h : normItems i₁ = normItems i₂) :
    i₁ = i₂ ∨ ∃ b₁ b₂, i₁ = [fullRange b₁] ∧ i₂ = [fullRange b₂] := by
  unfold normItems at h
  split at h <;> split at h
  · rename_i h1 h2; exact .inl (h1.trans h2.symm)
  · rename_i h1 h2; exact .inr ⟨true, false, h1, h.symm⟩
  · rename_i h1 h2; exact .inr ⟨false, true, h, h2⟩
  · exact .inl h

theorem ReBytesTwin.of_bnorm_eq : ∀ {r₁ r₂ : Re}, r₁.bnorm = r₂.bnorm → ReBytesTwin r₁ r₂ := by
  intro r₁
  induction r₁ with
  | cls neg items =>
    intro r₂ h
    cases r₂ <;> simp only [Re.bnorm, reduceCtorEq] at h
    rename_i neg' items'
    injection h with h1 h2
    subst h1
    rcases normItems_eq_cases h2 with rfl | ⟨b₁, b₂, rfl, rfl⟩
    · exact .refl _
    · exact .full _ _ _
  | cat a b iha ihb =>
    intro r₂ h
    cases r₂ <;> simp only [Re.bnorm, reduceCtorEq] at h
    injection h with h1 h2
    exact .cat (iha h1) (ihb h2)
  | alt a b iha ihb =>
    intro r₂ h
    cases r₂ <;> simp only [Re.bnorm, reduceCtorEq] at h
    injection h with h1 h2
    exact .alt (iha h1) (ihb h2)
  | grp r ih =>
    intro r₂ h
    cases r₂ <;> simp only [Re.bnorm, reduceCtorEq] at h
    injection h with h1
    exact .grp (ih h1)
  | cap r ih =>
    intro r₂ h
    cases r₂ <;> simp only [Re.bnorm, reduceCtorEq] at h
    injection h with h1
    exact .cap (ih h1)
  | gcap r ih =>
    intro r₂ h
    cases r₂ <;> simp only [Re.bnorm, reduceCtorEq] at h
    injection h with h1
    exact .gcap (ih h1)
  | opt r ih =>
    intro r₂ h
    cases r₂ <;> simp only [Re.bnorm, reduceCtorEq] at h
    injection h with h1
    exact .opt (ih h1)
  | star l r ih =>
    intro r₂ h
    cases r₂ <;> simp only [Re.bnorm, reduceCtorEq] at h
    injection h with h0 h1
    subst h0
    exact .star _ (ih h1)
  | plus r ih =>
    intro r₂ h
    cases r₂ <;> simp only [Re.bnorm, reduceCtorEq] at h
    injection h with h1
    exact .plus (ih h1)
  | rep lo hi r ih =>
    intro r₂ h
    cases r₂ <;> simp only [Re.bnorm, reduceCtorEq] at h
    injection h with h0 h0' h1
    subst h0 h0'
    exact .rep _ _ (ih h1)
  | look n r ih =>
    intro r₂ h
    cases r₂ <;> simp only [Re.bnorm, reduceCtorEq] at h
    injection h with h0 h1
    subst h0
    exact .look _ (ih h1)
  | flags s i r ih =>
    intro r₂ h
    cases r₂ <;> simp only [Re.bnorm, reduceCtorEq] at h
    injection h with h0 h0' h1
    subst h0 h0'
    exact .flags _ _ (ih h1)
  | eps => intro r₂ h; cases r₂ <;> simp only [Re.bnorm, reduceCtorEq] at h; exact .refl _
  | lit c =>
    intro r₂ h; cases r₂ <;> simp only [Re.bnorm, reduceCtorEq] at h
    injection h with h; subst h; exact .refl _
  | any => intro r₂ h; cases r₂ <;> simp only [Re.bnorm, reduceCtorEq] at h; exact .refl _
  | bos => intro r₂ h; cases r₂ <;> simp only [Re.bnorm, reduceCtorEq] at h; exact .refl _
  | eos => intro r₂ h; cases r₂ <;> simp only [Re.bnorm, reduceCtorEq] at h; exact .refl _

theorem ReBytesTwin_iff_bnorm (r₁ r₂ : Re) : ReBytesTwin r₁ r₂ ↔ r₁.bnorm = r₂.bnorm :=
  ⟨ReBytesTwin.bnorm_eq, ReBytesTwin.of_bnorm_eq⟩

theorem ReBytesTwin.symm {r₁ r₂ : Re} (h : ReBytesTwin r₁ r₂) : ReBytesTwin r₂ r₁ :=
  .of_bnorm_eq h.bnorm_eq.symm

theorem ReBytesTwin.trans {r₁ r₂ r₃ : Re} (h₁ : ReBytesTwin r₁ r₂) (h₂ : ReBytesTwin r₂ r₃) :
    ReBytesTwin r₁ r₃ :=
  .of_bnorm_eq (h₁.bnorm_eq.trans h₂.bnorm_eq)

instance (r₁ r₂ : Re) : Decidable (ReBytesTwin r₁ r₂) :=
  decidable_of_iff _ (ReBytesTwin_iff_bnorm r₁ r₂).symm

/-! ### semantics on Latin-1 subjects -/

/-- every code unit is below 256 (what a decoded bytes subject looks like) -/
def Latin1 (s : List Char) : Prop := ∀ c ∈ s, c.toNat < 256

theorem Latin1.tail {c : Char} {s : List Char} (h : Latin1 (c :: s)) : Latin1 s :=
  fun d hd => h d (List.mem_cons_of_mem _ hd)

theorem Latin1.of_suffix {pre s : List Char} (h : Latin1 (pre ++ s)) : Latin1 s :=
  fun d hd => h d (List.mem_append_right _ hd)

theorem consume1_suffix {p : Char → Bool} {a b : St} (h : consume1 p a b) :
    ∃ pre, a.rest = pre ++ b.rest := by
  obtain ⟨d, s, h1, _, rfl⟩ := h
  exact ⟨[d], by simp [h1]⟩

theorem Iter.suffix {R : St → St → Prop} (hR : ∀ a b, R a b → ∃ pre, a.rest = pre ++ b.rest)
    {a b : St} (h : Iter R a b) : ∃ pre, a.rest = pre ++ b.rest := by
  induction h with
  | refl a => exact ⟨[], rfl⟩
  | step hab _ ih =>
    obtain ⟨p1, h1⟩ := hR _ _ hab
    obtain ⟨p2, h2⟩ := ih
    exact ⟨p1 ++ p2, by rw [h1, h2, List.append_assoc]⟩

theorem IterN.suffix {R : St → St → Prop} (hR : ∀ a b, R a b → ∃ pre, a.rest = pre ++ b.rest)
    {n : Nat} {a b : St} (h : IterN R n a b) : ∃ pre, a.rest = pre ++ b.rest := by
  induction h with
  | zero a => exact ⟨[], rfl⟩
  | succ hab _ ih =>
    obtain ⟨p1, h1⟩ := hR _ _ hab
    obtain ⟨p2, h2⟩ := ih
    exact ⟨p1 ++ p2, by rw [h1, h2, List.append_assoc]⟩

/-- a match only ever moves forward inside the subject -/
theorem Re.M_suffix (md : Mode) (r : Re) : ∀ a b, Re.M md r a b → ∃ pre, a.rest = pre ++ b.rest := by
  induction r generalizing md with
  | eps => intro a b h; simp only [Re.M] at h; exact ⟨[], by rw [h]; rfl⟩
  | lit c => intro a b h; exact consume1_suffix h
  | any => intro a b h; exact consume1_suffix h
  | cls neg items => intro a b h; exact consume1_suffix h
  | cat r₁ r₂ ih₁ ih₂ =>
    intro a b h; obtain ⟨c, h1, h2⟩ := h
    obtain ⟨p1, e1⟩ := ih₁ md _ _ h1
    obtain ⟨p2, e2⟩ := ih₂ md _ _ h2
    exact ⟨p1 ++ p2, by rw [e1, e2, List.append_assoc]⟩
  | alt r₁ r₂ ih₁ ih₂ =>
    intro a b h; rcases h with h | h
    · exact ih₁ md _ _ h
    · exact ih₂ md _ _ h
  | grp r ih => intro a b h; exact ih md _ _ h
  | cap r ih => intro a b h; exact ih md _ _ h
  | gcap r ih => intro a b h; exact ih md _ _ h
  | opt r ih =>
    intro a b h; rcases h with h | h
    · exact ⟨[], by rw [h]; rfl⟩
    · exact ih md _ _ h
  | star l r ih => intro a b h; exact Iter.suffix (ih md) h
  | plus r ih =>
    intro a b h; obtain ⟨c, h1, h2⟩ := h
    obtain ⟨p1, e1⟩ := ih md _ _ h1
    obtain ⟨p2, e2⟩ := Iter.suffix (ih md) h2
    exact ⟨p1 ++ p2, by rw [e1, e2, List.append_assoc]⟩
  | rep lo hi r ih =>
    intro a b h; obtain ⟨n, _, _, h⟩ := h
    exact IterN.suffix (ih md) h
  | look neg r ih =>
    intro a b h
    cases neg <;> simp only [Re.M] at h <;> exact ⟨[], by rw [h.1]; rfl⟩
  | bos => intro a b h; simp only [Re.M] at h; exact ⟨[], by rw [h.1]; rfl⟩
  | eos => intro a b h; simp only [Re.M] at h; exact ⟨[], by rw [h.1]; rfl⟩
  | flags s i r ih => intro a b h; exact ih ⟨s, i⟩ _ _ h

theorem Re.M_latin1 {md : Mode} {r : Re} {a b : St} (h : Re.M md r a b) (ha : Latin1 a.rest) :
    Latin1 b.rest := by
  obtain ⟨pre, e⟩ := Re.M_suffix md r a b h
  rw [e] at ha
  exact ha.of_suffix

theorem fullRange_has_latin1 (b : Bool) (d : Char) (h : d.toNat < 256) : (fullRange b).has d = true := by
  have h0 : (Char.ofNat 0).toNat = 0 := by decide
  have h1 : (Char.ofNat 0xff).toNat = 255 := by decide
  have h2 : (Char.ofNat 0x10ffff).toNat = 1114111 := by decide
  cases b
  · have e2 : fullRange false = .range (Char.ofNat 0) false (Char.ofNat 0x10ffff) false := rfl
    rw [e2]; simp only [ClsItem.has, h0, h2]
    have a2 : d.toNat ≤ 1114111 := by omega
    simp [a2]
  · have e1 : fullRange true = .range (Char.ofNat 0) false (Char.ofNat 0xff) false := rfl
    rw [e1]; simp only [ClsItem.has, h0, h1]
    have a1 : d.toNat ≤ 255 := by omega
    simp [a1]

theorem clsMatch_full_latin1 (ci neg b : Bool) (d : Char) (h : d.toNat < 256) :
    clsMatch ci neg [fullRange b] d = !neg := by
  simp [clsMatch, ClsItem.hasCi, fullRange_has_latin1 b d h]

theorem consume1_full_latin1 (ci neg b₁ b₂ : Bool) (a b : St) (ha : Latin1 a.rest) :
    consume1 (clsMatch ci neg [fullRange b₁]) a b ↔ consume1 (clsMatch ci neg [fullRange b₂]) a b := by
  unfold consume1
  constructor <;>
  · rintro ⟨d, s, h1, h2, h3⟩
    have hd : d.toNat < 256 := ha d (by rw [h1]; exact List.mem_cons_self)
    refine ⟨d, s, h1, ?_, h3⟩
    rw [clsMatch_full_latin1 _ _ _ _ hd] at h2 ⊢
    exact h2

theorem Iter.congr_latin1 {R S : St → St → Prop}
    (hRS : ∀ a b, Latin1 a.rest → (R a b ↔ S a b))
    (hR : ∀ a b, R a b → Latin1 a.rest → Latin1 b.rest)
    {a b : St} (ha : Latin1 a.rest) (h : Iter R a b) : Iter S a b := by
  induction h with
  | refl a => exact .refl a
  | step hab _ ih => exact .step ((hRS _ _ ha).mp hab) (ih (hR _ _ hab ha))

theorem IterN.congr_latin1 {R S : St → St → Prop}
    (hRS : ∀ a b, Latin1 a.rest → (R a b ↔ S a b))
    (hR : ∀ a b, R a b → Latin1 a.rest → Latin1 b.rest)
    {n : Nat} {a b : St} (ha : Latin1 a.rest) (h : IterN R n a b) : IterN S n a b := by
  induction h with
  | zero a => exact .zero a
  | succ hab _ ih => exact .succ ((hRS _ _ ha).mp hab) (ih (hR _ _ hab ha))

/-- **M-level congruence**: bytes twins relate the same pairs of states, as long as the unread
    text is Latin-1. -/
theorem ReBytesTwin.M_iff {r₁ r₂ : Re} (h : ReBytesTwin r₁ r₂) :
    ∀ (md : Mode) (a b : St), Latin1 a.rest → (Re.M md r₁ a b ↔ Re.M md r₂ a b) := by
  induction h with
  | refl r => intro md a b _; exact Iff.rfl
  | full neg b₁ b₂ => intro md a b ha; exact consume1_full_latin1 md.ci neg b₁ b₂ a b ha
  | cat _ _ ih₁ ih₂ =>
    intro md a b ha
    simp only [Re.M]
    constructor
    · rintro ⟨c, h1, h2⟩
      exact ⟨c, (ih₁ md a c ha).mp h1, (ih₂ md c b (Re.M_latin1 h1 ha)).mp h2⟩
    · rintro ⟨c, h1, h2⟩
      have h1' := (ih₁ md a c ha).mpr h1
      exact ⟨c, h1', (ih₂ md c b (Re.M_latin1 h1' ha)).mpr h2⟩
  | alt _ _ ih₁ ih₂ => intro md a b ha; simp only [Re.M, ih₁ md a b ha, ih₂ md a b ha]
  | grp _ ih => intro md a b ha; simp only [Re.M, ih md a b ha]
  | cap _ ih => intro md a b ha; simp only [Re.M, ih md a b ha]
  | gcap _ ih => intro md a b ha; simp only [Re.M, ih md a b ha]
  | opt _ ih => intro md a b ha; simp only [Re.M, ih md a b ha]
  | star l _ ih =>
    intro md a b ha
    simp only [Re.M]
    exact ⟨Iter.congr_latin1 (ih md) (fun _ _ h => Re.M_latin1 h) ha,
           Iter.congr_latin1 (fun x y hx => (ih md x y hx).symm) (fun _ _ h => Re.M_latin1 h) ha⟩
  | plus _ ih =>
    intro md a b ha
    simp only [Re.M]
    constructor
    · rintro ⟨c, h1, h2⟩
      exact ⟨c, (ih md a c ha).mp h1,
        Iter.congr_latin1 (ih md) (fun _ _ h => Re.M_latin1 h) (Re.M_latin1 h1 ha) h2⟩
    · rintro ⟨c, h1, h2⟩
      have h1' := (ih md a c ha).mpr h1
      exact ⟨c, h1',
        Iter.congr_latin1 (fun x y hx => (ih md x y hx).symm) (fun _ _ h => Re.M_latin1 h)
          (Re.M_latin1 h1' ha) h2⟩
  | rep lo hi _ ih =>
    intro md a b ha
    simp only [Re.M]
    constructor
    · rintro ⟨n, h1, h2, h3⟩
      exact ⟨n, h1, h2, IterN.congr_latin1 (ih md) (fun _ _ h => Re.M_latin1 h) ha h3⟩
    · rintro ⟨n, h1, h2, h3⟩
      exact ⟨n, h1, h2,
        IterN.congr_latin1 (fun x y hx => (ih md x y hx).symm) (fun _ _ h => Re.M_latin1 h) ha h3⟩
  | look n _ ih =>
    intro md a b ha
    cases n <;> simp only [Re.M, ih md a _ ha]
  | flags s i _ ih => intro md a b ha; simp only [Re.M]; exact ih ⟨s, i⟩ a b ha

theorem ReBytesTwin.fullMatch_iff {r₁ r₂ : Re} (h : ReBytesTwin r₁ r₂) (s : List Char)
    (hs : Latin1 s) : r₁.FullMatch s ↔ r₂.FullMatch s := by
  unfold Re.FullMatch
  constructor
  · rintro ⟨b, hm⟩; exact ⟨b, (h.M_iff _ _ _ hs).mp hm⟩
  · rintro ⟨b, hm⟩; exact ⟨b, (h.M_iff _ _ _ hs).mpr hm⟩

theorem ReBytesTwin.prefixMatch_iff {r₁ r₂ : Re} (h : ReBytesTwin r₁ r₂) (s : List Char)
    (hs : Latin1 s) : r₁.PrefixMatch s ↔ r₂.PrefixMatch s := by
  unfold Re.PrefixMatch
  constructor
  · rintro ⟨e, hm⟩; exact ⟨e, (h.M_iff _ _ _ hs).mp hm⟩
  · rintro ⟨e, hm⟩; exact ⟨e, (h.M_iff _ _ _ hs).mpr hm⟩

end WcModel

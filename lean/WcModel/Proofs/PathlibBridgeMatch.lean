import WcModel.Proofs.PathlibBridgeParse
/-
  C16 bridge, part 3: the regex `PurePath.match` compiles under `_EXTMATCHBASE` + REALPATH for a printed
  globstar-free relative pattern `B = g₁/…/g_k` (segments in `Pat.segScope`: not nullable — KF-PARTPREFIX),

      ^(?s: (?!/) ( GSTAR ) (?:^|$|[/])+ [/]*? (?!/) g₁ [/]+ g₂ … [/]*? )$

  on a clean path `c₁/…/c_m[/]` that does not end in a newline (KF-NEWLINE):

  * `em_split`   one `(globstar, rest)` split of the subject: the globstar took the first `m - k`
                 components (all visible), the rest is in the documented language of `B`;
  * `em_build`   … and every such split is a match;
  * `em_regex`   the regex the port builds: one capture group, every accepting run binds it to the
                 text the globstar took, and `FullMatch` is "some split";
  * `fsMatch_emPath`  `_fs_match` = the last `k` components are in the language of `B`, the ones before
                 them are visible and none of THEIR prefixes is a symbolic link.
-/
namespace WcModel.PB
open Bridge PP PPP PathlibViews

/-- what follows the captured globstar, taken apart: the divider, the prefix's `[/]*?`, `(?!/)`, the
    tidy regex of `B` up to the end of the subject -/
def Tail (md : Mode) (dot tr : Bool) (B : List Seg) (a1 : St) (b : Bool) : Prop :=
  ∃ c1 c2, Re.M md (Frag.globstarDiv false) a1 c1 ∧ Re.M md (Frag.pathTrail false) c1 c2 ∧
    c2.rest.head? ≠ some '/' ∧ Re.M md (pathRe dot tr B false) c2 ⟨b, []⟩

theorem globFree_noGG : ∀ segs : List Seg, globFree segs = true → noGG segs = true := by
  intro segs
  induction segs with
  | nil => intro _; rfl
  | cons s r ih =>
    intro h
    simp only [globFree, List.all_cons, Bool.and_eq_true] at h
    cases s with
    | glob => simp at h
    | pat g => simpa [noGG] using ih h.2

/-- the tidy regex of a non-empty globstar-free `B` from a state whose rest is a clean text -/
theorem pathRe_spec (ctx : PCtx) (tr : Bool) (B : List Seg) (hB : globFree B = true) (hBne : B ≠ [])
    (hsc : ∀ s ∈ B, Seg.scope s = true) (c2 : St) (hv : VisG ctx.dot c2.rest) :
    (∃ b, Re.M ⟨true, ctx.ci⟩ (pathRe ctx.dot tr B false) c2 ⟨b, []⟩) ↔
      (c2.rest.head? ≠ some '/' ∧
        segsMatch ctx .free B (pieces c2.rest) tr (decide (c2.rest.getLast? = some '/')) false = true) := by
  have hpos : Pos c2.rest c2 := ⟨[], rfl, fun _ => rfl, fun p hp => hp⟩
  cases B with
  | nil => exact absurd rfl hBne
  | cons s ss =>
    cases s with
    | glob => simp [globFree] at hB
    | pat g =>
      have := pathRe_sem ctx tr c2.rest hv (.pat g :: ss) (globFree_noGG _ hB) hsc false c2 hpos trivial
      simp only [SpecAt, Bool.false_eq_true, if_false] at this
      rw [← this]
      constructor
      · rintro ⟨b, hm⟩; exact ⟨⟨b, []⟩, rfl, hm⟩
      · rintro ⟨y, hy, hm⟩
        obtain ⟨yb, yr⟩ := y
        simp only at hy; subst hy
        exact ⟨yb, hm⟩

theorem segsMatch_nil_false (ctx : PCtx) (B : List Seg) (hB : globFree B = true) (hBne : B ≠ []) (pt ptr a : Bool) :
    segsMatch ctx .free B [] pt ptr a = false := by
  cases B with
  | nil => exact absurd rfl hBne
  | cons s ss =>
    cases s with
    | glob => simp [globFree] at hB
    | pat g => rfl

theorem pieces_allSl_append (sl t : List Char) (h : allSl sl = true) : pieces (sl ++ t) = pieces t := by
  induction sl with
  | nil => rfl
  | cons c r ih =>
    simp only [allSl, List.all_cons, Bool.and_eq_true, beq_iff_eq] at h
    rw [h.1, List.cons_append, pieces_slash]
    exact ih (by simpa [allSl] using h.2)

/-- the analysis of one `(globstar, rest)` split of the subject -/
theorem em_split (ctx : PCtx) (hdot : ctx.dot = false) (tr : Bool) (B : List Seg) (hB : globFree B = true) (hBne : B ≠ [])
    (hsc : ∀ s ∈ B, Seg.scope s = true)
    (comps : List Name) (hne : comps ≠ []) (hc : ∀ c ∈ comps, CompOK c) (hvis : ∀ c ∈ comps, visible false c = true)
    (tl : List Char) (htl : allSl tl = true) (hnl : (joinSl comps ++ tl).getLast? ≠ some '\n') (a1 : St) (b : Bool)
    (hG : Re.M ⟨true, ctx.ci⟩ emG ⟨true, joinSl comps ++ tl⟩ a1)
    (hT : Tail ⟨true, ctx.ci⟩ ctx.dot tr B a1 b) :
    ∃ ds cs, comps = ds ++ cs ∧ cs ≠ [] ∧
      (joinSl comps ++ tl).length - a1.rest.length = (joinSl ds).length ∧
      segsMatch ctx .free B cs tr (decide ((joinSl cs ++ tl).getLast? = some '/')) false = true := by
  obtain ⟨g, e, hf, hg⟩ := (emG_iff _ _ _).mp hG
  simp only at e hf hg
  obtain ⟨c1, c2, hdiv, htr, hhd, hre⟩ := hT
  have hnl1 : a1.rest.getLast? ≠ some '\n' := suffix_getLast_ne (e ▸ hnl)
  -- `B` does not match the empty text
  have ht : c2.rest ≠ [] := by
    intro he
    have hv0 : VisG ctx.dot c2.rest := by rw [he]; exact ⟨by simp [pieces_nil], by simp⟩
    have := ((pathRe_spec ctx tr B hB hBne hsc c2 hv0).mp ⟨b, hre⟩).2
    rw [he, pieces_nil, segsMatch_nil_false ctx B hB hBne] at this
    cases this
  -- the separators between the globstar and `B`
  obtain ⟨sl, e2, hsl, hst⟩ : ∃ sl, a1.rest = sl ++ c2.rest ∧ allSl sl = true ∧ (sl = [] → a1.atStart = true) := by
    rcases (M_div_iff _ a1 c1).mp hdiv with ⟨rfl, hz⟩ | ⟨hf1, pre, hpne, hpre, e1⟩
    · rcases (M_pathTrail_iff _ c1 c2).mp htr with rfl | ⟨hf2, pre2, hp2ne, hpre2, e2⟩
      · rcases hz with hz | hz
        · exact ⟨[], rfl, rfl, fun _ => hz⟩
        · exfalso
          simp only [atEos, Bool.or_eq_true, beq_iff_eq] at hz
          rcases hz with hz | hz
          · exact ht hz
          · rw [hz] at hnl1; exact hnl1 rfl
      · rcases hz with hz | hz
        · exact ⟨pre2, e2, hpre2, fun h => absurd h hp2ne⟩
        · exfalso
          simp only [atEos, Bool.or_eq_true, beq_iff_eq] at hz
          rcases hz with hz | hz
          · rw [hz] at e2
            cases pre2 with
            | nil => exact hp2ne rfl
            | cons y r => simp at e2
          · rw [hz] at e2
            cases pre2 with
            | nil => exact hp2ne rfl
            | cons y r =>
              simp only [List.cons_append, List.cons.injEq] at e2
              simp only [allSl, List.all_cons, Bool.and_eq_true, beq_iff_eq] at hpre2
              rw [← e2.1] at hpre2
              exact absurd hpre2.1 (by decide)
    · rcases (M_pathTrail_iff _ c1 c2).mp htr with rfl | ⟨hf2, pre2, hp2ne, hpre2, e2⟩
      · exact ⟨pre, e1, hpre, fun h => absurd h hpne⟩
      · exact ⟨pre ++ pre2, by rw [e1, e2, List.append_assoc], allSl_append.mpr ⟨hpre, hpre2⟩,
          fun h => absurd (List.append_eq_nil_iff.mp h).1 hpne⟩
  have hgs : sl = [] → g = [] := by
    intro h
    have := hst h
    rw [hf] at this
    simpa using this
  have hP : g ++ sl = [] ∨ (g ++ sl).getLast? = some '/' := by
    by_cases hsle : sl = []
    · left; rw [hgs hsle, hsle]; rfl
    · right; rw [getLast_append_ne _ _ hsle]; exact allSl_getLast' sl hsl hsle
  obtain ⟨ds, cs, hcomps, hcsne, hPd, htd⟩ := decomp_boundary comps hne hc (g ++ sl) c2.rest tl
    (by rw [e, e2, List.append_assoc]) hP hhd ht htl
  have hds : ∀ d ∈ ds, CompOK d := fun d hd => hc d (by rw [hcomps]; exact List.mem_append_left _ hd)
  have hcsok : ∀ d ∈ cs, CompOK d := fun d hd => hc d (by rw [hcomps]; exact List.mem_append_right _ hd)
  have hpc : pieces c2.rest = cs := by rw [htd]; exact pieces_joinSl cs hcsok tl htl
  have hv : VisG ctx.dot c2.rest := by
    refine ⟨?_, suffix_getLast_ne (e2 ▸ hnl1)⟩
    intro p hp
    rw [hpc] at hp
    rw [hdot]
    exact hvis p (by rw [hcomps]; exact List.mem_append_right _ hp)
  have hsm := ((pathRe_spec ctx tr B hB hBne hsc c2 hv).mp ⟨b, hre⟩).2
  rw [hpc, htd] at hsm
  have hgd : g = joinSl ds := by
    by_cases hdse : ds = []
    · subst hdse
      simp only [dirStr, List.flatMap_nil] at hPd
      rw [(List.append_eq_nil_iff.mp hPd).1]; rfl
    · exact (decomp_tail ds hdse hds g sl hsl hgs (by rw [← dirStr_eq ds hdse]; exact hPd.symm)).1
  exact ⟨ds, cs, hcomps, hcsne, by rw [e, ← hgd]; simp, hsm⟩

/-- … and every such split is a match -/
theorem em_build (ctx : PCtx) (hdot : ctx.dot = false) (tr : Bool) (B : List Seg) (hB : globFree B = true) (hBne : B ≠ [])
    (hsc : ∀ s ∈ B, Seg.scope s = true)
    (ds cs : List Name) (hcsne : cs ≠ []) (hc : ∀ c ∈ ds ++ cs, CompOK c) (hvis : ∀ c ∈ ds ++ cs, visible false c = true)
    (tl : List Char) (htl : allSl tl = true) (hnl : (joinSl (ds ++ cs) ++ tl).getLast? ≠ some '\n')
    (hsm : segsMatch ctx .free B cs tr (decide ((joinSl cs ++ tl).getLast? = some '/')) false = true) :
    ∃ a1 b, Re.M ⟨true, ctx.ci⟩ emG ⟨true, joinSl (ds ++ cs) ++ tl⟩ a1 ∧ Tail ⟨true, ctx.ci⟩ ctx.dot tr B a1 b := by
  have hds : ∀ d ∈ ds, CompOK d := fun d hd => hc d (List.mem_append_left _ hd)
  have hcs : ∀ d ∈ cs, CompOK d := fun d hd => hc d (List.mem_append_right _ hd)
  have hth : (joinSl cs ++ tl).head? ≠ some '/' := by
    have h1 := joinSl_head cs hcs
    have h2 := joinSl_ne_nil cs hcsne hcs
    cases hj : joinSl cs with
    | nil => exact absurd hj h2
    | cons x r => rw [hj] at h1; simpa using h1
  have hpc : pieces (joinSl cs ++ tl) = cs := pieces_joinSl cs hcs tl htl
  -- the tidy regex of `B` on the tail
  have hbody : ∀ (f : Bool), (joinSl cs ++ tl).getLast? ≠ some '\n' →
      ∃ b, Re.M ⟨true, ctx.ci⟩ (pathRe ctx.dot tr B false) ⟨f, joinSl cs ++ tl⟩ ⟨b, []⟩ := by
    intro f hn
    refine (pathRe_spec ctx tr B hB hBne hsc ⟨f, joinSl cs ++ tl⟩ ⟨?_, hn⟩).mpr ⟨hth, by rw [hpc]; exact hsm⟩
    intro p hp
    simp only [hpc] at hp
    rw [hdot]; exact hvis p (List.mem_append_right _ hp)
  by_cases hdse : ds = []
  · subst hdse
    simp only [List.nil_append] at hnl ⊢
    obtain ⟨b, hb⟩ := hbody true hnl
    refine ⟨⟨true, joinSl cs ++ tl⟩, b, (emG_iff _ _ _).mpr ⟨[], rfl, rfl, trivial⟩, _, _,
      (M_div_iff _ _ _).mpr (Or.inl ⟨rfl, Or.inl rfl⟩), (M_pathTrail_iff _ _ _).mpr (Or.inl rfl), hth, hb⟩
  · have hname : joinSl (ds ++ cs) ++ tl = joinSl ds ++ (['/'] ++ (joinSl cs ++ tl)) := by
      rw [joinSl_append ds cs hdse hcsne]; simp
    rw [hname] at hnl ⊢
    have hnl1 : (['/'] ++ (joinSl cs ++ tl)).getLast? ≠ some '\n' := suffix_getLast_ne hnl
    have hnl2 : (joinSl cs ++ tl).getLast? ≠ some '\n' := suffix_getLast_ne hnl1
    obtain ⟨b, hb⟩ := hbody false hnl2
    refine ⟨⟨false, ['/'] ++ (joinSl cs ++ tl)⟩, b, (emG_iff _ _ _).mpr ⟨joinSl ds, rfl, ?_, ?_⟩,
      ⟨false, joinSl cs ++ tl⟩, ⟨false, joinSl cs ++ tl⟩,
      (M_div_iff _ _ _).mpr (Or.inr ⟨rfl, ['/'], by simp, rfl, rfl⟩), (M_pathTrail_iff _ _ _).mpr (Or.inl rfl), hth, hb⟩
    · have := joinSl_ne_nil ds hdse hds
      cases hj : joinSl ds with
      | nil => exact absurd hj this
      | cons _ _ => rfl
    · refine (NoHid_dirs ds hds _).mpr (fun d hd => ?_)
      have := hvis d (List.mem_append_left _ hd)
      simp only [visible, Bool.false_or, Bool.and_eq_true, bne_iff_ne, ne_eq] at this
      exact this.2


/-! ### the regex the port builds -/

/-- the items after the captured globstar -/
def tailItems (cfg : Cfg) (tr : Bool) (B : List Seg) : List Item :=
  [.re (Frag.globstarDiv false), .re (Frag.pathTrail false), .empty, .re Frag.noRoot, .empty] ++
    (segItems cfg tr B false ++ [.re (Frag.pathTrail false)])

theorem tail_eqv (cfg : Cfg) (h : PathX cfg) (tr : Bool) (B : List Seg) (hok : ∀ s ∈ B, PPP.segOK s = true)
    (f : Nat) (x : Re) (hx : Item.seqToRe f (tailItems cfg tr B) = some x) (md : Mode) (d y : St) :
    Re.M md x d y ↔ ∃ c1 c2, Re.M md (Frag.globstarDiv false) d c1 ∧ Re.M md (Frag.pathTrail false) c1 c2 ∧
      c2.rest.head? ≠ some '/' ∧ Re.M md (pathRe cfg.dot tr B false) c2 y := by
  unfold tailItems at hx
  simp only [List.cons_append, List.nil_append] at hx
  obtain ⟨f1, y1, h1, e1⟩ := seqToRe_re_eqv hx
  obtain ⟨f2, y2, h2, e2⟩ := seqToRe_re_eqv h1
  obtain ⟨f3, h3⟩ := seqToRe_empty h2
  obtain ⟨f4, y4, h4, e4⟩ := seqToRe_re_eqv h3
  obtain ⟨f5, h5⟩ := seqToRe_empty h4
  have e5 := segItems_toRe cfg h tr B false hok f5 y4 h5
  rw [e1 md d y]
  simp only [Re.M]
  constructor
  · rintro ⟨c1, hd, hr⟩
    have hr2 := (e2 md c1 y).mp hr
    simp only [Re.M] at hr2
    obtain ⟨c2, ht, hr3⟩ := hr2
    have hr4 := (e4 md c2 y).mp hr3
    simp only [Re.M] at hr4
    obtain ⟨c3, hn, hr5⟩ := hr4
    obtain ⟨rfl, hh⟩ := (M_noRoot _ _ _).mp hn
    exact ⟨c1, _, hd, ht, hh, (e5 md _ y).mp hr5⟩
  · rintro ⟨c1, c2, hd, ht, hh, hp⟩
    refine ⟨c1, hd, (e2 md c1 y).mpr ?_⟩
    simp only [Re.M]
    refine ⟨c2, ht, (e4 md c2 y).mpr ?_⟩
    simp only [Re.M]
    exact ⟨c2, (M_noRoot _ _ _).mpr ⟨rfl, hh⟩, (e5 md _ y).mpr hp⟩

theorem M_wrap_iff (ci : Bool) (x : Re) (s : List Char) (b : Bool) :
    Re.M ⟨false, false⟩ (.cat .bos (.cat (.flags true ci x) .eos)) ⟨true, s⟩ ⟨b, []⟩ ↔
      Re.M ⟨true, ci⟩ x ⟨true, s⟩ ⟨b, []⟩ := by
  simp only [Re.M]
  constructor
  · rintro ⟨c, ⟨rfl, _⟩, c', hm, rfl, _⟩
    exact hm
  · intro hm
    exact ⟨_, ⟨rfl, trivial⟩, _, hm, rfl, by simp [atEos]⟩

/-- **the regex of `match` for a printed globstar-free relative pattern** (`_EXTMATCHBASE` + REALPATH, no
    DOTMATCH, globstar capture on): it exists, has ONE capture group, every accepting run binds the
    group to the text the prefix globstar took, and its language is "some (globstar, rest) split" -/
theorem em_regex (cfg : Cfg) (h : PathX ((cfgE cfg false false).rp false)) (hrp : cfg.realpath = true)
    (hcap : cfg.globstarCapture = true) (hdot : cfg.dot = false) (hem : cfg.extmatchbase0 = true)
    (hgl : (cfg.globstarlong && cfg.follow) = false) (hcapt : cfg.capture = false)
    (drive : List Char → DriveInfo) (tr : Bool) (B : List Seg) (hB : globFree B = true) (hBne : B ≠ [])
    (hok : ∀ s ∈ B, PPP.segOK s = true) :
    ∃ parsed r, parseItems cfg drive (printSegs tr B false) = .ok parsed ∧ parsed.toRe = some r ∧ r.ncaps = 1 ∧
      (∀ (name : List Char) (b : Bool) (cs : Caps), Re.MC ⟨false, false⟩ r 0 ⟨true, name⟩ [] ⟨b, []⟩ cs →
        ∃ a1, Re.M ⟨true, !cfg.caseSensitive⟩ emG ⟨true, name⟩ a1 ∧
          Tail ⟨true, !cfg.caseSensitive⟩ cfg.dot tr B a1 b ∧ cs = [(1, name.length, a1.rest.length)]) ∧
      (∀ name : List Char, r.FullMatch name ↔ name.head? ≠ some '/' ∧
        ∃ a1 b, Re.M ⟨true, !cfg.caseSensitive⟩ emG ⟨true, name⟩ a1 ∧
          Tail ⟨true, !cfg.caseSensitive⟩ cfg.dot tr B a1 b) := by
  have hgfB : B.any Seg.isGlob = false := by
    simp only [globFree, List.all_eq_true, bne_iff_ne, ne_eq] at hB
    rw [List.any_eq_false]
    intro s hs
    cases s with
    | pat _ => simp [Seg.isGlob]
    | glob => exact absurd rfl (hB _ hs)
  have hlead : B.head?.map Seg.isGlob ≠ some true := by
    cases B with
    | nil => simp
    | cons s ss =>
      cases s with
      | glob => simp [globFree] at hB
      | pat g => simp [Seg.isGlob]
  have hitems := parseItems_em_path cfg h hrp hcap hdot hem hgl drive tr B hok (globFree_noGG B hB) hlead hBne
    (fun hx => by rw [hgfB] at hx; cases hx)
  -- the item list as `I1 ++ gcap :: I2`
  have hL : emPrefix ++ ([Item.empty, .re Frag.noRoot, .empty] ++
      (segItems ((cfgE cfg false false).rp false) tr B false ++ [.re (Frag.pathTrail false)])) =
      [Item.empty, .re Frag.noRoot] ++ .re (.gcap emG) :: tailItems ((cfgE cfg false false).rp false) tr B := by
    simp [emPrefix, tailItems]
  have hcapt' : ((cfgE cfg false false).rp false).capture = false := hcapt
  have hI1 : plainBL [Item.empty, .re Frag.noRoot] = true := by decide
  have hI2 : plainBL (tailItems ((cfgE cfg false false).rp false) tr B) = true := by
    simp only [tailItems, List.cons_append, List.nil_append, plainBL, plainB, plainBL_append, Bool.and_true,
      segItems_plain _ hcapt' tr B false hgfB]
    decide
  have hwf0 : WF false (segItems ((cfgE cfg false false).rp false) tr B false ++ [.re (Frag.pathTrail false)]) :=
    (segItems_WF _ tr B false hok).append (.re .nil)
  have hnb0 : HF.NoBar (segItems ((cfgE cfg false false).rp false) tr B false ++ [.re (Frag.pathTrail false)]) :=
    (segItems_noBar _ tr B false hok).append (HF.NoBar.cons rfl HF.NoBar.nil)
  have hwf : WF false ([Item.empty, .re Frag.noRoot] ++ .re (.gcap emG) :: tailItems ((cfgE cfg false false).rp false) tr B) :=
    .empty (.re (.re (.re (.re (.empty (.re (.empty hwf0)))))))
  have hnb : HF.NoBar ([Item.empty, .re Frag.noRoot] ++ .re (.gcap emG) :: tailItems ((cfgE cfg false false).rp false) tr B) :=
    HF.NoBar.cons rfl (HF.NoBar.cons rfl (HF.NoBar.cons rfl (HF.NoBar.cons rfl (HF.NoBar.cons rfl
      (HF.NoBar.cons rfl (HF.NoBar.cons rfl (HF.NoBar.cons rfl hnb0)))))))
  rw [hL] at hitems
  obtain ⟨r, hr⟩ := Option.isSome_iff_exists.mp (Parsed.toRe_isSome_of_WF ⟨_, !cfg.caseSensitive⟩ hwf)
  obtain ⟨f, x, hx, hrx⟩ := toRe_noBar _ _ r hr hnb
  obtain ⟨f1, x1, f2, x2, e1, e2, hn1, hdec⟩ := seq_split emG emG_ncaps _ hI2 _ hI1 f x hx
  have hdot' : ((cfgE cfg false false).rp false).dot = cfg.dot := rfl
  have htail := tail_eqv ((cfgE cfg false false).rp false) h tr B hok
  rw [hdot'] at htail
  -- what stands before the group: `(?!/)`
  obtain ⟨fa, ea⟩ := seqToRe_empty e1
  obtain ⟨fb, xb, eb, eqb⟩ := seqToRe_re_eqv ea
  have hxb := seqToRe_nil eb
  subst hxb
  have hx1 : ∀ md a c, Re.M md x1 a c ↔ (c = a ∧ a.rest.head? ≠ some '/') := by
    intro md a c
    rw [eqb md a c]
    simp only [Re.M]
    constructor
    · rintro ⟨m, hm, rfl⟩; exact (M_noRoot _ _ _).mp hm
    · rintro ⟨rfl, hh⟩; exact ⟨_, (M_noRoot _ _ _).mpr ⟨rfl, hh⟩, rfl⟩
  refine ⟨_, r, hitems, hr, by rw [hrx]; simp [Re.ncaps, hn1], ?_, ?_⟩
  · intro name b cs hmc
    rw [hrx] at hmc
    have hmc' := MC_wrap _ x _ b cs hmc
    obtain ⟨c, d, hc1, hc2, hc3, hc4⟩ := hdec _ 0 _ [] _ cs hmc'
    obtain ⟨rfl, _⟩ := (hx1 _ _ _).mp hc1
    exact ⟨d, hc2, (htail f2 x2 e2 _ d _).mp hc3, hc4⟩
  · intro name
    -- the whole list, by `Eqv`
    have hx' := hx
    simp only [List.cons_append, List.nil_append] at hx'
    obtain ⟨g1, hg1⟩ := seqToRe_empty hx'
    obtain ⟨g2, z1, hz1, ez1⟩ := seqToRe_re_eqv hg1
    obtain ⟨g3, z2, hz2, ez2⟩ := seqToRe_re_eqv hz1
    have key : ∀ b, Re.M ⟨true, !cfg.caseSensitive⟩ x ⟨true, name⟩ ⟨b, []⟩ ↔
        name.head? ≠ some '/' ∧ ∃ a1, Re.M ⟨true, !cfg.caseSensitive⟩ emG ⟨true, name⟩ a1 ∧
          Tail ⟨true, !cfg.caseSensitive⟩ cfg.dot tr B a1 b := by
      intro b
      rw [ez1 _ _ _]
      simp only [Re.M]
      constructor
      · rintro ⟨m, hm, hrest⟩
        obtain ⟨rfl, hh⟩ := (M_noRoot _ _ _).mp hm
        have := (ez2 _ _ _).mp hrest
        simp only [Re.M] at this
        obtain ⟨a1, hg, ht⟩ := this
        exact ⟨hh, a1, hg, (htail g3 z2 hz2 _ a1 _).mp ht⟩
      · rintro ⟨hh, a1, hg, ht⟩
        refine ⟨_, (M_noRoot _ _ _).mpr ⟨rfl, hh⟩, (ez2 _ _ _).mpr ?_⟩
        simp only [Re.M]
        exact ⟨a1, hg, (htail g3 z2 hz2 _ a1 _).mpr ht⟩
    unfold Re.FullMatch
    rw [hrx]
    constructor
    · rintro ⟨b, hm⟩
      obtain ⟨hh, a1, hg, ht⟩ := (key b).mp ((M_wrap_iff _ x name b).mp hm)
      exact ⟨hh, a1, b, hg, ht⟩
    · rintro ⟨hh, a1, b, hg, ht⟩
      exact ⟨b, (M_wrap_iff _ x name b).mpr ((key b).mpr ⟨hh, a1, hg, ht⟩)⟩


/-! ### `_fs_match` -/

/-- the spans `re.fullmatch` reports on a clean path -/
theorem em_spans (ctx : PCtx) (hdot : ctx.dot = false) (tr : Bool) (B : List Seg) (hB : globFree B = true) (hBne : B ≠ [])
    (hsc : ∀ s ∈ B, Seg.scope s = true) (r : Re) (hrep : r.repOK = true) (hn : r.ncaps = 1)
    (hruns : ∀ (name : List Char) (b : Bool) (cs : Caps), Re.MC ⟨false, false⟩ r 0 ⟨true, name⟩ [] ⟨b, []⟩ cs →
      ∃ a1, Re.M ⟨true, ctx.ci⟩ emG ⟨true, name⟩ a1 ∧ Tail ⟨true, ctx.ci⟩ ctx.dot tr B a1 b ∧
        cs = [(1, name.length, a1.rest.length)])
    (comps : List Name) (hne : comps ≠ []) (hc : ∀ c ∈ comps, CompOK c) (hvis : ∀ c ∈ comps, visible false c = true)
    (tl : List Char) (htl : allSl tl = true) (hnl : (joinSl comps ++ tl).getLast? ≠ some '\n')
    (spans : List (Option (Nat × Nat))) (hsp : r.fullmatchCap (joinSl comps ++ tl) = some spans) :
    ∃ ds cs, comps = ds ++ cs ∧ cs ≠ [] ∧
      segsMatch ctx .free B cs tr (decide ((joinSl cs ++ tl).getLast? = some '/')) false = true ∧
      spans = [some (0, (joinSl ds).length)] := by
  obtain ⟨b, cs, hmc, rfl⟩ := Re.fullmatchCap_MC r _ hrep spans hsp
  obtain ⟨a1, hG, hT, hcs⟩ := hruns _ b cs hmc
  obtain ⟨ds, cs', h1, h2, h3, h4⟩ := em_split ctx hdot tr B hB hBne hsc comps hne hc hvis tl htl hnl a1 b hG hT
  refine ⟨ds, cs', h1, h2, h4, ?_⟩
  rw [hcs, hn]
  simp only [Re.spansOf, List.range_one, List.map_cons, List.map_nil, Nat.zero_add, List.find?, BEq.rfl]
  congr 3 <;> omega

/-- **`_fs_match` with the regex of `match` for a globstar-free magic pattern `B`**, on a clean path of
    visible components: accepted exactly when the last `|B|` components are in the documented
    language of `B` and no prefix of the components before them is a symbolic link -/
theorem fsMatch_emPath (fs : FS) (ctx : PCtx) (hdot : ctx.dot = false) (tr : Bool) (B : List Seg)
    (hB : globFree B = true) (hBne : B ≠ []) (hsc : ∀ s ∈ B, Seg.scope s = true)
    (r : Re) (hrep : r.repOK = true) (hn : r.ncaps = 1)
    (hruns : ∀ (name : List Char) (b : Bool) (cs : Caps), Re.MC ⟨false, false⟩ r 0 ⟨true, name⟩ [] ⟨b, []⟩ cs →
      ∃ a1, Re.M ⟨true, ctx.ci⟩ emG ⟨true, name⟩ a1 ∧ Tail ⟨true, ctx.ci⟩ ctx.dot tr B a1 b ∧
        cs = [(1, name.length, a1.rest.length)])
    (hfull : ∀ name : List Char, r.FullMatch name ↔ name.head? ≠ some '/' ∧
      ∃ a1 b, Re.M ⟨true, ctx.ci⟩ emG ⟨true, name⟩ a1 ∧ Tail ⟨true, ctx.ci⟩ ctx.dot tr B a1 b)
    (comps : List Name) (hne : comps ≠ []) (hc : ∀ c ∈ comps, CompOK c) (hvis : ∀ c ∈ comps, visible false c = true)
    (tl : List Char) (htl : allSl tl = true) (hnl : (joinSl comps ++ tl).getLast? ≠ some '\n') :
    fsMatch fs r (joinSl comps ++ tl) false = true ↔
      ∃ ds cs, comps = ds ++ cs ∧ cs ≠ [] ∧
        segsMatch ctx .free B cs tr (decide ((joinSl cs ++ tl).getLast? = some '/')) false = true ∧
        ∀ i, i < ds.length → fs.islink (joinSl (ds.take (i + 1))) = false := by
  rw [C04cap.fsMatch_iff]
  constructor
  · rintro ⟨spans, hsp, hg⟩
    obtain ⟨ds, cs, h1, h2, h3, rfl⟩ := em_spans ctx hdot tr B hB hBne hsc r hrep hn hruns comps hne hc hvis tl htl hnl
      spans hsp
    have hg' : fsGroups fs (joinSl comps ++ tl) [some (0, (joinSl ds).length)] = true := by
      rcases hg with hg | hg
      · cases hg
      · exact hg
    subst h1
    have hds : ∀ d ∈ ds, CompOK d := fun d hd => hc d (List.mem_append_left _ hd)
    have hcs : ∀ d ∈ cs, CompOK d := fun d hd => hc d (List.mem_append_right _ hd)
    exact ⟨ds, cs, rfl, h2, h3, (fsGroups_dirs_segs fs ds hds cs h2 hcs tl).mp hg'⟩
  · rintro ⟨ds, cs, rfl, hcsne, hsm, hlinks⟩
    have hds : ∀ d ∈ ds, CompOK d := fun d hd => hc d (List.mem_append_left _ hd)
    have hcs : ∀ d ∈ cs, CompOK d := fun d hd => hc d (List.mem_append_right _ hd)
    obtain ⟨a1, b, hG, hT⟩ := em_build ctx hdot tr B hB hBne hsc ds cs hcsne hc hvis tl htl hnl hsm
    have hhead : (joinSl (ds ++ cs) ++ tl).head? ≠ some '/' := by
      have h1 := joinSl_head (ds ++ cs) hc
      have h2 := joinSl_ne_nil (ds ++ cs) hne hc
      cases hj : joinSl (ds ++ cs) with
      | nil => exact absurd hj h2
      | cons x r => rw [hj] at h1; simpa using h1
    have hfm := (hfull _).mpr ⟨hhead, a1, b, hG, hT⟩
    have hsome := (Re.fullmatchCap_isSome_iff _ _ hrep).mpr hfm
    cases hsp : r.fullmatchCap (joinSl (ds ++ cs) ++ tl) with
    | none => rw [hsp] at hsome; cases hsome
    | some spans =>
      obtain ⟨ds', cs', h1, _, h3, rfl⟩ := em_spans ctx hdot tr B hB hBne hsc r hrep hn hruns _ hne hc hvis tl htl hnl
        spans hsp
      have hl1 := segsMatch_globfree_length ctx .free B hB _ _ _ _ hsm
      have hl2 := segsMatch_globfree_length ctx .free B hB _ _ _ _ h3
      have : ds' = ds := by
        have hlen : ds.length = ds'.length := by
          have := congrArg List.length h1
          simp only [List.length_append] at this
          omega
        exact (List.append_inj h1 hlen).1.symm
      subst this
      exact ⟨_, rfl, Or.inr ((fsGroups_dirs_segs fs ds' hds cs hcsne hcs tl).mpr hlinks)⟩

end WcModel.PB

import WcModel.Proofs.HiddenPathKind
import WcModel.Proofs.BytesTwinRe
/-
  Guarded extended groups at a segment start (the sharp form of the D5 disjunct in path mode).

  An `@(…)` / `+(…)` group at a segment start is as good as a guarded item when every one of its
  alternatives (the pieces of its body between bars) begins well:
    * without DOTGLOB (`grpSafe`, `altScan`): the alternative is a run of segment-start stars (each
      can match empty, even at a dot — D4) followed by a guarded one-character item or a literal
      other than `.`; so the group consumes at least one character, and not a dot first;
    * with DOTGLOB (`grpSafe3`, `altScan3`): the alternative begins with an item that carries
      `_NO_DIR` (or with a literal other than `.`); so the group cannot start to match at a
      `.` / `..` piece.
  `?(…)` / `*(…)` groups can match empty and are never accepted.
  Results: `grpOK_grpSafe : GrpOK grpSafe`, `grpOK3_grpSafe3 : GrpOK3 grpSafe3`.
-/
namespace WcModel
namespace HP
open HF (DotRefusing NoBar isBar Rel)

/-! ## without DOTGLOB -/

/-- does the alternative begin with segment-start stars followed by a guarded item? -/
def altScan : List Item → Bool
  | .re r :: l => if r == starRe then altScan l else isGuardRe r
  | .invOpen _ _ :: .closed _ _ star :: l => star == starRe && altScan l
  | _ => false

def grpSafe (k : GKind) (body : List Item) : Bool :=
  (k == .a || k == .p) && (splitBars body).all altScan

/-- `x` consumes at least one character, and not a dot first -/
def HeadFact (x : Re) : Prop :=
  ∀ md a m, Re.M md x a m → ∃ w, a.rest = w ++ m.rest ∧ w ≠ [] ∧ w.head? ≠ some '.'

theorem guardRe_head (x : Re) (hx : isGuardRe x = true) (md : Mode) (a m : St) (h : Re.M md x a m) :
    ∃ d, a.rest = d :: m.rest ∧ d ≠ '.' := by
  cases x with
  | lit c =>
    simp only [isGuardRe, bne_iff_ne, ne_eq] at hx
    simp only [Re.M] at h
    obtain ⟨d, s, e1, e2, rfl⟩ := h
    exact ⟨d, e1, fun hd => by subst hd; exact hx (HF.charEq_dot md.ci c e2)⟩
  | cat g y =>
    cases y with
    | any =>
      simp only [isGuardRe, beq_iff_eq] at hx; subst hx
      obtain ⟨d, e, h1, _⟩ := guard2_fact oneChar_any md a m h
      exact ⟨d, e, h1⟩
    | cls neg items =>
      simp only [isGuardRe, beq_iff_eq] at hx; subst hx
      obtain ⟨d, e, h1, _⟩ := guard2_fact (oneChar_cls neg items) md a m h
      exact ⟨d, e, h1⟩
    | _ => simp [isGuardRe] at hx
  | _ => simp [isGuardRe] at hx

/-- the regex of an alternative that begins well -/
theorem alt_headFact : ∀ (n : Nat) (p : List Item), p.length ≤ n → altScan p = true →
    ∀ fuel r, Item.seqToRe fuel p = some r → HeadFact r := by
  intro n
  induction n with
  | zero =>
    intro p hl hs
    have : p = [] := List.eq_nil_of_length_eq_zero (by omega)
    subst this; simp [altScan] at hs
  | succ n ih =>
    intro p hl hs fuel r hr
    cases p with
    | nil => simp [altScan] at hs
    | cons x l =>
      have hl' : l.length ≤ n := by simp at hl; omega
      cases x with
      | re r0 =>
        cases fuel with
        | zero => simp [Item.seqToRe] at hr
        | succ f =>
          simp only [Item.seqToRe] at hr
          cases hq : Item.seqToRe f l with
          | none => simp [hq] at hr
          | some r' =>
            simp [hq] at hr; subst hr
            intro md a m hm
            obtain ⟨m1, h1, h2⟩ := M_catE'_split _ _ _ _ _ hm
            simp only [altScan] at hs
            split at hs
            · rename_i hst
              have : r0 = starRe := by simpa using hst
              subst this
              obtain ⟨w0, e0, _, n0⟩ := starRe_fact md a m1 h1
              obtain ⟨w1, e1, ne1, nd1⟩ := ih l hl' hs f r' hq md m1 m h2
              refine ⟨w0 ++ w1, by rw [e0, e1, List.append_assoc], by simp [ne1], ?_⟩
              cases w0 with
              | nil => simpa using nd1
              | cons d t => simpa using n0
            · obtain ⟨d, e0, hd⟩ := guardRe_head r0 hs md a m1 h1
              obtain ⟨w1, e1⟩ := Re.M_suffix md r' m1 m h2
              exact ⟨d :: w1, by rw [e0, e1]; rfl, by simp, by simpa using hd⟩
      | invOpen c b =>
        cases l with
        | nil => simp [altScan] at hs
        | cons y l2 =>
          have hl2 : l2.length ≤ n := by simp at hl'; omega
          cases y with
          | closed t e star =>
            simp only [altScan, Bool.and_eq_true, beq_iff_eq] at hs
            obtain ⟨rfl, hs'⟩ := hs
            cases fuel with
            | zero => simp [Item.seqToRe] at hr
            | succ f =>
              simp only [Item.seqToRe, Option.bind_eq_bind, Option.bind_eq_some_iff, Option.pure_def,
                Option.some.injEq] at hr
              obtain ⟨b', _, la, _, r', hq, hr⟩ := hr
              subst hr
              intro md a m hm
              obtain ⟨m1, h1, h2⟩ := M_catE'_split _ _ _ _ _ hm
              have h1' : Re.M md starRe a m1 := by
                have : Re.M md (.cat (.look true la) starRe) a m1 := by
                  cases c <;> simpa [Re.M] using h1
                simp only [Re.M.eq_5] at this
                obtain ⟨c', h3, h4⟩ := this
                have : c' = a := by simp only [Re.M] at h3; exact h3.1
                subst this
                exact h4
              obtain ⟨w0, e0, _, n0⟩ := starRe_fact md a m1 h1'
              obtain ⟨w1, e1, ne1, nd1⟩ := ih l2 hl2 hs' f r' hq md m1 m h2
              refine ⟨w0 ++ w1, by rw [e0, e1, List.append_assoc], by simp [ne1], ?_⟩
              cases w0 with
              | nil => simpa using nd1
              | cons d t => simpa using n0
          | _ => simp [altScan] at hs
      | _ => simp [altScan] at hs

theorem splitBars_ne_nil (l : List Item) : splitBars l ≠ [] := by
  cases l with
  | nil => simp [splitBars]
  | cons x F =>
    by_cases hx : isBar x = true
    · have : x = .bar := by cases x <;> simp [isBar] at hx ⊢
      subst this; simp [splitBars]
    · obtain ⟨a, as, _, h2⟩ := HF.splitBars_cons_nonbar x (by simpa using hx) F
      rw [h2]; simp

theorem mapM_prop {P : Re → Prop} {Q : List Item → Prop} (f : Nat)
    (hPQ : ∀ p r, Q p → Item.seqToRe f p = some r → P r) :
    ∀ (pieces : List (List Item)) (parts : List Re),
      pieces.mapM (Item.seqToRe f) = some parts → (∀ p ∈ pieces, Q p) →
      (pieces ≠ [] → parts ≠ []) ∧ ∀ r ∈ parts, P r := by
  intro pieces
  induction pieces with
  | nil => intro parts h _; simp at h; subst h; exact ⟨fun h => absurd rfl h, fun r hr => by cases hr⟩
  | cons p ps ih =>
    intro parts h hp
    simp only [List.mapM_cons, Option.bind_eq_bind, Option.bind_eq_some_iff, Option.pure_def,
      Option.some.injEq] at h
    obtain ⟨r, hr, rs, hrs, he⟩ := h
    subst he
    refine ⟨fun _ => by simp, fun x hx => ?_⟩
    rcases List.mem_cons.mp hx with rfl | hx
    · exact hPQ p _ (hp p List.mem_cons_self) hr
    · exact (ih rs hrs (fun q hq => hp q (List.mem_cons_of_mem _ hq))).2 x hx

theorem altOfList_prop {P : Re → Prop} (hP : ∀ x y, P x → P y → P (.alt x y)) :
    ∀ (parts : List Re), parts ≠ [] → (∀ r ∈ parts, P r) → P (altOfList parts)
  | [], h, _ => absurd rfl h
  | [r], _, h => h r List.mem_cons_self
  | r :: r' :: rs, _, h => by
    simp only [altOfList]
    exact hP _ _ (h r List.mem_cons_self)
      (altOfList_prop hP (r' :: rs) (by simp) (fun x hx => h x (List.mem_cons_of_mem _ hx)))

theorem HeadFact.alt {x y : Re} (hx : HeadFact x) (hy : HeadFact y) : HeadFact (.alt x y) := by
  intro md a m h
  simp only [Re.M] at h
  rcases h with h | h
  · exact hx md a m h
  · exact hy md a m h

/-- an `@(` / `+(` group over a body whose regex has `HeadFact` -/
theorem HeadFact.quant {k : GKind} (hk : k = .a ∨ k = .p) (c : Capt) {b : Re} (hb : HeadFact b) :
    HeadFact (quant k c b) := by
  have hplus : HeadFact (.plus (.grp b)) := by
    intro md a m h
    simp only [Re.M.eq_12] at h
    obtain ⟨m1, h1, h2⟩ := h
    obtain ⟨w0, e0, n0, d0⟩ := hb md a m1 (by simpa [Re.M] using h1)
    obtain ⟨w1, e1⟩ := Iter.suffix (Re.M_suffix md (.grp b)) h2
    refine ⟨w0 ++ w1, by rw [e0, e1, List.append_assoc], by simp [n0], ?_⟩
    cases w0 with
    | nil => exact absurd rfl n0
    | cons d t => simpa using d0
  have hgrp : ∀ {x : Re}, HeadFact x → HeadFact (.grp x) :=
    fun hx md a m h => hx md a m (by simpa [Re.M] using h)
  have hcap : ∀ {x : Re}, HeadFact x → HeadFact (.cap x) :=
    fun hx md a m h => hx md a m (by simpa [Re.M] using h)
  rcases hk with rfl | rfl <;> cases c <;> simp only [WcModel.quant]
  · exact hgrp hb
  · simp; exact hcap hb
  · simp; exact hgrp hb
  · exact hplus
  · exact hcap hplus
  · exact hgrp hplus

/-- **`grpSafe` accepts only groups that consume at least one character, no separator, and not a
    dot first** -/
theorem grpOK_grpSafe : GrpOK grpSafe := by
  intro k c body hg hb fuel b hr md a m hm
  simp only [grpSafe, Bool.and_eq_true, Bool.or_eq_true, beq_iff_eq, List.all_eq_true] at hg
  obtain ⟨hk, hall⟩ := hg
  have hhead : HeadFact b := by
    cases fuel with
    | zero => simp [Item.listToRe] at hr
    | succ f =>
      simp only [Item.listToRe, Option.bind_eq_bind, Option.bind_eq_some_iff, Option.pure_def,
        Option.some.injEq] at hr
      obtain ⟨parts, hmm, hr⟩ := hr
      subst hr
      obtain ⟨h1, h2⟩ := mapM_prop (P := HeadFact) (Q := fun p => altScan p = true) f
        (fun p r hq hs => alt_headFact p.length p (Nat.le_refl _) hq f r hs) _ parts hmm hall
      exact altOfList_prop (fun _ _ => HeadFact.alt) parts (h1 (splitBars_ne_nil body)) h2
  obtain ⟨w, e, n1, n2⟩ := HeadFact.quant hk c hhead md a m hm
  obtain ⟨w', e', ns⟩ := (NoSlash.quant k c (hb fuel b hr)) md a m hm
  have : w = w' := List.append_cancel_right (by rw [← e, ← e'])
  subst this
  exact ⟨w, e, ns, n1, n2⟩

/-! ## with DOTGLOB -/

/-- does the alternative begin with an item that refuses a `.` / `..` piece? -/
def altScan3 : List Item → Bool
  | .re r :: _ => isGuardRe3 r
  | .invOpen _ _ :: .closed _ _ star :: _ => star == starRe3
  | _ => false

def grpSafe3 (k : GKind) (body : List Item) : Bool :=
  (k == .a || k == .p) && (splitBars body).all altScan3

/-- `x` cannot start to match where a `.` / `..` piece is ahead -/
def DirRefuse (x : Re) : Prop := ∀ md a m, Re.M md x a m → dotDirAhead a.rest = false

theorem guardRe3_refuse (x : Re) (hx : isGuardRe3 x = true) : DirRefuse x := by
  simp only [isGuardRe3, Bool.or_eq_true, beq_iff_eq] at hx
  rcases hx with (rfl | rfl) | hx
  · exact fun md a m h => (dirGuard_star3 md a m h).1
  · exact fun md a m h => (dirGuard_guardedDot md a m h).1
  · cases x with
    | lit c =>
      simp only [bne_iff_ne, ne_eq] at hx
      intro md a m h
      cases hd : dotDirAhead a.rest with
      | false => rfl
      | true => exact absurd h (HF.refuse_lit hx md a m (dotDirAhead_head hd))
    | cat g y =>
      cases y with
      | any => simp only [beq_iff_eq] at hx; subst hx; exact fun md a m h => (dirGuard_guard3 oneChar_any md a m h).1
      | cls neg items =>
        simp only [beq_iff_eq] at hx; subst hx
        exact fun md a m h => (dirGuard_guard3 (oneChar_cls neg items) md a m h).1
      | _ => simp at hx
    | _ => simp at hx

theorem alt_dirRefuse (p : List Item) (hs : altScan3 p = true) (fuel : Nat) (r : Re)
    (hr : Item.seqToRe fuel p = some r) : DirRefuse r := by
  cases p with
  | nil => simp [altScan3] at hs
  | cons x l =>
    cases x with
    | re r0 =>
      simp only [altScan3] at hs
      cases fuel with
      | zero => simp [Item.seqToRe] at hr
      | succ f =>
        simp only [Item.seqToRe] at hr
        cases hq : Item.seqToRe f l with
        | none => simp [hq] at hr
        | some r' =>
          simp [hq] at hr; subst hr
          intro md a m hm
          obtain ⟨m1, h1, _⟩ := M_catE'_split _ _ _ _ _ hm
          exact guardRe3_refuse r0 hs md a m1 h1
    | invOpen c b =>
      cases l with
      | nil => simp [altScan3] at hs
      | cons y l2 =>
        cases y with
        | closed t e star =>
          simp only [altScan3, beq_iff_eq] at hs
          subst hs
          cases fuel with
          | zero => simp [Item.seqToRe] at hr
          | succ f =>
            simp only [Item.seqToRe, Option.bind_eq_bind, Option.bind_eq_some_iff, Option.pure_def,
              Option.some.injEq] at hr
            obtain ⟨b', _, la, _, r', hq, hr⟩ := hr
            subst hr
            intro md a m hm
            obtain ⟨m1, h1, _⟩ := M_catE'_split _ _ _ _ _ hm
            have h1' : Re.M md starRe3 a m1 := by
              have : Re.M md (.cat (.look true la) starRe3) a m1 := by
                cases c <;> simpa [Re.M] using h1
              simp only [Re.M.eq_5] at this
              obtain ⟨c', h3, h4⟩ := this
              have : c' = a := by simp only [Re.M] at h3; exact h3.1
              subst this
              exact h4
            exact (dirGuard_star3 md a m1 h1').1
        | _ => simp [altScan3] at hs
    | _ => simp [altScan3] at hs

theorem DirRefuse.alt {x y : Re} (hx : DirRefuse x) (hy : DirRefuse y) : DirRefuse (.alt x y) := by
  intro md a m h
  simp only [Re.M] at h
  rcases h with h | h
  · exact hx md a m h
  · exact hy md a m h

theorem DirRefuse.quant {k : GKind} (hk : k = .a ∨ k = .p) (c : Capt) {b : Re} (hb : DirRefuse b) :
    DirRefuse (quant k c b) := by
  have hplus : DirRefuse (.plus (.grp b)) := by
    intro md a m h
    simp only [Re.M.eq_12] at h
    obtain ⟨m1, h1, _⟩ := h
    exact hb md a m1 (by simpa [Re.M] using h1)
  have hgrp : ∀ {x : Re}, DirRefuse x → DirRefuse (.grp x) :=
    fun hx md a m h => hx md a m (by simpa [Re.M] using h)
  have hcap : ∀ {x : Re}, DirRefuse x → DirRefuse (.cap x) :=
    fun hx md a m h => hx md a m (by simpa [Re.M] using h)
  rcases hk with rfl | rfl <;> cases c <;> simp only [WcModel.quant]
  · exact hgrp hb
  · simp; exact hcap hb
  · simp; exact hgrp hb
  · exact hplus
  · exact hcap hplus
  · exact hgrp hplus

/-- **`grpSafe3` accepts only groups that cannot start to match at a `.` / `..` piece** -/
theorem grpOK3_grpSafe3 : GrpOK3 grpSafe3 := by
  intro k c body hg hb fuel b hr md a m hm
  simp only [grpSafe3, Bool.and_eq_true, Bool.or_eq_true, beq_iff_eq, List.all_eq_true] at hg
  obtain ⟨hk, hall⟩ := hg
  have hhead : DirRefuse b := by
    cases fuel with
    | zero => simp [Item.listToRe] at hr
    | succ f =>
      simp only [Item.listToRe, Option.bind_eq_bind, Option.bind_eq_some_iff, Option.pure_def,
        Option.some.injEq] at hr
      obtain ⟨parts, hmm, hr⟩ := hr
      subst hr
      obtain ⟨h1, h2⟩ := mapM_prop (P := DirRefuse) (Q := fun p => altScan3 p = true) f
        (fun p r hq hs => alt_dirRefuse p hq f r hs) _ parts hmm hall
      exact altOfList_prop (fun _ _ => DirRefuse.alt) parts (h1 (splitBars_ne_nil body)) h2
  exact ⟨DirRefuse.quant hk c hhead md a m hm, (NoSlash.quant k c (hb fuel b hr)) md a m hm⟩

end HP
end WcModel

import WcModel.Proofs.TwinToRe
/-
  C08, second clause — counting the capturing groups of a translated regex.

  `Re.capCount`     number of `((?#)…)` groups (`.cap` nodes) of a regex;
  `Item.yesCountL`  number of item nodes that `Item.listToRe` turns into a `.cap`
                    (`group _ .yes _`, `invOpen true _`), tails of closed `!(…)` included.
  Theorem `toRe_count`: `capCount (toRe xs) = capCount (toRe (normL xs)) + yesCountL xs`
  (and the two conversions fail together) — pure bookkeeping about `Item.listToRe`, no parser.
-/
set_option linter.unusedSimpArgs false
namespace WcModel

def Re.capCount : Re → Nat
  | .cap r => 1 + Re.capCount r
  | .gcap r => Re.capCount r
  | .grp r => Re.capCount r
  | .cat a b => Re.capCount a + Re.capCount b
  | .alt a b => Re.capCount a + Re.capCount b
  | .opt r => Re.capCount r
  | .star _ r => Re.capCount r
  | .plus r => Re.capCount r
  | .rep _ _ r => Re.capCount r
  | .look _ r => Re.capCount r
  | .flags _ _ r => Re.capCount r
  | _ => 0

def Capt.bit : Capt → Nat
  | .yes => 1
  | _ => 0

mutual
def Item.yesCount : Item → Nat
  | .group _ c body => c.bit + Item.yesCountL body
  | .invOpen c body => c.toNat + Item.yesCountL body
  | .closed tail _ _ => Item.yesCountL tail
  | _ => 0
def Item.yesCountL : List Item → Nat
  | [] => 0
  | x :: xs => Item.yesCount x + Item.yesCountL xs
end

theorem Re.capCount_ungcap (r : Re) : r.ungcap.capCount = r.capCount := by
  unfold Re.ungcap
  split <;> simp [Re.capCount]

theorem capCount_catE' (a b : Re) : (catE' a b).capCount = a.capCount + b.capCount := by
  unfold catE'
  split
  · rename_i h; simp [h, Re.capCount]
  · split
    · rename_i h; simp [h, Re.capCount]
    · simp [Re.capCount]

theorem capCount_quant (k : GKind) (c : Capt) (r : Re) : (quant k c r).capCount = r.capCount + c.bit := by
  cases k <;> cases c <;> simp [quant, Re.capCount, Capt.bit] <;> omega

def sumCap : List Re → Nat
  | [] => 0
  | r :: rs => r.capCount + sumCap rs

theorem capCount_altOfList : ∀ l : List Re, (altOfList l).capCount = sumCap l
  | [] => rfl
  | [r] => by simp [altOfList, sumCap]
  | r :: r2 :: rs => by
    have := capCount_altOfList (r2 :: rs)
    simp only [altOfList, Re.capCount, sumCap] at this ⊢
    omega

/-! ### the counting relation: `x` against its capture-free form `y`, `n` captures apart -/

mutual
inductive Item.CSim : Nat → Item → Item → Prop
  | re {r r' n} : r.capCount = r'.capCount + n → Item.CSim n (.re r) (.re r')
  | empty {n} : n = 0 → Item.CSim n .empty .empty
  | bar {n} : n = 0 → Item.CSim n .bar .bar
  | ph {s n} : n = 0 → Item.CSim n (.ph s) (.ph s)
  | group {kd c b b' n m} : Item.CSimL n b b' → m = n + c.bit →
      Item.CSim m (.group kd c b) (.group kd .no b')
  | invOpen {c b b' n m} : Item.CSimL n b b' → m = n + c.toNat →
      Item.CSim m (.invOpen c b) (.invOpen false b')
  | closed {t t' e s n} : Item.CSimL n t t' → Item.CSim n (.closed t e s) (.closed t' e s)
inductive Item.CSimL : Nat → List Item → List Item → Prop
  | nil {n} : n = 0 → Item.CSimL n [] []
  | cons {x y xs ys n m k} : Item.CSim n x y → Item.CSimL m xs ys → k = n + m →
      Item.CSimL k (x :: xs) (y :: ys)
end

mutual
theorem Item.csim_norm : ∀ x : Item, Item.CSim x.yesCount x x.norm
  | .re r => by
    simp only [Item.norm_re, Item.yesCount]
    exact .re (by rw [Re.capCount_ungcap]; rfl)
  | .empty => .empty rfl
  | .bar => .bar rfl
  | .ph _ => .ph rfl
  | .group k c body => by
    simp only [Item.norm_group, Item.yesCount]
    exact .group (Item.csimL_normL body) (by omega)
  | .invOpen c body => by
    simp only [Item.norm_invOpen, Item.yesCount]
    exact .invOpen (Item.csimL_normL body) (by omega)
  | .closed tail eop star => by
    simp only [Item.norm_closed, Item.yesCount]
    exact .closed (Item.csimL_normL tail)
theorem Item.csimL_normL : ∀ l : List Item, Item.CSimL (Item.yesCountL l) l (Item.normL l)
  | [] => .nil rfl
  | x :: xs => by
    simp only [Item.normL_cons, Item.yesCountL]
    exact .cons (Item.csim_norm x) (Item.csimL_normL xs) rfl
end

theorem Item.CSimL.append {a a' b b' : List Item} {n m : Nat} (h : Item.CSimL n a a')
    (g : Item.CSimL m b b') : Item.CSimL (n + m) (a ++ b) (a' ++ b') := by
  induction a generalizing a' n with
  | nil =>
    cases h with
    | nil h0 => subst h0; simpa using g
  | cons x xs ih =>
    cases h with
    | cons hx hxs hk => exact .cons hx (ih hxs) (by omega)

def CRel (n : Nat) : Option Re → Option Re → Prop
  | none, none => True
  | some r, some r' => r.capCount = r'.capCount + n
  | _, _ => False

def CRelL (n : Nat) : Option (List Re) → Option (List Re) → Prop
  | none, none => True
  | some r, some r' => sumCap r = sumCap r' + n
  | _, _ => False

theorem CRel.bind₂ {n m : Nat} {a a' : Option Re} (h : CRel n a a') {f f' : Re → Option Re}
    (hf : ∀ r r', r.capCount = r'.capCount + n → CRel m (f r) (f' r')) :
    CRel m (a >>= f) (a' >>= f') := by
  cases a <;> cases a' <;> simp [CRel] at h
  · simp [CRel]
  · simpa using hf _ _ h

inductive Item.CSimLL : Nat → List (List Item) → List (List Item) → Prop
  | nil {n} : n = 0 → Item.CSimLL n [] []
  | cons {x y xs ys n m k} : Item.CSimL n x y → Item.CSimLL m xs ys → k = n + m →
      Item.CSimLL k (x :: xs) (y :: ys)

theorem twConsHead_csim {x y : Item} {a m : Nat} (hx : Item.CSim a x y) {A B : List (List Item)}
    (h : Item.CSimLL m A B) : Item.CSimLL (a + m) (twConsHead x A) (twConsHead y B) := by
  cases h with
  | nil h0 => exact .cons (.cons hx (.nil rfl) rfl) (.nil rfl) (by omega)
  | cons h1 h2 hk => exact .cons (.cons hx h1 rfl) h2 (by omega)

theorem splitBars_csim : ∀ (xs ys : List Item) (n : Nat), Item.CSimL n xs ys →
    Item.CSimLL n (splitBars xs) (splitBars ys)
  | [], _, _, h => by
    cases h with
    | nil h0 => exact .cons (.nil rfl) (.nil rfl) (by omega)
  | x :: xs, _, _, h => by
    cases h with
    | @cons _ y _ ys a m _ hx hxs hk =>
      have ih := splitBars_csim xs ys m hxs
      subst hk
      cases hx with
      | bar h0 => subst h0; exact .cons (.nil rfl) ih rfl
      | re hr => exact twConsHead_csim (.re hr) ih
      | empty h0 => exact twConsHead_csim (.empty h0) ih
      | group hb hm => exact twConsHead_csim (.group hb hm) ih
      | invOpen hb hm => exact twConsHead_csim (.invOpen hb hm) ih
      | ph h0 => exact twConsHead_csim (.ph h0) ih
      | closed hb => exact twConsHead_csim (.closed hb) ih

theorem mapM_csim (g : List Item → Option Re)
    (hg : ∀ n a b, Item.CSimL n a b → CRel n (g a) (g b)) :
    ∀ {n : Nat} {xs ys : List (List Item)}, Item.CSimLL n xs ys → CRelL n (xs.mapM g) (ys.mapM g) := by
  intro n xs ys h
  induction h with
  | nil h0 => subst h0; simp [CRelL]
  | @cons x y xs ys a m k hx hxs hk ih =>
    have h1 := hg a x y hx
    simp only [List.mapM_cons]
    cases hgx : g x <;> cases hgy : g y <;> rw [hgx, hgy] at h1 <;> simp [CRel] at h1
    · simp [CRelL]
    · cases hmx : xs.mapM g <;> cases hmy : ys.mapM g <;> rw [hmx, hmy] at ih <;> simp [CRelL] at ih
      · simp [CRelL]
      · simp [CRelL, sumCap]
        omega

theorem toRe_csim : ∀ f : Nat,
    (∀ n xs ys, Item.CSimL n xs ys → CRel n (Item.seqToRe f xs) (Item.seqToRe f ys)) ∧
    (∀ n xs ys, Item.CSimL n xs ys → CRel n (Item.listToRe f xs) (Item.listToRe f ys))
  | 0 => by
    refine ⟨fun n xs ys _ => ?_, fun n xs ys _ => ?_⟩
    · simp [Item.seqToRe, CRel]
    · simp [Item.listToRe, CRel]
  | f+1 => by
    have ih := toRe_csim f
    refine ⟨fun n xs ys h => ?_, fun n xs ys h => ?_⟩
    · cases h with
      | nil h0 => subst h0; simp [Item.seqToRe, CRel]
      | @cons x y xs ys a m _ hx hxs hk =>
        subst hk
        have hrest := ih.1 m xs ys hxs
        cases hx with
        | re hr =>
          simp only [Item.seqToRe]
          exact hrest.bind₂ (fun r r' h => by simp [CRel, capCount_catE']; omega)
        | empty h0 => subst h0; simpa [Item.seqToRe] using hrest
        | bar _ => simp [Item.seqToRe, CRel]
        | ph _ => simp [Item.seqToRe, CRel]
        | closed _ => simp [Item.seqToRe, CRel]
        | @group kd c b b' nb _ hb hm =>
          subst hm
          simp only [Item.seqToRe]
          exact (ih.2 nb b b' hb).bind₂ (fun r r' h =>
            hrest.bind₂ (fun q q' g => by
              simp [CRel, capCount_catE', capCount_quant, Capt.bit]; omega))
        | @invOpen c b b' nb _ hb hm =>
          subst hm
          clear hrest
          cases hxs with
          | nil _ => simp [Item.seqToRe, CRel]
          | @cons x2 y2 xs2 ys2 a2 m2 _ hx2 hxs2 hk2 =>
            subst hk2
            cases hx2 with
            | re _ => simp [Item.seqToRe, CRel]
            | empty _ => simp [Item.seqToRe, CRel]
            | bar _ => simp [Item.seqToRe, CRel]
            | ph _ => simp [Item.seqToRe, CRel]
            | group _ _ => simp [Item.seqToRe, CRel]
            | invOpen _ _ => simp [Item.seqToRe, CRel]
            | @closed t t' e s nt ht =>
              have hrest2 := ih.1 m2 xs2 ys2 hxs2
              simp only [Item.seqToRe]
              refine (ih.2 nb b b' hb).bind₂ (fun r r' h => ?_)
              have hla : Item.CSimL (nb + (a2 + 0))
                  (Item.re (.grp r) :: t ++ (match e with | some e => [Item.re e] | none => []))
                  (Item.re (.grp r') :: t' ++ (match e with | some e => [Item.re e] | none => [])) := by
                refine .cons (.re (n := nb) (by simp [Re.capCount, h])) (ht.append ?_) rfl
                cases e with
                | none => exact .nil rfl
                | some e => exact .cons (.re (n := 0) rfl) (.nil rfl) rfl
              refine (ih.2 _ _ _ hla).bind₂ (fun la la' hl => ?_)
              refine hrest2.bind₂ (fun q q' g => ?_)
              cases c <;> simp [CRel, capCount_catE', Re.capCount] <;> omega
    · simp only [Item.listToRe]
      have := mapM_csim (Item.seqToRe f) ih.1 (splitBars_csim xs ys n h)
      cases h1 : (splitBars xs).mapM (Item.seqToRe f) <;>
        cases h2 : (splitBars ys).mapM (Item.seqToRe f) <;> rw [h1, h2] at this <;> simp [CRelL] at this
      · simp [CRel]
      · simpa [CRel, capCount_altOfList] using this

/-- **counting**: the conversion of an item list has as many `.cap` groups more than the
    conversion of its normal form as the list has capture-decorated nodes (and the two
    conversions fail together) -/
theorem Parsed.toRe_count (p : Parsed) : CRel (Item.yesCountL p.items) p.toRe p.norm.toRe := by
  unfold Parsed.toRe Parsed.norm
  simp only [Item.sizeL_normL]
  have := (toRe_csim (2 * Item.sizeL p.items + 4)).2 _ _ _ (Item.csimL_normL p.items)
  refine this.bind₂ (fun r r' h => ?_)
  simp [CRel, Re.capCount, h]

end WcModel

import WcModel.Model.CompPath
import WcModel.Proofs.Comp
import WcModel.Proofs.PathFrag
/-
  Semantics of ONE path-mode segment (`compSeg`):

    M (compSeg dot as g) a b  ↔  Pat.L ci g a b  ∧  NoSl a b

  (`NoSl a b`: the text consumed between `a` and `b` contains no separator.)
  * soundness (→) holds for every negation-free `g`, wherever the token stands: every guard is
    a pure restriction;
  * completeness (←) holds away from the segment start unconditionally, and at the segment
    start under `PStart` (the piece is non-empty, does not begin with `.` unless DOTGLOB, and is
    not `.`/`..`) for patterns whose repeated groups at the start carry no guard (D1p).
-/
namespace WcModel

/-! ### the consumed text contains no separator -/

def NoSl (a b : St) : Prop := ∃ pre, a.rest = pre ++ b.rest ∧ '/' ∉ pre

theorem NoSl.refl (a : St) : NoSl a a := ⟨[], rfl, by simp⟩

theorem NoSl.trans {a b c : St} (h₁ : NoSl a b) (h₂ : NoSl b c) : NoSl a c := by
  obtain ⟨p1, e1, n1⟩ := h₁
  obtain ⟨p2, e2, n2⟩ := h₂
  exact ⟨p1 ++ p2, by rw [e1, e2, List.append_assoc], by simp [n1, n2]⟩

theorem St.Suf.pre {a b : St} (h : St.Suf b a) : ∃ pre, a.rest = pre ++ b.rest := by
  rcases h with rfl | ⟨_, pre, _, e⟩
  · exact ⟨[], rfl⟩
  · exact ⟨pre, e⟩

/-- a separator-free span splits into separator-free spans -/
theorem NoSl.split {a b c : St} (h₁ : St.Suf c a) (h₂ : St.Suf b c) (h : NoSl a b) :
    NoSl a c ∧ NoSl c b := by
  obtain ⟨p1, e1⟩ := h₁.pre
  obtain ⟨p2, e2⟩ := h₂.pre
  obtain ⟨pre, e, n⟩ := h
  have : pre = p1 ++ p2 := by
    have h3 : pre ++ b.rest = (p1 ++ p2) ++ b.rest := by rw [← e, e1, e2, List.append_assoc]
    exact List.append_cancel_right h3
  subst this
  simp only [List.mem_append, not_or] at n
  exact ⟨⟨p1, e1, n.1⟩, ⟨p2, e2, n.2⟩⟩

theorem consume1_noSl {p : Char → Bool} {a b : St} (h : consume1 p a b) (hp : ∀ d, p d = true → d ≠ '/') :
    NoSl a b := by
  obtain ⟨d, s, h1, h2, rfl⟩ := h
  exact ⟨[d], by simp [h1], by simpa using (hp d h2).symm⟩

theorem iter_notSlash_noSl {a b : St} (h : Iter (consume1 notSlash) a b) : NoSl a b := by
  obtain ⟨pre, h1, h2⟩ := iter_consume_all h
  refine ⟨pre, h1, fun hm => ?_⟩
  rw [List.all_eq_true] at h2
  have := h2 _ hm
  simp [notSlash] at this

theorem Iter.mono {R S : St → St → Prop} (h : ∀ a b, R a b → S a b) {a b : St} (hi : Iter R a b) :
    Iter S a b := by
  induction hi with
  | refl a => exact Iter.refl a
  | step hab _ ih => exact Iter.step (h _ _ hab) ih

theorem Iter.trans' {R : St → St → Prop} {a b c : St} (h₁ : Iter R a b) (h₂ : Iter R b c) : Iter R a c := by
  induction h₁ with
  | refl a => exact h₂
  | step hab _ ih => exact Iter.step hab (ih h₂)

/-- a run of `p`-characters, given the text -/
theorem iter_of_all {p : Char → Bool} (f : Bool) (pre rest : List Char) (hne : pre ≠ [])
    (hall : pre.all p = true) : Iter (consume1 p) ⟨f, pre ++ rest⟩ ⟨false, rest⟩ := by
  induction pre generalizing f with
  | nil => exact absurd rfl hne
  | cons c pre ih =>
    simp only [List.all_cons, Bool.and_eq_true] at hall
    refine Iter.step (b := ⟨false, pre ++ rest⟩) ⟨c, pre ++ rest, rfl, hall.1, rfl⟩ ?_
    cases pre with
    | nil => exact Iter.refl _
    | cons d pre' => exact ih false (by simp) hall.2

/-- `*` of the documented language restricted to a separator-free span is `[^/]*?` -/
theorem iter_any_noSl {a b : St} (h : Iter (consume1 (fun _ => true)) a b) (hn : NoSl a b) :
    Iter (consume1 notSlash) a b := by
  obtain ⟨pre, e, n⟩ := hn
  rcases iter_consumeAny_split h with rfl | ⟨hf, pre', hne, e'⟩
  · exact Iter.refl _
  · have : pre = pre' := List.append_cancel_right (e.symm.trans e')
    subst this
    rcases a with ⟨af, ar⟩
    rcases b with ⟨bf, br⟩
    simp only at hf e
    subst hf; subst e
    apply iter_of_all af pre br hne
    rw [List.all_eq_true]
    intro x hx
    simp only [notSlash, bne_iff_ne, ne_eq]
    intro hx'
    exact n (hx' ▸ hx)

/-! ### the guards of path mode -/

/-- `(?![/])` -/
theorem M_seqPath (md : Mode) (a b : St) :
    Re.M md (Frag.seqPath false) a b ↔ b = a ∧ a.rest.head? ≠ some '/' := by
  simp only [Frag.seqPath, Re.M.eq_15]
  constructor
  · rintro ⟨rfl, hno⟩
    refine ⟨rfl, fun hh => hno ?_⟩
    cases hr : b.rest with
    | nil => simp [hr] at hh
    | cons d s =>
      simp [hr] at hh
      exact ⟨⟨false, s⟩, (M_sep md _ _).mpr ⟨d, s, hr, by simp [hh], rfl⟩⟩
  · rintro ⟨rfl, hh⟩
    refine ⟨rfl, ?_⟩
    rintro ⟨c, hc⟩
    obtain ⟨d, s, e1, e2, _⟩ := (M_sep md _ _).mp hc
    simp at e2
    simp [e1, e2] at hh

theorem clsSlashDot_iff (ci : Bool) (d : Char) :
    clsMatch ci false (Frag.sepItems false ++ [.chr '.' false]) d = true ↔ (d = '/' ∨ d = '.') := by
  have h1 := clsSlash_iff ci d
  have h2 := clsDot_iff ci d
  simp only [clsMatch, sepItems_unix, List.any_cons, List.any_nil, Bool.or_false, bne_iff_ne, ne_eq,
    Bool.not_eq_false, List.cons_append, List.nil_append, Bool.or_eq_true] at h1 h2 ⊢
  rw [h1, h2]

/-- `(?![/.])` -/
theorem M_seqPathDot (md : Mode) (a b : St) :
    Re.M md (Frag.seqPathDot false) a b ↔
      b = a ∧ a.rest.head? ≠ some '/' ∧ a.rest.head? ≠ some '.' := by
  simp only [Frag.seqPathDot, Re.M.eq_15, Re.M.eq_4]
  constructor
  · rintro ⟨rfl, hno⟩
    refine ⟨rfl, fun hh => hno ?_, fun hh => hno ?_⟩
    all_goals
      cases hr : b.rest with
      | nil => simp [hr] at hh
      | cons d s =>
        simp [hr] at hh
        exact ⟨⟨false, s⟩, d, s, hr, (clsSlashDot_iff md.ci d).mpr (by simp [hh]), rfl⟩
  · rintro ⟨rfl, h1, h2⟩
    refine ⟨rfl, ?_⟩
    rintro ⟨c, d, s, e1, e2, _⟩
    rcases (clsSlashDot_iff md.ci d).mp e2 with rfl | rfl
    · simp [e1] at h1
    · simp [e1] at h2

/-- `(?=[^/])` -/
theorem M_needCharPath (md : Mode) (a b : St) :
    Re.M md (Frag.needCharPath false) a b ↔ b = a ∧ ∃ d s, a.rest = d :: s ∧ d ≠ '/' := by
  simp only [Frag.needCharPath, Re.M.eq_14]
  constructor
  · rintro ⟨rfl, c, hc⟩
    obtain ⟨d, s, e1, e2, _⟩ := (M_notSep md _ _).mp hc
    exact ⟨rfl, d, s, e1, by simpa [notSlash] using e2⟩
  · rintro ⟨rfl, d, s, e1, e2⟩
    exact ⟨rfl, ⟨false, s⟩, (M_notSep md _ _).mpr ⟨d, s, e1, by simpa [notSlash] using e2, rfl⟩⟩

theorem M_noDir_eq (md : Mode) (a b : St) (h : Re.M md (Frag.noDir false) a b) : b = a := by
  simp only [Frag.noDir, Re.M.eq_15] at h
  exact h.1

/-- the `.`/`..` look-ahead of `_NO_DIR` does not fire -/
def NoDirOK (md : Mode) (a : St) : Prop :=
  ¬ ∃ c, Re.M md (.cat (.grp (.rep 1 2 (.lit '.'))) (Frag.pathEop false)) a c

theorem M_noDir (md : Mode) (a b : St) : Re.M md (Frag.noDir false) a b ↔ b = a ∧ NoDirOK md a := by
  simp only [Frag.noDir, Re.M.eq_15, NoDirOK]

/-- the start of a segment pattern stands at the start of a non-empty piece that may be matched
    by wildcards -/
structure PStart (dot : Bool) (md : Mode) (a : St) : Prop where
  ne : ∃ d s, a.rest = d :: s ∧ d ≠ '/'
  nodot : dot = false → a.rest.head? ≠ some '.'
  nodir : NoDirOK md a

theorem PStart.noSlashHead {dot : Bool} {md : Mode} {a : St} (h : PStart dot md a) :
    a.rest.head? ≠ some '/' := by
  obtain ⟨d, s, e, hd⟩ := h.ne
  simp [e, hd]

/-- what the guard of `?` / `[…]` lets through (soundness half) -/
theorem M_pGuard_sound (md : Mode) (dot as : Bool) (a c : St) (h : Re.M md (pGuard dot as) a c) :
    c = a ∧ a.rest.head? ≠ some '/' := by
  unfold pGuard at h
  split at h
  · rw [Re.M.eq_5] at h
    obtain ⟨m, h1, h2⟩ := h
    have hm := M_noDir_eq md a m h1
    subst hm
    split at h2
    · have := (M_seqPathDot md m c).mp h2
      exact ⟨this.1, this.2.1⟩
    · exact (M_seqPath md m c).mp h2
  · exact (M_seqPath md a c).mp h

theorem M_pGuard_false (md : Mode) (dot : Bool) (a c : St) :
    Re.M md (pGuard dot false) a c ↔ c = a ∧ a.rest.head? ≠ some '/' := by
  simp only [pGuard, Bool.false_eq_true, ite_false]
  exact M_seqPath md a c

theorem M_pGuard_true {md : Mode} {dot : Bool} {a : St} (h : PStart dot md a) (c : St) :
    Re.M md (pGuard dot true) a c ↔ c = a := by
  simp only [pGuard, ite_true, Re.M.eq_5]
  constructor
  · rintro ⟨m, h1, h2⟩
    have hm := M_noDir_eq md a m h1
    subst hm
    split at h2
    · exact ((M_seqPathDot md m c).mp h2).1
    · exact ((M_seqPath md m c).mp h2).1
  · rintro rfl
    refine ⟨c, (M_noDir md c c).mpr ⟨rfl, h.nodir⟩, ?_⟩
    cases hd : dot with
    | false =>
      simp only [Bool.not_false, ite_true]
      exact (M_seqPathDot md c c).mpr ⟨rfl, h.noSlashHead, h.nodot hd⟩
    | true =>
      simp only [Bool.not_true, Bool.false_eq_true, ite_false]
      exact (M_seqPath md c c).mpr ⟨rfl, h.noSlashHead⟩

/-- guarded single-character token: soundness -/
theorem guarded1_sound {md : Mode} {dot as : Bool} {r : Re} {p : Char → Bool} {a b : St}
    (hr : ∀ x y, Re.M md r x y ↔ consume1 p x y)
    (h : Re.M md (.cat (pGuard dot as) r) a b) :
    consume1 p a b ∧ NoSl a b := by
  rw [Re.M.eq_5] at h
  obtain ⟨c, h1, h2⟩ := h
  obtain ⟨rfl, hh⟩ := M_pGuard_sound md dot as a c h1
  have hc := (hr _ _).mp h2
  refine ⟨hc, ?_⟩
  obtain ⟨d, s, e1, _, rfl⟩ := hc
  refine ⟨[d], by simp [e1], ?_⟩
  intro hm
  simp at hm
  simp [e1, ← hm] at hh

theorem head_ne_slash_of_noSl {p : Char → Bool} {a b : St} (h : consume1 p a b) (hn : NoSl a b) :
    a.rest.head? ≠ some '/' := by
  obtain ⟨d, s, e1, _, rfl⟩ := h
  obtain ⟨pre, e, n⟩ := hn
  simp only at e
  rw [e1] at e
  cases pre with
  | nil =>
    have := congrArg List.length e
    simp at this
  | cons x xs =>
    simp only [List.cons_append, List.cons.injEq] at e
    simp only [e1, List.head?_cons, ne_eq, Option.some.injEq]
    intro hd
    apply n
    rw [← e.1, hd]
    exact List.mem_cons_self

/-! ### the star of path mode -/

theorem M_pStar_sound (md : Mode) (dot as : Bool) (a b : St) (h : Re.M md (pStar dot as) a b) :
    Iter (consume1 notSlash) a b := by
  unfold pStar at h
  split at h
  · rw [Re.M.eq_5] at h
    obtain ⟨m, h1, h2⟩ := h
    obtain ⟨rfl, _⟩ := (M_needCharPath md a m).mp h1
    split at h2
    · simp only [Frag.pathStarDot2, Re.M.eq_5] at h2
      obtain ⟨m', h3, h4⟩ := h2
      have := M_noDir_eq md m m' h3
      subst this
      simp only [Re.M.eq_10, Re.M.eq_7, Re.M.eq_5] at h4
      rcases h4 with rfl | ⟨c, h5, h6⟩
      · exact Iter.refl _
      · simp only [Re.M.eq_15] at h5
        obtain ⟨rfl, _⟩ := h5
        exact (pathStar_sem md _ _).mp h6
    · simp only [Frag.pathStarDot1, Re.M.eq_5] at h2
      obtain ⟨m', h3, h4⟩ := h2
      have := M_noDir_eq md m m' h3
      subst this
      exact (pathStar_sem md _ _).mp h4
  · exact (pathStar_sem md _ _).mp h

theorem M_pStar_false (md : Mode) (dot : Bool) (a b : St) :
    Re.M md (pStar dot false) a b ↔ Iter (consume1 notSlash) a b := by
  simp only [pStar, Bool.false_eq_true, ite_false]
  exact pathStar_sem md a b

theorem M_pStar_true {md : Mode} {dot : Bool} {a : St} (hs : PStart dot md a) (b : St) :
    Re.M md (pStar dot true) a b ↔ Iter (consume1 notSlash) a b := by
  constructor
  · exact M_pStar_sound md dot true a b
  · intro h
    simp only [pStar, ite_true, Re.M.eq_5]
    refine ⟨a, (M_needCharPath md a a).mpr ⟨rfl, hs.ne⟩, ?_⟩
    cases hd : dot with
    | false =>
      simp only [Bool.not_false, ite_true, Frag.pathStarDot2, Re.M.eq_5]
      refine ⟨a, (M_noDir md a a).mpr ⟨rfl, hs.nodir⟩, ?_⟩
      simp only [Re.M.eq_10, Re.M.eq_7, Re.M.eq_5]
      right
      refine ⟨a, ?_, (pathStar_sem md _ _).mpr h⟩
      rw [Re.M.eq_15]
      refine ⟨rfl, ?_⟩
      rintro ⟨c, hc⟩
      obtain ⟨d, s, e1, e2, _⟩ := (M_lit_dot md a c).mp hc
      simp at e2
      have := hs.nodot hd
      simp [e1, e2] at this
    | true =>
      simp only [Bool.not_true, Bool.false_eq_true, ite_false, Frag.pathStarDot1, Re.M.eq_5]
      exact ⟨a, (M_noDir md a a).mpr ⟨rfl, hs.nodir⟩, (pathStar_sem md _ _).mpr h⟩


/-! ### the segment compiler -/

theorem nonLetter_slash' : nonLetter '/' := nonLetter_slash

theorem charEq_slash {ci : Bool} {c d : Char} (hc : c ≠ '/') (h : charEq ci c d = true) : d ≠ '/' := by
  rintro rfl
  unfold charEq at h
  cases ci with
  | false => simp at h; exact hc h
  | true =>
    simp only [ite_true, beq_iff_eq] at h
    have h1 : asciiLower '/' = '/' := by decide
    rw [h1] at h
    exact hc ((asciiLower_eq_nonLetter nonLetter_slash c).mp h)

/-- the compilation of a sequence whose head is not a negation -/
theorem compSeg_seq (dot as : Bool) (p q : Pat) (hp : p.negFree = true) :
    compSeg dot as (.seq p q) = .cat (compSeg dot as p) (compSeg dot (as && p.isEmpty) q) := by
  cases p with
  | ext k body =>
    cases k <;> first | rfl | (simp [Pat.negFree] at hp)
  | _ => rfl

theorem Iter.sound {R S : St → St → Prop} (h : ∀ x y, R x y → S x y ∧ NoSl x y) {a b : St}
    (hi : Iter R a b) : Iter S a b ∧ NoSl a b := by
  induction hi with
  | refl a => exact ⟨Iter.refl a, NoSl.refl a⟩
  | step hab _ ih =>
    obtain ⟨h1, h2⟩ := h _ _ hab
    exact ⟨Iter.step h1 ih.1, h2.trans ih.2⟩

theorem Iter.complete {R S : St → St → Prop} (hs : ∀ x y, S x y → St.Suf y x)
    (h : ∀ x y, S x y → NoSl x y → R x y) {a b : St}
    (hi : Iter S a b) : NoSl a b → Iter R a b := by
  induction hi with
  | refl a => intro _; exact Iter.refl a
  | step hab hbc ih =>
    intro hn
    obtain ⟨n1, n2⟩ := NoSl.split (hs _ _ hab) (Iter.suf hs hbc) hn
    exact Iter.step (h _ _ hab n1) (ih n2)

theorem M_cls_scls (ci neg : Bool) (items : List SCls) (x y : St) :
    Re.M ⟨true, ci⟩ (.cls neg (items.map (SCls.toClsItem false))) x y ↔
      consume1 (sclsMatch ci neg items) x y := by
  simp only [Re.M]
  exact consume1_congr (cls_sem false ci neg items) x y

/-- **soundness**: whatever the compiled segment consumes is in the documented language of the
    segment pattern and contains no separator — at the start or not, whatever the subject. -/
theorem compSeg_sound (dot ci : Bool) (g : Pat) (hn : g.negFree = true) (hs : g.noSlash = true) :
    ∀ as a b, Re.M ⟨true, ci⟩ (compSeg dot as g) a b → Pat.L ci g a b ∧ NoSl a b := by
  induction g with
  | eps => intro as a b h; simp only [compSeg, Re.M] at h; subst h; exact ⟨rfl, NoSl.refl _⟩
  | lit c =>
    intro as a b h
    have hc : c ≠ '/' := by simpa [Pat.noSlash] using hs
    simp only [compSeg, Re.M] at h
    exact ⟨h, consume1_noSl h (fun d hd => charEq_slash hc hd)⟩
  | any =>
    intro as a b h
    simp only [compSeg, Frag.qmark] at h
    exact guarded1_sound (fun x y => M_any_dotall ci x y) h
  | star =>
    intro as a b h
    simp only [compSeg] at h
    have := M_pStar_sound _ dot as a b h
    exact ⟨Iter.mono (fun x y hxy => by
      obtain ⟨d, s, e1, _, e3⟩ := hxy; exact ⟨d, s, e1, rfl, e3⟩) this, iter_notSlash_noSl this⟩
  | cls neg items =>
    intro as a b h
    simp only [compSeg] at h
    exact guarded1_sound (fun x y => M_cls_scls ci neg items x y) h
  | seq p q ihp ihq =>
    intro as a b h
    simp only [Pat.negFree, Bool.and_eq_true] at hn
    simp only [Pat.noSlash, Bool.and_eq_true] at hs
    rw [compSeg_seq _ _ _ _ hn.1, Re.M.eq_5] at h
    obtain ⟨c, h1, h2⟩ := h
    obtain ⟨l1, n1⟩ := ihp hn.1 hs.1 _ _ _ h1
    obtain ⟨l2, n2⟩ := ihq hn.2 hs.2 _ _ _ h2
    exact ⟨⟨c, l1, l2⟩, n1.trans n2⟩
  | alt p q ihp ihq =>
    intro as a b h
    simp only [Pat.negFree, Bool.and_eq_true] at hn
    simp only [Pat.noSlash, Bool.and_eq_true] at hs
    simp only [compSeg, Re.M] at h
    rcases h with h | h
    · obtain ⟨l, n⟩ := ihp hn.1 hs.1 _ _ _ h
      exact ⟨Or.inl l, n⟩
    · obtain ⟨l, n⟩ := ihq hn.2 hs.2 _ _ _ h
      exact ⟨Or.inr l, n⟩
  | ext k p ih =>
    intro as a b h
    cases k with
    | neg => simp [Pat.negFree] at hn
    | opt =>
      have ih' := ih (by simpa [Pat.negFree] using hn) (by simpa [Pat.noSlash] using hs) as
      simp only [compSeg, quantRe, Re.M] at h
      rcases h with rfl | h
      · exact ⟨Or.inl rfl, NoSl.refl _⟩
      · obtain ⟨l, n⟩ := ih' _ _ h
        exact ⟨Or.inr l, n⟩
    | star =>
      have ih' := ih (by simpa [Pat.negFree] using hn) (by simpa [Pat.noSlash] using hs) as
      simp only [compSeg, quantRe, Re.M] at h
      exact Iter.sound (fun x y hxy => ih' x y hxy) h
    | plus =>
      have ih' := ih (by simpa [Pat.negFree] using hn) (by simpa [Pat.noSlash] using hs) as
      simp only [compSeg, quantRe, Re.M] at h
      obtain ⟨c, h1, h2⟩ := h
      obtain ⟨l1, n1⟩ := ih' _ _ h1
      obtain ⟨l2, n2⟩ := Iter.sound (S := Pat.L ci p) (fun x y hxy => ih' x y hxy) h2
      exact ⟨⟨c, l1, l2⟩, n1.trans n2⟩
    | one =>
      have ih' := ih (by simpa [Pat.negFree] using hn) (by simpa [Pat.noSlash] using hs) as
      simp only [compSeg, quantRe, Re.M] at h
      exact ih' _ _ h

/-- **completeness away from the segment start** -/
theorem compSeg_false_complete (dot ci : Bool) (g : Pat) (hn : g.negFree = true) :
    ∀ a b, Pat.L ci g a b → NoSl a b → Re.M ⟨true, ci⟩ (compSeg dot false g) a b := by
  induction g with
  | eps => intro a b h _; simpa [compSeg, Re.M, Pat.L] using h
  | lit c => intro a b h _; simpa [compSeg, Re.M, Pat.L] using h
  | any =>
    intro a b h hns
    simp only [Pat.L] at h
    simp only [compSeg, Frag.qmark, Re.M.eq_5]
    exact ⟨a, (M_pGuard_false _ dot a a).mpr ⟨rfl, head_ne_slash_of_noSl h hns⟩, (M_any_dotall ci a b).mpr h⟩
  | star =>
    intro a b h hns
    simp only [Pat.L] at h
    simp only [compSeg]
    exact (M_pStar_false _ dot a b).mpr (iter_any_noSl h hns)
  | cls neg items =>
    intro a b h hns
    simp only [Pat.L] at h
    simp only [compSeg, Re.M.eq_5]
    exact ⟨a, (M_pGuard_false _ dot a a).mpr ⟨rfl, head_ne_slash_of_noSl h hns⟩,
      (M_cls_scls ci neg items a b).mpr h⟩
  | seq p q ihp ihq =>
    intro a b h hns
    simp only [Pat.negFree, Bool.and_eq_true] at hn
    rw [compSeg_seq _ _ _ _ hn.1, Re.M.eq_5]
    obtain ⟨c, l1, l2⟩ := h
    obtain ⟨n1, n2⟩ := NoSl.split (Pat.L_suf ci p _ _ l1) (Pat.L_suf ci q _ _ l2) hns
    exact ⟨c, ihp hn.1 _ _ l1 n1, ihq hn.2 _ _ l2 n2⟩
  | alt p q ihp ihq =>
    intro a b h hns
    simp only [Pat.negFree, Bool.and_eq_true] at hn
    simp only [compSeg, Re.M]
    rcases h with h | h
    · exact Or.inl (ihp hn.1 _ _ h hns)
    · exact Or.inr (ihq hn.2 _ _ h hns)
  | ext k p ih =>
    intro a b h hns
    cases k with
    | neg => simp [Pat.negFree] at hn
    | opt =>
      have ih' := ih (by simpa [Pat.negFree] using hn)
      simp only [compSeg, quantRe, Re.M]
      rcases h with h | h
      · exact Or.inl h
      · exact Or.inr (ih' _ _ h hns)
    | star =>
      have ih' := ih (by simpa [Pat.negFree] using hn)
      simp only [compSeg, quantRe, Re.M]
      exact Iter.complete (Pat.L_suf ci p) ih' h hns
    | plus =>
      have ih' := ih (by simpa [Pat.negFree] using hn)
      simp only [compSeg, quantRe, Re.M]
      obtain ⟨c, l1, l2⟩ := h
      obtain ⟨n1, n2⟩ := NoSl.split (Pat.L_suf ci p _ _ l1) (Iter.suf (Pat.L_suf ci p) l2) hns
      exact ⟨c, ih' _ _ l1 n1, Iter.complete (Pat.L_suf ci p) ih' l2 n2⟩
    | one =>
      have ih' := ih (by simpa [Pat.negFree] using hn)
      simp only [compSeg, quantRe, Re.M]
      exact ih' _ _ h hns

/-- where no token at a start position is a wildcard, compiling "at the start" and "not at the
    start" coincide (path mode: `?` and brackets carry `_NO_DIR` even under DOTGLOB, so the
    condition is `guardFree false`) -/
theorem compSeg_guardFree (dot : Bool) (g : Pat) (hg : g.guardFree false = true) (hn : g.negFree = true) :
    compSeg dot true g = compSeg dot false g := by
  induction g with
  | eps => rfl
  | lit c => rfl
  | any => simp [Pat.guardFree] at hg
  | star => simp [Pat.guardFree] at hg
  | cls n i => simp [Pat.guardFree] at hg
  | seq p q ihp ihq =>
    simp only [Pat.negFree, Bool.and_eq_true] at hn
    simp only [Pat.guardFree, Bool.and_eq_true] at hg
    rw [compSeg_seq _ _ _ _ hn.1, compSeg_seq _ _ _ _ hn.1, ihp hg.1 hn.1]
    cases he : p.isEmpty with
    | true =>
      have : q.guardFree false = true := by simpa [he] using hg.2
      simp [ihq this hn.2]
    | false => simp
  | alt p q ihp ihq =>
    simp only [Pat.negFree, Bool.and_eq_true] at hn
    simp only [Pat.guardFree, Bool.and_eq_true] at hg
    simp only [compSeg, ihp hg.1 hn.1, ihq hg.2 hn.2]
  | ext k p ih =>
    cases k with
    | neg => simp [Pat.negFree] at hn
    | opt => simp only [compSeg, ih (by simpa [Pat.guardFree] using hg) (by simpa [Pat.negFree] using hn)]
    | star => simp only [compSeg, ih (by simpa [Pat.guardFree] using hg) (by simpa [Pat.negFree] using hn)]
    | plus => simp only [compSeg, ih (by simpa [Pat.guardFree] using hg) (by simpa [Pat.negFree] using hn)]
    | one => simp only [compSeg, ih (by simpa [Pat.guardFree] using hg) (by simpa [Pat.negFree] using hn)]

/-- **completeness at the segment start** (D1p excluded by `startSafe false`) -/
theorem compSeg_true_complete (dot ci : Bool) (g : Pat) (hn : g.negFree = true)
    (hst : g.startSafe false = true) :
    ∀ a b, PStart dot ⟨true, ci⟩ a → Pat.L ci g a b → NoSl a b →
      Re.M ⟨true, ci⟩ (compSeg dot true g) a b := by
  induction g with
  | eps => intro a b _ h _; simpa [compSeg, Re.M, Pat.L] using h
  | lit c => intro a b _ h _; simpa [compSeg, Re.M, Pat.L] using h
  | any =>
    intro a b hps h _
    simp only [Pat.L] at h
    simp only [compSeg, Frag.qmark, Re.M.eq_5]
    exact ⟨a, (M_pGuard_true hps a).mpr rfl, (M_any_dotall ci a b).mpr h⟩
  | star =>
    intro a b hps h hns
    simp only [Pat.L] at h
    simp only [compSeg]
    exact (M_pStar_true hps b).mpr (iter_any_noSl h hns)
  | cls neg items =>
    intro a b hps h _
    simp only [Pat.L] at h
    simp only [compSeg, Re.M.eq_5]
    exact ⟨a, (M_pGuard_true hps a).mpr rfl, (M_cls_scls ci neg items a b).mpr h⟩
  | seq p q ihp ihq =>
    intro a b hps h hns
    simp only [Pat.negFree, Bool.and_eq_true] at hn
    simp only [Pat.startSafe, Bool.and_eq_true] at hst
    rw [compSeg_seq _ _ _ _ hn.1, Re.M.eq_5]
    obtain ⟨c, l1, l2⟩ := h
    obtain ⟨n1, n2⟩ := NoSl.split (Pat.L_suf ci p _ _ l1) (Pat.L_suf ci q _ _ l2) hns
    refine ⟨c, ihp hn.1 hst.1 _ _ hps l1 n1, ?_⟩
    cases he : p.isEmpty with
    | true =>
      have hq : q.startSafe false = true := by simpa [he] using hst.2
      have : c = a := (L_of_isEmpty ci p he a c).mp l1
      subst this
      simpa using ihq hn.2 hq _ _ hps l2 n2
    | false =>
      simpa using compSeg_false_complete dot ci q hn.2 _ _ l2 n2
  | alt p q ihp ihq =>
    intro a b hps h hns
    simp only [Pat.negFree, Bool.and_eq_true] at hn
    simp only [Pat.startSafe, Bool.and_eq_true] at hst
    simp only [compSeg, Re.M]
    rcases h with h | h
    · exact Or.inl (ihp hn.1 hst.1 _ _ hps h hns)
    · exact Or.inr (ihq hn.2 hst.2 _ _ hps h hns)
  | ext k p ih =>
    intro a b hps h hns
    cases k with
    | neg => simp [Pat.negFree] at hn
    | star =>
      have hgf : p.guardFree false = true := by simpa [Pat.startSafe] using hst
      have hnf : p.negFree = true := by simpa [Pat.negFree] using hn
      have heq : compSeg dot true (.ext .star p) = compSeg dot false (.ext .star p) := by
        simp only [compSeg, compSeg_guardFree dot p hgf hnf]
      rw [heq]
      exact compSeg_false_complete dot ci (.ext .star p) hn a b h hns
    | plus =>
      have hgf : p.guardFree false = true := by simpa [Pat.startSafe] using hst
      have hnf : p.negFree = true := by simpa [Pat.negFree] using hn
      have heq : compSeg dot true (.ext .plus p) = compSeg dot false (.ext .plus p) := by
        simp only [compSeg, compSeg_guardFree dot p hgf hnf]
      rw [heq]
      exact compSeg_false_complete dot ci (.ext .plus p) hn a b h hns
    | opt =>
      have ih' := ih (by simpa [Pat.negFree] using hn) (by simpa [Pat.startSafe] using hst)
      simp only [compSeg, quantRe, Re.M]
      rcases h with h | h
      · exact Or.inl h
      · exact Or.inr (ih' _ _ hps h hns)
    | one =>
      have ih' := ih (by simpa [Pat.negFree] using hn) (by simpa [Pat.startSafe] using hst)
      simp only [compSeg, quantRe, Re.M]
      exact ih' _ _ hps h hns

/-- **one segment, at its start**: the compiled regex consumes exactly a separator-free text in
    the documented language of the segment pattern -/
theorem compSeg_start_sem (dot ci : Bool) (g : Pat) (hn : g.negFree = true) (hs : g.noSlash = true)
    (hst : g.startSafe false = true) (a b : St) (hps : PStart dot ⟨true, ci⟩ a) :
    Re.M ⟨true, ci⟩ (compSeg dot true g) a b ↔ (Pat.L ci g a b ∧ NoSl a b) :=
  ⟨compSeg_sound dot ci g hn hs true a b,
   fun h => compSeg_true_complete dot ci g hn hst a b hps h.1 h.2⟩

/-- **one segment, away from its start** -/
theorem compSeg_false_sem (dot ci : Bool) (g : Pat) (hn : g.negFree = true) (hs : g.noSlash = true)
    (a b : St) :
    Re.M ⟨true, ci⟩ (compSeg dot false g) a b ↔ (Pat.L ci g a b ∧ NoSl a b) :=
  ⟨compSeg_sound dot ci g hn hs false a b,
   fun h => compSeg_false_complete dot ci g hn a b h.1 h.2⟩

end WcModel

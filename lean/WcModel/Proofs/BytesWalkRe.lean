import WcModel.Model.RegexCap
import WcModel.Proofs.BytesTwinRe
/-
  C18 on the walkers — regex level.

  `Proofs/BytesTwinRe.lean` shows that bytes twins (`ReBytesTwin`: equal except for the spelling
  `[\x00-\xff]` / `[\x00-\U0010ffff]` of "every code unit") have the same declarative semantics
  `Re.M` on Latin-1 subjects.  The layers above the parser run the two EXECUTABLE matchers:
    * `Re.fullmatch` (per-part matchers of the walker, `_is_excluded`, `_Match.match` without REALPATH);
    * `Re.fullmatchCap` (`_Match._fs_match` under REALPATH: the spans of the `**` capture groups).
  Here: on a Latin-1 subject twins give the SAME value of both
  (`ReBytesTwin.fullmatch_eq`, `ReBytesTwin.fullmatchCap_eq` — all capture spans included).
-/
namespace WcModel

theorem Latin1.nil : Latin1 [] := fun _ h => nomatch h

theorem Latin1.cons {c : Char} {s : List Char} (hc : c.toNat < 256) (hs : Latin1 s) : Latin1 (c :: s) := by
  intro d hd
  rcases List.mem_cons.mp hd with rfl | h
  · exact hc
  · exact hs d h

theorem Latin1.append {s t : List Char} (hs : Latin1 s) (ht : Latin1 t) : Latin1 (s ++ t) := by
  intro d hd
  rcases List.mem_append.mp hd with h | h
  · exact hs d h
  · exact ht d h

theorem Latin1.of_prefix {s t : List Char} (h : Latin1 (s ++ t)) : Latin1 s :=
  fun d hd => h d (List.mem_append_left _ hd)

theorem Latin1.sublist {s t : List Char} (hst : s.Sublist t) (h : Latin1 t) : Latin1 s :=
  fun d hd => h d (hst.subset hd)

/-! ### the executable existence matcher -/

theorem ReBytesTwin.fullmatch_eq {r₁ r₂ : Re} (h : ReBytesTwin r₁ r₂) (s : List Char) (hs : Latin1 s) :
    r₁.fullmatch s = r₂.fullmatch s := by
  have h' := h.fullMatch_iff s hs
  rw [← Re.fullmatch_iff, ← Re.fullmatch_iff] at h'
  cases h1 : r₁.fullmatch s <;> cases h2 : r₂.fullmatch s <;> simp_all

/-! ### the capture matcher -/

theorem Re.ncaps_bnorm (r : Re) : r.bnorm.ncaps = r.ncaps := by
  induction r <;> simp_all [Re.bnorm, Re.ncaps]

theorem Re.size_bnorm (r : Re) : r.bnorm.size = r.size := by
  induction r <;> simp_all [Re.bnorm, Re.size]

theorem ReBytesTwin.ncaps_eq {r₁ r₂ : Re} (h : ReBytesTwin r₁ r₂) : r₁.ncaps = r₂.ncaps := by
  rw [← Re.ncaps_bnorm r₁, ← Re.ncaps_bnorm r₂, h.bnorm_eq]

theorem ReBytesTwin.size_eq {r₁ r₂ : Re} (h : ReBytesTwin r₁ r₂) : r₁.size = r₂.size := by
  rw [← Re.size_bnorm r₁, ← Re.size_bnorm r₂, h.bnorm_eq]

theorem stepC_latin1 {p : Char → Bool} {a b : St} (h : stepC p a = some b) (ha : Latin1 a.rest) :
    Latin1 b.rest := by
  unfold stepC at h
  cases hr : a.rest with
  | nil => rw [hr] at h; cases h
  | cons d s =>
    rw [hr] at h ha
    simp only at h
    split at h
    · cases h; exact ha.tail
    · cases h

theorem stepC_normItems (ci neg : Bool) (items : List ClsItem) (a : St) (ha : Latin1 a.rest) :
    stepC (clsMatch ci neg (normItems items)) a = stepC (clsMatch ci neg items) a := by
  unfold normItems
  split
  · rename_i hi
    subst hi
    unfold stepC
    cases hr : a.rest with
    | nil => rfl
    | cons d s =>
      have hd : d.toNat < 256 := ha d (by rw [hr]; exact List.mem_cons_self)
      simp only [clsMatch_full_latin1 _ _ _ _ hd]
  · rfl

/-- the capture matcher does not see the spelling of the full range: every state it visits is a
    suffix of the (Latin-1) subject -/
theorem Re.runCap_bnorm : ∀ (fuel : Nat) (md : Mode) (r : Re) (base : Nat) (a : St) (cs : Caps) (k₁ k₂ : Kont),
    Latin1 a.rest → (∀ b cs', Latin1 b.rest → k₁ b cs' = k₂ b cs') →
    Re.runCap fuel md r.bnorm base a cs k₁ = Re.runCap fuel md r base a cs k₂ := by
  intro fuel
  induction fuel with
  | zero => intros; rfl
  | succ n ih =>
    intro md r base a cs k₁ k₂ ha hk
    have hstep : ∀ (p : Char → Bool),
        (match stepC p a with | some b => k₁ b cs | none => none) =
        (match stepC p a with | some b => k₂ b cs | none => none) := by
      intro p
      cases hp : stepC p a with
      | none => rfl
      | some b => exact hk b cs (stepC_latin1 hp ha)
    cases r with
    | eps => simp only [Re.bnorm, Re.runCap]; exact hk a cs ha
    | lit c => simp only [Re.bnorm, Re.runCap]; exact hstep _
    | any => simp only [Re.bnorm, Re.runCap]; exact hstep _
    | cls neg items =>
      simp only [Re.bnorm, Re.runCap]
      rw [stepC_normItems _ _ _ _ ha]
      exact hstep _
    | cat r₁ r₂ =>
      simp only [Re.bnorm, Re.runCap, Re.ncaps_bnorm]
      exact ih md r₁ base a cs _ _ ha (fun b cs' hb => ih md r₂ _ b cs' k₁ k₂ hb hk)
    | alt r₁ r₂ =>
      simp only [Re.bnorm, Re.runCap, Re.ncaps_bnorm]
      rw [ih md r₁ base a cs k₁ k₂ ha hk, ih md r₂ _ a cs k₁ k₂ ha hk]
    | grp r => simp only [Re.bnorm, Re.runCap]; exact ih md r base a cs k₁ k₂ ha hk
    | cap r =>
      simp only [Re.bnorm, Re.runCap]
      exact ih md r _ a cs _ _ ha (fun b cs' hb => hk b _ hb)
    | gcap r =>
      simp only [Re.bnorm, Re.runCap]
      exact ih md r _ a cs _ _ ha (fun b cs' hb => hk b _ hb)
    | opt r =>
      simp only [Re.bnorm, Re.runCap]
      rw [ih md r base a cs k₁ k₂ ha hk, hk a cs ha]
    | star lzy r =>
      have hstar : ∀ l, ∀ b cs', Latin1 b.rest →
          Re.runCap n md (.star l r.bnorm) base b cs' k₁ = Re.runCap n md (.star l r) base b cs' k₂ :=
        fun l b cs' hb => ih md (.star l r) base b cs' k₁ k₂ hb hk
      simp only [Re.bnorm, Re.runCap]
      cases lzy with
      | true =>
        simp only [if_true]
        rw [hk a cs ha]
        rw [ih md r base a cs _ _ ha (fun b cs' hb => by
          show (if b.rest.length < a.rest.length then Re.runCap n md (.star true r.bnorm) base b cs' k₁ else none) =
            (if b.rest.length < a.rest.length then Re.runCap n md (.star true r) base b cs' k₂ else none)
          rw [hstar true b cs' hb])]
      | false =>
        simp only [Bool.false_eq_true, if_false]
        rw [hk a cs ha]
        rw [ih md r base a cs _ _ ha (fun b cs' hb => by
          show (if b.rest.length < a.rest.length then Re.runCap n md (.star false r.bnorm) base b cs' k₁ else k₁ b cs') =
            (if b.rest.length < a.rest.length then Re.runCap n md (.star false r) base b cs' k₂ else k₂ b cs')
          rw [hstar false b cs' hb, hk b cs' hb])]
    | plus r =>
      simp only [Re.bnorm, Re.runCap]
      exact ih md r base a cs _ _ ha (fun b cs' hb => by
        show (if b.rest.length < a.rest.length then Re.runCap n md (.star false r.bnorm) base b cs' k₁ else k₁ b cs') =
          (if b.rest.length < a.rest.length then Re.runCap n md (.star false r) base b cs' k₂ else k₂ b cs')
        rw [show Re.runCap n md (.star false r.bnorm) base b cs' k₁ = _ from
          ih md (.star false r) base b cs' k₁ k₂ hb hk, hk b cs' hb])
    | rep lo hi r =>
      simp only [Re.bnorm, Re.runCap]
      rw [hk a cs ha]
      rw [ih md r base a cs (fun b cs' => Re.runCap n md (.rep (lo - 1) (hi - 1) r.bnorm) base b cs' k₁)
        (fun b cs' => Re.runCap n md (.rep (lo - 1) (hi - 1) r) base b cs' k₂) ha
        (fun b cs' hb => ih md (.rep (lo - 1) (hi - 1) r) base b cs' k₁ k₂ hb hk)]
    | look neg r =>
      cases neg with
      | false =>
        simp only [Re.bnorm, Re.runCap]
        rw [ih md r base a cs (fun _ cs' => some cs') (fun _ cs' => some cs') ha (fun _ _ _ => rfl)]
        cases Re.runCap n md r base a cs (fun _ cs' => some cs') with
        | none => rfl
        | some cs' => exact hk a cs' ha
      | true =>
        simp only [Re.bnorm, Re.runCap]
        rw [ih md r base a cs (fun _ cs' => some cs') (fun _ cs' => some cs') ha (fun _ _ _ => rfl)]
        cases Re.runCap n md r base a cs (fun _ cs' => some cs') with
        | none => exact hk a cs ha
        | some cs' => rfl
    | bos => simp only [Re.bnorm, Re.runCap]; rw [hk a cs ha]
    | eos => simp only [Re.bnorm, Re.runCap]; rw [hk a cs ha]
    | flags s i r => simp only [Re.bnorm, Re.runCap]; exact ih ⟨s, i⟩ r base a cs k₁ k₂ ha hk

theorem Re.fullmatchCap_bnorm (r : Re) (s : List Char) (hs : Latin1 s) :
    r.bnorm.fullmatchCap s = r.fullmatchCap s := by
  unfold Re.fullmatchCap
  simp only [Re.size_bnorm, Re.ncaps_bnorm]
  rw [Re.runCap_bnorm _ _ r 0 ⟨true, s⟩ [] _ _ hs (fun _ _ _ => rfl)]

/-- **twins report the same capture spans** on every Latin-1 subject (`re.fullmatch(...).groups()`
    / `.start(i)` / `.end(i)` as `_fs_match` reads them) -/
theorem ReBytesTwin.fullmatchCap_eq {r₁ r₂ : Re} (h : ReBytesTwin r₁ r₂) (s : List Char) (hs : Latin1 s) :
    r₁.fullmatchCap s = r₂.fullmatchCap s := by
  rw [← Re.fullmatchCap_bnorm r₁ s hs, ← Re.fullmatchCap_bnorm r₂ s hs, h.bnorm_eq]

end WcModel

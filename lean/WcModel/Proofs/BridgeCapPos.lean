import WcModel.Proofs.BridgeCap
import WcModel.Proofs.BridgeReal
import WcModel.Proofs.BridgeTop
import WcModel.Proofs.CompPathGlob
/-
  C04 bridge, part 12: the REALPATH regex of a printed pattern `A/**/B` (`A`, `B` non-empty,
  globstar-free) — where every accepting run puts the span of the `**` group.

  * `toRe_noBar`, `MC_wrap`      through the `^(?s: … )$` wrapper;
  * `segItems_split`             the items of `A/**/B`: those of `A`, `(?=/)`, the captured globstar,
                                 the divider, those of `B`;
  * `preItems_toRe`              the items of `A` convert to the chain `seg₁ [/]+ seg₂ … K`;
  * `chain_pos`                  on a subject `n₁/n₂/…` the chain stops after `|A|` components;
  * `suffix_pos`                 divider + `B` up to the end start before the last `|B|` components.
-/
namespace WcModel.Bridge
open PP PPP

/-! ### the wrapper -/

theorem toRe_noBar (L : List Item) (ci : Bool) (r : Re) (h : Parsed.toRe ⟨L, ci⟩ = some r) (hnb : HF.NoBar L) :
    ∃ f x, Item.seqToRe f L = some x ∧ r = .cat .bos (.cat (.flags true ci x) .eos) := by
  unfold Parsed.toRe at h
  simp only [] at h
  cases hin : Item.listToRe (2 * Item.sizeL L + 4) L with
  | none => simp [hin] at h
  | some inner =>
    simp [hin] at h
    subst h
    obtain ⟨f', xs, _, hm, hx⟩ := listToRe_inv hin
    rw [HF.splitBars_noBar _ hnb] at hm
    simp only [List.mapM_cons, List.mapM_nil] at hm
    cases h1 : Item.seqToRe f' L with
    | none => simp [h1] at hm
    | some x =>
      simp [h1] at hm
      refine ⟨f', x, h1, ?_⟩
      rw [hx, ← hm]
      rfl

/-- a run of `^(?s: x )$` from the start of the subject to its end is a run of `x` -/
theorem MC_wrap (ci : Bool) (x : Re) (s : List Char) (b : Bool) (cs : Caps)
    (h : Re.MC ⟨false, false⟩ (.cat .bos (.cat (.flags true ci x) .eos)) 0 ⟨true, s⟩ [] ⟨b, []⟩ cs) :
    Re.MC ⟨true, ci⟩ x 0 ⟨true, s⟩ [] ⟨b, []⟩ cs := by
  cases h with
  | cat h1 h2 =>
    cases h1 with
    | bos _ =>
      cases h2 with
      | cat h3 h4 =>
        cases h4 with
        | eos _ =>
          cases h3 with
          | flags h5 => exact h5

/-! ### the items of `A/**/B` -/

/-- the items of the globstar-free segments before a globstar (a separator is pending afterwards) -/
def preItems (cfg : Cfg) : List Seg → Bool → List Item
  | [], _ => []
  | .pat g :: rest, sb => (if sb then [.re (Frag.sepPlus false)] else []) ++ (itsP cfg true g ++ preItems cfg rest true)
  | .glob :: _, _ => []

theorem segItems_split (cfg : Cfg) (tr : Bool) (B : List Seg) : ∀ (A : List Seg) (sb : Bool),
    globFree A = true → A ≠ [] →
    segItems cfg tr (A ++ .glob :: B) sb =
      preItems cfg A sb ++ (.re (Frag.needSep false) :: .re (gstarRe cfg) :: .re (Frag.globstarDiv false) ::
        segItems cfg tr B false) := by
  intro A
  induction A with
  | nil => intro _ _ h; exact absurd rfl h
  | cons s rest ih =>
    intro sb hg _
    simp only [globFree, List.all_cons, Bool.and_eq_true] at hg
    cases s with
    | glob => simp at hg
    | pat g =>
      cases rest with
      | nil => simp [segItems, preItems]
      | cons s2 rest' =>
        have := ih true hg.2 (by simp)
        simp only [List.cons_append] at this
        simp [segItems, preItems, this]

theorem preItems_plain (cfg : Cfg) (hcap : cfg.capture = false) : ∀ (A : List Seg) (sb : Bool),
    plainBL (preItems cfg A sb) = true := by
  have hc : HF.capOf cfg ≠ .yes := by simp [HF.capOf, hcap]
  intro A
  induction A with
  | nil => intro _; rfl
  | cons s rest ih =>
    intro sb
    cases s with
    | glob => rfl
    | pat g =>
      cases sb <;>
        simp [preItems, plainBL_append, plainBL, plainB, its_plain cfg _ hc, ih, Frag.sepPlus, Frag.sep, Re.ncaps]

theorem preItems_noBar (cfg : Cfg) : ∀ (A : List Seg) (sb : Bool), (∀ s ∈ A, PPP.segOK s = true) →
    HF.NoBar (preItems cfg A sb) := by
  intro A
  induction A with
  | nil => intro _ _; exact HF.NoBar.nil
  | cons s rest ih =>
    intro sb hok
    cases s with
    | glob => exact HF.NoBar.nil
    | pat g =>
      obtain ⟨hpp, _, _, _⟩ := segOK_pat (hok _ List.mem_cons_self)
      have h1 := itsG_noBar (pathEmit cfg) (HF.capOf cfg) g true hpp
      have h2 := ih true (fun x hx => hok x (List.mem_cons_of_mem _ hx))
      cases sb
      · simpa [preItems] using h1.append h2
      · simpa [preItems] using HF.NoBar.cons rfl (h1.append h2)

/-! ### the chain `seg₁ [/]+ seg₂ … K` -/

/-- the tidy regex of globstar-free segments followed by `K` -/
def chainK (dot : Bool) : List Seg → Bool → Re → Re
  | [], _, K => K
  | .pat g :: rest, sb, K => sepIf sb (.cat (compSeg dot true g) (chainK dot rest true K))
  | .glob :: _, _, K => K

theorem preItems_toRe (cfg : Cfg) (h : PathX cfg) : ∀ (A : List Seg) (sb : Bool), (∀ s ∈ A, PPP.segOK s = true) →
    globFree A = true → ∀ (rest : List Item) (f : Nat) (x : Re),
    Item.seqToRe f (preItems cfg A sb ++ rest) = some x →
    ∃ f' x', Item.seqToRe f' rest = some x' ∧ Eqv x (chainK cfg.dot A sb x') := by
  intro A
  induction A with
  | nil => intro sb _ _ rest f x hx; exact ⟨f, x, by simpa [preItems] using hx, Eqv.refl _⟩
  | cons s A' ih =>
    intro sb hok hg rest f x hx
    simp only [globFree, List.all_cons, Bool.and_eq_true] at hg
    cases s with
    | glob => simp at hg
    | pat g =>
      obtain ⟨hpp, hsl, _, _⟩ := segOK_pat (hok _ List.mem_cons_self)
      have hokr : ∀ s ∈ A', PPP.segOK s = true := fun s hs => hok s (List.mem_cons_of_mem _ hs)
      have core : ∀ (f : Nat) (x : Re), Item.seqToRe f (itsP cfg true g ++ (preItems cfg A' true ++ rest)) = some x →
          ∃ f' x', Item.seqToRe f' rest = some x' ∧
            Eqv x (.cat (compSeg cfg.dot true g) (chainK cfg.dot A' true x')) := by
        intro f x hx
        obtain ⟨f1, x1, h1, e1⟩ := (itsP_toRe cfg h g).1 hpp (by rw [scope_eq]; exact hsl) true f _ x hx
        obtain ⟨f2, x2, h2, e2⟩ := ih true hokr hg.2 rest f1 x1 h1
        exact ⟨f2, x2, h2, e1.trans ((Eqv.refl _).cat e2)⟩
      cases sb with
      | false =>
        simp only [preItems, Bool.false_eq_true, if_false, List.nil_append, List.append_assoc] at hx
        simpa [chainK, sepIf] using core f x hx
      | true =>
        simp only [preItems, if_true, List.cons_append, List.nil_append, List.append_assoc] at hx
        obtain ⟨f', x', h2, e⟩ := seqToRe_re_eqv hx
        obtain ⟨f2, x2, h3, e3⟩ := core f' x' h2
        refine ⟨f2, x2, h3, ?_⟩
        simp only [chainK, sepIf, if_true]
        exact e.trans ((Eqv.refl _).cat e3)

/-! ### where the chain stops -/

theorem allSl_cons {c : Char} {l : List Char} (h : allSl (c :: l) = true) : c = '/' ∧ allSl l = true := by
  simpa [allSl] using h

/-- `[/]+` before a component: exactly one separator is there to take -/
theorem sepPlus_one (md : Mode) (a m : St) (u : List Char) (h : Re.M md (Frag.sepPlus false) a m)
    (ha : a.rest = '/' :: u) (hu : u.head? ≠ some '/') : m.rest = u ∧ m.atStart = false := by
  obtain ⟨hf, pre, hne, hp, e⟩ := (M_sepPlus_iff md a m).mp h
  cases pre with
  | nil => exact absurd rfl hne
  | cons c pre' =>
    obtain ⟨rfl, hp'⟩ := allSl_cons hp
    rw [ha] at e
    simp only [List.cons_append, List.cons.injEq, true_and] at e
    cases pre' with
    | nil => exact ⟨by simpa using e.symm, hf⟩
    | cons c2 pre'' =>
      obtain ⟨rfl, _⟩ := allSl_cons hp'
      rw [e] at hu
      simp at hu

/-- a segment in scope standing before something that needs a separator (or the end) takes exactly
    the component in front of it -/
theorem seg_step (dot ci : Bool) (g : Pat) (hg : g.segScope = true) (m m2 : St)
    (h : Re.M ⟨true, ci⟩ (compSeg dot true g) m m2) (hat : AtSep m2.rest) (n : Name) (u : List Char) (hn : Sane n)
    (hu : AtSep u) (hm : m.rest = n ++ u) : m2.rest = u ∧ m2.atStart = false := by
  obtain ⟨hneg, hns, _, hsol⟩ := (segScope_iff g).mp hg
  obtain ⟨_, p, e, hp⟩ := compSeg_sound dot ci g hneg hns true m m2 h
  have hlt : m2.rest.length < m.rest.length := by
    rcases compSeg_solid dot ci g hneg hns true hsol m m2 h with hlt | ⟨rfl, hna⟩
    · exact hlt
    · exact absurd hat hna
  have hhead : ∀ t : List Char, AtSep t → (t = [] ∨ t.head? = some '/') := by
    rintro t (rfl | ⟨t', rfl⟩)
    · exact Or.inl rfl
    · exact Or.inr rfl
  rw [hm] at e
  obtain ⟨_, e2⟩ := append_sep_inj n p u m2.rest hn.2 (fun c hc hcs => hp (hcs ▸ hc)) (hhead u hu) (hhead _ hat) e
  refine ⟨e2.symm, ?_⟩
  rcases Re.M_le _ _ _ _ h with rfl | ⟨hf, _⟩
  · omega
  · exact hf

theorem chainK_atSep (dot ci : Bool) (K : Re) (hK : ∀ c y, Re.M ⟨true, ci⟩ K c y → AtSep c.rest) :
    ∀ (A : List Seg) (c y : St), globFree A = true → Re.M ⟨true, ci⟩ (chainK dot A true K) c y → AtSep c.rest := by
  intro A c y hg h
  cases A with
  | nil => exact hK c y h
  | cons s rest =>
    simp only [globFree, List.all_cons, Bool.and_eq_true] at hg
    cases s with
    | glob => simp at hg
    | pat g =>
      simp only [chainK, sepIf, if_true, Re.M] at h
      obtain ⟨m, h1, _⟩ := h
      obtain ⟨_, pre, hne, hp, e⟩ := (M_sepPlus_iff _ c m).mp h1
      cases pre with
      | nil => exact absurd rfl hne
      | cons ch pre' =>
        obtain ⟨rfl, _⟩ := allSl_cons hp
        exact Or.inr ⟨pre' ++ m.rest, by simpa using e⟩

theorem sl_atSep' (ms : List Name) (tl : List Char) (htl : tl = [] ∨ tl = ['/']) : AtSep (sl ms ++ tl) := by
  cases ms with
  | nil =>
    rcases htl with rfl | rfl
    · exact Or.inl rfl
    · exact Or.inr ⟨[], rfl⟩
  | cons m r => exact Or.inr ⟨m ++ sl r ++ tl, by simp [sl]⟩

/-- **the chain on a subject `/m₁/m₂/…`**: it stops after `|A|` components -/
theorem chain_pos (dot ci : Bool) (K : Re) (hK : ∀ c y, Re.M ⟨true, ci⟩ K c y → AtSep c.rest) :
    ∀ (A : List Seg), globFree A = true → (∀ s ∈ A, Seg.scope s = true) →
    ∀ (ms : List Name) (tl : List Char) (a y : St), (∀ m ∈ ms, Sane m) → (tl = [] ∨ tl = ['/']) →
      a.rest = sl ms ++ tl → a.atStart = false → Re.M ⟨true, ci⟩ (chainK dot A true K) a y →
      ∃ c, Re.M ⟨true, ci⟩ K c y ∧ A.length ≤ ms.length ∧ c.rest = sl (ms.drop A.length) ++ tl ∧
        c.atStart = false := by
  intro A
  induction A with
  | nil =>
    intro _ _ ms tl a y _ _ ha haf h
    exact ⟨a, h, by simp, by simpa using ha, haf⟩
  | cons s rest ih =>
    intro hg hsc ms tl a y hms htl ha haf h
    simp only [globFree, List.all_cons, Bool.and_eq_true] at hg
    cases s with
    | glob => simp at hg
    | pat g =>
      have hgs : g.segScope = true := hsc (.pat g) List.mem_cons_self
      simp only [chainK, sepIf, if_true, Re.M] at h
      obtain ⟨m, h1, m2, h2, h3⟩ := h
      have hat2 : AtSep m2.rest := chainK_atSep dot ci K hK rest m2 y hg.2 h3
      cases ms with
      | nil =>
        -- nothing left to read: the segment cannot match
        exfalso
        simp only [sl, List.nil_append] at ha
        obtain ⟨_, pre, hne, hp, e⟩ := (M_sepPlus_iff _ a m).mp h1
        have hm0 : m.rest = [] := by
          rcases htl with rfl | rfl
          · rw [ha] at e
            have := congrArg List.length e
            simp at this
            exact absurd (List.eq_nil_of_length_eq_zero (by omega)) hne
          · rw [ha] at e
            have hl := congrArg List.length e
            simp at hl
            have : pre.length ≥ 1 := by
              cases pre with
              | nil => exact absurd rfl hne
              | cons _ _ => simp
            exact List.eq_nil_of_length_eq_zero (by omega)
        obtain ⟨hneg, hns, _, hsol⟩ := (segScope_iff g).mp hgs
        rcases compSeg_solid dot ci g hneg hns true hsol m m2 h2 with hlt | ⟨rfl, hna⟩
        · rw [hm0] at hlt; simp at hlt
        · exact hna (by rw [hm0]; exact Or.inl rfl)
      | cons n ns =>
        have hn := hms n List.mem_cons_self
        have ha' : a.rest = '/' :: (n ++ (sl ns ++ tl)) := by rw [ha]; simp [sl]
        obtain ⟨e1, hf1⟩ := sepPlus_one _ a m _ h1 ha' (by
          cases n with
          | nil => exact absurd rfl hn.1
          | cons c r => simpa using hn.2 c List.mem_cons_self)
        obtain ⟨e2, hf2⟩ := seg_step dot ci g hgs m m2 h2 hat2 n (sl ns ++ tl) hn (sl_atSep' ns tl htl) e1
        obtain ⟨c, hc1, hc2, hc3, hc4⟩ := ih hg.2 (fun s hs => hsc s (List.mem_cons_of_mem _ hs)) ns tl m2 y
          (fun x hx => hms x (List.mem_cons_of_mem _ hx)) htl e2 hf2 h3
        exact ⟨c, hc1, by simp; omega, by simpa using hc3, hc4⟩

/-! ### where the divider and `B` start -/

theorem split_at_slash : ∀ (m U X Y : List Char), '/' ∉ m → m ++ U = X ++ '/' :: Y →
    ∃ X', X = m ++ X' ∧ U = X' ++ '/' :: Y := by
  intro m
  induction m with
  | nil => intro U X Y _ h; exact ⟨X, rfl, by simpa using h⟩
  | cons c m' ih =>
    intro U X Y hm h
    simp only [List.mem_cons, not_or] at hm
    cases X with
    | nil =>
      simp only [List.nil_append, List.cons_append, List.cons.injEq] at h
      exact absurd h.1.symm hm.1
    | cons x X1 =>
      simp only [List.cons_append, List.cons.injEq] at h
      obtain ⟨rfl, h⟩ := h
      obtain ⟨X', rfl, hU⟩ := ih U X1 Y hm.2 h
      exact ⟨X', rfl, hU⟩

theorem sl_append (xs ys : List Name) : sl (xs ++ ys) = sl xs ++ sl ys := by
  induction xs with
  | nil => rfl
  | cons x r ih => simp [sl, ih]

/-- a separator inside `/m₁/m₂/…` (possibly followed by `/`) stands before one of the components, or
    is the final one -/
theorem after_slash : ∀ (ms : List Name) (tl X Y : List Char), (∀ m ∈ ms, Sane m) → (tl = [] ∨ tl = ['/']) →
    sl ms ++ tl = X ++ '/' :: Y → ∃ j, j ≤ ms.length ∧ X = sl (ms.take j) ∧ '/' :: Y = sl (ms.drop j) ++ tl := by
  intro ms
  induction ms with
  | nil =>
    intro tl X Y _ htl h
    rcases htl with rfl | rfl
    · simp [sl] at h
    · simp only [sl, List.nil_append] at h
      cases X with
      | nil => exact ⟨0, by simp, rfl, by simpa [sl] using h.symm⟩
      | cons x X1 =>
        simp only [List.cons_append, List.cons.injEq] at h
        have := congrArg List.length h.2
        simp at this
  | cons m r ih =>
    intro tl X Y hms htl h
    have hm := hms m List.mem_cons_self
    cases X with
    | nil =>
      exact ⟨0, by simp, rfl, by simpa using h.symm⟩
    | cons x X1 =>
      simp only [sl, List.cons_append, List.cons.injEq, List.append_assoc] at h
      obtain ⟨rfl, h⟩ := h
      obtain ⟨X', rfl, hU⟩ := split_at_slash m (sl r ++ tl) X1 Y (sane_noSlash hm) h
      obtain ⟨j, hj, hX, hY⟩ := ih tl X' Y (fun y hy => hms y (List.mem_cons_of_mem _ hy)) htl hU
      exact ⟨j + 1, by simp; omega, by simp [sl, hX], by simpa using hY⟩

theorem sl_noTrail (xs : List Name) (h : ∀ m ∈ xs, Sane m) : (sl xs).getLast? ≠ some '/' := by
  rcases List.eq_nil_or_concat xs with rfl | ⟨init, l, rfl⟩
  · simp [sl]
  · rw [List.concat_eq_append, sl_append]
    have hl := h l (by simp)
    simp only [sl, List.append_nil]
    rw [getLast?_append_of_ne_nil _ _ (by simp)]
    have : ('/' :: l).getLast? = l.getLast? := by
      cases l with
      | nil => exact absurd rfl hl.1
      | cons c r => simp [List.getLast?_cons_cons]
    rw [this]
    exact hl.noTrail

/-- **divider + `B` up to the end of `/m₁/m₂/…[/]`**: they start before the last `|B|` components -/
theorem suffix_pos (ctx : PCtx) (tr : Bool) (B : List Seg) (hB : globFree B = true) (hBne : B ≠ [])
    (hBsc : ∀ s ∈ B, Seg.scope s = true) (ms : List Name) (tl : List Char) (hms : ∀ m ∈ ms, Sane m)
    (hvis : ∀ m ∈ ms, visible ctx.dot m = true) (htl : tl = [] ∨ tl = ['/'])
    (hnl : (sl ms ++ tl).getLast? ≠ some '\n') (d y : St) (hd : d.atStart = false)
    (hsuf : ∃ P0, sl ms ++ tl = P0 ++ d.rest) (hy : y.rest = [])
    (hM : Re.M ⟨true, ctx.ci⟩ (.cat (Frag.globstarDiv false) (pathRe ctx.dot tr B false)) d y) :
    B.length ≤ ms.length ∧ d.rest = sl (ms.drop (ms.length - B.length)) ++ tl := by
  have hggB : noGG B = true := by
    have : ∀ segs : List Seg, globFree segs = true → noGG segs = true := by
      intro segs
      induction segs with
      | nil => intro _; rfl
      | cons s r ih =>
        intro h
        simp only [globFree, List.all_cons, Bool.and_eq_true] at h
        cases s with
        | glob => simp at h
        | pat g => simpa [noGG] using ih h.2
    exact this B hB
  simp only [Re.M] at hM
  obtain ⟨c', hdiv, hre⟩ := hM
  obtain ⟨P0, hS⟩ := hsuf
  -- what the specification says from `c'`
  have spec : ∀ (t : List Char), c'.rest = t → VisG ctx.dot t → (pieces t).length = B.length := by
    intro t ht hv
    have hpos : Pos t c' := ⟨[], by simp [ht], fun _ => rfl, fun p hp => by rw [← ht]; exact hp⟩
    have hctx : CtxOK tr B false c' := by
      cases B with
      | nil => trivial
      | cons b B' =>
        cases b with
        | pat g => trivial
        | glob => simp [globFree] at hB
    have hsp := (pathRe_sem ctx tr t hv B hggB hBsc false c' hpos hctx).1 ⟨y, hy, hre⟩
    cases B with
    | nil => exact absurd rfl hBne
    | cons b B' =>
      cases b with
      | glob => simp [globFree] at hB
      | pat g =>
        simp only [SpecAt] at hsp
        rw [ht] at hsp
        exact segsMatch_globfree_length ctx .free _ hB _ _ _ _ hsp.2
  have hBpos : 1 ≤ B.length := by
    cases B with
    | nil => exact absurd rfl hBne
    | cons _ _ => simp
  rcases (M_div_iff _ d c').mp hdiv with ⟨rfl, hz⟩ | ⟨_, pre, hne, hp, e⟩
  · -- zero-width: only at the end of the subject, where `B` has nothing to read
    exfalso
    rcases hz with hz | hz
    · rw [hd] at hz; cases hz
    · simp only [atEos, Bool.or_eq_true, beq_iff_eq] at hz
      rcases hz with hz | hz
      · have := spec [] hz ⟨by simp [pieces_nil], by simp⟩
        simp [pieces_nil] at this
        omega
      · rw [hz] at hS
        rw [hS, getLast?_append_of_ne_nil _ _ (by simp)] at hnl
        simp at hnl
  · obtain ⟨pre', rfl⟩ := allSl_snoc pre hp hne
    have hS' : sl ms ++ tl = (P0 ++ pre') ++ '/' :: c'.rest := by rw [hS, e]; simp
    obtain ⟨j, hj, hX, hY⟩ := after_slash ms tl (P0 ++ pre') c'.rest hms htl hS'
    -- the run of separators is a single one
    have hpre' : pre' = [] := by
      by_cases hne' : pre' = []
      · exact hne'
      exfalso
      have h1 : (P0 ++ pre').getLast? = some '/' := by
        rw [getLast?_append_of_ne_nil _ _ hne']
        have : allSl pre' = true := by
          have := hp
          simp only [allSl, List.all_append, Bool.and_eq_true] at this ⊢
          exact this.1
        obtain ⟨T, rfl⟩ := allSl_snoc pre' this hne'
        simp
      rw [hX] at h1
      exact sl_noTrail _ (fun m hm => hms m (List.mem_of_mem_take hm)) h1
    subst hpre'
    simp only [List.nil_append] at e
    have hd' : d.rest = sl (ms.drop j) ++ tl := by rw [e, ← hY]; rfl
    have hpc : pieces c'.rest = ms.drop j := by
      have h1 : pieces ('/' :: c'.rest) = ms.drop j := by
        rw [hY]
        rcases htl with rfl | rfl
        · simpa using pieces_sl _ (fun m hm => hms m (List.mem_of_mem_drop hm))
        · exact pieces_sl_slash _ (fun m hm => hms m (List.mem_of_mem_drop hm))
      rw [pieces_slash] at h1
      exact h1
    have hv : VisG ctx.dot c'.rest := by
      refine ⟨fun p hp' => ?_, ?_⟩
      · rw [hpc] at hp'
        exact hvis p (List.mem_of_mem_drop hp')
      · by_cases hce : c'.rest = []
        · simp [hce]
        · rw [hS', getLast?_append_of_ne_nil _ _ (by simp)] at hnl
          have : ('/' :: c'.rest).getLast? = c'.rest.getLast? := by
            cases hc : c'.rest with
            | nil => exact absurd hc hce
            | cons x r => simp [List.getLast?_cons_cons]
          rw [this] at hnl
          exact hnl
    have hlen := spec c'.rest rfl hv
    rw [hpc, List.length_drop] at hlen
    have hj' : j = ms.length - B.length := by omega
    exact ⟨by omega, by rw [hd', hj']⟩

/-! ### the REALPATH regex of `A/**/B`: the binding of every run -/

theorem ncaps_pGstar (dot : Bool) : (pGstar dot).ncaps = 0 := by cases dot <;> rfl

theorem seqToRe_empty {f : Nat} {rest : List Item} {x : Re} (h : Item.seqToRe f (.empty :: rest) = some x) :
    ∃ f', Item.seqToRe f' rest = some x := by
  cases f with
  | zero => simp [Item.seqToRe] at h
  | succ f' => exact ⟨f', by simpa [Item.seqToRe] using h⟩

/-- **every accepting run of the REALPATH regex of `A/**` followed by `B`** (`A` non-empty, `A`, `B`
    globstar-free and in scope, `B` possibly empty; globstar capture on) on a subject `n₁/n₂/…[/]` of
    components in scope: the only binding is group 1's, it starts after the first `|A|` components,
    and it ends at a state `d` from which the divider and `B` match up to the end. -/
theorem real_glob_runs (cfg : Cfg) (h : PathX (cfg.rp false)) (hrp : cfg.realpath = true)
    (hgc : cfg.globstarCapture = true) (hcap : cfg.capture = false) (hgs : cfg.globstar0 = true)
    (drive : List Char → DriveInfo) (tr : Bool) (g : Pat) (A' B : List Seg)
    (hA : globFree (.pat g :: A') = true) (hB : globFree B = true)
    (hok : ∀ s ∈ (Seg.pat g :: A') ++ .glob :: B, PPP.segOK s = true)
    (hsc : ∀ s ∈ (Seg.pat g :: A') ++ .glob :: B, Seg.scope s = true) :
    ∃ parsed r, parseItems cfg drive (printSegs tr ((Seg.pat g :: A') ++ .glob :: B) false) = .ok parsed ∧
      parsed.toRe = some r ∧ r.ncaps = 1 ∧
      ∀ (n : Name) (ns : List Name) (tl : List Char), (∀ m ∈ n :: ns, Sane m) →
        (∀ m ∈ n :: ns, visible cfg.dot m = true) → (tl = [] ∨ tl = ['/']) →
        (n ++ (sl ns ++ tl)).getLast? ≠ some '\n' →
        ∀ (b : Bool) (cs : Caps), Re.MC ⟨false, false⟩ r 0 ⟨true, n ++ (sl ns ++ tl)⟩ [] ⟨b, []⟩ cs →
          ∃ d : St, d.atStart = false ∧ (∃ P0, sl (ns.drop A'.length) ++ tl = P0 ++ d.rest) ∧
            Re.M ⟨true, !cfg.caseSensitive⟩ (.cat (Frag.globstarDiv false) (pathRe cfg.dot tr B false)) d ⟨b, []⟩ ∧
            A'.length ≤ ns.length ∧ (sl (ns.drop A'.length) ++ tl).getLast? ≠ some '\n' ∧
            cs = [(1, (sl (ns.drop A'.length) ++ tl).length, d.rest.length)] := by
  have hAok : ∀ s ∈ (Seg.pat g :: A'), PPP.segOK s = true := fun s hs => hok s (List.mem_append_left _ hs)
  have hBok : ∀ s ∈ B, PPP.segOK s = true := fun s hs => hok s (List.mem_append_right _ (List.mem_cons_of_mem _ hs))
  have hAsc : ∀ s ∈ (Seg.pat g :: A'), Seg.scope s = true := fun s hs => hsc s (List.mem_append_left _ hs)
  have hBsc : ∀ s ∈ B, Seg.scope s = true := fun s hs => hsc s (List.mem_append_right _ (List.mem_cons_of_mem _ hs))
  have hfree : ∀ segs : List Seg, globFree segs = true → noGG segs = true := by
    intro segs
    induction segs with
    | nil => intro _; rfl
    | cons s r ih =>
      intro h
      simp only [globFree, List.all_cons, Bool.and_eq_true] at h
      cases s with
      | glob => simp at h
      | pat g => simpa [noGG] using ih h.2
  have hgg : noGG ((Seg.pat g :: A') ++ .glob :: B) = true := by
    have : ∀ A : List Seg, globFree A = true → noGG (A ++ .glob :: B) = true := by
      intro A
      induction A with
      | nil =>
        intro _
        cases B with
        | nil => rfl
        | cons b B' =>
          simp only [globFree, List.all_cons, Bool.and_eq_true] at hB
          cases b with
          | glob => simp at hB
          | pat g => simpa [noGG] using hfree B' hB.2
      | cons s r ih =>
        intro h
        simp only [globFree, List.all_cons, Bool.and_eq_true] at h
        cases s with
        | glob => simp at h
        | pat g => simpa [noGG] using ih h.2
    exact this _ hA
  -- the items
  have hitems := parseItems_path_real cfg h hrp drive tr ((Seg.pat g :: A') ++ .glob :: B) hok hgg
    (by simp [Seg.isGlob]) (by simp) (fun _ => hgs)
  have hsplit := segItems_split (cfg.rp false) tr B (.pat g :: A') false hA (by simp)
  have hgstar : gstarRe (cfg.rp false) = .gcap (pGstar cfg.dot) := by
    unfold gstarRe
    have : (cfg.rp false).globstarCapture = true := hgc
    rw [this]; rfl
  obtain ⟨r, hr, _⟩ := toRe_path_real (cfg.rp false) h tr ((Seg.pat g :: A') ++ .glob :: B) hok (!cfg.caseSensitive)
  refine ⟨_, r, hitems, hr, ?_⟩
  -- the item list as `I1 ++ gcap :: I2`
  let I1 : List Item := [.empty, .re Frag.noRoot, .empty] ++ (preItems (cfg.rp false) (.pat g :: A') false ++
    [.re (Frag.needSep false)])
  let I2 : List Item := .re (Frag.globstarDiv false) :: (segItems (cfg.rp false) tr B false ++ [.re (Frag.pathTrail false)])
  have hL : [Item.empty, .re Frag.noRoot, .empty] ++
      (segItems (cfg.rp false) tr ((Seg.pat g :: A') ++ .glob :: B) false ++ [.re (Frag.pathTrail false)]) =
      I1 ++ .re (.gcap (pGstar cfg.dot)) :: I2 := by
    rw [hsplit, hgstar]
    simp [I1, I2]
  rw [hL] at hr
  have hgfB : B.any Seg.isGlob = false := by
    simp only [globFree, List.all_eq_true, bne_iff_ne, ne_eq] at hB
    rw [List.any_eq_false]
    intro s hs
    cases s with
    | pat _ => simp [Seg.isGlob]
    | glob => exact absurd rfl (hB _ hs)
  have hI1 : plainBL I1 = true := by
    simp only [I1, List.cons_append, List.nil_append, plainBL, plainB, plainBL_append, Bool.and_true, Bool.true_and,
      preItems_plain (cfg.rp false) hcap]
    decide
  have hI2 : plainBL I2 = true := by
    simp only [I2, plainBL, plainB, plainBL_append, Bool.and_true, segItems_plain (cfg.rp false) hcap tr B false hgfB]
    decide
  have hnbL : HF.NoBar (I1 ++ .re (.gcap (pGstar cfg.dot)) :: I2) := by
    rw [← hL]
    exact HF.NoBar.cons rfl (HF.NoBar.cons rfl (HF.NoBar.cons rfl
      ((segItems_noBar _ tr _ false hok).append (HF.NoBar.cons rfl HF.NoBar.nil))))
  obtain ⟨f, x, hx, hrx⟩ := toRe_noBar _ _ r hr hnbL
  obtain ⟨f1, x1, f2, x2, e1, e2, hn1, hdec⟩ := seq_split (pGstar cfg.dot) (ncaps_pGstar _) I2 hI2 I1 hI1 f x hx
  refine ⟨by rw [hrx]; simp [Re.ncaps, hn1], ?_⟩
  -- the part before the group
  obtain ⟨fa, ea⟩ := seqToRe_empty e1
  obtain ⟨fb, xb, eb, eqb⟩ := seqToRe_re_eqv ea
  obtain ⟨fc, ec⟩ := seqToRe_empty eb
  obtain ⟨fd, K, ed, eqd⟩ := preItems_toRe (cfg.rp false) h (.pat g :: A') false hAok hA _ fc xb ec
  obtain ⟨fe, xe, ee, eqe⟩ := seqToRe_re_eqv ed
  have hxe := seqToRe_nil ee
  subst hxe
  have hK : ∀ (md : Mode) (c y : St), Re.M md K c y ↔ (y = c ∧ c.rest.head? = some '/') := by
    intro md c y
    rw [eqe md c y]
    simp only [Re.M]
    constructor
    · rintro ⟨m, hm, rfl⟩
      exact (M_needSep md c _).mp hm
    · rintro ⟨rfl, hh⟩
      exact ⟨y, (M_needSep md y y).mpr ⟨rfl, hh⟩, rfl⟩
  -- the part after the group
  obtain ⟨fg, xg, eg, eqg⟩ := seqToRe_re_eqv e2
  have eqB := segItems_toRe (cfg.rp false) h tr B false hBok fg xg eg
  intro n ns tl hsane hvis htl hnl b cs hmc
  rw [hrx] at hmc
  have hmc' := MC_wrap _ x _ b cs hmc
  obtain ⟨c, d, hc1, hc2, hc3, hc4⟩ := hdec _ 0 _ [] _ cs hmc'
  -- where `c` is
  have hn := hsane n List.mem_cons_self
  have hns : ∀ m ∈ ns, Sane m := fun m hm => hsane m (List.mem_cons_of_mem _ hm)
  have hKat : ∀ c y, Re.M ⟨true, !cfg.caseSensitive⟩ K c y → AtSep c.rest := by
    intro c y hm
    have := ((hK _ c y).mp hm).2
    cases hcr : c.rest with
    | nil => simp [hcr] at this
    | cons ch t =>
      rw [hcr] at this
      simp only [List.head?_cons, Option.some.injEq] at this
      subst this
      exact Or.inr ⟨t, rfl⟩
  have hcpos : A'.length ≤ ns.length ∧ c.rest = sl (ns.drop A'.length) ++ tl ∧ c.atStart = false := by
    have h1 := (eqb _ _ _).mp hc1
    simp only [Re.M] at h1
    obtain ⟨m0, hm0, hrest⟩ := h1
    obtain ⟨rfl, _⟩ := (M_noRoot _ _ _).mp hm0
    have h2 := (eqd _ _ _).mp hrest
    simp only [chainK, sepIf, Bool.false_eq_true, if_false, Re.M] at h2
    obtain ⟨m2, hseg, hch⟩ := h2
    simp only [globFree, List.all_cons, Bool.and_eq_true] at hA
    have hat2 : AtSep m2.rest := chainK_atSep cfg.dot _ K hKat A' m2 c hA.2 hch
    have hgs' : g.segScope = true := hAsc (.pat g) List.mem_cons_self
    obtain ⟨e2', hf2⟩ := seg_step cfg.dot _ g hgs' _ m2 hseg hat2 n (sl ns ++ tl) hn (sl_atSep' ns tl htl) rfl
    obtain ⟨c0, hc0, hle, hc0r, hc0f⟩ := chain_pos cfg.dot _ K hKat A' hA.2
      (fun s hs => hAsc s (List.mem_cons_of_mem _ hs)) ns tl m2 c hns htl e2' hf2 hch
    obtain ⟨rfl, _⟩ := (hK _ c0 c).mp hc0
    exact ⟨hle, hc0r, hc0f⟩
  obtain ⟨hle, hcr, hcf⟩ := hcpos
  -- where `d` is
  have hdf : d.atStart = false := by
    rcases Re.M_le _ _ _ _ hc2 with rfl | ⟨hf, _⟩
    · exact hcf
    · exact hf
  obtain ⟨P0, hP0⟩ := Re.M_isSuffix _ _ _ _ hc2
  have hnl' : (sl (ns.drop A'.length) ++ tl).getLast? ≠ some '\n' := by
    by_cases he : sl (ns.drop A'.length) ++ tl = []
    · rw [he]; simp
    · have hs : n ++ (sl ns ++ tl) = (n ++ sl (ns.take A'.length)) ++ (sl (ns.drop A'.length) ++ tl) := by
        rw [← List.take_append_drop A'.length ns, sl_append]
        simp
      rw [hs, getLast?_append_of_ne_nil _ _ he] at hnl
      exact hnl
  have hd3 : Re.M ⟨true, !cfg.caseSensitive⟩ (.cat (Frag.globstarDiv false) (pathRe cfg.dot tr B false)) d ⟨b, []⟩ := by
    have h1 := (eqg _ _ _).mp hc3
    simp only [Re.M] at h1 ⊢
    obtain ⟨m, hm1, hm2⟩ := h1
    exact ⟨m, hm1, (eqB _ _ _).mp hm2⟩
  exact ⟨d, hdf, ⟨P0, by rw [← hcr]; exact hP0.symm⟩, hd3, hle, hnl', by rw [hc4, hcr]⟩

/-- **every accepting run of the REALPATH regex of `A/**/B`** (`A`, `B` non-empty, globstar-free,
    in scope; globstar capture on) on a subject `n₁/n₂/…[/]` of components in scope binds group 1
    to the text between the first `|A|` and the last `|B|` components — and nothing else. -/
theorem real_glob_caps (cfg : Cfg) (h : PathX (cfg.rp false)) (hrp : cfg.realpath = true)
    (hgc : cfg.globstarCapture = true) (hcap : cfg.capture = false) (hgs : cfg.globstar0 = true)
    (drive : List Char → DriveInfo) (tr : Bool) (g : Pat) (A' B : List Seg)
    (hA : globFree (.pat g :: A') = true) (hB : globFree B = true) (hBne : B ≠ [])
    (hok : ∀ s ∈ (Seg.pat g :: A') ++ .glob :: B, PPP.segOK s = true)
    (hsc : ∀ s ∈ (Seg.pat g :: A') ++ .glob :: B, Seg.scope s = true) :
    ∃ parsed r, parseItems cfg drive (printSegs tr ((Seg.pat g :: A') ++ .glob :: B) false) = .ok parsed ∧
      parsed.toRe = some r ∧ r.ncaps = 1 ∧
      ∀ (n : Name) (ns : List Name) (tl : List Char), (∀ m ∈ n :: ns, Sane m) →
        (∀ m ∈ n :: ns, visible cfg.dot m = true) → (tl = [] ∨ tl = ['/']) →
        (n ++ (sl ns ++ tl)).getLast? ≠ some '\n' →
        ∀ (b : Bool) (cs : Caps), Re.MC ⟨false, false⟩ r 0 ⟨true, n ++ (sl ns ++ tl)⟩ [] ⟨b, []⟩ cs →
          A'.length + 1 + B.length ≤ ns.length + 1 ∧
          cs = [(1, (sl (ns.drop A'.length) ++ tl).length,
                    (sl (ns.drop (ns.length - B.length)) ++ tl).length)] := by
  obtain ⟨parsed, r, h1, h2, h3, hruns⟩ := real_glob_runs cfg h hrp hgc hcap hgs drive tr g A' B hA hB hok hsc
  refine ⟨parsed, r, h1, h2, h3, ?_⟩
  intro n ns tl hsane hvis htl hnl b cs hmc
  obtain ⟨d, hdf, hsuf, hd3, hle, hnl', hcs⟩ := hruns n ns tl hsane hvis htl hnl b cs hmc
  have hns : ∀ m ∈ ns, Sane m := fun m hm => hsane m (List.mem_cons_of_mem _ hm)
  have hBsc : ∀ s ∈ B, Seg.scope s = true := fun s hs => hsc s (List.mem_append_right _ (List.mem_cons_of_mem _ hs))
  obtain ⟨hBle, hdr⟩ := suffix_pos ⟨!cfg.caseSensitive, cfg.dot, true, true, false, false⟩ tr B hB hBne hBsc
    (ns.drop A'.length) tl (fun m hm => hns m (List.mem_of_mem_drop hm))
    (fun m hm => hvis m (List.mem_cons_of_mem _ (List.mem_of_mem_drop hm))) htl hnl' d ⟨b, []⟩ hdf hsuf rfl hd3
  rw [List.length_drop] at hBle hdr
  refine ⟨by omega, ?_⟩
  rw [hcs, hdr, List.drop_drop]
  have : A'.length + (ns.length - A'.length - B.length) = ns.length - B.length := by omega
  rw [this]

/-! ### a globstar at the END of the pattern -/

/-- a non-empty run of separators at the end of `/m₁/m₂/…[/]` is the final separator -/
theorem allSl_suffix (ms : List Name) (tl : List Char) (hms : ∀ m ∈ ms, Sane m) (htl : tl = [] ∨ tl = ['/'])
    (P0 X : List Char) (hX : allSl X = true) (hne : X ≠ []) (h : sl ms ++ tl = P0 ++ X) :
    tl = ['/'] ∧ X = ['/'] := by
  obtain ⟨X', rfl⟩ := allSl_snoc X hX hne
  rcases htl with rfl | rfl
  · exfalso
    simp only [List.append_nil] at h
    have := sl_noTrail ms hms
    rw [h, ← List.append_assoc, getLast?_append_of_ne_nil _ _ (by simp)] at this
    simp at this
  · refine ⟨rfl, ?_⟩
    have h' : sl ms = P0 ++ X' := by
      rw [← List.append_assoc] at h
      exact List.append_cancel_right h
    by_cases hx : X' = []
    · rw [hx]; rfl
    · exfalso
      have hX' : allSl X' = true := by
        simp only [allSl, List.all_append, Bool.and_eq_true] at hX ⊢
        exact hX.1
      obtain ⟨X'', rfl⟩ := allSl_snoc X' hX' hx
      have := sl_noTrail ms hms
      rw [h', ← List.append_assoc, getLast?_append_of_ne_nil _ _ (by simp)] at this
      simp at this

/-- **divider + `_PATH_TRAIL` up to the end of `/m₁/m₂/…[/]`**: they start at the end, or before the
    final separator -/
theorem suffix_end (md : Mode) (dot tr : Bool) (ms : List Name) (tl : List Char) (hms : ∀ m ∈ ms, Sane m)
    (htl : tl = [] ∨ tl = ['/']) (hnl : (sl ms ++ tl).getLast? ≠ some '\n') (d y : St) (hd : d.atStart = false)
    (hsuf : ∃ P0, sl ms ++ tl = P0 ++ d.rest) (hy : y.rest = [])
    (hM : Re.M md (.cat (Frag.globstarDiv false) (pathRe dot tr [] false)) d y) :
    d.rest = [] ∨ (tl = ['/'] ∧ d.rest = ['/']) := by
  simp only [Re.M] at hM
  obtain ⟨c', hdiv, hre⟩ := hM
  obtain ⟨P0, hS⟩ := hsuf
  have hall : allSl c'.rest = true := ((M_end_iff md false c').mp ⟨y, hy, by simpa [pathRe] using hre⟩).1
  rcases (M_div_iff _ d c').mp hdiv with ⟨rfl, hz⟩ | ⟨_, pre, hne, hp, e⟩
  · rcases hz with hz | hz
    · rw [hd] at hz; cases hz
    · simp only [atEos, Bool.or_eq_true, beq_iff_eq] at hz
      rcases hz with hz | hz
      · exact Or.inl hz
      · exfalso
        rw [hz] at hS
        rw [hS, getLast?_append_of_ne_nil _ _ (by simp)] at hnl
        simp at hnl
  · right
    have hX : allSl d.rest = true := by
      rw [e]
      simp only [allSl, List.all_append, Bool.and_eq_true] at hp hall ⊢
      exact ⟨hp, hall⟩
    have hne' : d.rest ≠ [] := by rw [e]; simp [hne]
    exact allSl_suffix ms tl hms htl P0 d.rest hX hne' hS

/-- **every accepting run of the REALPATH regex of `A/**`** (`A` non-empty, globstar-free, in scope)
    binds group 1 from after the first `|A|` components to the end of the subject, or — when the
    subject ends with a separator — to just before it; and nothing else. -/
theorem real_glob_caps_end (cfg : Cfg) (h : PathX (cfg.rp false)) (hrp : cfg.realpath = true)
    (hgc : cfg.globstarCapture = true) (hcap : cfg.capture = false) (hgs : cfg.globstar0 = true)
    (drive : List Char → DriveInfo) (tr : Bool) (g : Pat) (A' : List Seg)
    (hA : globFree (.pat g :: A') = true)
    (hok : ∀ s ∈ (Seg.pat g :: A') ++ [.glob], PPP.segOK s = true)
    (hsc : ∀ s ∈ (Seg.pat g :: A') ++ [.glob], Seg.scope s = true) :
    ∃ parsed r, parseItems cfg drive (printSegs tr ((Seg.pat g :: A') ++ [.glob]) false) = .ok parsed ∧
      parsed.toRe = some r ∧ r.ncaps = 1 ∧
      ∀ (n : Name) (ns : List Name) (tl : List Char), (∀ m ∈ n :: ns, Sane m) →
        (∀ m ∈ n :: ns, visible cfg.dot m = true) → (tl = [] ∨ tl = ['/']) →
        (n ++ (sl ns ++ tl)).getLast? ≠ some '\n' →
        ∀ (b : Bool) (cs : Caps), Re.MC ⟨false, false⟩ r 0 ⟨true, n ++ (sl ns ++ tl)⟩ [] ⟨b, []⟩ cs →
          A'.length ≤ ns.length ∧
          ∃ l2, (l2 = 0 ∨ (tl = ['/'] ∧ l2 = 1)) ∧ cs = [(1, (sl (ns.drop A'.length) ++ tl).length, l2)] := by
  obtain ⟨parsed, r, h1, h2, h3, hruns⟩ := real_glob_runs cfg h hrp hgc hcap hgs drive tr g A' [] hA rfl hok hsc
  refine ⟨parsed, r, h1, h2, h3, ?_⟩
  intro n ns tl hsane hvis htl hnl b cs hmc
  obtain ⟨d, hdf, hsuf, hd3, hle, hnl', hcs⟩ := hruns n ns tl hsane hvis htl hnl b cs hmc
  have hns : ∀ m ∈ ns, Sane m := fun m hm => hsane m (List.mem_cons_of_mem _ hm)
  refine ⟨hle, d.rest.length, ?_, hcs⟩
  rcases suffix_end _ cfg.dot tr (ns.drop A'.length) tl (fun m hm => hns m (List.mem_of_mem_drop hm)) htl hnl' d
      ⟨b, []⟩ hdf hsuf rfl hd3 with h0 | ⟨h1', h2'⟩
  · exact Or.inl (by rw [h0]; rfl)
  · exact Or.inr ⟨h1', by rw [h2']; rfl⟩

end WcModel.Bridge

import WcModel.Proofs.Compile
/- C11 lemmas about one `translate` / `compile_pattern` core call and one `Glob._parse_patterns`. -/
namespace WcModel.Compile

variable {R : Type}

theorem allPieces_le_weight (x : Ext R) (fl : Flags) (cnt : Pat → Nat) (ps : List Pat) :
    (allPieces x fl ps).length ≤ totalWeight x fl cnt ps := by
  induction ps with
  | nil => simp [allPieces, totalWeight]
  | cons p ps ih =>
    have : (fullPieces x fl (nrm x fl p)).length ≤ weight x fl cnt (nrm x fl p) := Nat.le_max_right _ _
    simp only [allPieces, List.flatMap_cons, List.length_append, totalWeight, List.map_cons, List.sum_cons] at ih ⊢
    omega

theorem pureRun_total {O} (x : Ext R) (fl : Flags) (pol : Policy O) (ps : List Pat) (a : Acc O) :
    (pureRun x fl pol ps a).total = a.total + (allPieces x fl ps).length := by
  have := (pureRun_core x fl pol ps a a ⟨rfl, rfl, rfl⟩).1
  rw [this, foldP_total]

theorem clOf_zero (L : Int) (hL : 0 < L) : clOf L 0 = L := by
  unfold clOf; split <;> (push_cast; omega)

/-- the start state of a core call -/
def coreStart (neg0 : List R) (pulls0 : Nat) : Acc (PN R) := ⟨0, pulls0, [], ⟨[], neg0⟩⟩

/-- the result of a core call from its final state -/
def coreOut (x : Ext R) (fl : Flags) (a : Acc (PN R)) : Out R :=
  let o := finishPN x fl a.out
  ⟨o.pos, o.neg, a.pulls⟩

theorem compileCore_def (x : Ext R) (fl : Flags) (L : Int) (ps : List Pat) (neg0 : List R) (pulls0 : Nat) :
    compileCore x fl L ps neg0 pulls0 =
      match runPatterns x fl (pnPolicy x fl) L ps L (coreStart neg0 pulls0) with
      | .error e => .error e
      | .ok (a, _) => .ok (coreOut x fl a) := rfl

theorem core_ok (x : Ext R) (fl : Flags) (cnt : Pat → Nat) (hb : BraceOK x cnt) (L : Int) (ps : List Pat)
    (neg0 : List R) (pulls0 : Nat) (hn : NormOK x fl ps)
    (h : L = 0 ∨ (0 < L ∧ (totalWeight x fl cnt ps : Int) ≤ L)) :
    compileCore x fl L ps neg0 pulls0 =
      .ok (coreOut x fl (pureRun x fl (pnPolicy x fl) ps (coreStart neg0 pulls0))) := by
  obtain ⟨cl', hrun, _⟩ := runPatterns_ok x fl (pnPolicy x fl) cnt hb L ps 0 (coreStart neg0 pulls0) L hn (by
    rcases h with h | ⟨h1, h2⟩
    · exact Or.inl ⟨h, h⟩
    · right
      refine ⟨h1, ?_, ?_⟩
      · simp [coreStart, clOf_zero L h1]
      · simpa [coreStart] using h2)
  rw [compileCore_def, hrun]

theorem core_inv (x : Ext R) (fl : Flags) (cnt : Pat → Nat) (hb : BraceOK x cnt) (L : Int) (ps : List Pat)
    (neg0 : List R) (pulls0 : Nat) (o : Out R) (h : compileCore x fl L ps neg0 pulls0 = .ok o) :
    o = coreOut x fl (pureRun x fl (pnPolicy x fl) ps (coreStart neg0 pulls0)) ∧ NormOK x fl ps := by
  rw [compileCore_def] at h
  cases hr : runPatterns x fl (pnPolicy x fl) L ps L (coreStart neg0 pulls0) with
  | error e => simp [hr] at h
  | ok r =>
    obtain ⟨a, cl⟩ := r
    simp only [hr] at h
    obtain ⟨h1, h2⟩ := runPatterns_inv x fl (pnPolicy x fl) cnt hb L ps _ L _ hr
    simp only at h1
    cases h
    exact ⟨by rw [h1], h2⟩

theorem core_raises (x : Ext R) (fl : Flags) (cnt : Pat → Nat) (hb : BraceOK x cnt) (L : Int) (hL : 0 < L)
    (ps : List Pat) (neg0 : List R) (pulls0 : Nat) (hn : NormOK x fl ps)
    (h : L < ((allPieces x fl ps).length : Int)) :
    ∃ k, compileCore x fl L ps neg0 pulls0 = .error (.patternLimit, k) := by
  obtain ⟨k, hk⟩ := runPatterns_raises x fl (pnPolicy x fl) cnt hb L hL ps (coreStart neg0 pulls0) L hn
    (by simp [coreStart]; omega) (by simpa [coreStart] using h)
  exact ⟨k, by rw [compileCore_def, hk]⟩

theorem core_err_kind (x : Ext R) (fl : Flags) (L : Int) (ps : List Pat) (neg0 : List R) (pulls0 : Nat)
    (hn : NormOK x fl ps) (e : Err) (k : Nat) (h : compileCore x fl L ps neg0 pulls0 = .error (e, k)) :
    e = .patternLimit := by
  rw [compileCore_def] at h
  cases hr : runPatterns x fl (pnPolicy x fl) L ps L (coreStart neg0 pulls0) with
  | error e1 =>
    obtain ⟨e1, k1⟩ := e1
    simp only [hr] at h
    cases h
    exact runPatterns_error_kind x fl _ L ps _ L hn _ _ hr
  | ok r => simp [hr] at h

theorem core_work (x : Ext R) (fl : Flags) (hs : fl.split = true → SplitNonempty x fl) (L : Int) (hL : 0 < L)
    (ps : List Pat) (neg0 : List R) (pulls0 : Nat) :
    (∀ o, compileCore x fl L ps neg0 pulls0 = .ok o → (o.pulls : Int) ≤ pulls0 + L) ∧
    (∀ e k, compileCore x fl L ps neg0 pulls0 = .error (e, k) → (k : Int) ≤ pulls0 + L + 1) := by
  have hw := runPatterns_work x fl (pnPolicy x fl) hs L hL ps (coreStart neg0 pulls0) L (by simp [coreStart]; omega)
  rw [compileCore_def]
  constructor
  · intro o h
    cases hr : runPatterns x fl (pnPolicy x fl) L ps L (coreStart neg0 pulls0) with
    | error e => simp [hr] at h
    | ok r =>
      obtain ⟨a, cl⟩ := r
      simp only [hr] at h
      cases h
      obtain ⟨h1, h2⟩ := hw.1 a cl hr
      simp only [coreStart, coreOut] at h2 ⊢
      omega
  · intro e k h
    cases hr : runPatterns x fl (pnPolicy x fl) L ps L (coreStart neg0 pulls0) with
    | error e1 =>
      obtain ⟨e1, k1⟩ := e1
      simp only [hr] at h
      cases h
      have := hw.2 _ _ hr
      simp only [coreStart] at this
      omega
    | ok r => simp [hr] at h

/-- pulls never exceed pieces consumed (each item has at least one piece) -/
theorem core_pulls_le_total (x : Ext R) (fl : Flags) (cnt : Pat → Nat) (hb : BraceOK x cnt)
    (hs : fl.split = true → SplitNonempty x fl) (L : Int) (hL : 0 < L)
    (ps : List Pat) (neg0 : List R) (pulls0 : Nat) (o : Out R)
    (h : compileCore x fl L ps neg0 pulls0 = .ok o) :
    o.pulls ≤ pulls0 + (allPieces x fl ps).length ∧ ((allPieces x fl ps).length : Int) ≤ L := by
  have hw := runPatterns_work x fl (pnPolicy x fl) hs L hL ps (coreStart neg0 pulls0) L (by simp [coreStart]; omega)
  rw [compileCore_def] at h
  cases hr : runPatterns x fl (pnPolicy x fl) L ps L (coreStart neg0 pulls0) with
  | error e => simp [hr] at h
  | ok r =>
    obtain ⟨a, cl⟩ := r
    simp only [hr] at h
    cases h
    obtain ⟨h1, h2⟩ := hw.1 a cl hr
    obtain ⟨h3, _⟩ := runPatterns_inv x fl (pnPolicy x fl) cnt hb L ps _ L _ hr
    simp only at h3
    have ht := pureRun_total x fl (pnPolicy x fl) ps (coreStart neg0 pulls0)
    rw [← h3] at ht
    simp only [coreStart, coreOut] at h2 ht ⊢
    constructor
    · omega
    · rw [ht] at h1; simpa using h1

/-- what the core call builds: first occurrences, by sign, in order -/
theorem core_out (x : Ext R) (fl : Flags) (ps : List Pat) (neg0 : List R) (pulls0 : Nat) :
    (pureRun x fl (pnPolicy x fl) ps (coreStart neg0 pulls0)).out.pos =
      ((distinct (allPieces x fl ps)).filter (fun e => !isNegative fl e)).map (x.parse fl) ∧
    (pureRun x fl (pnPolicy x fl) ps (coreStart neg0 pulls0)).out.neg =
      neg0 ++ ((distinct (allPieces x fl ps)).filter (fun e => isNegative fl e)).map
        (fun e => x.parse (negFlags fl) (e.drop 1)) := by
  have hc := pureRun_core x fl (pnPolicy x fl) ps (coreStart neg0 pulls0) (coreStart neg0 pulls0) ⟨rfl, rfl, rfl⟩
  have hf := foldP_pn x fl (allPieces x fl ps) (coreStart neg0 pulls0)
  rw [hc.2.2, hf.1, hf.2]
  simp [coreStart, dn_nil]

theorem isNegative_of_no_negate (fl : Flags) (h : fl.negate = false) (e : Pat) : isNegative fl e = false := by
  unfold isNegative; simp [h]

/-- the exclusion call returns one positive per distinct piece -/
theorem core_excl_count (x : Ext R) (fl : Flags) (hneg : fl.negate = false) (hna : fl.negateall = false)
    (ps : List Pat) (neg0 : List R) (pulls0 : Nat) :
    (coreOut x fl (pureRun x fl (pnPolicy x fl) ps (coreStart neg0 pulls0))).pos.length =
      (distinct (allPieces x fl ps)).length := by
  have h1 := (core_out x fl ps neg0 pulls0).1
  simp only [coreOut, finishPN, hna, Bool.and_false, Bool.false_eq_true, if_false, h1]
  have : (distinct (allPieces x fl ps)).filter (fun e => !isNegative fl e) = distinct (allPieces x fl ps) := by
    apply List.filter_eq_self.mpr
    intro e _; simp [isNegative_of_no_negate fl hneg e]
  rw [this]; simp

/-! ### `translate` and `compile_pattern` are the same call up to the `_TRANSLATE` flag -/

def trFlag (tr : Bool) (f : Flags) : Flags := if tr then { f with translate := true } else f

/-- flags of the exclusion call / of the main loop -/
def flE (tr : Bool) (fl0 : Flags) : Flags := trFlag tr (negFlags (noNegateFlags fl0))
def flM (tr : Bool) (fl0 : Flags) (hasExcl : Bool) : Flags := trFlag tr (if hasExcl then noNegateFlags fl0 else fl0)

def pnCall (tr : Bool) (x : Ext R) (fl0 : Flags) (L : Int) (ps : List Pat) (ex : Option (List Pat)) :
    Except (Err × Nat) (Out R) :=
  match ex with
  | none => compileCore x (flM tr fl0 false) L ps [] 0
  | some e =>
    match compileCore x (flE tr fl0) L e [] 0 with
    | .error er => .error er
    | .ok o => compileCore x (flM tr fl0 true) (L - o.pos.length) ps o.pos o.pulls

theorem translate_eq (x : Ext R) (fl0 : Flags) (L : Int) (ps : List Pat) (ex : Option (List Pat)) :
    translate x fl0 L ps ex = pnCall true x fl0 L ps ex := by
  cases ex <;> rfl

theorem compilePattern_eq (x : Ext R) (fl0 : Flags) (L : Int) (ps : List Pat) (ex : Option (List Pat)) :
    compilePattern x fl0 L ps ex = pnCall false x fl0 L ps ex := by
  cases ex <;> rfl

theorem flE_negate (tr : Bool) (fl0 : Flags) : (flE tr fl0).negate = false ∧ (flE tr fl0).negateall = false := by
  cases tr <;> simp [flE, trFlag, negFlags, noNegateFlags]

/-- number of distinct exclusion pieces (`len(negative)` after the `exclude=` call) -/
def exclCount (tr : Bool) (x : Ext R) (fl0 : Flags) (ex : Option (List Pat)) : Nat :=
  match ex with
  | none => 0
  | some e => (distinct (allPieces x (flE tr fl0) e)).length

def exclNormOK (tr : Bool) (x : Ext R) (fl0 : Flags) (ex : Option (List Pat)) : Prop :=
  match ex with
  | none => True
  | some e => NormOK x (flE tr fl0) e

def exclWeight (tr : Bool) (x : Ext R) (fl0 : Flags) (cnt : Pat → Nat) (ex : Option (List Pat)) : Nat :=
  match ex with
  | none => 0
  | some e => totalWeight x (flE tr fl0) cnt e

def pullsOf {α} : Except (Err × Nat) α → (α → Nat) → Nat
  | .ok o, f => f o
  | .error (_, k), _ => k

theorem pn_ok (tr : Bool) (x : Ext R) (fl0 : Flags) (cnt : Pat → Nat) (hb : BraceOK x cnt) (L : Int) (hL : 0 < L)
    (ps : List Pat) (ex : Option (List Pat))
    (hne : exclNormOK tr x fl0 ex) (hnm : NormOK x (flM tr fl0 ex.isSome) ps)
    (h : ((exclWeight tr x fl0 cnt ex + totalWeight x (flM tr fl0 ex.isSome) cnt ps : Nat) : Int) ≤ L) :
    ∃ o, pnCall tr x fl0 L ps ex = .ok o := by
  cases ex with
  | none =>
    simp only [exclWeight, Option.isSome_none, Nat.zero_add] at h hnm
    exact ⟨_, by simp only [pnCall]; exact core_ok x _ cnt hb L ps [] 0 hnm (Or.inr ⟨hL, h⟩)⟩
  | some e =>
    simp only [exclWeight, exclNormOK, Option.isSome_some] at h hne hnm
    have he := core_ok x (flE tr fl0) cnt hb L e [] 0 hne (Or.inr ⟨hL, by push_cast at h ⊢; omega⟩)
    have hc := core_excl_count x (flE tr fl0) (flE_negate tr fl0).1 (flE_negate tr fl0).2 e [] 0
    have h1 := distinct_length_le (allPieces x (flE tr fl0) e)
    have h2 := allPieces_le_weight x (flE tr fl0) cnt e
    simp only [pnCall, he]
    refine ⟨_, core_ok x _ cnt hb _ ps _ _ hnm ?_⟩
    rw [hc]
    by_cases hz : L - ((distinct (allPieces x (flE tr fl0) e)).length : Int) = 0
    · exact Or.inl hz
    · right; push_cast at h ⊢; omega

theorem pn_raises (tr : Bool) (x : Ext R) (fl0 : Flags) (cnt : Pat → Nat) (hb : BraceOK x cnt) (L : Int) (hL : 0 < L)
    (ps : List Pat) (ex : Option (List Pat))
    (hne : exclNormOK tr x fl0 ex) (hnm : NormOK x (flM tr fl0 ex.isSome) ps)
    (hpart : ex = none ∨ (exclCount tr x fl0 ex : Int) < L)
    (h : L < ((exclCount tr x fl0 ex + (distinct (allPieces x (flM tr fl0 ex.isSome) ps)).length : Nat) : Int)) :
    ∃ k, pnCall tr x fl0 L ps ex = .error (.patternLimit, k) := by
  cases ex with
  | none =>
    simp only [exclCount, Option.isSome_none, Nat.zero_add] at h hnm
    have := distinct_length_le (allPieces x (flM tr fl0 false) ps)
    simp only [pnCall]
    exact core_raises x _ cnt hb L hL ps [] 0 hnm (by omega)
  | some e =>
    simp only [exclCount, exclNormOK, Option.isSome_some] at h hne hnm hpart
    have hlt : ((distinct (allPieces x (flE tr fl0) e)).length : Int) < L := by
      rcases hpart with hp | hp
      · cases hp
      · exact hp
    simp only [pnCall]
    cases hin : compileCore x (flE tr fl0) L e [] 0 with
    | error er =>
      obtain ⟨e1, k1⟩ := er
      have := core_err_kind x _ L e [] 0 hne e1 k1 hin
      subst this
      exact ⟨k1, rfl⟩
    | ok o =>
      obtain ⟨ho, _⟩ := core_inv x _ cnt hb L e [] 0 o hin
      have hc := core_excl_count x (flE tr fl0) (flE_negate tr fl0).1 (flE_negate tr fl0).2 e [] 0
      rw [← ho] at hc
      simp only
      have := distinct_length_le (allPieces x (flM tr fl0 true) ps)
      exact core_raises x _ cnt hb _ (by rw [hc]; omega) ps _ _ hnm (by rw [hc]; push_cast at h ⊢; omega)

theorem pn_zero (tr : Bool) (x : Ext R) (fl0 : Flags) (cnt : Pat → Nat) (hb : BraceOK x cnt)
    (ps : List Pat) (hnm : NormOK x (flM tr fl0 false) ps) :
    ∃ o, pnCall tr x fl0 0 ps none = .ok o :=
  ⟨_, by simp only [pnCall]; exact core_ok x _ cnt hb 0 ps [] 0 hnm (Or.inl rfl)⟩

theorem pn_work (tr : Bool) (x : Ext R) (fl0 : Flags) (cnt : Pat → Nat) (hb : BraceOK x cnt)
    (hs : ∀ fl : Flags, fl.split = true → SplitNonempty x fl) (L : Int) (hL : 0 < L)
    (ps : List Pat) (ex : Option (List Pat))
    (hpart : ex = none ∨ (exclCount tr x fl0 ex : Int) < L) :
    (ex = none → (pullsOf (pnCall tr x fl0 L ps ex) Out.pulls : Int) ≤ L + 1) ∧
    ((pullsOf (pnCall tr x fl0 L ps ex) Out.pulls + exclCount tr x fl0 ex : Nat) : Int) ≤ 2 * L + 1 := by
  cases ex with
  | none =>
    simp only [pnCall, exclCount, Nat.add_zero]
    have hw := core_work x (flM tr fl0 false) (hs _) L hL ps ([] : List R) 0
    have : (pullsOf (compileCore x (flM tr fl0 false) L ps [] 0) Out.pulls : Int) ≤ L + 1 := by
      cases hr : compileCore x (flM tr fl0 false) L ps ([] : List R) 0 with
      | ok o => have := hw.1 o hr; simp only [pullsOf]; push_cast at this; omega
      | error er => obtain ⟨e1, k1⟩ := er; have := hw.2 e1 k1 hr; simp only [pullsOf]; push_cast at this; omega
    exact ⟨fun _ => this, by omega⟩
  | some e =>
    refine ⟨(fun h => nomatch h), ?_⟩
    simp only [exclCount] at hpart ⊢
    have hlt : ((distinct (allPieces x (flE tr fl0) e)).length : Int) < L := by
      rcases hpart with hp | hp
      · cases hp
      · exact hp
    simp only [pnCall]
    have hwe := core_work x (flE tr fl0) (hs _) L hL e ([] : List R) 0
    cases hin : compileCore x (flE tr fl0) L e ([] : List R) 0 with
    | error er =>
      obtain ⟨e1, k1⟩ := er
      have := hwe.2 e1 k1 hin
      simp only [pullsOf]; push_cast at this ⊢; omega
    | ok o =>
      have hpe := hwe.1 o hin
      obtain ⟨ho, _⟩ := core_inv x _ cnt hb L e [] 0 o hin
      have hc := core_excl_count x (flE tr fl0) (flE_negate tr fl0).1 (flE_negate tr fl0).2 e ([] : List R) 0
      rw [← ho] at hc
      simp only
      have hL' : 0 < L - (o.pos.length : Int) := by rw [hc]; omega
      have hwm := core_work x (flM tr fl0 true) (hs _) _ hL' ps o.pos o.pulls
      cases hr : compileCore x (flM tr fl0 true) (L - o.pos.length) ps o.pos o.pulls with
      | ok o2 => have := hwm.1 o2 hr; simp only [pullsOf]; rw [hc] at this; push_cast at this hpe ⊢; omega
      | error er =>
        obtain ⟨e2, k2⟩ := er
        have := hwm.2 e2 k2 hr
        simp only [pullsOf]; rw [hc] at this; push_cast at this hpe ⊢; omega

/-- with an exclusion list without duplicates the bound is `L + 1` again -/
theorem pn_work_nodup (tr : Bool) (x : Ext R) (fl0 : Flags) (cnt : Pat → Nat) (hb : BraceOK x cnt)
    (hs : ∀ fl : Flags, fl.split = true → SplitNonempty x fl) (L : Int) (hL : 0 < L)
    (ps e : List Pat)
    (hpart : ((distinct (allPieces x (flE tr fl0) e)).length : Int) < L)
    (hnodup : (allPieces x (flE tr fl0) e).length = (distinct (allPieces x (flE tr fl0) e)).length) :
    (pullsOf (pnCall tr x fl0 L ps (some e)) Out.pulls : Int) ≤ L + 1 := by
  simp only [pnCall]
  have hwe := core_work x (flE tr fl0) (hs _) L hL e ([] : List R) 0
  cases hin : compileCore x (flE tr fl0) L e ([] : List R) 0 with
  | error er =>
    obtain ⟨e1, k1⟩ := er
    have := hwe.2 e1 k1 hin
    simp only [pullsOf]; push_cast at this ⊢; omega
  | ok o =>
    have hpe := (core_pulls_le_total x (flE tr fl0) cnt hb (hs _) L hL e [] 0 o hin).1
    obtain ⟨ho, _⟩ := core_inv x _ cnt hb L e [] 0 o hin
    have hc := core_excl_count x (flE tr fl0) (flE_negate tr fl0).1 (flE_negate tr fl0).2 e ([] : List R) 0
    rw [← ho] at hc
    simp only
    have hL' : 0 < L - (o.pos.length : Int) := by rw [hc]; omega
    have hwm := core_work x (flM tr fl0 true) (hs _) _ hL' ps o.pos o.pulls
    cases hr : compileCore x (flM tr fl0 true) (L - o.pos.length) ps o.pos o.pulls with
    | ok o2 => have := hwm.1 o2 hr; simp only [pullsOf]; rw [hc] at this; push_cast at this ⊢; omega
    | error er =>
      obtain ⟨e2, k2⟩ := er
      have := hwm.2 e2 k2 hr
      simp only [pullsOf]; rw [hc] at this; push_cast at this ⊢; omega

/-! ### `Glob.__init__`: two `_parse_patterns` calls sharing `current_limit` -/

def globStart (pulls : Nat) (o : GPN R) : Acc (GPN R) := ⟨0, pulls, [], o⟩

theorem globParse_def (x : Ext R) (g : GlobCfg) (force : Bool) (ps : List Pat) (cl : Int) (o : GPN R) (pulls : Nat) :
    globParse x g force ps cl o pulls =
      match runPatterns x g.flags (globPolicy x g force) g.limit ps cl (globStart pulls o) with
      | .error e => .error e
      | .ok (a, cl') => .ok (finishGlob x g force a.out, cl', a.pulls) := rfl

def exclNormOKg (x : Ext R) (g : GlobCfg) (ex : Option (List Pat)) : Prop :=
  match ex with
  | none => True
  | some e => NormOK x g.flags e

def exclWeightG (x : Ext R) (g : GlobCfg) (cnt : Pat → Nat) (ex : Option (List Pat)) : Nat :=
  match ex with
  | none => 0
  | some e => totalWeight x g.flags cnt e

def exclPiecesG (x : Ext R) (g : GlobCfg) (ex : Option (List Pat)) : List Pat :=
  match ex with
  | none => []
  | some e => allPieces x g.flags e

theorem glob_ok (x : Ext R) (g : GlobCfg) (cnt : Pat → Nat) (hb : BraceOK x cnt)
    (ps : List Pat) (ex : Option (List Pat)) (hn : NormOK x g.flags ps) (hne : exclNormOKg x g ex)
    (h : g.limit = 0 ∨ (0 < g.limit ∧ ((totalWeight x g.flags cnt ps + exclWeightG x g cnt ex : Nat) : Int) ≤ g.limit)) :
    ∃ o, globPatterns x g ps ex = .ok o := by
  unfold globPatterns
  by_cases hemp : ps.isEmpty = true
  · simp [hemp]
  · simp only [hemp, Bool.false_eq_true, if_false]
    obtain ⟨cl1, hrun1, hcl1⟩ := runPatterns_ok x g.flags (globPolicy x g false) cnt hb g.limit ps 0
      (globStart 0 ⟨[], []⟩) g.limit hn (by
        rcases h with h | ⟨h1, h2⟩
        · exact Or.inl ⟨h, h⟩
        · right
          refine ⟨h1, ?_, ?_⟩
          · simp [globStart, clOf_zero _ h1]
          · simp only [globStart]; push_cast at h2 ⊢; omega)
    rw [globParse_def, hrun1]
    cases ex with
    | none => exact ⟨_, rfl⟩
    | some e =>
      simp only [exclNormOKg, exclWeightG] at hne h
      have ht := pureRun_total x g.flags (globPolicy x g false) ps (globStart 0 ⟨[], []⟩)
      have hle := allPieces_le_weight x g.flags cnt ps
      simp only [globStart] at ht
      obtain ⟨cl2, hrun2, _⟩ := runPatterns_ok x g.flags (globPolicy x g true) cnt hb g.limit e
        (allPieces x g.flags ps).length
        (globStart (pureRun x g.flags (globPolicy x g false) ps (globStart 0 ⟨[], []⟩)).pulls
          (finishGlob x g false (pureRun x g.flags (globPolicy x g false) ps (globStart 0 ⟨[], []⟩)).out))
        cl1 hne (by
          rcases h with h | ⟨h1, h2⟩
          · left
            rcases hcl1 with ⟨_, hc⟩ | ⟨hc, _⟩
            · exact ⟨h, hc⟩
            · omega
          · right
            rcases hcl1 with ⟨hc, _⟩ | ⟨_, hc⟩
            · omega
            · refine ⟨h1, ?_, ?_⟩
              · rw [hc]; simp only [globStart] at ht ⊢; rw [ht]; simp
              · simp only [globStart]; push_cast at h2 ⊢; omega)
      simp only
      rw [globParse_def, hrun2]
      exact ⟨_, rfl⟩

theorem glob_raises (x : Ext R) (g : GlobCfg) (cnt : Pat → Nat) (hb : BraceOK x cnt) (hL : 0 < g.limit)
    (ps : List Pat) (ex : Option (List Pat)) (hn : NormOK x g.flags ps) (hne : exclNormOKg x g ex)
    (hps : ps ≠ [])
    (h : g.limit < ((allPieces x g.flags ps).length : Int) ∨ g.limit < ((exclPiecesG x g ex).length : Int)) :
    ∃ k, globPatterns x g ps ex = .error (.patternLimit, k) := by
  unfold globPatterns
  have hemp : ps.isEmpty = false := by cases ps <;> simp_all
  simp only [hemp, Bool.false_eq_true, if_false]
  rw [globParse_def]
  cases hr1 : runPatterns x g.flags (globPolicy x g false) g.limit ps g.limit (globStart 0 ⟨[], []⟩) with
  | error er =>
    obtain ⟨e1, k1⟩ := er
    have := runPatterns_error_kind x g.flags _ g.limit ps _ g.limit hn e1 k1 hr1
    subst this
    exact ⟨k1, rfl⟩
  | ok r =>
    obtain ⟨a1, cl1⟩ := r
    rcases h with h | h
    · obtain ⟨k, hk⟩ := runPatterns_raises x g.flags (globPolicy x g false) cnt hb g.limit hL ps
        (globStart 0 ⟨[], []⟩) g.limit hn (by simp [globStart]; omega) (by simpa [globStart] using h)
      rw [hk] at hr1; cases hr1
    · cases ex with
      | none => simp [exclPiecesG] at h; omega
      | some e =>
        simp only [exclPiecesG, exclNormOKg] at h hne
        simp only
        rw [globParse_def]
        obtain ⟨k, hk⟩ := runPatterns_raises x g.flags (globPolicy x g true) cnt hb g.limit hL e
          (globStart a1.pulls (finishGlob x g false a1.out)) cl1 hne (by simp [globStart]; omega)
          (by simpa [globStart] using h)
        rw [hk]
        exact ⟨k, rfl⟩

theorem glob_work (x : Ext R) (g : GlobCfg) (hs : g.flags.split = true → SplitNonempty x g.flags) (hL : 0 < g.limit)
    (ps : List Pat) (ex : Option (List Pat)) :
    (ex = none → (pullsOf (globPatterns x g ps ex) GOut.pulls : Int) ≤ g.limit + 1) ∧
    (pullsOf (globPatterns x g ps ex) GOut.pulls : Int) ≤ 2 * g.limit + 1 := by
  unfold globPatterns
  by_cases hemp : ps.isEmpty = true
  · simp only [hemp, if_true, pullsOf]
    exact ⟨fun _ => by push_cast; omega, by push_cast; omega⟩
  · simp only [hemp, Bool.false_eq_true, if_false]
    rw [globParse_def]
    have hw1 := runPatterns_work x g.flags (globPolicy x g false) hs g.limit hL ps (globStart 0 ⟨[], []⟩) g.limit
      (by simp [globStart]; omega)
    cases hr1 : runPatterns x g.flags (globPolicy x g false) g.limit ps g.limit (globStart 0 ⟨[], []⟩) with
    | error er =>
      obtain ⟨e1, k1⟩ := er
      have := hw1.2 e1 k1 hr1
      simp only [globStart] at this
      simp only [pullsOf]
      exact ⟨fun _ => by push_cast at this ⊢; omega, by push_cast at this ⊢; omega⟩
    | ok r =>
      obtain ⟨a1, cl1⟩ := r
      obtain ⟨h1, h2⟩ := hw1.1 a1 cl1 hr1
      simp only [globStart] at h2
      cases ex with
      | none =>
        simp only [pullsOf]
        exact ⟨fun _ => by push_cast at h1 ⊢; omega, by push_cast at h1 ⊢; omega⟩
      | some e =>
        refine ⟨(fun h => nomatch h), ?_⟩
        simp only
        rw [globParse_def]
        have hw2 := runPatterns_work x g.flags (globPolicy x g true) hs g.limit hL e
          (globStart a1.pulls (finishGlob x g false a1.out)) cl1 (by simp [globStart]; omega)
        cases hr2 : runPatterns x g.flags (globPolicy x g true) g.limit e cl1
            (globStart a1.pulls (finishGlob x g false a1.out)) with
        | error er =>
          obtain ⟨e2, k2⟩ := er
          have := hw2.2 e2 k2 hr2
          simp only [globStart] at this
          simp only [pullsOf]
          push_cast at this h1 ⊢; omega
        | ok r2 =>
          obtain ⟨a2, cl2⟩ := r2
          obtain ⟨h3, h4⟩ := hw2.1 a2 cl2 hr2
          simp only [globStart] at h4
          simp only [pullsOf]
          push_cast at h1 h3 ⊢; omega

/-! ### two shapes of `bracex` that meet the contract -/

/-- what bracex 3.0.1 does: the count is checked before anything is yielded -/
def eagerBrace (items : Pat → List Pat) (p : Pat) (l : Int) : BraceOut :=
  if 0 < l ∧ l < ((items p).length : Int) then ⟨[], true⟩ else ⟨items p, false⟩

/-- a fully lazy generator: `l` items, then the exception -/
def lazyBrace (items : Pat → List Pat) (p : Pat) (l : Int) : BraceOut :=
  if 0 < l ∧ l < ((items p).length : Int) then ⟨(items p).take l.toNat, true⟩ else ⟨items p, false⟩

theorem eagerBrace_ok (x : Ext R) (items : Pat → List Pat) :
    BraceOK { x with brace := eagerBrace items } (fun p => (items p).length) where
  full := by
    intro p l h
    have h0 : ¬ ((0 : Int) < 0 ∧ (0 : Int) < ((items p).length : Int)) := by omega
    have hl : ¬ (0 < l ∧ l < ((items p).length : Int)) := by omega
    simp only [eagerBrace, h0, hl, if_false]
  over := by
    intro p l h1 h2
    simp only [eagerBrace, h1, h2, and_self, if_true]
  cnt_ge := by
    intro p
    have h0 : ¬ ((0 : Int) < 0 ∧ (0 : Int) < ((items p).length : Int)) := by omega
    simp only [eagerBrace, h0, if_false]; exact Nat.le_refl _

theorem lazyBrace_ok (x : Ext R) (items : Pat → List Pat) :
    BraceOK { x with brace := lazyBrace items } (fun p => (items p).length) where
  full := by
    intro p l h
    have h0 : ¬ ((0 : Int) < 0 ∧ (0 : Int) < ((items p).length : Int)) := by omega
    have hl : ¬ (0 < l ∧ l < ((items p).length : Int)) := by omega
    simp only [lazyBrace, h0, hl, if_false]
  over := by
    intro p l h1 h2
    simp only [lazyBrace, h1, h2, and_self, if_true]
  cnt_ge := by
    intro p
    have h0 : ¬ ((0 : Int) < 0 ∧ (0 : Int) < ((items p).length : Int)) := by omega
    simp only [lazyBrace, h0, if_false]; exact Nat.le_refl _

/-! ### the budget handed to bracex is never "unlimited" under a positive limit -/

theorem nextLimit_bounds (L cl : Int) (count : Nat) (hL : L ≠ 0) (hcl : 1 ≤ cl) :
    1 ≤ nextLimit L cl count ∧ nextLimit L cl count ≤ cl := by
  unfold nextLimit
  simp only [hL, ne_eq, not_false_eq_true, if_true]
  split <;> omega

/-- with a positive limit every `limit` argument given to the expander lies in `[1, cl]`: bracex
    (for which 0 means "no limit") is never asked for an unbounded expansion -/
theorem braceArgs_bounds {O} (x : Ext R) (fl : Flags) (pol : Policy O) (L : Int) (hL : 0 < L)
    (ps : List Pat) (cl : Int) (a : Acc O) (hcl : 1 ≤ cl) :
    ∀ qa ∈ braceArgs x fl pol L ps cl a, 1 ≤ qa.2 ∧ qa.2 ≤ cl := by
  induction ps generalizing cl a with
  | nil => intro qa h; simp [braceArgs] at h
  | cons p ps ih =>
    intro qa h
    simp only [braceArgs] at h
    cases hq : x.norm fl p with
    | error e => simp [hq] at h
    | ok q =>
      simp only [hq] at h
      rcases List.mem_cons.mp h with h | h
      · rw [h]; exact ⟨hcl, Int.le_refl _⟩
      · cases hri : runItems pol L (expand x fl q cl).1 a 0 with
        | error e => simp [hri] at h
        | ok r =>
          obtain ⟨a', count⟩ := r
          simp only [hri] at h
          split at h
          · simp at h
          · obtain ⟨h1, h2⟩ := nextLimit_bounds L cl count (by omega) hcl
            obtain ⟨h3, h4⟩ := ih _ a' h1 qa h
            exact ⟨h3, by omega⟩

end WcModel.Compile

import WcModel.Proofs.Compile
/- C11 lemmas about one `translate` / `compile_pattern` core call and one `Glob._parse_patterns`. -/
namespace WcModel.Compile

variable {R : Type}

theorem allPieces_le_weight (x : Ext R) (fl : Flags) (cnt : Pat → Nat) (ps : List Pat) :
    (allPieces x fl ps).length ≤ totalWeight x fl cnt ps := by
  induction ps with
  | nil => simp [allPieces, totalWeight]
  | cons p ps ih =>
    have : (fullPieces x fl (nrm x fl p)).length ≤ weight x fl cnt (nrm x fl p) := Nat.le_max_right _ _
    simp only [allPieces, List.flatMap_cons, List.length_append, totalWeight, List.map_cons, List.sum_cons] at ih ⊢
    omega

theorem pureRun_total {O} (x : Ext R) (fl : Flags) (pol : Policy O) (ps : List Pat) (a : Acc O) :
    (pureRun x fl pol ps a).total = a.total + (allPieces x fl ps).length := by
  have := (pureRun_core x fl pol ps a a ⟨rfl, rfl, rfl⟩).1
  rw [this, foldP_total]

theorem clOf_zero (L : Int) (hL : 0 < L) : clOf L 0 = L := by
  unfold clOf; split <;> (push_cast; omega)

/-! ### the budget the main loop starts with -/

theorem startLimit_zero (L : Int) : startLimit L 0 = L := by
  unfold startLimit
  split
  · split <;> (push_cast at *; omega)
  · rfl

theorem startLimit_pos (L : Int) (hL : 0 < L) (used : Nat) : startLimit L used = clOf L used := by
  unfold startLimit clOf; simp only [hL, if_true]

theorem startLimit_nonpos (L : Int) (hL : L ≤ 0) (used : Nat) : startLimit L used = L := by
  unfold startLimit
  have : ¬ (0 < L) := by omega
  simp only [this, if_false]

theorem startLimit_bounds (L : Int) (hL : 0 < L) (used : Nat) : 1 ≤ startLimit L used ∧ startLimit L used ≤ L := by
  unfold startLimit
  simp only [hL, if_true]
  split <;> omega

/-- the start state of a core call: `total = used` (the exclusion patterns already counted) -/
def coreStart (neg0 : List R) (pulls0 : Nat) (used : Nat) : Acc (PN R) := ⟨used, pulls0, [], ⟨[], neg0⟩⟩

/-- the result of a core call from its final state -/
def coreOut (x : Ext R) (fl : Flags) (a : Acc (PN R)) : Out R :=
  let o := finishPN x fl a.out
  ⟨o.pos, o.neg, a.pulls⟩

theorem compileCore_def (x : Ext R) (fl : Flags) (L : Int) (ps : List Pat) (neg0 : List R) (pulls0 used : Nat) :
    compileCore x fl L ps neg0 pulls0 used =
      match runPatterns x fl (pnPolicy x fl) L ps (startLimit L used) (coreStart neg0 pulls0 used) with
      | .error e => .error e
      | .ok (a, _) => .ok (coreOut x fl a) := rfl

theorem core_ok (x : Ext R) (fl : Flags) (cnt : Pat → Nat) (hb : BraceOK x cnt) (L : Int) (ps : List Pat)
    (neg0 : List R) (pulls0 used : Nat) (hn : NormOK x fl ps)
    (h : L = 0 ∨ (0 < L ∧ ((used + totalWeight x fl cnt ps : Nat) : Int) ≤ L)) :
    compileCore x fl L ps neg0 pulls0 used =
      .ok (coreOut x fl (pureRun x fl (pnPolicy x fl) ps (coreStart neg0 pulls0 used))) := by
  obtain ⟨cl', hrun, _⟩ := runPatterns_ok x fl (pnPolicy x fl) cnt hb L ps 0 (coreStart neg0 pulls0 used)
    (startLimit L used) hn (by
    rcases h with h | ⟨h1, h2⟩
    · exact Or.inl ⟨h, by rw [startLimit_nonpos L (by omega)]; exact h⟩
    · right
      refine ⟨h1, ?_, ?_⟩
      · simp [coreStart, startLimit_pos L h1]
      · simpa [coreStart] using h2)
  rw [compileCore_def, hrun]

theorem core_inv (x : Ext R) (fl : Flags) (cnt : Pat → Nat) (hb : BraceOK x cnt) (L : Int) (ps : List Pat)
    (neg0 : List R) (pulls0 used : Nat) (o : Out R) (h : compileCore x fl L ps neg0 pulls0 used = .ok o) :
    o = coreOut x fl (pureRun x fl (pnPolicy x fl) ps (coreStart neg0 pulls0 used)) ∧ NormOK x fl ps := by
  rw [compileCore_def] at h
  cases hr : runPatterns x fl (pnPolicy x fl) L ps (startLimit L used) (coreStart neg0 pulls0 used) with
  | error e => simp [hr] at h
  | ok r =>
    obtain ⟨a, cl⟩ := r
    simp only [hr] at h
    obtain ⟨h1, h2⟩ := runPatterns_inv x fl (pnPolicy x fl) cnt hb L ps _ _ _ hr
    simp only at h1
    cases h
    exact ⟨by rw [h1], h2⟩

/-- the loop raises as soon as `used` + the pieces of the list exceed the limit -/
theorem core_raises (x : Ext R) (fl : Flags) (cnt : Pat → Nat) (hb : BraceOK x cnt) (L : Int) (hL : 0 < L)
    (ps : List Pat) (neg0 : List R) (pulls0 used : Nat) (hn : NormOK x fl ps) (hu : (used : Int) ≤ L)
    (h : L < ((used + (allPieces x fl ps).length : Nat) : Int)) :
    ∃ k, compileCore x fl L ps neg0 pulls0 used = .error (.patternLimit, k) := by
  obtain ⟨k, hk⟩ := runPatterns_raises x fl (pnPolicy x fl) cnt hb L hL ps (coreStart neg0 pulls0 used)
    (startLimit L used) hn (by simpa [coreStart] using hu) (by simpa [coreStart] using h)
  exact ⟨k, by rw [compileCore_def, hk]⟩

theorem core_err_kind (x : Ext R) (fl : Flags) (L : Int) (ps : List Pat) (neg0 : List R) (pulls0 used : Nat)
    (hn : NormOK x fl ps) (e : Err) (k : Nat) (h : compileCore x fl L ps neg0 pulls0 used = .error (e, k)) :
    e = .patternLimit := by
  rw [compileCore_def] at h
  cases hr : runPatterns x fl (pnPolicy x fl) L ps (startLimit L used) (coreStart neg0 pulls0 used) with
  | error e1 =>
    obtain ⟨e1, k1⟩ := e1
    simp only [hr] at h
    cases h
    exact runPatterns_error_kind x fl _ L ps _ _ hn _ _ hr
  | ok r => simp [hr] at h

/-- work of one core call that starts with `used` patterns already counted: the items it draws,
    plus `used`, stay within `L` (`L + 1` when it raises) of the pull count it started with -/
theorem core_work (x : Ext R) (fl : Flags) (hs : fl.split = true → SplitNonempty x fl) (L : Int) (hL : 0 < L)
    (ps : List Pat) (neg0 : List R) (pulls0 used : Nat) (hu : (used : Int) ≤ L) :
    (∀ o, compileCore x fl L ps neg0 pulls0 used = .ok o → ((o.pulls + used : Nat) : Int) ≤ pulls0 + L) ∧
    (∀ e k, compileCore x fl L ps neg0 pulls0 used = .error (e, k) → ((k + used : Nat) : Int) ≤ pulls0 + L + 1) := by
  have hw := runPatterns_work x fl (pnPolicy x fl) hs L hL ps (coreStart neg0 pulls0 used) (startLimit L used)
    (by simpa [coreStart] using hu)
  rw [compileCore_def]
  constructor
  · intro o h
    cases hr : runPatterns x fl (pnPolicy x fl) L ps (startLimit L used) (coreStart neg0 pulls0 used) with
    | error e => simp [hr] at h
    | ok r =>
      obtain ⟨a, cl⟩ := r
      simp only [hr] at h
      cases h
      obtain ⟨h1, h2⟩ := hw.1 a cl hr
      simp only [coreStart, coreOut] at h2 ⊢
      push_cast; omega
  · intro e k h
    cases hr : runPatterns x fl (pnPolicy x fl) L ps (startLimit L used) (coreStart neg0 pulls0 used) with
    | error e1 =>
      obtain ⟨e1, k1⟩ := e1
      simp only [hr] at h
      cases h
      have := hw.2 _ _ hr
      simp only [coreStart] at this
      push_cast; omega
    | ok r => simp [hr] at h

/-- a core call that does not raise has consumed all its pieces within the limit -/
theorem core_total_le (x : Ext R) (fl : Flags) (cnt : Pat → Nat) (hb : BraceOK x cnt) (L : Int) (hL : 0 < L)
    (ps : List Pat) (neg0 : List R) (pulls0 used : Nat) (hu : (used : Int) ≤ L) (o : Out R)
    (h : compileCore x fl L ps neg0 pulls0 used = .ok o) :
    ((used + (allPieces x fl ps).length : Nat) : Int) ≤ L := by
  obtain ⟨_, hn⟩ := core_inv x fl cnt hb L ps neg0 pulls0 used o h
  by_cases hov : L < ((used + (allPieces x fl ps).length : Nat) : Int)
  · obtain ⟨k, hk⟩ := core_raises x fl cnt hb L hL ps neg0 pulls0 used hn hu hov
    rw [hk] at h; cases h
  · omega

/-- pulls never exceed pieces consumed (each item has at least one piece) -/
theorem core_pulls_le_total (x : Ext R) (fl : Flags) (cnt : Pat → Nat) (hb : BraceOK x cnt)
    (hs : fl.split = true → SplitNonempty x fl) (L : Int) (hL : 0 < L)
    (ps : List Pat) (neg0 : List R) (pulls0 used : Nat) (hu : (used : Int) ≤ L) (o : Out R)
    (h : compileCore x fl L ps neg0 pulls0 used = .ok o) :
    o.pulls ≤ pulls0 + (allPieces x fl ps).length ∧ ((used + (allPieces x fl ps).length : Nat) : Int) ≤ L := by
  refine ⟨?_, core_total_le x fl cnt hb L hL ps neg0 pulls0 used hu o h⟩
  have hw := runPatterns_work x fl (pnPolicy x fl) hs L hL ps (coreStart neg0 pulls0 used) (startLimit L used)
    (by simpa [coreStart] using hu)
  rw [compileCore_def] at h
  cases hr : runPatterns x fl (pnPolicy x fl) L ps (startLimit L used) (coreStart neg0 pulls0 used) with
  | error e => simp [hr] at h
  | ok r =>
    obtain ⟨a, cl⟩ := r
    simp only [hr] at h
    cases h
    obtain ⟨h1, h2⟩ := hw.1 a cl hr
    obtain ⟨h3, _⟩ := runPatterns_inv x fl (pnPolicy x fl) cnt hb L ps _ _ _ hr
    simp only at h3
    have ht := pureRun_total x fl (pnPolicy x fl) ps (coreStart neg0 pulls0 used)
    rw [← h3] at ht
    simp only [coreStart, coreOut] at h2 ht ⊢
    omega

/-- what the core call builds: first occurrences, by sign, in order -/
theorem core_out (x : Ext R) (fl : Flags) (ps : List Pat) (neg0 : List R) (pulls0 used : Nat) :
    (pureRun x fl (pnPolicy x fl) ps (coreStart neg0 pulls0 used)).out.pos =
      ((distinct (allPieces x fl ps)).filter (fun e => !isNegative fl e)).map (x.parse fl) ∧
    (pureRun x fl (pnPolicy x fl) ps (coreStart neg0 pulls0 used)).out.neg =
      neg0 ++ ((distinct (allPieces x fl ps)).filter (fun e => isNegative fl e)).map
        (fun e => x.parse (negFlags fl) (e.drop 1)) := by
  have hc := pureRun_core x fl (pnPolicy x fl) ps (coreStart neg0 pulls0 used) (coreStart neg0 pulls0 used) ⟨rfl, rfl, rfl⟩
  have hf := foldP_pn x fl (allPieces x fl ps) (coreStart neg0 pulls0 used)
  rw [hc.2.2, hf.1, hf.2]
  simp [coreStart, dn_nil]

theorem isNegative_of_no_negate (fl : Flags) (h : fl.negate = false) (e : Pat) : isNegative fl e = false := by
  unfold isNegative; simp [h]

/-- the exclusion call returns one positive per distinct piece -/
theorem core_excl_count (x : Ext R) (fl : Flags) (hneg : fl.negate = false) (hna : fl.negateall = false)
    (ps : List Pat) (neg0 : List R) (pulls0 used : Nat) :
    (coreOut x fl (pureRun x fl (pnPolicy x fl) ps (coreStart neg0 pulls0 used))).pos.length =
      (distinct (allPieces x fl ps)).length := by
  have h1 := (core_out x fl ps neg0 pulls0 used).1
  simp only [coreOut, finishPN, hna, Bool.and_false, Bool.false_eq_true, if_false, h1]
  have : (distinct (allPieces x fl ps)).filter (fun e => !isNegative fl e) = distinct (allPieces x fl ps) := by
    apply List.filter_eq_self.mpr
    intro e _; simp [isNegative_of_no_negate fl hneg e]
  rw [this]; simp

/-! ### `translate` and `compile_pattern` are the same call up to the `_TRANSLATE` flag -/

def trFlag (tr : Bool) (f : Flags) : Flags := if tr then { f with translate := true } else f

/-- flags of the exclusion call / of the main loop -/
def flE (tr : Bool) (fl0 : Flags) : Flags := trFlag tr (negFlags (noNegateFlags fl0))
def flM (tr : Bool) (fl0 : Flags) (hasExcl : Bool) : Flags := trFlag tr (if hasExcl then noNegateFlags fl0 else fl0)

def pnCall (tr : Bool) (x : Ext R) (fl0 : Flags) (L : Int) (ps : List Pat) (ex : Option (List Pat)) :
    Except (Err × Nat) (Out R) :=
  match ex with
  | none => compileCore x (flM tr fl0 false) L ps [] 0 0
  | some e =>
    match compileCore x (flE tr fl0) L e [] 0 0 with
    | .error er => .error er
    | .ok o => compileCore x (flM tr fl0 true) L ps o.pos o.pulls o.pos.length

theorem translate_eq (x : Ext R) (fl0 : Flags) (L : Int) (ps : List Pat) (ex : Option (List Pat)) :
    translate x fl0 L ps ex = pnCall true x fl0 L ps ex := by
  cases ex <;> rfl

theorem compilePattern_eq (x : Ext R) (fl0 : Flags) (L : Int) (ps : List Pat) (ex : Option (List Pat)) :
    compilePattern x fl0 L ps ex = pnCall false x fl0 L ps ex := by
  cases ex <;> rfl

theorem flE_negate (tr : Bool) (fl0 : Flags) : (flE tr fl0).negate = false ∧ (flE tr fl0).negateall = false := by
  cases tr <;> simp [flE, trFlag, negFlags, noNegateFlags]

/-- number of distinct exclusion pieces (`len(negative)` after the `exclude=` call) -/
def exclCount (tr : Bool) (x : Ext R) (fl0 : Flags) (ex : Option (List Pat)) : Nat :=
  match ex with
  | none => 0
  | some e => (distinct (allPieces x (flE tr fl0) e)).length

/-- number of exclusion pieces, duplicates included (what the `exclude=` call counts itself) -/
def exclTotal (tr : Bool) (x : Ext R) (fl0 : Flags) (ex : Option (List Pat)) : Nat :=
  match ex with
  | none => 0
  | some e => (allPieces x (flE tr fl0) e).length

theorem exclCount_le_total (tr : Bool) (x : Ext R) (fl0 : Flags) (ex : Option (List Pat)) :
    exclCount tr x fl0 ex ≤ exclTotal tr x fl0 ex := by
  cases ex with
  | none => exact Nat.le_refl _
  | some e => exact distinct_length_le _

def exclNormOK (tr : Bool) (x : Ext R) (fl0 : Flags) (ex : Option (List Pat)) : Prop :=
  match ex with
  | none => True
  | some e => NormOK x (flE tr fl0) e

def exclWeight (tr : Bool) (x : Ext R) (fl0 : Flags) (cnt : Pat → Nat) (ex : Option (List Pat)) : Nat :=
  match ex with
  | none => 0
  | some e => totalWeight x (flE tr fl0) cnt e

def pullsOf {α} : Except (Err × Nat) α → (α → Nat) → Nat
  | .ok o, f => f o
  | .error (_, k), _ => k

/-- what a call returns when no limit interferes: the limit-free meaning of the two loops
    (`L` does not occur) -/
def pnPure (tr : Bool) (x : Ext R) (fl0 : Flags) (ps : List Pat) (ex : Option (List Pat)) : Out R :=
  match ex with
  | none => coreOut x (flM tr fl0 false) (pureRun x (flM tr fl0 false) (pnPolicy x (flM tr fl0 false)) ps (coreStart [] 0 0))
  | some e =>
    let oe := coreOut x (flE tr fl0) (pureRun x (flE tr fl0) (pnPolicy x (flE tr fl0)) e (coreStart [] 0 0))
    coreOut x (flM tr fl0 true)
      (pureRun x (flM tr fl0 true) (pnPolicy x (flM tr fl0 true)) ps (coreStart oe.pos oe.pulls oe.pos.length))

/-- the limit is disabled, or exclusions and inclusions together fit: the limit-free result -/
theorem pn_ok_val (tr : Bool) (x : Ext R) (fl0 : Flags) (cnt : Pat → Nat) (hb : BraceOK x cnt) (L : Int)
    (ps : List Pat) (ex : Option (List Pat))
    (hne : exclNormOK tr x fl0 ex) (hnm : NormOK x (flM tr fl0 ex.isSome) ps)
    (h : L = 0 ∨ (0 < L ∧
      ((exclWeight tr x fl0 cnt ex + totalWeight x (flM tr fl0 ex.isSome) cnt ps : Nat) : Int) ≤ L)) :
    pnCall tr x fl0 L ps ex = .ok (pnPure tr x fl0 ps ex) := by
  cases ex with
  | none =>
    simp only [exclWeight, Option.isSome_none, Nat.zero_add] at h hnm
    simp only [pnCall, pnPure]
    exact core_ok x _ cnt hb L ps [] 0 0 hnm (by
      rcases h with h | ⟨h1, h2⟩
      · exact Or.inl h
      · exact Or.inr ⟨h1, by simpa using h2⟩)
  | some e =>
    simp only [exclWeight, exclNormOK, Option.isSome_some] at h hne hnm
    have he := core_ok x (flE tr fl0) cnt hb L e [] 0 0 hne (by
      rcases h with h | ⟨h1, h2⟩
      · exact Or.inl h
      · exact Or.inr ⟨h1, by push_cast at h2 ⊢; omega⟩)
    have hc := core_excl_count x (flE tr fl0) (flE_negate tr fl0).1 (flE_negate tr fl0).2 e [] 0 0
    have h1 := distinct_length_le (allPieces x (flE tr fl0) e)
    have h2 := allPieces_le_weight x (flE tr fl0) cnt e
    simp only [pnCall, he, pnPure]
    refine core_ok x _ cnt hb _ ps _ _ _ hnm ?_
    rw [hc]
    rcases h with h | ⟨h3, h4⟩
    · exact Or.inl h
    · exact Or.inr ⟨h3, by push_cast at h4 ⊢; omega⟩

theorem pn_ok (tr : Bool) (x : Ext R) (fl0 : Flags) (cnt : Pat → Nat) (hb : BraceOK x cnt) (L : Int) (hL : 0 < L)
    (ps : List Pat) (ex : Option (List Pat))
    (hne : exclNormOK tr x fl0 ex) (hnm : NormOK x (flM tr fl0 ex.isSome) ps)
    (h : ((exclWeight tr x fl0 cnt ex + totalWeight x (flM tr fl0 ex.isSome) cnt ps : Nat) : Int) ≤ L) :
    ∃ o, pnCall tr x fl0 L ps ex = .ok o ∧ pnCall tr x fl0 0 ps ex = .ok o :=
  ⟨_, pn_ok_val tr x fl0 cnt hb L ps ex hne hnm (Or.inr ⟨hL, h⟩),
      pn_ok_val tr x fl0 cnt hb 0 ps ex hne hnm (Or.inl rfl)⟩

/-- FULL: the exclusion call counts its own pieces, the main loop continues from the number of
    (distinct) exclusions it returned -/
theorem pn_raises (tr : Bool) (x : Ext R) (fl0 : Flags) (cnt : Pat → Nat) (hb : BraceOK x cnt) (L : Int) (hL : 0 < L)
    (ps : List Pat) (ex : Option (List Pat))
    (hne : exclNormOK tr x fl0 ex) (hnm : NormOK x (flM tr fl0 ex.isSome) ps)
    (h : L < (exclTotal tr x fl0 ex : Int) ∨
         L < ((exclCount tr x fl0 ex + (allPieces x (flM tr fl0 ex.isSome) ps).length : Nat) : Int)) :
    ∃ k, pnCall tr x fl0 L ps ex = .error (.patternLimit, k) := by
  cases ex with
  | none =>
    simp only [exclCount, exclTotal, Option.isSome_none, Nat.zero_add] at h hnm
    simp only [pnCall]
    rcases h with h | h
    · simp at h; omega
    · exact core_raises x _ cnt hb L hL ps [] 0 0 hnm (by simp; omega) (by simpa using h)
  | some e =>
    simp only [exclCount, exclTotal, exclNormOK, Option.isSome_some] at h hne hnm
    simp only [pnCall]
    cases hin : compileCore x (flE tr fl0) L e [] 0 0 with
    | error er =>
      obtain ⟨e1, k1⟩ := er
      have := core_err_kind x _ L e [] 0 0 hne e1 k1 hin
      subst this
      exact ⟨k1, rfl⟩
    | ok o =>
      obtain ⟨ho, _⟩ := core_inv x _ cnt hb L e [] 0 0 o hin
      have hc := core_excl_count x (flE tr fl0) (flE_negate tr fl0).1 (flE_negate tr fl0).2 e [] 0 0
      rw [← ho] at hc
      have hle := core_total_le x _ cnt hb L hL e [] 0 0 (by simp; omega) o hin
      have hd := distinct_length_le (allPieces x (flE tr fl0) e)
      simp only
      rcases h with h | h
      · push_cast at hle; omega
      · exact core_raises x _ cnt hb L hL ps _ _ _ hnm (by rw [hc]; push_cast at hle ⊢; omega) (by rw [hc]; exact h)

/-- FULL: `limit = 0` disables the check, with `exclude=` too -/
theorem pn_zero (tr : Bool) (x : Ext R) (fl0 : Flags) (cnt : Pat → Nat) (hb : BraceOK x cnt)
    (ps : List Pat) (ex : Option (List Pat))
    (hne : exclNormOK tr x fl0 ex) (hnm : NormOK x (flM tr fl0 ex.isSome) ps) :
    pnCall tr x fl0 0 ps ex = .ok (pnPure tr x fl0 ps ex) :=
  pn_ok_val tr x fl0 cnt hb 0 ps ex hne hnm (Or.inl rfl)

/-- FULL work bound: the items drawn from the expansion generator by the whole call are at most
    `L + 1` plus the number of DUPLICATE exclusion pieces (the exclusion call counts its duplicates,
    the main loop continues from the number of distinct exclusions); the third clause is the old
    partial statement -/
theorem pn_work (tr : Bool) (x : Ext R) (fl0 : Flags) (cnt : Pat → Nat) (hb : BraceOK x cnt)
    (hs : ∀ fl : Flags, fl.split = true → SplitNonempty x fl) (L : Int) (hL : 0 < L)
    (ps : List Pat) (ex : Option (List Pat)) :
    (ex = none → (pullsOf (pnCall tr x fl0 L ps ex) Out.pulls : Int) ≤ L + 1) ∧
    ((pullsOf (pnCall tr x fl0 L ps ex) Out.pulls + exclCount tr x fl0 ex : Nat) : Int) ≤
        L + 1 + exclTotal tr x fl0 ex ∧
    (pullsOf (pnCall tr x fl0 L ps ex) Out.pulls : Int) ≤ 2 * L + 1 ∧
    ((ex = none ∨ (exclCount tr x fl0 ex : Int) < L) →
      ((pullsOf (pnCall tr x fl0 L ps ex) Out.pulls + exclCount tr x fl0 ex : Nat) : Int) ≤ 2 * L + 1) := by
  cases ex with
  | none =>
    simp only [pnCall, exclCount, exclTotal, Nat.add_zero]
    have hw := core_work x (flM tr fl0 false) (hs _) L hL ps ([] : List R) 0 0 (by simp; omega)
    have : (pullsOf (compileCore x (flM tr fl0 false) L ps [] 0 0) Out.pulls : Int) ≤ L + 1 := by
      cases hr : compileCore x (flM tr fl0 false) L ps ([] : List R) 0 0 with
      | ok o => have := hw.1 o hr; simp only [pullsOf]; push_cast at this; omega
      | error er => obtain ⟨e1, k1⟩ := er; have := hw.2 e1 k1 hr; simp only [pullsOf]; push_cast at this; omega
    exact ⟨fun _ => this, by push_cast; omega, by omega, fun _ => by omega⟩
  | some e =>
    refine ⟨(fun h => nomatch h), ?_⟩
    simp only [exclCount, exclTotal]
    have hd := distinct_length_le (allPieces x (flE tr fl0) e)
    simp only [pnCall]
    have hwe := core_work x (flE tr fl0) (hs _) L hL e ([] : List R) 0 0 (by simp; omega)
    cases hin : compileCore x (flE tr fl0) L e ([] : List R) 0 0 with
    | error er =>
      obtain ⟨e1, k1⟩ := er
      have := hwe.2 e1 k1 hin
      simp only [pullsOf]
      refine ⟨by push_cast at this ⊢; omega, by push_cast at this ⊢; omega, fun hp => ?_⟩
      rcases hp with hp | hp
      · cases hp
      · push_cast at this ⊢; omega
    | ok o =>
      obtain ⟨hpe, hte⟩ := core_pulls_le_total x (flE tr fl0) cnt hb (hs _) L hL e [] 0 0 (by simp; omega) o hin
      obtain ⟨ho, _⟩ := core_inv x _ cnt hb L e [] 0 0 o hin
      have hc := core_excl_count x (flE tr fl0) (flE_negate tr fl0).1 (flE_negate tr fl0).2 e ([] : List R) 0 0
      rw [← ho] at hc
      simp only
      have hu : ((o.pos.length : Nat) : Int) ≤ L := by rw [hc]; push_cast at hte; omega
      have hwm := core_work x (flM tr fl0 true) (hs _) L hL ps o.pos o.pulls o.pos.length hu
      cases hr : compileCore x (flM tr fl0 true) L ps o.pos o.pulls o.pos.length with
      | ok o2 =>
        have := hwm.1 o2 hr
        simp only [pullsOf]; rw [hc] at this
        push_cast at this hte ⊢
        exact ⟨by omega, by omega, fun _ => by omega⟩
      | error er =>
        obtain ⟨e2, k2⟩ := er
        have := hwm.2 e2 k2 hr
        simp only [pullsOf]; rw [hc] at this
        push_cast at this hte ⊢
        exact ⟨by omega, by omega, fun _ => by omega⟩

/-- with an exclusion list without duplicates the bound is `L + 1` for the whole call -/
theorem pn_work_nodup (tr : Bool) (x : Ext R) (fl0 : Flags) (cnt : Pat → Nat) (hb : BraceOK x cnt)
    (hs : ∀ fl : Flags, fl.split = true → SplitNonempty x fl) (L : Int) (hL : 0 < L)
    (ps e : List Pat)
    (hnodup : (allPieces x (flE tr fl0) e).length = (distinct (allPieces x (flE tr fl0) e)).length) :
    (pullsOf (pnCall tr x fl0 L ps (some e)) Out.pulls : Int) ≤ L + 1 := by
  have := (pn_work tr x fl0 cnt hb hs L hL ps (some e)).2.1
  simp only [exclCount, exclTotal, hnodup] at this
  push_cast at this; omega

/-! ### `Glob.__init__`: two `_parse_patterns` calls sharing `current_limit` and `total` -/

def globStart (total pulls : Nat) (o : GPN R) : Acc (GPN R) := ⟨total, pulls, [], o⟩

theorem globParse_def (x : Ext R) (g : GlobCfg) (force : Bool) (ps : List Pat) (cl : Int) (o : GPN R) (pulls total : Nat) :
    globParse x g force ps cl o pulls total =
      match runPatterns x g.flags (globPolicy x g force) g.limit ps cl (globStart total pulls o) with
      | .error e => .error e
      | .ok (a, cl') => .ok (finishGlob x g force a.out, cl', a.pulls, a.total) := rfl

def exclNormOKg (x : Ext R) (g : GlobCfg) (ex : Option (List Pat)) : Prop :=
  match ex with
  | none => True
  | some e => NormOK x g.flags e

def exclWeightG (x : Ext R) (g : GlobCfg) (cnt : Pat → Nat) (ex : Option (List Pat)) : Nat :=
  match ex with
  | none => 0
  | some e => totalWeight x g.flags cnt e

def exclPiecesG (x : Ext R) (g : GlobCfg) (ex : Option (List Pat)) : List Pat :=
  match ex with
  | none => []
  | some e => allPieces x g.flags e

/-- the limit-free meaning of the pattern part of `Glob.__init__` (`g.limit` does not occur) -/
def globPure (x : Ext R) (g : GlobCfg) (ps : List Pat) (ex : Option (List Pat)) : GOut R :=
  if ps.isEmpty then ⟨[], [], 0⟩
  else
    let a1 := pureRun x g.flags (globPolicy x g false) ps (globStart 0 0 ⟨[], []⟩)
    let o1 := finishGlob x g false a1.out
    match ex with
    | none => ⟨o1.pos, o1.neg, a1.pulls⟩
    | some e =>
      let a2 := pureRun x g.flags (globPolicy x g true) e (globStart a1.total a1.pulls o1)
      let o2 := finishGlob x g true a2.out
      ⟨o2.pos, o2.neg, a2.pulls⟩

theorem globPure_limit (x : Ext R) (g : GlobCfg) (L : Int) (ps : List Pat) (ex : Option (List Pat)) :
    globPure x { g with limit := L } ps ex = globPure x g ps ex := by
  cases ex <;> rfl

theorem glob_ok_val (x : Ext R) (g : GlobCfg) (cnt : Pat → Nat) (hb : BraceOK x cnt)
    (ps : List Pat) (ex : Option (List Pat)) (hn : NormOK x g.flags ps) (hne : exclNormOKg x g ex)
    (h : g.limit = 0 ∨ (0 < g.limit ∧ ((totalWeight x g.flags cnt ps + exclWeightG x g cnt ex : Nat) : Int) ≤ g.limit)) :
    globPatterns x g ps ex = .ok (globPure x g ps ex) := by
  unfold globPatterns globPure
  by_cases hemp : ps.isEmpty = true
  · simp [hemp]
  · simp only [hemp, Bool.false_eq_true, if_false]
    obtain ⟨cl1, hrun1, hcl1⟩ := runPatterns_ok x g.flags (globPolicy x g false) cnt hb g.limit ps 0
      (globStart 0 0 ⟨[], []⟩) g.limit hn (by
        rcases h with h | ⟨h1, h2⟩
        · exact Or.inl ⟨h, h⟩
        · right
          refine ⟨h1, ?_, ?_⟩
          · simp [globStart, clOf_zero _ h1]
          · simp only [globStart]; push_cast at h2 ⊢; omega)
    rw [globParse_def, hrun1]
    cases ex with
    | none => rfl
    | some e =>
      simp only [exclNormOKg, exclWeightG] at hne h
      have ht := pureRun_total x g.flags (globPolicy x g false) ps (globStart 0 0 ⟨[], []⟩)
      have hle := allPieces_le_weight x g.flags cnt ps
      simp only [globStart] at ht
      obtain ⟨cl2, hrun2, _⟩ := runPatterns_ok x g.flags (globPolicy x g true) cnt hb g.limit e 0
        (globStart (pureRun x g.flags (globPolicy x g false) ps (globStart 0 0 ⟨[], []⟩)).total
          (pureRun x g.flags (globPolicy x g false) ps (globStart 0 0 ⟨[], []⟩)).pulls
          (finishGlob x g false (pureRun x g.flags (globPolicy x g false) ps (globStart 0 0 ⟨[], []⟩)).out))
        cl1 hne (by
          rcases h with h | ⟨h1, h2⟩
          · left
            rcases hcl1 with ⟨_, hc⟩ | ⟨hc, _⟩
            · exact ⟨h, hc⟩
            · omega
          · right
            rcases hcl1 with ⟨hc, _⟩ | ⟨_, hc⟩
            · omega
            · refine ⟨h1, ?_, ?_⟩
              · rw [hc]; simp [globStart]
              · simp only [globStart] at ht ⊢; rw [ht]; push_cast at h2 ⊢; omega)
      simp only
      rw [globParse_def, hrun2]

theorem glob_ok (x : Ext R) (g : GlobCfg) (cnt : Pat → Nat) (hb : BraceOK x cnt)
    (ps : List Pat) (ex : Option (List Pat)) (hn : NormOK x g.flags ps) (hne : exclNormOKg x g ex)
    (h : g.limit = 0 ∨ (0 < g.limit ∧ ((totalWeight x g.flags cnt ps + exclWeightG x g cnt ex : Nat) : Int) ≤ g.limit)) :
    ∃ o, globPatterns x g ps ex = .ok o ∧ globPatterns x { g with limit := 0 } ps ex = .ok o := by
  refine ⟨_, glob_ok_val x g cnt hb ps ex hn hne h, ?_⟩
  rw [← globPure_limit x g 0 ps ex]
  exact glob_ok_val x { g with limit := 0 } cnt hb ps ex hn hne (Or.inl rfl)

/-- FULL: the two lists are counted together (`self.total`) -/
theorem glob_raises (x : Ext R) (g : GlobCfg) (cnt : Pat → Nat) (hb : BraceOK x cnt) (hL : 0 < g.limit)
    (ps : List Pat) (ex : Option (List Pat)) (hn : NormOK x g.flags ps) (hne : exclNormOKg x g ex)
    (hps : ps ≠ [])
    (h : g.limit < (((allPieces x g.flags ps).length + (exclPiecesG x g ex).length : Nat) : Int)) :
    ∃ k, globPatterns x g ps ex = .error (.patternLimit, k) := by
  unfold globPatterns
  have hemp : ps.isEmpty = false := by cases ps <;> simp_all
  simp only [hemp, Bool.false_eq_true, if_false]
  rw [globParse_def]
  cases hr1 : runPatterns x g.flags (globPolicy x g false) g.limit ps g.limit (globStart 0 0 ⟨[], []⟩) with
  | error er =>
    obtain ⟨e1, k1⟩ := er
    have := runPatterns_error_kind x g.flags _ g.limit ps _ g.limit hn e1 k1 hr1
    subst this
    exact ⟨k1, rfl⟩
  | ok r =>
    obtain ⟨a1, cl1⟩ := r
    have hfit : ¬ (g.limit < ((allPieces x g.flags ps).length : Int)) := by
      intro hov
      obtain ⟨k, hk⟩ := runPatterns_raises x g.flags (globPolicy x g false) cnt hb g.limit hL ps
        (globStart 0 0 ⟨[], []⟩) g.limit hn (by simp [globStart]; omega) (by simpa [globStart] using hov)
      rw [hk] at hr1; cases hr1
    obtain ⟨ha1, _⟩ := runPatterns_inv x g.flags (globPolicy x g false) cnt hb g.limit ps _ _ _ hr1
    simp only at ha1
    have ht := pureRun_total x g.flags (globPolicy x g false) ps (globStart 0 0 ⟨[], []⟩)
    rw [← ha1] at ht
    simp only [globStart, Nat.zero_add] at ht
    cases ex with
    | none => simp only [exclPiecesG, List.length_nil, Nat.add_zero] at h; exact absurd h hfit
    | some e =>
      simp only [exclPiecesG, exclNormOKg] at h hne
      simp only
      rw [globParse_def]
      obtain ⟨k, hk⟩ := runPatterns_raises x g.flags (globPolicy x g true) cnt hb g.limit hL e
        (globStart a1.total a1.pulls (finishGlob x g false a1.out)) cl1 hne
        (by simp only [globStart]; rw [ht]; omega)
        (by simp only [globStart]; rw [ht]; exact h)
      rw [hk]
      exact ⟨k, rfl⟩

/-- FULL: `L + 1` for the whole call, with or without `exclude=` -/
theorem glob_work (x : Ext R) (g : GlobCfg) (hs : g.flags.split = true → SplitNonempty x g.flags) (hL : 0 < g.limit)
    (ps : List Pat) (ex : Option (List Pat)) :
    (pullsOf (globPatterns x g ps ex) GOut.pulls : Int) ≤ g.limit + 1 := by
  unfold globPatterns
  by_cases hemp : ps.isEmpty = true
  · simp only [hemp, if_true, pullsOf]
    push_cast; omega
  · simp only [hemp, Bool.false_eq_true, if_false]
    rw [globParse_def]
    have hw1 := runPatterns_work x g.flags (globPolicy x g false) hs g.limit hL ps (globStart 0 0 ⟨[], []⟩) g.limit
      (by simp [globStart]; omega)
    cases hr1 : runPatterns x g.flags (globPolicy x g false) g.limit ps g.limit (globStart 0 0 ⟨[], []⟩) with
    | error er =>
      obtain ⟨e1, k1⟩ := er
      have := hw1.2 e1 k1 hr1
      simp only [globStart] at this
      simp only [pullsOf]
      push_cast at this ⊢; omega
    | ok r =>
      obtain ⟨a1, cl1⟩ := r
      obtain ⟨h1, h2⟩ := hw1.1 a1 cl1 hr1
      simp only [globStart] at h2
      cases ex with
      | none =>
        simp only [pullsOf]
        push_cast at h1 ⊢; omega
      | some e =>
        simp only
        rw [globParse_def]
        have hw2 := runPatterns_work x g.flags (globPolicy x g true) hs g.limit hL e
          (globStart a1.total a1.pulls (finishGlob x g false a1.out)) cl1 (by simpa [globStart] using h1)
        cases hr2 : runPatterns x g.flags (globPolicy x g true) g.limit e cl1
            (globStart a1.total a1.pulls (finishGlob x g false a1.out)) with
        | error er =>
          obtain ⟨e2, k2⟩ := er
          have := hw2.2 e2 k2 hr2
          simp only [globStart] at this
          simp only [pullsOf]
          push_cast at this h1 ⊢; omega
        | ok r2 =>
          obtain ⟨a2, cl2⟩ := r2
          obtain ⟨h3, h4⟩ := hw2.1 a2 cl2 hr2
          simp only [globStart] at h4
          simp only [pullsOf]
          push_cast at h1 h3 ⊢; omega

/-! ### two shapes of `bracex` that meet the contract -/

/-- what bracex 3.0.1 does: the count is checked before anything is yielded -/
def eagerBrace (items : Pat → List Pat) (p : Pat) (l : Int) : BraceOut :=
  if 0 < l ∧ l < ((items p).length : Int) then ⟨[], true⟩ else ⟨items p, false⟩

/-- a fully lazy generator: `l` items, then the exception -/
def lazyBrace (items : Pat → List Pat) (p : Pat) (l : Int) : BraceOut :=
  if 0 < l ∧ l < ((items p).length : Int) then ⟨(items p).take l.toNat, true⟩ else ⟨items p, false⟩

theorem eagerBrace_ok (x : Ext R) (items : Pat → List Pat) :
    BraceOK { x with brace := eagerBrace items } (fun p => (items p).length) where
  full := by
    intro p l h
    have h0 : ¬ ((0 : Int) < 0 ∧ (0 : Int) < ((items p).length : Int)) := by omega
    have hl : ¬ (0 < l ∧ l < ((items p).length : Int)) := by omega
    simp only [eagerBrace, h0, hl, if_false]
  over := by
    intro p l h1 h2
    simp only [eagerBrace, h1, h2, and_self, if_true]
  cnt_ge := by
    intro p
    have h0 : ¬ ((0 : Int) < 0 ∧ (0 : Int) < ((items p).length : Int)) := by omega
    simp only [eagerBrace, h0, if_false]; exact Nat.le_refl _

theorem lazyBrace_ok (x : Ext R) (items : Pat → List Pat) :
    BraceOK { x with brace := lazyBrace items } (fun p => (items p).length) where
  full := by
    intro p l h
    have h0 : ¬ ((0 : Int) < 0 ∧ (0 : Int) < ((items p).length : Int)) := by omega
    have hl : ¬ (0 < l ∧ l < ((items p).length : Int)) := by omega
    simp only [lazyBrace, h0, hl, if_false]
  over := by
    intro p l h1 h2
    simp only [lazyBrace, h1, h2, and_self, if_true]
  cnt_ge := by
    intro p
    have h0 : ¬ ((0 : Int) < 0 ∧ (0 : Int) < ((items p).length : Int)) := by omega
    simp only [lazyBrace, h0, if_false]; exact Nat.le_refl _

/-! ### the budget handed to bracex is never "unlimited" under a positive limit -/

theorem nextLimit_bounds (L cl : Int) (count : Nat) (hL : L ≠ 0) (hcl : 1 ≤ cl) :
    1 ≤ nextLimit L cl count ∧ nextLimit L cl count ≤ cl := by
  unfold nextLimit
  simp only [hL, ne_eq, not_false_eq_true, if_true]
  split <;> omega

/-- with a positive limit every `limit` argument given to the expander lies in `[1, cl]`: bracex
    (for which 0 means "no limit") is never asked for an unbounded expansion -/
theorem braceArgs_bounds {O} (x : Ext R) (fl : Flags) (pol : Policy O) (L : Int) (hL : 0 < L)
    (ps : List Pat) (cl : Int) (a : Acc O) (hcl : 1 ≤ cl) :
    ∀ qa ∈ braceArgs x fl pol L ps cl a, 1 ≤ qa.2 ∧ qa.2 ≤ cl := by
  induction ps generalizing cl a with
  | nil => intro qa h; simp [braceArgs] at h
  | cons p ps ih =>
    intro qa h
    simp only [braceArgs] at h
    cases hq : x.norm fl p with
    | error e => simp [hq] at h
    | ok q =>
      simp only [hq] at h
      rcases List.mem_cons.mp h with h | h
      · rw [h]; exact ⟨hcl, Int.le_refl _⟩
      · cases hri : runItems pol L (expand x fl q cl).1 a 0 with
        | error e => simp [hri] at h
        | ok r =>
          obtain ⟨a', count⟩ := r
          simp only [hri] at h
          split at h
          · simp at h
          · obtain ⟨h1, h2⟩ := nextLimit_bounds L cl count (by omega) hcl
            obtain ⟨h3, h4⟩ := ih _ a' h1 qa h
            exact ⟨h3, by omega⟩

end WcModel.Compile

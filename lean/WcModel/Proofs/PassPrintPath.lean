import WcModel.Proofs.PassPrint
import WcModel.Proofs.LiteralPath
import WcModel.Proofs.CompPathGlob
/-
  "pass_print" for PATH MODE: the faithful port of the parser (`parseItems`), run on the PRINTED
  form of a path pattern, yields the regex of the tidy path compiler `compPath` — up to `PP.Eqv`
  (same `Re.M` in every mode).  This is the link "faithful port = compPath" that `tidyPathAgrees`
  (driver command `tidypath`) only samples.

  Setting `PathX cfg` (= `PathEntry cfg` of LiteralPath.lean + …): PATHNAME, Unix rules, EXTMATCH,
  no REALPATH / NODOTDIR / MATCHBASE / anchor / noAbs, `str` patterns (`isBytes = false`: `compSeg`
  spells POSIX classes with the `str` tables); `cfg.dot`, the case mode, `cfg.capture`,
  `cfg.globstar0`, `cfg.globstarlong`, `cfg.follow`, `cfg.globstarCapture` are arbitrary.

  MAIN THEOREMS
    `pass_print_seg`      Stage 1: one negation-free, slash-free segment `g` (`pp false g`, `slashFree g`,
                          `ok g []`, `print g ≠ []`)  ⊢
          ∃ parsed r, parseItems cfg drive (print g) = .ok parsed ∧ parsed.toRe = some r ∧
                      Eqv r (wrapRe (!cfg.caseSensitive) (compPath cfg.dot ⟨false, [.pat g], false⟩))
    `pass_print_path`     Stages 1–3: `pathOK pp` (segments `segOK`, `noGG`, not the empty relative
                          pattern), a globstar only under `cfg.globstar0`  ⊢
          ∃ parsed r, parseItems cfg drive (printPath pp) = .ok parsed ∧ parsed.toRe = some r ∧
                      Eqv r (wrapRe (!cfg.caseSensitive) (compPath cfg.dot pp))
    `pass_print_globfree` Stage 2 (no globstar; `cfg.globstar0` arbitrary), `pass_print_path_sem`
                          (`FullMatch` form), `faithful_print` (for `PathTidy.faithful`, the sampled
                          configurations `cfgP dot gs`)
    `parsePath_print`     the path printer inverts the strict path reader:
                          `parsePath ctx (printPath pp) = some pp`
    `nonempty_needed`, `slashFree_needed`, `globstar_needed`, `wf_needed`: each hypothesis is forced.
  `Properties/C02faithful.lean` turns this into C02 on the faithful port.

  PLAN
  Part 1  the "print then parse" inductions of `PassPrint.lean`, generalised over an *emitter*
          (`Emit`: what the pass pushes for `?`, `*`, a bracket, as a function of "at the start";
          which literals / bracket members are in scope) and over the one-token facts (`Steps`,
          built from `StepG` = `PP.Step` + the frame fact "`globstar` is not written").
          `EG_all` (inside a group) and `RG_all` (top level).  Mode-independent.
  Part 2  the one-token facts in path mode (`pathSteps`): `restrictSequence` with `_NO_DIR` /
          `(?![/])` / `(?![/.])`, `_handle_star` with `(?=[^/])` and the three path stars (a single
          `*` is never a globstar, whatever `ps.globstar` says), `_sequence` on a printed bracket
          without `/` (`sequence_print_p`).
  Part 3  from the expected items to `compSeg` (`itsP_toRe`).
  Part 4  Stage 1: `root_seg`, `parseItems_seg`, `toRe_seg`, `pass_print_seg`.
  Part 5  Stages 2, 3: `printSegs` / `segItems` mirror `pathRe`; `slash_step` (the `/` branch of
          `rootLoop`: `cleanUpInverse` no-op, `consumePathSep`, `sepPlus`, `setStartDir`),
          `glob_step_end` / `glob_step_sep` (`handleStar`'s globstar branch: the last item is
          overwritten by `(?=[/])` or, at the very beginning, `''` by the globstar), `segs_loop`,
          `path_loop`, `root_path`, `parseItems_path`, `segItems_toRe`, `toRe_path`.
  Last    corollaries, the sampled configurations, non-vacuity, forced hypotheses, the round trip.
-/
namespace WcModel
namespace PPP
open PP

/-! ## Part 1: the inductions, generalised over the emitter -/

/-- what the pass pushes for the three guarded tokens (as functions of `afterStart`), and which
    literal characters / bracket members the one-token facts cover -/
structure Emit where
  any : Bool → Re
  star : Bool → Re
  cls : Bool → Bool → List SCls → Re
  litOK : Char → Bool
  memOK : SCls → Bool

/-- every literal and every bracket member is covered by the emitter -/
def Emit.scope (e : Emit) : Pat → Bool
  | .lit c => e.litOK c
  | .cls _ items => items.all e.memOK
  | .seq a b => e.scope a && e.scope b
  | .alt a b => e.scope a && e.scope b
  | .ext _ p => e.scope p
  | _ => true

/-- the items the pass pushes for a (negation-free) pattern, in forward order -/
def Emit.its (e : Emit) (cap : Capt) : Bool → Pat → List Item
  | _, .eps => []
  | _, .lit c => [litItem c]
  | as, .any => [.re (e.any as)]
  | as, .star => [.re (e.star as)]
  | as, .cls neg items => [.re (e.cls as neg items)]
  | as, .seq a b => e.its cap as a ++ e.its cap (as && a.isEmpty) b
  | as, .alt a b => e.its cap as a ++ .bar :: e.its cap as b
  | as, .ext k body => [.group (gkind k) cap (e.its cap as body)]

/-- `PP.Step`, with the frame fact "`globstar` is not written" (the `**` of Stage 3 reads it) -/
def StepG (cfg : Cfg) (w : List Char) (x : Bool → Item) (side : List Char → Prop) : Prop :=
  ∀ (as il : Bool) (k F i : Nat) (rest : List Char) (ps : PS) (l : List Item), Inv ps as il k → side rest →
    (∃ ps', Inv ps' false il k ∧ ps'.globstar = ps.globstar ∧
      rootLoop cfg (F+1) ⟨i, w ++ rest⟩ ps l = rootLoop cfg F ⟨i + w.length, rest⟩ ps' (x as :: l)) ∧
    (∀ a n, ∃ ps', Inv ps' false il k ∧ ps'.globstar = ps.globstar ∧
      extLoop cfg (F+1) ⟨i, w ++ rest⟩ ps l a n = extLoop cfg F ⟨i + w.length, rest⟩ ps' (x as :: l) a n)

theorem rootTok_plainG (cfg : Cfg) (c : Char) (it : It) (ps : PS) (cur : List Item) {as il : Bool} {k : Nat}
    (hi : Inv ps as il k) (hn : c ∈ extTypes → it.rest.head? ≠ some '(') :
    ∃ ps1, Inv ps1 as il k ∧ ps1.globstar = ps.globstar ∧
      HF.rootTok cfg c it ps cur = HF.rootPlain cfg c it ps1 cur := by
  unfold HF.rootTok
  split
  · rename_i hx
    simp only [Bool.and_eq_true, decide_eq_true_eq] at hx
    have : 2 * it.rest.length + 8 = (2 * it.rest.length + 7) + 1 := rfl
    rw [this, parseExtend_noparen _ _ _ _ _ _ _ (hn hx.2)]
    exact ⟨_, hi.peFail c true, by simp, by simp⟩
  · exact ⟨ps, hi, rfl, rfl⟩

theorem extTok_plainG (cfg : Cfg) (fuel : Nat) (c : Char) (it : It) (ps : PS) (ext : List Item) (a n : Bool)
    {as il : Bool} {k : Nat}
    (hi : Inv ps as il k) (hn : c ∈ extTypes → it.rest.head? ≠ some '(') :
    ∃ ps1, Inv ps1 as il k ∧ ps1.globstar = ps.globstar ∧
      HF.extTok cfg fuel c it ps ext a n = HF.extPlain cfg c it ps1 ext a n := by
  cases fuel with
  | succ f =>
    unfold HF.extTok
    split
    · rename_i hx
      simp only [Bool.and_eq_true, decide_eq_true_eq] at hx
      rw [parseExtend_noparen _ _ _ _ _ _ _ (hn hx.2)]
      exact ⟨_, hi.peFail c false, by simp, by simp⟩
    · exact ⟨ps, hi, rfl, rfl⟩
  | zero =>
    unfold HF.extTok
    split
    · exact ⟨ps, hi, rfl, by simp [parseExtend]⟩
    · exact ⟨ps, hi, rfl, rfl⟩

theorem step_barG (cfg : Cfg) (F i : Nat) (rest : List Char) (ps : PS) (l : List Item) (a n : Bool) {as : Bool}
    (hi : Inv ps as true 0) :
    ∃ ps', Inv ps' a true 0 ∧ ps'.globstar = ps.globstar ∧
      extLoop cfg (F+1) ⟨i, '|' :: rest⟩ ps l a n = extLoop cfg F ⟨i + 1, rest⟩ ps' (.bar :: l) a n := by
  have hne : '|' ∉ extTypes := by decide
  obtain ⟨ps1, hi1, hg1, e⟩ := extTok_plainG cfg F '|' ⟨i+1, rest⟩ ps l a n hi (fun hx => absurd hx hne)
  have e2 : HF.extPlain cfg '|' ⟨i+1, rest⟩ ps1 l a n =
      ((if a then ps1.setStartDir else ps1), ⟨i+1, rest⟩, .bar :: l, true) := by
    simp [HF.extPlain, cleanUp_zero cfg ps1 l n hi1.invExt]
  refine ⟨(if a then ps1.setStartDir else ps1).updateDirState, ?_, ?_, ?_⟩
  · cases a with
    | false => exact hi1.upd
    | true =>
      simp only [ite_true]
      obtain ⟨h1, h2, h3, h4, h5, h6⟩ := hi1
      exact ⟨by simp [PS.updateDirState, PS.setStartDir, PS.setAfterStart],
        by simp [PS.updateDirState, PS.setStartDir, PS.setAfterStart],
        by simp [PS.setStartDir, h3], by simp [PS.setStartDir, h4],
        by simp [PS.updateDirState, PS.setStartDir, PS.setAfterStart, h5],
        by simp [PS.updateDirState, PS.setStartDir, PS.setAfterStart, h6]⟩
  · rw [← hg1]; cases a <;> simp [PS.setStartDir]
  · rw [extLoop_cons, e, e2, extCont_ne _ _ _ _ _ _ _ _ (by decide)]

/-- the one-token facts -/
structure Steps (cfg : Cfg) (e : Emit) : Prop where
  extend : cfg.extend = true
  any : StepG cfg ['?'] (fun as => .re (e.any as)) (fun rest => rest.head? ≠ some '(')
  star : StepG cfg ['*'] (fun as => .re (e.star as))
    (fun rest => rest.head? ≠ some '(' ∧ rest.head? ≠ some '*')
  lit : ∀ c, e.litOK c = true → StepG cfg (printLit c) (fun _ => litItem c) (fun _ => True)
  cls : ∀ neg items, clsOK items = true → items.all e.memOK = true →
    StepG cfg (print (.cls neg items)) (fun as => .re (e.cls as neg items)) (fun _ => True)

/-- the in-group claim -/
def EG (cfg : Cfg) (e : Emit) (g : Pat) : Prop :=
  ∀ (b : Bool), pp b g = true → e.scope g = true →
    ∀ (F i : Nat) (rest : List Char) (ps : PS) (ext : List Item) (tA tN as : Bool),
    Inv ps as true 0 → (as = true → tA = true) → (b = true → as = tA) → ok g rest = true →
    (print g).length ≤ F →
    ∃ ps', extLoop cfg F ⟨i, print g ++ rest⟩ ps ext tA tN =
        extLoop cfg (F - ntok g) ⟨i + (print g).length, rest⟩ ps'
          ((e.its (HF.capOf cfg) as g).reverse ++ ext) tA tN ∧
      Inv ps' (endAs as g) true 0 ∧ ps'.globstar = ps.globstar

/-- a whole group `k(body)`, given the claim for its body -/
theorem parseExtend_groupG (cfg : Cfg) (e : Emit) (k : ExtKind) (hk : k ≠ .neg) (body : Pat)
    (hE : EG cfg e body) (hpp : pp true body = true) (hsc : e.scope body = true)
    (F i : Nat) (rest : List Char) (ps : PS) (cur : List Item) (rd : Bool)
    {as il : Bool} (hi : Inv ps as il 0) (hok : ok body (')' :: rest) = true)
    (hF : (print body).length + 2 ≤ F) :
    ∃ ps', parseExtend cfg F (extChar k) ⟨i, '(' :: (print body ++ ')' :: rest)⟩ ps cur rd =
        (true, ps', ⟨i + (print body).length + 2, rest⟩,
          .group (gkind k) (HF.capOf cfg) (e.its (HF.capOf cfg) as body) :: cur) ∧
      Inv ps' false il 0 ∧ ps'.globstar = ps.globstar := by
  obtain ⟨F1, rfl⟩ : ∃ F1, F = F1 + 1 := ⟨F - 1, by omega⟩
  rw [HF.parseExtend_eq]
  simp only [It.next, bne_self_eq_false, Bool.false_eq_true, if_false]
  obtain ⟨ps1, e1, hi1, hg1⟩ := hE true hpp hsc F1 (i+1) (')' :: rest) (HF.peEnter ps (extChar k) rd) []
    ps.afterStart ps.invNest as (hi.peEnter _ _) (fun h => hi.afterStart.trans h)
    (fun _ => hi.afterStart.symm) hok (by omega)
  have hnt := ntok_le body
  obtain ⟨F2, hF2⟩ : ∃ F2, F1 - ntok body = F2 + 1 := ⟨F1 - ntok body - 1, by omega⟩
  rw [e1, hF2, extLoop_close]
  simp only [List.append_nil, List.reverse_reverse, peBuild_group cfg k hk]
  have hz : ps1.updateDirState.invExt = 0 := hi1.upd.invExt
  have hb' : (if ps.inList = true then
        cleanUpInverse cfg ps1.updateDirState
          (Item.group (gkind k) (HF.capOf cfg) (e.its (HF.capOf cfg) as body) :: cur)
          (ps.invNest && ps1.updateDirState.invNest)
      else (Item.group (gkind k) (HF.capOf cfg) (e.its (HF.capOf cfg) as body) :: cur,
        ps1.updateDirState)) =
      (Item.group (gkind k) (HF.capOf cfg) (e.its (HF.capOf cfg) as body) :: cur,
        ps1.updateDirState) := by
    split
    · exact cleanUp_zero cfg _ _ _ hz
    · rfl
  rw [hb']
  refine ⟨HF.peFinish ps true ps1.updateDirState, ?_, ?_, ?_⟩
  · have : i + 1 + (print body).length + 1 = i + (print body).length + 2 := by omega
    rw [this]
  · exact hi.peFinish hi1.upd
  · simpa using hg1

theorem EG_of_step (cfg : Cfg) (e : Emit) (g : Pat) (w : List Char) (x : Bool → Item)
    (side : List Char → Prop)
    (hs : StepG cfg w x side) (hw : 1 ≤ w.length) (hprint : print g = w)
    (hits : ∀ as, e.its (HF.capOf cfg) as g = [x as])
    (hnt : ntok g = 1) (hend : ∀ as, endAs as g = false) (hside : ∀ rest, ok g rest = true → side rest) :
    EG cfg e g := by
  intro b _ _ F i rest ps ext tA tN as hi _ _ hok hF
  obtain ⟨F', rfl⟩ : ∃ F', F = F' + 1 := ⟨F - 1, by rw [hprint] at hF; omega⟩
  obtain ⟨ps', hi', hg', e'⟩ := (hs as true 0 F' i rest ps ext hi (hside rest hok)).2 tA tN
  refine ⟨ps', ?_, by rw [hend]; exact hi', hg'⟩
  rw [hprint, hits, hnt, e']
  rfl

theorem printLit_len (c : Char) : 1 ≤ (printLit c).length := by
  unfold printLit; split <;> simp

theorem EG_all (cfg : Cfg) (e : Emit) (h : Steps cfg e) : ∀ g : Pat, EG cfg e g := by
  intro g
  induction g with
  | eps =>
    intro b _ _ F i rest ps ext tA tN as hi _ _ _ _
    exact ⟨ps, by simp [print, Emit.its, ntok], by simpa [endAs, Pat.isEmpty] using hi, rfl⟩
  | lit c =>
    intro b hp hsc
    exact EG_of_step cfg e _ _ _ _ (h.lit c (by simpa [Emit.scope] using hsc)) (printLit_len c) rfl
      (fun _ => rfl) rfl (fun as => by simp [endAs, Pat.isEmpty]) (fun _ _ => trivial) b hp hsc
  | any =>
    exact EG_of_step cfg e _ _ _ _ h.any (by simp) rfl (fun _ => rfl) rfl
      (fun as => by simp [endAs, Pat.isEmpty]) (fun rest hok => by simpa [ok] using hok)
  | star =>
    exact EG_of_step cfg e _ _ _ _ h.star (by simp) rfl (fun _ => rfl) rfl
      (fun as => by simp [endAs, Pat.isEmpty]) (fun rest hok => by simpa [ok] using hok)
  | cls neg items =>
    intro b hp hsc
    exact EG_of_step cfg e _ _ _ _ (h.cls neg items (by simpa [pp] using hp) (by simpa [Emit.scope] using hsc))
      (by simp [print]) rfl (fun _ => rfl) rfl
      (fun as => by simp [endAs, Pat.isEmpty]) (fun _ _ => trivial) b hp hsc
  | seq p q ihp ihq =>
    intro b hp hsc F i rest ps ext tA tN as hi hA _ hok hF
    simp only [pp, Bool.and_eq_true] at hp
    simp only [Emit.scope, Bool.and_eq_true] at hsc
    simp only [ok, Bool.and_eq_true] at hok
    simp only [print, List.length_append] at hF
    have hnp := ntok_le p
    obtain ⟨ps1, e1, hi1, hg1⟩ := ihp false hp.1 hsc.1 F i (print q ++ rest) ps ext tA tN as hi hA (by simp)
      hok.1 (by omega)
    rw [endAs_pp_false _ _ hp.1] at hi1
    obtain ⟨ps2, e2, hi2, hg2⟩ := ihq false hp.2 hsc.2 (F - ntok p) (i + (print p).length) rest ps1 _ tA tN _ hi1
      (fun hx => hA (by simp only [Bool.and_eq_true] at hx; exact hx.1)) (by simp) hok.2 (by omega)
    rw [endAs_pp_false _ _ hp.2] at hi2
    refine ⟨ps2, ?_, by simpa [endAs, Pat.isEmpty, Bool.and_assoc] using hi2, hg2.trans hg1⟩
    simp only [print, List.append_assoc, Emit.its, ntok, List.reverse_append, List.length_append]
    rw [e1, e2]
    have a1 : F - ntok p - ntok q = F - (ntok p + ntok q) := by omega
    have a2 : i + (print p).length + (print q).length = i + ((print p).length + (print q).length) := by omega
    rw [a1, a2]
  | alt p q ihp ihq =>
    intro b hp hsc F i rest ps ext tA tN as hi hA hb hok hF
    simp only [pp, Bool.and_eq_true] at hp
    simp only [Emit.scope, Bool.and_eq_true] at hsc
    simp only [ok, Bool.and_eq_true] at hok
    simp only [print, List.length_append, List.length_cons] at hF
    have hnp := ntok_le p
    have hat : as = tA := hb hp.1.1
    obtain ⟨ps1, e1, hi1, hg1⟩ := ihp false hp.1.2 hsc.1 F i ('|' :: (print q ++ rest)) ps ext tA tN as hi hA
      (by simp) hok.1 (by omega)
    obtain ⟨F2, hF2⟩ : ∃ F2, F - ntok p = F2 + 1 := ⟨F - ntok p - 1, by omega⟩
    obtain ⟨ps2, hi2, hg2, e2⟩ := step_barG cfg F2 (i + (print p).length) (print q ++ rest) ps1
      ((e.its (HF.capOf cfg) as p).reverse ++ ext) tA tN hi1
    obtain ⟨ps3, e3, hi3, hg3⟩ := ihq true hp.2 hsc.2 F2 (i + (print p).length + 1) rest ps2 _ tA tN tA hi2
      (fun hx => hx) (fun _ => rfl) hok.2 (by omega)
    refine ⟨ps3, ?_, by simpa [endAs] using (hat ▸ hi3), hg3.trans (hg2.trans hg1)⟩
    simp only [print, List.append_assoc, List.cons_append, Emit.its, ntok, List.reverse_append,
      List.length_append, List.length_cons, List.reverse_cons, List.nil_append]
    rw [e1, hF2, e2, e3, hat]
    have a1 : F2 - ntok q = F - (ntok p + 1 + ntok q) := by omega
    have a2 : i + (print p).length + 1 + (print q).length = i + ((print p).length + ((print q).length + 1)) := by
      omega
    rw [a1, a2]
  | ext k body ih =>
    intro b hp hsc F i rest ps ext tA tN as hi hA _ hok hF
    simp only [pp, Bool.and_eq_true, bne_iff_ne, ne_eq] at hp
    simp only [Emit.scope] at hsc
    simp only [ok] at hok
    simp only [print, List.length_cons, List.length_append, List.length_nil] at hF
    obtain ⟨F', rfl⟩ : ∃ F', F = F' + 1 := ⟨F - 1, by omega⟩
    obtain ⟨ps1, e1, hi1, hg1⟩ := parseExtend_groupG cfg e k hp.1 body ih hp.2 hsc F' (i+1) rest ps ext false hi hok
      (by omega)
    refine ⟨ps1.updateDirState, ?_, by simpa [endAs, Pat.isEmpty] using hi1.upd, by simpa using hg1⟩
    have hx : (cfg.extend && decide (extChar k ∈ extTypes)) = true := by simp [h.extend, extChar_ext]
    simp only [print, List.cons_append, List.append_assoc, List.nil_append, Emit.its, ntok, List.reverse_cons,
      List.reverse_nil]
    rw [extLoop_cons]
    unfold HF.extTok
    rw [if_pos hx, e1]
    simp only [if_true]
    rw [extCont_ne _ _ _ _ _ _ _ _ (extChar_ne_close k)]
    congr 2
    simp only [List.length_cons, List.length_append, List.length_nil]
    omega

/-- the top-level claim -/
def RG (cfg : Cfg) (e : Emit) (g : Pat) : Prop :=
  pp false g = true → e.scope g = true →
    ∀ (F i : Nat) (rest : List Char) (ps : PS) (cur : List Item) (as : Bool),
    Inv ps as false 0 → ok g rest = true → (print g).length ≤ F →
    ∃ ps', rootLoop cfg F ⟨i, print g ++ rest⟩ ps cur =
        rootLoop cfg (F - ntok g) ⟨i + (print g).length, rest⟩ ps'
          ((e.its (HF.capOf cfg) as g).reverse ++ cur) ∧
      Inv ps' (as && g.isEmpty) false 0 ∧ ps'.globstar = ps.globstar

theorem RG_of_step (cfg : Cfg) (e : Emit) (g : Pat) (w : List Char) (x : Bool → Item)
    (side : List Char → Prop)
    (hs : StepG cfg w x side) (hw : 1 ≤ w.length) (hprint : print g = w)
    (hits : ∀ as, e.its (HF.capOf cfg) as g = [x as])
    (hnt : ntok g = 1) (hend : g.isEmpty = false) (hside : ∀ rest, ok g rest = true → side rest) :
    RG cfg e g := by
  intro _ _ F i rest ps cur as hi hok hF
  obtain ⟨F', rfl⟩ : ∃ F', F = F' + 1 := ⟨F - 1, by rw [hprint] at hF; omega⟩
  obtain ⟨ps', hi', hg', e'⟩ := (hs as false 0 F' i rest ps cur hi (hside rest hok)).1
  refine ⟨ps', ?_, by rw [hend]; simpa using hi', hg'⟩
  rw [hprint, hits, hnt, e']
  rfl

theorem RG_all (cfg : Cfg) (e : Emit) (h : Steps cfg e) : ∀ g : Pat, RG cfg e g := by
  intro g
  induction g with
  | eps =>
    intro _ _ F i rest ps cur as hi _ _
    exact ⟨ps, by simp [print, Emit.its, ntok], by simpa [Pat.isEmpty] using hi, rfl⟩
  | lit c =>
    intro hp hsc
    exact RG_of_step cfg e _ _ _ _ (h.lit c (by simpa [Emit.scope] using hsc)) (printLit_len c) rfl
      (fun _ => rfl) rfl rfl (fun _ _ => trivial) hp hsc
  | any =>
    exact RG_of_step cfg e _ _ _ _ h.any (by simp) rfl (fun _ => rfl) rfl
      rfl (fun rest hok => by simpa [ok] using hok)
  | star =>
    exact RG_of_step cfg e _ _ _ _ h.star (by simp) rfl (fun _ => rfl) rfl
      rfl (fun rest hok => by simpa [ok] using hok)
  | cls neg items =>
    intro hp hsc
    exact RG_of_step cfg e _ _ _ _ (h.cls neg items (by simpa [pp] using hp) (by simpa [Emit.scope] using hsc))
      (by simp [print]) rfl (fun _ => rfl) rfl rfl (fun _ _ => trivial) hp hsc
  | seq p q ihp ihq =>
    intro hp hsc F i rest ps cur as hi hok hF
    simp only [pp, Bool.and_eq_true] at hp
    simp only [Emit.scope, Bool.and_eq_true] at hsc
    simp only [ok, Bool.and_eq_true] at hok
    simp only [print, List.length_append] at hF
    have hnp := ntok_le p
    obtain ⟨ps1, e1, hi1, hg1⟩ := ihp hp.1 hsc.1 F i (print q ++ rest) ps cur as hi hok.1 (by omega)
    obtain ⟨ps2, e2, hi2, hg2⟩ := ihq hp.2 hsc.2 (F - ntok p) (i + (print p).length) rest ps1 _ _ hi1 hok.2 (by omega)
    refine ⟨ps2, ?_, by simpa [Pat.isEmpty, Bool.and_assoc] using hi2, hg2.trans hg1⟩
    simp only [print, List.append_assoc, Emit.its, ntok, List.reverse_append, List.length_append]
    rw [e1, e2]
    have a1 : F - ntok p - ntok q = F - (ntok p + ntok q) := by omega
    have a2 : i + (print p).length + (print q).length = i + ((print p).length + (print q).length) := by omega
    rw [a1, a2]
  | alt p q => intro hp; simp [pp] at hp
  | ext k body =>
    intro hp hsc F i rest ps cur as hi hok hF
    simp only [pp, Bool.and_eq_true, bne_iff_ne, ne_eq] at hp
    simp only [Emit.scope] at hsc
    simp only [ok] at hok
    simp only [print, List.length_cons, List.length_append, List.length_nil] at hF
    obtain ⟨F', rfl⟩ : ∃ F', F = F' + 1 := ⟨F - 1, by omega⟩
    obtain ⟨ps1, e1, hi1, hg1⟩ := parseExtend_groupG cfg e k hp.1 body (EG_all cfg e h body) hp.2 hsc
      (2 * ('(' :: (print body ++ ')' :: rest)).length + 8) (i+1) rest ps cur true hi hok
      (by simp only [List.length_cons, List.length_append]; omega)
    refine ⟨ps1.updateDirState, ?_, by simpa [Pat.isEmpty] using hi1.upd, by simpa using hg1⟩
    have hx : (cfg.extend && decide (extChar k ∈ extTypes)) = true := by simp [h.extend, extChar_ext]
    simp only [print, List.cons_append, List.append_assoc, List.nil_append, Emit.its, ntok, List.reverse_cons,
      List.reverse_nil]
    rw [rootLoop_cons]
    unfold HF.rootTok
    rw [if_pos hx]
    simp only [e1, if_true]
    congr 2
    simp only [List.length_cons, List.length_append, List.length_nil]
    omega

/-! ## Part 2: the one-token facts in path mode -/

/-- path mode, Unix rules, EXTMATCH; no REALPATH / NODOTDIR / MATCHBASE / anchor / noAbs; `str` -/
structure PathX (cfg : Cfg) : Prop extends PathEntry cfg where
  extend : cfg.extend = true
  realpath : cfg.realpath = false
  nodotdir : cfg.nodotdir = false
  isBytes : cfg.isBytes = false

theorem PathX.win {cfg : Cfg} (h : PathX cfg) : cfg.win = false := by simp [Cfg.win, h.unix]

theorem PathX.needChar {cfg : Cfg} (h : PathX cfg) : cfg.needChar = Frag.needCharPath false := by
  simp [Cfg.needChar, h.pathname, h.win]

/-- a bracket member printed without `/` -/
def memNoSl : SCls → Bool
  | .chr c => c != '/'
  | .range lo hi => lo != '/' && hi != '/'
  | .posix _ => true

/-- what the pass pushes in path mode -/
def pathEmit (cfg : Cfg) : Emit where
  any as := .cat (pGuard cfg.dot as) Frag.qmark
  star as := pStar cfg.dot as
  cls as neg items := .cat (pGuard cfg.dot as) (clsRe cfg neg items)
  litOK c := c != '/'
  memOK := memNoSl

theorem pGuard_ne_eps (dot as : Bool) : pGuard dot as ≠ .eps := by
  unfold pGuard; split <;> simp [Frag.seqPath]

theorem restrictSequence_p (cfg : Cfg) (h : PathX cfg) (ps : PS) :
    restrictSequence cfg ps = (pGuard cfg.dot ps.afterStart, ps.resetDirTrack) := by
  unfold restrictSequence pGuard
  simp only [h.pathname, h.win, if_true]
  cases ps.afterStart <;> cases cfg.dot <;> rfl

theorem qmarkItem_p (cfg : Cfg) (h : PathX cfg) (ps : PS) :
    qmarkItem cfg ps = (.re ((pathEmit cfg).any ps.afterStart), ps.resetDirTrack) := by
  unfold qmarkItem
  rw [restrictSequence_p cfg h]
  simp [catE, pGuard_ne_eps, pathEmit]

/-- `?` -/
theorem tok_any_p (cfg : Cfg) (h : PathX cfg) (it : It) (ps : PS) (l : List Item) (a n : Bool) :
    HF.rootPlain cfg '?' it ps l =
      (it, ps.resetDirTrack.updateDirState, .re ((pathEmit cfg).any ps.afterStart) :: l) ∧
    HF.extPlain cfg '?' it ps l a n =
      (ps.resetDirTrack, it, .re ((pathEmit cfg).any ps.afterStart) :: l, true) := by
  constructor
  · unfold HF.rootPlain
    simp [qmarkItem_p cfg h]
  · unfold HF.extPlain
    simp [qmarkItem_p cfg h]

theorem hsSel_single (cfg : Cfg) (ps : PS) (it : It) (c0 : Bool) (hs : it.rest.head? ≠ some '*') :
    hsSel cfg ps it c0 = (false, c0, it, ps) := by
  unfold hsSel
  split
  · obtain ⟨i, rest⟩ := it
    cases rest with
    | nil => simp [It.next]
    | cons d r =>
      have : d ≠ '*' := by simpa using hs
      simp [It.next, this]
  · rfl

/-- a single `*` (not followed by another): never a globstar, whatever `ps.globstar` says -/
theorem handleStar_p (cfg : Cfg) (h : PathX cfg) (ps : PS) (it : It) (cur : List Item)
    (hs : it.rest.head? ≠ some '*') :
    handleStar cfg ps it cur = (ps.resetDirTrack, it, .re (pStar cfg.dot ps.afterStart) :: cur) := by
  rw [handleStar_eq, hsSel_single cfg ps it _ hs]
  unfold hsBody hsStar
  simp only [h.pathname, h.needChar, h.win, Bool.not_false, ite_true, dropStars_id _ _ hs]
  cases ha : ps.afterStart <;> cases hd : cfg.dot <;> simp [pStar]

/-- `*` -/
theorem tok_star_p (cfg : Cfg) (h : PathX cfg) (it : It) (ps : PS) (l : List Item) (a n : Bool)
    (hs : it.rest.head? ≠ some '*') :
    HF.rootPlain cfg '*' it ps l =
      (it, ps.resetDirTrack.updateDirState, .re ((pathEmit cfg).star ps.afterStart) :: l) ∧
    HF.extPlain cfg '*' it ps l a n =
      (ps.resetDirTrack, it, .re ((pathEmit cfg).star ps.afterStart) :: l, true) := by
  constructor
  · unfold HF.rootPlain
    simp [handleStar_p cfg h ps it l hs, pathEmit]
  · unfold HF.extPlain
    simp [handleStar_p cfg h ps it l hs, pathEmit]

theorem handleDot_p (cfg : Cfg) (h : PathX cfg) (ps : PS) (it : It) : handleDot cfg ps it = .lit '.' := by
  simp [handleDot, h.nodotdir]

/-- a bare literal character other than `/` -/
theorem tok_lit_p (cfg : Cfg) (h : PathX cfg) (c : Char) (hc : c ∉ escSet) (hsl : c ≠ '/') (it : It) (ps : PS)
    (l : List Item) (a n : Bool) {as il : Bool} {k : Nat} (hi : Inv ps as il k) :
    HF.rootPlain cfg c it ps l = (it, ps.updateDirState, litItem c :: l) ∧
    ∃ ps' as', Inv ps' as' il k ∧ ps'.globstar = ps.globstar ∧
      HF.extPlain cfg c it ps l a n = (ps', it, litItem c :: l, true) := by
  simp only [escSet, List.mem_cons, List.not_mem_nil, or_false, not_or] at hc
  obtain ⟨c1, c2, c3, c4, c5, c6, c7, c8, c9, c10⟩ := hc
  by_cases hd : c = '.'
  · subst hd
    constructor
    · simp [HF.rootPlain, handleDot_p cfg h, litItem, litRe']
    · refine ⟨_, false, ?_, ?_, by simp [HF.extPlain, handleDot_p cfg h, litItem, litRe']; rfl⟩
      · split
        · exact ⟨rfl, rfl, hi.inList, hi.invExt, hi.mb, hi.emb⟩
        · rename_i hn
          exact ⟨by simpa using hn, hi.dirStart, hi.inList, hi.invExt, hi.mb, hi.emb⟩
      · split <;> rfl
  · constructor
    · simp [HF.rootPlain, hd, hsl, c1, c2, c3, c4, litItem, litRe']
    · exact ⟨_, _, hi, rfl, by simp [HF.extPlain, hd, hsl, c1, c2, c3, c4, c8, c10, litItem, litRe']⟩

/-- an escaped literal character `\\c` (the printer escapes only characters of `escSet`) -/
theorem tok_esc_p (cfg : Cfg) (h : PathX cfg) (c : Char) (hc : c ∈ escSet) (i : Nat) (rest : List Char) (ps : PS)
    (l : List Item) (a n : Bool) (hds : ps.dirStart = false) :
    HF.rootPlain cfg '\\' ⟨i, c :: rest⟩ ps l = (⟨i + 1, rest⟩, ps.updateDirState, litItem c :: l) ∧
    HF.extPlain cfg '\\' ⟨i, c :: rest⟩ ps l a n = (ps, ⟨i + 1, rest⟩, litItem c :: l, true) := by
  have hd : c ≠ '.' := by intro e; subst e; simp [escSet] at hc
  have hs : c ≠ '/' := by intro e; subst e; simp [escSet] at hc
  have href : references cfg ps ⟨i, c :: rest⟩ = .val (.lit c) ⟨i + 1, rest⟩ ps := by
    unfold references
    by_cases hb : c = '\\'
    · subst hb; simp [It.next, h.bslash, h.unix]
    · simp [It.next, hb, hs, hd]
  constructor
  · simp [HF.rootPlain, href, hds, litItem, litRe', hs]
  · simp [HF.extPlain, href, litItem, litRe', hs]

theorem step_any_p (cfg : Cfg) (h : PathX cfg) :
    StepG cfg ['?'] (fun as => .re ((pathEmit cfg).any as)) (fun rest => rest.head? ≠ some '(') := by
  intro as il k F i rest ps l hi hn
  constructor
  · obtain ⟨ps1, hi1, hg1, e⟩ := rootTok_plainG cfg '?' ⟨i+1, rest⟩ ps l hi (fun _ => hn)
    refine ⟨ps1.resetDirTrack.updateDirState, hi1.reset.upd, by simpa [PS.resetDirTrack] using hg1, ?_⟩
    show rootLoop cfg (F+1) ⟨i, '?' :: rest⟩ ps l = _
    rw [rootLoop_cons, e, (tok_any_p cfg h _ ps1 l false false).1, hi1.afterStart]
    rfl
  · intro a n
    obtain ⟨ps1, hi1, hg1, e⟩ := extTok_plainG cfg F '?' ⟨i+1, rest⟩ ps l a n hi (fun _ => hn)
    refine ⟨ps1.resetDirTrack.updateDirState, hi1.reset.upd, by simpa [PS.resetDirTrack] using hg1, ?_⟩
    show extLoop cfg (F+1) ⟨i, '?' :: rest⟩ ps l a n = _
    rw [extLoop_cons, e, (tok_any_p cfg h _ ps1 l a n).2, extCont_ne _ _ _ _ _ _ _ _ (by decide),
      hi1.afterStart]
    rfl

theorem step_star_p (cfg : Cfg) (h : PathX cfg) :
    StepG cfg ['*'] (fun as => .re ((pathEmit cfg).star as))
      (fun rest => rest.head? ≠ some '(' ∧ rest.head? ≠ some '*') := by
  intro as il k F i rest ps l hi hn
  constructor
  · obtain ⟨ps1, hi1, hg1, e⟩ := rootTok_plainG cfg '*' ⟨i+1, rest⟩ ps l hi (fun _ => hn.1)
    refine ⟨ps1.resetDirTrack.updateDirState, hi1.reset.upd, by simpa [PS.resetDirTrack] using hg1, ?_⟩
    show rootLoop cfg (F+1) ⟨i, '*' :: rest⟩ ps l = _
    rw [rootLoop_cons, e, (tok_star_p cfg h _ ps1 l false false hn.2).1, hi1.afterStart]
    rfl
  · intro a n
    obtain ⟨ps1, hi1, hg1, e⟩ := extTok_plainG cfg F '*' ⟨i+1, rest⟩ ps l a n hi (fun _ => hn.1)
    refine ⟨ps1.resetDirTrack.updateDirState, hi1.reset.upd, by simpa [PS.resetDirTrack] using hg1, ?_⟩
    show extLoop cfg (F+1) ⟨i, '*' :: rest⟩ ps l a n = _
    rw [extLoop_cons, e, (tok_star_p cfg h _ ps1 l a n hn.2).2, extCont_ne _ _ _ _ _ _ _ _ (by decide),
      hi1.afterStart]
    rfl

theorem step_lit_p (cfg : Cfg) (h : PathX cfg) (c : Char) (hc : c ∉ escSet) (hsl : c ≠ '/') :
    StepG cfg [c] (fun _ => litItem c) (fun _ => True) := by
  intro as il k F i rest ps l hi _
  have hne : c ∉ extTypes := not_ext_of_not_esc hc
  have hp : c ≠ ')' := by intro e; subst e; simp [escSet] at hc
  constructor
  · obtain ⟨ps1, hi1, hg1, e⟩ := rootTok_plainG cfg c ⟨i+1, rest⟩ ps l hi (fun hx => absurd hx hne)
    refine ⟨ps1.updateDirState, hi1.upd, by simpa using hg1, ?_⟩
    show rootLoop cfg (F+1) ⟨i, c :: rest⟩ ps l = _
    rw [rootLoop_cons, e, (tok_lit_p cfg h c hc hsl _ ps1 l false false hi1).1]
    rfl
  · intro a n
    obtain ⟨ps1, hi1, hg1, e⟩ := extTok_plainG cfg F c ⟨i+1, rest⟩ ps l a n hi (fun hx => absurd hx hne)
    obtain ⟨ps2, as2, hi2, hg2, e2⟩ := (tok_lit_p cfg h c hc hsl ⟨i+1, rest⟩ ps1 l a n hi1).2
    refine ⟨ps2.updateDirState, hi2.upd, by simpa [hg2] using hg1, ?_⟩
    show extLoop cfg (F+1) ⟨i, c :: rest⟩ ps l a n = _
    rw [extLoop_cons, e, e2, extCont_ne _ _ _ _ _ _ _ _ hp]
    rfl

theorem step_esc_p (cfg : Cfg) (h : PathX cfg) (c : Char) (hc : c ∈ escSet) :
    StepG cfg ['\\', c] (fun _ => litItem c) (fun _ => True) := by
  intro as il k F i rest ps l hi _
  constructor
  · obtain ⟨ps1, hi1, hg1, e⟩ := rootTok_plainG cfg '\\' ⟨i+1, c :: rest⟩ ps l hi (fun hx => absurd hx bs_not_ext')
    refine ⟨ps1.updateDirState, hi1.upd, by simpa using hg1, ?_⟩
    show rootLoop cfg (F+1) ⟨i, '\\' :: c :: rest⟩ ps l = _
    rw [rootLoop_cons, e, (tok_esc_p cfg h c hc _ _ ps1 l false false hi1.dirStart).1]
    rfl
  · intro a n
    obtain ⟨ps1, hi1, hg1, e⟩ := extTok_plainG cfg F '\\' ⟨i+1, c :: rest⟩ ps l a n hi (fun hx => absurd hx bs_not_ext')
    refine ⟨ps1.updateDirState, hi1.upd, by simpa using hg1, ?_⟩
    show extLoop cfg (F+1) ⟨i, '\\' :: c :: rest⟩ ps l a n = _
    rw [extLoop_cons, e, (tok_esc_p cfg h c hc _ _ ps1 l a n hi1.dirStart).2, extCont_ne _ _ _ _ _ _ _ _ (by decide)]
    rfl

theorem step_printLit_p (cfg : Cfg) (h : PathX cfg) (c : Char) (hsl : c ≠ '/') :
    StepG cfg (printLit c) (fun _ => litItem c) (fun _ => True) := by
  unfold printLit
  split
  · rename_i hc; exact step_esc_p cfg h c hc
  · rename_i hc; exact step_lit_p cfg h c hc hsl

/-! ### a printed bracket without `/` is one token (`_sequence` in path mode) -/

/-- a plain member character other than `/` is pushed as is -/
theorem seqLoop_plain_p (cfg : Cfg) (F i : Nat) (c c2 : Char) (r2 : List Char)
    (st : SeqSt) (hc : plainMember c = true) (hs : c ≠ '/') (he : st.endRange = 0) :
    seqLoop cfg (F+1) c ⟨i, c2 :: r2⟩ st =
      seqLoop cfg F c2 ⟨i+1, r2⟩ { st with lastPosix := false, res := .chr c (escM c) :: st.res } := by
  simp only [plainMember, Bool.and_eq_true, bne_iff_ne, ne_eq] at hc
  obtain ⟨⟨⟨h1, h2⟩, h3⟩, h4⟩ := hc
  rw [seqLoop]
  simp only [h1, h2, h3, h4, if_false, he, bne_self_eq_false, Bool.false_and, Bool.false_eq_true, It.next]
  simp only [hs, if_false, escM]
  by_cases hm : c ∈ setOperators
  · simp [hm]
  · by_cases h5 : c = '#'
    · subst h5; simp
    · have h6 : (c == '#') = false := by simp [h5]
      simp [hm, h5, h6]

theorem seqLoop_hi_p (cfg : Cfg) (F i : Nat) (lo hi c2 : Char) (e : Bool)
    (r2 : List Char) (st : SeqSt) (res0 : List CTok)
    (hhi : plainMember hi = true) (hs : hi ≠ '/') (hle : lo.toNat ≤ hi.toNat)
    (hr : st.res = .dash :: .chr lo e :: res0) (he : st.endRange = i + 1) :
    seqLoop cfg (F+1) hi ⟨i+2, c2 :: r2⟩ st =
      seqLoop cfg F c2 ⟨i+3, r2⟩
        { st with lastPosix := false, res := .chr hi (escM hi) :: st.res, endRange := 0,
                  escapeHyphen := ((i + 2 : Nat) : Int) } := by
  simp only [plainMember, Bool.and_eq_true, bne_iff_ne, ne_eq] at hhi
  obtain ⟨⟨⟨h1, h2⟩, h3⟩, h4⟩ := hhi
  have hcond : (i + 1 != 0 && decide (i + 2 - 1 ≥ i + 1)) = true := by simp
  have hk : ∀ b, ¬ ((CTok.chr hi b).key cfg.isBytes < (CTok.chr lo e).key cfg.isBytes) := by
    intro b; simp only [CTok.key]; omega
  rw [seqLoop]
  simp only [h1, h2, h3, h4, if_false, he, It.next, hr, hcond, if_true, seqRangeCheck]
  simp only [hs, if_false, escM]
  by_cases hm : hi ∈ setOperators
  · simp [hm, hk]
  · by_cases h5 : hi = '#'
    · subst h5; simp [hk]
    · have h6 : (hi == '#') = false := by simp [h5]
      simp [hm, h5, h6, hk]

/-- `lo-hi` -/
theorem seqLoop_range_p (cfg : Cfg) (F i : Nat) (lo hi c2 : Char) (r2 : List Char)
    (st : SeqSt) (hlo : plainMember lo = true) (hhi : plainMember hi = true) (hslo : lo ≠ '/') (hshi : hi ≠ '/')
    (hle : lo.toNat ≤ hi.toNat) (hj : J st i) :
    ∃ st', seqLoop cfg (F+3) lo ⟨i, '-' :: hi :: c2 :: r2⟩ st = seqLoop cfg F c2 ⟨i+3, r2⟩ st' ∧
      st'.res = .chr hi (escM hi) :: .dash :: .chr lo (escM lo) :: st.res ∧ J st' (i+3) := by
  rw [seqLoop_plain_p cfg _ _ _ _ _ _ hlo hslo hj.endRange]
  rw [seqLoop_dash cfg _ _ _ _ _ rfl (by exact hj.eh)]
  rw [seqLoop_hi_p cfg _ _ lo hi _ (escM lo) _ _ st.res hhi hshi hle rfl rfl]
  exact ⟨_, rfl, rfl, ⟨rfl, hj.removed, by show ((i + 2 : Nat) : Int) < ((i + 3 : Nat) : Int); omega⟩⟩

/-- the member loop on a printed member list -/
theorem seqLoop_members_p (cfg : Cfg) (rest : List Char) :
    ∀ (items : List SCls), items.all okM = true → items.all memNoSl = true →
      ∀ (F i : Nat) (c : Char) (r : List Char) (st : SeqSt),
      c :: r = items.flatMap printCls ++ ']' :: rest → J st i → (items.flatMap printCls).length + 1 ≤ F →
      ∃ st', seqLoop cfg F c ⟨i, r⟩ st = some (⟨i + (items.flatMap printCls).length, rest⟩, st') ∧
        st'.res = (items.flatMap (ftok cfg.isBytes)).reverse ++ st.res ∧ st'.removed = false := by
  intro items
  induction items with
  | nil =>
    intro _ _ F i c r st htxt hj hF
    simp only [List.flatMap_nil, List.nil_append] at htxt
    injection htxt with h1 h2
    subst h1; subst h2
    obtain ⟨F', rfl⟩ : ∃ F', F = F' + 1 := ⟨F - 1, by simp at hF; omega⟩
    exact ⟨st, by rw [seqLoop]; simp, by simp, hj.removed⟩
  | cons m ms ih =>
    intro hall hsl F i c r st htxt hj hF
    simp only [List.all_cons, Bool.and_eq_true] at hall hsl
    obtain ⟨c2, r2, hnext⟩ : ∃ c2 r2, ms.flatMap printCls ++ ']' :: rest = c2 :: r2 := by
      cases h : ms.flatMap printCls ++ ']' :: rest with
      | nil => simp at h
      | cons a b => exact ⟨a, b, rfl⟩
    simp only [List.flatMap_cons, List.append_assoc, hnext] at htxt
    simp only [List.flatMap_cons, List.length_append] at hF ⊢
    cases m with
    | chr d =>
      simp only [printCls, List.cons_append, List.nil_append] at htxt
      injection htxt with h1 h2
      subst h1; subst h2
      simp only [okM] at hall
      have hs : c ≠ '/' := by simpa [memNoSl] using hsl.1
      simp only [printCls, List.length_cons, List.length_nil] at hF ⊢
      obtain ⟨F', rfl⟩ : ∃ F', F = F' + 1 := ⟨F - 1, by omega⟩
      rw [seqLoop_plain_p cfg _ _ _ _ _ _ hall.1 hs hj.endRange]
      have hj1 : J ({ st with lastPosix := false, res := .chr c (escM c) :: st.res } : SeqSt) (i+1) :=
        ⟨hj.endRange, hj.removed, by have := hj.eh; show st.escapeHyphen < _; omega⟩
      obtain ⟨st', e, hr, hrm⟩ := ih hall.2 hsl.2 F' (i+1) c2 r2 _ hnext.symm hj1 (by omega)
      refine ⟨st', ?_, ?_, hrm⟩
      · rw [e]; congr 3; omega
      · rw [hr]; simp [ftok]
    | range lo hi =>
      simp only [printCls, List.cons_append, List.nil_append] at htxt
      injection htxt with h1 h2
      subst h1; subst h2
      simp only [okM, Bool.and_eq_true, decide_eq_true_eq] at hall
      have hs : c ≠ '/' ∧ hi ≠ '/' := by simpa [memNoSl] using hsl.1
      simp only [printCls, List.length_cons, List.length_nil] at hF ⊢
      obtain ⟨F', rfl⟩ : ∃ F', F = F' + 3 := ⟨F - 3, by omega⟩
      obtain ⟨st1, e1, hr1, hj1⟩ := seqLoop_range_p cfg F' i c hi c2 r2 st hall.1.1.1 hall.1.1.2 hs.1 hs.2
        hall.1.2 hj
      rw [e1]
      obtain ⟨st', e, hr, hrm⟩ := ih hall.2 hsl.2 F' (i+3) c2 r2 st1 hnext.symm hj1 (by omega)
      refine ⟨st', ?_, ?_, hrm⟩
      · rw [e]; congr 3; omega
      · rw [hr, hr1]; simp [ftok]
    | posix n =>
      have htxt' : c :: r = '[' :: ':' :: (n.name.toList ++ ':' :: ']' :: c2 :: r2) := by
        rw [htxt]; simp [printCls]
      injection htxt' with h1 h2
      subst h1; subst h2
      have hlen : ("[:".toList ++ n.name.toList ++ ":]".toList).length = n.name.toList.length + 4 := by
        simp only [List.length_append]
        have : "[:".toList.length = 2 := rfl
        have : ":]".toList.length = 2 := rfl
        omega
      simp only [printCls, hlen] at hF ⊢
      obtain ⟨F', rfl⟩ : ∃ F', F = F' + 1 := ⟨F - 1, by omega⟩
      obtain ⟨st1, e1, hr1, hj1⟩ := seqLoop_posix cfg F' i n c2 r2 st hj
      rw [e1]
      obtain ⟨st', e, hr, hrm⟩ := ih hall.2 hsl.2 F' _ c2 r2 st1 hnext.symm hj1 (by omega)
      refine ⟨st', ?_, ?_, hrm⟩
      · rw [e]; congr 3; omega
      · rw [hr, hr1]; simp [ftok]

/-- the tail of `seqBody`, once the loop has returned (path mode: the guard is always there) -/
theorem seq_finish_p (cfg : Cfg) (h : PathX cfg) (ps : PS) (neg : Bool) (items : List SCls)
    (itE : It) (st : SeqSt)
    (hr : st.res = (items.flatMap (ftok cfg.isBytes)).reverse ++ (if neg then [.caret, .opn] else [.opn]))
    (hrm : st.removed = false) :
    seqFinish cfg ps neg itE st =
    some ((pathEmit cfg).cls ps.afterStart neg items, ps.resetDirTrack, itE) := by
  unfold seqFinish
  have hbody : (st.res.reverse).drop (if neg then 2 else 1) = items.flatMap (ftok cfg.isBytes) := by
    rw [hr]; cases neg <;> simp
  have hg := groupAtoms_members cfg.isBytes items
    ((tokAtoms cfg.isBytes (items.flatMap (ftok cfg.isBytes))).length + 1)
    (by have := atoms_length cfg.isBytes items; omega)
  simp only [hbody, hrm, Bool.false_and, Bool.false_eq_true, if_false, hg, h.pathname, Bool.true_or, if_true,
    restrictSequence_p cfg h]
  simp [catE, pGuard_ne_eps, pathEmit, clsRe]

theorem seqBody_print_p (cfg : Cfg) (h : PathX cfg) (ps : PS) (neg : Bool) (items : List SCls)
    (hok : clsOK items = true) (hsl : items.all memNoSl = true) (i : Nat) (c : Char) (r rest : List Char)
    (htxt : c :: r = items.flatMap printCls ++ ']' :: rest) :
    seqBody cfg ps neg c ⟨i, r⟩ =
      some ((pathEmit cfg).cls ps.afterStart neg items, ps.resetDirTrack,
        ⟨i + (items.flatMap printCls).length, rest⟩) := by
  unfold clsOK at hok
  simp only [Bool.and_eq_true] at hok
  obtain ⟨hall, hfirst⟩ := hok
  cases items with
  | nil => simp at hfirst
  | cons m ms =>
    simp only at hfirst
    have hfuel : ((m :: ms).flatMap printCls).length + 1 ≤ r.length + 2 := by
      have := congrArg List.length htxt
      simp only [List.length_cons, List.length_append] at this
      omega
    have hnp : ∀ d, plainMember d = true → d ≠ '[' ∧ d ≠ '-' ∧ d ≠ ']' := by
      intro d hd
      simp only [plainMember, Bool.and_eq_true, bne_iff_ne, ne_eq] at hd
      exact ⟨hd.1.1.2, hd.1.2, hd.1.1.1⟩
    have plain : ∀ d, plainMember d = true → c = d →
        seqBody cfg ps neg c ⟨i, r⟩ =
          some ((pathEmit cfg).cls ps.afterStart neg (m :: ms), ps.resetDirTrack,
            ⟨i + ((m :: ms).flatMap printCls).length, rest⟩) := by
      intro d hd hcd
      subst hcd
      obtain ⟨h1, h2, h3⟩ := hnp c hd
      obtain ⟨st', e, hr, hrm⟩ := seqLoop_members_p cfg rest (m :: ms) hall hsl (r.length + 2) i c r
        ⟨if neg then [.caret, .opn] else [.opn], 0, -1, false, false⟩ htxt
        ⟨rfl, rfl, by show (-1 : Int) < _; omega⟩ hfuel
      have hs2 : seqStep2 neg c ⟨i, r⟩ = some (c, ⟨i, r⟩, (if neg then [.caret, .opn] else [.opn]), false) := by
        simp [seqStep2, h1, h2, h3]
      unfold seqBody
      simp only [hs2, e]
      exact seq_finish_p cfg h ps neg (m :: ms) _ st' hr hrm
    cases m with
    | chr d =>
      simp only [List.flatMap_cons, printCls, List.cons_append, List.nil_append] at htxt
      injection htxt with h1 _
      simp only [List.all_cons, Bool.and_eq_true, okM] at hall
      exact plain d hall.1 h1
    | range lo hi =>
      simp only [List.flatMap_cons, printCls, List.cons_append, List.nil_append] at htxt
      injection htxt with h1 _
      simp only [List.all_cons, Bool.and_eq_true, okM] at hall
      exact plain lo hall.1.1.1 h1
    | posix n =>
      obtain ⟨c2, r2, hnext⟩ : ∃ c2 r2, ms.flatMap printCls ++ ']' :: rest = c2 :: r2 := by
        cases h : ms.flatMap printCls ++ ']' :: rest with
        | nil => simp at h
        | cons a b => exact ⟨a, b, rfl⟩
      have htxt' : c :: r = '[' :: ':' :: (n.name.toList ++ ':' :: ']' :: c2 :: r2) := by
        rw [htxt]; simp [printCls, hnext]
      injection htxt' with h1 h2
      subst h1; subst h2
      simp only [List.all_cons, Bool.and_eq_true] at hall hsl
      have hlen : (printCls (.posix n)).length = n.name.toList.length + 4 := by
        simp only [printCls, List.length_append]
        have : "[:".toList.length = 2 := rfl
        have : ":]".toList.length = 2 := rfl
        omega
      have hl2 : (n.name.toList ++ ':' :: ']' :: c2 :: r2).length = n.name.toList.length + 3 + r2.length := by
        simp only [List.length_append, List.length_cons]; omega
      have hnl := congrArg List.length hnext
      simp only [List.length_append, List.length_cons] at hnl
      obtain ⟨st', e, hr, hrm⟩ := seqLoop_members_p cfg rest ms hall.2 hsl.2 (r2.length + 2)
        (i + (n.name.toList.length + 3) + 1) c2 r2
        ⟨.posix n :: (if neg then [.caret, .opn] else [.opn]), 0, -1, false, true⟩ hnext.symm
        ⟨rfl, rfl, by show (-1 : Int) < _; omega⟩ (by omega)
      have hs2 : seqStep2 neg '[' ⟨i, ':' :: (n.name.toList ++ ':' :: ']' :: c2 :: r2)⟩ =
          some (c2, ⟨i + (n.name.toList.length + 3) + 1, r2⟩,
            .posix n :: (if neg then [.caret, .opn] else [.opn]), true) := by
        simp [seqStep2, handlePosix, matchPosix_print, It.next]
      unfold seqBody
      simp only [hs2, e]
      have hidx : i + (n.name.toList.length + 3) + 1 + (ms.flatMap printCls).length =
          i + ((SCls.posix n :: ms).flatMap printCls).length := by
        simp only [List.flatMap_cons, List.length_append, hlen]; omega
      rw [← hidx]
      exact seq_finish_p cfg h ps neg (.posix n :: ms) _ st' (by rw [hr]; simp [ftok]) hrm

/-- **`_sequence` on a printed bracket, path mode** (the text after the opening `[`) -/
theorem sequence_print_p (cfg : Cfg) (h : PathX cfg) (ps : PS) (neg : Bool) (items : List SCls)
    (hok : clsOK items = true) (hsl : items.all memNoSl = true) (i : Nat) (rest : List Char) :
    sequence cfg ps ⟨i, (if neg then ['!'] else []) ++ items.flatMap printCls ++ ']' :: rest⟩ =
      some ((pathEmit cfg).cls ps.afterStart neg items, ps.resetDirTrack,
        ⟨i + ((if neg then ['!'] else []) ++ items.flatMap printCls ++ [']']).length, rest⟩) := by
  obtain ⟨c, r, htxt⟩ : ∃ c r, c :: r = items.flatMap printCls ++ ']' :: rest := by
    cases h : items.flatMap printCls ++ ']' :: rest with
    | nil => simp at h
    | cons a b => exact ⟨a, b, rfl⟩
  obtain ⟨hc1, hc2⟩ := first_not_neg items hok c r rest htxt
  have hcond : (decide (c = '!') || decide (c = '^')) = false := by simp [hc1, hc2]
  rw [sequence_eq]
  cases neg with
  | false =>
    simp only [Bool.false_eq_true, if_false, List.nil_append, ← htxt, It.next, hcond]
    rw [seqBody_print_p cfg h ps false items hok hsl _ c r rest htxt]
    simp only [List.length_append, List.length_cons, List.length_nil]
    have hx : i + 1 + (items.flatMap printCls).length = i + ((items.flatMap printCls).length + (0 + 1)) := by omega
    rw [hx]
  | true =>
    simp only [if_true, List.cons_append, List.nil_append, ← htxt, It.next, Bool.true_or,
      decide_true]
    rw [seqBody_print_p cfg h ps true items hok hsl _ c r rest htxt]
    simp only [List.length_append, List.length_cons, List.length_nil]
    have hx : i + 1 + 1 + (items.flatMap printCls).length =
        i + ((items.flatMap printCls).length + (0 + 1) + 1) := by omega
    rw [hx]

theorem step_cls_p (cfg : Cfg) (h : PathX cfg) (neg : Bool) (items : List SCls)
    (hok : clsOK items = true) (hsl : items.all memNoSl = true) :
    StepG cfg (print (.cls neg items)) (fun as => .re ((pathEmit cfg).cls as neg items)) (fun _ => True) := by
  intro as il k F i rest ps l hi _
  have hne : '[' ∉ extTypes := by decide
  have hpr : print (.cls neg items) ++ rest =
      '[' :: ((if neg then ['!'] else []) ++ items.flatMap printCls ++ ']' :: rest) := by
    simp [print]
  have hlen : (print (.cls neg items)).length =
      ((if neg then ['!'] else []) ++ items.flatMap printCls ++ [']']).length + 1 := by
    simp [print]
  rw [hpr, hlen]
  constructor
  · obtain ⟨ps1, hi1, hg1, e⟩ := rootTok_plainG cfg '[' ⟨i+1, (if neg then ['!'] else []) ++ items.flatMap printCls ++ ']' :: rest⟩
      ps l hi (fun hx => absurd hx hne)
    refine ⟨ps1.resetDirTrack.updateDirState, hi1.reset.upd, by simpa [PS.resetDirTrack] using hg1, ?_⟩
    rw [rootLoop_cons, e]
    simp only [HF.rootPlain, show ('[' : Char) ≠ '.' by decide, show ('[' : Char) ≠ '*' by decide,
      show ('[' : Char) ≠ '?' by decide, show ('[' : Char) ≠ '/' by decide, show ('[' : Char) ≠ '\\' by decide,
      if_false, if_true, sequence_print_p cfg h ps1 neg items hok hsl, hi1.afterStart]
    congr 2
    omega
  · intro a n
    obtain ⟨ps1, hi1, hg1, e⟩ := extTok_plainG cfg F '[' ⟨i+1, (if neg then ['!'] else []) ++ items.flatMap printCls ++ ']' :: rest⟩
      ps l a n hi (fun hx => absurd hx hne)
    refine ⟨ps1.resetDirTrack.updateDirState, hi1.reset.upd, by simpa [PS.resetDirTrack] using hg1, ?_⟩
    rw [extLoop_cons, e]
    simp only [HF.extPlain, show ('[' : Char) ≠ '.' by decide, show ('[' : Char) ≠ '*' by decide,
      show ('[' : Char) ≠ '?' by decide, show ('[' : Char) ≠ '/' by decide, show ('[' : Char) ≠ '\\' by decide,
      show ('[' : Char) ≠ '|' by decide,
      if_false, if_true, sequence_print_p cfg h ps1 neg items hok hsl, hi1.afterStart]
    rw [extCont_ne _ _ _ _ _ _ _ _ (by decide)]
    congr 2
    omega

/-- **the one-token facts of path mode** -/
theorem pathSteps (cfg : Cfg) (h : PathX cfg) : Steps cfg (pathEmit cfg) where
  extend := h.extend
  any := step_any_p cfg h
  star := step_star_p cfg h
  lit := fun c hc => step_printLit_p cfg h c (by simpa [pathEmit] using hc)
  cls := fun neg items hok hsl => step_cls_p cfg h neg items hok hsl

/-! ## Part 3: from the expected items to the regex of the tidy path compiler -/

open HF (NoBar isBar)

/-- the items of a segment pattern in path mode -/
abbrev itsP (cfg : Cfg) : Bool → Pat → List Item := (pathEmit cfg).its (HF.capOf cfg)

theorem itsG_noBar (e : Emit) (cap : Capt) : ∀ (g : Pat) (as : Bool), pp false g = true →
    NoBar (e.its cap as g) := by
  intro g
  induction g with
  | seq p q ihp ihq =>
    intro as h; simp only [pp, Bool.and_eq_true] at h
    exact (ihp _ h.1).append (ihq _ h.2)
  | alt p q => intro as h; simp [pp] at h
  | eps => intro as _; exact NoBar.nil
  | _ => intro as _; exact NoBar.cons rfl NoBar.nil

def TP (cfg : Cfg) (g : Pat) : Prop :=
  ∀ (as : Bool) (f : Nat) (rest : List Item) (x : Re), Item.seqToRe f (itsP cfg as g ++ rest) = some x →
    ∃ f' x', Item.seqToRe f' rest = some x' ∧ Eqv x (.cat (compSeg cfg.dot as g) x')

def VP (cfg : Cfg) (g : Pat) : Prop :=
  ∀ (as : Bool) (f : Nat) (xs : List Re), (splitBars (itsP cfg as g)).mapM (Item.seqToRe f) = some xs →
    Eqv (altOfList xs) (compSeg cfg.dot as g)

theorem VP_of_TP (cfg : Cfg) (g : Pat) (hp : pp false g = true) (hT : TP cfg g) : VP cfg g := by
  intro as f xs h
  rw [HF.splitBars_noBar _ (itsG_noBar _ _ g as hp)] at h
  simp only [List.mapM_cons, List.mapM_nil] at h
  cases h1 : Item.seqToRe f (itsP cfg as g) with
  | none => simp [h1] at h
  | some x =>
    simp [h1] at h
    subst h
    have h1' : Item.seqToRe f (itsP cfg as g ++ []) = some x := by simpa using h1
    obtain ⟨f', x', hx', he⟩ := hT as f [] x h1'
    rw [seqToRe_nil hx'] at he
    exact he.trans (Eqv.cat_eps _)

theorem TP_single (cfg : Cfg) (g : Pat) (r : Bool → Re) (hi : ∀ as, itsP cfg as g = [.re (r as)])
    (he : ∀ as, Eqv (r as) (compSeg cfg.dot as g)) : TP cfg g := by
  intro as f rest x h
  rw [hi] at h
  obtain ⟨f', x', _, h2, h3⟩ := seqToRe_re h
  exact ⟨f', x', h2, by rw [h3]; exact (Eqv.catE' _ _).trans ((he as).cat (Eqv.refl _))⟩

theorem itsP_toRe (cfg : Cfg) (h : PathX cfg) : ∀ (g : Pat),
    (pp false g = true → (pathEmit cfg).scope g = true → TP cfg g) ∧
    (pp true g = true → (pathEmit cfg).scope g = true → VP cfg g) := by
  intro g
  induction g with
  | eps =>
    have hT : TP cfg .eps := by
      intro as f rest x h
      exact ⟨f, x, h, (Eqv.eps_cat x).symm⟩
    exact ⟨fun _ _ => hT, fun _ _ => VP_of_TP cfg _ rfl hT⟩
  | lit c =>
    have hT : (pathEmit cfg).scope (.lit c) = true → TP cfg (.lit c) := by
      intro hs
      have hc : c ≠ '/' := by simpa [Emit.scope, pathEmit] using hs
      exact TP_single cfg _ (fun _ => .lit c) (fun _ => by simp [itsP, Emit.its, litItem, litRe', hc])
        (fun _ => Eqv.refl _)
    exact ⟨fun _ hs => hT hs, fun _ hs => VP_of_TP cfg _ rfl (hT hs)⟩
  | any =>
    have hT : TP cfg .any := TP_single cfg _ (fun as => (pathEmit cfg).any as) (fun _ => rfl)
      (fun as => Eqv.refl _)
    exact ⟨fun _ _ => hT, fun _ _ => VP_of_TP cfg _ rfl hT⟩
  | star =>
    have hT : TP cfg .star := TP_single cfg _ (fun as => (pathEmit cfg).star as) (fun _ => rfl)
      (fun as => Eqv.refl _)
    exact ⟨fun _ _ => hT, fun _ _ => VP_of_TP cfg _ rfl hT⟩
  | cls neg items =>
    have hT : TP cfg (.cls neg items) :=
      TP_single cfg _ (fun as => (pathEmit cfg).cls as neg items) (fun _ => rfl)
        (fun as => by
          have := clsRe_eqv cfg neg items
          rw [h.isBytes] at this
          exact (Eqv.refl _).cat this)
    exact ⟨fun _ _ => hT, fun hp _ => VP_of_TP cfg _ hp hT⟩
  | seq p q ihp ihq =>
    have hT : pp false (.seq p q) = true → (pathEmit cfg).scope (.seq p q) = true → TP cfg (.seq p q) := by
      intro hp hs
      simp only [pp, Bool.and_eq_true] at hp
      simp only [Emit.scope, Bool.and_eq_true] at hs
      intro as f rest x hx
      simp only [itsP, Emit.its, List.append_assoc] at hx
      obtain ⟨f1, x1, h1, e1⟩ := ihp.1 hp.1 hs.1 as f _ x hx
      obtain ⟨f2, x2, h2, e2⟩ := ihq.1 hp.2 hs.2 _ f1 rest x1 h1
      refine ⟨f2, x2, h2, ?_⟩
      rw [compSeg_seq _ _ _ _ (pp_negFree p _ hp.1)]
      exact (e1.trans ((Eqv.refl _).cat e2)).trans (Eqv.cat_assoc _ _ _).symm
    exact ⟨hT, fun hp hs => VP_of_TP cfg _ hp (hT hp hs)⟩
  | alt p q ihp ihq =>
    refine ⟨fun hp => by simp [pp] at hp, fun hp hs => ?_⟩
    simp only [pp, Bool.and_eq_true, true_and] at hp
    simp only [Emit.scope, Bool.and_eq_true] at hs
    intro as f xs hx
    simp only [itsP, Emit.its] at hx
    rw [splitBars_append_bar _ _ (itsG_noBar _ _ p as hp.1)] at hx
    simp only [List.mapM_cons] at hx
    cases h1 : Item.seqToRe f ((pathEmit cfg).its (HF.capOf cfg) as p) with
    | none => simp [h1] at hx
    | some xp =>
      cases h2 : (splitBars ((pathEmit cfg).its (HF.capOf cfg) as q)).mapM (Item.seqToRe f) with
      | none => simp [h1, h2] at hx
      | some xq =>
        simp [h1, h2] at hx
        subst hx
        have hne := mapM_ne_nil _ _ _ (splitBars_ne_nil _) h2
        have h1' : Item.seqToRe f (itsP cfg as p ++ []) = some xp := by simpa [itsP] using h1
        obtain ⟨f', x', hx', he⟩ := ihp.1 hp.1 hs.1 as f [] xp h1'
        rw [seqToRe_nil hx'] at he
        have hq := ihq.2 hp.2 hs.2 as f xq h2
        cases xq with
        | nil => exact absurd rfl hne
        | cons y ys =>
          simp only [altOfList, compSeg]
          exact (he.trans (Eqv.cat_eps _)).alt hq
  | ext k body ih =>
    have hT : pp false (.ext k body) = true → (pathEmit cfg).scope (.ext k body) = true →
        TP cfg (.ext k body) := by
      intro hp hs
      simp only [pp, Bool.and_eq_true, bne_iff_ne, ne_eq] at hp
      simp only [Emit.scope] at hs
      intro as f rest x hx
      simp only [itsP, Emit.its, List.cons_append, List.nil_append] at hx
      obtain ⟨f', b, x', _, hb, hr, he⟩ := seqToRe_group hx
      obtain ⟨f'', xs, _, hm, hb'⟩ := listToRe_inv hb
      have hV := ih.2 hp.2 hs as f'' xs hm
      refine ⟨f', x', hr, ?_⟩
      rw [he]
      refine (Eqv.catE' _ _).trans (Eqv.cat ?_ (Eqv.refl _))
      rw [hb']
      have : compSeg cfg.dot as (.ext k body) = quantRe k (compSeg cfg.dot as body) := by
        cases k <;> first | rfl | exact absurd rfl hp.1
      rw [this]
      exact quant_eqv k hp.1 _ hV
    exact ⟨hT, fun hp hs => VP_of_TP cfg _ hp (hT hp hs)⟩

/-! ## Part 4 (Stage 1): one segment -/

/-- no `/` among the literals and the bracket members of a segment pattern (in path mode a
    bracket with a `/` is not a bracket, and a `/` inside a group is not plain text) -/
def slashFree : Pat → Bool
  | .lit c => c != '/'
  | .cls _ items => items.all memNoSl
  | .seq a b => slashFree a && slashFree b
  | .alt a b => slashFree a && slashFree b
  | .ext _ p => slashFree p
  | _ => true

theorem scope_eq (cfg : Cfg) : ∀ g : Pat, (pathEmit cfg).scope g = slashFree g := by
  intro g
  induction g with
  | seq a b iha ihb => simp only [Emit.scope, slashFree, iha, ihb]
  | alt a b iha ihb => simp only [Emit.scope, slashFree, iha, ihb]
  | ext k p ih => simp only [Emit.scope, slashFree, ih]
  | _ => rfl

theorem slashFree_noSlash : ∀ g : Pat, slashFree g = true → g.noSlash = true := by
  intro g
  induction g with
  | seq a b iha ihb =>
    intro h; simp only [slashFree, Bool.and_eq_true] at h
    simp [Pat.noSlash, iha h.1, ihb h.2]
  | alt a b iha ihb =>
    intro h; simp only [slashFree, Bool.and_eq_true] at h
    simp [Pat.noSlash, iha h.1, ihb h.2]
  | ext k p ih => intro h; exact ih h
  | lit c => intro h; exact h
  | _ => intro _; rfl

/-- a printed slash-free pattern does not begin with a separator -/
theorem print_head (g : Pat) : slashFree g = true → (print g).head? ≠ some '/' := by
  induction g with
  | eps => intro _; simp [print]
  | lit c =>
    intro h
    have hc : c ≠ '/' := by simpa [slashFree] using h
    simp only [print, printLit]
    split <;> simp [hc]
  | any => intro _; simp [print]
  | star => intro _; simp [print]
  | cls neg items => intro _; simp [print]
  | seq a b iha ihb =>
    intro h; simp only [slashFree, Bool.and_eq_true] at h
    simp only [print]
    cases ha : print a with
    | nil => simpa using ihb h.2
    | cons c r => have := iha h.1; rw [ha] at this; simpa using this
  | alt a b iha _ =>
    intro h; simp only [slashFree, Bool.and_eq_true] at h
    simp only [print]
    cases ha : print a with
    | nil => simp
    | cons c r => have := iha h.1; rw [ha] at this; simpa using this
  | ext k p _ => intro _; cases k <;> simp [print, extChar]

theorem itsG_nil_of_print_nil (e : Emit) (cap : Capt) : ∀ (g : Pat) (as : Bool), print g = [] →
    e.its cap as g = [] := by
  intro g
  induction g with
  | eps => intro as _; rfl
  | lit c => intro as h; simp only [print, printLit] at h; split at h <;> simp at h
  | any => intro as h; simp [print] at h
  | star => intro as h; simp [print] at h
  | cls neg items => intro as h; simp [print] at h
  | seq p q ihp ihq =>
    intro as h
    simp only [print, List.append_eq_nil_iff] at h
    simp [Emit.its, ihp _ h.1, ihq _ h.2]
  | alt p q => intro as h; simp [print] at h
  | ext k b => intro as h; simp [print] at h

theorem itsG_WF (e : Emit) (cap : Capt) : ∀ (g : Pat) (b as : Bool), pp b g = true → WF false (e.its cap as g) := by
  intro g
  induction g with
  | eps => intro b as _; exact .nil
  | lit c => intro b as _; exact .re .nil
  | any => intro b as _; exact .re .nil
  | star => intro b as _; exact .re .nil
  | cls neg items => intro b as _; exact .re .nil
  | seq p q ihp ihq =>
    intro b as h
    simp only [pp, Bool.and_eq_true] at h
    exact (ihp _ _ h.1).append (ihq _ _ h.2)
  | alt p q ihp ihq =>
    intro b as h
    simp only [pp, Bool.and_eq_true] at h
    exact (ihp _ _ h.1.2).append (.bar (ihq _ _ h.2))
  | ext k body ih =>
    intro b as h
    simp only [pp, Bool.and_eq_true] at h
    exact .group (ih _ _ h.2) .nil

/-- `root` on one printed segment -/
theorem root_seg (cfg : Cfg) (h : PathX cfg) (drive : List Char → DriveInfo) (g : Pat)
    (hp : pp false g = true) (hsl : slashFree g = true) (hok : ok g [] = true) (ps : PS)
    (hi : Inv ps false false 0) :
    ∃ ps', root cfg drive (print g) ps [.empty] =
        .ok (ps', .re (Frag.pathTrail false) :: ((itsP cfg true g).reverse ++ [.empty])) ∧
      ps'.matchbase = false ∧ ps'.extmatchbase = false := by
  have hi' : Inv ps.setAfterStart true false 0 :=
    ⟨rfl, rfl, hi.inList, hi.invExt, hi.mb, hi.emb⟩
  obtain ⟨ps1, e1, hi1, _⟩ := RG_all cfg _ (pathSteps cfg h) g hp (by rw [scope_eq]; exact hsl)
    ((print g).length + 1) 0 [] ps.setAfterStart [.empty] true hi' hok (by omega)
  have hnt := ntok_le g
  obtain ⟨F2, hF2⟩ : ∃ F2, (print g).length + 1 - ntok g = F2 + 1 := ⟨(print g).length - ntok g, by omega⟩
  rw [hF2, rootLoop_end, List.append_nil] at e1
  refine ⟨ps1, ?_, hi1.mb, hi1.emb⟩
  have hhd : decide ((print g).head? = some '/') = false := by simpa using print_head g hsl
  rw [root_eq]
  unfold rootPre rootPost
  simp only [h.wdd, Bool.false_eq_true, ite_false, h.pathname, hhd, h.noAbs,
    h.realpath, Bool.and_false, ite_true, e1, cleanUp_zero cfg ps1 _ false hi1.invExt, h.win]

/-- the whole pass on one printed segment -/
theorem parseItems_seg (cfg : Cfg) (h : PathX cfg) (drive : List Char → DriveInfo) (g : Pat)
    (hp : pp false g = true) (hsl : slashFree g = true) (hok : ok g [] = true) (hne : print g ≠ []) :
    parseItems cfg drive (print g) =
      .ok { items := .empty :: (itsP cfg true g ++ [.re (Frag.pathTrail false)]),
            ci := !cfg.caseSensitive } := by
  unfold parseItems
  simp only [anchorStep, h.anchor, Bool.false_eq_true, ite_false]
  simp only [parsePrepend, h.matchbase, h.extmatchbase, Bool.or_self, Bool.false_eq_true, ite_false]
  unfold parseBody
  have hemp : (print g).isEmpty = false := by simpa using hne
  obtain ⟨ps', hr, hm, he⟩ := root_seg cfg h drive g hp hsl hok
    { matchbase := false, extmatchbase := false, globstar := cfg.globstar0 } ⟨rfl, rfl, rfl, rfl, rfl, rfl⟩
  simp only [print_ne_bs g, ite_false, hemp, Bool.false_eq_true, hr]
  simp [hm, he]

/-- items `'' X… _PATH_TRAIL` to the regex -/
theorem toRe_seg (cfg : Cfg) (h : PathX cfg) (g : Pat) (hp : pp false g = true) (hsl : slashFree g = true)
    (ci : Bool) :
    ∃ r, (Parsed.toRe { items := .empty :: (itsP cfg true g ++ [.re (Frag.pathTrail false)]), ci := ci }) = some r ∧
      Eqv r (wrapRe ci (compPath cfg.dot ⟨false, [.pat g], false⟩)) := by
  have hwf : WF false (Item.empty :: (itsP cfg true g ++ [.re (Frag.pathTrail false)])) :=
    .empty ((itsG_WF _ _ g false true hp).append (.re .nil))
  obtain ⟨r, hr⟩ := Option.isSome_iff_exists.mp (Parsed.toRe_isSome_of_WF ⟨_, ci⟩ hwf)
  refine ⟨r, hr, ?_⟩
  unfold Parsed.toRe at hr
  simp only [] at hr
  cases hin : Item.listToRe (2 * Item.sizeL (Item.empty :: (itsP cfg true g ++ [.re (Frag.pathTrail false)])) + 4)
      (Item.empty :: (itsP cfg true g ++ [.re (Frag.pathTrail false)])) with
  | none => simp [hin] at hr
  | some inner =>
    simp [hin] at hr
    subst hr
    obtain ⟨f', xs, _, hm, hx⟩ := listToRe_inv hin
    have hnb : HF.NoBar (Item.empty :: (itsP cfg true g ++ [.re (Frag.pathTrail false)])) :=
      HF.NoBar.cons rfl ((itsG_noBar _ _ g true hp).append (HF.NoBar.cons rfl HF.NoBar.nil))
    rw [HF.splitBars_noBar _ hnb] at hm
    simp only [List.mapM_cons, List.mapM_nil] at hm
    cases h1 : Item.seqToRe f' (Item.empty :: (itsP cfg true g ++ [.re (Frag.pathTrail false)])) with
    | none => simp [h1] at hm
    | some x =>
      simp [h1] at hm
      have hx' : inner = x := by rw [hx, ← hm]; rfl
      cases f' with
      | zero => simp [Item.seqToRe] at h1
      | succ f =>
        simp only [Item.seqToRe] at h1
        obtain ⟨f2, x2, hx2, he⟩ := (itsP_toRe cfg h g).1 hp (by rw [scope_eq]; exact hsl) true f _ x h1
        obtain ⟨f3, x3, _, hx3, hx23⟩ := seqToRe_re hx2
        rw [seqToRe_nil hx3] at hx23
        have e2 : Eqv x2 (Frag.pathTrail false) := by
          rw [hx23]; exact (Eqv.catE' _ _).trans (Eqv.cat_eps _)
        have : Eqv x (compPath cfg.dot ⟨false, [.pat g], false⟩) := by
          simp only [compPath, pathRe, sepIf, List.isEmpty_nil, if_true, Bool.false_eq_true, if_false]
          exact he.trans ((Eqv.refl _).cat e2)
        rw [hx']
        exact (Eqv.refl _).cat ((this.flags true ci).cat (Eqv.refl _))

/-- **Stage 1: pass_print for one path segment.**  For every negation-free, slash-free pattern `g`
    of the printable fragment (`pp false g`: literals, `?`, `*`, restricted brackets, nested
    `?( *( +( @(` groups with `|`) whose look-ahead conditions `ok` hold and whose printed form is
    not empty, the faithful port in path mode, run on `print g`, returns items that convert to a
    regex `Eqv`-equivalent to the tidy path compiler's. -/
theorem pass_print_seg (cfg : Cfg) (h : PathX cfg) (drive : List Char → DriveInfo) (g : Pat)
    (hp : pp false g = true) (hsl : slashFree g = true) (hok : ok g [] = true) (hne : print g ≠ []) :
    ∃ parsed r, parseItems cfg drive (print g) = .ok parsed ∧ parsed.toRe = some r ∧
      Eqv r (wrapRe (!cfg.caseSensitive) (compPath cfg.dot ⟨false, [.pat g], false⟩)) := by
  obtain ⟨r, hr, he⟩ := toRe_seg cfg h g hp hsl (!cfg.caseSensitive)
  exact ⟨_, r, parseItems_seg cfg h drive g hp hsl hok hne, hr, he⟩

/-! ## Part 5 (Stages 2 and 3): whole path patterns -/

/-- the printed form of the segments; `sb` = a separator is pending (as in `pathRe`) -/
def printSegs (tr : Bool) : List Seg → Bool → List Char
  | [], sb => if sb then ['/'] else []
  | .pat g :: rest, sb =>
    (if sb then ['/'] else []) ++ (print g ++ printSegs tr rest (if rest.isEmpty then tr else true))
  | .glob :: rest, sb =>
    (if sb then ['/'] else []) ++
      ('*' :: '*' :: ((if rest.isEmpty && !tr then [] else ['/']) ++ printSegs tr rest false))

/-- the printed form of a path pattern: segments joined by single separators -/
def printPath (pp : PathPat) : List Char := printSegs pp.trailing pp.segs pp.abs

/-- the globstar as the pass emits it (captured under `globstarCapture`) -/
def gstarRe (cfg : Cfg) : Re := if cfg.globstarCapture then .gcap (pGstar cfg.dot) else pGstar cfg.dot

/-- the items the pass pushes for the segments, in forward order (mirrors `pathRe`) -/
def segItems (cfg : Cfg) (tr : Bool) : List Seg → Bool → List Item
  | [], sb => if sb then [.re (Frag.sepPlus false)] else []
  | .pat g :: rest, sb =>
    (if sb then [.re (Frag.sepPlus false)] else []) ++
      (itsP cfg true g ++ segItems cfg tr rest (if rest.isEmpty then tr else true))
  | .glob :: rest, sb =>
    (if sb then [.re (Frag.needSep false)] else []) ++
      (.re (gstarRe cfg) :: .re (Frag.globstarDiv false) :: segItems cfg tr rest false)

/-- the printable scope of one segment -/
def segOK : Seg → Bool
  | .pat g => pp false g && slashFree g && ok g [] && !(print g).isEmpty
  | .glob => true

def Seg.isGlob : Seg → Bool
  | .glob => true
  | .pat _ => false

/-- `ok` only looks at whether the text that follows begins with `(` or `*` -/
theorem ok_head : ∀ (g : Pat) (r r' : List Char),
    (r.head? = some '(' ↔ r'.head? = some '(') → (r.head? = some '*' ↔ r'.head? = some '*') →
    ok g r = ok g r' := by
  intro g
  induction g with
  | any => intro r r' h1 _; simp only [ok]; rw [Bool.eq_iff_iff]; simp [h1]
  | star => intro r r' h1 h2; simp only [ok]; rw [Bool.eq_iff_iff]; simp [h1, h2]
  | seq a b iha ihb =>
    intro r r' h1 h2
    simp only [ok]
    rw [ihb r r' h1 h2]
    congr 1
    apply iha
    · cases print b <;> simp [h1]
    · cases print b <;> simp [h2]
  | alt a b iha ihb =>
    intro r r' h1 h2
    simp only [ok]
    rw [ihb r r' h1 h2]
    congr 1
    apply iha <;> simp
  | ext k p ih => intro r r' _ _; simp only [ok]; apply ih <;> simp
  | _ => intro r r' _ _; rfl

theorem ok_sep (g : Pat) (t : List Char) (ht : t = [] ∨ ∃ u, t = '/' :: u) : ok g t = ok g [] := by
  apply ok_head
  · rcases ht with rfl | ⟨u, rfl⟩ <;> simp
  · rcases ht with rfl | ⟨u, rfl⟩ <;> simp

theorem consumePathSep_id (cfg : Cfg) (h : PathX cfg) (it : It) (hr : it.rest.head? ≠ some '/') :
    consumePathSep cfg it = it := by
  obtain ⟨i, r⟩ := it
  simp [consumePathSep, h.bslash, consumeUnix, dropWhileCount_ne r i hr]

theorem slash_not_ext' : '/' ∉ extTypes := by decide

/-- a single separator at top level -/
theorem slash_step (cfg : Cfg) (h : PathX cfg) (F i : Nat) (rest : List Char) (ps : PS) (cur : List Item)
    {as : Bool} (hi : Inv ps as false 0) (hr : rest.head? ≠ some '/') :
    ∃ ps', rootLoop cfg (F+1) ⟨i, '/' :: rest⟩ ps cur =
        rootLoop cfg F ⟨i+1, rest⟩ ps' (.re (Frag.sepPlus false) :: cur) ∧
      Inv ps' true false 0 ∧ ps'.globstar = ps.globstar := by
  obtain ⟨ps1, hi1, hg1, e⟩ := rootTok_plainG cfg '/' ⟨i+1, rest⟩ ps cur hi (fun hx => absurd hx slash_not_ext')
  refine ⟨({ ps1.setStartDir with matchbase := false } : PS).updateDirState, ?_, ?_, ?_⟩
  · rw [rootLoop_cons, e]
    have hz : ps1.setStartDir.invExt = 0 := hi1.invExt
    simp only [HF.rootPlain, show ('/' : Char) ≠ '.' by decide, show ('/' : Char) ≠ '*' by decide,
      show ('/' : Char) ≠ '?' by decide, if_false, if_true, h.pathname,
      cleanUp_zero cfg ps1.setStartDir cur false hz, consumePathSep_id cfg h ⟨i+1, rest⟩ hr, h.win]
  · obtain ⟨h1, h2, h3, h4, h5, h6⟩ := hi1
    exact ⟨by simp [PS.updateDirState, PS.setStartDir, PS.setAfterStart],
      by simp [PS.updateDirState, PS.setStartDir, PS.setAfterStart],
      by simp [PS.setStartDir, h3], by simp [PS.setStartDir, h4],
      by simp [PS.updateDirState, PS.setStartDir, PS.setAfterStart],
      by simp [PS.updateDirState, PS.setStartDir, PS.setAfterStart, h6]⟩
  · simp [PS.setStartDir, hg1]

theorem hsStar_glob (cfg : Cfg) (h : PathX cfg) (ps : PS) (ha : ps.afterStart = true) :
    (hsStar cfg ps).2 = pGstar cfg.dot := by
  unfold hsStar pGstar
  simp only [h.pathname, ha, h.win, if_true, Bool.true_and]
  cases cfg.dot <;> rfl

/-- the items after a globstar has been recognised: the last item is overwritten -/
def globCur (cfg : Cfg) (last : Item) (before : List Item) : List Item :=
  .re (Frag.globstarDiv false) ::
    (if last.isEmpty then .re (gstarRe cfg) :: before
     else .re (gstarRe cfg) :: .re (Frag.needSep false) :: before)

/-- `**` at the end of the pattern -/
theorem handleStar_glob_end (cfg : Cfg) (h : PathX cfg) (i : Nat) (ps : PS) (last : Item) (before : List Item)
    (hi : Inv ps true false 0) (hg : ps.globstar = true) (hl : last.isDiv false = false) :
    handleStar cfg ps ⟨i, ['*']⟩ (last :: before) =
      (ps.resetDirTrack.setStartDir, ⟨i+1, []⟩, globCur cfg last before) := by
  rw [handleStar_eq, hsStar_glob cfg h ps hi.afterStart]
  have hsel : hsSel cfg ps ⟨i, ['*']⟩ (cfg.pathname && cfg.globstarCapture) =
      (true, cfg.globstarCapture, ⟨i+1, []⟩, ps) := by
    unfold hsSel
    simp only [hi.afterStart, hg, hi.inList, Bool.not_false, Bool.and_self, if_true, It.next, h.pathname,
      Bool.true_and, bne_self_eq_false, Bool.false_eq_true, if_false]
    split <;> rfl
  rw [hsel]
  unfold hsBody
  simp only [h.win, hl, Bool.not_true, Bool.false_eq_true, if_false,
    consumePathSep_id cfg h ⟨i+1, []⟩ (by simp), globCur, gstarRe]

/-- `**/` -/
theorem handleStar_glob_sep (cfg : Cfg) (h : PathX cfg) (i : Nat) (t : List Char) (ps : PS) (last : Item)
    (before : List Item) (hi : Inv ps true false 0) (hg : ps.globstar = true)
    (hl : last.isDiv false = false) (ht : t.head? ≠ some '/') :
    handleStar cfg ps ⟨i, '*' :: '/' :: t⟩ (last :: before) =
      (({ ps with matchbase := false } : PS).resetDirTrack.setStartDir, ⟨i+2, t⟩, globCur cfg last before) := by
  rw [handleStar_eq, hsStar_glob cfg h ps hi.afterStart]
  have hsel : hsSel cfg ps ⟨i, '*' :: '/' :: t⟩ (cfg.pathname && cfg.globstarCapture) =
      (true, cfg.globstarCapture, ⟨i+2, t⟩, { ps with matchbase := false }) := by
    unfold hsSel
    simp only [hi.afterStart, hg, hi.inList, Bool.not_false, Bool.and_self, if_true, It.next, h.pathname,
      Bool.true_and, bne_self_eq_false, Bool.false_eq_true, if_false]
    split <;> simp
  rw [hsel]
  unfold hsBody
  simp only [h.win, hl, Bool.not_true, Bool.false_eq_true, if_false,
    consumePathSep_id cfg h ⟨i+2, t⟩ ht, globCur, gstarRe]

theorem inv_afterGlob {ps : PS} (hi : Inv ps true false 0) :
    Inv ps.resetDirTrack.setStartDir.updateDirState true false 0 := by
  obtain ⟨h1, h2, h3, h4, h5, h6⟩ := hi
  exact ⟨by simp [PS.updateDirState, PS.setStartDir, PS.setAfterStart, PS.resetDirTrack],
    by simp [PS.updateDirState, PS.setStartDir, PS.setAfterStart, PS.resetDirTrack],
    by simp [PS.setStartDir, PS.resetDirTrack, h3], by simp [PS.setStartDir, PS.resetDirTrack, h4],
    by simp [PS.updateDirState, PS.setStartDir, PS.setAfterStart, PS.resetDirTrack, h5],
    by simp [PS.updateDirState, PS.setStartDir, PS.setAfterStart, PS.resetDirTrack, h6]⟩

/-- a final `**` at top level, at a segment start, under GLOBSTAR -/
theorem glob_step_end (cfg : Cfg) (h : PathX cfg) (F i : Nat) (ps : PS) (last : Item) (before : List Item)
    (hi : Inv ps true false 0) (hg : ps.globstar = true) (hl : last.isDiv false = false) :
    ∃ ps', rootLoop cfg (F+1) ⟨i, ['*', '*']⟩ ps (last :: before) =
        rootLoop cfg F ⟨i+2, []⟩ ps' (globCur cfg last before) ∧
      Inv ps' true false 0 ∧ ps'.globstar = true := by
  obtain ⟨ps1, hi1, hg1, e⟩ := rootTok_plainG cfg '*' ⟨i+1, ['*']⟩ ps (last :: before) hi (fun _ => by simp)
  refine ⟨ps1.resetDirTrack.setStartDir.updateDirState, ?_, inv_afterGlob hi1, ?_⟩
  · rw [rootLoop_cons, e]
    simp only [HF.rootPlain, show ('*' : Char) ≠ '.' by decide, if_false, if_true,
      handleStar_glob_end cfg h (i+1) ps1 last before hi1 (hg1.trans hg) hl]
  · simp [PS.setStartDir, PS.resetDirTrack, hg1, hg]

/-- `**/` at top level, at a segment start, under GLOBSTAR -/
theorem glob_step_sep (cfg : Cfg) (h : PathX cfg) (F i : Nat) (t : List Char) (ps : PS) (last : Item)
    (before : List Item) (hi : Inv ps true false 0) (hg : ps.globstar = true)
    (hl : last.isDiv false = false) (ht : t.head? ≠ some '/') :
    ∃ ps', rootLoop cfg (F+1) ⟨i, '*' :: '*' :: '/' :: t⟩ ps (last :: before) =
        rootLoop cfg F ⟨i+3, t⟩ ps' (globCur cfg last before) ∧
      Inv ps' true false 0 ∧ ps'.globstar = true := by
  obtain ⟨ps1, hi1, hg1, e⟩ := rootTok_plainG cfg '*' ⟨i+1, '*' :: '/' :: t⟩ ps (last :: before) hi
    (fun _ => by simp)
  have hi2 : Inv ({ ps1 with matchbase := false } : PS) true false 0 :=
    ⟨hi1.afterStart, hi1.dirStart, hi1.inList, hi1.invExt, rfl, hi1.emb⟩
  refine ⟨({ ps1 with matchbase := false } : PS).resetDirTrack.setStartDir.updateDirState, ?_,
    inv_afterGlob hi2, ?_⟩
  · rw [rootLoop_cons, e]
    simp only [HF.rootPlain, show ('*' : Char) ≠ '.' by decide, if_false, if_true,
      handleStar_glob_sep cfg h (i+1) t ps1 last before hi1 (hg1.trans hg) hl ht]
  · simp [PS.setStartDir, PS.resetDirTrack, hg1, hg]

theorem printSegs_sep (tr : Bool) (segs : List Seg) :
    printSegs tr segs true = '/' :: printSegs tr segs false := by
  cases segs with
  | nil => rfl
  | cons s rest => cases s <;> simp [printSegs]

theorem segOK_pat {g : Pat} (h : segOK (.pat g) = true) :
    pp false g = true ∧ slashFree g = true ∧ ok g [] = true ∧ print g ≠ [] := by
  simp only [segOK, Bool.and_eq_true, Bool.not_eq_eq_eq_not, Bool.not_true, List.isEmpty_eq_false_iff] at h
  exact ⟨h.1.1.1, h.1.1.2, h.1.2, h.2⟩

theorem head_append_ne {a b : List Char} (hne : a ≠ []) (hh : a.head? ≠ some '/') :
    (a ++ b).head? ≠ some '/' := by
  cases a with
  | nil => exact absurd rfl hne
  | cons c r => simpa using hh

theorem printSegs_false_head (tr : Bool) (segs : List Seg) (hok : ∀ s ∈ segs, segOK s = true) :
    (printSegs tr segs false).head? ≠ some '/' := by
  cases segs with
  | nil => simp [printSegs]
  | cons s rest =>
    cases s with
    | pat g =>
      obtain ⟨_, h2, _, h4⟩ := segOK_pat (hok (.pat g) (by simp))
      simp only [printSegs, Bool.false_eq_true, if_false, List.nil_append]
      exact head_append_ne h4 (print_head g h2)
    | glob => simp [printSegs]

theorem tail_shape (tr : Bool) (rest : List Seg) :
    printSegs tr rest (if rest.isEmpty then tr else true) = [] ∨
      ∃ u, printSegs tr rest (if rest.isEmpty then tr else true) = '/' :: u := by
  cases rest with
  | nil => cases tr <;> simp [printSegs]
  | cons s r =>
    right
    simp only [List.isEmpty_cons, Bool.false_eq_true, if_false, printSegs_sep]
    exact ⟨_, rfl⟩

theorem isDiv_sepPlus : (Item.re (Frag.sepPlus false)).isDiv false = false := by decide
theorem isDiv_empty : Item.empty.isDiv false = false := rfl

theorem rootLoop_nil (cfg : Cfg) (F i : Nat) (ps : PS) (cur : List Item) (hF : 1 ≤ F) :
    rootLoop cfg F ⟨i, []⟩ ps cur = (ps, cur) := by
  obtain ⟨F', rfl⟩ : ∃ F', F = F' + 1 := ⟨F - 1, by omega⟩
  exact rootLoop_end cfg F' i ps cur

/-- **the loop of `root` on the printed segments** -/
theorem segs_loop (cfg : Cfg) (h : PathX cfg) (tr : Bool) :
    ∀ (segs : List Seg) (sb : Bool) (F i : Nat) (ps : PS) (cur : List Item) (as : Bool),
      (∀ s ∈ segs, segOK s = true) → noGG segs = true →
      (sb = false → segs.head?.map Seg.isGlob ≠ some true) →
      (segs.any Seg.isGlob = true → ps.globstar = true) →
      Inv ps as false 0 → (sb = false → segs ≠ [] → as = true) →
      (printSegs tr segs sb).length + 1 ≤ F →
      ∃ ps', rootLoop cfg F ⟨i, printSegs tr segs sb⟩ ps cur =
          (ps', (segItems cfg tr segs sb).reverse ++ cur) ∧
        ps'.invExt = 0 ∧ ps'.matchbase = false ∧ ps'.extmatchbase = false := by
  intro segs
  induction segs with
  | nil =>
    intro sb F i ps cur as _ _ _ _ hi _ hF
    cases sb with
    | false =>
      simp only [printSegs, Bool.false_eq_true, if_false, List.length_nil] at hF ⊢
      exact ⟨ps, by rw [rootLoop_nil cfg F i ps cur (by omega)]; simp [segItems], hi.invExt, hi.mb, hi.emb⟩
    | true =>
      simp only [printSegs, if_true, List.length_cons, List.length_nil] at hF ⊢
      obtain ⟨F', rfl⟩ : ∃ F', F = F' + 1 := ⟨F - 1, by omega⟩
      obtain ⟨ps1, e1, hi1, _⟩ := slash_step cfg h F' i [] ps cur hi (by simp)
      exact ⟨ps1, by rw [e1, rootLoop_nil cfg F' _ ps1 _ (by omega)]; simp [segItems],
        hi1.invExt, hi1.mb, hi1.emb⟩
  | cons s rest ih =>
    intro sb F i ps cur as hok hgg hsb hgs hi has hF
    have hokr : ∀ s ∈ rest, segOK s = true := fun s hs => hok s (List.mem_cons_of_mem _ hs)
    cases s with
    | pat g =>
      obtain ⟨hpp, hsl, hokg, hne⟩ := segOK_pat (hok (.pat g) (by simp))
      have hggr : noGG rest = true := by simpa [noGG] using hgg
      have hgsr : ∀ ps2 : PS, ps2.globstar = ps.globstar → rest.any Seg.isGlob = true → ps2.globstar = true := by
        intro ps2 e hr
        rw [e]; exact hgs (by simp [List.any_cons, hr])
      -- the part common to both values of `sb`
      have core : ∀ (F1 i1 : Nat) (ps1 : PS) (cur1 : List Item), Inv ps1 true false 0 →
          ps1.globstar = ps.globstar →
          (print g ++ printSegs tr rest (if rest.isEmpty then tr else true)).length + 1 ≤ F1 →
          ∃ ps', rootLoop cfg F1 ⟨i1, print g ++ printSegs tr rest (if rest.isEmpty then tr else true)⟩ ps1 cur1 =
              (ps', (segItems cfg tr rest (if rest.isEmpty then tr else true)).reverse ++
                ((itsP cfg true g).reverse ++ cur1)) ∧
            ps'.invExt = 0 ∧ ps'.matchbase = false ∧ ps'.extmatchbase = false := by
        intro F1 i1 ps1 cur1 hi1 hg1 hF1
        simp only [List.length_append] at hF1
        have hnt := ntok_le g
        obtain ⟨ps2, e2, hi2, hg2⟩ := RG_all cfg _ (pathSteps cfg h) g hpp (by rw [scope_eq]; exact hsl)
          F1 i1 (printSegs tr rest (if rest.isEmpty then tr else true)) ps1 cur1 true hi1
          (by rw [ok_sep g _ (tail_shape tr rest)]; exact hokg) (by omega)
        obtain ⟨ps3, e3, h3⟩ := ih (if rest.isEmpty then tr else true) (F1 - ntok g) (i1 + (print g).length)
          ps2 ((itsP cfg true g).reverse ++ cur1) (true && g.isEmpty) hokr hggr
          (by
            intro hx
            cases rest with
            | nil => simp
            | cons a b => simp at hx)
          (hgsr ps2 (hg2.trans hg1)) hi2
          (by
            intro hx hr
            cases rest with
            | nil => exact absurd rfl hr
            | cons a b => simp at hx)
          (by omega)
        exact ⟨ps3, by rw [e2, e3], h3⟩
      cases sb with
      | false =>
        have has' : as = true := has rfl (by simp)
        subst has'
        simp only [printSegs, Bool.false_eq_true, if_false, List.nil_append] at hF ⊢
        obtain ⟨ps', e, h'⟩ := core F i ps cur hi rfl hF
        refine ⟨ps', ?_, h'⟩
        rw [e]; simp [segItems]
      | true =>
        simp only [printSegs, if_true, List.cons_append, List.nil_append, List.length_cons] at hF ⊢
        obtain ⟨F', rfl⟩ : ∃ F', F = F' + 1 := ⟨F - 1, by omega⟩
        obtain ⟨ps1, e1, hi1, hg1⟩ := slash_step cfg h F' i
          (print g ++ printSegs tr rest (if rest.isEmpty then tr else true)) ps cur hi
          (head_append_ne hne (print_head g hsl))
        obtain ⟨ps', e, h'⟩ := core F' (i+1) ps1 (.re (Frag.sepPlus false) :: cur) hi1 hg1 (by omega)
        refine ⟨ps', ?_, h'⟩
        rw [e1, e]; simp [segItems]
    | glob =>
      have hsbt : sb = true := by
        cases sb with
        | true => rfl
        | false => exact absurd (by simp [Seg.isGlob]) (hsb rfl)
      subst hsbt
      have hg : ps.globstar = true := hgs (by simp [Seg.isGlob])
      have hggr : noGG rest = true ∧ rest.head?.map Seg.isGlob ≠ some true := by
        simp only [noGG, Bool.and_eq_true] at hgg
        refine ⟨hgg.2, ?_⟩
        cases rest with
        | nil => simp
        | cons a b => cases a <;> simp_all [Seg.isGlob]
      simp only [printSegs, if_true, List.cons_append, List.nil_append, List.length_cons] at hF ⊢
      obtain ⟨F', rfl⟩ : ∃ F', F = F' + 1 := ⟨F - 1, by omega⟩
      obtain ⟨ps1, e1, hi1, hg1⟩ := slash_step cfg h F' i
        ('*' :: '*' :: ((if (rest.isEmpty && !tr) = true then [] else ['/']) ++ printSegs tr rest false))
        ps cur hi (by simp)
      have hg1' : ps1.globstar = true := hg1.trans hg
      obtain ⟨F'', rfl⟩ : ∃ F'', F' = F'' + 1 := ⟨F' - 1, by omega⟩
      have fin : ∀ (i2 : Nat) (ps2 : PS), Inv ps2 true false 0 → ps2.globstar = true →
          (printSegs tr rest false).length + 1 ≤ F'' →
          ∃ ps', rootLoop cfg F'' ⟨i2, printSegs tr rest false⟩ ps2
              (globCur cfg (.re (Frag.sepPlus false)) cur) =
              (ps', (segItems cfg tr rest false).reverse ++ globCur cfg (.re (Frag.sepPlus false)) cur) ∧
            ps'.invExt = 0 ∧ ps'.matchbase = false ∧ ps'.extmatchbase = false := by
        intro i2 ps2 hi2 hg2 hF2
        exact ih false F'' i2 ps2 _ true hokr hggr.1 (fun _ => hggr.2) (fun _ => hg2) hi2 (fun _ _ => rfl) hF2
      by_cases hend : (rest.isEmpty && !tr) = true
      · simp only [hend, if_true, List.nil_append] at hF e1 ⊢
        have hre : rest = [] := by
          simp only [Bool.and_eq_true, List.isEmpty_iff] at hend; exact hend.1
        subst hre
        simp only [printSegs, Bool.false_eq_true, if_false] at hF e1 ⊢
        obtain ⟨ps2, e2, hi2, hg2⟩ := glob_step_end cfg h F'' (i+1) ps1 (.re (Frag.sepPlus false)) cur hi1 hg1'
          isDiv_sepPlus
        obtain ⟨ps', e, h'⟩ := fin (i+1+2) ps2 hi2 hg2 (by simp [printSegs] at hF ⊢; omega)
        refine ⟨ps', ?_, h'⟩
        simp only [printSegs, Bool.false_eq_true, if_false] at e
        rw [e1, e2, e]
        simp [segItems, globCur, Item.isEmpty]
      · simp only [hend, Bool.false_eq_true, if_false, List.cons_append, List.nil_append, List.length_cons] at hF e1 ⊢
        obtain ⟨ps2, e2, hi2, hg2⟩ := glob_step_sep cfg h F'' (i+1) (printSegs tr rest false) ps1
          (.re (Frag.sepPlus false)) cur hi1 hg1' isDiv_sepPlus (printSegs_false_head tr rest hokr)
        obtain ⟨ps', e, h'⟩ := fin (i+1+3) ps2 hi2 hg2 (by omega)
        refine ⟨ps', ?_, h'⟩
        rw [e1, e2, e]
        simp [segItems, globCur, Item.isEmpty]


theorem ih_apply (cfg : Cfg) (h : PathX cfg) (tr : Bool) (rest : List Seg) (F i : Nat) (ps : PS)
    (cur : List Item) (hok : ∀ s ∈ rest, segOK s = true) (hgg : noGG rest = true)
    (hh : rest.head?.map Seg.isGlob ≠ some true) (hg : ps.globstar = true) (hi : Inv ps true false 0)
    (hF : (printSegs tr rest false).length + 1 ≤ F) :
    ∃ ps', rootLoop cfg F ⟨i, printSegs tr rest false⟩ ps cur =
        (ps', (segItems cfg tr rest false).reverse ++ cur) ∧
      ps'.invExt = 0 ∧ ps'.matchbase = false ∧ ps'.extmatchbase = false :=
  segs_loop cfg h tr rest false F i ps cur true hok hgg (fun _ => hh) (fun _ => hg) hi (fun _ _ => rfl) hF

/-- the pattern begins with a globstar: `_handle_star` overwrites the initial `''` -/
def leadGlob (segs : List Seg) (sb : Bool) : Bool := !sb && (segs.head?.map Seg.isGlob == some true)

/-- the bottom of the item stack once the loop is over -/
def baseItems (segs : List Seg) (sb : Bool) : List Item := if leadGlob segs sb then [] else [.empty]

/-- the loop of `root` on a whole printed path pattern, started on `['']` -/
theorem path_loop (cfg : Cfg) (h : PathX cfg) (tr : Bool) (segs : List Seg) (sb : Bool) (ps : PS)
    (hok : ∀ s ∈ segs, segOK s = true) (hgg : noGG segs = true)
    (hgs : segs.any Seg.isGlob = true → ps.globstar = true) (hi : Inv ps true false 0) :
    ∃ ps', rootLoop cfg ((printSegs tr segs sb).length + 1) ⟨0, printSegs tr segs sb⟩ ps [.empty] =
        (ps', (segItems cfg tr segs sb).reverse ++ baseItems segs sb) ∧
      ps'.invExt = 0 ∧ ps'.matchbase = false ∧ ps'.extmatchbase = false := by
  by_cases hl : leadGlob segs sb = true
  · -- `**…` at the very beginning
    have hsb : sb = false := by
      cases sb with
      | false => rfl
      | true => simp [leadGlob] at hl
    subst hsb
    cases segs with
    | nil => simp [leadGlob] at hl
    | cons s rest =>
      cases s with
      | pat g => simp [leadGlob, Seg.isGlob] at hl
      | glob =>
        have hokr : ∀ s ∈ rest, segOK s = true := fun s hs => hok s (List.mem_cons_of_mem _ hs)
        have hg : ps.globstar = true := hgs (by simp [Seg.isGlob])
        have hggr : noGG rest = true ∧ rest.head?.map Seg.isGlob ≠ some true := by
          simp only [noGG, Bool.and_eq_true] at hgg
          refine ⟨hgg.2, ?_⟩
          cases rest with
          | nil => simp
          | cons a b => cases a <;> simp_all [Seg.isGlob]
        have fin : ∀ (F i2 : Nat) (ps2 : PS), Inv ps2 true false 0 → ps2.globstar = true →
            (printSegs tr rest false).length + 1 ≤ F →
            ∃ ps', rootLoop cfg F ⟨i2, printSegs tr rest false⟩ ps2 (globCur cfg .empty []) =
                (ps', (segItems cfg tr rest false).reverse ++ globCur cfg .empty []) ∧
              ps'.invExt = 0 ∧ ps'.matchbase = false ∧ ps'.extmatchbase = false := by
          intro F i2 ps2 hi2 hg2 hF2
          exact ih_apply cfg h tr rest F i2 ps2 _ hokr hggr.1 hggr.2 hg2 hi2 hF2
        simp only [printSegs, Bool.false_eq_true, if_false, List.nil_append, baseItems, hl, if_true,
          List.append_nil]
        by_cases hend : (rest.isEmpty && !tr) = true
        · simp only [hend, if_true, List.nil_append]
          have hre : rest = [] := by
            simp only [Bool.and_eq_true, List.isEmpty_iff] at hend; exact hend.1
          subst hre
          simp only [printSegs, Bool.false_eq_true, if_false, List.length_cons, List.length_nil]
          obtain ⟨ps2, e2, hi2, hg2⟩ := glob_step_end cfg h 2 0 ps .empty [] hi hg isDiv_empty
          obtain ⟨ps', e, h'⟩ := fin 2 (0+2) ps2 hi2 hg2 (by simp [printSegs])
          refine ⟨ps', ?_, h'⟩
          simp only [printSegs, Bool.false_eq_true, if_false] at e
          rw [e2, e]
          simp [segItems, globCur, Item.isEmpty]
        · simp only [hend, Bool.false_eq_true, if_false, List.cons_append, List.nil_append, List.length_cons]
          obtain ⟨ps2, e2, hi2, hg2⟩ := glob_step_sep cfg h ((printSegs tr rest false).length + 1 + 1 + 1) 0
            (printSegs tr rest false) ps .empty [] hi hg isDiv_empty (printSegs_false_head tr rest hokr)
          obtain ⟨ps', e, h'⟩ := fin ((printSegs tr rest false).length + 1 + 1 + 1) (0+3) ps2 hi2 hg2 (by omega)
          refine ⟨ps', ?_, h'⟩
          rw [e2, e]
          simp [segItems, globCur, Item.isEmpty]
  · have hl' : leadGlob segs sb = false := by simpa using hl
    obtain ⟨ps', e, h'⟩ := segs_loop cfg h tr segs sb _ 0 ps [.empty] true hok hgg
      (by
        intro hsb hx
        subst hsb
        simp [leadGlob, hx] at hl')
      hgs hi (fun _ _ => rfl) (Nat.le_refl _)
    exact ⟨ps', by rw [e]; simp [baseItems, hl'], h'⟩

theorem printSegs_head_iff (tr : Bool) (segs : List Seg) (sb : Bool) (hok : ∀ s ∈ segs, segOK s = true) :
    (printSegs tr segs sb).head? = some '/' ↔ sb = true := by
  cases sb with
  | true => simp [printSegs_sep]
  | false => simpa using printSegs_false_head tr segs hok

theorem printSegs_ne_nil (tr : Bool) (segs : List Seg) (sb : Bool) (hok : ∀ s ∈ segs, segOK s = true)
    (hwf : segs = [] → sb = true) : printSegs tr segs sb ≠ [] := by
  cases segs with
  | nil => simp [printSegs, hwf rfl]
  | cons s rest =>
    cases s with
    | pat g =>
      obtain ⟨_, _, _, h4⟩ := segOK_pat (hok (.pat g) (by simp))
      simp [printSegs, h4]
    | glob => simp [printSegs]

theorem printSegs_ne_bs (tr : Bool) (segs : List Seg) (sb : Bool) (hok : ∀ s ∈ segs, segOK s = true) :
    printSegs tr segs sb ≠ ['\\'] := by
  cases sb with
  | true => rw [printSegs_sep]; simp
  | false =>
    cases segs with
    | nil => simp [printSegs]
    | cons s rest =>
      cases s with
      | pat g =>
        obtain ⟨_, _, _, h4⟩ := segOK_pat (hok (.pat g) (by simp))
        simp only [printSegs, Bool.false_eq_true, if_false, List.nil_append]
        intro he
        cases hp : print g with
        | nil => exact h4 hp
        | cons c r =>
          rw [hp] at he
          simp only [List.cons_append, List.cons.injEq, List.append_eq_nil_iff] at he
          obtain ⟨rfl, rfl, _⟩ := he
          exact print_ne_bs g hp
      | glob => simp [printSegs]

/-- `root` on a printed path pattern -/
theorem root_path (cfg : Cfg) (h : PathX cfg) (drive : List Char → DriveInfo) (tr : Bool) (segs : List Seg)
    (sb : Bool) (hok : ∀ s ∈ segs, segOK s = true) (hgg : noGG segs = true) (ps : PS)
    (hgs : segs.any Seg.isGlob = true → ps.globstar = true) (hi : Inv ps false false 0) :
    ∃ ps', root cfg drive (printSegs tr segs sb) ps [.empty] =
        .ok (ps', .re (Frag.pathTrail false) :: ((segItems cfg tr segs sb).reverse ++ baseItems segs sb)) ∧
      ps'.matchbase = false ∧ ps'.extmatchbase = false := by
  have hhd : decide ((printSegs tr segs sb).head? = some '/') = sb := by
    cases sb with
    | true => simp [printSegs_sep]
    | false => simpa using printSegs_false_head tr segs hok
  rw [root_eq]
  unfold rootPre rootPost
  simp only [h.wdd, Bool.false_eq_true, ite_false, h.pathname, Bool.true_and, hhd, h.noAbs, Bool.false_and,
    h.realpath, Bool.and_false]
  cases sb with
  | true =>
    have hi' : Inv ({ ps.setAfterStart with matchbase := false, extmatchbase := false } : PS) true false 0 :=
      ⟨rfl, rfl, hi.inList, hi.invExt, rfl, rfl⟩
    obtain ⟨ps1, e1, h0, hm, he⟩ := path_loop cfg h tr segs true _ hok hgg
      (by simpa [PS.setAfterStart] using hgs) hi'
    refine ⟨ps1, ?_, hm, he⟩
    simp only [if_true, e1, cleanUp_zero cfg ps1 _ false h0, h.win]
  | false =>
    have hi' : Inv ps.setAfterStart true false 0 := ⟨rfl, rfl, hi.inList, hi.invExt, hi.mb, hi.emb⟩
    obtain ⟨ps1, e1, h0, hm, he⟩ := path_loop cfg h tr segs false _ hok hgg
      (by simpa [PS.setAfterStart] using hgs) hi'
    refine ⟨ps1, ?_, hm, he⟩
    simp only [Bool.false_eq_true, if_false, if_true, e1, cleanUp_zero cfg ps1 _ false h0, h.win]

/-- the whole pass on a printed path pattern -/
theorem parseItems_path (cfg : Cfg) (h : PathX cfg) (drive : List Char → DriveInfo) (tr : Bool)
    (segs : List Seg) (sb : Bool) (hok : ∀ s ∈ segs, segOK s = true) (hgg : noGG segs = true)
    (hwf : segs = [] → sb = true) (hgs : segs.any Seg.isGlob = true → cfg.globstar0 = true) :
    parseItems cfg drive (printSegs tr segs sb) =
      .ok { items := baseItems segs sb ++ (segItems cfg tr segs sb ++ [.re (Frag.pathTrail false)]),
            ci := !cfg.caseSensitive } := by
  unfold parseItems
  simp only [anchorStep, h.anchor, Bool.false_eq_true, ite_false]
  simp only [parsePrepend, h.matchbase, h.extmatchbase, Bool.or_self, Bool.false_eq_true, ite_false]
  unfold parseBody
  have hemp : (printSegs tr segs sb).isEmpty = false := by simpa using printSegs_ne_nil tr segs sb hok hwf
  obtain ⟨ps', hr, hm, he⟩ := root_path cfg h drive tr segs sb hok hgg
    { matchbase := false, extmatchbase := false, globstar := cfg.globstar0 } hgs ⟨rfl, rfl, rfl, rfl, rfl, rfl⟩
  simp only [printSegs_ne_bs tr segs sb hok, ite_false, hemp, Bool.false_eq_true, hr]
  have hb : (baseItems segs sb).reverse = baseItems segs sb := by
    unfold baseItems; split <;> rfl
  simp [hm, he, hb]

/-! ### from the items of a path pattern to `pathRe` -/

theorem Eqv.gcap_l (a : Re) : Eqv (.gcap a) a := fun _ _ _ => by simp only [Re.M]

theorem gstarRe_eqv (cfg : Cfg) : Eqv (gstarRe cfg) (pGstar cfg.dot) := by
  unfold gstarRe; split
  · exact Eqv.gcap_l _
  · exact Eqv.refl _

theorem seqToRe_re_eqv {f : Nat} {r : Re} {rest : List Item} {x : Re}
    (hx : Item.seqToRe f (.re r :: rest) = some x) :
    ∃ f' x', Item.seqToRe f' rest = some x' ∧ Eqv x (.cat r x') := by
  obtain ⟨f', x', _, h2, h3⟩ := seqToRe_re hx
  exact ⟨f', x', h2, by rw [h3]; exact Eqv.catE' _ _⟩

theorem segItems_toRe (cfg : Cfg) (h : PathX cfg) (tr : Bool) : ∀ (segs : List Seg) (sb : Bool),
    (∀ s ∈ segs, segOK s = true) → ∀ (f : Nat) (x : Re),
    Item.seqToRe f (segItems cfg tr segs sb ++ [.re (Frag.pathTrail false)]) = some x →
    Eqv x (pathRe cfg.dot tr segs sb) := by
  have last : ∀ (f : Nat) (x : Re), Item.seqToRe f [.re (Frag.pathTrail false)] = some x →
      Eqv x (Frag.pathTrail false) := by
    intro f x hx
    obtain ⟨f', x', h2, e⟩ := seqToRe_re_eqv hx
    rw [seqToRe_nil h2] at e
    exact e.trans (Eqv.cat_eps _)
  intro segs
  induction segs with
  | nil =>
    intro sb _ f x hx
    cases sb with
    | false => simpa [segItems, pathRe, sepIf] using last f x (by simpa [segItems] using hx)
    | true =>
      simp only [segItems, if_true, List.cons_append, List.nil_append] at hx
      obtain ⟨f', x', h2, e⟩ := seqToRe_re_eqv hx
      simp only [pathRe, sepIf, if_true]
      exact e.trans ((Eqv.refl _).cat (last f' x' h2))
  | cons s rest ih =>
    intro sb hok f x hx
    have hokr : ∀ s ∈ rest, segOK s = true := fun s hs => hok s (List.mem_cons_of_mem _ hs)
    cases s with
    | pat g =>
      obtain ⟨hpp, hsl, _, _⟩ := segOK_pat (hok (.pat g) (by simp))
      have core : ∀ (f : Nat) (x : Re),
          Item.seqToRe f (itsP cfg true g ++
            (segItems cfg tr rest (if rest.isEmpty then tr else true) ++ [.re (Frag.pathTrail false)])) = some x →
          Eqv x (.cat (compSeg cfg.dot true g) (pathRe cfg.dot tr rest (if rest.isEmpty then tr else true))) := by
        intro f x hx
        obtain ⟨f1, x1, h1, e1⟩ := (itsP_toRe cfg h g).1 hpp (by rw [scope_eq]; exact hsl) true f _ x hx
        exact e1.trans ((Eqv.refl _).cat (ih _ hokr f1 x1 h1))
      cases sb with
      | false =>
        simp only [segItems, Bool.false_eq_true, if_false, List.nil_append, List.append_assoc] at hx
        simpa [pathRe, sepIf] using core f x hx
      | true =>
        simp only [segItems, if_true, List.cons_append, List.nil_append, List.append_assoc] at hx
        obtain ⟨f', x', h2, e⟩ := seqToRe_re_eqv hx
        simp only [pathRe, sepIf, if_true]
        exact e.trans ((Eqv.refl _).cat (core f' x' h2))
    | glob =>
      have core : ∀ (f : Nat) (x : Re),
          Item.seqToRe f (.re (gstarRe cfg) :: .re (Frag.globstarDiv false) ::
            (segItems cfg tr rest false ++ [.re (Frag.pathTrail false)])) = some x →
          Eqv x (.cat (pGstar cfg.dot) (.cat (Frag.globstarDiv false) (pathRe cfg.dot tr rest false))) := by
        intro f x hx
        obtain ⟨f1, x1, h1, e1⟩ := seqToRe_re_eqv hx
        obtain ⟨f2, x2, h2, e2⟩ := seqToRe_re_eqv h1
        exact e1.trans ((gstarRe_eqv cfg).cat (e2.trans ((Eqv.refl _).cat (ih false hokr f2 x2 h2))))
      cases sb with
      | false =>
        simp only [segItems, Bool.false_eq_true, if_false, List.nil_append, List.cons_append] at hx
        simpa [pathRe, needSepIf] using core f x hx
      | true =>
        simp only [segItems, if_true, List.cons_append, List.nil_append] at hx
        obtain ⟨f', x', h2, e⟩ := seqToRe_re_eqv hx
        simp only [pathRe, needSepIf, if_true]
        exact e.trans ((Eqv.refl _).cat (core f' x' h2))

theorem segItems_WF (cfg : Cfg) (tr : Bool) : ∀ (segs : List Seg) (sb : Bool),
    (∀ s ∈ segs, segOK s = true) → WF false (segItems cfg tr segs sb) := by
  intro segs
  induction segs with
  | nil => intro sb _; cases sb <;> simp only [segItems, Bool.false_eq_true, if_false, if_true]
           · exact .nil
           · exact .re .nil
  | cons s rest ih =>
    intro sb hok
    have hokr : ∀ s ∈ rest, segOK s = true := fun s hs => hok s (List.mem_cons_of_mem _ hs)
    cases s with
    | pat g =>
      obtain ⟨hpp, _, _, _⟩ := segOK_pat (hok (.pat g) (by simp))
      have := (itsG_WF (pathEmit cfg) (HF.capOf cfg) g false true hpp).append
        (ih (if rest.isEmpty then tr else true) hokr)
      cases sb <;> simp only [segItems, Bool.false_eq_true, if_false, if_true, List.nil_append, List.cons_append]
      · exact this
      · exact .re this
    | glob =>
      cases sb <;> simp only [segItems, Bool.false_eq_true, if_false, if_true, List.nil_append, List.cons_append]
      · exact .re (.re (ih _ hokr))
      · exact .re (.re (.re (ih _ hokr)))

theorem segItems_noBar (cfg : Cfg) (tr : Bool) : ∀ (segs : List Seg) (sb : Bool),
    (∀ s ∈ segs, segOK s = true) → HF.NoBar (segItems cfg tr segs sb) := by
  intro segs
  induction segs with
  | nil => intro sb _; cases sb <;> simp only [segItems, Bool.false_eq_true, if_false, if_true]
           · exact HF.NoBar.nil
           · exact HF.NoBar.cons rfl HF.NoBar.nil
  | cons s rest ih =>
    intro sb hok
    have hokr : ∀ s ∈ rest, segOK s = true := fun s hs => hok s (List.mem_cons_of_mem _ hs)
    cases s with
    | pat g =>
      obtain ⟨hpp, _, _, _⟩ := segOK_pat (hok (.pat g) (by simp))
      have := (itsG_noBar (pathEmit cfg) (HF.capOf cfg) g true hpp).append
        (ih (if rest.isEmpty then tr else true) hokr)
      cases sb <;> simp only [segItems, Bool.false_eq_true, if_false, if_true, List.nil_append, List.cons_append]
      · exact this
      · exact HF.NoBar.cons rfl this
    | glob =>
      cases sb <;> simp only [segItems, Bool.false_eq_true, if_false, if_true, List.nil_append, List.cons_append]
      · exact HF.NoBar.cons rfl (HF.NoBar.cons rfl (ih _ hokr))
      · exact HF.NoBar.cons rfl (HF.NoBar.cons rfl (HF.NoBar.cons rfl (ih _ hokr)))

theorem toRe_path (cfg : Cfg) (h : PathX cfg) (tr : Bool) (segs : List Seg) (sb : Bool)
    (hok : ∀ s ∈ segs, segOK s = true) (ci : Bool) :
    ∃ r, (Parsed.toRe { items := baseItems segs sb ++ (segItems cfg tr segs sb ++ [.re (Frag.pathTrail false)]),
                        ci := ci }) = some r ∧
      Eqv r (wrapRe ci (pathRe cfg.dot tr segs sb)) := by
  have hwf0 : WF false (segItems cfg tr segs sb ++ [.re (Frag.pathTrail false)]) :=
    (segItems_WF cfg tr segs sb hok).append (.re .nil)
  have hnb0 : HF.NoBar (segItems cfg tr segs sb ++ [.re (Frag.pathTrail false)]) :=
    (segItems_noBar cfg tr segs sb hok).append (HF.NoBar.cons rfl HF.NoBar.nil)
  have hwf : WF false (baseItems segs sb ++ (segItems cfg tr segs sb ++ [.re (Frag.pathTrail false)])) := by
    unfold baseItems; split
    · exact hwf0
    · exact .empty hwf0
  have hnb : HF.NoBar (baseItems segs sb ++ (segItems cfg tr segs sb ++ [.re (Frag.pathTrail false)])) := by
    unfold baseItems; split
    · exact hnb0
    · exact HF.NoBar.cons rfl hnb0
  obtain ⟨r, hr⟩ := Option.isSome_iff_exists.mp (Parsed.toRe_isSome_of_WF ⟨_, ci⟩ hwf)
  refine ⟨r, hr, ?_⟩
  unfold Parsed.toRe at hr
  simp only [] at hr
  generalize hL : baseItems segs sb ++ (segItems cfg tr segs sb ++ [.re (Frag.pathTrail false)]) = L at hr hnb
  cases hin : Item.listToRe (2 * Item.sizeL L + 4) L with
  | none => simp [hin] at hr
  | some inner =>
    simp [hin] at hr
    subst hr
    obtain ⟨f', xs, _, hm, hx⟩ := listToRe_inv hin
    rw [HF.splitBars_noBar _ hnb] at hm
    simp only [List.mapM_cons, List.mapM_nil] at hm
    cases h1 : Item.seqToRe f' L with
    | none => simp [h1] at hm
    | some x =>
      simp [h1] at hm
      have hx' : inner = x := by rw [hx, ← hm]; rfl
      have hE : Eqv x (pathRe cfg.dot tr segs sb) := by
        subst hL
        unfold baseItems at h1
        split at h1
        · exact segItems_toRe cfg h tr segs sb hok f' x h1
        · cases f' with
          | zero => simp [Item.seqToRe] at h1
          | succ f =>
            simp only [List.cons_append, List.nil_append, Item.seqToRe] at h1
            exact segItems_toRe cfg h tr segs sb hok f x h1
      rw [hx']
      exact (Eqv.refl _).cat ((hE.flags true ci).cat (Eqv.refl _))

/-- the scope of the path theorem: every file-name segment is printable (`segOK`), no two
    adjacent globstars, not the empty relative pattern -/
def pathOK (pp : PathPat) : Bool :=
  pp.segs.all segOK && noGG pp.segs && (!pp.segs.isEmpty || pp.abs)

/-- **pass_print for path mode (Stages 1–3).**  For every path pattern `pp` whose file-name
    segments are negation-free, slash-free printable patterns (`segOK`), without adjacent
    globstars, and — when it has a globstar — under GLOBSTAR (`cfg.globstar0`), the faithful port
    run on `printPath pp` (segments joined by single separators, optional leading / trailing
    separator, `**` for a globstar) returns items that convert to a regex `Eqv`-equivalent to the
    tidy path compiler's `compPath`. -/
theorem pass_print_path (cfg : Cfg) (h : PathX cfg) (drive : List Char → DriveInfo) (pp : PathPat)
    (hok : pathOK pp = true) (hgs : pp.segs.any Seg.isGlob = true → cfg.globstar0 = true) :
    ∃ parsed r, parseItems cfg drive (printPath pp) = .ok parsed ∧ parsed.toRe = some r ∧
      Eqv r (wrapRe (!cfg.caseSensitive) (compPath cfg.dot pp)) := by
  simp only [pathOK, Bool.and_eq_true, List.all_eq_true, Bool.or_eq_true, Bool.not_eq_eq_eq_not, Bool.not_true,
    List.isEmpty_eq_false_iff] at hok
  obtain ⟨⟨h1, h2⟩, h3⟩ := hok
  have hwf : pp.segs = [] → pp.abs = true := by
    intro he
    rcases h3 with h3 | h3
    · exact absurd he h3
    · exact h3
  obtain ⟨r, hr, he⟩ := toRe_path cfg h pp.trailing pp.segs pp.abs h1 (!cfg.caseSensitive)
  exact ⟨_, r, parseItems_path cfg h drive pp.trailing pp.segs pp.abs h1 h2 hwf hgs, hr, he⟩

/-- the semantic form -/
theorem pass_print_path_sem (cfg : Cfg) (h : PathX cfg) (drive : List Char → DriveInfo) (pp : PathPat)
    (hok : pathOK pp = true) (hgs : pp.segs.any Seg.isGlob = true → cfg.globstar0 = true) :
    ∃ parsed r, parseItems cfg drive (printPath pp) = .ok parsed ∧ parsed.toRe = some r ∧
      ∀ s, r.FullMatch s ↔ (wrapRe (!cfg.caseSensitive) (compPath cfg.dot pp)).FullMatch s := by
  obtain ⟨parsed, r, h1, h2, h3⟩ := pass_print_path cfg h drive pp hok hgs
  exact ⟨parsed, r, h1, h2, fun s => h3.fullMatch s⟩

/-! ## stage corollaries, the sampled configurations, non-vacuity -/

/-- **Stage 2**: several file-name segments joined by `/`, optional leading / trailing `/`;
    `cfg.globstar0` arbitrary -/
theorem pass_print_globfree (cfg : Cfg) (h : PathX cfg) (drive : List Char → DriveInfo) (pp : PathPat)
    (hok : pathOK pp = true) (hng : pp.segs.any Seg.isGlob = false) :
    ∃ parsed r, parseItems cfg drive (printPath pp) = .ok parsed ∧ parsed.toRe = some r ∧
      Eqv r (wrapRe (!cfg.caseSensitive) (compPath cfg.dot pp)) :=
  pass_print_path cfg h drive pp hok (by rw [hng]; intro hx; cases hx)

/-- the configurations the driver command `tidypath` samples: PATHNAME | FORCEUNIX | EXTGLOB
    (+ DOTGLOB, + GLOBSTAR) -/
def cfgP (dot gs : Bool) : Cfg := Cfg.ofFlags false (Flags.ofNat (PathTidy.flagWord dot true gs))

theorem pathX_cfgP (dot gs : Bool) : PathX (cfgP dot gs) := by
  cases dot <;> cases gs <;> exact
    { pathname := by decide, unix := by decide, bslash := by decide, wdd := by decide, anchor := by decide,
      matchbase := by decide, extmatchbase := by decide, noAbs := by decide, extend := by decide,
      realpath := by decide, nodotdir := by decide, isBytes := by decide }

theorem cfgP_dot (dot gs : Bool) : (cfgP dot gs).dot = dot := by cases dot <;> cases gs <;> decide
theorem cfgP_gs (dot gs : Bool) : (cfgP dot gs).globstar0 = gs := by cases dot <;> cases gs <;> decide
theorem cfgP_ci (dot gs : Bool) : (!(cfgP dot gs).caseSensitive) = false := by
  cases dot <;> cases gs <;> decide

/-- **the link `tidyPathAgrees` samples, proved**: on every printed path pattern in scope,
    `PathTidy.faithful` (the faithful port under PATHNAME|FORCEUNIX|EXTGLOB [+DOTGLOB] [+GLOBSTAR])
    produces a regex `Eqv`-equivalent to `PathTidy.tidy`'s `wrapRe false (compPath dot pp)` -/
theorem faithful_print (dot gs : Bool) (pp : PathPat) (hok : pathOK pp = true)
    (hgs : pp.segs.any Seg.isGlob = true → gs = true) :
    ∃ r, PathTidy.faithful dot true gs (printPath pp) = some r ∧ Eqv r (wrapRe false (compPath dot pp)) := by
  obtain ⟨parsed, r, h1, h2, h3⟩ := pass_print_path (cfgP dot gs) (pathX_cfgP dot gs) (fun _ => default) pp hok
    (by rw [cfgP_gs]; exact hgs)
  rw [cfgP_dot, cfgP_ci] at h3
  refine ⟨r, ?_, h3⟩
  unfold PathTidy.faithful
  have : parseItems (Cfg.ofFlags false (Flags.ofNat (PathTidy.flagWord dot true gs))) (fun _ => default)
      (printPath pp) = .ok parsed := h1
  rw [this]
  exact h2

/-! ### examples -/

/-- `/a*.?\(/**/[!xa-f[:digit:]]*z/@(a|?(b)c)[!x]*(d?||\|)/` -/
def exPath : PathPat := ⟨true, [.pat ex1, .glob, .pat ex2, .pat ex3], true⟩
/-- `**/a?` -/
def exLead : PathPat := ⟨false, [.glob, .pat (.seq (.lit 'a') .any)], false⟩
/-- `*.[ch]/x/**` -/
def exTail : PathPat :=
  ⟨false, [.pat (.seq .star (.seq (.lit '.') (.cls false [.chr 'c', .chr 'h']))), .pat (.lit 'x'), .glob], false⟩

theorem printPath_ex :
    String.ofList (printPath exPath) = "/a*.?\\(/**/[!xa-f[:digit:]]*z/@(a|?(b)c)[!x]*(d?||\\|)/" ∧
    String.ofList (printPath exLead) = "**/a?" ∧ String.ofList (printPath exTail) = "*.[ch]/x/**" ∧
    String.ofList (printPath ⟨true, [], false⟩) = "/" ∧
    String.ofList (printPath ⟨false, [.glob], true⟩) = "**/" := by decide +kernel

/-- the printer inverts the strict path reader (on the examples) -/
theorem parsePath_print_ex :
    ([exPath, exLead, exTail, ⟨true, [], false⟩, ⟨false, [.glob], true⟩].all fun pp =>
      match parsePath (PathTidy.ctxOf false true true) (printPath pp) with
      | some q => q.abs == pp.abs && q.segs == pp.segs && (q.trailing == pp.trailing || pp.segs.isEmpty)
      | none => false) = true := by decide +kernel

/-- non-vacuity: the hypotheses of each stage hold on non-trivial patterns (Stage 1: `ex3`, a
    segment with nested groups and a bracket; Stage 2: three segments, leading and trailing `/`;
    Stage 3: globstars in the middle, at the beginning, at the end) -/
theorem nonvacuous_path :
    (pp false ex3 && slashFree ex3 && ok ex3 [] && !(print ex3).isEmpty) = true ∧
    (pathOK ⟨true, [.pat ex1, .pat ex2, .pat ex3], true⟩ &&
      !(([.pat ex1, .pat ex2, .pat ex3] : List Seg).any Seg.isGlob)) = true ∧
    (pathOK exPath && pathOK exLead && pathOK exTail && pathOK ⟨true, [], false⟩ &&
      pathOK ⟨false, [.glob], true⟩) = true := by decide +kernel

set_option maxRecDepth 100000 in
/-- cross-check with the sampled agreement test (`tidyPathAgrees`, K1' for path mode): on the
    examples it says what the theorem says -/
theorem tidyPathAgrees_ex :
    ([false, true].all fun dot =>
      [exPath, exLead, exTail, ⟨true, [], false⟩, ⟨false, [.glob], true⟩].all fun pp =>
        tidyPathAgrees dot true true (printPath pp) == some true) = true := by decide +kernel

/-! ### every hypothesis is needed -/

def codeM (dot gs : Bool) (p : List Char) (s : String) : Option Bool :=
  (PathTidy.faithful dot true gs p).map fun r => r.fullmatch s.toList
def tidyM (dot : Bool) (pp : PathPat) (s : String) : Bool :=
  (wrapRe false (compPath dot pp)).fullmatch s.toList

/-- `print g ≠ []`: the empty pattern matches only the empty name, `compPath` of an empty
    segment also a lone separator -/
theorem nonempty_needed :
    printPath ⟨false, [.pat .eps], false⟩ = [] ∧
    codeM false false (printPath ⟨false, [.pat .eps], false⟩) "/" = some false ∧
    tidyM false ⟨false, [.pat .eps], false⟩ "/" = true := by decide +kernel

/-- `slashFree`: in path mode a bracket with a `/` is not a bracket -/
theorem slashFree_needed :
    String.ofList (printPath ⟨false, [.pat (.cls false [.chr 'a', .chr '/'])], false⟩) = "[a/]" ∧
    codeM false false (printPath ⟨false, [.pat (.cls false [.chr 'a', .chr '/'])], false⟩) "a" = some false ∧
    tidyM false ⟨false, [.pat (.cls false [.chr 'a', .chr '/'])], false⟩ "a" = true := by decide +kernel

/-- GLOBSTAR: without it `**` is a `*` -/
theorem globstar_needed :
    codeM false false (printPath ⟨false, [.glob], false⟩) "a/b" = some false ∧
    tidyM false ⟨false, [.glob], false⟩ "a/b" = true ∧
    codeM false true (printPath ⟨false, [.glob], false⟩) "a/b" = some true := by decide +kernel

/-- `segs = [] → abs`: the empty relative pattern prints to the empty string -/
theorem wf_needed :
    codeM false true (printPath ⟨false, [], false⟩) "/" = some false ∧
    tidyM false ⟨false, [], false⟩ "/" = true := by decide +kernel

/-! ## Round trip: the path printer inverts the strict path reader `parsePath`

  so a printed path pattern *is* a pattern of the documented path grammar whose strict reading is
  `pp` (segments in the file-name reader's normal form `PP.nf`).  The reader rejects a piece that
  ends in a backslash (it cannot tell `\\/` from `\/`), hence `noEndBs`. -/

section RoundTrip
open Grammar

def segText : Seg → List Char
  | .pat g => print g
  | .glob => ['*', '*']

theorem posix_noSlash (n : PosixName) : '/' ∉ n.name.toList := by cases n <;> decide

theorem printCls_noSlash (m : SCls) (h : memNoSl m = true) : '/' ∉ printCls m := by
  cases m with
  | chr c =>
    have : c ≠ '/' := by simpa [memNoSl] using h
    simp [printCls, Ne.symm this]
  | range lo hi =>
    have : lo ≠ '/' ∧ hi ≠ '/' := by simpa [memNoSl] using h
    simp [printCls, Ne.symm this.1, Ne.symm this.2]
  | posix n =>
    have := posix_noSlash n
    simp only [printCls, List.mem_append, not_or]
    exact ⟨⟨by decide, this⟩, by decide⟩

theorem print_noSlash : ∀ g : Pat, slashFree g = true → '/' ∉ print g := by
  intro g
  induction g with
  | eps => intro _; simp [print]
  | lit c =>
    intro h
    have hc : c ≠ '/' := by simpa [slashFree] using h
    simp only [print, printLit]
    split <;> simp [Ne.symm hc]
  | any => intro _; simp [print]
  | star => intro _; simp [print]
  | cls neg items =>
    intro h
    simp only [slashFree, List.all_eq_true] at h
    simp only [print, List.mem_cons, List.mem_append, List.mem_flatMap, not_or]
    refine ⟨by decide, ⟨?_, ?_⟩, by decide⟩
    · cases neg <;> simp
    · rintro ⟨m, hm, hx⟩
      exact printCls_noSlash m (h m hm) hx
  | seq a b iha ihb =>
    intro h; simp only [slashFree, Bool.and_eq_true] at h
    simp only [print, List.mem_append, not_or]
    exact ⟨iha h.1, ihb h.2⟩
  | alt a b iha ihb =>
    intro h; simp only [slashFree, Bool.and_eq_true] at h
    simp only [print, List.mem_append, List.mem_cons, not_or]
    exact ⟨iha h.1, by decide, ihb h.2⟩
  | ext k p ih =>
    intro h
    simp only [print, List.mem_cons, List.mem_append, not_or]
    exact ⟨by cases k <;> decide, by decide, ih h, by decide⟩

/-- a printed pattern that begins with a star followed by a star violates `ok` -/
theorem ok_star_star : ∀ (g : Pat) (t rest : List Char), print g = '*' :: t →
    (t ++ rest).head? = some '*' → ok g rest = false := by
  intro g
  induction g with
  | eps => intro t rest h; simp [print] at h
  | lit c =>
    intro t rest h
    simp only [print, printLit] at h
    split at h
    · simp at h
    · rename_i hc
      simp only [List.cons.injEq] at h
      rw [h.1] at hc
      simp [escSet] at hc
  | any => intro t rest h; simp [print] at h
  | star =>
    intro t rest h hh
    simp only [print, List.cons.injEq, true_and] at h
    subst h
    simp only [List.nil_append] at hh
    simp [ok, hh]
  | cls neg items => intro t rest h; simp [print] at h
  | seq a b iha ihb =>
    intro t rest h hh
    simp only [print] at h
    simp only [ok]
    cases ha : print a with
    | nil =>
      rw [ha, List.nil_append] at h
      rw [ihb t rest h hh]; simp
    | cons c r =>
      rw [ha, List.cons_append, List.cons.injEq] at h
      obtain ⟨rfl, rfl⟩ := h
      rw [iha r (print b ++ rest) ha (by simpa using hh)]; simp
  | alt a b iha _ =>
    intro t rest h hh
    simp only [print] at h
    simp only [ok]
    cases ha : print a with
    | nil => rw [ha] at h; simp at h
    | cons c r =>
      rw [ha, List.cons_append, List.cons.injEq] at h
      obtain ⟨rfl, rfl⟩ := h
      rw [iha r ('|' :: (print b ++ rest)) ha (by simpa using hh)]; simp
  | ext k p _ =>
    intro t rest h hh
    simp only [print, List.cons.injEq] at h
    obtain ⟨_, rfl⟩ := h
    simp at hh

theorem print_ne_glob (g : Pat) (hok : ok g [] = true) :
    print g ≠ ['*', '*'] ∧ print g ≠ ['*', '*', '*'] := by
  constructor
  · intro h
    have := ok_star_star g ['*'] [] h rfl
    rw [hok] at this; cases this
  · intro h
    have := ok_star_star g ['*', '*'] [] h rfl
    rw [hok] at this; cases this

/-- the last character of a printed segment is not a backslash -/
def noEndBs : Seg → Bool
  | .pat g => (print g).getLast? != some '\\'
  | .glob => true

theorem segText_props (s : Seg) (hok : segOK s = true) :
    '/' ∉ segText s ∧ segText s ≠ [] := by
  cases s with
  | pat g =>
    obtain ⟨_, h2, _, h4⟩ := segOK_pat hok
    exact ⟨print_noSlash g h2, h4⟩
  | glob => exact ⟨by decide, by decide⟩

theorem printSegs_unfold (tr : Bool) (s : Seg) (rest : List Seg) :
    printSegs tr (s :: rest) false =
      segText s ++ (if rest.isEmpty && !tr then [] else '/' :: printSegs tr rest false) := by
  cases s with
  | pat g =>
    simp only [printSegs, Bool.false_eq_true, if_false, List.nil_append, segText]
    cases rest with
    | nil => cases tr <;> simp [printSegs]
    | cons a b => simp [printSegs_sep]
  | glob =>
    simp only [printSegs, Bool.false_eq_true, if_false, List.nil_append, segText]
    split
    · rename_i hc
      have hre : rest = [] := by simp only [Bool.and_eq_true, List.isEmpty_iff] at hc; exact hc.1
      subst hre
      simp [printSegs]
    · simp

theorem getLast?_append_cons {α : Type} (l : List α) (c : α) (r : List α) :
    (l ++ c :: r).getLast? = (c :: r).getLast? := by
  rw [List.getLast?_append, List.getLast?_cons]; rfl

/-- the non-empty pieces of the printed pattern are the printed segments -/
theorem pieces_printSegs (tr : Bool) : ∀ (segs : List Seg) (sb : Bool), (∀ s ∈ segs, segOK s = true) →
    (cutAtSlash (printSegs tr segs sb)).filter (fun p => !p.isEmpty) = segs.map segText := by
  intro segs
  induction segs with
  | nil => intro sb _; cases sb <;> simp [printSegs, cutAtSlash]
  | cons s rest ih =>
    intro sb hok
    have hokr : ∀ s ∈ rest, segOK s = true := fun s hs => hok s (List.mem_cons_of_mem _ hs)
    obtain ⟨h1, h2⟩ := segText_props s (hok s (by simp))
    have hne : (segText s).isEmpty = false := by simpa using h2
    have core : (cutAtSlash (printSegs tr (s :: rest) false)).filter (fun p => !p.isEmpty) =
        (s :: rest).map segText := by
      rw [printSegs_unfold]
      split
      · rename_i hc
        have hre : rest = [] := by simp only [Bool.and_eq_true, List.isEmpty_iff] at hc; exact hc.1
        subst hre
        simp [cutAtSlash_last _ h1, hne]
      · rw [cutAtSlash_append_slash, cutAtSlash_last _ h1, List.filter_append, ih false hokr]
        simp [hne]
    cases sb with
    | false => exact core
    | true => rw [printSegs_sep, cutAtSlash_cons_slash, List.filter_cons]; simpa using core

/-- no piece of the printed pattern ends in a backslash -/
theorem rawBs_printSegs (tr : Bool) : ∀ (segs : List Seg) (sb : Bool), (∀ s ∈ segs, segOK s = true) →
    (∀ s ∈ segs, noEndBs s = true) →
    (cutAtSlash (printSegs tr segs sb)).any (fun p => p.getLast? = some '\\') = false := by
  intro segs
  induction segs with
  | nil => intro sb _ _; cases sb <;> simp [printSegs, cutAtSlash]
  | cons s rest ih =>
    intro sb hok hbs
    have hokr : ∀ s ∈ rest, segOK s = true := fun s hs => hok s (List.mem_cons_of_mem _ hs)
    have hbsr : ∀ s ∈ rest, noEndBs s = true := fun s hs => hbs s (List.mem_cons_of_mem _ hs)
    obtain ⟨h1, _⟩ := segText_props s (hok s (by simp))
    have hl : (segText s).getLast? ≠ some '\\' := by
      have := hbs s (by simp)
      cases s with
      | pat g => simpa [noEndBs, segText] using this
      | glob => decide
    have core : (cutAtSlash (printSegs tr (s :: rest) false)).any (fun p => p.getLast? = some '\\') = false := by
      rw [printSegs_unfold]
      split
      · simp [cutAtSlash_last _ h1, hl]
      · rw [cutAtSlash_append_slash, cutAtSlash_last _ h1, List.any_append, ih false hokr hbsr]
        simp [hl]
    cases sb with
    | false => exact core
    | true => rw [printSegs_sep, cutAtSlash_cons_slash, List.any_cons]; simpa using core

theorem mapM_segText (f : List Char → Option Seg) : ∀ (segs : List Seg),
    (∀ s ∈ segs, f (segText s) = some s) → (segs.map segText).mapM f = some segs := by
  intro segs
  induction segs with
  | nil => intro _; rfl
  | cons s rest ih =>
    intro h
    simp only [List.map_cons, List.mapM_cons, h s (by simp),
      ih (fun x hx => h x (List.mem_cons_of_mem _ hx))]
    rfl

theorem merge_noGG : ∀ (segs : List Seg), noGG segs = true →
    segs.foldr (fun (s : Seg) (acc : List Seg) => match s, acc with
      | Seg.glob, Seg.glob :: _ => acc
      | _, _ => s :: acc) [] = segs := by
  intro segs
  induction segs with
  | nil => intro _; rfl
  | cons s rest ih =>
    intro h
    cases s with
    | pat g =>
      have hr : noGG rest = true := by simpa [noGG] using h
      simp only [List.foldr_cons, ih hr]
    | glob =>
      simp only [noGG, Bool.and_eq_true] at h
      simp only [List.foldr_cons, ih h.2]
      cases rest with
      | nil => rfl
      | cons a b => cases a <;> simp_all

theorem getLast_printSegs (tr : Bool) : ∀ (segs : List Seg) (sb : Bool), (∀ s ∈ segs, segOK s = true) →
    segs ≠ [] → ((printSegs tr segs sb).getLast? = some '/' ↔ tr = true) := by
  intro segs
  induction segs with
  | nil => intro sb _ h; exact absurd rfl h
  | cons s rest ih =>
    intro sb hok _
    have hokr : ∀ s ∈ rest, segOK s = true := fun s hs => hok s (List.mem_cons_of_mem _ hs)
    obtain ⟨h1, h2⟩ := segText_props s (hok s (by simp))
    have core : (printSegs tr (s :: rest) false).getLast? = some '/' ↔ tr = true := by
      rw [printSegs_unfold]
      cases rest with
      | nil =>
        cases tr with
        | true => simp [printSegs]
        | false =>
          simp only [List.isEmpty_nil, Bool.not_false, Bool.and_self, if_true, List.append_nil]
          constructor
          · intro hl
            have := List.mem_of_getLast? hl
            exact absurd this h1
          · intro hx; cases hx
      | cons a b =>
        simp only [List.isEmpty_cons, Bool.false_and, Bool.false_eq_true, if_false]
        have hne : printSegs tr (a :: b) false ≠ [] := printSegs_ne_nil tr (a :: b) false hokr (by simp)
        rw [getLast?_append_cons, List.getLast?_cons_of_ne_nil hne]
        exact ih false hokr (by simp)
    cases sb with
    | false => exact core
    | true =>
      rw [printSegs_sep]
      have hne : printSegs tr (s :: rest) false ≠ [] := printSegs_ne_nil tr (s :: rest) false hok (by simp)
      rw [List.getLast?_cons_of_ne_nil hne]
      exact core

/-- **the path printer inverts the strict path reader** -/
theorem parsePath_print (ctx : PCtx) (pp : PathPat) (hext : ctx.ext = true) (hmb : ctx.matchbase = false)
    (hok : pathOK pp = true)
    (hnf : ∀ g, Seg.pat g ∈ pp.segs → nf false g = true)         -- segments in the reader's normal form
    (hbs : ∀ s ∈ pp.segs, noEndBs s = true)                      -- no piece ends in a backslash
    (hgs : pp.segs.any Seg.isGlob = true → ctx.globstar = true)  -- `**` is a globstar
    (htr : pp.segs = [] → pp.trailing = false) :                -- `/` alone has no trailing separator
    parsePath ctx (printPath pp) = some pp := by
  simp only [pathOK, Bool.and_eq_true, List.all_eq_true, Bool.or_eq_true, Bool.not_eq_eq_eq_not, Bool.not_true,
    List.isEmpty_eq_false_iff] at hok
  obtain ⟨⟨h1, h2⟩, h3⟩ := hok
  have hwf : pp.segs = [] → pp.abs = true := by
    intro he
    rcases h3 with h3 | h3
    · exact absurd he h3
    · exact h3
  obtain ⟨ab, segs, tr⟩ := pp
  simp only at h1 h2 hwf hnf hbs hgs htr
  have hne : (printSegs tr segs ab).isEmpty = false := by simpa using printSegs_ne_nil tr segs ab h1 hwf
  have hmap : (segs.map segText).mapM (fun p =>
      if (ctx.globstar || ctx.globstarlong) && p = ['*', '*'] then some Seg.glob
      else if ctx.globstarlong && p = ['*', '*', '*'] then some Seg.glob
      else (Grammar.parsePat ctx.ext p).map Seg.pat) = some segs := by
    apply mapM_segText
    intro s hs
    cases s with
    | glob =>
      have : ctx.globstar = true := hgs (List.any_eq_true.mpr ⟨.glob, hs, rfl⟩)
      simp [segText, this]
    | pat g =>
      obtain ⟨_, _, hk, _⟩ := segOK_pat (h1 _ hs)
      obtain ⟨n1, n2⟩ := print_ne_glob g hk
      simp only [segText, n1, n2, decide_false, Bool.and_false, Bool.false_eq_true, if_false, hext,
        parsePat_print g (hnf g hs) hk, Option.map_some]
  unfold parsePath printPath
  simp only [hne, Bool.false_eq_true, if_false, rawBs_printSegs tr segs ab h1 hbs,
    pieces_printSegs tr segs ab h1, hmap, hmb, Bool.false_and]
  congr 1
  have hab : decide ((printSegs tr segs ab).head? = some '/') = ab := by
    cases ab with
    | true => simp [printSegs_sep]
    | false => simpa using printSegs_false_head tr segs h1
  have htl : (decide ((printSegs tr segs ab).getLast? = some '/') && decide ((printSegs tr segs ab).length > 1)) = tr := by
    by_cases hs : segs = []
    · subst hs
      have : ab = true := hwf rfl
      subst this
      rw [htr rfl]
      rfl
    · have h4 := getLast_printSegs tr segs ab h1 hs
      cases tr with
      | false =>
        have : ¬ (printSegs false segs ab).getLast? = some '/' := fun hx => by
          have := h4.mp hx; cases this
        simp [this]
      | true =>
        have hl : (printSegs true segs ab).getLast? = some '/' := h4.mpr rfl
        have hlen : (printSegs true segs ab).length > 1 := by
          cases segs with
          | nil => exact absurd rfl hs
          | cons s rest =>
            obtain ⟨_, hq⟩ := segText_props s (h1 s (by simp))
            have hq' : 1 ≤ (segText s).length := by
              cases hx : segText s with
              | nil => exact absurd hx hq
              | cons c r => simp
            cases ab with
            | true =>
              rw [printSegs_sep, printSegs_unfold]
              simp only [List.length_cons, List.length_append]; omega
            | false =>
              rw [printSegs_unfold]
              have : (rest.isEmpty && !true) = false := by simp
              simp only [this, Bool.false_eq_true, if_false, List.length_append, List.length_cons]
              omega
        simp [hl, hlen]
  rw [hab, htl]
  congr 1
  exact merge_noGG segs h2
end RoundTrip

end PPP
end WcModel

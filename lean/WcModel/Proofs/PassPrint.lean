import WcModel.Proofs.HiddenGroup
import WcModel.Proofs.ParseWF
import WcModel.Proofs.Comp
import WcModel.Spec.Grammar
/-
  "pass_print": the faithful port of the parser (`parseItems`), run on the PRINTED form of a
  grammar pattern, yields the regex of the tidy compiler `comp` — up to `PP.Eqv`, an equivalence
  the matching relation `Re.M` cannot see through (association of `.cat`, `.eps` units,
  `catE`/`catE'`, `(?:…)`/capture markers, how a bracket member is spelt).

  Setting: fnmatch mode, Unix rules, EXTMATCH (`FnX cfg` = `FnEntry cfg` + `cfg.extend = true`);
  `cfg.dot`, the case mode, `cfg.capture` (TRANSLATE), `cfg.isBytes`, `cfg.globstar0` are arbitrary.

  MAIN THEOREMS
    `pass_print`          (all stages)  g in `ppTop`, `ok g []`  ⊢
          ∃ parsed r, parseItems cfg drive (print g) = .ok parsed ∧ parsed.toRe = some r ∧
                      Eqv r (wrap (!cfg.caseSensitive) (comp cfg.isBytes cfg.dot true g))
    `pass_print_flat`     Stage 1: `flat g` (literals — escaped when magic —, `?`, single `*`)
    `pass_print_negfree`  Stages 2–3: `pp false g` (+ restricted brackets `clsOK`, nested
                          `?( *( +( @(` groups with `|`)
    `pass_print_sem`      the same with `∀ s, r.FullMatch s ↔ (wrap … (comp …)).FullMatch s`
    `sequence_print`      Stage 2's lemma: `_sequence` on a printed bracket
  (Stage 4 = one `!(…)` on the top-level spine followed by literal text = `Pat.c01Scope`.)
  `Properties/C01faithful.lean` turns this into C01 on the faithful port.

  PLAN
  Part A  `Eqv` and its congruence rules; `Eqv.fullMatch`.
  Part B  the printer `print`, the printable fragment `pp` (negation-free) and the look-ahead
          side condition `ok`, the expected item list `its`.
  Part C  from the expected items to the regex: `its_toRe` (`Item.seqToRe`/`listToRe` of `its g`
          is `Eqv` to `comp g`; inversion style, so no fuel bookkeeping).
  Part D  the pass.  State invariant `Inv` (only the fields the fragment depends on; `invNest`,
          `matchDotDir`, `globstar` are free).  One-token facts for BOTH loops at once (`Step`:
          `step_any`, `step_star`, `step_lit`, `step_esc`, `step_bar`), a whole group
          (`parseExtend_group`), then the "print then parse" inductions in continuation style:
          `E_all` (inside a group, `extLoop`) and `R_all` (top level, `rootLoop`):
          "reading `print g ++ rest` consumes exactly `print g`, spends `ntok g` iterations and
          pushes `its g`".
  Stage 2 `seqLoop_members`, `groupAtoms_members`, `sequence_print`, `step_cls`.
  Part E  `root`, `_parse`: `parseItems_print`, `toRe_print` (negation-free fragment).
  Stage 4 `ppTop`, `itsPre`/`itsTop`, `parseExtend_neg`, `R4_all`, `cleanUp_top`
          (`clean_up_inverse` at the end of `root`), `itsTop_toRe`, `pass_print`.
  Last    stage corollaries, non-vacuity; the round trip `parsePat_print`:
          `Grammar.parsePat true (print g) = some g` for `g` in the reader's normal form `nf`.
-/
namespace WcModel
namespace PP

/-! ## Part A: an equivalence `Re.M` cannot see through -/

/-- same matching relation in every mode -/
def Eqv (r r' : Re) : Prop := ∀ md a b, Re.M md r a b ↔ Re.M md r' a b

theorem Eqv.refl (r : Re) : Eqv r r := fun _ _ _ => Iff.rfl
theorem Eqv.symm {r r' : Re} (h : Eqv r r') : Eqv r' r := fun md a b => (h md a b).symm
theorem Eqv.trans {r s t : Re} (h₁ : Eqv r s) (h₂ : Eqv s t) : Eqv r t :=
  fun md a b => (h₁ md a b).trans (h₂ md a b)
theorem Eqv.of_eq {r r' : Re} (h : r = r') : Eqv r r' := h ▸ Eqv.refl r

theorem Eqv.cat {a a' b b' : Re} (h₁ : Eqv a a') (h₂ : Eqv b b') : Eqv (.cat a b) (.cat a' b') := by
  intro md x y
  simp only [Re.M]
  constructor
  · rintro ⟨c, p, q⟩; exact ⟨c, (h₁ md x c).mp p, (h₂ md c y).mp q⟩
  · rintro ⟨c, p, q⟩; exact ⟨c, (h₁ md x c).mpr p, (h₂ md c y).mpr q⟩

theorem Eqv.alt {a a' b b' : Re} (h₁ : Eqv a a') (h₂ : Eqv b b') : Eqv (.alt a b) (.alt a' b') := by
  intro md x y
  simp only [Re.M, h₁ md x y, h₂ md x y]

theorem Eqv.grp {a a' : Re} (h : Eqv a a') : Eqv (.grp a) (.grp a') := fun md x y => by
  simp only [Re.M, h md x y]
theorem Eqv.grp_l (a : Re) : Eqv (.grp a) a := fun _ _ _ => by simp only [Re.M]
theorem Eqv.cap_l (a : Re) : Eqv (.cap a) a := fun _ _ _ => by simp only [Re.M]

theorem Eqv.opt {a a' : Re} (h : Eqv a a') : Eqv (.opt a) (.opt a') := fun md x y => by
  simp only [Re.M, h md x y]
theorem Eqv.star {a a' : Re} (l l' : Bool) (h : Eqv a a') : Eqv (.star l a) (.star l' a') :=
  fun md x y => by
    simp only [Re.M]
    exact Iter.congr (fun p q => h md p q)
theorem Eqv.plus {a a' : Re} (h : Eqv a a') : Eqv (.plus a) (.plus a') := fun md x y => by
  simp only [Re.M]
  constructor
  · rintro ⟨c, p, q⟩; exact ⟨c, (h md x c).mp p, (Iter.congr (fun p q => h md p q)).mp q⟩
  · rintro ⟨c, p, q⟩; exact ⟨c, (h md x c).mpr p, (Iter.congr (fun p q => h md p q)).mpr q⟩
theorem Eqv.look {a a' : Re} (n : Bool) (h : Eqv a a') : Eqv (.look n a) (.look n a') :=
  fun md x y => by
    cases n <;> simp only [Re.M, h md x]
theorem Eqv.flags {a a' : Re} (s i : Bool) (h : Eqv a a') : Eqv (.flags s i a) (.flags s i a') :=
  fun _ x y => by simp only [Re.M, h ⟨s, i⟩ x y]

theorem Eqv.cat_assoc (a b c : Re) : Eqv (.cat (.cat a b) c) (.cat a (.cat b c)) := by
  intro md x y
  simp only [Re.M]
  constructor
  · rintro ⟨m, ⟨n, p, q⟩, r⟩; exact ⟨n, p, m, q, r⟩
  · rintro ⟨n, p, m, q, r⟩; exact ⟨m, ⟨n, p, q⟩, r⟩

theorem Eqv.eps_cat (a : Re) : Eqv (.cat .eps a) a := by
  intro md x y
  simp only [Re.M]
  constructor
  · rintro ⟨c, rfl, h⟩; exact h
  · intro h; exact ⟨x, rfl, h⟩

theorem Eqv.cat_eps (a : Re) : Eqv (.cat a .eps) a := by
  intro md x y
  simp only [Re.M]
  constructor
  · rintro ⟨c, h, rfl⟩; exact h
  · intro h; exact ⟨y, h, rfl⟩

theorem Eqv.catE (a b : Re) : Eqv (catE a b) (.cat a b) := by
  unfold WcModel.catE
  split
  · rename_i h; subst h; exact (Eqv.eps_cat b).symm
  · exact Eqv.refl _

theorem Eqv.catE' (a b : Re) : Eqv (catE' a b) (.cat a b) := by
  unfold WcModel.catE'
  split
  · rename_i h; subst h; exact (Eqv.cat_eps a).symm
  · split
    · rename_i h; subst h; exact (Eqv.eps_cat b).symm
    · exact Eqv.refl _

theorem Eqv.fullMatch {r r' : Re} (h : Eqv r r') (s : List Char) : r.FullMatch s ↔ r'.FullMatch s := by
  unfold Re.FullMatch
  constructor
  · rintro ⟨b, hb⟩; exact ⟨b, (h _ _ _).mp hb⟩
  · rintro ⟨b, hb⟩; exact ⟨b, (h _ _ _).mpr hb⟩

/-! ## Part B: printer, fragment, expected items -/

/-- characters the printer writes with a backslash: everything the pass could read as the
    start of a token or the end of a group.  (`.` is written bare: `\.` takes a detour through
    `_references`' "dot" exit, and means the same.) -/
def escSet : List Char := ['*', '?', '[', '\\', '!', '+', '@', '|', '(', ')']

def printLit (c : Char) : List Char := if c ∈ escSet then ['\\', c] else [c]

def extChar : ExtKind → Char
  | .opt => '?' | .star => '*' | .plus => '+' | .one => '@' | .neg => '!'

def printCls : SCls → List Char
  | .chr c => [c]
  | .range lo hi => [lo, '-', hi]
  | .posix n => "[:".toList ++ n.name.toList ++ ":]".toList

def print : Pat → List Char
  | .eps => []
  | .lit c => printLit c
  | .any => ['?']
  | .star => ['*']
  | .cls neg items => '[' :: ((if neg then ['!'] else []) ++ items.flatMap printCls ++ [']'])
  | .seq a b => print a ++ print b
  | .alt a b => print a ++ '|' :: print b
  | .ext k body => extChar k :: '(' :: (print body ++ [')'])

/-- the look-ahead side conditions, given what follows: a `?` / `*` token must not be followed
    by `(` (that would open a group), a `*` not by another `*` (the pass merges runs of stars
    at the start of the name; the grammar reader never produces two adjacent stars either) -/
def ok : Pat → List Char → Bool
  | .any, rest => rest.head? != some '('
  | .star, rest => rest.head? != some '(' && rest.head? != some '*'
  | .seq a b, rest => ok a (print b ++ rest) && ok b rest
  | .alt a b, rest => ok a ('|' :: (print b ++ rest)) && ok b rest
  | .ext _ body, rest => ok body (')' :: rest)
  | _, _ => true

def gkind : ExtKind → GKind
  | .opt => .q | .star => .s | .plus => .p | .one => .a | .neg => .a

/-- the guard-prefix of `_restrict_sequence` in fnmatch mode -/
def guard (cfg : Cfg) (as : Bool) (r : Re) : Re := if as && !cfg.dot then .cat Frag.noDot r else r

def starRe (cfg : Cfg) (as : Bool) : Re :=
  if as then .cat Frag.needChar (guard cfg as Frag.star) else Frag.star

/-- `_sequence` writes `& | ~ #` with a backslash inside a bracket -/
def escM (c : Char) : Bool := c ∈ setOperators || c == '#'

/-- a bracket member as the pass spells it -/
def mItem (isBytes : Bool) : SCls → ClsItem
  | .chr c => .chr c (escM c)
  | .range lo hi => .range lo (escM lo) hi (escM hi)
  | .posix n => posixItem isBytes n

def clsRe (cfg : Cfg) (neg : Bool) (items : List SCls) : Re :=
  .cls neg (items.map (mItem cfg.isBytes))

/-- a member character the printer writes bare inside a bracket -/
def plainMember (c : Char) : Bool := c != ']' && c != '[' && c != '-' && c != '\\'

def okM : SCls → Bool
  | .chr c => plainMember c
  | .range lo hi => plainMember lo && plainMember hi && decide (lo.toNat ≤ hi.toNat)
  | .posix _ => true

def firstOK : SCls → Bool
  | .chr c => c != '!' && c != '^'
  | .range lo _ => lo != '!' && lo != '^'
  | .posix _ => true

/-- the restricted printed form of a bracket: non-empty; members are plain characters, forward
    ranges of plain characters, POSIX classes; the first member does not begin with `!` / `^` -/
def clsOK (items : List SCls) : Bool :=
  items.all okM && (match items with | [] => false | x :: _ => firstOK x)

/-- the printable fragment.  `alt` only as the (right-nested) body of a group (`b` = "an
    alternation may stand here"); no `!(…)` (that is `ppTop`, below). -/
def pp : Bool → Pat → Bool
  | b, .alt p q => b && pp false p && pp true q
  | _, .seq p q => pp false p && pp false q
  | _, .ext k body => k != .neg && pp true body
  | _, .cls _ items => clsOK items
  | _, _ => true

/-- the items the pass pushes for a (negation-free) pattern, in forward order; `as` = "at the
    start of the name" -/
def its (cfg : Cfg) : Bool → Pat → List Item
  | _, .eps => []
  | _, .lit c => [litItem c]
  | as, .any => [.re (guard cfg as Frag.qmark)]
  | as, .star => [.re (starRe cfg as)]
  | as, .cls neg items => [.re (guard cfg as (clsRe cfg neg items))]
  | as, .seq a b => its cfg as a ++ its cfg (as && a.isEmpty) b
  | as, .alt a b => its cfg as a ++ .bar :: its cfg as b
  | as, .ext k body => [.group (gkind k) (HF.capOf cfg) (its cfg as body)]

/-- number of loop iterations the pass spends on a pattern (at its own nesting level) -/
def ntok : Pat → Nat
  | .eps => 0
  | .seq a b => ntok a + ntok b
  | .alt a b => ntok a + 1 + ntok b
  | _ => 1

/-- `afterStart` once the pattern has been read (`as` before) -/
def endAs (as : Bool) : Pat → Bool
  | .alt _ b => endAs as b
  | g => as && g.isEmpty

/-! ## Part C: from the expected items to the regex of the tidy compiler -/

open HF (NoBar isBar)

theorem pp_negFree : ∀ (g : Pat) (b : Bool), pp b g = true → g.negFree = true := by
  intro g
  induction g with
  | seq p q ihp ihq =>
    intro b h; simp only [pp, Bool.and_eq_true] at h
    simp only [Pat.negFree, Bool.and_eq_true]; exact ⟨ihp _ h.1, ihq _ h.2⟩
  | alt p q ihp ihq =>
    intro b h; simp only [pp, Bool.and_eq_true] at h
    simp only [Pat.negFree, Bool.and_eq_true]; exact ⟨ihp _ h.1.2, ihq _ h.2⟩
  | ext k body ih =>
    intro b h; simp only [pp, Bool.and_eq_true, bne_iff_ne, ne_eq] at h
    cases k <;> first | exact ih _ h.2 | exact absurd rfl h.1
  | _ => intro b h; rfl

theorem pp_mono : ∀ (g : Pat), pp false g = true → pp true g = true := by
  intro g h
  cases g <;> first | exact h | (simp [pp] at h)

theorem its_noBar (cfg : Cfg) : ∀ (g : Pat) (as : Bool), pp false g = true → NoBar (its cfg as g) := by
  intro g
  induction g with
  | seq p q ihp ihq =>
    intro as h; simp only [pp, Bool.and_eq_true] at h
    exact (ihp _ h.1).append (ihq _ h.2)
  | alt p q => intro as h; simp [pp] at h
  | eps => intro as _; exact NoBar.nil
  | _ => intro as _; exact NoBar.cons rfl NoBar.nil

theorem seqToRe_nil {f : Nat} {x : Re} (h : Item.seqToRe f [] = some x) : x = .eps := by
  cases f with
  | zero => simp [Item.seqToRe] at h
  | succ f => simp [Item.seqToRe] at h; exact h.symm

theorem seqToRe_re {f : Nat} {r : Re} {rest : List Item} {x : Re}
    (h : Item.seqToRe f (.re r :: rest) = some x) :
    ∃ f' x', f = f' + 1 ∧ Item.seqToRe f' rest = some x' ∧ x = catE' r x' := by
  cases f with
  | zero => simp [Item.seqToRe] at h
  | succ f =>
    simp only [Item.seqToRe] at h
    cases h' : Item.seqToRe f rest with
    | none => simp [h'] at h
    | some x' => simp [h'] at h; exact ⟨f, x', rfl, h', h.symm⟩

theorem seqToRe_group {f : Nat} {k : GKind} {cap : Capt} {body rest : List Item} {x : Re}
    (h : Item.seqToRe f (.group k cap body :: rest) = some x) :
    ∃ f' b x', f = f' + 1 ∧ Item.listToRe f' body = some b ∧ Item.seqToRe f' rest = some x' ∧
      x = catE' (quant k cap b) x' := by
  cases f with
  | zero => simp [Item.seqToRe] at h
  | succ f =>
    simp only [Item.seqToRe] at h
    cases h1 : Item.listToRe f body with
    | none => simp [h1] at h
    | some b =>
      cases h2 : Item.seqToRe f rest with
      | none => simp [h1, h2] at h
      | some x' => simp [h1, h2] at h; exact ⟨f, b, x', rfl, h1, h2, h.symm⟩

theorem listToRe_inv {f : Nat} {items : List Item} {x : Re} (h : Item.listToRe f items = some x) :
    ∃ f' xs, f = f' + 1 ∧ (splitBars items).mapM (Item.seqToRe f') = some xs ∧ x = altOfList xs := by
  cases f with
  | zero => simp [Item.listToRe] at h
  | succ f =>
    simp only [Item.listToRe] at h
    cases h1 : (splitBars items).mapM (Item.seqToRe f) with
    | none => simp [h1] at h
    | some xs => simp [h1] at h; exact ⟨f, xs, rfl, h1, h.symm⟩

theorem splitBars_append_bar : ∀ (l m : List Item), NoBar l → splitBars (l ++ .bar :: m) = l :: splitBars m
  | [], m, _ => rfl
  | x :: l, m, h => by
    have ih := splitBars_append_bar l m (fun y hy => h y (List.mem_cons_of_mem _ hy))
    have hx := h x List.mem_cons_self
    cases x <;> first | (simp [isBar] at hx; done) | simp [splitBars, ih]

theorem splitBars_ne_nil : ∀ (l : List Item), splitBars l ≠ []
  | [] => by simp [splitBars]
  | x :: l => by
    have ih := splitBars_ne_nil l
    cases x <;> simp only [splitBars] <;> first | (exact List.cons_ne_nil _ _) | (split <;> exact List.cons_ne_nil _ _)

theorem mapM_ne_nil {α β : Type} (g : α → Option β) : ∀ (l : List α) (ys : List β), l ≠ [] →
    l.mapM g = some ys → ys ≠ []
  | [], _, h, _ => absurd rfl h
  | a :: l, ys, _, h => by
    simp only [List.mapM_cons] at h
    cases h1 : g a with
    | none => simp [h1] at h
    | some b =>
      cases h2 : l.mapM g with
      | none => simp [h1, h2] at h
      | some bs => simp [h1, h2] at h; rw [← h]; exact List.cons_ne_nil _ _

theorem hasCi_mItem (isBytes ci : Bool) (it : SCls) (d : Char) :
    (mItem isBytes it).hasCi ci d = (it.toClsItem isBytes).hasCi ci d := by
  cases it <;> rfl

theorem clsRe_eqv (cfg : Cfg) (neg : Bool) (items : List SCls) :
    Eqv (clsRe cfg neg items) (.cls neg (items.map (SCls.toClsItem cfg.isBytes))) := by
  intro md a b
  simp only [clsRe, Re.M]
  apply consume1_congr
  intro d
  simp only [clsMatch, List.any_map]
  congr 1
  induction items with
  | nil => rfl
  | cons it rest ih => simp only [List.any_cons, Function.comp, hasCi_mItem, ih]

theorem guard_eqv (cfg : Cfg) (as : Bool) {r r' : Re} (h : Eqv r r') :
    Eqv (guard cfg as r) (if as && !cfg.dot then .cat Frag.noDot r' else r') := by
  unfold guard
  split
  · exact (Eqv.refl _).cat h
  · exact h

theorem quant_eqv (k : ExtKind) (hk : k ≠ .neg) (cap : Capt) {b b' : Re} (h : Eqv b b') :
    Eqv (quant (gkind k) cap b) (quantRe k b') := by
  have core : Eqv (match gkind k with
      | .q => Re.opt (.grp b)
      | .s => .star false (.grp b)
      | .p => .plus (.grp b)
      | .a => if cap = .no then .grp b else b) (quantRe k b') := by
    cases k with
    | opt => exact (Eqv.grp h).opt
    | star => exact (Eqv.grp h).star _ _
    | plus => exact (Eqv.grp h).plus
    | one =>
      simp only [gkind, quantRe]
      split
      · exact Eqv.grp h
      · exact h.trans (Eqv.grp_l _).symm
    | neg => exact absurd rfl hk
  unfold quant
  cases cap with
  | no => exact core
  | yes => exact (Eqv.cap_l _).trans core
  | erased => exact (Eqv.grp_l _).trans core

/-- the two halves of the induction: a bar-free pattern in front of other items (`T`), an
    alternation as a whole list (`V`) -/
def T (cfg : Cfg) (g : Pat) : Prop :=
  ∀ (as : Bool) (f : Nat) (rest : List Item) (x : Re), Item.seqToRe f (its cfg as g ++ rest) = some x →
    ∃ f' x', Item.seqToRe f' rest = some x' ∧ Eqv x (.cat (comp cfg.isBytes cfg.dot as g) x')

def V (cfg : Cfg) (g : Pat) : Prop :=
  ∀ (as : Bool) (f : Nat) (xs : List Re), (splitBars (its cfg as g)).mapM (Item.seqToRe f) = some xs →
    Eqv (altOfList xs) (comp cfg.isBytes cfg.dot as g)

theorem V_of_T (cfg : Cfg) (g : Pat) (hp : pp false g = true) (hT : T cfg g) : V cfg g := by
  intro as f xs h
  rw [HF.splitBars_noBar _ (its_noBar cfg g as hp)] at h
  simp only [List.mapM_cons, List.mapM_nil] at h
  cases h1 : Item.seqToRe f (its cfg as g) with
  | none => simp [h1] at h
  | some x =>
    simp [h1] at h
    subst h
    have h1' : Item.seqToRe f (its cfg as g ++ []) = some x := by simpa using h1
    obtain ⟨f', x', hx', he⟩ := hT as f [] x h1'
    rw [seqToRe_nil hx'] at he
    exact he.trans (Eqv.cat_eps _)

theorem T_single (cfg : Cfg) (g : Pat) (r : Bool → Re) (hi : ∀ as, its cfg as g = [.re (r as)])
    (he : ∀ as, Eqv (r as) (comp cfg.isBytes cfg.dot as g)) : T cfg g := by
  intro as f rest x h
  rw [hi] at h
  obtain ⟨f', x', _, h2, h3⟩ := seqToRe_re h
  exact ⟨f', x', h2, by rw [h3]; exact (Eqv.catE' _ _).trans ((he as).cat (Eqv.refl _))⟩

theorem its_toRe (cfg : Cfg) : ∀ (g : Pat),
    (pp false g = true → T cfg g) ∧ (pp true g = true → V cfg g) := by
  intro g
  induction g with
  | eps =>
    have hT : T cfg .eps := by
      intro as f rest x h
      exact ⟨f, x, h, (Eqv.eps_cat x).symm⟩
    exact ⟨fun _ => hT, fun _ => V_of_T cfg _ rfl hT⟩
  | lit c =>
    have hT : T cfg (.lit c) := T_single cfg _ (fun _ => litRe' c) (fun _ => rfl) (fun _ => Eqv.refl _)
    exact ⟨fun _ => hT, fun _ => V_of_T cfg _ rfl hT⟩
  | any =>
    have hT : T cfg .any := T_single cfg _ (fun as => guard cfg as Frag.qmark) (fun _ => rfl)
      (fun as => by simpa [comp] using guard_eqv cfg as (Eqv.refl Frag.qmark))
    exact ⟨fun _ => hT, fun _ => V_of_T cfg _ rfl hT⟩
  | star =>
    have hT : T cfg .star := T_single cfg _ (fun as => starRe cfg as) (fun _ => rfl)
      (fun as => by
        simp only [starRe, comp]
        split
        · exact (Eqv.refl _).cat (guard_eqv cfg as (Eqv.refl Frag.star))
        · rename_i h; simp [h]; exact Eqv.refl _)
    exact ⟨fun _ => hT, fun _ => V_of_T cfg _ rfl hT⟩
  | cls neg items =>
    have hT : T cfg (.cls neg items) :=
      T_single cfg _ (fun as => guard cfg as (clsRe cfg neg items)) (fun _ => rfl)
        (fun as => by simpa [comp] using guard_eqv cfg as (clsRe_eqv cfg neg items))
    exact ⟨fun _ => hT, fun h => V_of_T cfg _ h hT⟩
  | seq p q ihp ihq =>
    have hT : pp false (.seq p q) = true → T cfg (.seq p q) := by
      intro h
      simp only [pp, Bool.and_eq_true] at h
      intro as f rest x hx
      simp only [its, List.append_assoc] at hx
      obtain ⟨f1, x1, h1, e1⟩ := ihp.1 h.1 as f _ x hx
      obtain ⟨f2, x2, h2, e2⟩ := ihq.1 h.2 _ f1 rest x1 h1
      refine ⟨f2, x2, h2, ?_⟩
      rw [comp_seq _ _ _ _ _ (pp_negFree p _ h.1)]
      exact (e1.trans ((Eqv.refl _).cat e2)).trans (Eqv.cat_assoc _ _ _).symm
    exact ⟨hT, fun h => V_of_T cfg _ h (hT h)⟩
  | alt p q ihp ihq =>
    refine ⟨fun h => by simp [pp] at h, fun h => ?_⟩
    simp only [pp, Bool.and_eq_true, true_and] at h
    intro as f xs hx
    simp only [its] at hx
    rw [splitBars_append_bar _ _ (its_noBar cfg p as h.1)] at hx
    simp only [List.mapM_cons] at hx
    cases h1 : Item.seqToRe f (its cfg as p) with
    | none => simp [h1] at hx
    | some xp =>
      cases h2 : (splitBars (its cfg as q)).mapM (Item.seqToRe f) with
      | none => simp [h1, h2] at hx
      | some xq =>
        simp [h1, h2] at hx
        subst hx
        have hne := mapM_ne_nil _ _ _ (splitBars_ne_nil _) h2
        have h1' : Item.seqToRe f (its cfg as p ++ []) = some xp := by simpa using h1
        obtain ⟨f', x', hx', he⟩ := ihp.1 h.1 as f [] xp h1'
        rw [seqToRe_nil hx'] at he
        have hq := ihq.2 h.2 as f xq h2
        cases xq with
        | nil => exact absurd rfl hne
        | cons y ys =>
          simp only [altOfList, comp]
          exact (he.trans (Eqv.cat_eps _)).alt hq
  | ext k body ih =>
    have hT : pp false (.ext k body) = true → T cfg (.ext k body) := by
      intro h
      simp only [pp, Bool.and_eq_true, bne_iff_ne, ne_eq] at h
      intro as f rest x hx
      simp only [its, List.cons_append, List.nil_append] at hx
      obtain ⟨f', b, x', _, hb, hr, he⟩ := seqToRe_group hx
      obtain ⟨f'', xs, _, hm, hb'⟩ := listToRe_inv hb
      have hV := ih.2 h.2 as f'' xs hm
      refine ⟨f', x', hr, ?_⟩
      rw [he]
      refine (Eqv.catE' _ _).trans (Eqv.cat ?_ (Eqv.refl _))
      rw [hb']
      have : comp cfg.isBytes cfg.dot as (.ext k body) = quantRe k (comp cfg.isBytes cfg.dot as body) := by
        cases k <;> first | rfl | exact absurd rfl h.1
      rw [this]
      exact quant_eqv k h.1 _ hV
    exact ⟨hT, fun h => V_of_T cfg _ h (hT h)⟩

/-! ## Part D: the pass -/


structure FnX (cfg : Cfg) : Prop extends FnEntry cfg where
  extend : cfg.extend = true

/-- the parser-state fields the fragment depends on (`invNest`, `matchDotDir`, `globstar` are free) -/
structure Inv (ps : PS) (as il : Bool) (k : Nat) : Prop where
  afterStart : ps.afterStart = as
  dirStart : ps.dirStart = false
  inList : ps.inList = il
  invExt : ps.invExt = k
  mb : ps.matchbase = false
  emb : ps.extmatchbase = false

theorem Inv.upd {ps : PS} {as il : Bool} {k : Nat} (h : Inv ps as il k) : Inv ps.updateDirState false il k := by
  obtain ⟨h1, h2, h3, h4, h5, h6⟩ := h
  unfold PS.updateDirState
  simp only [h2, Bool.false_and, Bool.false_eq_true, ite_false, Bool.not_false, Bool.true_and]
  split
  · exact ⟨rfl, rfl, h3, h4, h5, h6⟩
  · rename_i hn
    exact ⟨by simpa using hn, h2, h3, h4, h5, h6⟩

theorem Inv.reset {ps : PS} {as il : Bool} {k : Nat} (h : Inv ps as il k) : Inv ps.resetDirTrack false il k :=
  ⟨rfl, rfl, h.inList, h.invExt, h.mb, h.emb⟩

theorem dropStars_id (e : Bool) (it : It) (hs : it.rest.head? ≠ some '*') : dropStars e it = it := by
  obtain ⟨i, rest⟩ := it
  cases rest with
  | nil => simp [dropStars, dropWhileCount]
  | cons d r =>
    have : d ≠ '*' := by simpa using hs
    simp [dropStars, dropWhileCount, this]

theorem handleStar_fn (cfg : Cfg) (hp : cfg.pathname = false) (ps : PS) (it : It) (cur : List Item)
    (hs : it.rest.head? ≠ some '*') :
    handleStar cfg ps it cur = (ps.resetDirTrack, it, .re (starRe cfg ps.afterStart) :: cur) := by
  have hn : cfg.needChar = Frag.needChar := by simp [Cfg.needChar, hp]
  rw [handleStar_eq]
  have hsel : hsSel cfg ps it (cfg.pathname && cfg.globstarCapture) = (false, false, it, ps) := by
    unfold hsSel
    split
    · obtain ⟨i, rest⟩ := it
      cases rest with
      | nil => simp [It.next, hp]
      | cons d r =>
        have : d ≠ '*' := by simpa using hs
        simp [It.next, hp, this]
    · simp [hp]
  rw [hsel]
  unfold hsBody hsStar
  simp only [hp, Bool.false_eq_true, ite_false, Bool.not_false, ite_true, hn, dropStars_id _ _ hs]
  cases ha : ps.afterStart <;> simp [starRe, guard]
  split <;> rfl


theorem parseExtend_noparen (cfg : Cfg) (fuel : Nat) (c : Char) (it : It) (ps : PS) (cur : List Item) (rd : Bool)
    (hn : it.rest.head? ≠ some '(') :
    parseExtend cfg (fuel+1) c it ps cur rd = (false, HF.peFail ps (HF.peEnter ps c rd), it, cur) := by
  rw [HF.parseExtend_eq]
  obtain ⟨i, rest⟩ := it
  cases rest with
  | nil => simp [It.next]
  | cons d r =>
    have : d ≠ '(' := by simpa using hn
    simp [It.next, this]

theorem Inv.peFail {ps : PS} {as il : Bool} {k : Nat} (h : Inv ps as il k) (c : Char) (rd : Bool) :
    Inv (HF.peFail ps (HF.peEnter ps c rd)) as il k := by
  obtain ⟨h1, h2, h3, h4, h5, h6⟩ := h
  unfold HF.peFail HF.peFinish HF.peEnter
  cases rd <;> cases hl : ps.inList <;> cases hv : ps.invNest <;>
    exact ⟨by simpa using h1, by simpa using h2, by simp [← h3, hl], by simpa using h4,
      by simpa using h5, by simpa using h6⟩


theorem rootTok_plain (cfg : Cfg) (c : Char) (it : It) (ps : PS) (cur : List Item) {as il : Bool} {k : Nat}
    (hi : Inv ps as il k) (hn : c ∈ extTypes → it.rest.head? ≠ some '(') :
    ∃ ps1, Inv ps1 as il k ∧ HF.rootTok cfg c it ps cur = HF.rootPlain cfg c it ps1 cur := by
  unfold HF.rootTok
  split
  · rename_i hx
    simp only [Bool.and_eq_true, decide_eq_true_eq] at hx
    have : 2 * it.rest.length + 8 = (2 * it.rest.length + 7) + 1 := rfl
    rw [this, parseExtend_noparen _ _ _ _ _ _ _ (hn hx.2)]
    exact ⟨_, hi.peFail c true, by simp⟩
  · exact ⟨ps, hi, rfl⟩

theorem extTok_plain (cfg : Cfg) (fuel : Nat) (c : Char) (it : It) (ps : PS) (ext : List Item) (a n : Bool)
    {as il : Bool} {k : Nat}
    (hi : Inv ps as il k) (hn : c ∈ extTypes → it.rest.head? ≠ some '(') :
    ∃ ps1, Inv ps1 as il k ∧ HF.extTok cfg (fuel+1) c it ps ext a n = HF.extPlain cfg c it ps1 ext a n := by
  unfold HF.extTok
  split
  · rename_i hx
    simp only [Bool.and_eq_true, decide_eq_true_eq] at hx
    rw [parseExtend_noparen _ _ _ _ _ _ _ (hn hx.2)]
    exact ⟨_, hi.peFail c false, by simp⟩
  · exact ⟨ps, hi, rfl⟩

theorem noDot_ne_eps : Frag.noDot ≠ .eps := by simp [Frag.noDot]

theorem qmarkItem_fn (cfg : Cfg) (hp : cfg.pathname = false) (ps : PS) :
    qmarkItem cfg ps = (.re (guard cfg ps.afterStart Frag.qmark), ps.resetDirTrack) := by
  unfold qmarkItem restrictSequence guard
  simp only [hp, Bool.false_eq_true, ite_false]
  split
  · simp [catE, noDot_ne_eps]
  · simp [catE]

/-- `?` -/
theorem tok_any (cfg : Cfg) (hp : cfg.pathname = false) (it : It) (ps : PS) (l : List Item) (a n : Bool) :
    HF.rootPlain cfg '?' it ps l =
      (it, ps.resetDirTrack.updateDirState, .re (guard cfg ps.afterStart Frag.qmark) :: l) ∧
    HF.extPlain cfg '?' it ps l a n =
      (ps.resetDirTrack, it, .re (guard cfg ps.afterStart Frag.qmark) :: l, true) := by
  constructor
  · unfold HF.rootPlain
    simp [qmarkItem_fn cfg hp]
  · unfold HF.extPlain
    simp [qmarkItem_fn cfg hp]

/-- `*` -/
theorem tok_star (cfg : Cfg) (hp : cfg.pathname = false) (it : It) (ps : PS) (l : List Item) (a n : Bool)
    (hs : it.rest.head? ≠ some '*') :
    HF.rootPlain cfg '*' it ps l =
      (it, ps.resetDirTrack.updateDirState, .re (starRe cfg ps.afterStart) :: l) ∧
    HF.extPlain cfg '*' it ps l a n =
      (ps.resetDirTrack, it, .re (starRe cfg ps.afterStart) :: l, true) := by
  constructor
  · unfold HF.rootPlain
    simp [handleStar_fn cfg hp ps it l hs]
  · unfold HF.extPlain
    simp [handleStar_fn cfg hp ps it l hs]

theorem handleDot_fn (cfg : Cfg) (hp : cfg.pathname = false) (ps : PS) (it : It) : handleDot cfg ps it = .lit '.' := by
  simp [handleDot, hp]

/-- a bare literal character -/
theorem tok_lit (cfg : Cfg) (h : FnX cfg) (c : Char) (hc : c ∉ escSet) (it : It) (ps : PS) (l : List Item)
    (a n : Bool) {as il : Bool} {k : Nat} (hi : Inv ps as il k) :
    HF.rootPlain cfg c it ps l = (it, ps.updateDirState, litItem c :: l) ∧
    ∃ ps' as', Inv ps' as' il k ∧ HF.extPlain cfg c it ps l a n = (ps', it, litItem c :: l, true) := by
  have hwin : cfg.win = false := by simp [Cfg.win, h.unix]
  simp only [escSet, List.mem_cons, List.not_mem_nil, or_false, not_or] at hc
  obtain ⟨c1, c2, c3, c4, c5, c6, c7, c8, c9, c10⟩ := hc
  by_cases hd : c = '.'
  · subst hd
    constructor
    · simp [HF.rootPlain, handleDot_fn cfg h.pathname, litItem, litRe']
    · refine ⟨_, false, ?_, by simp [HF.extPlain, handleDot_fn cfg h.pathname, litItem, litRe']; rfl⟩
      split
      · exact ⟨rfl, rfl, hi.inList, hi.invExt, hi.mb, hi.emb⟩
      · rename_i hn
        exact ⟨by simpa using hn, hi.dirStart, hi.inList, hi.invExt, hi.mb, hi.emb⟩
  · by_cases hs : c = '/'
    · subst hs
      constructor
      · simp [HF.rootPlain, h.pathname, litItem, litRe', hwin]
      · exact ⟨_, _, hi, by simp [HF.extPlain, restrictExtendedSlash, h.pathname, litItem, litRe', hwin]⟩
    · constructor
      · simp [HF.rootPlain, hd, hs, c1, c2, c3, c4, litItem, litRe']
      · exact ⟨_, _, hi, by simp [HF.extPlain, hd, hs, c1, c2, c3, c4, c8, c10, litItem, litRe']⟩

/-- an escaped literal character `\\c` (the printer escapes only characters of `escSet`) -/
theorem tok_esc (cfg : Cfg) (h : FnX cfg) (c : Char) (hc : c ∈ escSet) (i : Nat) (rest : List Char) (ps : PS)
    (l : List Item) (a n : Bool) (hds : ps.dirStart = false) :
    HF.rootPlain cfg '\\' ⟨i, c :: rest⟩ ps l = (⟨i + 1, rest⟩, ps.updateDirState, litItem c :: l) ∧
    HF.extPlain cfg '\\' ⟨i, c :: rest⟩ ps l a n = (ps, ⟨i + 1, rest⟩, litItem c :: l, true) := by
  have hd : c ≠ '.' := by intro e; subst e; simp [escSet] at hc
  have hs : c ≠ '/' := by intro e; subst e; simp [escSet] at hc
  have href : references cfg ps ⟨i, c :: rest⟩ = .val (.lit c) ⟨i + 1, rest⟩ ps := by
    unfold references
    by_cases hb : c = '\\'
    · subst hb; simp [It.next, h.bslash, h.unix]
    · simp [It.next, hb, hs, hd]
  constructor
  · simp [HF.rootPlain, href, hds, litItem, litRe', hs]
  · simp [HF.extPlain, href, litItem, litRe', hs]


theorem extTok_plain' (cfg : Cfg) (fuel : Nat) (c : Char) (it : It) (ps : PS) (ext : List Item) (a n : Bool)
    {as il : Bool} {k : Nat}
    (hi : Inv ps as il k) (hn : c ∈ extTypes → it.rest.head? ≠ some '(') :
    ∃ ps1, Inv ps1 as il k ∧ HF.extTok cfg fuel c it ps ext a n = HF.extPlain cfg c it ps1 ext a n := by
  cases fuel with
  | succ f => exact extTok_plain cfg f c it ps ext a n hi hn
  | zero =>
    unfold HF.extTok
    split
    · exact ⟨ps, hi, by simp [parseExtend]⟩
    · exact ⟨ps, hi, rfl⟩

theorem rootLoop_cons (cfg : Cfg) (F i : Nat) (c : Char) (r : List Char) (ps : PS) (cur : List Item) :
    rootLoop cfg (F+1) ⟨i, c :: r⟩ ps cur =
      rootLoop cfg F (HF.rootTok cfg c ⟨i+1, r⟩ ps cur).1 (HF.rootTok cfg c ⟨i+1, r⟩ ps cur).2.1
        (HF.rootTok cfg c ⟨i+1, r⟩ ps cur).2.2 := by
  rw [HF.rootLoop_eq]; rfl

theorem extLoop_cons (cfg : Cfg) (F i : Nat) (c : Char) (r : List Char) (ps : PS) (ext : List Item) (a n : Bool) :
    extLoop cfg (F+1) ⟨i, c :: r⟩ ps ext a n =
      HF.extCont cfg F c a n (HF.extTok cfg F c ⟨i+1, r⟩ ps ext a n) := by
  rw [HF.extLoop_eq]; rfl

theorem extCont_ne (cfg : Cfg) (F : Nat) (c : Char) (a n : Bool) (ps : PS) (it : It) (ext : List Item)
    (hc : c ≠ ')') :
    HF.extCont cfg F c a n (ps, it, ext, true) = extLoop cfg F it ps.updateDirState ext a n := by
  simp [HF.extCont, hc]

/-- both loops spend one iteration on the word `w`, pushing one item -/
def Step (cfg : Cfg) (w : List Char) (x : Bool → Item) (side : List Char → Prop) : Prop :=
  ∀ (as il : Bool) (k F i : Nat) (rest : List Char) (ps : PS) (l : List Item), Inv ps as il k → side rest →
    (∃ ps', Inv ps' false il k ∧
      rootLoop cfg (F+1) ⟨i, w ++ rest⟩ ps l = rootLoop cfg F ⟨i + w.length, rest⟩ ps' (x as :: l)) ∧
    (∀ a n, ∃ ps', Inv ps' false il k ∧
      extLoop cfg (F+1) ⟨i, w ++ rest⟩ ps l a n = extLoop cfg F ⟨i + w.length, rest⟩ ps' (x as :: l) a n)

theorem qmark_ext : '?' ∈ extTypes := by decide
theorem star_ext : '*' ∈ extTypes := by decide
theorem not_ext_of_not_esc {c : Char} (hc : c ∉ escSet) : c ∉ extTypes := by
  intro h
  rw [extTypes_eq] at h
  simp only [escSet, List.mem_cons, List.not_mem_nil, or_false, not_or] at hc
  simp only [List.mem_cons, List.not_mem_nil, or_false] at h
  obtain ⟨c1, c2, c3, c4, c5, c6, c7, c8, c9, c10⟩ := hc
  rcases h with h | h | h | h | h <;> contradiction

theorem step_any (cfg : Cfg) (h : FnX cfg) :
    Step cfg ['?'] (fun as => .re (guard cfg as Frag.qmark)) (fun rest => rest.head? ≠ some '(') := by
  intro as il k F i rest ps l hi hn
  constructor
  · obtain ⟨ps1, hi1, e⟩ := rootTok_plain cfg '?' ⟨i+1, rest⟩ ps l hi (fun _ => hn)
    refine ⟨ps1.resetDirTrack.updateDirState, hi1.reset.upd, ?_⟩
    show rootLoop cfg (F+1) ⟨i, '?' :: rest⟩ ps l = _
    rw [rootLoop_cons, e, (tok_any cfg h.pathname _ ps1 l false false).1, hi1.afterStart]
    rfl
  · intro a n
    obtain ⟨ps1, hi1, e⟩ := extTok_plain' cfg F '?' ⟨i+1, rest⟩ ps l a n hi (fun _ => hn)
    refine ⟨ps1.resetDirTrack.updateDirState, hi1.reset.upd, ?_⟩
    show extLoop cfg (F+1) ⟨i, '?' :: rest⟩ ps l a n = _
    rw [extLoop_cons, e, (tok_any cfg h.pathname _ ps1 l a n).2, extCont_ne _ _ _ _ _ _ _ _ (by decide),
      hi1.afterStart]
    rfl

theorem step_star (cfg : Cfg) (h : FnX cfg) :
    Step cfg ['*'] (fun as => .re (starRe cfg as))
      (fun rest => rest.head? ≠ some '(' ∧ rest.head? ≠ some '*') := by
  intro as il k F i rest ps l hi hn
  constructor
  · obtain ⟨ps1, hi1, e⟩ := rootTok_plain cfg '*' ⟨i+1, rest⟩ ps l hi (fun _ => hn.1)
    refine ⟨ps1.resetDirTrack.updateDirState, hi1.reset.upd, ?_⟩
    show rootLoop cfg (F+1) ⟨i, '*' :: rest⟩ ps l = _
    rw [rootLoop_cons, e, (tok_star cfg h.pathname _ ps1 l false false hn.2).1, hi1.afterStart]
    rfl
  · intro a n
    obtain ⟨ps1, hi1, e⟩ := extTok_plain' cfg F '*' ⟨i+1, rest⟩ ps l a n hi (fun _ => hn.1)
    refine ⟨ps1.resetDirTrack.updateDirState, hi1.reset.upd, ?_⟩
    show extLoop cfg (F+1) ⟨i, '*' :: rest⟩ ps l a n = _
    rw [extLoop_cons, e, (tok_star cfg h.pathname _ ps1 l a n hn.2).2, extCont_ne _ _ _ _ _ _ _ _ (by decide),
      hi1.afterStart]
    rfl

theorem step_lit (cfg : Cfg) (h : FnX cfg) (c : Char) (hc : c ∉ escSet) :
    Step cfg [c] (fun _ => litItem c) (fun _ => True) := by
  intro as il k F i rest ps l hi _
  have hne : c ∉ extTypes := not_ext_of_not_esc hc
  have hp : c ≠ ')' := by intro e; subst e; simp [escSet] at hc
  constructor
  · obtain ⟨ps1, hi1, e⟩ := rootTok_plain cfg c ⟨i+1, rest⟩ ps l hi (fun hx => absurd hx hne)
    refine ⟨ps1.updateDirState, hi1.upd, ?_⟩
    show rootLoop cfg (F+1) ⟨i, c :: rest⟩ ps l = _
    rw [rootLoop_cons, e, (tok_lit cfg h c hc _ ps1 l false false hi1).1]
    rfl
  · intro a n
    obtain ⟨ps1, hi1, e⟩ := extTok_plain' cfg F c ⟨i+1, rest⟩ ps l a n hi (fun hx => absurd hx hne)
    obtain ⟨ps2, as2, hi2, e2⟩ := (tok_lit cfg h c hc ⟨i+1, rest⟩ ps1 l a n hi1).2
    refine ⟨ps2.updateDirState, hi2.upd, ?_⟩
    show extLoop cfg (F+1) ⟨i, c :: rest⟩ ps l a n = _
    rw [extLoop_cons, e, e2, extCont_ne _ _ _ _ _ _ _ _ hp]
    rfl

theorem bs_not_ext' : '\\' ∉ extTypes := by decide

theorem step_esc (cfg : Cfg) (h : FnX cfg) (c : Char) (hc : c ∈ escSet) :
    Step cfg ['\\', c] (fun _ => litItem c) (fun _ => True) := by
  intro as il k F i rest ps l hi _
  constructor
  · obtain ⟨ps1, hi1, e⟩ := rootTok_plain cfg '\\' ⟨i+1, c :: rest⟩ ps l hi (fun hx => absurd hx bs_not_ext')
    refine ⟨ps1.updateDirState, hi1.upd, ?_⟩
    show rootLoop cfg (F+1) ⟨i, '\\' :: c :: rest⟩ ps l = _
    rw [rootLoop_cons, e, (tok_esc cfg h c hc _ _ ps1 l false false hi1.dirStart).1]
    rfl
  · intro a n
    obtain ⟨ps1, hi1, e⟩ := extTok_plain' cfg F '\\' ⟨i+1, c :: rest⟩ ps l a n hi (fun hx => absurd hx bs_not_ext')
    refine ⟨ps1.updateDirState, hi1.upd, ?_⟩
    show extLoop cfg (F+1) ⟨i, '\\' :: c :: rest⟩ ps l a n = _
    rw [extLoop_cons, e, (tok_esc cfg h c hc _ _ ps1 l a n hi1.dirStart).2, extCont_ne _ _ _ _ _ _ _ _ (by decide)]
    rfl

theorem step_printLit (cfg : Cfg) (h : FnX cfg) (c : Char) :
    Step cfg (printLit c) (fun _ => litItem c) (fun _ => True) := by
  unfold printLit
  split
  · rename_i hc; exact step_esc cfg h c hc
  · rename_i hc; exact step_lit cfg h c hc


theorem cleanUp_zero (cfg : Cfg) (ps : PS) (cur : List Item) (n : Bool) (h : ps.invExt = 0) :
    cleanUpInverse cfg ps cur n = (cur, ps) := by
  simp [cleanUpInverse, h]

theorem step_bar (cfg : Cfg) (F i : Nat) (rest : List Char) (ps : PS) (l : List Item) (a n : Bool) {as : Bool}
    (hi : Inv ps as true 0) :
    ∃ ps', Inv ps' a true 0 ∧
      extLoop cfg (F+1) ⟨i, '|' :: rest⟩ ps l a n = extLoop cfg F ⟨i + 1, rest⟩ ps' (.bar :: l) a n := by
  have hne : '|' ∉ extTypes := by decide
  obtain ⟨ps1, hi1, e⟩ := extTok_plain' cfg F '|' ⟨i+1, rest⟩ ps l a n hi (fun hx => absurd hx hne)
  have e2 : HF.extPlain cfg '|' ⟨i+1, rest⟩ ps1 l a n =
      ((if a then ps1.setStartDir else ps1), ⟨i+1, rest⟩, .bar :: l, true) := by
    simp [HF.extPlain, cleanUp_zero cfg ps1 l n hi1.invExt]
  refine ⟨(if a then ps1.setStartDir else ps1).updateDirState, ?_, ?_⟩
  · cases a with
    | false => exact hi1.upd
    | true =>
      simp only [ite_true]
      obtain ⟨h1, h2, h3, h4, h5, h6⟩ := hi1
      exact ⟨by simp [PS.updateDirState, PS.setStartDir, PS.setAfterStart],
        by simp [PS.updateDirState, PS.setStartDir, PS.setAfterStart],
        by simp [PS.setStartDir, h3], by simp [PS.setStartDir, h4],
        by simp [PS.updateDirState, PS.setStartDir, PS.setAfterStart, h5],
        by simp [PS.updateDirState, PS.setStartDir, PS.setAfterStart, h6]⟩
  · rw [extLoop_cons, e, e2, extCont_ne _ _ _ _ _ _ _ _ (by decide)]

theorem Inv.peEnter {ps : PS} {as il : Bool} {k : Nat} (h : Inv ps as il k) (c : Char) (rd : Bool) :
    Inv (HF.peEnter ps c rd) as true k := by
  obtain ⟨h1, h2, h3, h4, h5, h6⟩ := h
  unfold HF.peEnter
  cases rd <;> exact ⟨h1, h2, rfl, h4, h5, h6⟩

theorem Inv.peFinish {t ps : PS} {as as' il : Bool} {k k' : Nat} (ht : Inv t as il k) (h : Inv ps as' true k') :
    Inv (HF.peFinish t true ps) false il k' := by
  obtain ⟨h1, h2, h3, h4, h5, h6⟩ := h
  unfold HF.peFinish
  cases hl : t.inList <;> cases hv : t.invNest <;>
    exact ⟨rfl, rfl, by simp [← ht.inList, hl, h3], by simpa using h4,
      by simp [PS.resetDirTrack, h5], by simp [PS.resetDirTrack, h6]⟩

theorem ntok_le : ∀ g : Pat, ntok g ≤ (print g).length := by
  intro g
  induction g with
  | eps => simp [ntok]
  | lit c => simp only [ntok, print, printLit]; split <;> simp
  | any => simp [ntok, print]
  | star => simp [ntok, print]
  | cls neg items => simp [ntok, print]
  | seq p q ihp ihq => simp only [ntok, print, List.length_append]; omega
  | alt p q ihp ihq => simp only [ntok, print, List.length_append, List.length_cons]; omega
  | ext k b ih => simp [ntok, print]

/-- reading `)` ends the loop -/
theorem extLoop_close (cfg : Cfg) (F i : Nat) (rest : List Char) (ps : PS) (l : List Item) (a n : Bool) :
    extLoop cfg (F+1) ⟨i, ')' :: rest⟩ ps l a n = .ok (ps.updateDirState, ⟨i+1, rest⟩, l) := by
  have hne : ¬ ((cfg.extend && decide (')' ∈ extTypes)) = true) := by
    have : ')' ∉ extTypes := by decide
    simp [this]
  rw [extLoop_cons]
  unfold HF.extTok
  rw [if_neg hne]
  simp [HF.extPlain, HF.extCont]

/-- the in-group claim -/
def E (cfg : Cfg) (g : Pat) : Prop :=
  ∀ (b : Bool), pp b g = true → ∀ (F i : Nat) (rest : List Char) (ps : PS) (ext : List Item) (tA tN as : Bool),
    Inv ps as true 0 → (as = true → tA = true) → (b = true → as = tA) → ok g rest = true →
    (print g).length ≤ F →
    ∃ ps', extLoop cfg F ⟨i, print g ++ rest⟩ ps ext tA tN =
        extLoop cfg (F - ntok g) ⟨i + (print g).length, rest⟩ ps' ((its cfg as g).reverse ++ ext) tA tN ∧
      Inv ps' (endAs as g) true 0

theorem extChar_ext (k : ExtKind) : extChar k ∈ extTypes := by cases k <;> decide

theorem peBuild_group (cfg : Cfg) (k : ExtKind) (hk : k ≠ .neg) (t : PS) (body cur : List Item) (ps : PS) :
    HF.peBuild cfg (extChar k) t body cur ps = (.group (gkind k) (HF.capOf cfg) body :: cur, ps) := by
  cases k <;> first | (exact absurd rfl hk) | (simp [HF.peBuild, extChar, gkind])

/-- a whole group `k(body)`, given the claim for its body -/
theorem parseExtend_group (cfg : Cfg) (k : ExtKind) (hk : k ≠ .neg) (body : Pat) (hE : E cfg body)
    (hpp : pp true body = true) (F i : Nat) (rest : List Char) (ps : PS) (cur : List Item) (rd : Bool)
    {as il : Bool} (hi : Inv ps as il 0) (hok : ok body (')' :: rest) = true)
    (hF : (print body).length + 2 ≤ F) :
    ∃ ps', parseExtend cfg F (extChar k) ⟨i, '(' :: (print body ++ ')' :: rest)⟩ ps cur rd =
        (true, ps', ⟨i + (print body).length + 2, rest⟩,
          .group (gkind k) (HF.capOf cfg) (its cfg as body) :: cur) ∧
      Inv ps' false il 0 := by
  obtain ⟨F1, rfl⟩ : ∃ F1, F = F1 + 1 := ⟨F - 1, by omega⟩
  rw [HF.parseExtend_eq]
  simp only [It.next, bne_self_eq_false, Bool.false_eq_true, if_false]
  obtain ⟨ps1, e1, hi1⟩ := hE true hpp F1 (i+1) (')' :: rest) (HF.peEnter ps (extChar k) rd) [] ps.afterStart
    ps.invNest as (hi.peEnter _ _) (fun h => hi.afterStart.trans h) (fun _ => hi.afterStart.symm) hok (by omega)
  have hnt := ntok_le body
  obtain ⟨F2, hF2⟩ : ∃ F2, F1 - ntok body = F2 + 1 := ⟨F1 - ntok body - 1, by omega⟩
  rw [e1, hF2, extLoop_close]
  simp only [List.append_nil, List.reverse_reverse, peBuild_group cfg k hk]
  have hz : ps1.updateDirState.invExt = 0 := hi1.upd.invExt
  have hb' : (if ps.inList = true then
        cleanUpInverse cfg ps1.updateDirState (Item.group (gkind k) (HF.capOf cfg) (its cfg as body) :: cur)
          (ps.invNest && ps1.updateDirState.invNest)
      else (Item.group (gkind k) (HF.capOf cfg) (its cfg as body) :: cur, ps1.updateDirState)) =
      (Item.group (gkind k) (HF.capOf cfg) (its cfg as body) :: cur, ps1.updateDirState) := by
    split
    · exact cleanUp_zero cfg _ _ _ hz
    · rfl
  rw [hb']
  refine ⟨HF.peFinish ps true ps1.updateDirState, ?_, ?_⟩
  · have : i + 1 + (print body).length + 1 = i + (print body).length + 2 := by omega
    rw [this]
  · exact hi.peFinish hi1.upd


theorem endAs_pp_false (as : Bool) (g : Pat) (h : pp false g = true) : endAs as g = (as && g.isEmpty) := by
  cases g <;> first | rfl | (simp [pp] at h)

theorem E_of_step (cfg : Cfg) (g : Pat) (w : List Char) (x : Bool → Item) (side : List Char → Prop)
    (hs : Step cfg w x side) (hw : 1 ≤ w.length) (hprint : print g = w) (hits : ∀ as, its cfg as g = [x as])
    (hnt : ntok g = 1) (hend : ∀ as, endAs as g = false) (hside : ∀ rest, ok g rest = true → side rest) :
    E cfg g := by
  intro b _ F i rest ps ext tA tN as hi _ _ hok hF
  obtain ⟨F', rfl⟩ : ∃ F', F = F' + 1 := ⟨F - 1, by rw [hprint] at hF; omega⟩
  obtain ⟨ps', hi', e⟩ := (hs as true 0 F' i rest ps ext hi (hside rest hok)).2 tA tN
  refine ⟨ps', ?_, by rw [hend]; exact hi'⟩
  rw [hprint, hits, hnt, e]
  rfl

theorem extChar_ne_close (k : ExtKind) : extChar k ≠ ')' := by cases k <;> decide

/-- the Stage-2 obligation: a printed bracket is one token -/
def ClsStep (cfg : Cfg) : Prop :=
  ∀ neg items, clsOK items = true →
    Step cfg (print (.cls neg items)) (fun as => .re (guard cfg as (clsRe cfg neg items))) (fun _ => True)

theorem E_all (cfg : Cfg) (h : FnX cfg) (hcls : ClsStep cfg) :
    ∀ g : Pat, E cfg g := by
  intro g
  induction g with
  | eps =>
    intro b _ F i rest ps ext tA tN as hi _ _ _ _
    exact ⟨ps, by simp [print, its, ntok], by simpa [endAs, Pat.isEmpty] using hi⟩
  | lit c =>
    exact E_of_step cfg _ _ _ _ (step_printLit cfg h c) (by unfold printLit; split <;> simp) rfl (fun _ => rfl) rfl
      (fun as => by simp [endAs, Pat.isEmpty]) (fun _ _ => trivial)
  | any =>
    exact E_of_step cfg _ _ _ _ (step_any cfg h) (by simp) rfl (fun _ => rfl) rfl
      (fun as => by simp [endAs, Pat.isEmpty]) (fun rest hok => by simpa [ok] using hok)
  | star =>
    exact E_of_step cfg _ _ _ _ (step_star cfg h) (by simp) rfl (fun _ => rfl) rfl
      (fun as => by simp [endAs, Pat.isEmpty]) (fun rest hok => by simpa [ok] using hok)
  | cls neg items =>
    intro b hp
    exact E_of_step cfg _ _ _ _ (hcls neg items (by simpa [pp] using hp)) (by simp [print]) rfl (fun _ => rfl) rfl
      (fun as => by simp [endAs, Pat.isEmpty]) (fun _ _ => trivial) b hp
  | seq p q ihp ihq =>
    intro b hp F i rest ps ext tA tN as hi hA _ hok hF
    simp only [pp, Bool.and_eq_true] at hp
    simp only [ok, Bool.and_eq_true] at hok
    simp only [print, List.length_append] at hF
    have hnp := ntok_le p
    obtain ⟨ps1, e1, hi1⟩ := ihp false hp.1 F i (print q ++ rest) ps ext tA tN as hi hA (by simp) hok.1 (by omega)
    rw [endAs_pp_false _ _ hp.1] at hi1
    obtain ⟨ps2, e2, hi2⟩ := ihq false hp.2 (F - ntok p) (i + (print p).length) rest ps1 _ tA tN _ hi1
      (fun hx => hA (by simp only [Bool.and_eq_true] at hx; exact hx.1)) (by simp) hok.2 (by omega)
    rw [endAs_pp_false _ _ hp.2] at hi2
    refine ⟨ps2, ?_, by simpa [endAs, Pat.isEmpty, Bool.and_assoc] using hi2⟩
    simp only [print, List.append_assoc, its, ntok, List.reverse_append, List.length_append]
    rw [e1, e2]
    have a1 : F - ntok p - ntok q = F - (ntok p + ntok q) := by omega
    have a2 : i + (print p).length + (print q).length = i + ((print p).length + (print q).length) := by omega
    rw [a1, a2]
  | alt p q ihp ihq =>
    intro b hp F i rest ps ext tA tN as hi hA hb hok hF
    simp only [pp, Bool.and_eq_true] at hp
    simp only [ok, Bool.and_eq_true] at hok
    simp only [print, List.length_append, List.length_cons] at hF
    have hnp := ntok_le p
    have hat : as = tA := hb hp.1.1
    obtain ⟨ps1, e1, hi1⟩ := ihp false hp.1.2 F i ('|' :: (print q ++ rest)) ps ext tA tN as hi hA (by simp)
      hok.1 (by omega)
    obtain ⟨F2, hF2⟩ : ∃ F2, F - ntok p = F2 + 1 := ⟨F - ntok p - 1, by omega⟩
    obtain ⟨ps2, hi2, e2⟩ := step_bar cfg F2 (i + (print p).length) (print q ++ rest) ps1
      ((its cfg as p).reverse ++ ext) tA tN hi1
    obtain ⟨ps3, e3, hi3⟩ := ihq true hp.2 F2 (i + (print p).length + 1) rest ps2 _ tA tN tA hi2 (fun hx => hx)
      (fun _ => rfl) hok.2 (by omega)
    refine ⟨ps3, ?_, by simpa [endAs] using (hat ▸ hi3)⟩
    simp only [print, List.append_assoc, List.cons_append, its, ntok, List.reverse_append, List.length_append,
      List.length_cons, List.reverse_cons, List.nil_append]
    rw [e1, hF2, e2, e3, hat]
    have a1 : F2 - ntok q = F - (ntok p + 1 + ntok q) := by omega
    have a2 : i + (print p).length + 1 + (print q).length = i + ((print p).length + ((print q).length + 1)) := by
      omega
    rw [a1, a2]
  | ext k body ih =>
    intro b hp F i rest ps ext tA tN as hi hA _ hok hF
    simp only [pp, Bool.and_eq_true, bne_iff_ne, ne_eq] at hp
    simp only [ok] at hok
    simp only [print, List.length_cons, List.length_append, List.length_nil] at hF
    obtain ⟨F', rfl⟩ : ∃ F', F = F' + 1 := ⟨F - 1, by omega⟩
    obtain ⟨ps1, e1, hi1⟩ := parseExtend_group cfg k hp.1 body ih hp.2 F' (i+1) rest ps ext false hi hok (by omega)
    refine ⟨ps1.updateDirState, ?_, by simpa [endAs, Pat.isEmpty] using hi1.upd⟩
    have hx : (cfg.extend && decide (extChar k ∈ extTypes)) = true := by simp [h.extend, extChar_ext]
    simp only [print, List.cons_append, List.append_assoc, List.nil_append, its, ntok, List.reverse_cons,
      List.reverse_nil]
    rw [extLoop_cons]
    unfold HF.extTok
    rw [if_pos hx, e1]
    simp only [if_true]
    rw [extCont_ne _ _ _ _ _ _ _ _ (extChar_ne_close k)]
    congr 2
    simp only [List.length_cons, List.length_append, List.length_nil]
    omega


/-- the top-level claim -/
def R (cfg : Cfg) (g : Pat) : Prop :=
  pp false g = true → ∀ (F i : Nat) (rest : List Char) (ps : PS) (cur : List Item) (as : Bool),
    Inv ps as false 0 → ok g rest = true → (print g).length ≤ F →
    ∃ ps', rootLoop cfg F ⟨i, print g ++ rest⟩ ps cur =
        rootLoop cfg (F - ntok g) ⟨i + (print g).length, rest⟩ ps' ((its cfg as g).reverse ++ cur) ∧
      Inv ps' (as && g.isEmpty) false 0

theorem R_of_step (cfg : Cfg) (g : Pat) (w : List Char) (x : Bool → Item) (side : List Char → Prop)
    (hs : Step cfg w x side) (hw : 1 ≤ w.length) (hprint : print g = w) (hits : ∀ as, its cfg as g = [x as])
    (hnt : ntok g = 1) (hend : g.isEmpty = false) (hside : ∀ rest, ok g rest = true → side rest) :
    R cfg g := by
  intro _ F i rest ps cur as hi hok hF
  obtain ⟨F', rfl⟩ : ∃ F', F = F' + 1 := ⟨F - 1, by rw [hprint] at hF; omega⟩
  obtain ⟨ps', hi', e⟩ := (hs as false 0 F' i rest ps cur hi (hside rest hok)).1
  refine ⟨ps', ?_, by rw [hend]; simpa using hi'⟩
  rw [hprint, hits, hnt, e]
  rfl

theorem R_all (cfg : Cfg) (h : FnX cfg) (hcls : ClsStep cfg) : ∀ g : Pat, R cfg g := by
  intro g
  induction g with
  | eps =>
    intro _ F i rest ps cur as hi _ _
    exact ⟨ps, by simp [print, its, ntok], by simpa [Pat.isEmpty] using hi⟩
  | lit c =>
    exact R_of_step cfg _ _ _ _ (step_printLit cfg h c) (by unfold printLit; split <;> simp) rfl (fun _ => rfl) rfl
      rfl (fun _ _ => trivial)
  | any =>
    exact R_of_step cfg _ _ _ _ (step_any cfg h) (by simp) rfl (fun _ => rfl) rfl
      rfl (fun rest hok => by simpa [ok] using hok)
  | star =>
    exact R_of_step cfg _ _ _ _ (step_star cfg h) (by simp) rfl (fun _ => rfl) rfl
      rfl (fun rest hok => by simpa [ok] using hok)
  | cls neg items =>
    intro hp
    exact R_of_step cfg _ _ _ _ (hcls neg items (by simpa [pp] using hp)) (by simp [print]) rfl (fun _ => rfl) rfl
      rfl (fun _ _ => trivial) hp
  | seq p q ihp ihq =>
    intro hp F i rest ps cur as hi hok hF
    simp only [pp, Bool.and_eq_true] at hp
    simp only [ok, Bool.and_eq_true] at hok
    simp only [print, List.length_append] at hF
    have hnp := ntok_le p
    obtain ⟨ps1, e1, hi1⟩ := ihp hp.1 F i (print q ++ rest) ps cur as hi hok.1 (by omega)
    obtain ⟨ps2, e2, hi2⟩ := ihq hp.2 (F - ntok p) (i + (print p).length) rest ps1 _ _ hi1 hok.2 (by omega)
    refine ⟨ps2, ?_, by simpa [Pat.isEmpty, Bool.and_assoc] using hi2⟩
    simp only [print, List.append_assoc, its, ntok, List.reverse_append, List.length_append]
    rw [e1, e2]
    have a1 : F - ntok p - ntok q = F - (ntok p + ntok q) := by omega
    have a2 : i + (print p).length + (print q).length = i + ((print p).length + (print q).length) := by omega
    rw [a1, a2]
  | alt p q => intro hp; simp [pp] at hp
  | ext k body =>
    intro hp F i rest ps cur as hi hok hF
    simp only [pp, Bool.and_eq_true, bne_iff_ne, ne_eq] at hp
    simp only [ok] at hok
    simp only [print, List.length_cons, List.length_append, List.length_nil] at hF
    obtain ⟨F', rfl⟩ : ∃ F', F = F' + 1 := ⟨F - 1, by omega⟩
    obtain ⟨ps1, e1, hi1⟩ := parseExtend_group cfg k hp.1 body (E_all cfg h hcls body) hp.2
      (2 * ('(' :: (print body ++ ')' :: rest)).length + 8) (i+1) rest ps cur true hi hok
      (by simp only [List.length_cons, List.length_append]; omega)
    refine ⟨ps1.updateDirState, ?_, by simpa [Pat.isEmpty] using hi1.upd⟩
    have hx : (cfg.extend && decide (extChar k ∈ extTypes)) = true := by simp [h.extend, extChar_ext]
    simp only [print, List.cons_append, List.append_assoc, List.nil_append, its, ntok, List.reverse_cons,
      List.reverse_nil]
    rw [rootLoop_cons]
    unfold HF.rootTok
    rw [if_pos hx]
    simp only [e1, if_true]
    congr 2
    simp only [List.length_cons, List.length_append, List.length_nil]
    omega


/-! ## Stage 2: a printed bracket is one token -/

theorem matchPosix_print (n : PosixName) (rest : List Char) :
    matchPosix (':' :: (n.name.toList ++ ':' :: ']' :: rest)) = some (n, n.name.toList.length + 3, rest) := by
  cases n <;> rfl

/-- a plain member character is pushed as is -/
theorem seqLoop_plain (cfg : Cfg) (hp : cfg.pathname = false) (F i : Nat) (c c2 : Char) (r2 : List Char)
    (st : SeqSt) (hc : plainMember c = true) (he : st.endRange = 0) :
    seqLoop cfg (F+1) c ⟨i, c2 :: r2⟩ st =
      seqLoop cfg F c2 ⟨i+1, r2⟩ { st with lastPosix := false, res := .chr c (escM c) :: st.res } := by
  simp only [plainMember, Bool.and_eq_true, bne_iff_ne, ne_eq] at hc
  obtain ⟨⟨⟨h1, h2⟩, h3⟩, h4⟩ := hc
  rw [seqLoop]
  simp only [h1, h2, h3, h4, if_false, he, bne_self_eq_false, Bool.false_and, Bool.false_eq_true, It.next]
  by_cases hs : c = '/'
  · subst hs
    have : escM '/' = false := by decide
    simp [hp, this]
  · simp only [hs, if_false, escM]
    by_cases hm : c ∈ setOperators
    · simp [hm]
    · by_cases h5 : c = '#'
      · subst h5; simp
      · have h6 : (c == '#') = false := by simp [h5]
        simp [hm, h5, h6]


/-- the state of `_sequence`'s loop between two members -/
structure J (st : SeqSt) (i : Nat) : Prop where
  endRange : st.endRange = 0
  removed : st.removed = false
  eh : st.escapeHyphen < (i : Int)

theorem seqLoop_dash (cfg : Cfg) (F i : Nat) (hi : Char) (r : List Char) (st : SeqSt)
    (hl : st.lastPosix = false) (he : st.escapeHyphen < (i : Int)) :
    seqLoop cfg (F+1) '-' ⟨i+1, hi :: r⟩ st =
      seqLoop cfg F hi ⟨i+2, r⟩
        { st with res := .dash :: st.res, escapeHyphen := ((i + 1 : Nat) : Int) + 1, endRange := i + 1 } := by
  rw [seqLoop]
  have h1 : ((i + 1 : Nat) : Int) - 1 > st.escapeHyphen := by omega
  simp only [show ('-' : Char) ≠ ']' by decide, if_false, if_true, hl, Bool.false_eq_true, h1, It.next]

theorem seqLoop_hi (cfg : Cfg) (hp : cfg.pathname = false) (F i : Nat) (lo hi c2 : Char) (e : Bool)
    (r2 : List Char) (st : SeqSt) (res0 : List CTok)
    (hhi : plainMember hi = true) (hle : lo.toNat ≤ hi.toNat) (hr : st.res = .dash :: .chr lo e :: res0)
    (he : st.endRange = i + 1) :
    seqLoop cfg (F+1) hi ⟨i+2, c2 :: r2⟩ st =
      seqLoop cfg F c2 ⟨i+3, r2⟩
        { st with lastPosix := false, res := .chr hi (escM hi) :: st.res, endRange := 0,
                  escapeHyphen := ((i + 2 : Nat) : Int) } := by
  simp only [plainMember, Bool.and_eq_true, bne_iff_ne, ne_eq] at hhi
  obtain ⟨⟨⟨h1, h2⟩, h3⟩, h4⟩ := hhi
  have hcond : (i + 1 != 0 && decide (i + 2 - 1 ≥ i + 1)) = true := by simp
  have hk : ∀ b, ¬ ((CTok.chr hi b).key cfg.isBytes < (CTok.chr lo e).key cfg.isBytes) := by
    intro b; simp only [CTok.key]; omega
  rw [seqLoop]
  simp only [h1, h2, h3, h4, if_false, he, It.next, hr, hcond, if_true, seqRangeCheck]
  by_cases hs : hi = '/'
  · subst hs
    have : escM '/' = false := by decide
    simp [hp, this, hk]
  · simp only [hs, if_false, escM]
    by_cases hm : hi ∈ setOperators
    · simp [hm, hk]
    · by_cases h5 : hi = '#'
      · subst h5; simp [hk]
      · have h6 : (hi == '#') = false := by simp [h5]
        simp [hm, h5, h6, hk]

/-- `lo-hi` -/
theorem seqLoop_range (cfg : Cfg) (hp : cfg.pathname = false) (F i : Nat) (lo hi c2 : Char) (r2 : List Char)
    (st : SeqSt) (hlo : plainMember lo = true) (hhi : plainMember hi = true) (hle : lo.toNat ≤ hi.toNat)
    (hj : J st i) :
    ∃ st', seqLoop cfg (F+3) lo ⟨i, '-' :: hi :: c2 :: r2⟩ st = seqLoop cfg F c2 ⟨i+3, r2⟩ st' ∧
      st'.res = .chr hi (escM hi) :: .dash :: .chr lo (escM lo) :: st.res ∧ J st' (i+3) := by
  rw [seqLoop_plain cfg hp _ _ _ _ _ _ hlo hj.endRange]
  rw [seqLoop_dash cfg _ _ _ _ _ rfl (by exact hj.eh)]
  rw [seqLoop_hi cfg hp _ _ lo hi _ (escM lo) _ _ st.res hhi hle rfl rfl]
  exact ⟨_, rfl, rfl, ⟨rfl, hj.removed, by show ((i + 2 : Nat) : Int) < ((i + 3 : Nat) : Int); omega⟩⟩

/-- `[:name:]` -/
theorem seqLoop_posix (cfg : Cfg) (F i : Nat) (n : PosixName) (c2 : Char) (r2 : List Char) (st : SeqSt)
    (hj : J st i) :
    ∃ st', seqLoop cfg (F+1) '[' ⟨i, ':' :: (n.name.toList ++ ':' :: ']' :: c2 :: r2)⟩ st =
        seqLoop cfg F c2 ⟨i + (n.name.toList.length + 3) + 1, r2⟩ st' ∧
      st'.res = .posix n :: st.res ∧ J st' (i + (n.name.toList.length + 3) + 1) := by
  refine ⟨{ st with res := .posix n :: st.res, lastPosix := true, endRange := 0 }, ?_, rfl,
    ⟨rfl, hj.removed, by have := hj.eh; show st.escapeHyphen < _; omega⟩⟩
  rw [seqLoop]
  simp only [show ('[' : Char) ≠ ']' by decide, show ('[' : Char) ≠ '-' by decide, if_false, if_true,
    handlePosix, matchPosix_print, hj.endRange, bne_self_eq_false, Bool.false_and, Bool.false_eq_true, It.next]

def ftok (_isBytes : Bool) : SCls → List CTok
  | .chr c => [.chr c (escM c)]
  | .range lo hi => [.chr lo (escM lo), .dash, .chr hi (escM hi)]
  | .posix n => [.posix n]

/-- the member loop on a printed member list -/
theorem seqLoop_members (cfg : Cfg) (hp : cfg.pathname = false) (rest : List Char) :
    ∀ (items : List SCls), items.all okM = true → ∀ (F i : Nat) (c : Char) (r : List Char) (st : SeqSt),
      c :: r = items.flatMap printCls ++ ']' :: rest → J st i → (items.flatMap printCls).length + 1 ≤ F →
      ∃ st', seqLoop cfg F c ⟨i, r⟩ st = some (⟨i + (items.flatMap printCls).length, rest⟩, st') ∧
        st'.res = (items.flatMap (ftok cfg.isBytes)).reverse ++ st.res ∧ st'.removed = false := by
  intro items
  induction items with
  | nil =>
    intro _ F i c r st htxt hj hF
    simp only [List.flatMap_nil, List.nil_append] at htxt
    injection htxt with h1 h2
    subst h1; subst h2
    obtain ⟨F', rfl⟩ : ∃ F', F = F' + 1 := ⟨F - 1, by simp at hF; omega⟩
    exact ⟨st, by rw [seqLoop]; simp, by simp, hj.removed⟩
  | cons m ms ih =>
    intro hall F i c r st htxt hj hF
    simp only [List.all_cons, Bool.and_eq_true] at hall
    -- what follows the member: the next member or the closing bracket
    obtain ⟨c2, r2, hnext⟩ : ∃ c2 r2, ms.flatMap printCls ++ ']' :: rest = c2 :: r2 := by
      cases h : ms.flatMap printCls ++ ']' :: rest with
      | nil => simp at h
      | cons a b => exact ⟨a, b, rfl⟩
    simp only [List.flatMap_cons, List.append_assoc, hnext] at htxt
    simp only [List.flatMap_cons, List.length_append] at hF ⊢
    cases m with
    | chr d =>
      simp only [printCls, List.cons_append, List.nil_append] at htxt
      injection htxt with h1 h2
      subst h1; subst h2
      simp only [okM] at hall
      simp only [printCls, List.length_cons, List.length_nil] at hF ⊢
      obtain ⟨F', rfl⟩ : ∃ F', F = F' + 1 := ⟨F - 1, by omega⟩
      rw [seqLoop_plain cfg hp _ _ _ _ _ _ hall.1 hj.endRange]
      have hj1 : J ({ st with lastPosix := false, res := .chr c (escM c) :: st.res } : SeqSt) (i+1) :=
        ⟨hj.endRange, hj.removed, by have := hj.eh; show st.escapeHyphen < _; omega⟩
      obtain ⟨st', e, hr, hrm⟩ := ih hall.2 F' (i+1) c2 r2 _ hnext.symm hj1 (by omega)
      refine ⟨st', ?_, ?_, hrm⟩
      · rw [e]; congr 3; omega
      · rw [hr]; simp [ftok]
    | range lo hi =>
      simp only [printCls, List.cons_append, List.nil_append] at htxt
      injection htxt with h1 h2
      subst h1; subst h2
      simp only [okM, Bool.and_eq_true, decide_eq_true_eq] at hall
      simp only [printCls, List.length_cons, List.length_nil] at hF ⊢
      obtain ⟨F', rfl⟩ : ∃ F', F = F' + 3 := ⟨F - 3, by omega⟩
      obtain ⟨st1, e1, hr1, hj1⟩ := seqLoop_range cfg hp F' i c hi c2 r2 st hall.1.1.1 hall.1.1.2 hall.1.2 hj
      rw [e1]
      obtain ⟨st', e, hr, hrm⟩ := ih hall.2 F' (i+3) c2 r2 st1 hnext.symm hj1 (by omega)
      refine ⟨st', ?_, ?_, hrm⟩
      · rw [e]; congr 3; omega
      · rw [hr, hr1]; simp [ftok]
    | posix n =>
      have htxt' : c :: r = '[' :: ':' :: (n.name.toList ++ ':' :: ']' :: c2 :: r2) := by
        rw [htxt]; simp [printCls]
      injection htxt' with h1 h2
      subst h1; subst h2
      have hlen : ("[:".toList ++ n.name.toList ++ ":]".toList).length = n.name.toList.length + 4 := by
        simp only [List.length_append]
        have : "[:".toList.length = 2 := rfl
        have : ":]".toList.length = 2 := rfl
        omega
      simp only [printCls, hlen] at hF ⊢
      obtain ⟨F', rfl⟩ : ∃ F', F = F' + 1 := ⟨F - 1, by omega⟩
      obtain ⟨st1, e1, hr1, hj1⟩ := seqLoop_posix cfg F' i n c2 r2 st hj
      rw [e1]
      obtain ⟨st', e, hr, hrm⟩ := ih hall.2 F' _ c2 r2 st1 hnext.symm hj1 (by omega)
      refine ⟨st', ?_, ?_, hrm⟩
      · rw [e]; congr 3; omega
      · rw [hr, hr1]; simp [ftok]


theorem tokAtoms_append (b : Bool) : ∀ (x y : List CTok), tokAtoms b (x ++ y) = tokAtoms b x ++ tokAtoms b y
  | [], y => rfl
  | t :: x, y => by
    have ih := tokAtoms_append b x y
    cases t <;> simp [tokAtoms, ih]

/-- the atoms of a member list start with a member, not with a bare dash -/
theorem atoms_head (b : Bool) (ms : List SCls) :
    tokAtoms b (ms.flatMap (ftok b)) = [] ∨
      ∃ x r, tokAtoms b (ms.flatMap (ftok b)) = some x :: r := by
  cases ms with
  | nil => left; rfl
  | cons m ms =>
    right
    cases m <;> simp [ftok, tokAtoms]

theorem groupAtoms_members (b : Bool) : ∀ (items : List SCls) (fuel : Nat), items.length ≤ fuel →
    groupAtoms fuel (tokAtoms b (items.flatMap (ftok b))) = items.map (mItem b) := by
  intro items
  induction items with
  | nil => intro fuel _; cases fuel <;> simp [groupAtoms, tokAtoms]
  | cons m ms ih =>
    intro fuel hf
    obtain ⟨f, rfl⟩ : ∃ f, fuel = f + 1 := ⟨fuel - 1, by simp at hf; omega⟩
    have ih' := ih f (by simp at hf; omega)
    simp only [List.flatMap_cons, tokAtoms_append, List.map_cons]
    cases m with
    | chr c =>
      simp only [ftok, tokAtoms, List.cons_append, List.nil_append, mItem]
      rcases atoms_head b ms with h | ⟨x, r, h⟩
      · rw [h] at ih' ⊢; simp [groupAtoms, ← ih']
      · rw [h] at ih' ⊢; simp [groupAtoms, ← ih']
    | range lo hi =>
      simp only [ftok, tokAtoms, List.cons_append, List.nil_append, mItem]
      simp [groupAtoms, ih']
    | posix n =>
      simp only [ftok, tokAtoms, List.cons_append, List.nil_append, mItem, posixItem]
      simp [groupAtoms, ih']


theorem atoms_length (b : Bool) : ∀ (items : List SCls),
    items.length ≤ (tokAtoms b (items.flatMap (ftok b))).length
  | [] => by simp
  | m :: ms => by
    have ih := atoms_length b ms
    simp only [List.flatMap_cons, tokAtoms_append, List.length_append, List.length_cons]
    cases m <;> simp [ftok, tokAtoms] <;> omega

/-- `_sequence` after the negation character, copied verbatim in three pieces -/
def seqStep2 (neg : Bool) (c : Char) (it : It) : Option (Char × It × List CTok × Bool) :=
      let res0 : List CTok := if neg then [.caret, .opn] else [.opn]
        if c = '[' then
          match handlePosix it res0 0 with
          | some (it', res) =>
            match it'.next with
            | none => none
            | some (c', it'') => some (c', it'', res, true)
          | none =>
            match it.next with
            | none => none
            | some (c', it') => some (c', it', .chr '[' true :: res0, false)
        else if c = '-' || c = ']' then
          match it.next with
          | none => none
          | some (c', it') => some (c', it', .chr c true :: res0, false)
        else some (c, it, res0, false)

def seqFinish (cfg : Cfg) (ps : PS) (neg : Bool) (it : It) (st : SeqSt) : Option (Re × PS × It) :=
          let toks := st.res.reverse   -- opn [caret] members…
          let body := toks.drop (if neg then 2 else 1)
          let cls : Re :=
            if st.removed && body.isEmpty then
              -- `[]` → impossible class, `[^]` → match anything (1152-1162)
              .cls (!neg) [fullRange cfg.isBytes]
            else if st.removed && !neg && body == [.chr '^' false] then
              -- the comparison is on the joined TEXT: a lone literal `^` left over also reads `[^]`
              .cls false [fullRange cfg.isBytes]
            else
              let atoms := tokAtoms cfg.isBytes body
              .cls neg (groupAtoms (atoms.length + 1) atoms)
          if cfg.pathname || ps.afterStart then
            let (pre, ps') := restrictSequence cfg ps
            some (catE pre cls, ps', it)
          else some (cls, ps, it)

def seqBody (cfg : Cfg) (ps : PS) (neg : Bool) (c : Char) (it : It) : Option (Re × PS × It) :=
      match seqStep2 neg c it with
      | none => none
      | some (c, it, res, lastPosix) =>
        match seqLoop cfg (it.rest.length + 2) c it ⟨res, 0, -1, false, lastPosix⟩ with
        | none => none
        | some (it, st) => seqFinish cfg ps neg it st

theorem sequence_eq (cfg : Cfg) (ps : PS) (it : It) :
    sequence cfg ps it =
      match it.next with
      | none => none
      | some (c, it) =>
        match (if c = '!' || c = '^' then
            match it.next with
            | none => none
            | some (c', it') => some (true, c', it')
          else some (false, c, it) : Option (Bool × Char × It)) with
        | none => none
        | some (neg, c, it) => seqBody cfg ps neg c it := by
  rfl


/-- the tail of `seqBody`, once the loop has returned -/
theorem seq_finish (cfg : Cfg) (hp : cfg.pathname = false) (ps : PS) (neg : Bool) (items : List SCls)
    (itE : It) (st : SeqSt)
    (hr : st.res = (items.flatMap (ftok cfg.isBytes)).reverse ++ (if neg then [.caret, .opn] else [.opn]))
    (hrm : st.removed = false) :
    seqFinish cfg ps neg itE st =
    some (guard cfg ps.afterStart (clsRe cfg neg items), (if ps.afterStart then ps.resetDirTrack else ps), itE) := by
  unfold seqFinish
  have hbody : (st.res.reverse).drop (if neg then 2 else 1) = items.flatMap (ftok cfg.isBytes) := by
    rw [hr]; cases neg <;> simp
  have hg := groupAtoms_members cfg.isBytes items
    ((tokAtoms cfg.isBytes (items.flatMap (ftok cfg.isBytes))).length + 1)
    (by have := atoms_length cfg.isBytes items; omega)
  simp only [hbody, hrm, Bool.false_and, Bool.false_eq_true, if_false, hg, hp, Bool.false_or]
  cases ha : ps.afterStart
  · simp [guard, clsRe]
  · simp only [if_true, restrictSequence, hp, Bool.false_eq_true, if_false, ha, Bool.true_and, guard, clsRe]
    cases cfg.dot <;> simp [catE, noDot_ne_eps]


theorem seqBody_print (cfg : Cfg) (hp : cfg.pathname = false) (ps : PS) (neg : Bool) (items : List SCls)
    (hok : clsOK items = true) (i : Nat) (c : Char) (r rest : List Char)
    (htxt : c :: r = items.flatMap printCls ++ ']' :: rest) :
    seqBody cfg ps neg c ⟨i, r⟩ =
      some (guard cfg ps.afterStart (clsRe cfg neg items), (if ps.afterStart then ps.resetDirTrack else ps),
        ⟨i + (items.flatMap printCls).length, rest⟩) := by
  unfold clsOK at hok
  simp only [Bool.and_eq_true] at hok
  obtain ⟨hall, hfirst⟩ := hok
  cases items with
  | nil => simp at hfirst
  | cons m ms =>
    simp only at hfirst
    have hfuel : ((m :: ms).flatMap printCls).length + 1 ≤ r.length + 2 := by
      have := congrArg List.length htxt
      simp only [List.length_cons, List.length_append] at this
      omega
    have hnp : ∀ d, plainMember d = true → d ≠ '[' ∧ d ≠ '-' ∧ d ≠ ']' := by
      intro d hd
      simp only [plainMember, Bool.and_eq_true, bne_iff_ne, ne_eq] at hd
      exact ⟨hd.1.1.2, hd.1.2, hd.1.1.1⟩
    -- the first member is not a POSIX class: the loop starts at its first character
    have plain : ∀ d, plainMember d = true → c = d →
        seqBody cfg ps neg c ⟨i, r⟩ =
          some (guard cfg ps.afterStart (clsRe cfg neg (m :: ms)),
            (if ps.afterStart then ps.resetDirTrack else ps),
            ⟨i + ((m :: ms).flatMap printCls).length, rest⟩) := by
      intro d hd hcd
      subst hcd
      obtain ⟨h1, h2, h3⟩ := hnp c hd
      obtain ⟨st', e, hr, hrm⟩ := seqLoop_members cfg hp rest (m :: ms) hall (r.length + 2) i c r
        ⟨if neg then [.caret, .opn] else [.opn], 0, -1, false, false⟩ htxt
        ⟨rfl, rfl, by show (-1 : Int) < _; omega⟩ hfuel
      have hs2 : seqStep2 neg c ⟨i, r⟩ = some (c, ⟨i, r⟩, (if neg then [.caret, .opn] else [.opn]), false) := by
        simp [seqStep2, h1, h2, h3]
      unfold seqBody
      simp only [hs2, e]
      exact seq_finish cfg hp ps neg (m :: ms) _ st' hr hrm
    cases m with
    | chr d =>
      simp only [List.flatMap_cons, printCls, List.cons_append, List.nil_append] at htxt
      injection htxt with h1 _
      simp only [List.all_cons, Bool.and_eq_true, okM] at hall
      exact plain d hall.1 h1
    | range lo hi =>
      simp only [List.flatMap_cons, printCls, List.cons_append, List.nil_append] at htxt
      injection htxt with h1 _
      simp only [List.all_cons, Bool.and_eq_true, okM] at hall
      exact plain lo hall.1.1.1 h1
    | posix n =>
      obtain ⟨c2, r2, hnext⟩ : ∃ c2 r2, ms.flatMap printCls ++ ']' :: rest = c2 :: r2 := by
        cases h : ms.flatMap printCls ++ ']' :: rest with
        | nil => simp at h
        | cons a b => exact ⟨a, b, rfl⟩
      have htxt' : c :: r = '[' :: ':' :: (n.name.toList ++ ':' :: ']' :: c2 :: r2) := by
        rw [htxt]; simp [printCls, hnext]
      injection htxt' with h1 h2
      subst h1; subst h2
      simp only [List.all_cons, Bool.and_eq_true] at hall
      have hlen : (printCls (.posix n)).length = n.name.toList.length + 4 := by
        simp only [printCls, List.length_append]
        have : "[:".toList.length = 2 := rfl
        have : ":]".toList.length = 2 := rfl
        omega
      have hl2 : (n.name.toList ++ ':' :: ']' :: c2 :: r2).length = n.name.toList.length + 3 + r2.length := by
        simp only [List.length_append, List.length_cons]; omega
      have hnl := congrArg List.length hnext
      simp only [List.length_append, List.length_cons] at hnl
      obtain ⟨st', e, hr, hrm⟩ := seqLoop_members cfg hp rest ms hall.2 (r2.length + 2)
        (i + (n.name.toList.length + 3) + 1) c2 r2
        ⟨.posix n :: (if neg then [.caret, .opn] else [.opn]), 0, -1, false, true⟩ hnext.symm
        ⟨rfl, rfl, by show (-1 : Int) < _; omega⟩ (by omega)
      have hs2 : seqStep2 neg '[' ⟨i, ':' :: (n.name.toList ++ ':' :: ']' :: c2 :: r2)⟩ =
          some (c2, ⟨i + (n.name.toList.length + 3) + 1, r2⟩,
            .posix n :: (if neg then [.caret, .opn] else [.opn]), true) := by
        simp [seqStep2, handlePosix, matchPosix_print, It.next]
      unfold seqBody
      simp only [hs2, e]
      have hidx : i + (n.name.toList.length + 3) + 1 + (ms.flatMap printCls).length =
          i + ((SCls.posix n :: ms).flatMap printCls).length := by
        simp only [List.flatMap_cons, List.length_append, hlen]; omega
      rw [← hidx]
      exact seq_finish cfg hp ps neg (.posix n :: ms) _ st' (by rw [hr]; simp [ftok]) hrm


theorem first_not_neg (items : List SCls) (hok : clsOK items = true) (c : Char) (r rest : List Char)
    (htxt : c :: r = items.flatMap printCls ++ ']' :: rest) : c ≠ '!' ∧ c ≠ '^' := by
  unfold clsOK at hok
  simp only [Bool.and_eq_true] at hok
  cases items with
  | nil => simp at hok
  | cons m ms =>
    have hf := hok.2
    simp only at hf
    cases m with
    | chr d =>
      simp only [List.flatMap_cons, printCls, List.cons_append, List.nil_append] at htxt
      injection htxt with h1 _
      subst h1
      simpa [firstOK] using hf
    | range lo hi =>
      simp only [List.flatMap_cons, printCls, List.cons_append, List.nil_append] at htxt
      injection htxt with h1 _
      subst h1
      simpa [firstOK] using hf
    | posix n =>
      have : c :: r = '[' :: (':' :: (n.name.toList ++ ":]".toList) ++ (ms.flatMap printCls ++ ']' :: rest)) := by
        rw [htxt]; simp [printCls]
      injection this with h1 _
      subst h1
      exact ⟨by decide, by decide⟩

/-- **`_sequence` on a printed bracket** (the text after the opening `[`) -/
theorem sequence_print (cfg : Cfg) (hp : cfg.pathname = false) (ps : PS) (neg : Bool) (items : List SCls)
    (hok : clsOK items = true) (i : Nat) (rest : List Char) :
    sequence cfg ps ⟨i, (if neg then ['!'] else []) ++ items.flatMap printCls ++ ']' :: rest⟩ =
      some (guard cfg ps.afterStart (clsRe cfg neg items), (if ps.afterStart then ps.resetDirTrack else ps),
        ⟨i + ((if neg then ['!'] else []) ++ items.flatMap printCls ++ [']']).length, rest⟩) := by
  obtain ⟨c, r, htxt⟩ : ∃ c r, c :: r = items.flatMap printCls ++ ']' :: rest := by
    cases h : items.flatMap printCls ++ ']' :: rest with
    | nil => simp at h
    | cons a b => exact ⟨a, b, rfl⟩
  obtain ⟨hc1, hc2⟩ := first_not_neg items hok c r rest htxt
  have hcond : (decide (c = '!') || decide (c = '^')) = false := by simp [hc1, hc2]
  rw [sequence_eq]
  cases neg with
  | false =>
    simp only [Bool.false_eq_true, if_false, List.nil_append, ← htxt, It.next, hcond]
    rw [seqBody_print cfg hp ps false items hok _ c r rest htxt]
    simp only [List.length_append, List.length_cons, List.length_nil]
    have hx : i + 1 + (items.flatMap printCls).length = i + ((items.flatMap printCls).length + (0 + 1)) := by omega
    rw [hx]
  | true =>
    simp only [if_true, List.cons_append, List.nil_append, ← htxt, It.next, Bool.true_or,
      decide_true]
    rw [seqBody_print cfg hp ps true items hok _ c r rest htxt]
    simp only [List.length_append, List.length_cons, List.length_nil]
    have hx : i + 1 + 1 + (items.flatMap printCls).length =
        i + ((items.flatMap printCls).length + (0 + 1) + 1) := by omega
    rw [hx]

theorem step_cls (cfg : Cfg) (h : FnX cfg) : ClsStep cfg := by
  intro neg items hok as il k F i rest ps l hi _
  have hne : '[' ∉ extTypes := by decide
  have hpr : print (.cls neg items) ++ rest =
      '[' :: ((if neg then ['!'] else []) ++ items.flatMap printCls ++ ']' :: rest) := by
    simp [print]
  have hlen : (print (.cls neg items)).length =
      ((if neg then ['!'] else []) ++ items.flatMap printCls ++ [']']).length + 1 := by
    simp [print]
  rw [hpr, hlen]
  constructor
  · obtain ⟨ps1, hi1, e⟩ := rootTok_plain cfg '[' ⟨i+1, (if neg then ['!'] else []) ++ items.flatMap printCls ++ ']' :: rest⟩
      ps l hi (fun hx => absurd hx hne)
    refine ⟨(if ps1.afterStart then ps1.resetDirTrack else ps1).updateDirState, ?_, ?_⟩
    · split
      · exact hi1.reset.upd
      · exact hi1.upd
    · rw [rootLoop_cons, e]
      simp only [HF.rootPlain, show ('[' : Char) ≠ '.' by decide, show ('[' : Char) ≠ '*' by decide,
        show ('[' : Char) ≠ '?' by decide, show ('[' : Char) ≠ '/' by decide, show ('[' : Char) ≠ '\\' by decide,
        if_false, if_true, sequence_print cfg h.pathname ps1 neg items hok, hi1.afterStart]
      congr 2
      omega
  · intro a n
    obtain ⟨ps1, hi1, e⟩ := extTok_plain' cfg F '[' ⟨i+1, (if neg then ['!'] else []) ++ items.flatMap printCls ++ ']' :: rest⟩
      ps l a n hi (fun hx => absurd hx hne)
    refine ⟨(if ps1.afterStart then ps1.resetDirTrack else ps1).updateDirState, ?_, ?_⟩
    · split
      · exact hi1.reset.upd
      · exact hi1.upd
    · rw [extLoop_cons, e]
      simp only [HF.extPlain, show ('[' : Char) ≠ '.' by decide, show ('[' : Char) ≠ '*' by decide,
        show ('[' : Char) ≠ '?' by decide, show ('[' : Char) ≠ '/' by decide, show ('[' : Char) ≠ '\\' by decide,
        show ('[' : Char) ≠ '|' by decide,
        if_false, if_true, sequence_print cfg h.pathname ps1 neg items hok, hi1.afterStart]
      rw [extCont_ne _ _ _ _ _ _ _ _ (by decide)]
      congr 2
      omega


/-! ## Part E: the whole pass on a printed pattern -/

theorem rootLoop_end (cfg : Cfg) (F i : Nat) (ps : PS) (cur : List Item) :
    rootLoop cfg (F+1) ⟨i, []⟩ ps cur = (ps, cur) := by
  rw [HF.rootLoop_eq]; rfl

/-- a printed pattern never is the lone backslash that `_parse` blanks out -/
theorem print_bs : ∀ (g : Pat) (t : List Char), print g = '\\' :: t → t ≠ [] := by
  intro g
  induction g with
  | eps => intro t h; simp [print] at h
  | lit c =>
    intro t h
    simp only [print, printLit] at h
    split at h
    · injection h with _ h; rw [← h]; simp
    · rename_i hc
      injection h with h _
      subst h
      simp [escSet] at hc
  | any => intro t h; simp [print] at h
  | star => intro t h; simp [print] at h
  | cls neg items => intro t h; simp [print] at h
  | seq p q ihp ihq =>
    intro t h
    simp only [print] at h
    cases hp : print p with
    | nil => rw [hp] at h; exact ihq t h
    | cons c r =>
      rw [hp] at h
      injection h with h1 h2
      subst h1
      have := ihp r hp
      rw [← h2]
      simp [this]
  | alt p q ihp _ =>
    intro t h
    simp only [print] at h
    cases hp : print p with
    | nil => rw [hp] at h; simp at h
    | cons c r =>
      rw [hp] at h
      injection h with h1 h2
      rw [← h2]; simp
  | ext k b _ =>
    intro t h
    simp only [print] at h
    injection h with h1 h2
    rw [← h2]; simp

theorem print_ne_bs (g : Pat) : print g ≠ ['\\'] := fun h => print_bs g [] h rfl

theorem its_nil_of_print_nil (cfg : Cfg) : ∀ (g : Pat) (as : Bool), print g = [] → its cfg as g = [] := by
  intro g
  induction g with
  | eps => intro as _; rfl
  | lit c => intro as h; simp only [print, printLit] at h; split at h <;> simp at h
  | any => intro as h; simp [print] at h
  | star => intro as h; simp [print] at h
  | cls neg items => intro as h; simp [print] at h
  | seq p q ihp ihq =>
    intro as h
    simp only [print, List.append_eq_nil_iff] at h
    simp [its, ihp _ h.1, ihq _ h.2]
  | alt p q => intro as h; simp [print] at h
  | ext k b => intro as h; simp [print] at h

theorem its_WF (cfg : Cfg) : ∀ (g : Pat) (b as : Bool), pp b g = true → WF false (its cfg as g) := by
  intro g
  induction g with
  | eps => intro b as _; exact .nil
  | lit c => intro b as _; exact .re .nil
  | any => intro b as _; exact .re .nil
  | star => intro b as _; exact .re .nil
  | cls neg items => intro b as _; exact .re .nil
  | seq p q ihp ihq =>
    intro b as h
    simp only [pp, Bool.and_eq_true] at h
    exact (ihp _ _ h.1).append (ihq _ _ h.2)
  | alt p q ihp ihq =>
    intro b as h
    simp only [pp, Bool.and_eq_true] at h
    exact (ihp _ _ h.1.2).append (.bar (ihq _ _ h.2))
  | ext k body ih =>
    intro b as h
    simp only [pp, Bool.and_eq_true] at h
    exact .group (ih _ _ h.2) .nil

/-- the `^(?s:…)$` / `^(?si:…)$` wrapper of `_parse` (= `C01.wrap`) -/
def wrap (ci : Bool) (r : Re) : Re := .cat .bos (.cat (.flags true ci r) .eos)

theorem root_print (cfg : Cfg) (h : FnX cfg) (drive : List Char → DriveInfo) (g : Pat)
    (hp : pp false g = true) (hok : ok g [] = true) (ps : PS) (hi : Inv ps false false 0) :
    ∃ ps', root cfg drive (print g) ps [.empty] = .ok (ps', (its cfg true g).reverse ++ [.empty]) ∧
      ps'.matchbase = false ∧ ps'.extmatchbase = false := by
  have hi' : Inv ps.setAfterStart true false 0 :=
    ⟨rfl, rfl, hi.inList, hi.invExt, hi.mb, hi.emb⟩
  obtain ⟨ps1, e1, hi1⟩ := R_all cfg h (step_cls cfg h) g hp ((print g).length + 1) 0 [] ps.setAfterStart [.empty] true hi' hok
    (by omega)
  have hnt := ntok_le g
  obtain ⟨F2, hF2⟩ : ∃ F2, (print g).length + 1 - ntok g = F2 + 1 := ⟨(print g).length - ntok g, by omega⟩
  rw [hF2, rootLoop_end, List.append_nil] at e1
  refine ⟨ps1, ?_, hi1.mb, hi1.emb⟩
  unfold root
  simp only [h.wdd, h.pathname, h.realpath, Bool.false_and, Bool.false_eq_true, ite_false, Bool.and_false,
    Bool.not_false]
  simp only [e1, cleanUp_zero cfg ps1 _ false hi1.invExt]

theorem parseItems_print (cfg : Cfg) (h : FnX cfg) (drive : List Char → DriveInfo) (g : Pat)
    (hp : pp false g = true) (hok : ok g [] = true) :
    parseItems cfg drive (print g) =
      .ok { items := .empty :: its cfg true g, ci := !cfg.caseSensitive } := by
  unfold parseItems
  simp only [anchorStep, h.anchor, Bool.false_eq_true, ite_false]
  simp only [parsePrepend, h.matchbase, h.extmatchbase, Bool.or_self, Bool.false_eq_true, ite_false]
  unfold parseBody
  simp only [print_ne_bs g, ite_false]
  by_cases hemp : (print g).isEmpty = true
  · have : print g = [] := by simpa using hemp
    simp [this, its_nil_of_print_nil cfg g true this]
  · obtain ⟨ps', hr, hm, he⟩ := root_print cfg h drive g hp hok
      { matchbase := false, extmatchbase := false, globstar := cfg.globstar0 } ⟨rfl, rfl, rfl, rfl, rfl, rfl⟩
    simp only [hemp, Bool.false_eq_true, ite_false, hr]
    simp [hm, he]

theorem toRe_print (cfg : Cfg) (g : Pat) (hp : pp false g = true) (ci : Bool) :
    ∃ r, (Parsed.toRe { items := .empty :: its cfg true g, ci := ci }) = some r ∧
      Eqv r (wrap ci (comp cfg.isBytes cfg.dot true g)) := by
  have hwf : WF false (Item.empty :: its cfg true g) := .empty (its_WF cfg g false true hp)
  obtain ⟨r, hr⟩ := Option.isSome_iff_exists.mp (Parsed.toRe_isSome_of_WF ⟨_, ci⟩ hwf)
  refine ⟨r, hr, ?_⟩
  unfold Parsed.toRe at hr
  simp only [] at hr
  cases hin : Item.listToRe (2 * Item.sizeL (Item.empty :: its cfg true g) + 4) (Item.empty :: its cfg true g) with
  | none => simp [hin] at hr
  | some inner =>
    simp [hin] at hr
    subst hr
    obtain ⟨f', xs, _, hm, hx⟩ := listToRe_inv hin
    have hnb : HF.NoBar (Item.empty :: its cfg true g) := HF.NoBar.cons rfl (its_noBar cfg g true hp)
    rw [HF.splitBars_noBar _ hnb] at hm
    simp only [List.mapM_cons, List.mapM_nil] at hm
    cases h1 : Item.seqToRe f' (Item.empty :: its cfg true g) with
    | none => simp [h1] at hm
    | some x =>
      simp [h1] at hm
      have hx' : inner = x := by rw [hx, ← hm]; rfl
      cases f' with
      | zero => simp [Item.seqToRe] at h1
      | succ f =>
        simp only [Item.seqToRe] at h1
        have h1' : Item.seqToRe f (its cfg true g ++ []) = some x := by simpa using h1
        obtain ⟨f2, x2, hx2, he⟩ := (its_toRe cfg g).1 hp true f [] x h1'
        rw [seqToRe_nil hx2] at he
        have := he.trans (Eqv.cat_eps _)
        rw [hx']
        exact (Eqv.refl _).cat ((this.flags true ci).cat (Eqv.refl _))

/-! ## Stage 4: one `!(…)` on the top-level spine, followed by literal text (`Pat.c01Scope`) -/

/-- the printable fragment at top level -/
def ppTop : Pat → Bool
  | .seq (.ext .neg body) rest => pp true body && rest.litOnly
  | .ext .neg body => pp true body
  | .seq a b => pp false a && ppTop b
  | g => pp false g

/-- what the pass has pushed when the loop ends (the `!(` still open: a placeholder) -/
def itsPre (cfg : Cfg) : Bool → Pat → List Item
  | as, .seq (.ext .neg body) rest =>
    .invOpen cfg.capture (its cfg as body) :: .ph (negStar cfg.dot as) :: its cfg false rest
  | as, .ext .neg body => [.invOpen cfg.capture (its cfg as body), .ph (negStar cfg.dot as)]
  | as, .seq a b => its cfg as a ++ itsPre cfg (as && a.isEmpty) b
  | as, g => its cfg as g

/-- … and after `clean_up_inverse` -/
def itsTop (cfg : Cfg) : Bool → Pat → List Item
  | as, .seq (.ext .neg body) rest =>
    .invOpen cfg.capture (its cfg as body) ::
      .closed (its cfg false rest) (some .eos) (negStar cfg.dot as) :: its cfg false rest
  | as, .ext .neg body =>
    [.invOpen cfg.capture (its cfg as body), .closed [] (some .eos) (negStar cfg.dot as)]
  | as, .seq a b => its cfg as a ++ itsTop cfg (as && a.isEmpty) b
  | as, g => its cfg as g

/-- `1` if the pattern has its `!(…)`, else `0` -/
def nNeg : Pat → Nat
  | .seq (.ext .neg _) _ => 1
  | .ext .neg _ => 1
  | .seq _ b => nNeg b
  | _ => 0

theorem ppTop_seq (a b : Pat) (h : ∀ body, a ≠ .ext .neg body) : ppTop (.seq a b) = (pp false a && ppTop b) := by
  cases a with
  | ext k body => cases k <;> first | rfl | exact absurd rfl (h body)
  | _ => rfl

theorem itsPre_seq (cfg : Cfg) (as : Bool) (a b : Pat) (h : ∀ body, a ≠ .ext .neg body) :
    itsPre cfg as (.seq a b) = its cfg as a ++ itsPre cfg (as && a.isEmpty) b := by
  cases a with
  | ext k body => cases k <;> first | rfl | exact absurd rfl (h body)
  | _ => rfl

theorem itsTop_seq (cfg : Cfg) (as : Bool) (a b : Pat) (h : ∀ body, a ≠ .ext .neg body) :
    itsTop cfg as (.seq a b) = its cfg as a ++ itsTop cfg (as && a.isEmpty) b := by
  cases a with
  | ext k body => cases k <;> first | rfl | exact absurd rfl (h body)
  | _ => rfl

theorem nNeg_seq (a b : Pat) (h : ∀ body, a ≠ .ext .neg body) : nNeg (.seq a b) = nNeg b := by
  cases a with
  | ext k body => cases k <;> first | rfl | exact absurd rfl (h body)
  | _ => rfl

theorem ppTop_of_pp (g : Pat) (h : pp false g = true) : ppTop g = true ∧ nNeg g = 0 ∧
    (∀ cfg as, itsPre cfg as g = its cfg as g) ∧ (∀ cfg as, itsTop cfg as g = its cfg as g) := by
  induction g with
  | seq a b _ ihb =>
    simp only [pp, Bool.and_eq_true] at h
    have hn : ∀ body, a ≠ .ext .neg body := by
      intro body e; subst e; simp [pp] at h
    obtain ⟨h1, h2, h3, h4⟩ := ihb h.2
    refine ⟨by rw [ppTop_seq a b hn, h.1, h1]; rfl, by rw [nNeg_seq a b hn, h2], ?_, ?_⟩
    · intro cfg as; rw [itsPre_seq cfg as a b hn, h3]; rfl
    · intro cfg as; rw [itsTop_seq cfg as a b hn, h4]; rfl
  | ext k body =>
    cases k <;> first | exact ⟨h, rfl, fun _ _ => rfl, fun _ _ => rfl⟩ | (simp [pp] at h)
  | _ => exact ⟨h, rfl, fun _ _ => rfl, fun _ _ => rfl⟩


theorem litOnly_pp : ∀ g : Pat, g.litOnly = true → pp false g = true := by
  intro g
  induction g with
  | seq a b iha ihb =>
    intro h; simp only [Pat.litOnly, Bool.and_eq_true] at h
    simp [pp, iha h.1, ihb h.2]
  | eps => intro _; rfl
  | lit c => intro _; rfl
  | _ => intro h; simp [Pat.litOnly] at h

theorem its_litOnly (cfg : Cfg) : ∀ (g : Pat) (as : Bool), g.litOnly = true → its cfg as g = its cfg false g := by
  intro g
  induction g with
  | seq a b iha ihb =>
    intro as h; simp only [Pat.litOnly, Bool.and_eq_true] at h
    simp only [its, iha as h.1, ihb _ h.2, Bool.false_and]
  | eps => intro _ _; rfl
  | lit c => intro _ _; rfl
  | _ => intro _ h; simp [Pat.litOnly] at h

/-- literal text at top level, whatever the number of open `!(` -/
theorem R_lit (cfg : Cfg) (h : FnX cfg) : ∀ (g : Pat), g.litOnly = true →
    ∀ (k F i : Nat) (rest : List Char) (ps : PS) (cur : List Item) (as : Bool),
      Inv ps as false k → (print g).length ≤ F →
      ∃ ps' as', rootLoop cfg F ⟨i, print g ++ rest⟩ ps cur =
          rootLoop cfg (F - ntok g) ⟨i + (print g).length, rest⟩ ps' ((its cfg false g).reverse ++ cur) ∧
        Inv ps' as' false k := by
  intro g
  induction g with
  | eps =>
    intro _ k F i rest ps cur as hi _
    exact ⟨ps, as, by simp [print, its, ntok], hi⟩
  | lit c =>
    intro _ k F i rest ps cur as hi hF
    have hw : 1 ≤ (printLit c).length := by unfold printLit; split <;> simp
    obtain ⟨F', rfl⟩ : ∃ F', F = F' + 1 := ⟨F - 1, by simp only [print] at hF; omega⟩
    obtain ⟨ps', hi', e⟩ := (step_printLit cfg h c as false k F' i rest ps cur hi trivial).1
    exact ⟨ps', false, by simp only [print, its, ntok]; rw [e]; rfl, hi'⟩
  | seq p q ihp ihq =>
    intro hl k F i rest ps cur as hi hF
    simp only [Pat.litOnly, Bool.and_eq_true] at hl
    simp only [print, List.length_append] at hF
    have hnp := ntok_le p
    obtain ⟨ps1, as1, e1, hi1⟩ := ihp hl.1 k F i (print q ++ rest) ps cur as hi (by omega)
    obtain ⟨ps2, as2, e2, hi2⟩ := ihq hl.2 k (F - ntok p) (i + (print p).length) rest ps1 _ as1 hi1 (by omega)
    refine ⟨ps2, as2, ?_, hi2⟩
    simp only [print, List.append_assoc, its, ntok, List.reverse_append, List.length_append, Bool.false_and]
    rw [e1, e2]
    have a1 : F - ntok p - ntok q = F - (ntok p + ntok q) := by omega
    have a2 : i + (print p).length + (print q).length = i + ((print p).length + (print q).length) := by omega
    rw [a1, a2]
  | _ => intro hl; simp [Pat.litOnly] at hl

theorem invStar_fn (cfg : Cfg) (h : FnX cfg) (as : Bool) (ps : PS) :
    HF.invStar cfg as ps = negStar cfg.dot as := by
  have hn : cfg.needChar = Frag.needChar := by simp [Cfg.needChar, h.pathname]
  simp [HF.invStar, negStar, h.pathname, hn]

theorem Inv.peFinish' {t ps : PS} {as as' il : Bool} {k k' : Nat} (ht : Inv t as il k) (h : Inv ps as' true k') :
    Inv (HF.peFinish t true { ps with invExt := ps.invExt + 1 }) false il (k' + 1) := by
  have : Inv ({ ps with invExt := ps.invExt + 1 } : PS) as' true (k' + 1) :=
    ⟨h.afterStart, h.dirStart, h.inList, by simp [h.invExt], h.mb, h.emb⟩
  exact ht.peFinish this

/-- `!(body)` at top level: the body, then an open placeholder -/
theorem parseExtend_neg (cfg : Cfg) (h : FnX cfg) (body : Pat) (hE : E cfg body)
    (hpp : pp true body = true) (F i : Nat) (rest : List Char) (ps : PS) (cur : List Item)
    {as : Bool} (hi : Inv ps as false 0) (hok : ok body (')' :: rest) = true)
    (hF : (print body).length + 2 ≤ F) :
    ∃ ps', parseExtend cfg F '!' ⟨i, '(' :: (print body ++ ')' :: rest)⟩ ps cur true =
        (true, ps', ⟨i + (print body).length + 2, rest⟩,
          .ph (negStar cfg.dot as) :: .invOpen cfg.capture (its cfg as body) :: cur) ∧
      Inv ps' false false 1 := by
  obtain ⟨F1, rfl⟩ : ∃ F1, F = F1 + 1 := ⟨F - 1, by omega⟩
  rw [HF.parseExtend_eq]
  simp only [It.next, bne_self_eq_false, Bool.false_eq_true, if_false]
  obtain ⟨ps1, e1, hi1⟩ := hE true hpp F1 (i+1) (')' :: rest) (HF.peEnter ps '!' true) [] ps.afterStart
    ps.invNest as (hi.peEnter _ _) (fun h => hi.afterStart.trans h) (fun _ => hi.afterStart.symm) hok (by omega)
  have hnt := ntok_le body
  obtain ⟨F2, hF2⟩ : ∃ F2, F1 - ntok body = F2 + 1 := ⟨F1 - ntok body - 1, by omega⟩
  rw [e1, hF2, extLoop_close]
  have hb : HF.peBuild cfg '!' ps (its cfg as body) cur ps1.updateDirState =
      (.ph (negStar cfg.dot as) :: .invOpen cfg.capture (its cfg as body) :: cur,
        { ps1.updateDirState with invExt := ps1.updateDirState.invExt + 1 }) := by
    simp [HF.peBuild, invStar_fn cfg h, hi.afterStart]
  simp only [List.append_nil, List.reverse_reverse, hb, hi.inList, Bool.false_eq_true, if_false]
  refine ⟨_, ?_, hi.peFinish' hi1.upd⟩
  have : i + 1 + (print body).length + 1 = i + (print body).length + 2 := by omega
  rw [this]


theorem rootLoop_congr (cfg : Cfg) {F F' i i' : Nat} (rest : List Char) (ps : PS) (cur : List Item)
    (hF : F = F') (hi : i = i') :
    rootLoop cfg F ⟨i, rest⟩ ps cur = rootLoop cfg F' ⟨i', rest⟩ ps cur := by
  subst hF; subst hi; rfl

/-- the top-level claim for the Stage-4 fragment -/
def R4 (cfg : Cfg) (g : Pat) : Prop :=
  ppTop g = true → ∀ (F i : Nat) (rest : List Char) (ps : PS) (cur : List Item) (as : Bool),
    Inv ps as false 0 → ok g rest = true → (print g).length ≤ F →
    ∃ ps' as', rootLoop cfg F ⟨i, print g ++ rest⟩ ps cur =
        rootLoop cfg (F - ntok g) ⟨i + (print g).length, rest⟩ ps' ((itsPre cfg as g).reverse ++ cur) ∧
      Inv ps' as' false (nNeg g)

theorem R4_of_R (cfg : Cfg) (h : FnX cfg) (g : Pat) (hpp : pp false g = true) : R4 cfg g := by
  intro _ F i rest ps cur as hi hok hF
  obtain ⟨_, h2, h3, _⟩ := ppTop_of_pp g hpp
  obtain ⟨ps', e, hi'⟩ := R_all cfg h (step_cls cfg h) g hpp F i rest ps cur as hi hok hF
  exact ⟨ps', _, by rw [h3]; exact e, by rw [h2]; exact hi'⟩

theorem neg_step (cfg : Cfg) (h : FnX cfg) (body : Pat) (hpp : pp true body = true)
    (F i : Nat) (rest : List Char) (ps : PS) (cur : List Item) {as : Bool} (hi : Inv ps as false 0)
    (hok : ok body (')' :: rest) = true) :
    ∃ ps', rootLoop cfg (F+1) ⟨i, '!' :: '(' :: (print body ++ ')' :: rest)⟩ ps cur =
        rootLoop cfg F ⟨i + (print body).length + 3, rest⟩ ps'
          (.ph (negStar cfg.dot as) :: .invOpen cfg.capture (its cfg as body) :: cur) ∧
      Inv ps' false false 1 := by
  obtain ⟨ps1, e1, hi1⟩ := parseExtend_neg cfg h body (E_all cfg h (step_cls cfg h) body) hpp
    (2 * ('(' :: (print body ++ ')' :: rest)).length + 8) (i+1) rest ps cur hi hok
    (by simp only [List.length_cons, List.length_append]; omega)
  have hx : (cfg.extend && decide ('!' ∈ extTypes)) = true := by
    have : '!' ∈ extTypes := by decide
    simp [h.extend, this]
  refine ⟨ps1.updateDirState, ?_, hi1.upd⟩
  rw [rootLoop_cons]
  unfold HF.rootTok
  rw [if_pos hx]
  simp only [e1, if_true]
  have : i + 1 + (print body).length + 2 = i + (print body).length + 3 := by omega
  rw [this]

theorem R4_all (cfg : Cfg) (h : FnX cfg) : ∀ g : Pat, R4 cfg g := by
  intro g
  induction g with
  | seq a b _ ihb =>
    by_cases hn : ∃ body, a = .ext .neg body
    · obtain ⟨body, rfl⟩ := hn
      intro hp F i rest ps cur as hi hok hF
      simp only [ppTop, Bool.and_eq_true] at hp
      simp only [ok, Bool.and_eq_true] at hok
      simp only [print, List.length_cons, List.length_append, List.length_nil] at hF
      obtain ⟨F', rfl⟩ : ∃ F', F = F' + 1 := ⟨F - 1, by omega⟩
      obtain ⟨ps1, e1, hi1⟩ := neg_step cfg h body hp.1 F' i (print b ++ rest) ps cur hi hok.1
      have hnb := ntok_le b
      obtain ⟨ps2, as2, e2, hi2⟩ := R_lit cfg h b hp.2 1 F' (i + (print body).length + 3) rest ps1 _ false hi1
        (by omega)
      refine ⟨ps2, as2, ?_, hi2⟩
      simp only [print, extChar, List.cons_append, List.append_assoc, List.nil_append, itsPre, ntok,
        List.reverse_cons, List.length_cons, List.length_append]
      rw [e1, e2]
      exact rootLoop_congr cfg _ _ _ (by omega) (by omega)
    · have hn' : ∀ body, a ≠ .ext .neg body := fun body e => hn ⟨body, e⟩
      intro hp F i rest ps cur as hi hok hF
      rw [ppTop_seq a b hn'] at hp
      simp only [Bool.and_eq_true] at hp
      simp only [ok, Bool.and_eq_true] at hok
      simp only [print, List.length_append] at hF
      have hnp := ntok_le a
      obtain ⟨ps1, e1, hi1⟩ := R_all cfg h (step_cls cfg h) a hp.1 F i (print b ++ rest) ps cur as hi hok.1
        (by omega)
      obtain ⟨ps2, as2, e2, hi2⟩ := ihb hp.2 (F - ntok a) (i + (print a).length) rest ps1 _ _ hi1 hok.2 (by omega)
      refine ⟨ps2, as2, ?_, by rw [nNeg_seq a b hn']; exact hi2⟩
      rw [itsPre_seq cfg as a b hn']
      simp only [print, List.append_assoc, ntok, List.reverse_append, List.length_append]
      rw [e1, e2]
      have a1 : F - ntok a - ntok b = F - (ntok a + ntok b) := by omega
      have a2 : i + (print a).length + (print b).length = i + ((print a).length + (print b).length) := by omega
      rw [a1, a2]
  | ext k body =>
    by_cases hk : k = .neg
    · subst hk
      intro hp F i rest ps cur as hi hok hF
      simp only [ppTop] at hp
      simp only [ok] at hok
      simp only [print, List.length_cons, List.length_append, List.length_nil] at hF
      obtain ⟨F', rfl⟩ : ∃ F', F = F' + 1 := ⟨F - 1, by omega⟩
      obtain ⟨ps1, e1, hi1⟩ := neg_step cfg h body hp F' i rest ps cur hi hok
      refine ⟨ps1, false, ?_, hi1⟩
      simp only [print, extChar, List.cons_append, List.append_assoc, List.nil_append, itsPre, ntok,
        List.reverse_cons, List.length_cons, List.length_append, List.length_nil, List.reverse_nil]
      rw [e1]
      exact rootLoop_congr cfg _ _ _ (by omega) (by omega)
    · intro hp
      have : pp false (.ext k body) = true := by
        cases k <;> first | exact hp | exact absurd rfl hk
      exact R4_of_R cfg h _ this hp
  | eps => exact R4_of_R cfg h _ rfl
  | lit c => exact R4_of_R cfg h _ rfl
  | any => exact R4_of_R cfg h _ rfl
  | star => exact R4_of_R cfg h _ rfl
  | cls neg items => intro hp; exact R4_of_R cfg h _ hp hp
  | alt p q => intro hp; simp [ppTop, pp] at hp


/-! ### `clean_up_inverse` at the end of `root` -/

def isPh : Item → Bool
  | .ph _ => true
  | _ => false

def NoPh (l : List Item) : Prop := ∀ x ∈ l, isPh x = false

theorem NoPh.append {a b : List Item} (ha : NoPh a) (hb : NoPh b) : NoPh (a ++ b) := by
  intro x hx
  rcases List.mem_append.mp hx with h | h
  · exact ha x h
  · exact hb x h

theorem NoPh.reverse {a : List Item} (ha : NoPh a) : NoPh a.reverse :=
  fun x hx => ha x (List.mem_reverse.mp hx)

theorem its_noPh (cfg : Cfg) : ∀ (g : Pat) (as : Bool), NoPh (its cfg as g) := by
  intro g
  induction g with
  | seq a b iha ihb => intro as; exact (iha _).append (ihb _)
  | alt a b iha ihb =>
    intro as
    refine (iha _).append ?_
    intro x hx
    rcases List.mem_cons.mp hx with rfl | h
    · rfl
    · exact ihb _ x h
  | eps => intro as x hx; cases hx
  | _ =>
    intro as x hx
    simp only [its, List.mem_singleton] at hx
    subst hx; rfl

theorem cleanUpGo_append (cfg : Cfg) (nested : Bool) : ∀ (A B done : List Item) (n : Nat), NoPh A →
    cleanUpGo cfg nested (A ++ B) done n = cleanUpGo cfg nested B (A.reverse ++ done) n
  | [], B, done, n, _ => rfl
  | x :: A, B, done, n, h => by
    have hx : isPh x = false := h x List.mem_cons_self
    have ih := cleanUpGo_append cfg nested A B (x :: done) n (fun y hy => h y (List.mem_cons_of_mem _ hy))
    cases x <;> first | (simp [isPh] at hx; done) | (simp only [List.cons_append, cleanUpGo, ih]; simp)

theorem cleanUpGo_noPh (cfg : Cfg) (nested : Bool) (X done : List Item) (n : Nat) (h : NoPh X) :
    cleanUpGo cfg nested X done n = (X.reverse ++ done, n) := by
  have := cleanUpGo_append cfg nested X [] done n h
  simpa [cleanUpGo] using this

theorem eraseCapL_lits (cfg : Cfg) : ∀ (g : Pat), g.litOnly = true →
    Item.eraseCapL (its cfg false g) = its cfg false g := by
  have happ : ∀ a b : List Item, Item.eraseCapL (a ++ b) = Item.eraseCapL a ++ Item.eraseCapL b := by
    intro a b
    induction a with
    | nil => rfl
    | cons x a ih => simp [Item.eraseCapL, ih]
  intro g
  induction g with
  | seq a b iha ihb =>
    intro h; simp only [Pat.litOnly, Bool.and_eq_true] at h
    simp only [its, Bool.false_and, happ, iha h.1, ihb h.2]
  | eps => intro _; rfl
  | lit c => intro _; simp [its, litItem, Item.eraseCapL, Item.eraseCap]
  | _ => intro h; simp [Pat.litOnly] at h

theorem cleanUp_top (cfg : Cfg) (h : FnX cfg) : ∀ (g : Pat), ppTop g = true → ∀ (as : Bool) (Y : List Item),
    NoPh Y →
    cleanUpGo cfg false ((itsPre cfg as g).reverse ++ Y) [] 0 = (Y.reverse ++ itsTop cfg as g, nNeg g) := by
  have heop : cfg.eop = .eos := by simp [Cfg.eop, h.pathname]
  have negCase : ∀ (as : Bool) (B L Y : List Item) (_ : NoPh L) (_ : Item.eraseCapL L = L) (_ : NoPh Y),
      cleanUpGo cfg false ((Item.invOpen cfg.capture B :: Item.ph (negStar cfg.dot as) :: L).reverse ++ Y) [] 0 =
        (Y.reverse ++ (Item.invOpen cfg.capture B :: Item.closed L (some .eos) (negStar cfg.dot as) :: L), 1) := by
    intro as B L Y hL hE hY
    have e1 : (Item.invOpen cfg.capture B :: Item.ph (negStar cfg.dot as) :: L).reverse ++ Y =
        L.reverse ++ (Item.ph (negStar cfg.dot as) :: Item.invOpen cfg.capture B :: Y) := by simp
    rw [e1, cleanUpGo_append cfg false _ _ _ _ hL.reverse]
    simp only [List.reverse_reverse, List.append_nil, cleanUpGo, hE, ite_self, heop, Bool.false_eq_true, if_false]
    rw [cleanUpGo_noPh _ _ _ _ _ hY]
  intro g
  induction g with
  | seq a b _ ihb =>
    by_cases hn : ∃ body, a = .ext .neg body
    · obtain ⟨body, rfl⟩ := hn
      intro hp as Y hY
      simp only [ppTop, Bool.and_eq_true] at hp
      simp only [itsPre, itsTop, nNeg]
      exact negCase as _ _ Y (its_noPh cfg b false) (eraseCapL_lits cfg b hp.2) hY
    · have hn' : ∀ body, a ≠ .ext .neg body := fun body e => hn ⟨body, e⟩
      intro hp as Y hY
      rw [ppTop_seq a b hn'] at hp
      simp only [Bool.and_eq_true] at hp
      rw [itsPre_seq cfg as a b hn', itsTop_seq cfg as a b hn', nNeg_seq a b hn', List.reverse_append,
        List.append_assoc, ihb hp.2 _ _ ((its_noPh cfg a as).reverse.append hY)]
      simp
  | ext k body =>
    by_cases hk : k = .neg
    · subst hk
      intro hp as Y hY
      simp only [itsPre, itsTop, nNeg]
      exact negCase as _ [] Y (fun x hx => by cases hx) rfl hY
    · intro hp as Y hY
      have e1 : itsPre cfg as (.ext k body) = its cfg as (.ext k body) := by
        cases k <;> first | rfl | exact absurd rfl hk
      have e2 : itsTop cfg as (.ext k body) = its cfg as (.ext k body) := by
        cases k <;> first | rfl | exact absurd rfl hk
      have e3 : nNeg (.ext k body) = 0 := by
        cases k <;> first | rfl | exact absurd rfl hk
      rw [e1, e2, e3, cleanUpGo_noPh _ _ _ _ _ ((its_noPh cfg _ as).reverse.append hY)]
      simp
  | eps => intro _ as Y hY; simp [itsPre, itsTop, nNeg, its, cleanUpGo_noPh _ _ _ _ _ hY]
  | lit c =>
    intro _ as Y hY
    rw [show itsPre cfg as (.lit c) = its cfg as (.lit c) from rfl,
      cleanUpGo_noPh _ _ _ _ _ ((its_noPh cfg _ as).reverse.append hY)]
    simp [itsTop, nNeg]
  | any =>
    intro _ as Y hY
    rw [show itsPre cfg as .any = its cfg as .any from rfl,
      cleanUpGo_noPh _ _ _ _ _ ((its_noPh cfg _ as).reverse.append hY)]
    simp [itsTop, nNeg]
  | star =>
    intro _ as Y hY
    rw [show itsPre cfg as .star = its cfg as .star from rfl,
      cleanUpGo_noPh _ _ _ _ _ ((its_noPh cfg _ as).reverse.append hY)]
    simp [itsTop, nNeg]
  | cls neg items =>
    intro _ as Y hY
    rw [show itsPre cfg as (.cls neg items) = its cfg as (.cls neg items) from rfl,
      cleanUpGo_noPh _ _ _ _ _ ((its_noPh cfg _ as).reverse.append hY)]
    simp [itsTop, nNeg]
  | alt p q => intro hp; simp [ppTop, pp] at hp

theorem itsPre_eq_itsTop (cfg : Cfg) : ∀ (g : Pat) (as : Bool), nNeg g = 0 → itsPre cfg as g = itsTop cfg as g := by
  intro g
  induction g with
  | seq a b _ ihb =>
    intro as h0
    by_cases hn : ∃ body, a = .ext .neg body
    · obtain ⟨body, rfl⟩ := hn; simp [nNeg] at h0
    · have hn' : ∀ body, a ≠ .ext .neg body := fun body e => hn ⟨body, e⟩
      rw [nNeg_seq a b hn'] at h0
      rw [itsPre_seq cfg as a b hn', itsTop_seq cfg as a b hn', ihb _ h0]
  | ext k body =>
    intro as h0
    cases k <;> first | rfl | (simp [nNeg] at h0)
  | _ => intro as _; rfl


/-! ### the whole pass, Stage-4 fragment -/

theorem root_top (cfg : Cfg) (h : FnX cfg) (drive : List Char → DriveInfo) (g : Pat)
    (hp : ppTop g = true) (hok : ok g [] = true) (ps : PS) (hi : Inv ps false false 0) :
    ∃ ps', root cfg drive (print g) ps [.empty] = .ok (ps', (itsTop cfg true g).reverse ++ [.empty]) ∧
      ps'.matchbase = false ∧ ps'.extmatchbase = false := by
  have hi' : Inv ps.setAfterStart true false 0 :=
    ⟨rfl, rfl, hi.inList, hi.invExt, hi.mb, hi.emb⟩
  obtain ⟨ps1, as1, e1, hi1⟩ := R4_all cfg h g hp ((print g).length + 1) 0 [] ps.setAfterStart [.empty] true hi' hok
    (by omega)
  have hnt := ntok_le g
  obtain ⟨F2, hF2⟩ : ∃ F2, (print g).length + 1 - ntok g = F2 + 1 := ⟨(print g).length - ntok g, by omega⟩
  rw [hF2, rootLoop_end, List.append_nil] at e1
  have hclean : ∃ ps2, cleanUpInverse cfg ps1 ((itsPre cfg true g).reverse ++ [.empty]) false =
      ((itsTop cfg true g).reverse ++ [.empty], ps2) ∧ ps2.matchbase = false ∧ ps2.extmatchbase = false := by
    by_cases h0 : nNeg g = 0
    · refine ⟨ps1, ?_, hi1.mb, hi1.emb⟩
      rw [cleanUp_zero cfg ps1 _ false (by rw [hi1.invExt, h0]), itsPre_eq_itsTop cfg g true h0]
    · refine ⟨{ ps1 with invExt := ps1.invExt - nNeg g }, ?_, hi1.mb, hi1.emb⟩
      have hne : ps1.invExt ≠ 0 := by rw [hi1.invExt]; exact h0
      unfold cleanUpInverse
      rw [if_neg hne, cleanUp_top cfg h g hp true [.empty] (fun x hx => by
        simp only [List.mem_singleton] at hx; subst hx; rfl)]
      simp
  obtain ⟨ps2, hc, hm, he⟩ := hclean
  refine ⟨ps2, ?_, hm, he⟩
  unfold root
  simp only [h.wdd, h.pathname, h.realpath, Bool.false_and, Bool.false_eq_true, ite_false, Bool.and_false,
    Bool.not_false]
  simp only [e1, hc]

theorem itsTop_nil_of_print_nil (cfg : Cfg) : ∀ (g : Pat) (as : Bool), print g = [] → itsTop cfg as g = [] := by
  intro g
  induction g with
  | seq a b _ ihb =>
    intro as hpr
    simp only [print, List.append_eq_nil_iff] at hpr
    have hn' : ∀ body, a ≠ .ext .neg body := by
      intro body e; subst e; simp [print] at hpr
    rw [itsTop_seq cfg as a b hn', its_nil_of_print_nil cfg a as hpr.1, ihb _ hpr.2]
    rfl
  | ext k body => intro as hpr; simp [print] at hpr
  | eps => intro _ _; rfl
  | lit c => intro as hpr; exact its_nil_of_print_nil cfg _ as hpr
  | any => intro as hpr; simp [print] at hpr
  | star => intro as hpr; simp [print] at hpr
  | cls neg items => intro as hpr; simp [print] at hpr
  | alt p q => intro as hpr; simp [print] at hpr

theorem parseItems_top (cfg : Cfg) (h : FnX cfg) (drive : List Char → DriveInfo) (g : Pat)
    (hp : ppTop g = true) (hok : ok g [] = true) :
    parseItems cfg drive (print g) =
      .ok { items := .empty :: itsTop cfg true g, ci := !cfg.caseSensitive } := by
  unfold parseItems
  simp only [anchorStep, h.anchor, Bool.false_eq_true, ite_false]
  simp only [parsePrepend, h.matchbase, h.extmatchbase, Bool.or_self, Bool.false_eq_true, ite_false]
  unfold parseBody
  simp only [print_ne_bs g, ite_false]
  by_cases hemp : (print g).isEmpty = true
  · have : print g = [] := by simpa using hemp
    simp [this, itsTop_nil_of_print_nil cfg g true this]
  · obtain ⟨ps', hr, hm, he⟩ := root_top cfg h drive g hp hok
      { matchbase := false, extmatchbase := false, globstar := cfg.globstar0 } ⟨rfl, rfl, rfl, rfl, rfl, rfl⟩
    simp only [hemp, Bool.false_eq_true, ite_false, hr]
    simp [hm, he]


/-! ### from the Stage-4 items to the regex -/

theorem seqToRe_inv {f : Nat} {cap : Bool} {body tail : List Item} {e star : Re} {rest : List Item} {x : Re}
    (h : Item.seqToRe f (.invOpen cap body :: .closed tail (some e) star :: rest) = some x) :
    ∃ f' b la r, f = f' + 1 ∧ Item.listToRe f' body = some b ∧
      Item.listToRe f' (.re (.grp b) :: (tail ++ [.re e])) = some la ∧ Item.seqToRe f' rest = some r ∧
      x = catE' (if cap then .cap (.cat (.look true la) star) else .grp (.cat (.look true la) star)) r := by
  cases f with
  | zero => simp [Item.seqToRe] at h
  | succ f =>
    simp only [Item.seqToRe, List.cons_append] at h
    cases h1 : Item.listToRe f body with
    | none => simp [h1] at h
    | some b =>
      cases h2 : Item.listToRe f (.re (.grp b) :: (tail ++ [.re e])) with
      | none => simp [h1, h2] at h
      | some la =>
        cases h3 : Item.seqToRe f rest with
        | none => simp [h1, h3] at h
        | some r =>
          simp [h1, h2, h3] at h
          exact ⟨f, b, la, r, rfl, h1, h2, h3, h.symm⟩

/-- the look-ahead list `(?:body) tail $` -/
theorem lookahead_eqv (cfg : Cfg) (rest : Pat) (hl : rest.litOnly = true) (f : Nat) (b la : Re)
    (h : Item.listToRe f (.re (.grp b) :: (its cfg false rest ++ [.re .eos])) = some la) :
    Eqv la (.cat (.grp b) (.cat (comp cfg.isBytes cfg.dot false rest) .eos)) := by
  have hpp := litOnly_pp rest hl
  obtain ⟨f1, xs, _, hm, hx⟩ := listToRe_inv h
  have hnb : HF.NoBar (Item.re (.grp b) :: (its cfg false rest ++ [.re .eos])) :=
    HF.NoBar.cons rfl ((its_noBar cfg rest false hpp).append (HF.NoBar.cons rfl HF.NoBar.nil))
  rw [HF.splitBars_noBar _ hnb] at hm
  simp only [List.mapM_cons, List.mapM_nil] at hm
  cases h1 : Item.seqToRe f1 (Item.re (.grp b) :: (its cfg false rest ++ [.re .eos])) with
  | none => simp [h1] at hm
  | some x =>
    simp [h1] at hm
    have hla : la = x := by rw [hx, ← hm]; rfl
    obtain ⟨f2, y, _, hy, hxy⟩ := seqToRe_re h1
    obtain ⟨f3, y', hy', he⟩ := (its_toRe cfg rest).1 hpp false f2 [.re .eos] y hy
    obtain ⟨f4, z, _, hz, hyz⟩ := seqToRe_re hy'
    rw [seqToRe_nil hz] at hyz
    rw [hla, hxy]
    refine (Eqv.catE' _ _).trans ((Eqv.refl _).cat (he.trans ((Eqv.refl _).cat ?_)))
    rw [hyz]
    exact (Eqv.catE' _ _).trans (Eqv.cat_eps _)

theorem lookahead_nil_eqv (f : Nat) (b la : Re)
    (h : Item.listToRe f (.re (.grp b) :: ([] ++ [.re .eos])) = some la) :
    Eqv la (.cat (.grp b) .eos) := by
  obtain ⟨f1, xs, _, hm, hx⟩ := listToRe_inv h
  simp only [List.nil_append, splitBars, List.mapM_cons, List.mapM_nil] at hm
  cases h1 : Item.seqToRe f1 [Item.re (.grp b), .re .eos] with
  | none => simp [h1] at hm
  | some x =>
    simp [h1] at hm
    have hla : la = x := by rw [hx, ← hm]; rfl
    obtain ⟨f2, y, _, hy, hxy⟩ := seqToRe_re h1
    obtain ⟨f4, z, _, hz, hyz⟩ := seqToRe_re hy
    rw [seqToRe_nil hz] at hyz
    rw [hla, hxy, hyz]
    exact (Eqv.catE' _ _).trans ((Eqv.refl _).cat ((Eqv.catE' _ _).trans (Eqv.cat_eps _)))

theorem capgrp_eqv (cap : Bool) {g g' : Re} (h : Eqv g g') :
    Eqv (if cap then Re.cap g else Re.grp g) (.grp g') := by
  cases cap
  · exact Eqv.grp h
  · exact (Eqv.cap_l _).trans (h.trans (Eqv.grp_l _).symm)

/-- the items of a Stage-4 pattern convert to the regex of the tidy compiler -/
theorem itsTop_toRe (cfg : Cfg) : ∀ (g : Pat), ppTop g = true → ∀ (as : Bool) (f : Nat) (x : Re),
    Item.seqToRe f (itsTop cfg as g) = some x → Eqv x (comp cfg.isBytes cfg.dot as g) := by
  have flat : ∀ (g : Pat), pp false g = true → ∀ (as : Bool) (f : Nat) (x : Re),
      Item.seqToRe f (its cfg as g) = some x → Eqv x (comp cfg.isBytes cfg.dot as g) := by
    intro g hp as f x hx
    have hx' : Item.seqToRe f (its cfg as g ++ []) = some x := by simpa using hx
    obtain ⟨f', x', hx2, he⟩ := (its_toRe cfg g).1 hp as f [] x hx'
    rw [seqToRe_nil hx2] at he
    exact he.trans (Eqv.cat_eps _)
  intro g
  induction g with
  | seq a b _ ihb =>
    by_cases hn : ∃ body, a = .ext .neg body
    · obtain ⟨body, rfl⟩ := hn
      intro hp as f x hx
      simp only [ppTop, Bool.and_eq_true] at hp
      simp only [itsTop] at hx
      obtain ⟨f', bq, la, r, _, hb, hla, hr, hxe⟩ := seqToRe_inv hx
      obtain ⟨f2, xs, _, hm, hbx⟩ := listToRe_inv hb
      have hV := (its_toRe cfg body).2 hp.1 as f2 xs hm
      rw [← hbx] at hV
      have hL := lookahead_eqv cfg b hp.2 f' bq la hla
      have hR := flat b (litOnly_pp b hp.2) false f' r hr
      rw [hxe]
      simp only [comp]
      refine (Eqv.catE' _ _).trans (Eqv.cat (capgrp_eqv _ (Eqv.cat (Eqv.look true ?_) (Eqv.refl _))) hR)
      exact hL.trans ((Eqv.grp hV).cat (Eqv.refl _))
    · have hn' : ∀ body, a ≠ .ext .neg body := fun body e => hn ⟨body, e⟩
      intro hp as f x hx
      rw [ppTop_seq a b hn'] at hp
      simp only [Bool.and_eq_true] at hp
      rw [itsTop_seq cfg as a b hn'] at hx
      obtain ⟨f1, x1, h1, e1⟩ := (its_toRe cfg a).1 hp.1 as f _ x hx
      have e2 := ihb hp.2 _ f1 x1 h1
      rw [comp_seq _ _ _ _ _ (pp_negFree a _ hp.1)]
      exact e1.trans ((Eqv.refl _).cat e2)
  | ext k body =>
    by_cases hk : k = .neg
    · subst hk
      intro hp as f x hx
      simp only [ppTop] at hp
      simp only [itsTop] at hx
      obtain ⟨f', bq, la, r, _, hb, hla, hr, hxe⟩ := seqToRe_inv hx
      obtain ⟨f2, xs, _, hm, hbx⟩ := listToRe_inv hb
      have hV := (its_toRe cfg body).2 hp as f2 xs hm
      rw [← hbx] at hV
      have hL := lookahead_nil_eqv f' bq la hla
      rw [hxe, seqToRe_nil hr]
      simp only [comp]
      refine (Eqv.catE' _ _).trans ((Eqv.cat_eps _).trans
        (capgrp_eqv _ (Eqv.cat (Eqv.look true ?_) (Eqv.refl _))))
      exact hL.trans ((Eqv.grp hV).cat (Eqv.refl _))
    · intro hp as f x hx
      have hpp : pp false (.ext k body) = true := by
        cases k <;> first | exact hp | exact absurd rfl hk
      have e2 : itsTop cfg as (.ext k body) = its cfg as (.ext k body) := by
        cases k <;> first | rfl | exact absurd rfl hk
      rw [e2] at hx
      exact flat _ hpp as f x hx
  | eps => intro _ as f x hx; exact flat _ rfl as f x hx
  | lit c => intro _ as f x hx; exact flat _ rfl as f x hx
  | any => intro _ as f x hx; exact flat _ rfl as f x hx
  | star => intro _ as f x hx; exact flat _ rfl as f x hx
  | cls neg items => intro hp as f x hx; exact flat _ hp as f x hx
  | alt p q => intro hp; simp [ppTop, pp] at hp


theorem itsTop_WF (cfg : Cfg) : ∀ (g : Pat) (as : Bool), ppTop g = true → WF false (itsTop cfg as g) := by
  intro g
  induction g with
  | seq a b _ ihb =>
    intro as hp
    by_cases hn : ∃ body, a = .ext .neg body
    · obtain ⟨body, rfl⟩ := hn
      simp only [ppTop, Bool.and_eq_true] at hp
      have hl := its_WF cfg b false false (litOnly_pp b hp.2)
      exact .inv (its_WF cfg body true as hp.1) hl hl
    · have hn' : ∀ body, a ≠ .ext .neg body := fun body e => hn ⟨body, e⟩
      rw [ppTop_seq a b hn'] at hp
      simp only [Bool.and_eq_true] at hp
      rw [itsTop_seq cfg as a b hn']
      exact (its_WF cfg a false as hp.1).append (ihb _ hp.2)
  | ext k body =>
    intro as hp
    by_cases hk : k = .neg
    · subst hk
      exact .inv (its_WF cfg body true as hp) .nil .nil
    · have hpp : pp false (.ext k body) = true := by
        cases k <;> first | exact hp | exact absurd rfl hk
      have e2 : itsTop cfg as (.ext k body) = its cfg as (.ext k body) := by
        cases k <;> first | rfl | exact absurd rfl hk
      rw [e2]; exact its_WF cfg _ false as hpp
  | eps => intro as _; exact .nil
  | lit c => intro as _; exact .re .nil
  | any => intro as _; exact .re .nil
  | star => intro as _; exact .re .nil
  | cls neg items => intro as _; exact .re .nil
  | alt p q => intro as hp; simp [ppTop, pp] at hp

theorem itsTop_noBar (cfg : Cfg) : ∀ (g : Pat) (as : Bool), ppTop g = true → HF.NoBar (itsTop cfg as g) := by
  intro g
  induction g with
  | seq a b _ ihb =>
    intro as hp
    by_cases hn : ∃ body, a = .ext .neg body
    · obtain ⟨body, rfl⟩ := hn
      simp only [ppTop, Bool.and_eq_true] at hp
      exact HF.NoBar.cons rfl (HF.NoBar.cons rfl (its_noBar cfg b false (litOnly_pp b hp.2)))
    · have hn' : ∀ body, a ≠ .ext .neg body := fun body e => hn ⟨body, e⟩
      rw [ppTop_seq a b hn'] at hp
      simp only [Bool.and_eq_true] at hp
      rw [itsTop_seq cfg as a b hn']
      exact (its_noBar cfg a as hp.1).append (ihb _ hp.2)
  | ext k body =>
    intro as hp
    cases k <;> first | exact HF.NoBar.cons rfl (HF.NoBar.cons rfl HF.NoBar.nil) | exact HF.NoBar.cons rfl HF.NoBar.nil
  | eps => intro as _; exact HF.NoBar.nil
  | alt p q => intro as hp; simp [ppTop, pp] at hp
  | _ => intro as _; exact HF.NoBar.cons rfl HF.NoBar.nil

theorem toRe_top (cfg : Cfg) (g : Pat) (hp : ppTop g = true) (ci : Bool) :
    ∃ r, (Parsed.toRe { items := .empty :: itsTop cfg true g, ci := ci }) = some r ∧
      Eqv r (wrap ci (comp cfg.isBytes cfg.dot true g)) := by
  have hwf : WF false (Item.empty :: itsTop cfg true g) := .empty (itsTop_WF cfg g true hp)
  obtain ⟨r, hr⟩ := Option.isSome_iff_exists.mp (Parsed.toRe_isSome_of_WF ⟨_, ci⟩ hwf)
  refine ⟨r, hr, ?_⟩
  unfold Parsed.toRe at hr
  simp only [] at hr
  cases hin : Item.listToRe (2 * Item.sizeL (Item.empty :: itsTop cfg true g) + 4)
      (Item.empty :: itsTop cfg true g) with
  | none => simp [hin] at hr
  | some inner =>
    simp [hin] at hr
    subst hr
    obtain ⟨f', xs, _, hm, hx⟩ := listToRe_inv hin
    have hnb : HF.NoBar (Item.empty :: itsTop cfg true g) := HF.NoBar.cons rfl (itsTop_noBar cfg g true hp)
    rw [HF.splitBars_noBar _ hnb] at hm
    simp only [List.mapM_cons, List.mapM_nil] at hm
    cases h1 : Item.seqToRe f' (Item.empty :: itsTop cfg true g) with
    | none => simp [h1] at hm
    | some x =>
      simp [h1] at hm
      have hx' : inner = x := by rw [hx, ← hm]; rfl
      cases f' with
      | zero => simp [Item.seqToRe] at h1
      | succ f =>
        simp only [Item.seqToRe] at h1
        have := itsTop_toRe cfg g hp true f x h1
        rw [hx']
        exact (Eqv.refl _).cat ((this.flags true ci).cat (Eqv.refl _))

/-- **pass_print** (Stages 1–4).  For every pattern `g` of the printable fragment `ppTop`
    (literals, `?`, `*`, restricted brackets, nested `?( *( +( @(` groups with `|`, and one
    `!(…)` on the top-level spine followed by literal text) whose look-ahead conditions `ok`
    hold, the faithful port run on `print g` returns items that convert to a regex `Eqv`-
    equivalent to the tidy compiler's. -/
theorem pass_print (cfg : Cfg) (h : FnX cfg) (drive : List Char → DriveInfo) (g : Pat)
    (hp : ppTop g = true) (hok : ok g [] = true) :
    ∃ parsed r, parseItems cfg drive (print g) = .ok parsed ∧ parsed.toRe = some r ∧
      Eqv r (wrap (!cfg.caseSensitive) (comp cfg.isBytes cfg.dot true g)) := by
  obtain ⟨r, hr, he⟩ := toRe_top cfg g hp (!cfg.caseSensitive)
  exact ⟨_, r, parseItems_top cfg h drive g hp hok, hr, he⟩


/-! ## stage corollaries, sanity checks, non-vacuity -/

/-- Stage 1 fragment: sequences of literals, `?`, `*` -/
def flat : Pat → Bool
  | .eps => true
  | .lit _ => true
  | .any => true
  | .star => true
  | .seq a b => flat a && flat b
  | _ => false

theorem flat_pp : ∀ g : Pat, flat g = true → pp false g = true := by
  intro g
  induction g with
  | seq a b iha ihb =>
    intro h; simp only [flat, Bool.and_eq_true] at h
    simp [pp, iha h.1, ihb h.2]
  | eps => intro _; rfl
  | lit c => intro _; rfl
  | any => intro _; rfl
  | star => intro _; rfl
  | _ => intro h; simp [flat] at h

/-- **Stage 1** (flat patterns: literals — escaped when magic —, `?`, single `*`) -/
theorem pass_print_flat (cfg : Cfg) (h : FnX cfg) (drive : List Char → DriveInfo) (g : Pat)
    (hf : flat g = true) (hok : ok g [] = true) :
    ∃ parsed r, parseItems cfg drive (print g) = .ok parsed ∧ parsed.toRe = some r ∧
      Eqv r (wrap (!cfg.caseSensitive) (comp cfg.isBytes cfg.dot true g)) :=
  pass_print cfg h drive g (ppTop_of_pp g (flat_pp g hf)).1 hok

/-- **Stages 2–3** (negation-free: + restricted brackets, nested `?( *( +( @(` groups with `|`) -/
theorem pass_print_negfree (cfg : Cfg) (h : FnX cfg) (drive : List Char → DriveInfo) (g : Pat)
    (hp : pp false g = true) (hok : ok g [] = true) :
    ∃ parsed r, parseItems cfg drive (print g) = .ok parsed ∧ parsed.toRe = some r ∧
      Eqv r (wrap (!cfg.caseSensitive) (comp cfg.isBytes cfg.dot true g)) :=
  pass_print cfg h drive g (ppTop_of_pp g hp).1 hok

/-- the semantic form -/
theorem pass_print_sem (cfg : Cfg) (h : FnX cfg) (drive : List Char → DriveInfo) (g : Pat)
    (hp : ppTop g = true) (hok : ok g [] = true) :
    ∃ parsed r, parseItems cfg drive (print g) = .ok parsed ∧ parsed.toRe = some r ∧
      ∀ s, r.FullMatch s ↔ (wrap (!cfg.caseSensitive) (comp cfg.isBytes cfg.dot true g)).FullMatch s := by
  obtain ⟨parsed, r, h1, h2, h3⟩ := pass_print cfg h drive g hp hok
  exact ⟨parsed, r, h1, h2, fun s => h3.fullMatch s⟩

/-! ### the printer inverts the strict grammar reader (sanity, on examples) -/

def ex1 : Pat := .seq (.lit 'a') (.seq .star (.seq (.lit '.') (.seq .any (.lit '('))))
def ex2 : Pat := .seq (.cls true [.chr 'x', .range 'a' 'f', .posix .digit]) (.seq .star (.lit 'z'))
def ex3 : Pat :=
  .seq (.ext .one (.alt (.lit 'a') (.seq (.ext .opt (.lit 'b')) (.lit 'c'))))
    (.seq (.cls true [.chr 'x']) (.ext .star (.alt (.seq (.lit 'd') .any) (.alt .eps (.lit '|')))))
def ex4 : Pat :=
  .seq (.ext .one (.alt (.lit 'a') (.seq (.ext .opt (.lit 'b')) (.lit 'c'))))
    (.seq (.cls true [.chr 'x']) (.seq (.ext .neg (.alt (.lit 'd') (.seq (.lit 'e') .star)))
      (.seq (.lit '.') (.seq (.lit 't') (.seq (.lit 'x') (.lit 't'))))))

theorem print_ex : String.ofList (print ex1) = "a*.?\\(" ∧ String.ofList (print ex2) = "[!xa-f[:digit:]]*z" ∧
    String.ofList (print ex3) = "@(a|?(b)c)[!x]*(d?||\\|)" ∧
    String.ofList (print ex4) = "@(a|?(b)c)[!x]!(d|e*).txt" := by decide +kernel

theorem parse_print_ex : Grammar.parsePat true (print ex1) = some ex1 ∧
    Grammar.parsePat true (print ex2) = some ex2 ∧ Grammar.parsePat true (print ex3) = some ex3 ∧
    Grammar.parsePat true (print ex4) = some ex4 := by decide +kernel

/-- non-vacuity: each stage's hypotheses hold on a non-trivial pattern -/
theorem nonvacuous : (flat ex1 && ok ex1 []) = true ∧ (pp false ex2 && ok ex2 []) = true ∧
    (pp false ex3 && ok ex3 []) = true ∧ (ppTop ex4 && ok ex4 [] && !(pp false ex4)) = true := by
  decide +kernel


/-! ## Round trip: the printer inverts the strict grammar reader

  `Grammar.parsePat true (print g) = some g` for every `g` in the reader's normal form `nf`
  (right-nested sequences of tokens without `eps`, right-nested alternations directly inside
  groups, brackets in the restricted printed form) — so a printed pattern *is* a pattern of the
  documented grammar whose strict reading is `g`.  Same continuation-style induction as the pass,
  on `Grammar.parseSeq` / `parseAlts` / `bracketItems`. -/

section RoundTrip
open Grammar

/-- what follows a member is the next member or the closing bracket: never a `-` -/
theorem members_head (ms : List SCls) (hall : ms.all okM = true) (rest : List Char) :
    ∃ c r, ms.flatMap printCls ++ ']' :: rest = c :: r ∧ c ≠ '-' := by
  cases ms with
  | nil => exact ⟨']', rest, rfl, by decide⟩
  | cons m ms =>
    simp only [List.all_cons, Bool.and_eq_true] at hall
    cases m with
    | chr d =>
      refine ⟨d, ms.flatMap printCls ++ ']' :: rest, by simp [printCls], ?_⟩
      have := hall.1; simp only [okM, plainMember, Bool.and_eq_true, bne_iff_ne, ne_eq] at this
      exact this.1.2
    | range lo hi =>
      refine ⟨lo, '-' :: hi :: (ms.flatMap printCls ++ ']' :: rest), by simp [printCls], ?_⟩
      have := hall.1; simp only [okM, plainMember, Bool.and_eq_true, bne_iff_ne, ne_eq] at this
      exact this.1.1.1.2
    | posix n => exact ⟨'[', ':' :: (n.name.toList ++ ':' :: ']' :: (ms.flatMap printCls ++ ']' :: rest)), by simp [printCls], by decide⟩

theorem bracketItems_chr (F : Nat) (d c2 : Char) (r2 : List Char) (acc : List SCls) (first : Bool)
    (hd : plainMember d = true) (hc2 : c2 ≠ '-') :
    bracketItems (F+1) (d :: c2 :: r2) acc first = bracketItems F (c2 :: r2) (acc ++ [.chr d]) false := by
  simp only [plainMember, Bool.and_eq_true, bne_iff_ne, ne_eq] at hd
  obtain ⟨⟨⟨h1, h2⟩, h3⟩, h4⟩ := hd
  by_cases hc : c2 = ']'
  · subst hc
    rw [bracketItems]
    · simp [h3]
    all_goals (intros; simp_all)
  · rw [bracketItems]
    · simp [h3]
    all_goals (intros; simp_all)

theorem bracketItems_range (F : Nat) (lo hi c2 : Char) (r2 : List Char) (acc : List SCls) (first : Bool)
    (hlo : plainMember lo = true) (hhi : plainMember hi = true) (hle : lo.toNat ≤ hi.toNat) (hc2 : c2 ≠ '-') :
    bracketItems (F+1) (lo :: '-' :: hi :: c2 :: r2) acc first =
      bracketItems F (c2 :: r2) (acc ++ [.range lo hi]) false := by
  simp only [plainMember, Bool.and_eq_true, bne_iff_ne, ne_eq] at hlo hhi
  obtain ⟨⟨⟨h1, h2⟩, h3⟩, h4⟩ := hlo
  obtain ⟨⟨⟨g1, g2⟩, g3⟩, g4⟩ := hhi
  rw [bracketItems]
  · simp [hle]
  all_goals (intros; simp_all)

theorem bracketItems_posix (F : Nat) (n : PosixName) (c2 : Char) (r2 : List Char) (acc : List SCls) (first : Bool)
    (hc2 : c2 ≠ '-') :
    bracketItems (F+1) ('[' :: ':' :: (n.name.toList ++ ':' :: ']' :: c2 :: r2)) acc first =
      bracketItems F (c2 :: r2) (acc ++ [.posix n]) false := by
  rw [bracketItems]
  · simp only [matchPosix_print]
    split
    · rename_i h; injection h with h _; exact absurd h hc2
    · rename_i h; injection h with h _; exact absurd h hc2
    · rfl
  all_goals (intros; simp_all)


/-- the strict reader's member loop on a printed member list -/
theorem bracketItems_members (rest : List Char) :
    ∀ (items : List SCls), items.all okM = true → ∀ (F : Nat) (acc : List SCls) (first : Bool),
      (items.flatMap printCls).length + 1 ≤ F → (items = [] → first = false ∧ acc ≠ []) →
      bracketItems F (items.flatMap printCls ++ ']' :: rest) acc first = some (acc ++ items, rest) := by
  intro items
  induction items with
  | nil =>
    intro _ F acc first hF hne
    obtain ⟨F', rfl⟩ : ∃ F', F = F' + 1 := ⟨F - 1, by simp at hF; omega⟩
    obtain ⟨h1, h2⟩ := hne rfl
    subst h1
    have : acc.isEmpty = false := by cases acc <;> simp_all
    simp [bracketItems, this]
  | cons m ms ih =>
    intro hall F acc first hF _
    simp only [List.all_cons, Bool.and_eq_true] at hall
    obtain ⟨c2, r2, hnext, hc2⟩ := members_head ms hall.2 rest
    simp only [List.flatMap_cons, List.length_append] at hF
    have hne' : ms = [] → false = false ∧ acc ++ [m] ≠ [] := fun _ => ⟨rfl, by simp⟩
    cases m with
    | chr d =>
      simp only [printCls, List.length_cons, List.length_nil] at hF
      obtain ⟨F', rfl⟩ : ∃ F', F = F' + 1 := ⟨F - 1, by omega⟩
      simp only [List.flatMap_cons, printCls, List.cons_append, List.nil_append, hnext]
      rw [bracketItems_chr F' d c2 r2 acc first (by simpa [okM] using hall.1) hc2, ← hnext,
        ih hall.2 F' _ false (by omega) hne']
      simp
    | range lo hi =>
      simp only [printCls, List.length_cons, List.length_nil] at hF
      obtain ⟨F', rfl⟩ : ∃ F', F = F' + 1 := ⟨F - 1, by omega⟩
      have h1 := hall.1
      simp only [okM, Bool.and_eq_true, decide_eq_true_eq] at h1
      simp only [List.flatMap_cons, printCls, List.cons_append, List.nil_append, hnext]
      rw [bracketItems_range F' lo hi c2 r2 acc first h1.1.1 h1.1.2 h1.2 hc2, ← hnext,
        ih hall.2 F' _ false (by omega) hne']
      simp
    | posix n =>
      have hlen : (printCls (.posix n)).length = n.name.toList.length + 4 := by
        simp only [printCls, List.length_append]
        have : "[:".toList.length = 2 := rfl
        have : ":]".toList.length = 2 := rfl
        omega
      rw [hlen] at hF
      obtain ⟨F', rfl⟩ : ∃ F', F = F' + 1 := ⟨F - 1, by omega⟩
      have htxt : (SCls.posix n :: ms).flatMap printCls ++ ']' :: rest =
          '[' :: ':' :: (n.name.toList ++ ':' :: ']' :: c2 :: r2) := by
        simp [printCls, hnext]
      rw [htxt, bracketItems_posix F' n c2 r2 acc first hc2, ← hnext, ih hall.2 F' _ false (by omega) hne']
      simp

theorem bracket_nonneg (c : Char) (r : List Char) (hc1 : c ≠ '!') (hc2 : c ≠ '^') :
    bracket (c :: r) =
      match bracketItems ((c :: r).length + 2) (c :: r) [] true with
      | some (items, rest) => some (.cls false items, rest)
      | none => none := by
  unfold bracket
  split
  rename_i e
  split at e
  · rename_i e'; injection e' with e' _; exact absurd e' hc1
  · rename_i e'; injection e' with e' _; exact absurd e' hc2
  · injection e with e1 e2; subst e1; subst e2; rfl

/-- **the strict reader on a printed bracket** (the text after the opening `[`) -/
theorem bracket_print (neg : Bool) (items : List SCls) (hok : clsOK items = true) (rest : List Char) :
    bracket ((if neg then ['!'] else []) ++ items.flatMap printCls ++ ']' :: rest) =
      some (.cls neg items, rest) := by
  obtain ⟨c, r, htxt⟩ : ∃ c r, c :: r = items.flatMap printCls ++ ']' :: rest := by
    cases h : items.flatMap printCls ++ ']' :: rest with
    | nil => simp at h
    | cons a b => exact ⟨a, b, rfl⟩
  obtain ⟨hc1, hc2⟩ := first_not_neg items hok c r rest htxt
  have hall : items.all okM = true := by
    unfold clsOK at hok; simp only [Bool.and_eq_true] at hok; exact hok.1
  have hne : items ≠ [] := by
    intro e; subst e; simp [clsOK] at hok
  have key := bracketItems_members rest items hall ((items.flatMap printCls ++ ']' :: rest).length + 2) []
    true (by simp only [List.length_append, List.length_cons]; omega) (fun e => absurd e hne)
  cases neg with
  | true =>
    unfold bracket
    simp only [if_true, List.cons_append, List.nil_append]
    simp only [key, List.nil_append]
  | false =>
    simp only [Bool.false_eq_true, if_false, List.nil_append]
    rw [← htxt, bracket_nonneg c r hc1 hc2, htxt, key]
    rfl


/-! ### the sequence reader, token by token -/

/-- the "is this the start of a group" test of `parseSeq` -/
def grpOf (F : Nat) (c : Char) (rest : List Char) : Option (Option (Pat × List Char)) :=
  match extOf c, rest with
  | some k, '(' :: rest' => some (parseAlts true F k rest' [])
  | _, _ => none

/-- what `parseSeq` does with a character that does not start a group -/
def plainOf (F : Nat) (ig : Bool) (c : Char) (rest : List Char) (acc : List Pat) : Option (Pat × List Char) :=
  if c = '\\' then
    match rest with
    | d :: rest' => parseSeq true F ig rest' (acc ++ [.lit d])
    | [] => none
  else if c = '*' then
    parseSeq true F ig rest (if acc.getLast? = some .star then acc else acc ++ [.star])
  else if c = '?' then parseSeq true F ig rest (acc ++ [.any])
  else if c = '[' then
    match bracket rest with
    | some (b, rest') => parseSeq true F ig rest' (acc ++ [b])
    | none => none
  else parseSeq true F ig rest (acc ++ [.lit c])

theorem parseSeq_cons (F : Nat) (ig : Bool) (c : Char) (rest : List Char) (acc : List Pat) :
    parseSeq true (F+1) ig (c :: rest) acc =
      if (ig && (decide (c = '|') || decide (c = ')'))) = true then some (seqOf acc, c :: rest)
      else
        match grpOf F c rest with
        | some none => none
        | some (some (g, rest')) => parseSeq true F ig rest' (acc ++ [g])
        | none => plainOf F ig c rest acc := by
  rw [parseSeq.eq_def]
  rfl

theorem extOf_none {c : Char} (hc : c ∉ escSet) : extOf c = none := by
  simp only [escSet, List.mem_cons, List.not_mem_nil, or_false, not_or] at hc
  obtain ⟨c1, c2, c3, c4, c5, c6, c7, c8, c9, c10⟩ := hc
  simp [extOf, c1, c2, c5, c6, c7]

theorem grpOf_none_of_ext (F : Nat) (c : Char) (rest : List Char) (h : extOf c = none) : grpOf F c rest = none := by
  unfold grpOf; rw [h]

theorem grpOf_none_of_head (F : Nat) (c : Char) (rest : List Char) (h : rest.head? ≠ some '(') :
    grpOf F c rest = none := by
  unfold grpOf
  split
  · simp at h
  · rfl

theorem PS_lit (F : Nat) (ig : Bool) (c : Char) (rest : List Char) (acc : List Pat) (hc : c ∉ escSet) :
    parseSeq true (F+1) ig (c :: rest) acc = parseSeq true F ig rest (acc ++ [.lit c]) := by
  have hx := extOf_none hc
  simp only [escSet, List.mem_cons, List.not_mem_nil, or_false, not_or] at hc
  obtain ⟨c1, c2, c3, c4, c5, c6, c7, c8, c9, c10⟩ := hc
  rw [parseSeq_cons, grpOf_none_of_ext F c rest hx]
  simp [plainOf, c1, c2, c3, c4, c8, c10]

theorem PS_esc (F : Nat) (ig : Bool) (d : Char) (rest : List Char) (acc : List Pat) :
    parseSeq true (F+1) ig ('\\' :: d :: rest) acc = parseSeq true F ig rest (acc ++ [.lit d]) := by
  rw [parseSeq_cons, grpOf_none_of_ext F _ _ (by decide)]
  simp [plainOf]

theorem PS_printLit (F : Nat) (ig : Bool) (c : Char) (rest : List Char) (acc : List Pat) :
    parseSeq true (F+1) ig (printLit c ++ rest) acc = parseSeq true F ig rest (acc ++ [.lit c]) := by
  unfold printLit
  split
  · exact PS_esc F ig c rest acc
  · rename_i hc; exact PS_lit F ig c rest acc hc

theorem PS_any (F : Nat) (ig : Bool) (rest : List Char) (acc : List Pat) (hn : rest.head? ≠ some '(') :
    parseSeq true (F+1) ig ('?' :: rest) acc = parseSeq true F ig rest (acc ++ [.any]) := by
  rw [parseSeq_cons, grpOf_none_of_head F _ _ hn]
  simp [plainOf]

theorem PS_star (F : Nat) (ig : Bool) (rest : List Char) (acc : List Pat) (hn : rest.head? ≠ some '(')
    (hs : acc.getLast? ≠ some .star) :
    parseSeq true (F+1) ig ('*' :: rest) acc = parseSeq true F ig rest (acc ++ [.star]) := by
  rw [parseSeq_cons, grpOf_none_of_head F _ _ hn]
  simp [plainOf, hs]

theorem PS_cls (F : Nat) (ig : Bool) (neg : Bool) (items : List SCls) (hok : clsOK items = true)
    (rest : List Char) (acc : List Pat) :
    parseSeq true (F+1) ig (print (.cls neg items) ++ rest) acc =
      parseSeq true F ig rest (acc ++ [.cls neg items]) := by
  have hpr : print (.cls neg items) ++ rest =
      '[' :: ((if neg then ['!'] else []) ++ items.flatMap printCls ++ ']' :: rest) := by
    simp [print]
  have hb := bracket_print neg items hok rest
  simp only [List.append_assoc] at hb
  rw [hpr, parseSeq_cons, grpOf_none_of_ext F _ _ (by decide)]
  simp [plainOf, hb]

theorem extOf_extChar (k : ExtKind) : extOf (extChar k) = some k := by cases k <;> decide

theorem PS_grp (F : Nat) (ig : Bool) (k : ExtKind) (txt : List Char) (acc : List Pat) :
    parseSeq true (F+1) ig (extChar k :: '(' :: txt) acc =
      match parseAlts true F k txt [] with
      | none => none
      | some (g, rest') => parseSeq true F ig rest' (acc ++ [g]) := by
  have hc : extChar k ≠ '|' ∧ extChar k ≠ ')' := by cases k <;> exact ⟨by decide, by decide⟩
  have hg : grpOf F (extChar k) ('(' :: txt) = some (parseAlts true F k txt []) := by
    unfold grpOf; rw [extOf_extChar]; rfl
  rw [parseSeq_cons, hg]
  simp only [hc.1, hc.2, decide_false, Bool.or_self, Bool.and_false, Bool.false_eq_true, if_false]
  cases parseAlts true F k txt [] with
  | none => rfl
  | some v => rfl

theorem PS_end_group (F : Nat) (c : Char) (rest : List Char) (acc : List Pat) (hc : c = '|' ∨ c = ')') :
    parseSeq true (F+1) true (c :: rest) acc = some (seqOf acc, c :: rest) := by
  rw [parseSeq_cons]
  rcases hc with rfl | rfl <;> simp

theorem PS_end_top (F : Nat) (acc : List Pat) :
    parseSeq true (F+1) false [] acc = some (seqOf acc, []) := by
  rw [parseSeq.eq_def]
  rfl


/-! ### the round trip -/

def isTok : Pat → Bool
  | .eps => false
  | .seq _ _ => false
  | .alt _ _ => false
  | _ => true

/-- the normal form the strict reader produces: right-nested sequences of tokens without `eps`,
    right-nested alternations directly inside groups, brackets in the restricted printed form -/
def nf : Bool → Pat → Bool
  | b, .alt p q => b && nf false p && nf true q
  | _, .seq p q => isTok p && nf false p && (q != .eps) && nf false q
  | _, .ext _ body => nf true body
  | _, .cls _ items => clsOK items
  | _, _ => true

def flatNF : Pat → List Pat
  | .eps => []
  | .seq p q => p :: flatNF q
  | g => [g]

def altsOf : Pat → List Pat
  | .alt p q => p :: altsOf q
  | g => [g]

theorem flatNF_ne_nil (g : Pat) (h : g ≠ .eps) : flatNF g ≠ [] := by
  cases g <;> simp_all [flatNF]

theorem seqOf_flatNF : ∀ g : Pat, nf false g = true → seqOf (flatNF g) = g := by
  intro g
  induction g with
  | seq p q _ ihq =>
    intro h
    simp only [nf, Bool.and_eq_true, bne_iff_ne, ne_eq] at h
    have hne := flatNF_ne_nil q h.1.2
    simp only [flatNF]
    cases hq : flatNF q with
    | nil => exact absurd hq hne
    | cons x xs => rw [← hq]; simp only [seqOf]; rw [ihq h.2]
  | alt p q => intro h; simp [nf] at h
  | _ => intro _; rfl

theorem altsOf_ne_nil (g : Pat) : altsOf g ≠ [] := by cases g <;> simp [altsOf]

theorem altOf_altsOf : ∀ g : Pat, altOf (altsOf g) = g := by
  intro g
  induction g with
  | alt p q _ ihq =>
    simp only [altsOf]
    cases hq : altsOf q with
    | nil => exact absurd hq (altsOf_ne_nil q)
    | cons x xs => simp only [altOf]; rw [← hq, ihq]
  | _ => rfl

theorem nf_mono (g : Pat) (h : nf false g = true) : nf true g = true := by
  cases g <;> first | exact h | (simp [nf] at h)

def P (g : Pat) : Prop :=
  ∀ (F : Nat) (ig : Bool) (rest : List Char) (acc : List Pat), ok g rest = true →
    (acc.getLast? = some .star → (print g ++ rest).head? ≠ some '*') → (print g).length ≤ F →
    parseSeq true F ig (print g ++ rest) acc = parseSeq true (F - ntok g) ig rest (acc ++ flatNF g)

def Q (g : Pat) : Prop :=
  ∀ (F : Nat) (k : ExtKind) (rest : List Char) (alts : List Pat), ok g (')' :: rest) = true →
    (print g).length + 2 ≤ F →
    parseAlts true F k (print g ++ ')' :: rest) alts = some (.ext k (altOf (alts ++ altsOf g)), rest)

theorem parseAlts_succ (F : Nat) (k : ExtKind) (s : List Char) (alts : List Pat) :
    parseAlts true (F+1) k s alts =
      match parseSeq true F true s [] with
      | none => none
      | some (a, '|' :: rest) => parseAlts true F k rest (alts ++ [a])
      | some (a, ')' :: rest) => some (.ext k (altOf (alts ++ [a])), rest)
      | some _ => none := by
  rw [parseAlts]
  rfl

theorem P_tok (g : Pat) (hpr : 1 ≤ (print g).length) (hfl : flatNF g = [g]) (hnt : ntok g = 1)
    (hstep : ∀ (F : Nat) (ig : Bool) (rest : List Char) (acc : List Pat), ok g rest = true →
      (acc.getLast? = some .star → (print g ++ rest).head? ≠ some '*') → (print g).length ≤ F + 1 →
      parseSeq true (F+1) ig (print g ++ rest) acc = parseSeq true F ig rest (acc ++ [g])) : P g := by
  intro F ig rest acc hok hst hF
  obtain ⟨F', rfl⟩ : ∃ F', F = F' + 1 := ⟨F - 1, by omega⟩
  rw [hstep F' ig rest acc hok hst hF, hfl, hnt]
  rfl

theorem Q_of_P (g : Pat) (hnf : nf false g = true) (hP : P g) : Q g := by
  intro F k rest alts hok hF
  obtain ⟨F', rfl⟩ : ∃ F', F = F' + 1 := ⟨F - 1, by omega⟩
  have hnt := ntok_le g
  obtain ⟨F2, hF2⟩ : ∃ F2, F' - ntok g = F2 + 1 := ⟨F' - ntok g - 1, by omega⟩
  rw [parseAlts_succ, hP F' true (')' :: rest) [] hok (by simp) (by omega), hF2,
    PS_end_group F2 ')' rest _ (Or.inr rfl)]
  have : altsOf g = [g] := by cases g <;> first | rfl | (simp [nf] at hnf)
  simp only [List.nil_append, seqOf_flatNF g hnf, this]

theorem roundtrip_core : ∀ g : Pat, (nf false g = true → P g) ∧ (nf true g = true → Q g) := by
  intro g
  induction g with
  | eps =>
    have hP : P .eps := by
      intro F ig rest acc _ _ _
      simp [print, ntok, flatNF]
    exact ⟨fun _ => hP, fun _ => Q_of_P _ rfl hP⟩
  | lit c =>
    have hP : P (.lit c) := P_tok _ (by simp only [print, printLit]; split <;> simp) rfl rfl
      (fun F ig rest acc _ _ _ => PS_printLit F ig c rest acc)
    exact ⟨fun _ => hP, fun _ => Q_of_P _ rfl hP⟩
  | any =>
    have hP : P .any := P_tok _ (by simp [print]) rfl rfl
      (fun F ig rest acc hok _ _ => PS_any F ig rest acc (by simpa [ok] using hok))
    exact ⟨fun _ => hP, fun _ => Q_of_P _ rfl hP⟩
  | star =>
    have hP : P .star := P_tok _ (by simp [print]) rfl rfl
      (fun F ig rest acc hok hst _ => PS_star F ig rest acc (by simp [ok] at hok; exact hok.1)
        (fun hl => by have := hst hl; simp [print] at this))
    exact ⟨fun _ => hP, fun _ => Q_of_P _ rfl hP⟩
  | cls neg items =>
    have hP : nf false (.cls neg items) = true → P (.cls neg items) := fun h =>
      P_tok _ (by simp [print]) rfl rfl
        (fun F ig rest acc _ _ _ => PS_cls F ig neg items (by simpa [nf] using h) rest acc)
    exact ⟨hP, fun h => Q_of_P _ h (hP h)⟩
  | seq p q ihp ihq =>
    have hP : nf false (.seq p q) = true → P (.seq p q) := by
      intro h F ig rest acc hok hst hF
      simp only [nf, Bool.and_eq_true, bne_iff_ne, ne_eq] at h
      simp only [ok, Bool.and_eq_true] at hok
      simp only [print, List.length_append] at hF
      have hfp : flatNF p = [p] := by
        have := h.1.1.1
        cases p <;> first | rfl | (simp [isTok] at this)
      have hnp := ntok_le p
      rw [show print (.seq p q) ++ rest = print p ++ (print q ++ rest) by simp [print],
        ihp.1 h.1.1.2 F ig (print q ++ rest) acc hok.1 (by simpa [print] using hst) (by omega), hfp,
        ihq.1 h.2 (F - ntok p) ig rest (acc ++ [p]) hok.2 ?_ (by omega)]
      · simp only [ntok, flatNF, List.append_assoc, List.cons_append, List.nil_append]
        congr 1; omega
      · intro hl
        have hp : p = .star := by simpa using hl
        subst hp
        have := hok.1
        simp only [ok, Bool.and_eq_true, bne_iff_ne, ne_eq] at this
        exact this.2
    exact ⟨hP, fun h => Q_of_P _ h (hP h)⟩
  | alt p q ihp ihq =>
    refine ⟨fun h => by simp [nf] at h, fun h => ?_⟩
    simp only [nf, Bool.and_eq_true, true_and] at h
    intro F k rest alts hok hF
    simp only [ok, Bool.and_eq_true] at hok
    simp only [print, List.length_append, List.length_cons] at hF
    obtain ⟨F', rfl⟩ : ∃ F', F = F' + 1 := ⟨F - 1, by omega⟩
    have hnt := ntok_le p
    obtain ⟨F2, hF2⟩ : ∃ F2, F' - ntok p = F2 + 1 := ⟨F' - ntok p - 1, by omega⟩
    rw [parseAlts_succ, show print (.alt p q) ++ ')' :: rest = print p ++ ('|' :: (print q ++ ')' :: rest)) by
        simp [print],
      ihp.1 h.1 F' true _ [] hok.1 (by simp) (by omega), hF2, PS_end_group F2 '|' _ _ (Or.inl rfl)]
    simp only [List.nil_append, seqOf_flatNF p h.1]
    rw [ihq.2 h.2 F' k rest (alts ++ [p]) hok.2 (by omega)]
    simp [altsOf]
  | ext k body ih =>
    have hP : nf false (.ext k body) = true → P (.ext k body) := by
      intro h
      refine P_tok _ (by simp [print]) rfl rfl ?_
      intro F ig rest acc hok _ hF
      simp only [nf] at h
      simp only [ok] at hok
      simp only [print, List.length_cons, List.length_append, List.length_nil] at hF
      rw [show print (.ext k body) ++ rest = extChar k :: '(' :: (print body ++ ')' :: rest) by simp [print],
        PS_grp, ih.2 h F k rest [] hok (by omega)]
      simp [altOf_altsOf]
    exact ⟨hP, fun h => Q_of_P _ h (hP h)⟩


/-- **the printer inverts the strict grammar reader** on the reader's normal form -/
theorem parsePat_print (g : Pat) (hnf : nf false g = true) (hok : ok g [] = true) :
    parsePat true (print g) = some g := by
  have hP := (roundtrip_core g).1 hnf (2 * (print g).length + 4) false [] [] hok (by simp) (by omega)
  have hnt := ntok_le g
  obtain ⟨F2, hF2⟩ : ∃ F2, 2 * (print g).length + 4 - ntok g = F2 + 1 :=
    ⟨2 * (print g).length + 3 - ntok g, by omega⟩
  unfold parsePat
  rw [List.append_nil] at hP
  rw [hP, hF2, PS_end_top, List.nil_append, seqOf_flatNF g hnf]

/-- the normal form lies inside the printable fragment when its one `!(…)` is in C01's scope -/
theorem nf_examples : (nf false ex1 && nf false ex2 && nf false ex3 && nf false ex4) = true := by
  decide +kernel


end RoundTrip

end PP
end WcModel

import WcModel.Proofs.EscapeWinUnc
/-
  C09 under Windows rules, part (3): the agreement hypothesis `DriveAgree` PROVED for the device UNC
  forms — for all separators, `q ∈ {?, .}`, every spelling `K` of the keyword (`unc`, `UNC`, `Unc`, …),
  every non-empty separator-free host `h` and share `s`, every rest:

      sep sep q sep K sep h sep s sep rest        sep sep q sep K sep h sep s

  (`RE_WIN_DRIVE`'s alternative `unc(sep [^\\/]+){2}` on one side; on the other three rounds of the
  `RE_WIN_DRIVE_PART` loop: the keyword raises `complete` by two, then host, then share.)
  KF-D28 is the same prefix with fewer than two parts behind the keyword.
-/
set_option linter.unusedSimpArgs false
namespace WcModel

open EscW Win

/-- the last round: the counter reaches `complete` (and is past the keyword position) -/
theorem partsLoop_last (special : Bool) (fuel : Nat) (s g : List Char) (n : Nat) (b : Bool) (st : Scan)
    (hpa : partAt s = some (g, n, b)) (hc : st.count + 1 = st.complete)
    (hk : special = true → st.count + 1 ≠ st.first) :
    partsLoop special (fuel + 1) s st =
      { st with parts := st.parts ++ [unescape g], slash := b, endIdx := st.endIdx + 0 + n,
                count := st.count + 1 } := by
  have hs : partSearch (s.length + 1) s 0 = some (0, g, n, b) := by
    simp [partSearch, hpa]
  rw [partsLoop]
  cases special with
  | false => simp [hs, hc]
  | true =>
    have h1 : st.complete ≠ st.first := fun e => hk rfl (hc.trans e)
    simp [hs, hc, h1]

/-- a keyword spelling: three characters that lower to `unc` -/
theorem unc_kw_props {K : List Char} (hK : lower K = ['u', 'n', 'c']) :
    ∃ k1 k2 k3, K = [k1, k2, k3] ∧ (∀ c ∈ K, isSepW c = false) ∧ driveMagicSub K = K ∧ k2 ≠ ':' := by
  have hlen : K.length = 3 := by
    have := congrArg List.length hK
    simpa [lower] using this
  match K, hlen, hK with
  | [k1, k2, k3], _, hK =>
    simp only [lower, List.map_cons, List.map_nil, List.cons.injEq, and_true] at hK
    obtain ⟨e1, e2, e3⟩ := hK
    have p : ∀ (k t : Char), asciiLower k = t → t ∈ ['u', 'n', 'c'] →
        k ≠ '/' ∧ k ≠ '\\' ∧ k ≠ '{' ∧ k ≠ '}' ∧ k ≠ '|' ∧ k ≠ ':' := by
      intro k t e ht
      refine ⟨?_, ?_, ?_, ?_, ?_, ?_⟩ <;> (rintro rfl; subst e; revert ht; decide)
    obtain ⟨a1, a2, a3, a4, a5, _⟩ := p k1 _ e1 (by simp)
    obtain ⟨b1, b2, b3, b4, b5, b6⟩ := p k2 _ e2 (by simp)
    obtain ⟨c1, c2, c3, c4, c5, _⟩ := p k3 _ e3 (by simp)
    refine ⟨k1, k2, k3, rfl, ?_, ?_, b6⟩
    · intro c hc
      simp only [List.mem_cons, List.not_mem_nil, or_false] at hc
      rcases hc with rfl | rfl | rfl
      · exact isSepW_false_of a1 a2
      · exact isSepW_false_of b1 b2
      · exact isSepW_false_of c1 c2
    · simp [driveMagicSub, driveMagicChars, a3, a4, a5, b3, b4, b5, c3, c4, c5]

theorem drop_app2' (a b c : List Char) (n : Nat) (hn : n = a.length + b.length) :
    (a ++ (b ++ c)).drop n = c := by rw [hn]; exact drop_app2 a b c

/-- **the parser on a device UNC prefix** `sep sep [?.] sep UNC sep h sep s (sep … | end)` -/
theorem winDrive_devUnc (cfg : Cfg) (x1 x2 y y2 y3 q : Char) (hx1 : isSepW x1 = true) (hx2 : isSepW x2 = true)
    (hy : isSepW y = true) (hy2 : isSepW y2 = true) (hy3 : isSepW y3 = true) (hq : q = '?' ∨ q = '.')
    (K : List Char) (hK : lower K = ['u', 'n', 'c'])
    (h s : List Char) (hh : h ≠ []) (hs : s ≠ [])
    (hhf : ∀ c ∈ h, isSepW c = false) (hsf : ∀ c ∈ s, isSepW c = false) (tl : List Char)
    (ht : tl = [] ∨ (∃ t, tl = '/' :: t) ∨ (∃ t, tl = '\\' :: '\\' :: t)) (n : Nat) (b : Bool)
    (hse : sepOrEnd tl = some (n, b)) :
    winDrive cfg (sp x1 ++ (sp x2 ++ ([q] ++ (sp y ++ (K ++ (sp y2 ++ (driveMagicSub h ++ (sp y3 ++
        (driveMagicSub s ++ tl))))))))) =
      { rootSpecified := true,
        drive := some [.re (.cat (.rep 2 2 (Frag.sep true))
          (joinSep ([[q], K, h, s].map (fun w => escapeDrive w cfg.caseSensitive))))],
        slash := b,
        endIdx := (sp x1).length + (sp x2).length + 1 + (sp y).length + 0 + (K.length + (sp y2).length) + 0 +
          ((driveMagicSub h).length + (sp y3).length) + 0 + ((driveMagicSub s).length + n) } := by
  obtain ⟨a1, a2⟩ := device_host_props hq
  obtain ⟨k1, k2, k3, hKe, hKf, hKd, _⟩ := unc_kw_props hK
  have hKne : K ≠ [] := by rw [hKe]; simp
  have dq : driveMagicSub [q] = [q] := by rcases hq with rfl | rfl <;> decide
  have hspq : (decide (lower [q] = ['.']) || decide (lower [q] = ['?'])) = true := by
    rcases hq with rfl | rfl <;> decide
  have pc := partChars_dms [q] a2 (sp y ++ (K ++ (sp y2 ++ (driveMagicSub h ++ (sp y3 ++ (driveMagicSub s ++ tl))))))
    (sp_shape hy _)
  rw [dq] at pc
  rw [winDrive_altA cfg _ (sp x1).length (sp x2).length (sp y).length [q] _ true (sep2_sp hx1 _)
    (by rw [List.drop_left]; exact sep2_sp hx2 _)
    (by rw [drop_app2]; exact pc) (by simp) (sepOrEnd_sp hy _)]
  have uq : unescape [q] = [q] := by rcases hq with rfl | rfl <;> decide
  simp only [uq, hspq]
  have hdrop : ∀ e, (sp x1 ++ (sp x2 ++ ([q] ++ (sp y ++ e)))).drop
      ((sp x1).length + (sp x2).length + [q].length + (sp y).length) = e := fun e => drop_app4 _ _ _ _ e
  rw [hdrop]
  -- fuel
  generalize hfu : (sp x1 ++ (sp x2 ++ ([q] ++ (sp y ++ (K ++ (sp y2 ++ (driveMagicSub h ++ (sp y3 ++
        (driveMagicSub s ++ tl))))))))).length + 1 = fuel
  obtain ⟨f, rfl⟩ : ∃ f, fuel = f + 3 := ⟨fuel - 3, by
    have l1 : 0 < (sp x1).length := by rcases sp_cases hx1 with ⟨_, e⟩ | ⟨_, e⟩ <;> simp [e]
    have l2 : 0 < (sp x2).length := by rcases sp_cases hx2 with ⟨_, e⟩ | ⟨_, e⟩ <;> simp [e]
    simp only [List.length_append, List.length_cons, List.length_nil] at hfu
    omega⟩
  -- round 1 : the keyword
  have pa1 := partAt_dms K hKne hKf (sp y2 ++ (driveMagicSub h ++ (sp y3 ++ (driveMagicSub s ++ tl))))
    (sp_shape hy2 _) (sp y2).length true (sepOrEnd_sp hy2 _)
  rw [hKd] at pa1
  rw [partsLoop_unc (f + 2) _ K (K.length + (sp y2).length) true _ pa1 rfl
    (by rw [← hKd, unescape_dms K hKf]; exact hK) (by simp)]
  rw [drop_app2' K (sp y2) _ _ rfl]
  -- round 2 : the host
  have pa2 := partAt_dms h hh hhf (sp y3 ++ (driveMagicSub s ++ tl)) (sp_shape hy3 _) (sp y3).length true
    (sepOrEnd_sp hy3 _)
  rw [partsLoop_more true (f + 1) _ (driveMagicSub h) _ true _ pa2 (by simp) (fun _ => by simp)]
  rw [drop_app2' (driveMagicSub h) (sp y3) _ _ rfl]
  -- round 3 : the share
  have pa3 := partAt_dms s hs hsf tl ht n b hse
  rw [partsLoop_last true f _ (driveMagicSub s) _ b _ pa3 rfl (fun _ => by simp)]
  have uK : unescape K = K := by rw [← hKd, unescape_dms K hKf, hKd]
  simp [unescape_dms h hhf, unescape_dms s hsf, uK]

/-- `RE_WIN_DRIVE` on `sep sep [?.] sep UNC sep h sep s` : alternative 1b -/
theorem reWinDrive_devUnc (x1 x2 y y2 y3 q : Char) (hx1 : isSepW x1 = true) (hx2 : isSepW x2 = true)
    (hy : isSepW y = true) (hy2 : isSepW y2 = true) (hy3 : isSepW y3 = true) (hq : q = '?' ∨ q = '.')
    (K : List Char) (hK : lower K = ['u', 'n', 'c'])
    (h s : List Char) (hh : h ≠ []) (hs : s ≠ [])
    (hhf : ∀ c ∈ h, isSepW c = false) (hsf : ∀ c ∈ s, isSepW c = false) (tl out : List Char)
    (ht : tl = [] ∨ ∃ c t, tl = c :: t ∧ isSepW c = true) (htl : tailD tl = some out) :
    reWinDrive (sp x1 ++ (sp x2 ++ ([q] ++ (sp y ++ (K ++ (sp y2 ++ (h ++ (sp y3 ++ (s ++ tl))))))))) =
      some out := by
  have hq' : (q = '?' || q = '.') = true := by rcases hq with rfl | rfl <;> decide
  obtain ⟨k1, k2, k3, hKe, _, _, hk2⟩ := unc_kw_props hK
  have a2 : part1 (h ++ (sp y3 ++ (s ++ tl))) = some (sp y3 ++ (s ++ tl)) :=
    part1_sepfree h hh hhf _ (.inr (sp_head hy3 _))
  have a3 : part1 (s ++ tl) = some tl := part1_sepfree s hs hsf _ ht
  have hkw : ∀ X, kw "unc".toList (K ++ X) = some X := by
    intro X
    subst hKe
    unfold kw
    have : lower [k1, k2, k3] = ['u', 'n', 'c'] := hK
    simp [this]
  have hlc : ∀ X, letterColon (K ++ X) = none := by
    intro X
    subst hKe
    simp [letterColon, hk2]
  have hu : uncTwo (K ++ (sp y2 ++ (h ++ (sp y3 ++ (s ++ tl))))) = some tl := by
    unfold uncTwo
    simp only [hkw, Option.bind_eq_bind, Option.bind_some, sepD_sp hy2, a2, sepD_sp hy3, a3]
  unfold reWinDrive
  simp only [sepD_sp hx1, sepD_sp hx2, Option.bind_eq_bind, Option.bind_some, List.cons_append,
    List.nil_append, hq', ite_true, sepD_sp hy, hlc, hu, htl, Option.orElse, Option.bind_none]

theorem splitSepW_dev (q : Char) (hqf : ∀ c ∈ [q], isSepW c = false) (K h s : List Char)
    (hKf : ∀ c ∈ K, isSepW c = false) (hhf : ∀ c ∈ h, isSepW c = false) (hsf : ∀ c ∈ s, isSepW c = false)
    (y y2 y3 : Char) (hy : isSepW y = true) (hy2 : isSepW y2 = true) (hy3 : isSepW y3 = true) :
    splitSepW ([q] ++ y :: (K ++ y2 :: (h ++ y3 :: s))) = [[q], K, h, s] := by
  rw [splitSepW_append_sep [q] hqf y _ hy, splitSepW_append_sep K hKf y2 _ hy2,
    splitSepW_append_sep h hhf y3 _ hy3, splitSepW_sepfree s hsf]

/-- `sep sep [?.] sep UNC sep h sep s sep rest` : the two scanners agree -/
theorem driveAgree_devUnc_sep (cfg : Cfg) (x1 x2 y y2 y3 z q : Char) (hx1 : isSepW x1 = true)
    (hx2 : isSepW x2 = true) (hy : isSepW y = true) (hy2 : isSepW y2 = true) (hy3 : isSepW y3 = true)
    (hz : isSepW z = true) (hq : q = '?' ∨ q = '.') (K : List Char) (hK : lower K = ['u', 'n', 'c'])
    (h s : List Char) (hh : h ≠ []) (hs : s ≠ [])
    (hhf : ∀ c ∈ h, isSepW c = false) (hsf : ∀ c ∈ s, isSepW c = false) (rest : List Char) :
    DriveAgree cfg (x1 :: x2 :: ([q] ++ y :: (K ++ y2 :: (h ++ y3 :: (s ++ [z]))))) rest = true := by
  obtain ⟨_, hqf⟩ := device_host_props hq
  obtain ⟨k1, k2, k3, hKe, hKf, hKd, _⟩ := unc_kw_props hK
  have dq : driveMagicSub [q] = [q] := by rcases hq with rfl | rfl <;> decide
  have spq : sp q = [q] := by rcases hq with rfl | rfl <;> decide
  have dqc : ∀ X, driveMagicSub (q :: X) = q :: driveMagicSub X := by
    intro X
    rcases hq with rfl | rfl <;> simp [driveMagicSub, driveMagicChars]
  have hdbl : dbl (x1 :: x2 :: ([q] ++ y :: (K ++ y2 :: (h ++ y3 :: (s ++ [z])))) ++ rest) =
      sp x1 ++ (sp x2 ++ ([q] ++ (sp y ++ (K ++ (sp y2 ++ (h ++ (sp y3 ++ (s ++ (sp z ++ dbl rest))))))))) := by
    simp only [List.cons_append, dbl_cons_sp, List.append_assoc, dbl_append, dbl_sepfree [q] hqf,
      dbl_sepfree K hKf, dbl_sepfree h hhf, dbl_sepfree s hsf, List.nil_append, dbl_single, spq]
  have hc : reWinDrive (dbl (x1 :: x2 :: ([q] ++ y :: (K ++ y2 :: (h ++ y3 :: (s ++ [z])))) ++ rest)) =
      some (dbl rest) := by
    rw [hdbl]
    exact reWinDrive_devUnc x1 x2 y y2 y3 q hx1 hx2 hy hy2 hy3 hq K hK h s hh hs hhf hsf _ _
      (.inr (sp_head hz _)) (tailD_sp hz _)
  have hdm : driveMagicSub (dbl (x1 :: x2 :: ([q] ++ y :: (K ++ y2 :: (h ++ y3 :: (s ++ [z])))))) =
      sp x1 ++ (sp x2 ++ ([q] ++ (sp y ++ (K ++ (sp y2 ++ (driveMagicSub h ++ (sp y3 ++
        (driveMagicSub s ++ sp z)))))))) := by
    have e0 : driveMagicSub (dbl []) = [] := rfl
    simp only [dbl_cons_sp, dbl_append, dms_append, dms_sp hx1, dms_sp hx2, dms_sp hy, dms_sp hy2, dms_sp hy3,
      dms_sp hz, dbl_sepfree [q] hqf, dbl_sepfree K hKf, dbl_sepfree h hhf, dbl_sepfree s hsf, dbl_single,
      List.append_assoc, e0, List.append_nil, dq, hKd, spq, List.cons_append, List.nil_append, dqc]
  have hp := escapeWin_carve _ _ hc
  rw [hdm] at hp
  have hp' : escapeWin (x1 :: x2 :: ([q] ++ y :: (K ++ y2 :: (h ++ y3 :: (s ++ [z])))) ++ rest) =
      sp x1 ++ (sp x2 ++ ([q] ++ (sp y ++ (K ++ (sp y2 ++ (driveMagicSub h ++ (sp y3 ++
        (driveMagicSub s ++ (sp z ++ escapeUnix rest))))))))) := by
    rw [hp]; simp only [List.append_assoc]
  have hw := winDrive_devUnc cfg x1 x2 y y2 y3 q hx1 hx2 hy hy2 hy3 hq K hK h s hh hs hhf hsf
    (sp z ++ escapeUnix rest)
    (by rcases sp_shape hz (escapeUnix rest) with h | h | h
        · exact .inl h
        · exact .inr (.inl h)
        · exact .inr (.inr h))
    (sp z).length true (sepOrEnd_sp hz _)
  have e1 : x1 :: x2 :: ([q] ++ y :: (K ++ y2 :: (h ++ y3 :: (s ++ [z])))) =
      (x1 :: x2 :: ([q] ++ y :: (K ++ y2 :: (h ++ y3 :: s)))) ++ [z] := by simp
  apply DriveAgreeP.agree
  refine ⟨hc, ?_, ?_, ?_, ?_⟩
  · rw [hp', hw]
  · rw [hp', hw, hdm]; simp only [List.length_append, List.length_cons, List.length_nil]; omega
  · rw [hp', hw, e1, endsSepW_append_single, hz]
  · rw [hp', hw]
    have e2 : driveCore (x1 :: x2 :: ([q] ++ y :: (K ++ y2 :: (h ++ y3 :: (s ++ [z]))))) =
        x1 :: x2 :: ([q] ++ y :: (K ++ y2 :: (h ++ y3 :: s))) := by
      rw [e1]
      unfold driveCore
      rw [endsSepW_append_single, hz]
      simp only [ite_true, List.dropLast_concat]
    rw [e2]
    simp only [driveReOf, hx1, hx2, Bool.and_self, ite_true,
      splitSepW_dev q hqf K h s hKf hhf hsf y y2 y3 hy hy2 hy3]

/-- `sep sep [?.] sep UNC sep h sep s` (end of the string) -/
theorem driveAgree_devUnc_end (cfg : Cfg) (x1 x2 y y2 y3 q : Char) (hx1 : isSepW x1 = true)
    (hx2 : isSepW x2 = true) (hy : isSepW y = true) (hy2 : isSepW y2 = true) (hy3 : isSepW y3 = true)
    (hq : q = '?' ∨ q = '.') (K : List Char) (hK : lower K = ['u', 'n', 'c'])
    (h s : List Char) (hh : h ≠ []) (hs : s ≠ [])
    (hhf : ∀ c ∈ h, isSepW c = false) (hsf : ∀ c ∈ s, isSepW c = false) :
    DriveAgree cfg (x1 :: x2 :: ([q] ++ y :: (K ++ y2 :: (h ++ y3 :: s)))) [] = true := by
  obtain ⟨_, hqf⟩ := device_host_props hq
  obtain ⟨k1, k2, k3, hKe, hKf, hKd, _⟩ := unc_kw_props hK
  have dq : driveMagicSub [q] = [q] := by rcases hq with rfl | rfl <;> decide
  have spq : sp q = [q] := by rcases hq with rfl | rfl <;> decide
  have dqc : ∀ X, driveMagicSub (q :: X) = q :: driveMagicSub X := by
    intro X
    rcases hq with rfl | rfl <;> simp [driveMagicSub, driveMagicChars]
  have hdbl : dbl (x1 :: x2 :: ([q] ++ y :: (K ++ y2 :: (h ++ y3 :: s))) ++ []) =
      sp x1 ++ (sp x2 ++ ([q] ++ (sp y ++ (K ++ (sp y2 ++ (h ++ (sp y3 ++ (s ++ []))))))))  := by
    simp only [List.append_nil, dbl_cons_sp, dbl_append, dbl_sepfree [q] hqf,
      dbl_sepfree K hKf, dbl_sepfree h hhf, dbl_sepfree s hsf, spq, List.cons_append, List.nil_append]
  have hc : reWinDrive (dbl (x1 :: x2 :: ([q] ++ y :: (K ++ y2 :: (h ++ y3 :: s))) ++ [])) = some (dbl []) := by
    rw [hdbl]
    exact reWinDrive_devUnc x1 x2 y y2 y3 q hx1 hx2 hy hy2 hy3 hq K hK h s hh hs hhf hsf [] [] (.inl rfl) rfl
  have hdm : driveMagicSub (dbl (x1 :: x2 :: ([q] ++ y :: (K ++ y2 :: (h ++ y3 :: s))))) =
      sp x1 ++ (sp x2 ++ ([q] ++ (sp y ++ (K ++ (sp y2 ++ (driveMagicSub h ++ (sp y3 ++
        (driveMagicSub s ++ []))))))))  := by
    simp only [dbl_cons_sp, dbl_append, dms_append, dms_sp hx1, dms_sp hx2, dms_sp hy, dms_sp hy2, dms_sp hy3,
      dbl_sepfree [q] hqf, dbl_sepfree K hKf, dbl_sepfree h hhf, dbl_sepfree s hsf,
      List.append_nil, dq, hKd, spq, List.cons_append, List.nil_append, dqc]
  have hp := escapeWin_carve _ _ hc
  have hp' : escapeWin (x1 :: x2 :: ([q] ++ y :: (K ++ y2 :: (h ++ y3 :: s))) ++ []) =
      sp x1 ++ (sp x2 ++ ([q] ++ (sp y ++ (K ++ (sp y2 ++ (driveMagicSub h ++ (sp y3 ++
        (driveMagicSub s ++ [])))))))) := by
    rw [hp, hdm]; simp [escapeUnix]
  have hw := winDrive_devUnc cfg x1 x2 y y2 y3 q hx1 hx2 hy hy2 hy3 hq K hK h s hh hs hhf hsf [] (.inl rfl)
    0 false rfl
  have e1 : x1 :: x2 :: ([q] ++ y :: (K ++ y2 :: (h ++ y3 :: s))) =
      (x1 :: x2 :: ([q] ++ y :: (K ++ y2 :: (h ++ [y3])))) ++ s := by simp
  apply DriveAgreeP.agree
  refine ⟨hc, ?_, ?_, ?_, ?_⟩
  · rw [hp', hw]
  · rw [hp', hw, hdm]; simp only [List.length_append, List.length_cons, List.length_nil]; omega
  · rw [hp', hw, e1, endsSepW_sepfree_tail _ s hs hsf]
  · rw [hp', hw]
    have e2 : driveCore (x1 :: x2 :: ([q] ++ y :: (K ++ y2 :: (h ++ y3 :: s)))) =
        x1 :: x2 :: ([q] ++ y :: (K ++ y2 :: (h ++ y3 :: s))) := by
      unfold driveCore
      rw [e1, endsSepW_sepfree_tail _ s hs hsf]
      simp
    rw [e2]
    simp only [driveReOf, hx1, hx2, Bool.and_self, ite_true,
      splitSepW_dev q hqf K h s hKf hhf hsf y y2 y3 hy hy2 hy3]

end WcModel

import WcModel.Proofs.BridgeFlags
import WcModel.Proofs.BridgeTop
import WcModel.Properties.C02path
/-
  C04 bridge, part 9: the two regex sides, for the flag words `wordF dot gs`.

  * `matcher_sem`   the inclusion regex `globmatch` compiles (REALPATH) for a globstar-free printed
                    relative pattern: no capture group, and on the name `_match_real` builds its
                    language is the documented one (`pathLangR`);
  * `segPart_magic` the regex `_GlobSplit` compiles for a magic segment (REALPATH too): on the names
                    in scope its `fullmatch` is the segment's documented language;
  * `segPart_lit`   a segment whose printed text has no magic character is literal text, and its
                    documented language is "equal to that text";
  * `SplitShape`, `partsFor_of_shape`   a part list of the shape `_GlobSplit` produces for a printed
                    pattern (one part per segment) stands for the segments (`PartsFor`).
-/
namespace WcModel.Bridge
open PP PPP
open C04cap (realName)

theorem pjoins_getLast (a : List Char) (ns : List Name) (n : Name) (hn : Sane n) :
    (pjoins a (ns ++ [n])).getLast? = n.getLast? := by
  rw [pjoins_snoc]
  exact pjoin_getLast _ n hn.1 hn.head

theorem ne_nil_snoc {α : Type} (l : List α) (h : l ≠ []) : ∃ init last, l = init ++ [last] := by
  rcases List.eq_nil_or_concat l with h0 | ⟨init, last, hl⟩
  · exact absurd h0 h
  · exact ⟨init, last, by rw [hl, List.concat_eq_append]⟩

/-- the name `_match_real` builds from a path of components in scope has visible pieces, does not
    begin with a separator, and (under DOTGLOB) does not end in a newline -/
theorem realName_props (fs : FS) (dot : Bool) (n : Name) (ns : List Name) (hok : ∀ m ∈ n :: ns, NameOK dot m) :
    (∀ p ∈ pieces (realName fs (pjoins [] (n :: ns))), visible dot p = true) ∧
    (realName fs (pjoins [] (n :: ns))).head? ≠ some '/' ∧
    (dot = false ∨ (realName fs (pjoins [] (n :: ns))).getLast? ≠ some '\n') := by
  have hs : ∀ m ∈ n :: ns, Sane m := fun m hm => (hok m hm).sane
  have hnt : NoTrail (pjoins [] (n :: ns)) := pjoins_noTrail [] noTrail_nil _ hs
  have hhd := pjoins_head n ns hs
  have hne : pjoins [] (n :: ns) ≠ [] := pjoins_ne_nil [] noTrail_nil n ns hs
  rw [realName_eq fs _ hnt]
  split
  · refine ⟨?_, ?_, Or.inr (by simp)⟩
    · rw [pieces_pjoins_slash _ hs]; exact fun p hp => (hok p hp).vis
    · cases hq : pjoins [] (n :: ns) with
      | nil => exact absurd hq hne
      | cons c t => rw [hq] at hhd; simpa using hhd
  · refine ⟨?_, hhd, ?_⟩
    · rw [pieces_pjoins _ hs]; exact fun p hp => (hok p hp).vis
    · obtain ⟨init, last, hl⟩ := ne_nil_snoc (n :: ns) (by simp)
      rw [hl, pjoins_getLast [] init last (hs last (by rw [hl]; simp))]
      exact (hok last (by rw [hl]; simp)).nl

/-- the scope of a printed path pattern for the model-level theorem: relative, printable
    (`PPP.pathOK`), not beginning with a globstar, every file-name segment in `Pat.segScope` -/
def patOK (pp : PathPat) : Bool := relOK pp && pp.segs.all Seg.scope

theorem patOK_segOK {pp : PathPat} (h : patOK pp = true) : ∀ s ∈ pp.segs, PPP.segOK s = true := by
  simp only [patOK, relOK, pathOK, Bool.and_eq_true, List.all_eq_true] at h
  exact h.1.1.1.1.1

theorem patOK_scope {pp : PathPat} (h : patOK pp = true) : ∀ s ∈ pp.segs, Seg.scope s = true := by
  simp only [patOK, Bool.and_eq_true, List.all_eq_true] at h
  exact h.2

theorem patOK_noGG {pp : PathPat} (h : patOK pp = true) : noGG pp.segs = true := by
  simp only [patOK, relOK, pathOK, Bool.and_eq_true] at h
  exact h.1.1.1.1.2

theorem patOK_abs {pp : PathPat} (h : patOK pp = true) : pp.abs = false := by
  simp only [patOK, relOK, Bool.and_eq_true, Bool.not_eq_eq_eq_not, Bool.not_true] at h
  exact h.1.1.2

theorem patOK_ne {pp : PathPat} (h : patOK pp = true) : pp.segs ≠ [] := by
  have ha := patOK_abs h
  simp only [patOK, relOK, pathOK, Bool.and_eq_true, Bool.or_eq_true, Bool.not_eq_eq_eq_not, Bool.not_true,
    List.isEmpty_eq_false_iff] at h
  rcases h.1.1.1.2 with h3 | h3
  · exact h3
  · rw [ha] at h3; cases h3

theorem globfree_patScope {segs : List Seg} (hs : ∀ s ∈ segs, Seg.scope s = true)
    (hg : segs.any Seg.isGlob = false) : segs.all Seg.patScope = true := by
  rw [List.all_eq_true]
  intro s hm
  have h1 := hs s hm
  cases s with
  | pat g => exact h1
  | glob =>
    exfalso
    have : segs.any Seg.isGlob = true := List.any_eq_true.2 ⟨.glob, hm, rfl⟩
    rw [hg] at this; cases this

/-- **the matcher side**: for a globstar-free pattern in scope, the faithful port under
    `wordF | REALPATH` succeeds, its regex has no capture group, and on the name `_match_real`
    builds from a path of components in scope its language is the documented one -/
theorem matcher_sem (dot gs : Bool) (pp : PathPat) (hpp : patOK pp = true)
    (hg : pp.segs.any Seg.isGlob = false) :
    ∃ parsed r, parseItems (cfgM dot gs) (winDrive (cfgM dot gs)) (printPath pp) = .ok parsed ∧
      parsed.toRe = some r ∧ r.ncaps = 0 ∧
      ∀ (fs : FS) (n : Name) (ns : List Name), (∀ m ∈ n :: ns, NameOK dot m) →
        (r.FullMatch (realName fs (pjoins [] (n :: ns))) ↔
          pathLangR (ctxF dot gs) .free pp (realName fs (pjoins [] (n :: ns))) = true) := by
  have hrel : relOK pp = true := by simp only [patOK, Bool.and_eq_true] at hpp; exact hpp.1
  obtain ⟨parsed, r, h1, h2, h3, h4⟩ := pass_print_path_real_sem (cfgM dot gs) (pathX_cfgM dot gs)
    (cfgM_realpath dot gs) (winDrive (cfgM dot gs)) pp hrel (by rw [hg]; intro h; cases h)
  refine ⟨parsed, r, h1, h2, h4 (cfgM_capture dot gs) hg, ?_⟩
  intro fs n ns hok
  obtain ⟨hvis, hhd, hnl⟩ := realName_props fs dot n ns hok
  rw [h3, cfgM_dot, cfgM_cs, Bool.not_true]
  have hwf : pp.segs = [] → pp.abs = true := fun h => absurd h (patOK_ne hpp)
  have := C02path.C02path_globfree (ctxF dot gs) pp (globfree_patScope (patOK_scope hpp) hg) hwf _ hvis hnl
  exact ⟨fun h => this.1 h.2, fun h => ⟨hhd, this.2 h⟩⟩

/-! ### the parts `_GlobSplit` compiles -/

theorem compilePart_eq (dot gs : Bool) (v : List Char) :
    compilePart (gFlags dot gs) false v =
      match parseItems (cfgG dot gs) (winDrive (cfgG dot gs)) v with
      | .error _ => .error .noAbsolute
      | .ok parsed => match parsed.toRe with
        | some r => .ok r
        | none => .error .reError := by
  unfold compilePart Driver.parsePattern
  rw [Flags.ofNat_toNat]
  rfl

/-- the one-segment pattern `g` -/
def segPat (g : Pat) : PathPat := ⟨false, [.pat g], false⟩

theorem printPath_segPat (g : Pat) : printPath (segPat g) = print g := by
  simp [printPath, segPat, printSegs]

theorem pathLangR_segPat (ctx : PCtx) (g : Pat) (n : Name) (hn : Sane n) :
    pathLangR ctx .free (segPat g) n = segMatch ctx .free g n := by
  unfold pathLangR
  have hp : (cutAtSlash n).filter (fun p => !p.isEmpty) = [n] := pieces_last n (sane_noSlash hn) hn.1
  simp only [segPat, Bool.false_eq_true, if_false, hp, segsMatch, List.isEmpty_nil, Bool.not_false,
    Bool.true_or, Bool.and_true]
  have : decide (n.head? = some '/') = false := decide_eq_false hn.head
  simp [this]

/-- **a magic segment**: the regex `_GlobSplit` compiles for the printed segment `g` exists, and on
    the names in scope its `fullmatch` is the documented language of `g` -/
theorem segPart_magic (dot gs : Bool) (g : Pat) (hok : PPP.segOK (.pat g) = true) (hsc : g.segScope = true) :
    ∃ r, compilePart (gFlags dot gs) false (print g) = .ok r ∧
      ∀ n, NameOK dot n → r.fullmatch n = segMatch (ctxF dot gs) .free g n := by
  have hrel : relOK (segPat g) = true := by
    simp [relOK, pathOK, segPat, hok, noGG, Seg.isGlob]
  obtain ⟨parsed, r, h1, h2, h3, _⟩ := pass_print_path_real_sem (cfgG dot gs) (pathX_cfgG dot gs)
    (cfgG_realpath dot gs) (winDrive (cfgG dot gs)) (segPat g) hrel (by simp [segPat, Seg.isGlob])
  rw [printPath_segPat] at h1
  refine ⟨r, by rw [compilePart_eq, h1]; simp only [h2], ?_⟩
  intro n hn
  have hvis : ∀ p ∈ pieces n, visible dot p = true := by
    rw [pieces_last n (sane_noSlash hn.sane) hn.sane.1]
    intro p hp; rw [List.mem_singleton] at hp; subst hp; exact hn.vis
  have key : r.FullMatch n ↔ segMatch (ctxF dot gs) .free g n = true := by
    rw [h3, cfgG_dot, cfgG_cs, Bool.not_true]
    have := C02path.C02path_globfree (ctxF dot gs) (segPat g) (by simp [segPat, Seg.patScope, hsc])
      (by simp [segPat]) n hvis hn.nl
    rw [← pathLangR_segPat _ g n hn.sane]
    exact ⟨fun h => this.1 h.2, fun h => ⟨hn.sane.head, this.2 h⟩⟩
  cases hf : r.fullmatch n <;> cases hm : segMatch (ctxF dot gs) .free g n
  · rfl
  · exact absurd (key.2 hm) (by rw [← Re.fullmatch_iff, hf]; simp)
  · exact absurd (key.1 ((Re.fullmatch_iff r n).1 hf)) (by rw [hm]; simp)
  · rfl

/-! ### literal segments -/

/-- literal text the printer writes bare -/
def plainPat : Pat → Bool
  | .eps => true
  | .lit c => !(escSet.contains c)
  | .seq a b => plainPat a && plainPat b
  | _ => false

theorem isMagic_of_mem (f : Flags) (c : Char) (hc : c ∈ GSplit.magicSymbols f) (v : List Char) (hv : c ∈ v) :
    GSplit.isMagic f v = true := by
  unfold GSplit.isMagic
  rw [List.any_eq_true]
  exact ⟨c, hc, by simpa using hv⟩

theorem magic_def (f : Flags) (c : Char) (hc : c ∈ ['*', '?', '[', '\\', ']']) : c ∈ GSplit.magicSymbols f := by
  unfold GSplit.magicSymbols
  have : Gen.cMAGIC_DEF.toList = ['*', '?', '[', '\\', ']'] := by decide
  rw [this]
  simp only [List.append_assoc, List.mem_append]
  exact Or.inl hc

theorem magic_ext (f : Flags) (hf : f.extmatch = true) (c : Char) (hc : c ∈ ['(', ')']) :
    c ∈ GSplit.magicSymbols f := by
  unfold GSplit.magicSymbols
  have : Gen.cMAGIC_EXTMATCH.toList = ['(', ')'] := by decide
  rw [hf, this]
  simp only [List.append_assoc, List.mem_append, if_true]
  exact Or.inr (Or.inr (Or.inr (Or.inr (Or.inl hc))))

theorem isMagic_append_left (f : Flags) (a b : List Char) (h : GSplit.isMagic f (a ++ b) = false) :
    GSplit.isMagic f a = false ∧ GSplit.isMagic f b = false := by
  unfold GSplit.isMagic at h ⊢
  simp only [List.any_eq_false, List.contains_iff_mem, List.mem_append, not_or] at h ⊢
  exact ⟨fun c hc => (h c hc).1, fun c hc => (h c hc).2⟩

/-- a printable segment whose text has no magic character is plain literal text -/
theorem plain_of_not_magic (f : Flags) (hf : f.extmatch = true) : ∀ (g : Pat), pp false g = true →
    GSplit.isMagic f (print g) = false → plainPat g = true := by
  intro g
  induction g with
  | eps => intro _ _; rfl
  | lit c =>
    intro _ h
    simp only [plainPat, Bool.not_eq_true']
    cases hc : escSet.contains c
    · rfl
    · exfalso
      have : print (.lit c) = ['\\', c] := by
        simp only [print, printLit]
        rw [if_pos (by simpa using hc)]
      rw [this, isMagic_of_mem f '\\' (magic_def f _ (by simp)) _ (by simp)] at h
      cases h
  | any => intro _ h; rw [isMagic_of_mem f '?' (magic_def f _ (by simp)) _ (by simp [print])] at h; cases h
  | star => intro _ h; rw [isMagic_of_mem f '*' (magic_def f _ (by simp)) _ (by simp [print])] at h; cases h
  | cls neg items =>
    intro _ h; rw [isMagic_of_mem f '[' (magic_def f _ (by simp)) _ (by simp [print])] at h; cases h
  | seq a b iha ihb =>
    intro hp h
    simp only [pp, Bool.and_eq_true] at hp
    simp only [print] at h
    obtain ⟨h1, h2⟩ := isMagic_append_left f _ _ h
    simp only [plainPat, Bool.and_eq_true]
    exact ⟨iha hp.1 h1, ihb hp.2 h2⟩
  | alt a b _ _ => intro hp _; simp [pp] at hp
  | ext k body _ =>
    intro _ h
    rw [isMagic_of_mem f '(' (magic_ext f hf _ (by simp)) _ (by simp [print])] at h; cases h

theorem consume1_eq (c : Char) (a b : St) :
    consume1 (charEq false c) a b ↔ a.rest = c :: b.rest ∧ b.atStart = false := by
  unfold consume1
  constructor
  · rintro ⟨d, s, h1, h2, rfl⟩
    simp only [charEq, Bool.false_eq_true, if_false, beq_iff_eq] at h2
    subst h2
    exact ⟨h1, rfl⟩
  · rintro ⟨h1, h2⟩
    refine ⟨c, b.rest, h1, by simp [charEq], ?_⟩
    cases b
    simp only at h2
    subst h2
    rfl

/-- the documented language of plain literal text, case-sensitively: that text -/
theorem L_plain : ∀ (g : Pat), plainPat g = true → ∀ a b : St,
    (Pat.L false g a b ↔ a.rest = print g ++ b.rest ∧ b.atStart = (if print g = [] then a.atStart else false)) := by
  intro g
  induction g with
  | eps =>
    intro _ a b
    simp only [Pat.L, print, List.nil_append, if_true]
    constructor
    · rintro rfl; exact ⟨rfl, rfl⟩
    · rintro ⟨h1, h2⟩; cases a; cases b; simp_all
  | lit c =>
    intro h a b
    have hp : print (.lit c) = [c] := by
      simp only [print, printLit]
      rw [if_neg]
      simp only [plainPat, Bool.not_eq_true'] at h
      intro hm
      have : escSet.contains c = true := by simpa using hm
      rw [h] at this; cases this
    rw [hp]
    simp only [Pat.L, consume1_eq, List.cons_append, List.nil_append, List.cons_ne_nil, if_false]
  | seq p q ihp ihq =>
    intro h a b
    simp only [plainPat, Bool.and_eq_true] at h
    simp only [Pat.L, print, ihp h.1, ihq h.2]
    constructor
    · rintro ⟨m, ⟨h1, h2⟩, h3, h4⟩
      refine ⟨by rw [h1, h3, List.append_assoc], ?_⟩
      rw [h4, h2]
      by_cases hp : print p = [] <;> by_cases hq : print q = [] <;> simp [hp, hq]
    · rintro ⟨h1, h2⟩
      refine ⟨⟨if print p = [] then a.atStart else false, print q ++ b.rest⟩, ⟨by rw [h1, List.append_assoc], rfl⟩,
        rfl, ?_⟩
      rw [h2]
      by_cases hp : print p = [] <;> by_cases hq : print q = [] <;> simp [hp, hq]
  | any => intro h; cases h
  | star => intro h; cases h
  | cls _ _ => intro h; cases h
  | alt _ _ _ _ => intro h; cases h
  | ext _ _ _ => intro h; cases h

/-- **a literal segment**: a printable segment whose text has no magic character accepts exactly
    that text -/
theorem segPart_lit (f : Flags) (hf : f.extmatch = true) (ctx : PCtx) (hci : ctx.ci = false) (g : Pat)
    (hp : pp false g = true) (hm : GSplit.isMagic f (print g) = false) (n : Name) :
    segOK true (.lit (print g)) n = segMatch ctx .free g n := by
  have hpl := plain_of_not_magic f hf g hp hm
  have key : segMatch ctx .free g n = true ↔ n = print g := by
    rw [segMatch_free, langR_free_iff, hci]
    unfold Pat.Lang
    simp only [L_plain g hpl, List.append_nil]
    constructor
    · rintro ⟨_, h, _⟩; exact h
    · intro h; exact ⟨_, h, rfl⟩
  simp only [segOK, if_true]
  cases hs : segMatch ctx .free g n
  · cases he : n == print g
    · rfl
    · exact absurd (key.2 (by simpa using he)) (by rw [hs]; simp)
  · rw [key.1 hs]; simp

/-! ### the shape `_GlobSplit` gives a printed pattern -/

/-- what `_GlobSplit` makes of one printed segment -/
def PartOf (f : Flags) (s : Seg) (dirOnly : Bool) (p : GPart) : Prop :=
  match s with
  | .glob => ∃ pat, p = ⟨pat, true, true, false, dirOnly, false⟩
  | .pat g =>
    p.isGlobstar = false ∧ p.isGlobstarLong = false ∧ p.dirOnly = dirOnly ∧ p.isDrive = false ∧
      ((p.isMagic = true ∧ ∃ r, compilePart f false (print g) = .ok r ∧ p.pat = .re (print g) r) ∨
       (p.isMagic = false ∧ GSplit.isMagic f (print g) = false ∧ p.pat = .lit (print g)))

/-- one part per segment; `dir_only` everywhere but (unless the pattern ends with a separator) on
    the last part -/
def SplitShape (f : Flags) (tr : Bool) : List Seg → List GPart → Prop
  | [], [] => True
  | s :: ss, p :: ps => PartOf f s (if ss.isEmpty then tr else true) p ∧ SplitShape f tr ss ps
  | _, _ => False

theorem partsFor_of_shape (dot gs : Bool) (tr : Bool) : ∀ (segs : List Seg) (parts : List GPart),
    SplitShape (gFlags dot gs) tr segs parts → (∀ s ∈ segs, PPP.segOK s = true) → (∀ s ∈ segs, Seg.scope s = true) →
    PartsFor (ctxF dot gs) true tr segs parts := by
  intro segs
  induction segs with
  | nil =>
    intro parts h _ _
    cases parts with
    | nil => trivial
    | cons p ps => exact h.elim
  | cons s ss ih =>
    intro parts h hok hsc
    cases parts with
    | nil => exact h.elim
    | cons p ps =>
      obtain ⟨hp, hrest⟩ := h
      have ihr := ih ps hrest (fun x hx => hok x (List.mem_cons_of_mem _ hx)) (fun x hx => hsc x (List.mem_cons_of_mem _ hx))
      have hlen : ps = [] → ss = [] := fun h => by subst h; exact ihr.nil_right
      refine ⟨?_, ?_, ihr⟩
      · cases s with
        | glob =>
          obtain ⟨pat, rfl⟩ := hp
          exact ⟨rfl, rfl, fun g hg => by cases hg⟩
        | pat g =>
          obtain ⟨h1, h2, _, _, h5⟩ := hp
          refine ⟨by simp [GPart.isStar, h1], h2, ?_⟩
          intro g' hg' n hn
          cases hg'
          have hsok := hok (.pat g) List.mem_cons_self
          have hssc : g.segScope = true := hsc (.pat g) List.mem_cons_self
          rcases h5 with ⟨_, r, hr, hpat⟩ | ⟨_, hnm, hpat⟩
          · obtain ⟨r', hr', hsem⟩ := segPart_magic dot gs g hsok hssc
            rw [hr] at hr'
            cases hr'
            rw [hpat]
            exact hsem n hn
          · rw [hpat]
            exact segPart_lit (gFlags dot gs) (gFlags_extmatch dot gs) (ctxF dot gs) rfl g (segOK_pat hsok).1 hnm n
      · intro hps
        have hss := hlen hps
        subst hss
        cases s with
        | glob => obtain ⟨pat, rfl⟩ := hp; rfl
        | pat g => exact hp.2.2.1

end WcModel.Bridge

import WcModel.Proofs.CompPath
/-
  The dot rules of the executable path specification (`Pat.endsR`, Spec/PathLang.lean) against
  the documented language `Pat.L`:

    * `endsR_sub`   : whatever a rule admits, the documented language admits (every rule only restricts);
    * `endsR_sup`   : from a state that is NOT "at the first character of a piece that begins with a
                      dot", every rule admits the whole documented language;
    * `endsR_isEmpty`, `endsR_lit_*` : the tokens that never look at the rule.
-/
namespace WcModel.HL

theorem notDot_of_not_atStart {a : St} (h : a.atStart = false) : notDotAtStart a = true := by
  simp [notDotAtStart, h]

theorem notDot_of_le {a c : St} (hle : St.Le c a) (h : notDotAtStart a = true) : notDotAtStart c = true := by
  rcases hle with rfl | ⟨hf, _⟩
  · exact h
  · exact notDot_of_not_atStart hf

/-- every rule only restricts the documented language -/
theorem endsR_sub (ci : Bool) (r : DotRule) (g : Pat) : ∀ a b, b ∈ Pat.endsR ci r g a → Pat.L ci g a b := by
  induction g with
  | eps => intro a b h; simpa [Pat.endsR, Pat.L] using h
  | lit c => intro a b h; simp only [Pat.endsR] at h; exact mem_step1.mp h
  | any =>
    intro a b h
    simp only [Pat.endsR] at h
    split at h
    · simp at h
    · exact mem_step1.mp h
  | cls n i =>
    intro a b h
    simp only [Pat.endsR] at h
    split at h
    · simp at h
    · exact mem_step1.mp h
  | star =>
    intro a b h
    simp only [Pat.L]
    cases r with
    | free => simp only [Pat.endsR] at h; exact (mem_suffixStates a b).mp h
    | may =>
      simp only [Pat.endsR] at h
      split at h
      · exact (mem_suffixStates a b).mp h
      · simp at h; subst h; exact Iter.refl _
    | must =>
      simp only [Pat.endsR] at h
      split at h
      · exact (mem_suffixStates a b).mp h
      · simp at h
  | seq p q ihp ihq =>
    intro a b h
    simp only [Pat.endsR, mem_dedup, List.mem_flatMap] at h
    obtain ⟨c, hc, hb⟩ := h
    exact ⟨c, ihp _ _ hc, ihq _ _ hb⟩
  | alt p q ihp ihq =>
    intro a b h
    simp only [Pat.endsR, mem_dedup, List.mem_append] at h
    rcases h with h | h
    · exact Or.inl (ihp _ _ h)
    · exact Or.inr (ihq _ _ h)
  | ext k p ih =>
    intro a b h
    have hplus : b ∈ dedup ((Pat.endsR ci r p a).flatMap
        (fun c => closeN (fun x => Pat.endsR ci r p x) (c.rest.length + 1) [c])) →
        ∃ c, Pat.L ci p a c ∧ Iter (Pat.L ci p) c b := by
      intro h
      rw [mem_dedup, List.mem_flatMap] at h
      obtain ⟨c, hc, hb⟩ := h
      obtain ⟨x, hx, hxy⟩ := closeN_sound (R := Pat.L ci p) (fun a b h => ih a b h) _ _ hb
      rw [List.mem_singleton] at hx
      exact ⟨c, ih _ _ hc, hx ▸ hxy⟩
    cases k with
    | opt =>
      simp only [Pat.endsR] at h
      simp only [Pat.L]
      split at h
      · exact Or.inr (ih _ _ h)
      · rw [mem_dedup, List.mem_cons] at h
        rcases h with h | h
        · exact Or.inl h
        · exact Or.inr (ih _ _ h)
    | star =>
      simp only [Pat.endsR] at h
      simp only [Pat.L]
      split at h
      · obtain ⟨c, h1, h2⟩ := hplus h
        exact Iter.step h1 h2
      · obtain ⟨x, hx, hxy⟩ := closeN_sound (R := Pat.L ci p) (fun a b h => ih a b h) _ _ h
        rw [List.mem_singleton] at hx
        exact hx ▸ hxy
    | plus =>
      simp only [Pat.endsR] at h
      exact hplus h
    | one =>
      simp only [Pat.endsR] at h
      exact ih _ _ h
    | neg =>
      have hfree : b ∈ (suffixStates a).filter (fun b => !(Pat.endsR ci .free p a).contains b) →
          Pat.L ci (.ext .neg p) a b := by
        intro h
        rw [endsR_free] at h
        exact (Pat.mem_ends_iff ci (.ext .neg p) a b).mp (by simpa [Pat.ends] using h)
      cases r with
      | free => simp only [Pat.endsR] at h; exact hfree h
      | may =>
        simp only [Pat.endsR] at h
        split at h
        · exact hfree h
        · split at h
          · simp at h
          · rename_i hc
            simp only [List.mem_singleton] at h
            subst h
            refine ⟨Iter.refl _, fun hL => hc ?_⟩
            rw [endsR_free]
            have := (Pat.mem_ends_iff ci p b b).mpr hL
            simpa using this
      | must =>
        simp only [Pat.endsR] at h
        split at h
        · exact hfree h
        · simp at h

/-- away from a leading dot every rule admits the whole documented language -/
theorem endsR_sup (ci : Bool) (r : DotRule) (g : Pat) :
    ∀ a b, notDotAtStart a = true → Pat.L ci g a b → b ∈ Pat.endsR ci r g a := by
  induction g with
  | eps => intro a b _ h; simpa [Pat.endsR, Pat.L] using h
  | lit c => intro a b _ h; simp only [Pat.endsR]; exact mem_step1.mpr h
  | any => intro a b hn h; simp only [Pat.endsR, hn]; simpa using mem_step1.mpr h
  | cls n i => intro a b hn h; simp only [Pat.endsR, hn]; simpa using mem_step1.mpr h
  | star =>
    intro a b hn h
    cases r <;> simp only [Pat.endsR, hn, if_true] <;> exact (mem_suffixStates a b).mpr h
  | seq p q ihp ihq =>
    intro a b hn h
    obtain ⟨c, h1, h2⟩ := h
    simp only [Pat.endsR, mem_dedup, List.mem_flatMap]
    exact ⟨c, ihp _ _ hn h1, ihq _ _ (notDot_of_le (Pat.L_le ci p _ _ h1) hn) h2⟩
  | alt p q ihp ihq =>
    intro a b hn h
    simp only [Pat.endsR, mem_dedup, List.mem_append]
    rcases h with h | h
    · exact Or.inl (ihp _ _ hn h)
    · exact Or.inr (ihq _ _ hn h)
  | ext k p ih =>
    intro a b hn h
    -- iterating from a state away from a leading dot stays away from it
    have hiter : ∀ c, notDotAtStart c = true → Iter (Pat.L ci p) c b →
        b ∈ closeN (fun x => Pat.endsR ci r p x) (c.rest.length + 1) [c] := by
      intro c hc hit
      have hit' : Iter (fun x y => Pat.L ci p x y ∧ notDotAtStart x = true) c b := by
        clear h
        induction hit with
        | refl _ => exact Iter.refl _
        | step hab _ ih' => exact Iter.step ⟨hab, hc⟩ (ih' (notDot_of_le (Pat.L_le ci p _ _ hab) hc))
      exact closeN_complete (R := fun x y => Pat.L ci p x y ∧ notDotAtStart x = true)
        (fun x y hxy => ih x y hxy.2 hxy.1) (fun x y hxy => Pat.L_le ci p x y hxy.1) hit' _ _
        (List.mem_singleton.mpr rfl) (by omega)
    cases k with
    | opt =>
      simp only [Pat.endsR, hn, Bool.not_true, Bool.and_false, Bool.false_eq_true, if_false, mem_dedup,
        List.mem_cons]
      rcases h with h | h
      · exact Or.inl h
      · exact Or.inr (ih _ _ hn h)
    | star =>
      simp only [Pat.endsR, hn, Bool.not_true, Bool.and_false, Bool.false_eq_true, if_false]
      exact hiter a hn h
    | plus =>
      obtain ⟨c, h1, h2⟩ := h
      simp only [Pat.endsR, mem_dedup, List.mem_flatMap]
      exact ⟨c, ih _ _ hn h1, hiter c (notDot_of_le (Pat.L_le ci p _ _ h1) hn) h2⟩
    | one => simp only [Pat.endsR]; exact ih _ _ hn h
    | neg =>
      have hfree : b ∈ (suffixStates a).filter (fun b => !(Pat.endsR ci .free p a).contains b) := by
        rw [endsR_free]
        have := (Pat.mem_ends_iff ci (.ext .neg p) a b).mpr h
        simpa [Pat.ends] using this
      cases r <;> simp only [Pat.endsR, hn, if_true] <;> exact hfree

/-- a syntactically empty pattern admits exactly "consume nothing", under every rule -/
theorem endsR_isEmpty (ci : Bool) (r : DotRule) (p : Pat) (h : p.isEmpty = true) (a b : St) :
    b ∈ Pat.endsR ci r p a ↔ b = a := by
  induction p generalizing a b with
  | eps => simp [Pat.endsR]
  | seq p q ihp ihq =>
    simp only [Pat.isEmpty, Bool.and_eq_true] at h
    simp only [Pat.endsR, mem_dedup, List.mem_flatMap, ihp h.1, ihq h.2]
    constructor
    · rintro ⟨c, rfl, rfl⟩; rfl
    · rintro rfl; exact ⟨_, rfl, rfl⟩
  | _ => simp [Pat.isEmpty] at h

end WcModel.HL

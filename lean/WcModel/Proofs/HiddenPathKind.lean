import WcModel.Proofs.HiddenPathDir
/-
  The KIND of the first segment start that is not guarded (stages 2 and 3, sharpened).

  `segScan` / `dirScan` say whether every segment of the emitted item list starts well.  Here the
  scan is replayed as a one-item-at-a-time automaton `kscan` that also reports *why* it stops:

    * `.dot`       — the segment begins with a written dot;
    * `.group`     — with an extended group (`?( *( +( @(`, or an `!(` whose star is unguarded) — D5;
    * `.afterStar` — (no DOTGLOB) with a `*`-run / guarded `!(…)` followed by something that is not a
                     guarded one-character item — D4;
    * `.invStar`   — (DOTGLOB) with an `!(…)` whose closing star lost `_NO_DIR` — D15;
    * `.other`     — anything else.

  Part 1  the automaton, its algebra (`kscan_append`, `kscan_rel`).
  Part 2  if the automaton runs through, `segScan` / `dirScan` succeed.
  Part 3  the parser never produces `.other`: at a segment start (`after_start = True`) `WcParse`
          emits a written dot, a guarded item, a star, a group, or a separator — nothing else
          (`KInv`, `parseItems_kinds` in `Properties/C03path.lean`).
-/
namespace WcModel
namespace HP
open HF (DotRefusing NoBar isBar Rel)

/-! ## Part 1: the automaton -/

inductive Leak | dot | group | afterStar | invStar | other
  deriving DecidableEq, Repr

/-- state of the scan: at a segment start?  has a star been seen at this segment start?  was the
    previous item the opening of an `!(…)` at a segment start? -/
structure KS where
  start : Bool
  saw : Bool
  pend : Bool
  deriving DecidableEq, Repr

def kindFor (dot : Bool) (r : Re) : RK := if dot then reKind3 r else reKind r

/-- a written dot: `\.`, or the guarded dot of NODOTDIR -/
def isDotRe (r : Re) : Bool := r == .lit '.' || r == Frag.guardedDot false

def leakOf (saw : Bool) (k : Leak) : Leak := if saw then .afterStar else k

/-- the closing star of an `!(…)` at a segment start -/
def invStep (dot : Bool) (st : KS) (star : Re) : Except Leak KS :=
  if dot then (if star == starRe3 then .ok ⟨false, false, false⟩ else .error .invStar)
  else (if star == starRe then .ok ⟨true, true, false⟩ else .error (leakOf st.saw .group))

def kstep (dot : Bool) (grp : GKind → List Item → Bool) (st : KS) (x : Item) : Except Leak KS :=
  if st.pend then
    match x with
    | .closed _ _ star => invStep dot st star
    | .ph star => invStep dot st star
    | _ => .error .other
  else if !st.start then
    match x with
    | .re r => if kindFor dot r = .sep then .ok ⟨true, false, false⟩ else .ok st
    | _ => .ok st
  else
    match x with
    | .re r =>
      match kindFor dot r with
      | .sep => .ok ⟨true, false, false⟩
      | .keep => .ok ⟨true, st.saw || (!dot && r == starRe), false⟩
      | .guard => .ok ⟨false, false, false⟩
      | .other => .error (leakOf st.saw (if isDotRe r then .dot else .other))
    | .empty => .ok st
    | .invOpen _ _ => .ok { st with pend := true }
    | .group k _ body => if grp k body then .ok ⟨false, false, false⟩ else .error (leakOf st.saw .group)
    | _ => .error (leakOf st.saw .other)

def kscan (dot : Bool) (grp : GKind → List Item → Bool) : KS → List Item → Except Leak KS
  | st, [] => .ok st
  | st, x :: l =>
    match kstep dot grp st x with
    | .error k => .error k
    | .ok st' => kscan dot grp st' l

theorem kscan_append (dot : Bool) (grp : GKind → List Item → Bool) : ∀ (l m : List Item) (st : KS),
    kscan dot grp st (l ++ m) =
      match kscan dot grp st l with
      | .error k => .error k
      | .ok st' => kscan dot grp st' m
  | [], m, st => rfl
  | x :: l, m, st => by
    simp only [List.cons_append, kscan]
    cases kstep dot grp st x with
    | error k => rfl
    | ok st' => exact kscan_append dot grp l m st'

theorem kstep_rel1 (dot : Bool) (grp : GKind → List Item → Bool) (st : KS) (star : Re) (t : List Item) (e : Option Re) :
    kstep dot grp st (.ph star) = kstep dot grp st (.closed t e star) := by
  unfold kstep
  split
  · rfl
  · split <;> rfl

theorem kscan_rel (dot : Bool) (grp : GKind → List Item → Bool) {l l' : List Item} (h : Rel l l') : ∀ st, kscan dot grp st l = kscan dot grp st l' := by
  induction h with
  | nil => intro st; rfl
  | same x _ ih =>
    intro st
    simp only [kscan]
    cases kstep dot grp st x with
    | error k => rfl
    | ok st' => exact ih st'
  | ph star t e _ ih =>
    intro st
    simp only [kscan, kstep_rel1 dot grp st star t e]
    cases kstep dot grp st (.closed t e star) with
    | error k => rfl
    | ok st' => exact ih st'

/-- in the middle of a segment only a separator changes the state -/
theorem kstep_mid (dot : Bool) (grp : GKind → List Item → Bool) (saw : Bool) (x : Item) :
    kstep dot grp ⟨false, saw, false⟩ x = .ok ⟨false, saw, false⟩ ∨
    kstep dot grp ⟨false, saw, false⟩ x = .ok ⟨true, false, false⟩ := by
  unfold kstep
  simp only [Bool.false_eq_true, if_false, Bool.not_false, if_true]
  cases x with
  | re r =>
    simp only []
    split
    · exact Or.inr rfl
    · exact Or.inl rfl
  | _ => exact Or.inl rfl


/-! ## Part 2: if the automaton runs through, the scans succeed -/

theorem kscan_segScan_aux (grp : GKind → List Item → Bool) : ∀ (n : Nat) (l : List Item), l.length ≤ n → ∀ (start saw : Bool) (st' : KS),
    kscan false grp ⟨start, saw, false⟩ l = .ok st' → st'.pend = false → segScanG grp start l = true := by
  intro n
  induction n with
  | zero =>
    intro l hl start saw st' _ _
    have : l = [] := List.eq_nil_of_length_eq_zero (by omega)
    subst this; simp [segScanG]
  | succ n ih =>
    intro l hl start saw st' hk hp
    cases l with
    | nil => simp [segScanG]
    | cons x l =>
      have hl' : l.length ≤ n := by simp at hl; omega
      simp only [kscan] at hk
      cases x with
      | re r =>
        rw [segScanG_re grp]
        cases start with
        | false =>
          have hstep : kstep false grp ⟨false, saw, false⟩ (.re r) =
              if kindFor false r = .sep then .ok ⟨true, false, false⟩ else .ok ⟨false, saw, false⟩ := by
            simp [kstep]
          rw [hstep] at hk
          have hkf : kindFor false r = reKind r := by simp [kindFor]
          rw [hkf] at hk
          cases hr : reKind r <;> rw [hr] at hk <;> simp only [reduceCtorEq, if_true, if_false] at hk ⊢
          · exact ih l hl' _ _ st' hk hp
          · exact ih l hl' _ _ st' hk hp
          · exact ih l hl' _ _ st' hk hp
          · exact ih l hl' _ _ st' hk hp
        | true =>
          have hkf : kindFor false r = reKind r := by simp [kindFor]
          have hstep : kstep false grp ⟨true, saw, false⟩ (.re r) =
              match reKind r with
              | .sep => .ok ⟨true, false, false⟩
              | .keep => .ok ⟨true, saw || (!false && r == starRe), false⟩
              | .guard => .ok ⟨false, false, false⟩
              | .other => .error (leakOf saw (if isDotRe r then .dot else .other)) := by
            simp only [kstep, Bool.false_eq_true, if_false, Bool.not_true, hkf]
            try (cases reKind r <;> rfl)
          rw [hstep] at hk
          cases hr : reKind r <;> rw [hr] at hk <;> simp only [] at hk ⊢
          · exact ih l hl' _ _ st' hk hp
          · exact ih l hl' _ _ st' hk hp
          · exact ih l hl' _ _ st' hk hp
          · cases hk
      | empty =>
        have hstep : kstep false grp ⟨start, saw, false⟩ .empty = .ok ⟨start, saw, false⟩ := by
          cases start <;> simp [kstep]
        rw [hstep] at hk
        simp only [segScanG]
        exact ih l hl' _ _ st' hk hp
      | invOpen c b =>
        cases start with
        | false =>
          have hstep : kstep false grp ⟨false, saw, false⟩ (.invOpen c b) = .ok ⟨false, saw, false⟩ := by
            simp [kstep]
          rw [hstep] at hk
          simp only [] at hk
          cases l with
          | nil => simp [segScanG]
          | cons y l2 =>
            have hl2 : l2.length ≤ n := by simp at hl'; omega
            cases y with
            | closed t e star =>
              simp only [kscan] at hk
              have hs2 : kstep false grp ⟨false, saw, false⟩ (.closed t e star) = .ok ⟨false, saw, false⟩ := by
                simp [kstep]
              rw [hs2] at hk
              simp only [segScanG, Bool.false_eq_true, if_false]
              exact ih l2 hl2 _ _ st' hk hp
            | ph star =>
              simp only [kscan] at hk
              have hs2 : kstep false grp ⟨false, saw, false⟩ (.ph star) = .ok ⟨false, saw, false⟩ := by
                simp [kstep]
              rw [hs2] at hk
              simp only [segScanG, Bool.false_eq_true, if_false]
              exact ih l2 hl2 _ _ st' hk hp
            | re r => simp only [segScanG, Bool.false_eq_true, if_false]; exact ih _ hl' _ _ st' hk hp
            | empty => simp only [segScanG, Bool.false_eq_true, if_false]; exact ih _ hl' _ _ st' hk hp
            | bar => simp only [segScanG, Bool.false_eq_true, if_false]; exact ih _ hl' _ _ st' hk hp
            | group _ _ _ => simp only [segScanG, Bool.false_eq_true, if_false]; exact ih _ hl' _ _ st' hk hp
            | invOpen _ _ => simp only [segScanG, Bool.false_eq_true, if_false]; exact ih _ hl' _ _ st' hk hp
        | true =>
          have hstep : kstep false grp ⟨true, saw, false⟩ (.invOpen c b) = .ok ⟨true, saw, true⟩ := by
            simp [kstep]
          rw [hstep] at hk
          simp only [] at hk
          cases l with
          | nil => simp only [kscan] at hk; injection hk with hk; rw [← hk] at hp; cases hp
          | cons y l2 =>
            have hl2 : l2.length ≤ n := by simp at hl'; omega
            simp only [kscan] at hk
            cases y with
            | closed t e star =>
              have hs2 : kstep false grp ⟨true, saw, true⟩ (.closed t e star) = invStep false ⟨true, saw, true⟩ star := by
                simp [kstep]
              rw [hs2] at hk
              simp only [invStep, Bool.false_eq_true, if_false] at hk
              simp only [segScanG, if_true, Bool.and_eq_true, beq_iff_eq]
              by_cases hst : star = starRe
              · simp only [hst, beq_self_eq_true, if_true] at hk
                exact ⟨hst, ih l2 hl2 _ _ st' hk hp⟩
              · have : (star == starRe) = false := by simpa using hst
                simp [this] at hk
            | ph star =>
              have hs2 : kstep false grp ⟨true, saw, true⟩ (.ph star) = invStep false ⟨true, saw, true⟩ star := by
                simp [kstep]
              rw [hs2] at hk
              simp only [invStep, Bool.false_eq_true, if_false] at hk
              simp only [segScanG, if_true, Bool.and_eq_true, beq_iff_eq]
              by_cases hst : star = starRe
              · simp only [hst, beq_self_eq_true, if_true] at hk
                exact ⟨hst, ih l2 hl2 _ _ st' hk hp⟩
              · have : (star == starRe) = false := by simpa using hst
                simp [this] at hk
            | re r => simp [kstep] at hk
            | empty => simp [kstep] at hk
            | bar => simp [kstep] at hk
            | group _ _ _ => simp [kstep] at hk
            | invOpen _ _ => simp [kstep] at hk
      | group k c body =>
        cases start with
        | false =>
          have hstep : kstep false grp ⟨false, saw, false⟩ (.group k c body) = .ok ⟨false, saw, false⟩ := by
            simp [kstep]
          rw [hstep] at hk
          simp only [segScanG, Bool.false_eq_true, if_false]
          exact ih l hl' _ _ st' hk hp
        | true =>
          cases hg : grp k body with
          | false => simp [kstep, hg] at hk
          | true =>
            have hstep : kstep false grp ⟨true, saw, false⟩ (.group k c body) = .ok ⟨false, false, false⟩ := by
              simp [kstep, hg]
            rw [hstep] at hk
            simp only [segScanG, if_true, hg, Bool.true_and]
            exact ih l hl' _ _ st' hk hp
      | bar =>
        cases start with
        | false =>
          have hstep : kstep false grp ⟨false, saw, false⟩ .bar = .ok ⟨false, saw, false⟩ := by simp [kstep]
          rw [hstep] at hk
          simp only [segScanG, Bool.false_eq_true, if_false]
          exact ih l hl' _ _ st' hk hp
        | true => simp [kstep] at hk
      | ph star =>
        cases start with
        | false =>
          have hstep : kstep false grp ⟨false, saw, false⟩ (.ph star) = .ok ⟨false, saw, false⟩ := by simp [kstep]
          rw [hstep] at hk
          simp only [segScanG, Bool.false_eq_true, if_false]
          exact ih l hl' _ _ st' hk hp
        | true => simp [kstep] at hk
      | closed t e star =>
        cases start with
        | false =>
          have hstep : kstep false grp ⟨false, saw, false⟩ (.closed t e star) = .ok ⟨false, saw, false⟩ := by
            simp [kstep]
          rw [hstep] at hk
          simp only [segScanG, Bool.false_eq_true, if_false]
          exact ih l hl' _ _ st' hk hp
        | true => simp [kstep] at hk

theorem kscan_dirScan_aux (grp : GKind → List Item → Bool) : ∀ (n : Nat) (l : List Item), l.length ≤ n → ∀ (start saw : Bool) (st' : KS),
    kscan true grp ⟨start, saw, false⟩ l = .ok st' → st'.pend = false → dirScanG grp start l = true := by
  intro n
  induction n with
  | zero =>
    intro l hl start saw st' _ _
    have : l = [] := List.eq_nil_of_length_eq_zero (by omega)
    subst this; simp [dirScanG]
  | succ n ih =>
    intro l hl start saw st' hk hp
    cases l with
    | nil => simp [dirScanG]
    | cons x l =>
      have hl' : l.length ≤ n := by simp at hl; omega
      simp only [kscan] at hk
      cases x with
      | re r =>
        rw [dirScanG_re grp]
        cases start with
        | false =>
          have hstep : kstep true grp ⟨false, saw, false⟩ (.re r) =
              if kindFor true r = .sep then .ok ⟨true, false, false⟩ else .ok ⟨false, saw, false⟩ := by
            simp [kstep]
          rw [hstep] at hk
          have hkf : kindFor true r = reKind3 r := by simp [kindFor]
          rw [hkf] at hk
          cases hr : reKind3 r <;> rw [hr] at hk <;> simp only [reduceCtorEq, if_true, if_false] at hk ⊢
          · exact ih l hl' _ _ st' hk hp
          · exact ih l hl' _ _ st' hk hp
          · exact ih l hl' _ _ st' hk hp
          · exact ih l hl' _ _ st' hk hp
        | true =>
          have hkf : kindFor true r = reKind3 r := by simp [kindFor]
          have hstep : kstep true grp ⟨true, saw, false⟩ (.re r) =
              match reKind3 r with
              | .sep => .ok ⟨true, false, false⟩
              | .keep => .ok ⟨true, saw || (!true && r == starRe), false⟩
              | .guard => .ok ⟨false, false, false⟩
              | .other => .error (leakOf saw (if isDotRe r then .dot else .other)) := by
            simp only [kstep, Bool.false_eq_true, if_false, Bool.not_true, hkf]
            try (cases reKind3 r <;> rfl)
          rw [hstep] at hk
          cases hr : reKind3 r <;> rw [hr] at hk <;> simp only [] at hk ⊢
          · exact ih l hl' _ _ st' hk hp
          · exact ih l hl' _ _ st' hk hp
          · exact ih l hl' _ _ st' hk hp
          · cases hk
      | empty =>
        have hstep : kstep true grp ⟨start, saw, false⟩ .empty = .ok ⟨start, saw, false⟩ := by
          cases start <;> simp [kstep]
        rw [hstep] at hk
        simp only [dirScanG]
        exact ih l hl' _ _ st' hk hp
      | invOpen c b =>
        cases start with
        | false =>
          have hstep : kstep true grp ⟨false, saw, false⟩ (.invOpen c b) = .ok ⟨false, saw, false⟩ := by
            simp [kstep]
          rw [hstep] at hk
          simp only [] at hk
          cases l with
          | nil => simp [dirScanG]
          | cons y l2 =>
            have hl2 : l2.length ≤ n := by simp at hl'; omega
            cases y with
            | closed t e star =>
              simp only [kscan] at hk
              have hs2 : kstep true grp ⟨false, saw, false⟩ (.closed t e star) = .ok ⟨false, saw, false⟩ := by
                simp [kstep]
              rw [hs2] at hk
              simp only [dirScanG, Bool.false_eq_true, if_false]
              exact ih l2 hl2 _ _ st' hk hp
            | ph star =>
              simp only [kscan] at hk
              have hs2 : kstep true grp ⟨false, saw, false⟩ (.ph star) = .ok ⟨false, saw, false⟩ := by
                simp [kstep]
              rw [hs2] at hk
              simp only [dirScanG, Bool.false_eq_true, if_false]
              exact ih l2 hl2 _ _ st' hk hp
            | re r => simp only [dirScanG, Bool.false_eq_true, if_false]; exact ih _ hl' _ _ st' hk hp
            | empty => simp only [dirScanG, Bool.false_eq_true, if_false]; exact ih _ hl' _ _ st' hk hp
            | bar => simp only [dirScanG, Bool.false_eq_true, if_false]; exact ih _ hl' _ _ st' hk hp
            | group _ _ _ => simp only [dirScanG, Bool.false_eq_true, if_false]; exact ih _ hl' _ _ st' hk hp
            | invOpen _ _ => simp only [dirScanG, Bool.false_eq_true, if_false]; exact ih _ hl' _ _ st' hk hp
        | true =>
          have hstep : kstep true grp ⟨true, saw, false⟩ (.invOpen c b) = .ok ⟨true, saw, true⟩ := by
            simp [kstep]
          rw [hstep] at hk
          simp only [] at hk
          cases l with
          | nil => simp only [kscan] at hk; injection hk with hk; rw [← hk] at hp; cases hp
          | cons y l2 =>
            have hl2 : l2.length ≤ n := by simp at hl'; omega
            simp only [kscan] at hk
            cases y with
            | closed t e star =>
              have hs2 : kstep true grp ⟨true, saw, true⟩ (.closed t e star) = invStep true ⟨true, saw, true⟩ star := by
                simp [kstep]
              rw [hs2] at hk
              simp only [invStep, if_true] at hk
              simp only [dirScanG, if_true, Bool.and_eq_true, beq_iff_eq]
              by_cases hst : star = starRe3
              · simp only [hst, beq_self_eq_true, if_true] at hk
                exact ⟨hst, ih l2 hl2 _ _ st' hk hp⟩
              · have : (star == starRe3) = false := by simpa using hst
                simp [this] at hk
            | ph star =>
              have hs2 : kstep true grp ⟨true, saw, true⟩ (.ph star) = invStep true ⟨true, saw, true⟩ star := by
                simp [kstep]
              rw [hs2] at hk
              simp only [invStep, if_true] at hk
              simp only [dirScanG, if_true, Bool.and_eq_true, beq_iff_eq]
              by_cases hst : star = starRe3
              · simp only [hst, beq_self_eq_true, if_true] at hk
                exact ⟨hst, ih l2 hl2 _ _ st' hk hp⟩
              · have : (star == starRe3) = false := by simpa using hst
                simp [this] at hk
            | re r => simp [kstep] at hk
            | empty => simp [kstep] at hk
            | bar => simp [kstep] at hk
            | group _ _ _ => simp [kstep] at hk
            | invOpen _ _ => simp [kstep] at hk
      | group k c body =>
        cases start with
        | false =>
          have hstep : kstep true grp ⟨false, saw, false⟩ (.group k c body) = .ok ⟨false, saw, false⟩ := by
            simp [kstep]
          rw [hstep] at hk
          simp only [dirScanG, Bool.false_eq_true, if_false]
          exact ih l hl' _ _ st' hk hp
        | true =>
          cases hg : grp k body with
          | false => simp [kstep, hg] at hk
          | true =>
            have hstep : kstep true grp ⟨true, saw, false⟩ (.group k c body) = .ok ⟨false, false, false⟩ := by
              simp [kstep, hg]
            rw [hstep] at hk
            simp only [dirScanG, if_true, hg, Bool.true_and]
            exact ih l hl' _ _ st' hk hp
      | bar =>
        cases start with
        | false =>
          have hstep : kstep true grp ⟨false, saw, false⟩ .bar = .ok ⟨false, saw, false⟩ := by simp [kstep]
          rw [hstep] at hk
          simp only [dirScanG, Bool.false_eq_true, if_false]
          exact ih l hl' _ _ st' hk hp
        | true => simp [kstep] at hk
      | ph star =>
        cases start with
        | false =>
          have hstep : kstep true grp ⟨false, saw, false⟩ (.ph star) = .ok ⟨false, saw, false⟩ := by simp [kstep]
          rw [hstep] at hk
          simp only [dirScanG, Bool.false_eq_true, if_false]
          exact ih l hl' _ _ st' hk hp
        | true => simp [kstep] at hk
      | closed t e star =>
        cases start with
        | false =>
          have hstep : kstep true grp ⟨false, saw, false⟩ (.closed t e star) = .ok ⟨false, saw, false⟩ := by
            simp [kstep]
          rw [hstep] at hk
          simp only [dirScanG, Bool.false_eq_true, if_false]
          exact ih l hl' _ _ st' hk hp
        | true => simp [kstep] at hk


theorem kscan_segScan {grp : GKind → List Item → Bool} {l : List Item} {start saw : Bool} {st' : KS}
    (h : kscan false grp ⟨start, saw, false⟩ l = .ok st') (hp : st'.pend = false) : segScanG grp start l = true :=
  kscan_segScan_aux grp l.length l (Nat.le_refl _) start saw st' h hp

theorem kscan_dirScan {grp : GKind → List Item → Bool} {l : List Item} {start saw : Bool} {st' : KS}
    (h : kscan true grp ⟨start, saw, false⟩ l = .ok st') (hp : st'.pend = false) : dirScanG grp start l = true :=
  kscan_dirScan_aux grp l.length l (Nat.le_refl _) start saw st' h hp


/-! ## Part 3: the parser never produces `.other` -/

variable {grp : GKind → List Item → Bool}

/-- the scan so far did not stop at `.other`; if it runs through, no `!(` is pending and, at a
    segment start where no star has been seen, `cpl` holds (the coupling with the parser state) -/
def KGood (cpl : Prop) (r : Except Leak KS) : Prop :=
  match r with
  | .error k => k ≠ .other
  | .ok st => st.pend = false ∧ (st.start = true → st.saw = false → cpl)

def KInv (dot : Bool) (grp : GKind → List Item → Bool) (cpl : Prop) (cur : List Item) : Prop :=
  KGood cpl (kscan dot grp ⟨true, false, false⟩ cur.reverse)

theorem KGood.mono {cpl cpl' : Prop} (h : cpl → cpl') {r : Except Leak KS} (hr : KGood cpl r) : KGood cpl' r := by
  cases r with
  | error k => exact hr
  | ok st => exact ⟨hr.1, fun h1 h2 => h (hr.2 h1 h2)⟩

theorem KInv.mono {dot : Bool} {cpl cpl' : Prop} {cur : List Item} (h : cpl → cpl') (hi : KInv dot grp cpl cur) :
    KInv dot grp cpl' cur := KGood.mono h hi

/-- pushing items: the scan of the longer list continues the scan of the shorter one -/
theorem kinv_push {dot : Bool} {cpl cpl' : Prop} {cur : List Item} (new : List Item) (hi : KInv dot grp cpl cur)
    (hstep : ∀ st : KS, st.pend = false → (st.start = true → st.saw = false → cpl) →
      KGood cpl' (kscan dot grp st new.reverse)) :
    KInv dot grp cpl' (new ++ cur) := by
  unfold KInv at hi ⊢
  rw [List.reverse_append, kscan_append]
  cases hs : kscan dot grp ⟨true, false, false⟩ cur.reverse with
  | error k => rw [hs] at hi; exact hi
  | ok st => rw [hs] at hi; exact hstep st hi.1 hi.2

theorem kinv_pushRe {dot : Bool} {cpl cpl' : Prop} {cur : List Item} (x : Re) (hi : KInv dot grp cpl cur)
    (hx : kindFor dot x = .guard ∨ (kindFor dot x = .other ∧ (isDotRe x = true ∨ ¬ cpl)) ∨
      (dot = false ∧ x = starRe) ∨ (kindFor dot x = .sep ∧ cpl')) :
    KInv dot grp cpl' (.re x :: cur) := by
  apply kinv_push [.re x] hi
  intro st hp hc
  obtain ⟨s, w, p⟩ := st
  simp only at hp hc
  subst hp
  simp only [List.reverse_cons, List.reverse_nil, List.nil_append, kscan]
  have hkeep : kindFor false starRe = .keep := by decide
  cases s with
  | false =>
    have hstep : kstep dot grp ⟨false, w, false⟩ (.re x) =
        if kindFor dot x = .sep then .ok ⟨true, false, false⟩ else .ok ⟨false, w, false⟩ := by
      simp [kstep]
    rw [hstep]
    rcases hx with hx | ⟨hx, _⟩ | ⟨rfl, rfl⟩ | ⟨hx, hc'⟩
    · simp only [hx, reduceCtorEq, if_false]; exact ⟨rfl, fun h => by cases h⟩
    · simp only [hx, reduceCtorEq, if_false]; exact ⟨rfl, fun h => by cases h⟩
    · simp only [hkeep, reduceCtorEq, if_false]; exact ⟨rfl, fun h => by cases h⟩
    · simp only [hx, if_true]; exact ⟨rfl, fun _ _ => hc'⟩
  | true =>
    have hstep : kstep dot grp ⟨true, w, false⟩ (.re x) =
        match kindFor dot x with
        | .sep => .ok ⟨true, false, false⟩
        | .keep => .ok ⟨true, w || (!dot && x == starRe), false⟩
        | .guard => .ok ⟨false, false, false⟩
        | .other => .error (leakOf w (if isDotRe x then .dot else .other)) := by
      simp only [kstep, Bool.false_eq_true, if_false, Bool.not_true]
      try (cases kindFor dot x <;> rfl)
    rw [hstep]
    rcases hx with hx | ⟨hx, hd⟩ | ⟨rfl, rfl⟩ | ⟨hx, hc'⟩
    · simp only [hx]; exact ⟨rfl, fun h => by cases h⟩
    · simp only [hx]
      show leakOf w _ ≠ Leak.other
      cases w with
      | true => simp [leakOf]
      | false =>
        rcases hd with hd | hd
        · simp [leakOf, hd]
        · exact absurd (hc rfl rfl) hd
    · simp only [hkeep]
      exact ⟨rfl, fun _ h => by simp at h⟩
    · simp only [hx]; exact ⟨rfl, fun _ _ => hc'⟩

theorem kinv_pushGroup {dot : Bool} {cpl cpl' : Prop} {cur : List Item} (k : GKind) (c : Capt) (body : List Item)
    (hi : KInv dot grp cpl cur) : KInv dot grp cpl' (.group k c body :: cur) := by
  apply kinv_push [.group k c body] hi
  intro st hp _
  obtain ⟨s, w, p⟩ := st
  simp only at hp
  subst hp
  simp only [List.reverse_cons, List.reverse_nil, List.nil_append, kscan]
  cases s with
  | false => simp only [kstep, Bool.false_eq_true, if_false, Bool.not_false, if_true]; exact ⟨rfl, fun h => by cases h⟩
  | true =>
    simp only [kstep, Bool.false_eq_true, if_false, Bool.not_true]
    cases grp k body with
    | true => simp only [if_true]; exact ⟨rfl, fun h => by cases h⟩
    | false =>
      simp only [Bool.false_eq_true, if_false]
      show leakOf w Leak.group ≠ Leak.other
      cases w <;> simp [leakOf]

theorem kinv_pushInv {dot : Bool} {cpl cpl' : Prop} {cur : List Item} (star : Re) (cap : Bool) (body : List Item)
    (hi : KInv dot grp cpl cur) : KInv dot grp cpl' (.ph star :: .invOpen cap body :: cur) := by
  apply kinv_push [.ph star, .invOpen cap body] hi
  intro st hp _
  obtain ⟨s, w, p⟩ := st
  simp only at hp
  subst hp
  simp only [List.reverse_cons, List.reverse_nil, List.nil_append, List.cons_append, kscan]
  cases s with
  | false =>
    simp only [kstep, Bool.false_eq_true, if_false, Bool.not_false, if_true]
    exact ⟨rfl, fun h => by cases h⟩
  | true =>
    have h1 : kstep dot grp ⟨true, w, false⟩ (.invOpen cap body) = .ok ⟨true, w, true⟩ := by simp [kstep]
    have h2 : kstep dot grp ⟨true, w, true⟩ (.ph star) = invStep dot ⟨true, w, true⟩ star := by simp [kstep]
    rw [h1]
    simp only []
    rw [h2]
    unfold invStep
    cases dot with
    | true =>
      simp only [if_true]
      cases hst : (star == starRe3) with
      | true => simp only [if_true]; exact ⟨rfl, fun h => by cases h⟩
      | false => simp only [Bool.false_eq_true, if_false]; show Leak.invStar ≠ Leak.other; decide
    | false =>
      simp only [Bool.false_eq_true, if_false]
      cases hst : (star == starRe) with
      | true => simp only [if_true]; exact ⟨rfl, fun _ h => by cases h⟩
      | false =>
        simp only [Bool.false_eq_true, if_false]
        show leakOf w Leak.group ≠ Leak.other
        cases w <;> simp [leakOf]

theorem kinv_rel {dot : Bool} {cpl : Prop} {cur cur' : List Item} (hr : Rel cur.reverse cur'.reverse)
    (hi : KInv dot grp cpl cur) : KInv dot grp cpl cur' := by
  unfold KInv at hi ⊢
  rw [← kscan_rel dot grp hr]; exact hi


/-! ### the kinds of the fragments the pass pushes -/

theorem kind_sepPlus (dot : Bool) : kindFor dot (Frag.sepPlus false) = .sep := by cases dot <;> decide
theorem kind_div (dot : Bool) : kindFor dot (Frag.globstarDiv false) = .sep := by cases dot <;> decide
theorem kind_needSep (dot : Bool) : kindFor dot (Frag.needSep false) = .sep := by cases dot <;> decide

theorem kind_gs (dot : Bool) (g : Re) (hg : gsFor dot g = true) : kindFor dot g = .keep ∧ (g == starRe) = false := by
  cases dot with
  | false =>
    simp only [gsFor, Bool.false_eq_true, if_false, isGstarRe, Bool.or_eq_true, beq_iff_eq] at hg
    rcases hg with rfl | rfl <;> exact ⟨by decide, by decide⟩
  | true =>
    simp only [gsFor, if_true, Bool.or_eq_true, beq_iff_eq] at hg
    rcases hg with rfl | rfl <;> exact ⟨by decide, by decide⟩

theorem kind_lit (dot : Bool) {c : Char} (hc : c ≠ '.') : kindFor dot (.lit c) = .guard := by
  cases dot <;>
    simp [kindFor, reKind, reKind3, isSepRe, isGstarRe, gsFor, isGuardRe, isGuardRe3, starRe, starRe3,
      Frag.sepPlus, Frag.globstarDiv, Frag.needSep, Frag.pathTrail, Frag.pathGstarDot2, Frag.pathGstarDot1,
      Frag.noRoot, Frag.guardedDot, hc]

theorem kind_litDot (dot : Bool) : kindFor dot (.lit '.') = .other ∧ isDotRe (.lit '.') = true := by
  cases dot <;> exact ⟨by decide, by decide⟩

theorem kind_guardedDot_false : kindFor false (Frag.guardedDot false) = .other ∧ isDotRe (Frag.guardedDot false) = true :=
  ⟨by decide, by decide⟩
theorem kind_guardedDot_true : kindFor true (Frag.guardedDot false) = .guard := by decide

theorem kind_starRe : kindFor false starRe = .keep := by decide
theorem kind_starRe3 : kindFor true starRe3 = .guard := by decide
theorem kind_pathStar (dot : Bool) : kindFor dot (Frag.pathStar false) = .other := by cases dot <;> decide

theorem kind_guard2_any : kindFor false (.cat guard2 .any) = .guard := by decide
theorem kind_guard3_any : kindFor true (.cat guard3 .any) = .guard := by decide
theorem kind_seqPath_any (dot : Bool) : kindFor dot (.cat (Frag.seqPath false) .any) = .other := by
  cases dot <;> decide

theorem kind_guard2_cls (neg : Bool) (items : List ClsItem) : kindFor false (.cat guard2 (.cls neg items)) = .guard := by
  simp [kindFor, reKind, isSepRe, isGstarRe, isGuardRe, starRe, guard2,
    Frag.sepPlus, Frag.globstarDiv, Frag.needSep, Frag.pathTrail, Frag.pathGstarDot2,
    Frag.noRoot, Frag.needCharPath, Frag.noDir, Frag.pathStarDot2]

theorem kind_guard3_cls (neg : Bool) (items : List ClsItem) : kindFor true (.cat guard3 (.cls neg items)) = .guard := by
  simp [kindFor, reKind3, isSepRe, gsFor, isGuardRe3, starRe3, guard3,
    Frag.sepPlus, Frag.globstarDiv, Frag.needSep, Frag.pathTrail, Frag.pathGstarDot1,
    Frag.noRoot, Frag.needCharPath, Frag.noDir, Frag.pathStarDot1, Frag.guardedDot]

theorem kind_seqPath_cls (dot neg : Bool) (items : List ClsItem) :
    kindFor dot (.cat (Frag.seqPath false) (.cls neg items)) = .other := by
  cases dot <;>
    simp [kindFor, reKind, reKind3, isSepRe, isGstarRe, gsFor, isGuardRe, isGuardRe3, starRe, starRe3, guard2, guard3,
      Frag.sepPlus, Frag.globstarDiv, Frag.needSep, Frag.pathTrail, Frag.pathGstarDot2, Frag.pathGstarDot1,
      Frag.noRoot, Frag.needCharPath, Frag.noDir, Frag.pathStarDot2, Frag.pathStarDot1, Frag.guardedDot,
      Frag.seqPath]


/-! ### the loop -/

theorem kinv_replace {dot : Bool} {cpl cpl' : Prop} {last : Item} {before : List Item} (new : List Item)
    (hl : last = .empty ∨ ∃ r, last = .re r) (hi : KInv dot grp cpl (last :: before))
    (hnew : ∀ st : KS, st.pend = false → KGood cpl' (kscan dot grp st new.reverse)) :
    KInv dot grp cpl' (new ++ before) := by
  unfold KInv at hi ⊢
  rw [List.reverse_cons, kscan_append] at hi
  rw [List.reverse_append, kscan_append]
  cases hs : kscan dot grp ⟨true, false, false⟩ before.reverse with
  | error k => rw [hs] at hi; exact hi
  | ok st =>
    rw [hs] at hi
    simp only [kscan] at hi
    cases hp : st.pend with
    | false => exact hnew st hp
    | true =>
      exfalso
      have : kstep dot grp st last = .error .other := by
        rcases hl with rfl | ⟨r, rfl⟩ <;> simp [kstep, hp]
      rw [this] at hi
      exact hi rfl

theorem gseq2 (dot : Bool) (g : Re) (hg : gsFor dot g = true) {cpl' : Prop} (hc : cpl') :
    ∀ st : KS, st.pend = false → KGood cpl' (kscan dot grp st [.re g, .re (Frag.globstarDiv false)]) := by
  intro st hp
  obtain ⟨s, w, p⟩ := st
  simp only at hp; subst hp
  obtain ⟨k1, k2⟩ := kind_gs dot g hg
  have kd := kind_div dot
  cases s <;> simp [kscan, kstep, k1, k2, kd, KGood, hc]

theorem gseq3 (dot : Bool) (g : Re) (hg : gsFor dot g = true) {cpl' : Prop} (hc : cpl') :
    ∀ st : KS, st.pend = false →
      KGood cpl' (kscan dot grp st [.re (Frag.needSep false), .re g, .re (Frag.globstarDiv false)]) := by
  intro st hp
  obtain ⟨s, w, p⟩ := st
  simp only at hp; subst hp
  obtain ⟨k1, k2⟩ := kind_gs dot g hg
  have kd := kind_div dot
  have kn := kind_needSep dot
  cases s <;> simp [kscan, kstep, k1, k2, kd, kn, KGood, hc]

/-- the kind of the item a `*` that is not a globstar pushes -/
theorem star_value_kind (cfg : Cfg) (h : PathUnix cfg) (ps ps' : PS) (hps : ps'.afterStart = ps.afterStart)
    (it' : It) :
    kindFor cfg.dot (if ps'.afterStart = true then
        (Re.cat cfg.needChar (hsStar cfg ps).1, dropStars cfg.extend it') else ((hsStar cfg ps).1, it')).1 = .guard ∨
    (kindFor cfg.dot (if ps'.afterStart = true then
        (Re.cat cfg.needChar (hsStar cfg ps).1, dropStars cfg.extend it') else ((hsStar cfg ps).1, it')).1 = .other ∧
      ¬ (ps.afterStart = true)) ∨
    (cfg.dot = false ∧ (if ps'.afterStart = true then
        (Re.cat cfg.needChar (hsStar cfg ps).1, dropStars cfg.extend it') else ((hsStar cfg ps).1, it')).1 = starRe) := by
  rw [hps]
  unfold hsStar
  simp only [h.pathname, h.win, if_true, h.needChar]
  cases ha : ps.afterStart <;> cases hd : cfg.dot <;> simp <;>
    first | decide | (left; decide) | (right; decide) | (right; left; decide) | (right; right; decide)

/-- the kind of a guarded one-character item (`?`, `[…]`) -/
theorem guarded_kind (cfg : Cfg) (h : PathUnix cfg) (ps : PS) (y : Re)
    (hy : y = .any ∨ ∃ neg items, y = .cls neg items) :
    kindFor cfg.dot (catE (restrictSequence cfg ps).1 y) = .guard ∨
    (kindFor cfg.dot (catE (restrictSequence cfg ps).1 y) = .other ∧ ¬ (ps.afterStart = true)) := by
  have hne := slashGuard_ne_eps (guard_restrict cfg h ps)
  unfold catE
  rw [if_neg hne]
  unfold restrictSequence
  simp only [h.pathname, if_true, h.win]
  cases ha : ps.afterStart <;> cases hd : cfg.dot <;> simp
  · right; rcases hy with rfl | ⟨neg, items, rfl⟩
    · exact kind_seqPath_any false
    · exact kind_seqPath_cls false neg items
  · right; rcases hy with rfl | ⟨neg, items, rfl⟩
    · exact kind_seqPath_any true
    · exact kind_seqPath_cls true neg items
  · rcases hy with rfl | ⟨neg, items, rfl⟩
    · exact kind_guard2_any
    · exact kind_guard2_cls neg items
  · rcases hy with rfl | ⟨neg, items, rfl⟩
    · exact kind_guard3_any
    · exact kind_guard3_cls neg items

theorem handleDot_cases (cfg : Cfg) (h : PathUnix cfg) (ps : PS) (it : It) :
    handleDot cfg ps it = Frag.guardedDot false ∨ handleDot cfg ps it = .lit '.' := by
  unfold handleDot
  simp only [h.win]
  generalize (if (ps.afterStart && cfg.pathname && cfg.nodotdir) = true then
    dotScan cfg ps.inList (it.rest.length + 1) it true false else (true, false)) = pr
  obtain ⟨c, p⟩ := pr
  simp only []
  split
  · exact Or.inl rfl
  · exact Or.inr rfl

theorem sequence_path' (cfg : Cfg) (h : PathUnix cfg) (ps : PS) (it : It) (r : Re) (ps' : PS) (it' : It)
    (hs : sequence cfg ps it = some (r, ps', it')) :
    ∃ neg items, r = catE (restrictSequence cfg ps).1 (.cls neg items) := by
  obtain ⟨cls, hc⟩ := HF.sequence_shape cfg ps it r ps' it' hs
  simp only [h.pathname, Bool.true_or, if_true] at hc
  injection hc with h1 h2
  obtain ⟨neg, items, hq⟩ := WcModel.sequence_shape cfg ps it r ps' it' hs
  have hne := slashGuard_ne_eps (guard_restrict cfg h ps)
  rcases hq with hq | hq
  · exfalso
    rw [hq] at h1
    unfold catE at h1
    rw [if_neg hne] at h1
    cases h1
  · exact ⟨neg, items, hq⟩

/-- an escape outside brackets at top level, path mode: what is pushed -/
theorem references_top' (cfg : Cfg) (h : PathUnix cfg) (ps : PS) (hl : ps.inList = false) (it : It)
    (v : Re) (it' : It) (ps' : PS) (hr : references cfg ps it = .val v it' ps') :
    (∃ d, d ≠ '.' ∧ v = .lit d ∧ ps' = ps) ∨ (v = Frag.sepPlus false ∧ ps' = ps.setStartDir) := by
  unfold references at hr
  split at hr
  · cases hr
  · rename_i c it1 _
    simp only [h.bslash, h.unix, h.pathname, h.win, hl, Bool.false_eq_true, if_false, Bool.not_true,
      if_true, Bool.not_false] at hr
    split at hr
    · injection hr with h1 _ h3; exact Or.inl ⟨'\\', by decide, h1.symm, h3.symm⟩
    · split at hr
      · injection hr with h1 _ h3; exact Or.inr ⟨h1.symm, h3.symm⟩
      · split at hr
        · cases hr
        · rename_i hc
          injection hr with h1 _ h3; exact Or.inl ⟨c, hc, h1.symm, h3.symm⟩

theorem references_stop (cfg : Cfg) (ps : PS) (it : It) (hr : references cfg ps it = .stop) : it.rest = [] := by
  unfold references at hr
  split at hr
  · rename_i hn
    unfold It.next at hn
    split at hn
    · assumption
    · cases hn
  · repeat' split at hr
    all_goals cases hr


/-- `_handle_star` at top level -/
theorem handleStar_kinv (cfg : Cfg) (h : PathUnix cfg) (ps : PS) (it : It) (cur : List Item)
    (hi : TInv (gsFor cfg.dot) ps cur) (hk : KInv cfg.dot grp (ps.afterStart = true) cur) :
    KInv cfg.dot grp ((handleStar cfg ps it cur).1.updateDirState.afterStart = true) (handleStar cfg ps it cur).2.2 := by
  rw [handleStar_eq]
  have hgs := hsStar_gstar cfg h ps
  have hfl := hsSel_flags cfg ps it (cfg.pathname && cfg.globstarCapture)
  have hg := hsSel_glob cfg ps it (cfg.pathname && cfg.globstarCapture)
  have hsv := fun ps' hps it' => star_value_kind cfg h ps ps' hps it'
  generalize (hsStar cfg ps).2 = globstar at hgs
  generalize hsSel cfg ps it (cfg.pathname && cfg.globstarCapture) = t at hfl hg
  obtain ⟨isGlob, capture, it', ps'⟩ := t
  obtain ⟨f1, f2, f3⟩ := hfl
  simp only at f1 f2 f3 hg
  unfold hsBody
  simp only [h.win]
  split
  · -- not a globstar
    apply kinv_pushRe _ hk
    rcases hsv ps' f2 it' with h1 | ⟨h1, h2⟩ | h1
    · exact Or.inl h1
    · exact Or.inr (Or.inl ⟨h1, Or.inr h2⟩)
    · exact Or.inr (Or.inr (Or.inl h1))
  · rename_i hglob
    simp only [Bool.not_eq_eq_eq_not, Bool.not_true, Bool.not_eq_false] at hglob
    obtain ⟨ha, _⟩ := hg hglob
    have hsh := hi.head ha
    have hgs' := hgs ha capture
    obtain ⟨_, u2⟩ := upd_start ps'.resetDirTrack.setStartDir rfl rfl
    split
    · rename_i last before
      split
      · exact hk.mono (fun _ => u2)
      · rename_i hnd
        simp only []
        have hlast : last = .empty ∨ ∃ r, last = .re r := by
          rcases hsh with ht | ⟨b', hb, _⟩ | ⟨b', hb⟩
          · rcases ht last List.mem_cons_self with h1 | h1
            · exact Or.inl h1
            · exact Or.inr ⟨_, h1⟩
          · injection hb with hb _; exact Or.inr ⟨_, hb⟩
          · injection hb with hb _; exact Or.inr ⟨_, hb⟩
        split
        · exact kinv_replace [.re (Frag.globstarDiv false), .re _] hlast hk (gseq2 cfg.dot _ hgs' u2)
        · exact kinv_replace [.re (Frag.globstarDiv false), .re _, .re (Frag.needSep false)] hlast hk
            (gseq3 cfg.dot _ hgs' u2)
    · exact hk.mono (fun _ => u2)

/-- one top-level character that is not (the start of) a group that parses -/
theorem rootPlain_kinv (cfg : Cfg) (h : PathUnix cfg) (c : Char) (it : It) (ps : PS) (cur : List Item)
    (hi : TInv (gsFor cfg.dot) ps cur) (hk : KInv cfg.dot grp (ps.afterStart = true) cur) :
    KInv cfg.dot grp ((HF.rootPlain cfg c it ps cur).2.1.afterStart = true ∨ (HF.rootPlain cfg c it ps cur).1.rest = [])
      (HF.rootPlain cfg c it ps cur).2.2 := by
  unfold HF.rootPlain
  split
  · apply kinv_pushRe _ hk
    rcases handleDot_cases cfg h ps it with e | e <;> rw [e]
    · cases hd : cfg.dot
      · exact Or.inr (Or.inl ⟨kind_guardedDot_false.1, Or.inl kind_guardedDot_false.2⟩)
      · exact Or.inl kind_guardedDot_true
    · exact Or.inr (Or.inl ⟨(kind_litDot cfg.dot).1, Or.inl (kind_litDot cfg.dot).2⟩)
  split
  · exact (handleStar_kinv cfg h ps it cur hi hk).mono Or.inl
  split
  · rw [HF.qmarkItem_eq]
    apply kinv_pushRe _ hk
    rcases guarded_kind cfg h ps .any (Or.inl rfl) with h1 | ⟨h1, h2⟩
    · exact Or.inl h1
    · exact Or.inr (Or.inl ⟨h1, Or.inr h2⟩)
  split
  · simp only [h.pathname, if_true, h.win]
    apply kinv_pushRe _ (kinv_rel (HF.cleanUpInverse_rel cfg ps.setStartDir cur false) hk)
    refine Or.inr (Or.inr (Or.inr ⟨kind_sepPlus _, Or.inl ?_⟩))
    obtain ⟨f1, f2⟩ := cleanUpInverse_flags cfg ps.setStartDir cur false
    exact (upd_start _
      (by show (cleanUpInverse cfg ps.setStartDir cur false).2.dirStart = true; rw [f1]; rfl)
      (by show (cleanUpInverse cfg ps.setStartDir cur false).2.afterStart = false; rw [f2]; rfl)).2
  split
  · split
    · rename_i v it' ps' hr
      rcases references_top' cfg h ps hi.inList it v it' ps' hr with ⟨d, hd, rfl, rfl⟩ | ⟨rfl, rfl⟩
      · simp only [hi.dirStart, Bool.false_eq_true, if_false]
        exact kinv_pushRe _ hk (Or.inl (kind_lit _ hd))
      · simp only [PS.setStartDir, if_true]
        apply kinv_pushRe _ (kinv_rel (HF.cleanUpInverse_rel cfg _ cur false) hk)
        refine Or.inr (Or.inr (Or.inr ⟨kind_sepPlus _, Or.inl ?_⟩))
        obtain ⟨f1, f2⟩ := cleanUpInverse_flags cfg
          ({ ps with dirStart := true, afterStart := false } : PS) cur false
        exact (upd_start _
          (by show (cleanUpInverse cfg ({ ps with dirStart := true, afterStart := false } : PS) cur false).2.dirStart = true
              rw [f1])
          (by show (cleanUpInverse cfg ({ ps with dirStart := true, afterStart := false } : PS) cur false).2.afterStart = false
              rw [f2])).2
    · exact hk.mono Or.inl
    · rename_i hr
      exact hk.mono (fun _ => Or.inr (references_stop cfg ps it hr))
  split
  · split
    · rename_i r ps' it' hq
      obtain ⟨neg, items, rfl⟩ := sequence_path' cfg h ps it r ps' it' hq
      apply kinv_pushRe _ hk
      rcases guarded_kind cfg h ps (.cls neg items) (Or.inr ⟨neg, items, rfl⟩) with h1 | ⟨h1, h2⟩
      · exact Or.inl h1
      · exact Or.inr (Or.inl ⟨h1, Or.inr h2⟩)
    · exact kinv_pushRe _ hk (Or.inl (kind_lit _ (by decide)))
  · rename_i h1 _ _ _ _ _
    exact kinv_pushRe _ hk (Or.inl (kind_lit _ h1))

/-- one top-level token -/
theorem rootTok_kinv (cfg : Cfg) (h : PathUnix cfg) (c : Char) (it : It) (ps : PS) (cur : List Item)
    (hi : TInv (gsFor cfg.dot) ps cur) (hk : KInv cfg.dot grp (ps.afterStart = true) cur) :
    KInv cfg.dot grp ((HF.rootTok cfg c it ps cur).2.1.afterStart = true ∨ (HF.rootTok cfg c it ps cur).1.rest = [])
      (HF.rootTok cfg c it ps cur).2.2 := by
  unfold HF.rootTok
  split
  · obtain ⟨p1, p2, p3⟩ := (deep cfg h (2 * it.rest.length + 8)).1 c it ps cur true
    obtain ⟨q1, q2, _⟩ := parseExtend_top' cfg (2 * it.rest.length + 7) c it ps cur true hi.inList
    simp only []
    split
    · rename_i hok
      obtain ⟨mid, hm, he, _⟩ := p3 hok
      rw [he hi.inList]
      rcases hm with ⟨k, cc, body, rfl, _⟩ | ⟨star, cap, body, rfl, _⟩
      · exact kinv_pushGroup k cc body hk
      · exact kinv_pushInv star cap body hk
    · rename_i hno
      have hno' : (parseExtend cfg (2 * it.rest.length + 7 + 1) c it ps cur true).1 = false := by
        simpa using hno
      obtain ⟨_, e2, e3, _⟩ := q2 hno'
      apply rootPlain_kinv cfg h
      · exact ⟨q1, by rw [e3]; exact hi.dirStart, hi.ok, fun ha => hi.head (by rw [← e2]; exact ha)⟩
      · exact hk.mono (fun ha => by rw [e2]; exact ha)
  · exact rootPlain_kinv cfg h c it ps cur hi hk

/-- **the `root` loop never pushes an unclassified item at a segment start** -/
theorem rootLoop_kinv (cfg : Cfg) (h : PathUnix cfg) :
    ∀ (fuel : Nat) (it : It) (ps : PS) (cur : List Item), TInv (gsFor cfg.dot) ps cur →
      KInv cfg.dot grp (ps.afterStart = true ∨ it.rest = []) cur →
      KInv cfg.dot grp True (rootLoop cfg fuel it ps cur).2 := by
  intro fuel
  induction fuel with
  | zero => intro it ps cur _ hk; rw [rootLoop]; exact hk.mono (fun _ => trivial)
  | succ fuel ih =>
    intro it ps cur hi hk
    rw [HF.rootLoop_eq]
    split
    · exact hk.mono (fun _ => trivial)
    · rename_i c it1 hn
      have hne : it.rest ≠ [] := by
        intro he
        have hn' : it.next = some (c, it1) := hn
        unfold It.next at hn'
        rw [he] at hn'
        cases hn'
      have hk' : KInv cfg.dot grp (ps.afterStart = true) cur :=
        hk.mono (fun hc => hc.elim id (fun he => absurd he hne))
      exact ih _ _ _ (rootTok_tinv cfg h c it1 ps cur hi) (rootTok_kinv cfg h c it1 ps cur hi hk')


/-! ### which kinds can occur in which mode -/

theorem kstep_false_kind (st : KS) (x : Item) (k : Leak) (h : kstep false grp st x = .error k) : k ≠ .invStar := by
  unfold kstep at h
  split at h
  · split at h
    · simp only [invStep, Bool.false_eq_true, if_false] at h
      split at h
      · cases h
      · injection h with h; rw [← h]; unfold leakOf; split <;> decide
    · simp only [invStep, Bool.false_eq_true, if_false] at h
      split at h
      · cases h
      · injection h with h; rw [← h]; unfold leakOf; split <;> decide
    · injection h with h; rw [← h]; decide
  · split at h
    · split at h
      · split at h <;> cases h
      · cases h
    · split at h
      · split at h
        · cases h
        · cases h
        · cases h
        · injection h with h; rw [← h]; unfold leakOf; split
          · decide
          · split <;> decide
      · cases h
      · cases h
      · split at h
        · cases h
        · injection h with h; rw [← h]; unfold leakOf; split <;> decide
      · injection h with h; rw [← h]; unfold leakOf; split <;> decide

theorem kscan_false_kind : ∀ (l : List Item) (st : KS) (k : Leak), kscan false grp st l = .error k → k ≠ .invStar
  | [], st, k, h => by simp [kscan] at h
  | x :: l, st, k, h => by
    simp only [kscan] at h
    cases hs : kstep false grp st x with
    | error k' => rw [hs] at h; injection h with h; rw [← h]; exact kstep_false_kind st x k' hs
    | ok st' => rw [hs] at h; exact kscan_false_kind l st' k h

theorem kstep_true_saw (st : KS) (x : Item) (hw : st.saw = false) :
    (∀ k, kstep true grp st x = .error k → k ≠ .afterStar) ∧ (∀ st', kstep true grp st x = .ok st' → st'.saw = false) := by
  obtain ⟨s, w, p⟩ := st
  simp only at hw; subst hw
  unfold kstep
  simp only [leakOf, Bool.false_eq_true, if_false, invStep, if_true, Bool.not_true]
  constructor
  · intro k h
    split at h
    · split at h
      · split at h
        · cases h
        · injection h with h; rw [← h]; decide
      · split at h
        · cases h
        · injection h with h; rw [← h]; decide
      · injection h with h; rw [← h]; decide
    · split at h
      · split at h
        · split at h <;> cases h
        · cases h
      · split at h
        · split at h
          · cases h
          · cases h
          · cases h
          · injection h with h; rw [← h]; split <;> decide
        · cases h
        · cases h
        · split at h
          · cases h
          · injection h with h; rw [← h]; decide
        · injection h with h; rw [← h]; decide
  · intro st' h
    split at h
    · split at h
      · split at h
        · injection h with h; rw [← h]
        · cases h
      · split at h
        · injection h with h; rw [← h]
        · cases h
      · cases h
    · split at h
      · split at h
        · split at h <;> (injection h with h; rw [← h])
        · injection h with h; rw [← h]
      · split at h
        · split at h
          · injection h with h; rw [← h]
          · injection h with h; rw [← h]; simp
          · injection h with h; rw [← h]
          · cases h
        · injection h with h; rw [← h]
        · injection h with h; rw [← h]
        · split at h
          · injection h with h; rw [← h]
          · cases h
        · cases h

theorem kscan_true_kind : ∀ (l : List Item) (st : KS) (k : Leak), st.saw = false →
    kscan true grp st l = .error k → k ≠ .afterStar
  | [], st, k, _, h => by simp [kscan] at h
  | x :: l, st, k, hw, h => by
    simp only [kscan] at h
    obtain ⟨h1, h2⟩ := kstep_true_saw st x hw
    cases hs : kstep true grp st x with
    | error k' => rw [hs] at h; injection h with h; rw [← h]; exact h1 k' hs
    | ok st' => rw [hs] at h; exact kscan_true_kind l st' k (h2 st' hs) h

end HP
end WcModel

import WcModel.Proofs.HiddenLowerGstar
/-
  Whole path patterns WITHOUT the visibility hypothesis on the subject — part 3: the composition.

    pathRe_must : SpecAtR ctx .must … a.rest → the compiled pattern matches from `a`     (lower bound)
    pathRe_may  : the compiled pattern matches from `a` → SpecAtR ctx .may … a.rest      (upper bound)

  and, for whole patterns (`compPath_must`, `compPath_may`):

    pathLangR ctx .must pp s = true  →  (wrapRe ci (compPath dot pp)).FullMatch s  →  pathLangR ctx .may pp s = true
-/
namespace WcModel

/-- the scope of the lower bound for one segment pattern: negation-free, no `/`, repeated groups at
    the start have wildcard-free start positions (D1p).  (`Pat.solid` is not needed: a segment that can
    match the empty string only makes the compiled pattern accept MORE.) -/
def Pat.mustScope (g : Pat) : Bool := g.negFree && g.noSlash && g.startSafe false

def Seg.mustScope : Seg → Bool
  | .pat g => g.mustScope
  | .glob => true

theorem Seg.mustScope_of_scope {s : Seg} (h : s.scope = true) : s.mustScope = true := by
  cases s with
  | glob => rfl
  | pat g =>
    simp only [Seg.scope, Pat.segScope, Bool.and_eq_true] at h
    simp only [Seg.mustScope, Pat.mustScope, Bool.and_eq_true]
    exact h.1

/-- the scope of the upper bound for one segment: `Seg.scope` plus `Pat.hiddenSafe` (D4, D5) -/
def Seg.mayScope : Seg → Bool
  | .pat g => g.segScope && g.hiddenSafe
  | .glob => true

namespace HL

theorem suffix_nl {t pre0 u : List Char} (et : t = pre0 ++ u) (ht : t.getLast? ≠ some '\n') :
    u.getLast? ≠ some '\n' := by
  cases u with
  | nil => simp
  | cons d v => exact suffix_getLast (by simp) (et ▸ ht)

/-- **lower bound, from any position of the pattern and of the subject** -/
theorem pathRe_must (ctx : PCtx) (tr : Bool) (t : List Char) (ht : ctx.dot = false ∨ t.getLast? ≠ some '\n') :
    ∀ segs, noGG segs = true → (∀ s ∈ segs, s.mustScope = true) → ∀ sb (a : St), (∃ pre0, t = pre0 ++ a.rest) →
      CtxOK tr segs sb a → SpecAtR ctx .must tr segs sb a.rest →
      ∃ y, y.rest = [] ∧ Re.M ⟨true, ctx.ci⟩ (pathRe ctx.dot tr segs sb) a y := by
  intro segs
  induction segs with
  | nil =>
    intro _ _ sb a _ _ hspec
    simp only [pathRe]
    exact (M_end_iff _ sb a).mpr hspec
  | cons s rest ih =>
    intro hgg hsc sb a hpos hctx hspec
    obtain ⟨pre0, et⟩ := hpos
    cases s with
    | pat g =>
      have hg := hsc (.pat g) List.mem_cons_self
      simp only [Seg.mustScope, Pat.mustScope, Bool.and_eq_true] at hg
      obtain ⟨⟨hn, hs⟩, hst⟩ := hg
      have hgg' : noGG rest = true := by simpa [noGG] using hgg
      have ih' := ih hgg' (fun s hs => hsc s (List.mem_cons_of_mem _ hs))
      have Hf : ∀ (a : St) (pre0 : List Char), t = pre0 ++ a.rest →
          SpecAtR ctx .must tr (.pat g :: rest) false a.rest →
          ∃ y, y.rest = [] ∧ Re.M ⟨true, ctx.ci⟩ (pathRe ctx.dot tr (.pat g :: rest) false) a y := by
        intro a pre0 et hspec
        obtain ⟨p, r, e, hpne, hsl, hr, hseg, hrest⟩ := (specR_pat_cons ctx .must tr g rest hgg' a.rest).mp hspec
        have hrest' := ih' _ ⟨false, r⟩ ⟨pre0 ++ p, by rw [et, e, List.append_assoc]⟩
          (ctx_after_piece tr rest r hr) hrest
        rw [pathRe_pat_unfold]
        exact segThen_must ctx g hn hs hst _ a p r e hpne hsl hr (ht.imp id (suffix_nl et)) hseg hrest'
      cases sb with
      | false => exact Hf a pre0 et hspec
      | true =>
        obtain ⟨pre1, r', hne, hp, e, hspec'⟩ := (specR_sep ctx .must tr g rest a.rest).mp hspec
        rw [pathRe_true, M_sepThen_iff]
        exact ⟨pre1, r', hne, hp, e, Hf ⟨false, r'⟩ (pre0 ++ pre1) (by rw [et, e, List.append_assoc]) hspec'⟩
    | glob =>
      cases rest with
      | nil =>
        have hctx' : if sb then AtSep a.rest else (a.atStart = true ∧ (tr = true → a.rest ≠ [])) := by
          cases sb with
          | true => simpa [CtxOK] using hctx
          | false => simpa [CtxOK] using hctx
        obtain ⟨hsb, hvis⟩ := (specR_glob_end ctx .must tr sb a.atStart a.rest hctx').mp hspec
        rw [pathRe_glob_unfold]
        have : pathRe ctx.dot tr [] false = sepIf false (Frag.pathTrail false) := by simp [pathRe]
        rw [this]
        exact globEnd_must ctx.dot ctx.ci sb a hsb hvis t pre0 et ht
      | cons s2 ss =>
        cases s2 with
        | glob => simp [noGG] at hgg
        | pat g2 =>
          have hgg' : noGG (.pat g2 :: ss) = true := by simpa [noGG] using hgg
          have ih' := ih hgg' (fun s hs => hsc s (List.mem_cons_of_mem _ hs))
          have hctx' : sb = false → a.atStart = true := by
            intro hsb; subst hsb
            simp only [CtxOK, Bool.false_eq_true, ite_false] at hctx
            exact hctx.1
          obtain ⟨hsb, T, r, eT, hgap, hvis, hrest⟩ :=
            (specR_glob_cons ctx .must tr sb a.atStart g2 ss a.rest hctx').mp hspec
          obtain ⟨y, hy, h3⟩ := ih' false ⟨a.atStart && T.isEmpty, r⟩
            ⟨pre0 ++ T, by rw [et, eT, List.append_assoc]⟩ trivial hrest
          obtain ⟨m, h1, h2⟩ := gap_must ctx.dot ctx.ci a T r eT hgap hvis t pre0 et ht
          rw [pathRe_glob_unfold]
          refine ⟨y, hy, (M_needSepIf _ sb _ a y).mpr ⟨hsb, ?_⟩⟩
          rw [Re.M.eq_5]
          refine ⟨m, h1, ?_⟩
          rw [Re.M.eq_5]
          exact ⟨_, h2, h3⟩

/-- **upper bound, from any position of the pattern and of the subject** -/
theorem pathRe_may (ctx : PCtx) (tr : Bool) (t : List Char) :
    ∀ segs, ((∀ s ∈ segs, s ≠ Seg.glob) ∨ t.getLast? ≠ some '\n') →
      noGG segs = true → (∀ s ∈ segs, s.mayScope = true) → ∀ sb (a : St), (∃ pre0, t = pre0 ++ a.rest) →
      CtxOK tr segs sb a →
      (∃ y, y.rest = [] ∧ Re.M ⟨true, ctx.ci⟩ (pathRe ctx.dot tr segs sb) a y) →
      SpecAtR ctx .may tr segs sb a.rest := by
  intro segs
  induction segs with
  | nil =>
    intro _ _ _ sb a _ _ hM
    simp only [pathRe] at hM
    exact (M_end_iff _ sb a).mp hM
  | cons s rest ih =>
    intro hng hgg hsc sb a hpos hctx hM
    obtain ⟨pre0, et⟩ := hpos
    have hng' : (∀ s ∈ rest, s ≠ Seg.glob) ∨ t.getLast? ≠ some '\n' :=
      hng.imp (fun h s hs => h s (List.mem_cons_of_mem _ hs)) id
    cases s with
    | pat g =>
      have hg0 := hsc (.pat g) List.mem_cons_self
      simp only [Seg.mayScope, Bool.and_eq_true] at hg0
      obtain ⟨hg, hhs⟩ := hg0
      have hgg' : noGG rest = true := by simpa [noGG] using hgg
      have ih' := ih hng' hgg' (fun s hs => hsc s (List.mem_cons_of_mem _ hs))
      have Hf : ∀ (a : St) (pre0 : List Char), t = pre0 ++ a.rest →
          (∃ y, y.rest = [] ∧ Re.M ⟨true, ctx.ci⟩ (pathRe ctx.dot tr (.pat g :: rest) false) a y) →
          SpecAtR ctx .may tr (.pat g :: rest) false a.rest := by
        intro a pre0 et hM
        rw [pathRe_pat_unfold] at hM
        obtain ⟨p, r, e, hpne, hsl, hr, hseg, hrest⟩ :=
          segThen_may ctx g hg hhs _ (RTail_rest _ _ _ rest) a hM
        refine (specR_pat_cons ctx .may tr g rest hgg' a.rest).mpr ⟨p, r, e, hpne, hsl, hr, hseg, ?_⟩
        exact ih' _ ⟨false, r⟩ ⟨pre0 ++ p, by rw [et, e, List.append_assoc]⟩ (ctx_after_piece tr rest r hr) hrest
      cases sb with
      | false => exact Hf a pre0 et hM
      | true =>
        rw [pathRe_true, M_sepThen_iff] at hM
        obtain ⟨pre1, r', hne, hp, e, hrest⟩ := hM
        exact (specR_sep ctx .may tr g rest a.rest).mpr
          ⟨pre1, r', hne, hp, e, Hf ⟨false, r'⟩ (pre0 ++ pre1) (by rw [et, e, List.append_assoc]) hrest⟩
    | glob =>
      have ht : t.getLast? ≠ some '\n' := by
        rcases hng with h | h
        · exact absurd rfl (h .glob List.mem_cons_self)
        · exact h
      have hstart : a.atStart = true ∨ AtSep a.rest := by
        cases sb with
        | true => right; simpa [CtxOK] using hctx
        | false =>
          left
          simp only [CtxOK, Bool.false_eq_true, ite_false] at hctx
          exact hctx.1
      cases rest with
      | nil =>
        have hctx' : if sb then AtSep a.rest else (a.atStart = true ∧ (tr = true → a.rest ≠ [])) := by
          cases sb with
          | true => simpa [CtxOK] using hctx
          | false => simpa [CtxOK] using hctx
        rw [pathRe_glob_unfold] at hM
        have : pathRe ctx.dot tr [] false = sepIf false (Frag.pathTrail false) := by simp [pathRe]
        rw [this] at hM
        obtain ⟨y, hy, hM⟩ := hM
        exact (specR_glob_end ctx .may tr sb a.atStart a.rest hctx').mpr
          (globEnd_may ctx.dot ctx.ci sb a y hy hM hstart)
      | cons s2 ss =>
        cases s2 with
        | glob => simp [noGG] at hgg
        | pat g2 =>
          have hg2 : g2.segScope = true := by
            have := hsc (.pat g2) (List.mem_cons_of_mem _ List.mem_cons_self)
            simp only [Seg.mayScope, Bool.and_eq_true] at this
            exact this.1
          have hgg' : noGG (.pat g2 :: ss) = true := by simpa [noGG] using hgg
          have ih' := ih hng' hgg' (fun s hs => hsc s (List.mem_cons_of_mem _ hs))
          have hctx' : sb = false → a.atStart = true := by
            intro hsb; subst hsb
            simp only [CtxOK, Bool.false_eq_true, ite_false] at hctx
            exact hctx.1
          rw [pathRe_glob_unfold] at hM
          obtain ⟨y, hy, hM⟩ := hM
          obtain ⟨hsb, hM⟩ := (M_needSepIf _ sb _ a y).mp hM
          rw [Re.M.eq_5] at hM
          obtain ⟨m, h1, hM⟩ := hM
          rw [Re.M.eq_5] at hM
          obtain ⟨c, h2, h3⟩ := hM
          have hc := pathRe_pat_ne ctx.dot ctx.ci tr g2 hg2 ss c y h3
          obtain ⟨T, eT, hgap, hf, hvis⟩ := gap_may ctx.dot ctx.ci a m c h1 h2 hc (suffix_nl et ht) hstart
          have hcc : c = ⟨a.atStart && T.isEmpty, c.rest⟩ := by
            rcases c with ⟨cf, cr⟩; simp only at hf; rw [hf]
          refine (specR_glob_cons ctx .may tr sb a.atStart g2 ss a.rest hctx').mpr
            ⟨hsb, T, c.rest, eT, hgap, hvis, ?_⟩
          have := ih' false ⟨a.atStart && T.isEmpty, c.rest⟩ ⟨pre0 ++ T, by rw [et, eT, List.append_assoc]⟩
            trivial ⟨y, hy, hcc ▸ h3⟩
          exact this

/-! ### whole patterns -/

theorem specAtR_top (ctx : PCtx) (rl : DotRule) (abs tr : Bool) (segs : List Seg) (hwf : segs = [] → abs = true)
    (s : List Char) :
    SpecAtR ctx rl tr segs abs s ↔ pathLangR ctx rl ⟨abs, segs, tr⟩ s = true := by
  unfold pathLangR
  cases segs with
  | nil =>
    have habs := hwf rfl
    subst habs
    simp only [SpecAtR, forall_const, ite_true, segsMatch_nil, Bool.and_eq_true, decide_eq_true_eq,
      List.isEmpty_iff, Bool.or_eq_true, Bool.not_eq_true']
    constructor
    · rintro ⟨hall, hne⟩
      refine ⟨?_, pieces_allSl s hall, Or.inr (allSl_getLast s hall hne)⟩
      rcases allSl_head s hall with rfl | ⟨r', rfl⟩
      · exact absurd rfl hne
      · rfl
    · rintro ⟨hh, hnil, _⟩
      refine ⟨allSl_of_pieces_nil s hnil, ?_⟩
      rintro rfl
      simp at hh
  | cons sg rest =>
    cases sg with
    | pat g => cases abs <;> simp [SpecAtR, pieces]
    | glob => cases abs <;> simp [SpecAtR, pieces]

/-- **lower bound for the tidy path compiler**: whatever the specification admits under the rule
    `.must`, the compiled pattern matches — for EVERY subject (hidden pieces, `.`, `..` allowed) -/
theorem compPath_must (ctx : PCtx) (pp : PathPat)
    (hsc : pp.segs.all Seg.mustScope = true) (hgg : noGG pp.segs = true) (hwf : pp.segs = [] → pp.abs = true)
    (s : List Char) (hD3 : ctx.dot = false ∨ s.getLast? ≠ some '\n')
    (h : pathLangR ctx .must pp s = true) :
    (wrapRe ctx.ci (compPath ctx.dot pp)).FullMatch s := by
  rcases pp with ⟨abs, segs, tr⟩
  simp only at hsc hgg hwf
  rw [wrapRe_fullmatch]
  have hspec := (specAtR_top ctx .must abs tr segs hwf s).mpr h
  unfold compPath
  simp only
  have hsc' : ∀ sg ∈ segs, sg.mustScope = true := by
    rw [List.all_eq_true] at hsc; exact hsc
  have hc : CtxOK tr segs abs ⟨true, s⟩ := by
    cases segs with
    | nil => trivial
    | cons sg rest =>
      cases sg with
      | pat g => trivial
      | glob =>
        cases abs with
        | true =>
          simp only [CtxOK, ite_true]
          have hh := hspec.1 rfl
          cases s with
          | nil => simp at hh
          | cons d v => simp at hh; exact Or.inr ⟨v, by rw [hh]⟩
        | false =>
          simp only [CtxOK, Bool.false_eq_true, ite_false, true_and]
          intro hr htr hs0
          subst hr; subst htr; subst hs0
          simp [SpecAtR, segsMatch, pieces_nil] at hspec
  exact pathRe_must ctx tr s hD3 segs hgg hsc' abs ⟨true, s⟩ ⟨[], rfl⟩ hc hspec

/-- **upper bound for the tidy path compiler**: whatever the compiled pattern matches, the
    specification admits under the rule `.may` — for EVERY subject -/
theorem compPath_may (ctx : PCtx) (pp : PathPat)
    (hsc : pp.segs.all Seg.mayScope = true) (hgg : noGG pp.segs = true) (hwf : pp.segs = [] → pp.abs = true)
    (s : List Char) (hD3 : (∀ sg ∈ pp.segs, sg ≠ Seg.glob) ∨ s.getLast? ≠ some '\n')
    (hD8 : pp.segs = [.glob] → pp.abs = false → pp.trailing = true → s ≠ [])
    (h : (wrapRe ctx.ci (compPath ctx.dot pp)).FullMatch s) :
    pathLangR ctx .may pp s = true := by
  rcases pp with ⟨abs, segs, tr⟩
  simp only at hsc hgg hwf hD8 hD3
  rw [wrapRe_fullmatch] at h
  rw [← specAtR_top ctx .may abs tr segs hwf s]
  unfold compPath at h
  simp only at h
  have hsc' : ∀ sg ∈ segs, sg.mayScope = true := by
    rw [List.all_eq_true] at hsc; exact hsc
  have hc : CtxOK tr segs abs ⟨true, s⟩ := by
    cases segs with
    | nil => trivial
    | cons sg rest =>
      cases sg with
      | pat g => trivial
      | glob =>
        cases abs with
        | true =>
          simp only [CtxOK, ite_true]
          obtain ⟨y, _, hM⟩ := h
          rw [pathRe_glob_unfold] at hM
          have hh := ((M_needSepIf _ true _ _ y).mp hM).1 rfl
          cases s with
          | nil => simp at hh
          | cons d v => simp at hh; exact Or.inr ⟨v, by rw [hh]⟩
        | false =>
          simp only [CtxOK, Bool.false_eq_true, ite_false, true_and]
          intro hr htr
          exact hD8 (by rw [hr]) rfl htr
  exact pathRe_may ctx tr s segs hD3 hgg hsc' abs ⟨true, s⟩ ⟨[], rfl⟩ hc h

end HL
end WcModel

import WcModel.Spec.Lists
/- Arithmetic invariants of the list loop (`Model/Compile.runPatterns`). -/
namespace WcModel.Compile

variable {R O : Type}

/-! ### the body: pieces of one item -/

theorem admitPiece_total (pol : Policy O) (e : Pat) (a : Acc O) : (admitPiece pol e a).total = a.total := by
  unfold admitPiece
  split
  · split <;> rfl
  · rfl

theorem admitPiece_pulls (pol : Policy O) (e : Pat) (a : Acc O) : (admitPiece pol e a).pulls = a.pulls := by
  unfold admitPiece
  split
  · split <;> rfl
  · rfl

theorem foldP_total (pol : Policy O) (es : List Pat) (a : Acc O) : (foldP pol es a).total = a.total + es.length := by
  induction es generalizing a with
  | nil => simp [foldP]
  | cons e es ih =>
    have := ih (stepP pol a e)
    simp only [foldP, List.foldl_cons] at this ⊢
    rw [this]; simp [stepP, admitPiece_total]; omega

theorem foldP_pulls (pol : Policy O) (es : List Pat) (a : Acc O) : (foldP pol es a).pulls = a.pulls := by
  induction es generalizing a with
  | nil => simp [foldP]
  | cons e es ih =>
    have := ih (stepP pol a e)
    simp only [foldP, List.foldl_cons] at this ⊢
    rw [this]; simp [stepP, admitPiece_pulls]

/-- no overflow: the pieces are all consumed -/
theorem runPieces_ok (pol : Policy O) (L : Int) (es : List Pat) (a : Acc O) (c : Nat)
    (h : L ≤ 0 ∨ ((a.total + es.length : Nat) : Int) ≤ L) :
    runPieces pol L es a c = .ok (foldP pol es a, c + es.length) := by
  induction es generalizing a c with
  | nil => simp [runPieces, foldP]
  | cons e es ih =>
    have hno : ¬ (0 < L ∧ L < ((a.total + 1 : Nat) : Int)) := by
      rcases h with h | h
      · omega
      · simp only [List.length_cons] at h; omega
    have hrec := ih (admitPiece pol e { a with total := a.total + 1 }) (c + 1) (by
      rcases h with h | h
      · exact Or.inl h
      · right; simp only [admitPiece_total, List.length_cons] at h ⊢; omega)
    simp only [runPieces, hno, if_false, hrec, foldP, List.foldl_cons, stepP, List.length_cons]
    congr 2; omega

/-- overflow: PatternLimitException, with the pull count unchanged -/
theorem runPieces_err (pol : Policy O) (L : Int) (es : List Pat) (a : Acc O) (c : Nat)
    (hL : 0 < L) (ha : (a.total : Int) ≤ L) (h : L < ((a.total + es.length : Nat) : Int)) :
    runPieces pol L es a c = .error (.patternLimit, a.pulls) := by
  induction es generalizing a c with
  | nil => simp at h; omega
  | cons e es ih =>
    by_cases hov : L < ((a.total + 1 : Nat) : Int)
    · have hyes : 0 < L ∧ L < ((a.total + 1 : Nat) : Int) := ⟨hL, hov⟩
      simp only [runPieces, hyes, and_self, if_true]
    · have hrec := ih (admitPiece pol e { a with total := a.total + 1 }) (c + 1)
        (by simp only [admitPiece_total]; omega) (by
        simp only [admitPiece_total, List.length_cons] at h ⊢; omega)
      have hno : ¬ (0 < L ∧ L < ((a.total + 1 : Nat) : Int)) := fun hh => hov hh.2
      simp only [runPieces, hno, if_false, hrec, admitPiece_pulls]

theorem runPieces_error_kind (pol : Policy O) (L : Int) (es : List Pat) (a : Acc O) (c : Nat) (e : Err) (k : Nat)
    (h : runPieces pol L es a c = .error (e, k)) : e = .patternLimit ∧ k = a.pulls := by
  induction es generalizing a c with
  | nil => simp [runPieces] at h
  | cons p es ih =>
    simp only [runPieces] at h
    split at h
    · cases h; exact ⟨rfl, rfl⟩
    · have := ih _ _ h
      simpa [admitPiece_pulls] using this

/-! ### the items of one pattern -/

theorem foldI_total (pol : Policy O) (its : List (List Pat)) (a : Acc O) :
    (foldI pol its a).total = a.total + its.flatten.length := by
  induction its generalizing a with
  | nil => simp [foldI]
  | cons it its ih =>
    have := ih (foldP pol it { a with pulls := a.pulls + 1 })
    simp only [foldI, List.foldl_cons] at this ⊢
    rw [this, foldP_total]; simp; omega

theorem foldI_pulls (pol : Policy O) (its : List (List Pat)) (a : Acc O) :
    (foldI pol its a).pulls = a.pulls + its.length := by
  induction its generalizing a with
  | nil => simp [foldI]
  | cons it its ih =>
    have := ih (foldP pol it { a with pulls := a.pulls + 1 })
    simp only [foldI, List.foldl_cons] at this ⊢
    rw [this, foldP_pulls]; simp; omega

theorem runItems_ok (pol : Policy O) (L : Int) (its : List (List Pat)) (a : Acc O) (c : Nat)
    (h : L ≤ 0 ∨ ((a.total + its.flatten.length : Nat) : Int) ≤ L) :
    runItems pol L its a c = .ok (foldI pol its a, c + its.flatten.length) := by
  induction its generalizing a c with
  | nil => simp [runItems, foldI]
  | cons it its ih =>
    have h1 := runPieces_ok pol L it { a with pulls := a.pulls + 1 } c (by
      rcases h with h | h
      · exact Or.inl h
      · right; simp only [List.flatten_cons, List.length_append] at h ⊢; omega)
    have h2 := ih (foldP pol it { a with pulls := a.pulls + 1 }) (c + it.length) (by
      rcases h with h | h
      · exact Or.inl h
      · right; simp only [foldP_total, List.flatten_cons, List.length_append] at h ⊢; omega)
    simp only [runItems, h1, h2, foldI, List.foldl_cons, List.flatten_cons, List.length_append]
    congr 2; omega

theorem runItems_error_kind (pol : Policy O) (L : Int) (its : List (List Pat)) (a : Acc O) (c : Nat) (e : Err) (k : Nat)
    (h : runItems pol L its a c = .error (e, k)) : e = .patternLimit := by
  induction its generalizing a c with
  | nil => simp [runItems] at h
  | cons it its ih =>
    simp only [runItems] at h
    split at h
    · rename_i e' he
      cases h
      exact (runPieces_error_kind pol L it _ c _ _ he).1
    · exact ih _ _ h

theorem runItems_err (pol : Policy O) (L : Int) (its : List (List Pat)) (a : Acc O) (c : Nat)
    (hL : 0 < L) (ha : (a.total : Int) ≤ L) (h : L < ((a.total + its.flatten.length : Nat) : Int)) :
    ∃ k, runItems pol L its a c = .error (.patternLimit, k) := by
  induction its generalizing a c with
  | nil => simp at h; omega
  | cons it its ih =>
    by_cases hov : L < ((a.total + it.length : Nat) : Int)
    · have := runPieces_err pol L it { a with pulls := a.pulls + 1 } c hL ha (by simpa using hov)
      exact ⟨a.pulls + 1, by simp only [runItems, this]⟩
    · have h1 := runPieces_ok pol L it { a with pulls := a.pulls + 1 } c (Or.inr (by simp; omega))
      obtain ⟨k, hk⟩ := ih (foldP pol it { a with pulls := a.pulls + 1 }) (c + it.length)
        (by simp only [foldP_total]; omega) (by
        simp only [foldP_total, List.flatten_cons, List.length_append] at h ⊢; omega)
      exact ⟨k, by simp only [runItems, h1, hk]⟩

/-- Work: as long as the loop runs, `pulls - total` does not grow; an error leaves at most one
    extra pull.  (`L > 0`, every item has at least one piece.) -/
theorem runItems_work (pol : Policy O) (L : Int) (its : List (List Pat)) (a : Acc O) (c : Nat)
    (hL : 0 < L) (hne : ∀ it ∈ its, it ≠ []) (ha : (a.total : Int) ≤ L) :
    (∀ a' c', runItems pol L its a c = .ok (a', c') →
        (a'.total : Int) ≤ L ∧ a'.pulls + a.total ≤ a.pulls + a'.total) ∧
    (∀ e k, runItems pol L its a c = .error (e, k) → (k + a.total : Int) ≤ a.pulls + L + 1) := by
  induction its generalizing a c with
  | nil =>
    constructor
    · intro a' c' h; simp [runItems] at h; obtain ⟨rfl, _⟩ := h; exact ⟨ha, Nat.le_refl _⟩
    · intro e k h; simp [runItems] at h
  | cons it its ih =>
    have hit : it ≠ [] := hne it (by simp)
    have hlen : 1 ≤ it.length := by
      cases it with
      | nil => exact absurd rfl hit
      | cons _ _ => simp
    by_cases hov : L < ((a.total + it.length : Nat) : Int)
    · have h1 := runPieces_err pol L it { a with pulls := a.pulls + 1 } c hL ha (by simpa using hov)
      constructor
      · intro a' c' h; simp only [runItems, h1] at h; cases h
      · intro e k h
        simp only [runItems, h1] at h
        cases h
        push_cast; omega
    · have h1 := runPieces_ok pol L it { a with pulls := a.pulls + 1 } c (Or.inr (by simp; omega))
      have hrec := ih (foldP pol it { a with pulls := a.pulls + 1 }) (c + it.length)
        (fun i hi => hne i (by simp [hi])) (by simp only [foldP_total]; omega)
      simp only [foldP_total, foldP_pulls] at hrec
      constructor
      · intro a' c' h
        simp only [runItems, h1] at h
        obtain ⟨hb1, hb2⟩ := hrec.1 a' c' h
        exact ⟨hb1, by omega⟩
      · intro e k h
        simp only [runItems, h1] at h
        have := hrec.2 e k h
        push_cast at this ⊢; omega

/-! ### what `expand` returns, under the bracex contract -/

theorem expand_full (x : Ext R) (fl : Flags) (cnt : Pat → Nat) (hb : BraceOK x cnt) (q : Pat) (cl : Int)
    (h : cl ≤ 0 ∨ (bcnt fl cnt q : Int) ≤ cl) : expand x fl q cl = (fullItems x fl q, false) := by
  unfold expand fullItems expandBraces bcnt at *
  by_cases hbr : fl.brace = true
  · simp only [hbr, if_true] at h ⊢
    rw [hb.full q cl h]
  · simp [hbr]

theorem expand_raised_or_full (x : Ext R) (fl : Flags) (cnt : Pat → Nat) (hb : BraceOK x cnt) (q : Pat) (cl : Int) :
    (expand x fl q cl).2 = true ∨ expand x fl q cl = (fullItems x fl q, false) := by
  by_cases h : cl ≤ 0 ∨ (bcnt fl cnt q : Int) ≤ cl
  · exact Or.inr (expand_full x fl cnt hb q cl h)
  · left
    have h1 : 0 < cl := by omega
    have h2 : cl < (bcnt fl cnt q : Int) := by omega
    unfold bcnt at h2
    unfold expand expandBraces
    by_cases hbr : fl.brace = true
    · simp only [hbr, if_true] at h2 ⊢
      exact hb.over q cl h1 h2
    · simp [hbr] at h2; omega

theorem expand_items_nonempty (x : Ext R) (fl : Flags) (hs : fl.split = true → SplitNonempty x fl) (q : Pat) (cl : Int) :
    ∀ it ∈ (expand x fl q cl).1, it ≠ [] := by
  intro it hit
  simp only [expand, List.mem_map] at hit
  obtain ⟨e, _, rfl⟩ := hit
  unfold splitItem
  by_cases hsp : fl.split = true
  · simp [hsp, hs hsp e]
  · simp [hsp]

/-! ### the outer loop -/

theorem nrm_of_ok (x : Ext R) (fl : Flags) (p q : Pat) (h : x.norm fl p = .ok q) : nrm x fl p = q := by
  simp [nrm, h]

/-- `current_limit` as a function of what has been consumed (`d` = pieces consumed by an earlier
    list that shares `current_limit`, used for `Glob`) -/
def clOf (L : Int) (used : Nat) : Int := if L - used < 1 then 1 else L - used

theorem nextLimit_clOf (L : Int) (used count : Nat) (hL : 0 < L) :
    nextLimit L (clOf L used) count = clOf L (used + count) := by
  unfold nextLimit clOf
  have : L ≠ 0 := by omega
  simp only [this, ne_eq, not_false_eq_true, if_true]
  split <;> split <;> split <;> first | rfl | omega | (push_cast; omega)

/-- **no limit error** when the weights fit the budget (or the limit is disabled) -/
theorem runPatterns_ok (x : Ext R) (fl : Flags) (pol : Policy O) (cnt : Pat → Nat) (hb : BraceOK x cnt)
    (L : Int) (ps : List Pat) (d : Nat) (a : Acc O) (cl : Int) (hn : NormOK x fl ps)
    (h : (L = 0 ∧ cl = 0) ∨ (0 < L ∧ cl = clOf L (d + a.total) ∧ ((d + a.total + totalWeight x fl cnt ps : Nat) : Int) ≤ L)) :
    ∃ cl', runPatterns x fl pol L ps cl a = .ok (pureRun x fl pol ps a, cl') ∧
      ((L = 0 ∧ cl' = 0) ∨ (0 < L ∧ cl' = clOf L (d + (pureRun x fl pol ps a).total))) := by
  induction ps generalizing a cl with
  | nil =>
    refine ⟨cl, by simp [runPatterns, pureRun], ?_⟩
    rcases h with ⟨h1, h2⟩ | ⟨h1, h2, _⟩
    · exact Or.inl ⟨h1, h2⟩
    · exact Or.inr ⟨h1, by simpa [pureRun] using h2⟩
  | cons p ps ih =>
    obtain ⟨q, hq⟩ := hn p (by simp)
    have hnq := nrm_of_ok x fl p q hq
    have hn' : NormOK x fl ps := fun p' hp' => hn p' (by simp [hp'])
    have hw : totalWeight x fl cnt (p :: ps) = weight x fl cnt q + totalWeight x fl cnt ps := by
      simp [totalWeight, hnq]
    have hwb : bcnt fl cnt q ≤ weight x fl cnt q := Nat.le_max_left _ _
    have hwp : (fullItems x fl q).flatten.length ≤ weight x fl cnt q := Nat.le_max_right _ _
    have hex : expand x fl q cl = (fullItems x fl q, false) := by
      apply expand_full x fl cnt hb
      rcases h with ⟨_, h2⟩ | ⟨h1, h2, h3⟩
      · left; omega
      · right
        rw [h2]; unfold clOf
        rw [hw] at h3
        split <;> (push_cast at h3 ⊢; omega)
    have hit := runItems_ok pol L (fullItems x fl q) a 0 (by
      rcases h with ⟨h1, _⟩ | ⟨h1, _, h3⟩
      · left; omega
      · right; rw [hw] at h3; push_cast at h3 ⊢; omega)
    have hstep : pureRun x fl pol (p :: ps) a = pureRun x fl pol ps (foldI pol (fullItems x fl q) a) := by
      simp [pureRun, hnq]
    obtain ⟨cl', hrun, hcl'⟩ := ih (foldI pol (fullItems x fl q) a)
      (nextLimit L cl (0 + (fullItems x fl q).flatten.length)) hn' (by
        rcases h with ⟨h1, h2⟩ | ⟨h1, h2, h3⟩
        · left; exact ⟨h1, by simp [nextLimit, h1, h2]⟩
        · right
          refine ⟨h1, ?_, ?_⟩
          · rw [h2, nextLimit_clOf L _ _ h1, foldI_total]; congr 1; omega
          · rw [hw] at h3; rw [foldI_total]; push_cast at h3 ⊢; omega)
    refine ⟨cl', ?_, ?_⟩
    · simp only [runPatterns, hq, hex, hit, hstep]
      simpa using hrun
    · rw [hstep]; exact hcl'

/-- the only errors of the loop are PatternLimit and a normalisation error -/
theorem runPatterns_raises (x : Ext R) (fl : Flags) (pol : Policy O) (cnt : Pat → Nat) (hb : BraceOK x cnt)
    (L : Int) (hL : 0 < L) (ps : List Pat) (a : Acc O) (cl : Int) (hn : NormOK x fl ps)
    (ha : (a.total : Int) ≤ L) (h : L < ((a.total + (allPieces x fl ps).length : Nat) : Int)) :
    ∃ k, runPatterns x fl pol L ps cl a = .error (.patternLimit, k) := by
  induction ps generalizing a cl with
  | nil => simp [allPieces] at h; omega
  | cons p ps ih =>
    obtain ⟨q, hq⟩ := hn p (by simp)
    have hnq := nrm_of_ok x fl p q hq
    have hn' : NormOK x fl ps := fun p' hp' => hn p' (by simp [hp'])
    have hall : (allPieces x fl (p :: ps)).length = (fullItems x fl q).flatten.length + (allPieces x fl ps).length := by
      simp [allPieces, hnq, fullPieces]
    rw [hall] at h
    simp only [runPatterns, hq]
    cases hri : runItems pol L (expand x fl q cl).1 a 0 with
    | error e =>
      obtain ⟨e1, k⟩ := e
      have := runItems_error_kind pol L _ a 0 e1 k hri
      subst this
      exact ⟨k, rfl⟩
    | ok r =>
      obtain ⟨a', count⟩ := r
      rcases expand_raised_or_full x fl cnt hb q cl with hr | hf
      · simp only [hr, if_true]; exact ⟨_, rfl⟩
      · rw [hf] at hri
        simp only [hf]
        by_cases hov : L < ((a.total + (fullItems x fl q).flatten.length : Nat) : Int)
        · obtain ⟨k, hk⟩ := runItems_err pol L (fullItems x fl q) a 0 hL ha hov
          rw [hk] at hri; cases hri
        · have hok := runItems_ok pol L (fullItems x fl q) a 0 (Or.inr (by omega))
          rw [hok] at hri
          cases hri
          simp only [Bool.false_eq_true, if_false]
          apply ih _ _ hn'
          · rw [foldI_total]; omega
          · rw [foldI_total]; push_cast at h ⊢; omega

/-- **work**: whatever happens, the number of expansions drawn stays within `L + 1` of the start -/
theorem runPatterns_work (x : Ext R) (fl : Flags) (pol : Policy O) (hs : fl.split = true → SplitNonempty x fl)
    (L : Int) (hL : 0 < L) (ps : List Pat) (a : Acc O) (cl : Int) (ha : (a.total : Int) ≤ L) :
    (∀ a' cl', runPatterns x fl pol L ps cl a = .ok (a', cl') →
        (a'.total : Int) ≤ L ∧ a'.pulls + a.total ≤ a.pulls + a'.total) ∧
    (∀ e k, runPatterns x fl pol L ps cl a = .error (e, k) → (k + a.total : Int) ≤ a.pulls + L + 1) := by
  induction ps generalizing a cl with
  | nil =>
    constructor
    · intro a' cl' h; simp [runPatterns] at h; obtain ⟨rfl, _⟩ := h; exact ⟨ha, Nat.le_refl _⟩
    · intro e k h; simp [runPatterns] at h
  | cons p ps ih =>
    simp only [runPatterns]
    cases hq : x.norm fl p with
    | error e0 =>
      constructor
      · intro a' cl' h; simp at h
      · intro e k h; simp at h; obtain ⟨_, rfl⟩ := h; omega
    | ok q =>
      have hw := runItems_work pol L (expand x fl q cl).1 a 0 hL (expand_items_nonempty x fl hs q cl) ha
      simp only
      cases hri : runItems pol L (expand x fl q cl).1 a 0 with
      | error e1 =>
        obtain ⟨e1, k1⟩ := e1
        constructor
        · intro a' cl' h; simp at h
        · intro e k h; simp at h; obtain ⟨rfl, rfl⟩ := h; exact hw.2 _ _ hri
      | ok r =>
        obtain ⟨a1, count⟩ := r
        obtain ⟨hb1, hb2⟩ := hw.1 a1 count hri
        simp only
        by_cases hr : (expand x fl q cl).2 = true
        · simp only [hr, if_true]
          constructor
          · intro a' cl' h; simp at h
          · intro e k h; simp at h; obtain ⟨_, rfl⟩ := h; omega
        · simp only [hr, Bool.false_eq_true, if_false]
          have hrec := ih a1 (nextLimit L cl count) hb1
          constructor
          · intro a' cl' h
            obtain ⟨hc1, hc2⟩ := hrec.1 a' cl' h
            exact ⟨hc1, by omega⟩
          · intro e k h
            have := hrec.2 e k h
            omega

/-! ### inversion: a successful run is the pure fold -/

theorem runPieces_inv (pol : Policy O) (L : Int) (es : List Pat) (a : Acc O) (c : Nat) (r : Acc O × Nat)
    (h : runPieces pol L es a c = .ok r) : r = (foldP pol es a, c + es.length) := by
  induction es generalizing a c with
  | nil => simp [runPieces] at h; simp [← h, foldP]
  | cons e es ih =>
    simp only [runPieces] at h
    split at h
    · cases h
    · have := ih _ _ h
      rw [this]; simp only [foldP, List.foldl_cons, stepP, List.length_cons]; congr 1; omega

theorem runItems_inv (pol : Policy O) (L : Int) (its : List (List Pat)) (a : Acc O) (c : Nat) (r : Acc O × Nat)
    (h : runItems pol L its a c = .ok r) : r = (foldI pol its a, c + its.flatten.length) := by
  induction its generalizing a c with
  | nil => simp [runItems] at h; simp [← h, foldI]
  | cons it its ih =>
    simp only [runItems] at h
    split at h
    · cases h
    · rename_i a' c' hp
      have h1 := runPieces_inv pol L it _ c _ hp
      cases h1
      have := ih _ _ h
      rw [this]; simp only [foldI, List.foldl_cons, List.flatten_cons, List.length_append]; congr 1; omega

theorem runPatterns_inv (x : Ext R) (fl : Flags) (pol : Policy O) (cnt : Pat → Nat) (hb : BraceOK x cnt)
    (L : Int) (ps : List Pat) (a : Acc O) (cl : Int) (r : Acc O × Int)
    (h : runPatterns x fl pol L ps cl a = .ok r) : r.1 = pureRun x fl pol ps a ∧ NormOK x fl ps := by
  induction ps generalizing a cl with
  | nil => simp [runPatterns] at h; simp [← h, pureRun, NormOK]
  | cons p ps ih =>
    simp only [runPatterns] at h
    cases hq : x.norm fl p with
    | error e => simp [hq] at h
    | ok q =>
      simp only [hq] at h
      have hnq := nrm_of_ok x fl p q hq
      cases hri : runItems pol L (expand x fl q cl).1 a 0 with
      | error e => simp [hri] at h
      | ok r1 =>
        obtain ⟨a1, c1⟩ := r1
        simp only [hri] at h
        rcases expand_raised_or_full x fl cnt hb q cl with hr | hf
        · simp [hr] at h
        · rw [hf] at hri
          simp only [hf, Bool.false_eq_true, if_false] at h
          have h1 := runItems_inv pol L _ a 0 _ hri
          cases h1
          obtain ⟨h2, h3⟩ := ih _ _ h
          refine ⟨?_, ?_⟩
          · rw [h2]; simp [pureRun, hnq]
          · intro p' hp'
            simp only [List.mem_cons] at hp'
            rcases hp' with rfl | hp'
            · exact ⟨q, hq⟩
            · exact h3 p' hp'

theorem runPatterns_error_kind (x : Ext R) (fl : Flags) (pol : Policy O) (L : Int) (ps : List Pat) (a : Acc O) (cl : Int)
    (hn : NormOK x fl ps) (e : Err) (k : Nat) (h : runPatterns x fl pol L ps cl a = .error (e, k)) :
    e = .patternLimit := by
  induction ps generalizing a cl with
  | nil => simp [runPatterns] at h
  | cons p ps ih =>
    obtain ⟨q, hq⟩ := hn p (by simp)
    simp only [runPatterns, hq] at h
    cases hri : runItems pol L (expand x fl q cl).1 a 0 with
    | error e1 =>
      obtain ⟨e1, k1⟩ := e1
      simp only [hri] at h
      cases h
      exact runItems_error_kind pol L _ a 0 _ _ hri
    | ok r1 =>
      obtain ⟨a1, c1⟩ := r1
      simp only [hri] at h
      split at h
      · cases h; rfl
      · exact ih _ _ (fun p' hp' => hn p' (by simp [hp'])) h

/-! ### the loop only looks at the sequence of pieces -/

/-- same state up to the pull counter -/
def sameCore (a b : Acc O) : Prop := a.total = b.total ∧ a.seen = b.seen ∧ a.out = b.out

theorem stepP_core (pol : Policy O) (a b : Acc O) (e : Pat) (h : sameCore a b) :
    sameCore (stepP pol a e) (stepP pol b e) := by
  obtain ⟨h1, h2, h3⟩ := h
  unfold stepP admitPiece sameCore
  simp only [h1, h2, h3]
  split
  · split <;> simp
  · simp

theorem foldP_core (pol : Policy O) (es : List Pat) (a b : Acc O) (h : sameCore a b) :
    sameCore (foldP pol es a) (foldP pol es b) := by
  induction es generalizing a b with
  | nil => simpa [foldP] using h
  | cons e es ih =>
    simp only [foldP, List.foldl_cons]
    exact ih _ _ (stepP_core pol a b e h)

theorem foldP_append (pol : Policy O) (es fs : List Pat) (a : Acc O) :
    foldP pol (es ++ fs) a = foldP pol fs (foldP pol es a) := by
  simp [foldP, List.foldl_append]

theorem foldI_core (pol : Policy O) (its : List (List Pat)) (a b : Acc O) (h : sameCore a b) :
    sameCore (foldI pol its a) (foldP pol its.flatten b) := by
  induction its generalizing a b with
  | nil => simpa [foldI, foldP] using h
  | cons it its ih =>
    simp only [foldI, List.foldl_cons, List.flatten_cons, foldP_append]
    apply ih
    apply foldP_core
    exact ⟨h.1, h.2.1, h.2.2⟩

theorem pureRun_core (x : Ext R) (fl : Flags) (pol : Policy O) (ps : List Pat) (a b : Acc O) (h : sameCore a b) :
    sameCore (pureRun x fl pol ps a) (foldP pol (allPieces x fl ps) b) := by
  induction ps generalizing a b with
  | nil => simpa [pureRun, allPieces, foldP] using h
  | cons p ps ih =>
    simp only [pureRun, List.foldl_cons, allPieces, List.flatMap_cons, foldP_append]
    apply ih
    exact foldI_core pol _ a b h

/-! ### `seen`, `distinct` -/

theorem dn_eq_filter (S es : List Pat) : dn S es = (distinct es).filter (fun y => decide (y ∉ S)) := by
  induction es generalizing S with
  | nil => simp [dn, distinct]
  | cons e es ih =>
    simp only [dn, distinct]
    by_cases he : e ∈ S
    · simp only [he, if_true, List.filter_cons, not_true_eq_false, decide_false, Bool.false_eq_true, if_false]
      rw [ih S, List.filter_filter]
      apply List.filter_congr
      intro y _
      by_cases hy : y ∈ S
      · simp [hy]
      · have : y ≠ e := fun h => hy (h ▸ he)
        simp [hy, this]
    · simp only [he, if_false, List.filter_cons, not_false_eq_true, decide_true, if_true]
      rw [ih (e :: S), List.filter_filter]
      congr 1
      apply List.filter_congr
      intro y _
      by_cases hy : y = e
      · simp [hy]
      · simp [hy]

theorem dn_nil (es : List Pat) : dn [] es = distinct es := by
  rw [dn_eq_filter]; simp

theorem distinct_length_le (es : List Pat) : (distinct es).length ≤ es.length := by
  induction es with
  | nil => simp [distinct]
  | cons e es ih =>
    simp only [distinct, List.length_cons]
    have := List.length_filter_le (fun x => decide (x ≠ e)) (distinct es)
    omega

theorem mem_distinct (es : List Pat) (y : Pat) : y ∈ distinct es ↔ y ∈ es := by
  induction es with
  | nil => simp [distinct]
  | cons e es ih =>
    simp only [distinct, List.mem_cons, List.mem_filter, ih]
    by_cases hy : y = e <;> simp [hy]

/-! ### what `translate` / `compile_pattern` build -/

theorem foldP_pn (x : Ext R) (fl : Flags) (es : List Pat) (a : Acc (PN R)) :
    (foldP (pnPolicy x fl) es a).out.pos =
        a.out.pos ++ ((dn a.seen es).filter (fun e => !isNegative fl e)).map (x.parse fl) ∧
    (foldP (pnPolicy x fl) es a).out.neg =
        a.out.neg ++ ((dn a.seen es).filter (fun e => isNegative fl e)).map (fun e => x.parse (negFlags fl) (e.drop 1)) := by
  induction es generalizing a with
  | nil => simp [foldP, dn]
  | cons e es ih =>
    simp only [foldP, List.foldl_cons]
    have hrec := ih (stepP (pnPolicy x fl) a e)
    simp only [foldP] at hrec
    rw [hrec.1, hrec.2]
    by_cases hs : e ∈ a.seen
    · simp [stepP, admitPiece, pnPolicy, hs, dn]
    · by_cases hneg : isNegative fl e = true
      · simp [stepP, admitPiece, pnPolicy, hs, dn, hneg]
      · simp [stepP, admitPiece, pnPolicy, hs, dn, hneg]

end WcModel.Compile

import WcModel.Properties.C20
import WcModel.Proofs.Split
import WcModel.Proofs.ListSem
import WcModel.Model.Escape
import WcModel.Model.Match
import WcModel.Model.FnFlags
import WcModel.Properties.C09path
/-
  `escape(s)` through the list layer (everything that happens to a pattern BEFORE the parser):

    (a) `norm_escape`     — `util.norm_pattern` (RAWCHARS decoder / Windows `\/` normaliser) returns
                            `escape(s)` unchanged, for every string and EVERY normaliser
                            configuration (str / bytes, RAWCHARS on / off, Windows normalisation on /
                            off, any `unicodedata.lookup`);
    (b) `wcSplit_escape`  — `WcSplit(escape(s), flags).split()` is the single piece `escape(s)` for
                            every splitter configuration (EXTMATCH, path mode, Windows rules);
    (c) `isNegative_escape`, `tildePos_escape`, `expandTilde_escape` — `escape(s)` is never read as
                            an exclusion pattern and never as a `~user` pattern;
    (d) `compilePattern_escape` / `wcCompile_escape` — the list loop `compile_pattern` run on the
                            singleton list `[escape(s)]` with any flag record and any limit is one
                            call of the per-pattern compiler on `escape(s)` itself.  The only
                            external hypothesis is the `keep_escapes` contract of `bracex` on this
                            one text: `brace (escape s) limit = [escape s]`.

  The API models of `fnmatch.fnmatch` / `glob.globmatch` (`fnmatchApi`, `globmatchApi`) are
  defined here on top of the K4-tied list loop `Compile.compilePattern`, with the modelled
  components plugged in (`Norm.normPattern`, `Split.wcSplit`, `compileOne` = `_compile`) and the
  un-modelled ones as a parameter record (`World`: `unicodedata.lookup`, `bracex.iexpand`, the
  body of `expand_tilde` once `tilde_pos` has found a tilde).
-/
namespace WcModel.EscapeList
open WcModel.Norm WcModel.RawChars

/-! ### (a) the normaliser -/

/-- the RAWCHARS token of one character of `s` in `escape(s)` -/
def ntok (c : Char) : Tok :=
  if c = '\\' then .bsbs else if c ∈ magicEscapeChars then .other c else .plain c

theorem ntok_print (c : Char) : (ntok c).print = escapeChar c := by
  unfold ntok escapeChar
  by_cases h1 : c = '\\'
  · simp [h1, Tok.print]
  · by_cases h2 : c ∈ magicEscapeChars
    · simp [h1, h2, Tok.print]
    · simp [h1, h2, Tok.print]

/-- `escape(s)` is the printed form of a token list made of `\\`, `\c` (c magic) and plain chars -/
theorem escape_tokens (s : List Char) : escapeUnix s = (s.map ntok).flatMap Tok.print := by
  induction s with
  | nil => rfl
  | cons c cs ih =>
    simp only [escapeUnix, List.flatMap_cons, List.map_cons] at ih ⊢
    rw [← ih, ntok_print]

/-- facts about the twelve characters `escape` puts a backslash before -/
theorem magic_facts (c : Char) (h : c ∈ magicEscapeChars) :
    c ∉ simpleSet ∧ isOct c = false ∧ c ≠ 'x' ∧ c ≠ 'N' ∧ c ≠ 'U' ∧ c ≠ 'u' ∧ c ≠ '/' ∧ c ≠ '\\' := by
  simp only [magicEscapeChars, List.mem_cons, List.not_mem_nil, or_false] at h
  rcases h with rfl | rfl | rfl | rfl | rfl | rfl | rfl | rfl | rfl | rfl | rfl | rfl <;> decide

theorem ntok_wf (b : Bool) (c : Char) : (ntok c).WF b := by
  unfold ntok
  by_cases h1 : c = '\\'
  · simp [h1, Tok.WF]
  · by_cases h2 : c ∈ magicEscapeChars
    · obtain ⟨a1, a2, a3, a4, a5, a6, _, _⟩ := magic_facts c h2
      simp only [h1, h2, if_false, if_true, Tok.WF]
      exact ⟨a1, a2, a3, Or.inr ⟨a4, a5, a6⟩⟩
    · simp [h1, h2, Tok.WF]

theorem ntok_adj (cfg : Norm.Cfg) (c : Char) (rest : List Char) : adjOK cfg (ntok c) rest := by
  unfold ntok
  by_cases h1 : c = '\\'
  · simp [h1, adjOK]
  · by_cases h2 : c ∈ magicEscapeChars
    · simp [h1, h2, adjOK]
    · simp [h1, h2, adjOK]

theorem ntoks_adjacent (cfg : Norm.Cfg) (s : List Char) : Adjacent cfg (s.map ntok) := by
  induction s with
  | nil => exact trivial
  | cons c cs ih => exact ⟨ntok_adj cfg c _, ih⟩

theorem ntok_denote (cfg : Norm.Cfg) (c : Char) : (ntok c).denote cfg = .ok (ntok c).print := by
  unfold ntok
  by_cases h1 : c = '\\'
  · simp [h1, Tok.denote, Tok.print]
  · by_cases h2 : c ∈ magicEscapeChars
    · have := (magic_facts c h2).2.2.2.2.2.2.1
      simp [h1, h2, Tok.denote, Tok.print, this]
    · simp [h1, h2, Tok.denote, Tok.print]

theorem ntoks_denoteAll (cfg : Norm.Cfg) (s : List Char) :
    denoteAll cfg (s.map ntok) = .ok ((s.map ntok).flatMap Tok.print) := by
  induction s with
  | nil => rfl
  | cons c cs ih => simp only [List.map_cons, denoteAll, ntok_denote, ih, List.flatMap_cons]

/-- **(a)** `norm_pattern(escape(s), normalize, is_raw_chars)` is `escape(s)` — every string, every
    configuration of the normaliser: every backslash of `escape(s)` starts `\\` (kept by the
    `simple` alternative, and RAWCHARS maps `\\` to `\\`) or `\c` with `c` one of the twelve magic
    characters, none of which is `/`, a letter of `abfnrtv`, an octal digit, or one of `x u U N`. -/
theorem norm_escape (cfg : Norm.Cfg) (s : List Char) : normPattern cfg (escapeUnix s) = .ok (escapeUnix s) := by
  by_cases hon : cfg.raw = true ∨ cfg.normalize = true
  · rw [escape_tokens, C20.norm_tokens cfg _ (fun t ht => by
      obtain ⟨c, _, rfl⟩ := List.mem_map.mp ht
      exact ntok_wf _ c) (ntoks_adjacent cfg s) hon, ntoks_denoteAll]
  · have hr : cfg.raw = false := by cases h : cfg.raw <;> simp_all
    have hn : cfg.normalize = false := by cases h : cfg.normalize <;> simp_all
    exact C20.norm_off_identity cfg _ hr hn

/-! ### (b) the splitter -/

/-- the head of `escape(s)` is never `(` (so an unescaped `+` / `@` before it opens no group) -/
theorem escape_head_ne_paren (s : List Char) : (escapeUnix s).head? ≠ some '(' := by
  cases s with
  | nil => simp [escapeUnix]
  | cons c r =>
    simp only [escapeUnix, List.flatMap_cons, escapeChar]
    by_cases h1 : c = '\\'
    · simp [h1]
    · by_cases h2 : c ∈ magicEscapeChars
      · simp [h1, h2]
      · have : c ≠ '(' := fun e => h2 (by subst e; decide)
        simp [h1, h2, this]

theorem parseExtend_no_paren (cfg : Split.Cfg) (fuel : Nat) (r : List Char) (h : r.head? ≠ some '(') :
    (Split.parseExtend cfg fuel r).1 = false ∧ (Split.parseExtend cfg fuel r).2 = r := by
  cases fuel with
  | zero => simp [Split.parseExtend]
  | succ f =>
    cases r with
    | nil => simp [Split.parseExtend]
    | cons d r' =>
      have hd : d ≠ '(' := by simpa using h
      simp [Split.parseExtend, hd]

/-- one step over an escaped pair `\x` -/
theorem step_escaped (cfg : Split.Cfg) (f : Nat) (x : Char) (r cur : List Char) :
    Split.mainLoop cfg (f + 1) ('\\' :: x :: r) cur = Split.mainLoop cfg f r (x :: '\\' :: cur) := by
  have hrefs : Split.references cfg false (x :: r) = some r := by
    simp [Split.references]
  have hx : '\\' ∉ Split.extTypes := by decide
  simp [Split.mainLoop, hx, Split.adv, Split.consumed, hrefs]

/-- one step over an ordinary character followed by something that does not start with `(` -/
theorem step_ordinary (cfg : Split.Cfg) (f : Nat) (c : Char) (r cur : List Char)
    (h1 : c ≠ '\\') (h2 : c ≠ '|') (h3 : c ≠ '[') (hr : r.head? ≠ some '(') :
    Split.mainLoop cfg (f + 1) (c :: r) cur = Split.mainLoop cfg f r (c :: cur) := by
  obtain ⟨p1, p2⟩ := parseExtend_no_paren cfg (r.length + 1) r hr
  by_cases hext : cfg.extend = true ∧ c ∈ Split.extTypes
  · cases hp : Split.parseExtend cfg (r.length + 1) r with
    | mk b r2 =>
      rw [hp] at p1 p2
      simp only at p1 p2
      subst p1; subst p2
      simp [Split.mainLoop, h1, h2, h3, hext, hp, Split.adv, Split.consumed]
  · simp [Split.mainLoop, h1, h2, h3, hext, Split.adv, Split.consumed]

theorem mainLoop_escape (cfg : Split.Cfg) (s : List Char) (f : Nat) (cur : List Char) :
    Split.mainLoop cfg f (escapeUnix s) cur = [cur.reverse ++ escapeUnix s] := by
  induction s generalizing f cur with
  | nil => cases f <;> simp [escapeUnix, Split.mainLoop]
  | cons c cs ih =>
    cases f with
    | zero => simp [Split.mainLoop]
    | succ f =>
      have hcons : escapeUnix (c :: cs) = escapeChar c ++ escapeUnix cs := by
        simp [escapeUnix]
      rw [hcons]
      unfold escapeChar
      by_cases h1 : c = '\\'
      · simp only [h1, if_true, List.cons_append, List.nil_append]
        rw [step_escaped, ih]; simp
      · by_cases h2 : c ∈ magicEscapeChars
        · simp only [h1, h2, if_false, if_true, List.cons_append, List.nil_append]
          rw [step_escaped, ih]; simp
        · simp only [h1, h2, if_false, List.cons_append, List.nil_append]
          have hb : c ≠ '|' := fun e => h2 (by subst e; decide)
          have hk : c ≠ '[' := fun e => h2 (by subst e; decide)
          rw [step_ordinary cfg f c _ cur h1 hb hk (escape_head_ne_paren cs), ih]; simp

/-- **(b)** `WcSplit(escape(s), flags).split() == [escape(s)]` — every string, every splitter
    configuration: an escaped `|` is skipped with its backslash (`_references`), `[`, `(` and the
    group types `* ? !` are escaped, and an unescaped `+` / `@` is never followed by `(`. -/
theorem wcSplit_escape (cfg : Split.Cfg) (s : List Char) : Split.wcSplit cfg (escapeUnix s) = [escapeUnix s] := by
  unfold Split.wcSplit
  rw [mainLoop_escape]; simp

/-! ### (c) sign and tilde -/

/-- the head of `escape(s)` is a backslash or a character `escape` leaves alone -/
theorem escape_head_ne (s : List Char) (x : Char) (hx : x ∈ magicEscapeChars) :
    (escapeUnix s).head? ≠ some x := by
  have hb : x ≠ '\\' := (magic_facts x hx).2.2.2.2.2.2.2
  exact C09path.escapeUnix_head_ne s x hx hb

/-- **(c1)** `is_negative(escape(s), flags)` is False for every flag record (the list-loop copy of
    `is_negative`; `C09path.isNegative_escape` is the same fact for the walker's copy) -/
theorem isNegative_escape (fl : Flags) (s : List Char) : Compile.isNegative fl (escapeUnix s) = false := by
  have h1 : ((escapeUnix s).head? == some '-') = false := by
    simpa using escape_head_ne s '-' (by decide)
  have h2 : ((escapeUnix s).head? == some '!') = false := by
    simpa using escape_head_ne s '!' (by decide)
  unfold Compile.isNegative
  simp [h1, h2]

/-- `_wcparse.tilde_pos(pattern, flags)` (`none` = -1).  `NEGATIVE_SYM` is `!` whatever MINUSNEGATE
    says (the code tests `pattern[0:1] in NEGATIVE_SYM`). -/
def tildePos (fl : Flags) (p : List Char) : Option Nat :=
  if fl.globtilde && fl.realpath then
    if fl.negate then
      if p.head? == some '~' then some 0
      else if p.head? == some '!' && p.tail.head? == some '~' then some 1
      else none
    else if p.head? == some '~' then some 0 else none
  else none

/-- **(c2)** `tilde_pos(escape(s), flags) == -1` for every flag record -/
theorem tildePos_escape (fl : Flags) (s : List Char) : tildePos fl (escapeUnix s) = none := by
  have h1 : ((escapeUnix s).head? == some '~') = false := by
    simpa using escape_head_ne s '~' (by decide)
  have h2 : ((escapeUnix s).head? == some '!') = false := by
    simpa using escape_head_ne s '!' (by decide)
  unfold tildePos
  simp [h1, h2]

/-! ### (d) the list loop on `[escape(s)]` -/

/-- The list loop `compile_pattern` on a ONE-pattern list whose pattern passes the four pre-parser
    stages unchanged and is not negative: one call of the per-pattern compiler, one pull, no limit
    error for any `limit` (`0 < limit < 1` is impossible), NEGATEALL idle, NODIR appended. -/
theorem compilePattern_single {R : Type} (x : Compile.Ext R) (fl : Flags) (L : Int) (p : Compile.Pat)
    (hnorm : x.norm fl p = .ok p)
    (hbrace : fl.brace = true → x.brace p L = ⟨[p], false⟩)
    (hsplit : fl.split = true → x.split fl p = [p])
    (htilde : x.tilde fl p = p)
    (hneg : Compile.isNegative fl p = false) :
    Compile.compilePattern x fl L [p] none =
      .ok ⟨[x.parse fl p], if fl.nodir then [x.noDir (isUnixStyle fl)] else [], 1⟩ := by
  have hexp : Compile.expand x fl p L = ([[p]], false) := by
    unfold Compile.expand Compile.expandBraces Compile.splitItem
    by_cases hb : fl.brace = true
    · by_cases hs : fl.split = true
      · simp [hb, hs, hbrace hb, hsplit hs, htilde]
      · simp [hb, hs, hbrace hb, htilde]
    · by_cases hs : fl.split = true
      · simp [hb, hs, hsplit hs, htilde]
      · simp [hb, hs, htilde]
  have hlim : ¬ (0 < L ∧ L < ((0 + 1 : Nat) : Int)) := by omega
  unfold Compile.compilePattern Compile.compileCore
  simp only [Compile.startLimit_zero, Compile.runPatterns, hnorm, hexp, Compile.runItems, Compile.runPieces, hlim, if_false,
    Compile.admitPiece, Compile.pnPolicy, hneg, List.not_mem_nil, if_true, Bool.false_eq_true,
    List.nil_append, Compile.finishPN, List.isEmpty_nil, List.isEmpty_cons, Bool.not_true, Bool.false_and,
    Bool.not_false, Bool.true_and]

/-- The list loop on a ONE-pattern list whose brace stage yields NOTHING (what the real
    `bracex.iexpand("", keep_escapes=True)` does for the empty text): no pattern at all. -/
theorem compilePattern_no_items {R : Type} (x : Compile.Ext R) (fl : Flags) (L : Int) (p : Compile.Pat)
    (hnorm : x.norm fl p = .ok p) (hb : fl.brace = true) (hbrace : x.brace p L = ⟨[], false⟩) :
    Compile.compilePattern x fl L [p] none = .ok ⟨[], [], 0⟩ := by
  have hexp : Compile.expand x fl p L = ([], false) := by
    unfold Compile.expand Compile.expandBraces
    simp [hb, hbrace]
  unfold Compile.compilePattern Compile.compileCore
  simp only [Compile.startLimit_zero, Compile.runPatterns, hnorm, hexp, Compile.runItems, Bool.false_eq_true, if_false,
    Compile.finishPN, List.isEmpty_nil, Bool.not_true, Bool.false_and, if_false]

/-- The components of the list layer that are NOT modelled (supplied from outside). -/
structure World where
  /-- `unicodedata.lookup` (`none` = KeyError), read by RAWCHARS for `\N{…}` -/
  lookup : List Char → Option Char := fun _ => none
  /-- `bracex.iexpand(p, keep_escapes=True, limit=l)` iterated to its end -/
  brace : Compile.Pat → Int → Compile.BraceOut
  /-- the body of `expand_tilde` once `tilde_pos` has found a tilde (`os.path.expanduser`,
      `os.path.exists`, `escape` of the expansion) -/
  home : Flags → Compile.Pat → Compile.Pat

/-- `_wcparse.expand_tilde(pattern, is_unix, flags)` -/
def expandTilde (w : World) (fl : Flags) (p : Compile.Pat) : Compile.Pat :=
  match tildePos fl p with
  | none => p
  | some _ => w.home fl p

/-- **(c3)** `expand_tilde(escape(s), …) == escape(s)` -/
theorem expandTilde_escape (w : World) (fl : Flags) (s : List Char) :
    expandTilde w fl (escapeUnix s) = escapeUnix s := by
  unfold expandTilde; rw [tildePos_escape]

/-- the configuration `compile_pattern` hands to `util.norm_pattern`:
    `norm_pattern(pattern, not is_unix, bool(flags & RAWCHARS))` -/
def normCfg (isBytes : Bool) (w : World) (fl : Flags) : Norm.Cfg :=
  { isBytes := isBytes, normalize := !isUnixStyle fl, raw := fl.rawchars, lookup := w.lookup }

/-- The external world of the list loop with every modelled component plugged in:
    `Norm.normPattern`, `Split.wcSplit`, `tilde_pos`, and `_compile(pattern, flags)` =
    `WcParse(pattern, flags & FLAG_MASK).parse()` on the faithful port (`compilePart`; for a flag
    word `n`, `compilePart (Flags.ofNat n)` is `compileOne n`, see `compileOne_eq`).  A compiled
    pattern is `Except SplitErr Re` (`error` = the per-pattern compiler raised). -/
def apiExt (isBytes : Bool) (w : World) : Compile.Ext (Except SplitErr Re) where
  norm := fun fl p => Norm.normPattern (normCfg isBytes w fl) p
  brace := w.brace
  split := fun fl e => Split.wcSplit (Split.Cfg.ofFlags fl) e
  tilde := expandTilde w
  parse := fun fl p => compilePart fl isBytes p
  noDir := fun unix => .ok (if unix then Frag.noNixDir else Frag.noWinDir)

/-- **(d1)** the list loop with the real normaliser / splitter / sign test / tilde test, on
    `[escape(s)]`: every flag record, every limit, every string.  `hbrace` is the contract of the
    one un-modelled stage that sees the text (bracex with `keep_escapes=True` leaves a text in
    which every `{`, `}` and `\` is escaped alone). -/
theorem compilePattern_escape (isBytes : Bool) (w : World) (fl : Flags) (L : Int) (s : List Char)
    (hbrace : fl.brace = true → w.brace (escapeUnix s) L = ⟨[escapeUnix s], false⟩) :
    Compile.compilePattern (apiExt isBytes w) fl L [escapeUnix s] none =
      .ok ⟨[compilePart fl isBytes (escapeUnix s)],
           if fl.nodir then [.ok (if isUnixStyle fl then Frag.noNixDir else Frag.noWinDir)] else [], 1⟩ :=
  compilePattern_single (apiExt isBytes w) fl L (escapeUnix s)
    (norm_escape _ s) hbrace (fun _ => wcSplit_escape _ s) (expandTilde_escape w fl s) (isNegative_escape fl s)

/-! ### the API models -/

inductive ApiErr
  | list (e : Compile.Err)       -- PatternLimitException, or an exception of `norm_pattern`
  | compile (e : SplitErr)       -- the per-pattern compiler raised (ValueError / re.error)
  deriving DecidableEq, Repr

/-- all compiled, or the first failure -/
def seqE : List (Except SplitErr Re) → Except SplitErr (List Re)
  | [] => .ok []
  | .error e :: _ => .error e
  | .ok r :: rest =>
    match seqE rest with
    | .ok l => .ok (r :: l)
    | .error e => .error e

/-- `_wcparse.compile(patterns, flags, limit, exclude)` → `WcRegexp` (which exception wins when
    several apply is not modelled: the theorems below are about successful calls) -/
def wcCompile (isBytes : Bool) (w : World) (flags : Nat) (limit : Int) (pats : List Compile.Pat)
    (excl : Option (List Compile.Pat)) : Except ApiErr MatchObj :=
  match Compile.compilePattern (apiExt isBytes w) (Flags.ofNat flags) limit pats excl with
  | .error (e, _) => .error (.list e)
  | .ok o =>
    match seqE o.pos, seqE o.neg with
    | .ok pos, .ok neg =>
      .ok { incl := pos, excl := neg, real := hasBit flags Gen.FREALPATH,
            follow := hasBit flags Gen.FFOLLOW && !hasBit flags Gen.FGLOBSTARLONG }
    | .error e, _ => .error (.compile e)
    | _, .error e => .error (.compile e)

/-- `fnmatch.fnmatch(name, patterns, flags=uf, limit=limit, exclude=excl)`
    (`fs` is never consulted: `fnmatch.FLAG_MASK` drops REALPATH, see `fnmatchApi_not_real`) -/
def fnmatchApi (isBytes : Bool) (w : World) (uf : Nat) (limit : Int) (pats : List Compile.Pat)
    (excl : Option (List Compile.Pat)) (fs : FS) (name : List Char) : Except ApiErr Bool :=
  match wcCompile isBytes w (fnFlagTransform uf) limit pats excl with
  | .error e => .error e
  | .ok o => .ok (matchReal fs o name)

/-- `glob.globmatch(name, patterns, flags=uf, limit=limit, exclude=excl)` on a POSIX host, with
    the file system `fs` (read under REALPATH only) -/
def globmatchApi (isBytes : Bool) (w : World) (uf : Nat) (limit : Int) (pats : List Compile.Pat)
    (excl : Option (List Compile.Pat)) (fs : FS) (name : List Char) : Except ApiErr Bool :=
  match wcCompile isBytes w (globFlagTransform uf) limit pats excl with
  | .error e => .error e
  | .ok o => .ok (matchReal fs o name)

/-! ### `[escape(s)]` through the API models -/

theorem hasBit_mask (n m v : Nat) (h : m &&& v = v) : hasBit (n &&& m) v = hasBit n v := by
  unfold hasBit
  show ((n &&& m) &&& v != 0) = (n &&& v != 0)
  rw [Nat.and_assoc, h]

/-- `_wcparse.FLAG_MASK` contains every bit the flag record reads -/
theorem ofNat_parseMask (n : Nat) : Flags.ofNat (n &&& Gen.parseFlagMask) = Flags.ofNat n := by
  unfold Flags.ofNat
  congr 1 <;> exact hasBit_mask _ _ _ (by decide)

/-- `_compile(p, n)` of the matcher model (`Model/Match.lean`) is the loop's `parse` -/
theorem compileOne_eq (n : Nat) (isBytes : Bool) (p : List Char) :
    compileOne n isBytes p = compilePart (Flags.ofNat n) isBytes p := by
  unfold compileOne; rw [ofNat_parseMask]

/-- the `WcRegexp` built from one compiled inclusion pattern under the flag word `flags` -/
def singleObj (flags : Nat) (r : Re) : MatchObj :=
  { incl := [r],
    excl := if hasBit flags Gen.FNODIR then
        [if isUnixStyle (Flags.ofNat flags) then Frag.noNixDir else Frag.noWinDir] else [],
    real := hasBit flags Gen.FREALPATH,
    follow := hasBit flags Gen.FFOLLOW && !hasBit flags Gen.FGLOBSTARLONG }

/-- **(d2)** `_wcparse.compile([escape(s)], flags, limit)` for EVERY flag word (any platform
    rules, MATCHBASE, NODIR, REALPATH, … included), every limit, every string: the pre-parser
    stages vanish; what is left is `_compile(escape(s), flags)`. -/
theorem wcCompile_escape (isBytes : Bool) (w : World) (flags : Nat) (L : Int) (s : List Char)
    (hbrace : hasBit flags Gen.FBRACE = true → w.brace (escapeUnix s) L = ⟨[escapeUnix s], false⟩) :
    wcCompile isBytes w flags L [escapeUnix s] none =
      match compileOne flags isBytes (escapeUnix s) with
      | .error e => .error (.compile e)
      | .ok r => .ok (singleObj flags r) := by
  unfold wcCompile
  rw [compilePattern_escape isBytes w (Flags.ofNat flags) L s hbrace, compileOne_eq]
  simp only
  cases hc : compilePart (Flags.ofNat flags) isBytes (escapeUnix s) with
  | error e => simp [seqE]
  | ok r =>
    have hnd : (Flags.ofNat flags).nodir = hasBit flags Gen.FNODIR := rfl
    cases hn : hasBit flags Gen.FNODIR <;> simp [seqE, singleObj, hnd, hn]

/-- the same single-pattern shape for the matcher model of `Model/Match.lean`, which starts from
    an already expanded list -/
theorem compileMatch_single (uf : Nat) (isBytes : Bool) (e : List Char)
    (hneg : isNegative (Flags.ofNat (globFlagTransform uf)) e = false) :
    compileMatch uf isBytes [e] none =
      match compileOne (globFlagTransform uf) isBytes e with
      | .error x => .error x
      | .ok r => .ok (singleObj (globFlagTransform uf) r) := by
  unfold compileMatch WcModel.compilePattern
  simp only [Option.isSome_none, Bool.false_eq_true, if_false, compileSeq, List.not_mem_nil, hneg]
  cases hc : compileOne (globFlagTransform uf) isBytes e with
  | error x => rfl
  | ok r =>
    simp only [List.nil_append, List.isEmpty_nil, Bool.not_true, Bool.false_and,
      Bool.false_eq_true, if_false, List.isEmpty_cons, Bool.not_false, Bool.true_and, singleObj]

/-- **(d3)** the entry point `glob.globmatch` with the whole list layer in front
    (`wcCompile`, over the K4-tied loop) and the matcher model that the earlier C09 / C04 theorems
    start from (`compileMatch` on the expanded list `[escape(s)]`) build the same `WcRegexp` — for
    every user flag word. -/
theorem wcCompile_escape_eq_compileMatch (isBytes : Bool) (w : World) (uf : Nat) (L : Int) (s : List Char)
    (hbrace : hasBit (globFlagTransform uf) Gen.FBRACE = true → w.brace (escapeUnix s) L = ⟨[escapeUnix s], false⟩) :
    wcCompile isBytes w (globFlagTransform uf) L [escapeUnix s] none =
      match compileMatch uf isBytes [escapeUnix s] none with
      | .error e => .error (.compile e)
      | .ok o => .ok o := by
  rw [wcCompile_escape isBytes w _ L s hbrace, compileMatch_single uf isBytes _ (C09path.isNegative_escape _ s)]
  cases compileOne (globFlagTransform uf) isBytes (escapeUnix s) <;> rfl

end WcModel.EscapeList

import WcModel.Proofs.GlobFuel
/-
  C06, trace half: during the expansion of a `**` (one call of `globDir … deep := true`)
  without FOLLOW / `***`, every directory that is listed is reached from the directory the
  expansion started in through entries that are **not symbolic links** (and not hidden):
  the positions of the display path matched by `**` contain no link.
-/
namespace WcModel

/-- `DeepReach fs dot c rp p q`: the display path `p` (real path `q`) is `c` (real path `rp`)
    extended by names of entries that are not links and not hidden, each found in the
    directory reached so far. -/
inductive DeepReach (fs : FS) (dot : Bool) (c : List Char) (rp : RPath) : List Char → RPath → Prop
  | refl : DeepReach fs dot c rp c rp
  | step {p : List Char} {q : RPath} {es : List (Name × Node)} {n : Name} {x : Node} :
      DeepReach fs dot c rp p q → fs.top.get q = some (.dir es) → (n, x) ∈ es →
      x.isLinkNode = false → isHidden dot n = false →
      DeepReach fs dot c rp (pjoin p n) (q ++ [n])

theorem globDir_trace_aux (w : WalkCfg) (fs : FS) (absPat : Bool) (m : Matcher) (dirOnly deep : Bool)
    (hw : w.followLinks = false) (c : List Char) (rp : RPath) :
    ∀ (f : Nat) (cur : List Char) (q : RPath) (p : List Char),
      DeepReach fs w.dot c rp cur q →
      Ev.scan p ∈ globDir w fs absPat m dirOnly deep false f cur (some q) →
      ∃ q', DeepReach fs w.dot c rp p q' := by
  intro f
  induction f with
  | zero => intro cur q p _ h; simp [globDir] at h
  | succ f ih =>
    intro cur q p hr h
    simp only [globDir] at h
    rcases List.mem_cons.1 h with h | h
    · cases h; exact ⟨q, hr⟩
    · obtain ⟨e, he, hin⟩ := List.mem_flatMap.1 h
      cases hs : e.special with
      | true =>
        simp only [hs, if_true] at hin
        split at hin <;> simp at hin
      | false =>
        simp only [hs, Bool.false_eq_true, if_false] at hin
        rcases List.mem_append.1 hin with hin | hin
        · split at hin <;> simp at hin
        · by_cases hc : (deep && !e.hidden && e.isDir && (!e.isLink || w.followLinks || false)) = true
          · simp only [hc, if_true] at hin
            obtain ⟨ds, d, hsc, hd, hn, hdir, hlnk, hloc, hhid⟩ := iterDir_real he hs
            simp only [hw, Bool.or_false, Bool.and_eq_true, Bool.not_eq_true'] at hc
            obtain ⟨⟨⟨_, hnh⟩, hisdir⟩, hnl⟩ := hc
            obtain ⟨rp', es0, hl0, hg0, _⟩ := FS.scandir_some hsc
            cases hl0
            obtain ⟨hl, _, _, _, es, x, hg, hx, hxl⟩ :=
              FS.scandir_real_child hg0 hsc hd (hdir ▸ hisdir) (hlnk ▸ hnl)
            rw [hloc, hl, ← hn] at hin
            rw [← hn] at hx
            refine ih _ _ _ (DeepReach.step hr hg hx hxl ?_) hin
            rw [← hn] at hhid
            rw [← hhid]; exact hnh
          · simp only [hc] at hin
            cases hin

/-- **C06 trace invariant.**  Every `os.scandir` made while `**` is being expanded from the
    directory `curdir` (no FOLLOW, not `***`) lists a directory reached from `curdir` through
    non-link, non-hidden entries only. -/
theorem globDir_trace (w : WalkCfg) (fs : FS) (absPat : Bool) (m : Matcher) (dirOnly : Bool)
    (hw : w.followLinks = false) (f : Nat) (curdir : List Char) (rp : RPath) (p : List Char)
    (h : Ev.scan p ∈ globDir w fs absPat m dirOnly true false f curdir (some rp)) :
    ∃ q, DeepReach fs w.dot curdir rp p q :=
  globDir_trace_aux w fs absPat m dirOnly true hw curdir rp f curdir rp p DeepReach.refl h

/-- from a path that does not resolve, only the attempt on that path itself is made -/
theorem globDir_trace_none (w : WalkCfg) (fs : FS) (absPat : Bool) (m : Matcher) (dirOnly deep gf : Bool)
    (f : Nat) (curdir p : List Char)
    (h : Ev.scan p ∈ globDir w fs absPat m dirOnly deep gf f curdir none) : p = curdir := by
  cases f with
  | zero => simp [globDir] at h
  | succ f =>
    simp only [globDir] at h
    rcases List.mem_cons.1 h with h | h
    · cases h; rfl
    · obtain ⟨e, he, hin⟩ := List.mem_flatMap.1 h
      cases hs : e.special with
      | true =>
        simp only [hs, if_true] at hin
        split at hin <;> simp at hin
      | false =>
        obtain ⟨ds, d, hsc, _⟩ := iterDir_real he hs
        simp [FS.scandir] at hsc

/-- a written link *is* followed: the entry a link leads to is the link's resolved target -/
theorem written_link_followed (rp : RPath) (n : Name) (t : Option RPath) :
    childLoc rp n (.link t) = t := rfl

end WcModel

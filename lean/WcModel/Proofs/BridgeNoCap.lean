import WcModel.Proofs.PassPrintPath
import WcModel.Properties.C04cap
/-
  C04 bridge, part 7: a globstar-free printed path pattern compiles (no TRANSLATE) to a regex
  WITHOUT capture group — so `_fs_match` has nothing to link-test and is the regex itself
  (`C04cap.fsMatch_nocap_iff`).

  `Item.plainB`: an item tree without negation whose stored regexes have no group and whose
  extended groups are not capture-decorated; `toRe_plain`: such a list converts to a regex with
  `ncaps = 0`; `segItems_plain`: the items of a globstar-free printed pattern are of that kind.
-/
namespace WcModel.Bridge
open PP PPP

mutual
def plainB : Item → Bool
  | .re r => r.ncaps == 0
  | .empty => true
  | .bar => true
  | .group _ c body => (c != .yes) && plainBL body
  | _ => false
def plainBL : List Item → Bool
  | [] => true
  | x :: xs => plainB x && plainBL xs
end

theorem plainBL_iff : ∀ xs : List Item, plainBL xs = true ↔ ∀ x ∈ xs, plainB x = true := by
  intro xs
  induction xs with
  | nil => simp [plainBL]
  | cons x r ih => simp [plainBL, ih]

theorem plainBL_append (a b : List Item) : plainBL (a ++ b) = (plainBL a && plainBL b) := by
  induction a with
  | nil => simp [plainBL]
  | cons x r ih => simp [plainBL, ih, Bool.and_assoc]

theorem splitBars_sub : ∀ (xs : List Item), ∀ part ∈ splitBars xs, ∀ x ∈ part, x ∈ xs := by
  intro xs
  induction xs with
  | nil => intro part hp x hx; simp [splitBars] at hp; subst hp; cases hx
  | cons y r ih =>
    intro part hp x hx
    by_cases hy : HF.isBar y = true
    · cases y <;> simp [HF.isBar] at hy
      simp only [splitBars, List.mem_cons] at hp
      rcases hp with rfl | hp
      · cases hx
      · exact List.mem_cons_of_mem _ (ih part hp x hx)
    · obtain ⟨a, as, hs, he⟩ := HF.splitBars_cons_nonbar y (by simpa using hy) r
      rw [he] at hp
      simp only [List.mem_cons] at hp
      rcases hp with rfl | hp
      · rcases List.mem_cons.1 hx with rfl | hx
        · exact List.mem_cons_self
        · exact List.mem_cons_of_mem _ (ih a (by rw [hs]; exact List.mem_cons_self) x hx)
      · exact List.mem_cons_of_mem _ (ih part (by rw [hs]; exact List.mem_cons_of_mem _ hp) x hx)

theorem ncaps_altOfList : ∀ l : List Re, (∀ r ∈ l, r.ncaps = 0) → (altOfList l).ncaps = 0
  | [], _ => rfl
  | [r], h => h r (by simp)
  | r :: s :: rs, h => by
    simp only [altOfList, Re.ncaps]
    rw [h r (by simp), ncaps_altOfList (s :: rs) (fun x hx => h x (List.mem_cons_of_mem _ hx))]

theorem ncaps_quant (k : GKind) (c : Capt) (inner : Re) (hc : c ≠ .yes) (hi : inner.ncaps = 0) :
    (quant k c inner).ncaps = 0 := by
  cases k <;> cases c <;> simp_all [quant, Re.ncaps]

theorem mapM_all {α β : Type} (g : α → Option β) (P : β → Prop) : ∀ (l : List α) (ys : List β),
    (∀ a ∈ l, ∀ b, g a = some b → P b) → l.mapM g = some ys → ∀ y ∈ ys, P y := by
  intro l
  induction l with
  | nil => intro ys _ h y hy; simp at h; subst h; cases hy
  | cons a r ih =>
    intro ys hP h y hy
    rw [List.mapM_cons] at h
    cases h1 : g a with
    | none => simp [h1] at h
    | some b =>
      cases h2 : r.mapM g with
      | none => simp [h1, h2] at h
      | some bs =>
        simp [h1, h2] at h
        subst h
        rcases List.mem_cons.1 hy with rfl | hy
        · exact hP a List.mem_cons_self _ h1
        · exact ih bs (fun a' ha' => hP a' (List.mem_cons_of_mem _ ha')) h2 y hy

/-- a plain item list converts to a regex without capture group -/
theorem toRe_plain : ∀ f : Nat,
    (∀ xs r, plainBL xs = true → Item.seqToRe f xs = some r → r.ncaps = 0) ∧
    (∀ xs r, plainBL xs = true → Item.listToRe f xs = some r → r.ncaps = 0)
  | 0 => by
    refine ⟨fun xs r _ h => ?_, fun xs r _ h => ?_⟩
    · simp [Item.seqToRe] at h
    · simp [Item.listToRe] at h
  | f+1 => by
    have ih := toRe_plain f
    refine ⟨fun xs r hp h => ?_, fun xs r hp h => ?_⟩
    · cases xs with
      | nil => rw [seqToRe_nil h]; rfl
      | cons x rest =>
        simp only [plainBL, Bool.and_eq_true] at hp
        cases x with
        | re r0 =>
          obtain ⟨f', x', hf, h2, rfl⟩ := seqToRe_re h
          cases hf
          have h0 : r0.ncaps = 0 := by simpa [plainB] using hp.1
          rw [C04cap.ncaps_catE', h0, ih.1 rest x' hp.2 h2]
        | empty =>
          simp only [Item.seqToRe] at h
          exact ih.1 rest r hp.2 h
        | group k c body =>
          obtain ⟨f', b, x', hf, h1, h2, rfl⟩ := seqToRe_group h
          cases hf
          simp only [plainB, Bool.and_eq_true, bne_iff_ne, ne_eq] at hp
          rw [C04cap.ncaps_catE', ncaps_quant k c b hp.1.1 (ih.2 body b hp.1.2 h1), ih.1 rest x' hp.2 h2]
        | bar => simp [Item.seqToRe] at h
        | invOpen c b => simp [plainB] at hp
        | ph s => simp [plainB] at hp
        | closed t e s => simp [plainB] at hp
    · obtain ⟨f', parts, hf, hm, rfl⟩ := listToRe_inv h
      cases hf
      apply ncaps_altOfList
      refine mapM_all (Item.seqToRe f) (fun r => r.ncaps = 0) (splitBars xs) parts ?_ hm
      intro part hpart b hb
      refine ih.1 part b ?_ hb
      rw [plainBL_iff] at hp ⊢
      exact fun x hx => hp x (splitBars_sub xs part hpart x hx)

theorem parsed_plain (p : Parsed) (h : plainBL p.items = true) (r : Re) (hr : p.toRe = some r) :
    r.ncaps = 0 := by
  unfold Parsed.toRe at hr
  cases hi : Item.listToRe (2 * Item.sizeL p.items + 4) p.items with
  | none => rw [hi] at hr; simp at hr
  | some inner =>
    rw [hi] at hr; simp at hr; subst hr
    simp [Re.ncaps, (toRe_plain _).2 p.items inner h hi]

/-! ### the items of a globstar-free printed pattern are plain -/

theorem ncaps_pGuard (dot as : Bool) : (pGuard dot as).ncaps = 0 := by cases dot <;> cases as <;> rfl
theorem ncaps_pStar (dot as : Bool) : (pStar dot as).ncaps = 0 := by cases dot <;> cases as <;> rfl

theorem its_plain (cfg : Cfg) (c : Capt) (hc : c ≠ .yes) : ∀ (g : Pat) (as : Bool),
    plainBL ((pathEmit cfg).its c as g) = true := by
  intro g
  induction g with
  | eps => intro as; rfl
  | lit ch => intro as; simp only [Emit.its, plainBL, plainB, litItem, litRe', Bool.and_true, beq_iff_eq]; split <;> rfl
  | any => intro as; simp [Emit.its, plainBL, plainB, pathEmit, Re.ncaps, ncaps_pGuard, Frag.qmark]
  | star => intro as; simp [Emit.its, plainBL, plainB, pathEmit, ncaps_pStar]
  | cls neg items => intro as; simp [Emit.its, plainBL, plainB, pathEmit, Re.ncaps, ncaps_pGuard, clsRe]
  | seq a b iha ihb => intro as; simp [Emit.its, plainBL_append, iha, ihb]
  | alt a b iha ihb => intro as; simp [Emit.its, plainBL_append, plainBL, plainB, iha, ihb]
  | ext k body ih => intro as; simp [Emit.its, plainBL, plainB, hc, ih]

theorem segItems_plain (cfg : Cfg) (hcap : cfg.capture = false) (tr : Bool) : ∀ (segs : List Seg) (sb : Bool),
    segs.any Seg.isGlob = false → plainBL (segItems cfg tr segs sb) = true := by
  have hc : HF.capOf cfg ≠ .yes := by simp [HF.capOf, hcap]
  intro segs
  induction segs with
  | nil => intro sb _; cases sb <;> simp [segItems, plainBL, plainB, Frag.sepPlus, Frag.sep, Re.ncaps]
  | cons s rest ih =>
    intro sb hg
    simp only [List.any_cons, Bool.or_eq_false_iff] at hg
    cases s with
    | glob => simp [Seg.isGlob] at hg
    | pat g =>
      cases sb <;>
        simp [segItems, plainBL_append, plainBL, plainB, its_plain cfg _ hc, ih _ hg.2, Frag.sepPlus, Frag.sep, Re.ncaps]

end WcModel.Bridge

import WcModel.Model.GlobWalk
import WcModel.Proofs.GlobFS
/-
  C06, termination half.  Without FOLLOW (`w.followLinks = false`) and without `***`
  (`gfollow = false`) the deep walk only ever moves from a directory to a child that is a
  real directory, so its depth is bounded by the height of the tree: for every fuel above
  that height the walker returns the same events and never runs out of fuel.
-/
namespace WcModel

theorem flatMap_congr' {α β : Type} {l : List α} {f g : α → List β} (h : ∀ a ∈ l, f a = g a) :
    l.flatMap f = l.flatMap g := by
  induction l with
  | nil => rfl
  | cons a r ih =>
    simp only [List.flatMap_cons]
    rw [h a List.mem_cons_self, ih (fun b hb => h b (List.mem_cons_of_mem _ hb))]

/-- entries of `iterDir` that are not the fake `.`/`..` come from `scandir` -/
theorem iterDir_real {w : WalkCfg} {fs : FS} {a : Bool} {loc : Loc} {dirOnly : Bool} {e : IEnt}
    (he : e ∈ iterDir w fs a loc dirOnly) (hs : e.special = false) :
    ∃ ds d, fs.scandir loc = some ds ∧ d ∈ ds ∧ e.name = d.name ∧ e.isDir = d.isDir ∧
      e.isLink = d.isLink ∧ e.loc = d.loc ∧ e.hidden = isHidden w.dot d.name := by
  unfold iterDir at he
  cases hsc : fs.scandir loc with
  | none =>
    simp only [hsc] at he
    split at he
    · cases he
    · simp at he
      rcases he with rfl | rfl <;> simp at hs
  | some ds =>
    simp only [hsc, List.mem_append, List.mem_map, List.mem_filter] at he
    rcases he with he | ⟨d, ⟨hd, _⟩, rfl⟩
    · simp at he
      rcases he with rfl | rfl <;> simp at hs
    · exact ⟨ds, d, rfl, hd, rfl, rfl, rfl, rfl, rfl⟩

/-- the deep walk below a directory of height `< f₁, f₂` does not depend on the fuel -/
theorem globDir_stable_at (w : WalkCfg) (fs : FS) (absPat : Bool) (m : Matcher) (dirOnly deep : Bool)
    (hw : w.followLinks = false) :
    ∀ (f₁ f₂ : Nat) (curdir : List Char) (rp : RPath) (nd : Node),
      fs.top.get rp = some nd → nd.height < f₁ → nd.height < f₂ →
      globDir w fs absPat m dirOnly deep false f₁ curdir (some rp) =
        globDir w fs absPat m dirOnly deep false f₂ curdir (some rp) := by
  intro f₁
  induction f₁ with
  | zero => intro f₂ c rp nd _ h; omega
  | succ f₁ ih =>
    intro f₂ curdir rp nd hget h₁ h₂
    cases f₂ with
    | zero => omega
    | succ f₂ =>
      simp only [globDir]
      congr 1
      apply flatMap_congr'
      intro e he
      cases hs : e.special with
      | true => simp
      | false =>
        simp only [Bool.false_eq_true, if_false]
        congr 1
        by_cases hc : (deep && !e.hidden && e.isDir && (!e.isLink || w.followLinks || false)) = true
        · simp only [hc, if_true]
          obtain ⟨ds, d, hsc, hd, hn, hdir, hlnk, hloc, _⟩ := iterDir_real he hs
          simp only [hw, Bool.or_false, Bool.and_eq_true, Bool.not_eq_true'] at hc
          obtain ⟨⟨_, hisdir⟩, hnl⟩ := hc
          obtain ⟨hl, c, hgc, hlt, _⟩ :=
            FS.scandir_real_child hget hsc hd (hdir ▸ hisdir) (hlnk ▸ hnl)
          rw [hloc, hl, ← hn]
          rw [← hn] at hgc
          exact ih f₂ _ _ c hgc (by omega) (by omega)
        · simp only [hc]
          rfl

/-- from a location that is not a directory nothing is listed, whatever the fuel -/
theorem globDir_nodir (w : WalkCfg) (fs : FS) (absPat : Bool) (m : Matcher) (dirOnly deep gf : Bool)
    (f₁ f₂ : Nat) (curdir : List Char) (loc : Loc) (h : fs.scandir loc = none) :
    globDir w fs absPat m dirOnly deep gf (f₁ + 1) curdir loc =
      globDir w fs absPat m dirOnly deep gf (f₂ + 1) curdir loc := by
  simp only [globDir]
  congr 1
  apply flatMap_congr'
  intro e he
  cases hs : e.special with
  | true => simp
  | false =>
    obtain ⟨ds, d, hsc, _⟩ := iterDir_real he hs
    rw [h] at hsc; cases hsc

theorem scandir_none_or (fs : FS) (loc : Loc) :
    fs.scandir loc = none ∨ ∃ rp nd, loc = some rp ∧ fs.top.get rp = some nd := by
  cases h : fs.scandir loc with
  | none => exact Or.inl rfl
  | some ds =>
    obtain ⟨rp, es, hl, hg, _⟩ := FS.scandir_some h
    exact Or.inr ⟨rp, _, hl, hg⟩

/-- **fuel stability of the deep walk**: any two fuels above the height of the tree agree -/
theorem globDir_stable (w : WalkCfg) (fs : FS) (absPat : Bool) (m : Matcher) (dirOnly deep : Bool)
    (hw : w.followLinks = false) (f₁ f₂ : Nat) (h₁ : fs.top.height < f₁) (h₂ : fs.top.height < f₂)
    (curdir : List Char) (loc : Loc) :
    globDir w fs absPat m dirOnly deep false f₁ curdir loc =
      globDir w fs absPat m dirOnly deep false f₂ curdir loc := by
  rcases scandir_none_or fs loc with h | ⟨rp, nd, rfl, hg⟩
  · cases f₁ with
    | zero => omega
    | succ f₁ =>
      cases f₂ with
      | zero => omega
      | succ f₂ => exact globDir_nodir w fs absPat m dirOnly deep false f₁ f₂ curdir loc h
  · have := Node.height_get_le hg
    exact globDir_stable_at w fs absPat m dirOnly deep hw f₁ f₂ curdir rp nd hg (by omega) (by omega)

/-- a one-level listing (`deep = false`) never recurses: any positive fuel will do, with or
    without FOLLOW -/
theorem globDir_shallow (w : WalkCfg) (fs : FS) (absPat : Bool) (m : Matcher) (dirOnly gf : Bool)
    (f₁ f₂ : Nat) (curdir : List Char) (loc : Loc) :
    globDir w fs absPat m dirOnly false gf (f₁ + 1) curdir loc =
      globDir w fs absPat m dirOnly false gf (f₂ + 1) curdir loc := by
  simp [globDir]

/-! ### no `oof` -/

def NoOof {α : Type} (l : List (Ev α)) : Prop := ∀ e ∈ l, e.isOof = false

theorem NoOof.append {α : Type} {a b : List (Ev α)} (ha : NoOof a) (hb : NoOof b) : NoOof (a ++ b) := by
  intro e he
  rcases List.mem_append.1 he with h | h
  · exact ha e h
  · exact hb e h

theorem NoOof.cons_scan {α : Type} {p : List Char} {l : List (Ev α)} (h : NoOof l) :
    NoOof (Ev.scan p :: l) := by
  intro e he
  rcases List.mem_cons.1 he with rfl | he
  · rfl
  · exact h e he

theorem NoOof.single_y {α : Type} (v : α) : NoOof [Ev.y v] := by
  intro x hx; simp at hx; subst hx; rfl

theorem NoOof.nil {α : Type} : NoOof ([] : List (Ev α)) := by intro e he; cases he

theorem NoOof.flatMap {α β : Type} {l : List α} {f : α → List (Ev β)} (h : ∀ a ∈ l, NoOof (f a)) :
    NoOof (l.flatMap f) := by
  intro e he
  obtain ⟨a, ha, hea⟩ := List.mem_flatMap.1 he
  exact h a ha e hea

theorem NoOof.bindEv {α β : Type} {l : List (Ev α)} {f : α → List (Ev β)} (hl : NoOof l)
    (hf : ∀ v, Ev.y v ∈ l → NoOof (f v)) : NoOof (bindEv l f) := by
  unfold WcModel.bindEv
  apply NoOof.flatMap
  intro e he
  cases e with
  | scan p => intro x hx; simp at hx; subst hx; rfl
  | oof => have := hl _ he; simp [Ev.isOof] at this
  | y v => exact hf v he

theorem globDir_noOof_at (w : WalkCfg) (fs : FS) (absPat : Bool) (m : Matcher) (dirOnly deep : Bool)
    (hw : w.followLinks = false) :
    ∀ (f : Nat) (curdir : List Char) (rp : RPath) (nd : Node),
      fs.top.get rp = some nd → nd.height < f →
      NoOof (globDir w fs absPat m dirOnly deep false f curdir (some rp)) := by
  intro f
  induction f with
  | zero => intro c rp nd _ h; omega
  | succ f ih =>
    intro curdir rp nd hget h₁
    simp only [globDir]
    apply NoOof.cons_scan
    · apply NoOof.flatMap
      intro e he
      cases hs : e.special with
      | true =>
        simp only [if_true]
        split
        · exact NoOof.single_y _
        · exact NoOof.nil
      | false =>
        simp only [Bool.false_eq_true, if_false]
        apply NoOof.append
        · split
          · exact NoOof.single_y _
          · exact NoOof.nil
        · by_cases hc : (deep && !e.hidden && e.isDir && (!e.isLink || w.followLinks || false)) = true
          · simp only [hc, if_true]
            obtain ⟨ds, d, hsc, hd, hn, hdir, hlnk, hloc, _⟩ := iterDir_real he hs
            simp only [hw, Bool.or_false, Bool.and_eq_true, Bool.not_eq_true'] at hc
            obtain ⟨⟨_, hisdir⟩, hnl⟩ := hc
            obtain ⟨hl, c, hgc, hlt, _⟩ :=
              FS.scandir_real_child hget hsc hd (hdir ▸ hisdir) (hlnk ▸ hnl)
            rw [hloc, hl, ← hn]
            rw [← hn] at hgc
            exact ih _ _ c hgc (by omega)
          · simp only [hc]
            exact NoOof.nil

theorem globDir_noOof (w : WalkCfg) (fs : FS) (absPat : Bool) (m : Matcher) (dirOnly deep : Bool)
    (hw : w.followLinks = false) (f : Nat) (h : fs.top.height < f) (curdir : List Char) (loc : Loc) :
    NoOof (globDir w fs absPat m dirOnly deep false f curdir loc) := by
  rcases scandir_none_or fs loc with hn | ⟨rp, nd, rfl, hg⟩
  · cases f with
    | zero => omega
    | succ f =>
      simp only [globDir]
      apply NoOof.cons_scan
      · apply NoOof.flatMap
        intro e he
        cases hs : e.special with
        | true =>
          simp only [if_true]
          split
          · exact NoOof.single_y _
          · exact NoOof.nil
        | false =>
          obtain ⟨ds, d, hsc, _⟩ := iterDir_real he hs
          rw [hn] at hsc; cases hsc
  · have := Node.height_get_le hg
    exact globDir_noOof_at w fs absPat m dirOnly deep hw f curdir rp nd hg (by omega)

theorem globDir_shallow_noOof (w : WalkCfg) (fs : FS) (absPat : Bool) (m : Matcher) (dirOnly gf : Bool)
    (f : Nat) (curdir : List Char) (loc : Loc) :
    NoOof (globDir w fs absPat m dirOnly false gf (f + 1) curdir loc) := by
  simp only [globDir]
  apply NoOof.cons_scan
  · apply NoOof.flatMap
    intro e _
    simp only [Bool.false_and, Bool.false_eq_true, if_false, List.append_nil]
    split
    · split
      · exact NoOof.single_y _
      · exact NoOof.nil
    · split
      · exact NoOof.single_y _
      · exact NoOof.nil

/-! ### lifting to `_glob`, one pattern, the whole `glob()` -/

/-- no part is a `***` (the only other way to follow links) -/
def NoLong (parts : List GPart) : Prop := ∀ p ∈ parts, p.isGlobstarLong = false

theorem bindEv_congr {α β : Type} {l : List (Ev α)} {f g : α → List (Ev β)} (h : ∀ v, f v = g v) :
    bindEv l f = bindEv l g := by
  have : f = g := funext h
  rw [this]

theorem globParts_stable (w : WalkCfg) (fs : FS) (absPat : Bool) (hw : w.followLinks = false)
    (f₁ f₂ : Nat) (h₁ : fs.top.height < f₁) (h₂ : fs.top.height < f₂) :
    ∀ (parts : List GPart) (curdir : List Char) (loc : Loc), NoLong parts →
      globParts w fs absPat f₁ parts curdir loc = globParts w fs absPat f₂ parts curdir loc := by
  intro parts curdir loc
  induction parts, curdir, loc using globParts.induct with
  | case1 => intro _; rfl
  | case2 part curdir loc hgs =>
    intro hl
    have hp : part.isGlobstarLong = false := hl part List.mem_cons_self
    simp only [globParts, hgs, if_true, hp]
    rw [globDir_stable w fs absPat none part.dirOnly true hw f₁ f₂ h₁ h₂]
  | case3 part curdir loc hgs this =>
    intro hl
    have hp : part.isGlobstarLong = false := hl part List.mem_cons_self
    simp only [globParts, hgs, if_true, hp]
    rw [globDir_stable w fs absPat _ this.dirOnly true hw f₁ f₂ h₁ h₂]
  | case4 part curdir loc hgs this this2 rest2 ih =>
    intro hl
    have hp : part.isGlobstarLong = false := hl part List.mem_cons_self
    have hl' : NoLong (this2 :: rest2) := fun p hp' =>
      hl p (List.mem_cons_of_mem _ (List.mem_cons_of_mem _ hp'))
    simp only [globParts, hgs, if_true, hp]
    rw [globDir_stable w fs absPat _ this.dirOnly true hw f₁ f₂ h₁ h₂]
    exact bindEv_congr (fun v => ih v hl')
  | case5 part rest curdir loc hgs hd =>
    intro _
    have hgs' : (part.isMagic && part.isGlobstar) = false := by simpa using hgs
    rcases rest with _ | ⟨t, _ | ⟨t2, r⟩⟩ <;>
      simp only [globParts, hgs', hd, Bool.false_eq_true, if_false, if_true] <;>
      exact globDir_shallow w fs absPat _ false false f₁ f₂ curdir loc
  | case6 part curdir loc hgs hd =>
    intro _
    have hgs' : (part.isMagic && part.isGlobstar) = false := by simpa using hgs
    have hd' : (!part.dirOnly) = false := by simpa using hd
    simp only [globParts, hgs', hd', Bool.false_eq_true, if_false]
    exact globDir_shallow w fs absPat _ true false f₁ f₂ curdir loc
  | case7 part curdir loc hgs hd this rest1 ih =>
    intro hl
    have hl' : NoLong (this :: rest1) := fun p hp' => hl p (List.mem_cons_of_mem _ hp')
    have hgs' : (part.isMagic && part.isGlobstar) = false := by simpa using hgs
    have hd' : (!part.dirOnly) = false := by simpa using hd
    rcases rest1 with _ | ⟨t2, r⟩ <;>
    simp only [globParts, hgs', hd', Bool.false_eq_true, if_false] <;>
    rw [globDir_shallow w fs absPat _ true false f₁ f₂ curdir loc] <;>
    exact bindEv_congr (fun v => ih v hl')

theorem globParts_noOof (w : WalkCfg) (fs : FS) (absPat : Bool) (hw : w.followLinks = false)
    (f : Nat) (h : fs.top.height < f) :
    ∀ (parts : List GPart) (curdir : List Char) (loc : Loc), NoLong parts →
      NoOof (globParts w fs absPat f parts curdir loc) := by
  intro parts curdir loc
  induction parts, curdir, loc using globParts.induct with
  | case1 => intro _; exact NoOof.nil
  | case2 part curdir loc hgs =>
    intro hl
    have hp : part.isGlobstarLong = false := hl part List.mem_cons_self
    simp only [globParts, hgs, if_true, hp]
    apply NoOof.append
    · split
      · exact NoOof.single_y _
      · exact NoOof.nil
    · exact globDir_noOof w fs absPat none part.dirOnly true hw f h curdir loc
  | case3 part curdir loc hgs this =>
    intro hl
    have hp : part.isGlobstarLong = false := hl part List.mem_cons_self
    simp only [globParts, hgs, if_true, hp]
    exact globDir_noOof w fs absPat _ this.dirOnly true hw f h curdir loc
  | case4 part curdir loc hgs this this2 rest2 ih =>
    intro hl
    have hp : part.isGlobstarLong = false := hl part List.mem_cons_self
    have hl' : NoLong (this2 :: rest2) := fun p hp' =>
      hl p (List.mem_cons_of_mem _ (List.mem_cons_of_mem _ hp'))
    simp only [globParts, hgs, if_true, hp]
    exact NoOof.bindEv (globDir_noOof w fs absPat _ this.dirOnly true hw f h curdir loc)
      (fun v _ => ih v hl')
  | case5 part rest curdir loc hgs hd =>
    intro _
    have hgs' : (part.isMagic && part.isGlobstar) = false := by simpa using hgs
    rcases rest with _ | ⟨t, _ | ⟨t2, r⟩⟩ <;>
      simp only [globParts, hgs', hd, Bool.false_eq_true, if_false, if_true] <;>
      exact globDir_shallow_noOof w fs absPat _ false false f curdir loc
  | case6 part curdir loc hgs hd =>
    intro _
    have hgs' : (part.isMagic && part.isGlobstar) = false := by simpa using hgs
    have hd' : (!part.dirOnly) = false := by simpa using hd
    simp only [globParts, hgs', hd', Bool.false_eq_true, if_false]
    exact globDir_shallow_noOof w fs absPat _ true false f curdir loc
  | case7 part curdir loc hgs hd this rest1 ih =>
    intro hl
    have hl' : NoLong (this :: rest1) := fun p hp' => hl p (List.mem_cons_of_mem _ hp')
    have hgs' : (part.isMagic && part.isGlobstar) = false := by simpa using hgs
    have hd' : (!part.dirOnly) = false := by simpa using hd
    rcases rest1 with _ | ⟨t2, r⟩ <;>
    simp only [globParts, hgs', hd', Bool.false_eq_true, if_false] <;>
    exact NoOof.bindEv (globDir_shallow_noOof w fs absPat _ true false f curdir loc) (fun v _ => ih v hl')

theorem startingPaths_noOof (w : WalkCfg) (fs : FS) (a : Bool) (c : List Char) (d : Bool) :
    NoOof (startingPaths w fs a c d) := by
  unfold startingPaths
  split
  · apply NoOof.cons_scan
    intro e he
    obtain ⟨x, _, rfl⟩ := List.mem_map.1 he
    rfl
  · exact NoOof.single_y _

theorem globPattern_stable (w : WalkCfg) (fs : FS) (hw : w.followLinks = false)
    (f₁ f₂ : Nat) (h₁ : fs.top.height < f₁) (h₂ : fs.top.height < f₂) (pattern : List GPart)
    (hl : NoLong pattern) : globPattern w fs f₁ pattern = globPattern w fs f₂ pattern := by
  cases pattern with
  | nil => rfl
  | cons p0 rest0 =>
    have hr : NoLong rest0 := fun p hp => hl p (List.mem_cons_of_mem _ hp)
    simp only [globPattern]
    split
    · split
      · rfl
      · split
        · apply bindEv_congr
          intro s
          cases rest0 with
          | nil => rfl
          | cons t r => exact globParts_stable w fs _ hw f₁ f₂ h₁ h₂ _ _ _ hr
        · rfl
    · exact globParts_stable w fs _ hw f₁ f₂ h₁ h₂ _ _ _ hl

theorem globPattern_noOof (w : WalkCfg) (fs : FS) (hw : w.followLinks = false)
    (f : Nat) (h : fs.top.height < f) (pattern : List GPart) (hl : NoLong pattern) :
    NoOof (globPattern w fs f pattern) := by
  cases pattern with
  | nil => exact NoOof.nil
  | cons p0 rest0 =>
    have hr : NoLong rest0 := fun p hp => hl p (List.mem_cons_of_mem _ hp)
    simp only [globPattern]
    split
    · split
      · exact NoOof.nil
      · split
        · apply NoOof.bindEv (startingPaths_noOof _ _ _ _ _)
          intro s _
          cases rest0 with
          | nil => exact NoOof.single_y _
          | cons t r => exact globParts_noOof w fs _ hw f h _ _ _ hr
        · apply NoOof.bindEv (startingPaths_noOof _ _ _ _ _)
          intro s _
          split
          · exact NoOof.single_y _
          · exact NoOof.nil
    · exact globParts_noOof w fs _ hw f h _ _ _ hl

theorem uniqEv_noOof (w : WCtx) : ∀ (l : List (Ev (List Char))) (seen : List (List Char)),
    NoOof l → NoOof (uniqEv w seen l) := by
  intro l
  induction l with
  | nil => intro _ _; exact NoOof.nil
  | cons e r ih =>
    intro seen h
    have hr : NoOof r := fun x hx => h x (List.mem_cons_of_mem _ hx)
    cases e with
    | scan p => simp only [uniqEv]; exact NoOof.cons_scan (ih seen hr)
    | oof => have := h _ List.mem_cons_self; simp [Ev.isOof] at this
    | y p =>
      simp only [uniqEv]
      split
      · intro x hx
        rcases List.mem_cons.1 hx with rfl | hx
        · rfl
        · exact ih seen hr x hx
      · split
        · exact ih seen hr
        · intro x hx
          rcases List.mem_cons.1 hx with rfl | hx
          · rfl
          · exact ih _ hr x hx

/-- **C06 (termination), model level**: without FOLLOW and without `***` parts the whole
    event sequence of `glob()` — results *and* directory listings — is the same for every
    fuel above the height of the tree … -/
theorem globEvents_stable (w : WCtx) (fs : FS) (hw : w.followLinks = false)
    (patterns : List (List GPart)) (hl : ∀ p ∈ patterns, NoLong p)
    (f₁ f₂ : Nat) (h₁ : fs.top.height < f₁) (h₂ : fs.top.height < f₂) :
    globEvents w fs f₁ patterns = globEvents w fs f₂ patterns := by
  unfold globEvents
  congr 1
  apply flatMap_congr'
  intro p hp
  unfold patternOut
  rw [globPattern_stable w.toWalkCfg fs hw f₁ f₂ h₁ h₂ p (hl p hp)]

/-- … and the walker never runs out of fuel. -/
theorem globEvents_noOof (w : WCtx) (fs : FS) (hw : w.followLinks = false)
    (patterns : List (List GPart)) (hl : ∀ p ∈ patterns, NoLong p)
    (f : Nat) (h : fs.top.height < f) : NoOof (globEvents w fs f patterns) := by
  unfold globEvents
  apply uniqEv_noOof
  apply NoOof.flatMap
  intro p hp
  unfold patternOut
  apply NoOof.bindEv (globPattern_noOof w.toWalkCfg fs hw f h p (hl p hp))
  intro v _
  split
  · exact NoOof.nil
  · exact NoOof.single_y _

end WcModel

import WcModel.Model.GlobWalk
import WcModel.Proofs.BytesWalkSplit
/-
  C18 on the walkers — `glob.Glob` (`Model/GlobWalk.lean`).

  The walker reads a compiled regex in two places only:
    * `getMatcher` (`_get_matcher`): a compiled part is applied to ONE NAME of a directory listing
      (or to the fake `.` / `..`) with `Re.fullmatch`;
    * `isExcluded` (`_is_excluded`): an exclusion regex is applied to a RESULT PATH.
  On a tree all of whose names are Latin-1 (`FSLatin1`: every name `os.scandir` can return has all
  code units < 256 — what a bytes `glob` sees) every name and every result path is Latin-1, so twin
  regexes answer alike (`ReBytesTwin.fullmatch_eq`) and the two walks are the same event sequence:
  `globEvents_twin`.  Then `build_twin`: `Glob.__init__` on a bytes and on a str pattern list
  builds twin objects (or raises the same error).
-/
namespace WcModel

/-- every name a directory listing of the tree can return is Latin-1 -/
def FSLatin1 (fs : FS) : Prop :=
  ∀ (l : Loc) (es : List DEnt), fs.scandir l = some es → ∀ e ∈ es, Latin1 e.name

theorem bindEv_congr_mem {α β : Type} {l : List (Ev α)} {f g : α → List (Ev β)} (h : ∀ v, Ev.y v ∈ l → f v = g v) :
    bindEv l f = bindEv l g := by
  unfold bindEv
  apply flatMap_congr'
  intro e he
  cases e with
  | scan p => rfl
  | oof => rfl
  | y v => exact h v he

theorem mem_bindEv {α β : Type} {l : List (Ev α)} {f : α → List (Ev β)} {w : β} (h : Ev.y w ∈ bindEv l f) :
    ∃ v, Ev.y v ∈ l ∧ Ev.y w ∈ f v := by
  unfold bindEv at h
  obtain ⟨e, he, hw⟩ := List.mem_flatMap.mp h
  cases e with
  | scan p => simp at hw
  | oof => simp at hw
  | y v => exact ⟨v, he, hw⟩

/-! ### Latin-1 paths -/

theorem latin1_dot : Latin1 dot := Latin1.cons (by decide) Latin1.nil
theorem latin1_dotdot : Latin1 dotdot := Latin1.cons (by decide) (Latin1.cons (by decide) Latin1.nil)
theorem latin1_slash : Latin1 ['/'] := Latin1.cons (by decide) Latin1.nil

theorem latin1_pjoin {a b : List Char} (ha : Latin1 a) (hb : Latin1 b) : Latin1 (pjoin a b) := by
  unfold pjoin
  split
  · exact hb
  · split
    · exact ha.append hb
    · exact ha.append (Latin1.cons (by decide) hb)

theorem iterDir_latin1 {fs : FS} (hfs : FSLatin1 fs) (w : WalkCfg) (absCur : Bool) (loc : Loc) (dirOnly : Bool) :
    ∀ e ∈ iterDir w fs absCur loc dirOnly, Latin1 e.name := by
  intro e he
  unfold iterDir at he
  have hf : ∀ x ∈ ([⟨dot, true, true, false, true, fs.step loc dot⟩,
      ⟨dotdot, true, true, false, true, fs.step loc dotdot⟩] : List IEnt), Latin1 x.name := by
    intro x hx
    simp only [List.mem_cons, List.not_mem_nil, or_false] at hx
    rcases hx with rfl | rfl
    · exact latin1_dot
    · exact latin1_dotdot
  cases hs : fs.scandir loc with
  | none =>
    simp only [hs] at he
    split at he
    · simp at he
    · exact hf e he
  | some es =>
    simp only [hs] at he
    rcases List.mem_append.mp he with h | h
    · exact hf e h
    · obtain ⟨d, hd, rfl⟩ := List.mem_map.mp h
      exact hfs loc es hs d (List.mem_filter.mp hd).1

/-! ### matchers -/

/-- two matchers that cannot be told apart on Latin-1 names -/
def MatcherAgree (m₁ m₂ : Matcher) : Prop :=
  m₁.isNone = m₂.isNone ∧ ∀ n, Latin1 n → m₁.test n = m₂.test n

theorem MatcherAgree.rfl' (m : Matcher) : MatcherAgree m m := ⟨rfl, fun _ _ => rfl⟩

theorem getMatcher_twin (cs : Bool) {p₁ p₂ : PPat} (h : p₁.bnorm = p₂.bnorm) :
    MatcherAgree (getMatcher cs (some p₁)) (getMatcher cs (some p₂)) := by
  cases p₁ with
  | lit s₁ =>
    cases p₂ with
    | lit s₂ => simp only [PPat.bnorm, PPat.lit.injEq] at h; subst h; exact .rfl' _
    | re src₂ r₂ => simp [PPat.bnorm] at h
  | re src₁ r₁ =>
    cases p₂ with
    | lit s₂ => simp [PPat.bnorm] at h
    | re src₂ r₂ =>
      simp only [PPat.bnorm, PPat.re.injEq] at h
      refine ⟨rfl, fun n hn => ?_⟩
      simp only [getMatcher, Matcher.test]
      exact (ReBytesTwin.of_bnorm_eq h.2).fullmatch_eq n hn

/-! ### `_glob_dir` -/

theorem globDir_twin {fs : FS} (hfs : FSLatin1 fs) (w : WalkCfg) (absPat : Bool) {m₁ m₂ : Matcher}
    (hm : MatcherAgree m₁ m₂) (dirOnly deep gfollow : Bool) :
    ∀ (fuel : Nat) (curdir : List Char) (loc : Loc),
      globDir w fs absPat m₁ dirOnly deep gfollow fuel curdir loc =
      globDir w fs absPat m₂ dirOnly deep gfollow fuel curdir loc := by
  intro fuel
  induction fuel with
  | zero => intros; rfl
  | succ n ih =>
    intro curdir loc
    simp only [globDir]
    congr 1
    apply flatMap_congr'
    intro e he
    have hn := iterDir_latin1 hfs w _ loc dirOnly e he
    rw [hm.2 e.name hn, hm.1, ih]

theorem globDir_latin1 {fs : FS} (hfs : FSLatin1 fs) (w : WalkCfg) (absPat : Bool) (m : Matcher)
    (dirOnly deep gfollow : Bool) :
    ∀ (fuel : Nat) (curdir : List Char) (loc : Loc), Latin1 curdir →
      ∀ v, Ev.y v ∈ globDir w fs absPat m dirOnly deep gfollow fuel curdir loc → Latin1 v.path := by
  intro fuel
  induction fuel with
  | zero => intro curdir loc _ v hv; simp [globDir] at hv
  | succ n ih =>
    intro curdir loc hc v hv
    simp only [globDir, List.mem_cons, reduceCtorEq, false_or] at hv
    obtain ⟨e, he, hv⟩ := List.mem_flatMap.mp hv
    have hn := iterDir_latin1 hfs w _ loc dirOnly e he
    have hp := latin1_pjoin hc hn
    split at hv
    · split at hv
      · simp only [List.mem_cons, Ev.y.injEq, List.not_mem_nil, or_false] at hv
        subst hv; exact hp
      · simp at hv
    · rcases List.mem_append.mp hv with h | h
      · split at h
        · simp only [List.mem_cons, Ev.y.injEq, List.not_mem_nil, or_false] at h
          subst h; exact hp
        · simp at h
      · split at h
        · exact ih _ _ hp v h
        · simp at h

/-! ### `_glob` -/

theorem bnormP_cons {a b : GPart} {l₁ l₂ : List GPart} (h : bnormP (a :: l₁) = bnormP (b :: l₂)) :
    a.bnorm = b.bnorm ∧ bnormP l₁ = bnormP l₂ := by
  simpa [bnormP] using h

theorem bnormP_nil_left {l : List GPart} (h : bnormP [] = bnormP l) : l = [] := by
  cases l <;> simp [bnormP] at h ⊢

theorem bnormP_nil_right {l : List GPart} (h : bnormP l = bnormP []) : l = [] := by
  cases l <;> simp [bnormP] at h ⊢

/-- what `a.bnorm = b.bnorm` gives, field by field -/
theorem GPart.bnorm_eq_fields {a b : GPart} (h : a.bnorm = b.bnorm) :
    a.pat.bnorm = b.pat.bnorm ∧ a.isMagic = b.isMagic ∧ a.isGlobstar = b.isGlobstar ∧
      a.isGlobstarLong = b.isGlobstarLong ∧ a.dirOnly = b.dirOnly ∧ a.isDrive = b.isDrive := by
  obtain ⟨a1, a2, a3, a4, a5, a6⟩ := a
  obtain ⟨b1, b2, b3, b4, b5, b6⟩ := b
  simpa [GPart.bnorm] using h

/-- the two walks of twin part lists are the same event sequence, and every path they yield is
    Latin-1 -/
theorem globParts_twin {fs : FS} (hfs : FSLatin1 fs) (w : WalkCfg) (absPat : Bool) (fuel : Nat) :
    ∀ (n : Nat) (ps₁ ps₂ : List GPart), ps₁.length ≤ n → bnormP ps₁ = bnormP ps₂ →
      ∀ (curdir : List Char) (loc : Loc), Latin1 curdir →
        globParts w fs absPat fuel ps₁ curdir loc = globParts w fs absPat fuel ps₂ curdir loc ∧
        ∀ v, Ev.y v ∈ globParts w fs absPat fuel ps₁ curdir loc → Latin1 v.path := by
  intro n
  induction n with
  | zero =>
    intro ps₁ ps₂ hl h curdir loc _
    have : ps₁ = [] := List.eq_nil_of_length_eq_zero (Nat.le_zero.mp hl)
    subst this
    rw [bnormP_nil_left h]
    exact ⟨by first | rfl | trivial, fun v hv => by simp [globParts] at hv⟩
  | succ n ih =>
    intro ps₁ ps₂ hl h curdir loc hc
    cases ps₁ with
    | nil =>
      rw [bnormP_nil_left h]
      exact ⟨by first | rfl | trivial, fun v hv => by simp [globParts] at hv⟩
    | cons a r₁ =>
      cases ps₂ with
      | nil => exact absurd (bnormP_nil_right h) (by simp)
      | cons b r₂ =>
        obtain ⟨hab, hr⟩ := bnormP_cons h
        obtain ⟨hpat, hmg, hgs, hgl, hdo, _⟩ := GPart.bnorm_eq_fields hab
        have hmat := getMatcher_twin w.caseSensitive hpat
        simp only [List.length_cons] at hl
        rw [globParts.eq_def w fs absPat fuel (a :: r₁), globParts.eq_def w fs absPat fuel (b :: r₂)]
        simp only []
        rw [← hmg, ← hgs, ← hgl, ← hdo]
        split
        · -- a globstar part
          cases r₁ with
          | nil =>
            rw [bnormP_nil_left hr]
            try simp only []
            refine ⟨by first | rfl | trivial, fun v hv => ?_⟩
            rcases List.mem_append.mp hv with h1 | h1
            · split at h1
              · simp only [List.mem_cons, Ev.y.injEq, List.not_mem_nil, or_false] at h1
                subst h1; exact latin1_pjoin hc Latin1.nil
              · simp at h1
            · exact globDir_latin1 hfs w absPat _ _ _ _ _ _ _ hc v h1
          | cons t₁ s₁ =>
            cases r₂ with
            | nil => exact absurd (bnormP_nil_right hr) (by simp)
            | cons t₂ s₂ =>
              obtain ⟨htt, hs⟩ := bnormP_cons hr
              obtain ⟨htpat, _, _, _, htdo, _⟩ := GPart.bnorm_eq_fields htt
              have htm := getMatcher_twin w.caseSensitive htpat
              cases s₁ with
              | nil =>
                rw [bnormP_nil_left hs]
                try simp only []
                rw [← htdo, globDir_twin hfs w absPat htm]
                exact ⟨by first | rfl | trivial, fun v hv => globDir_latin1 hfs w absPat _ _ _ _ _ _ _ hc v (by
                  rw [globDir_twin hfs w absPat htm]; exact hv)⟩
              | cons u₁ x₁ =>
                cases s₂ with
                | nil => exact absurd (bnormP_nil_right hs) (by simp)
                | cons u₂ x₂ =>
                  try simp only []
                  rw [← htdo, ← globDir_twin hfs w absPat htm]
                  have hlat := globDir_latin1 hfs w absPat (getMatcher w.caseSensitive (some t₁.pat)) t₁.dirOnly true
                    a.isGlobstarLong fuel curdir loc hc
                  have hrec := fun (v : Y) (hv : Latin1 v.path) =>
                    ih (u₁ :: x₁) (u₂ :: x₂) (by simp only [List.length_cons] at hl ⊢; omega) hs v.path v.loc hv
                  refine ⟨bindEv_congr_mem (fun v hv => (hrec v (hlat v hv)).1), fun v hv => ?_⟩
                  obtain ⟨v0, hv0, hv1⟩ := mem_bindEv hv
                  exact (hrec v0 (hlat v0 hv0)).2 v hv1
        · split
          · rw [globDir_twin hfs w absPat hmat]
            exact ⟨by first | rfl | trivial, fun v hv => globDir_latin1 hfs w absPat _ _ _ _ _ _ _ hc v hv⟩
          · cases r₁ with
            | nil =>
              rw [bnormP_nil_left hr]
              try simp only []
              rw [globDir_twin hfs w absPat hmat]
              exact ⟨by first | rfl | trivial, fun v hv => globDir_latin1 hfs w absPat _ _ _ _ _ _ _ hc v hv⟩
            | cons t₁ s₁ =>
              cases r₂ with
              | nil => exact absurd (bnormP_nil_right hr) (by simp)
              | cons t₂ s₂ =>
                try simp only []
                rw [← globDir_twin hfs w absPat hmat]
                have hlat := globDir_latin1 hfs w absPat (getMatcher w.caseSensitive (some a.pat)) true false false
                  (fuel + 1) curdir loc hc
                have hrec := fun (v : Y) (hv : Latin1 v.path) =>
                  ih (t₁ :: s₁) (t₂ :: s₂) (by simp only [List.length_cons] at hl ⊢; omega) hr v.path v.loc hv
                refine ⟨bindEv_congr_mem (fun v hv => (hrec v (hlat v hv)).1), fun v hv => ?_⟩
                obtain ⟨v0, hv0, hv1⟩ := mem_bindEv hv
                exact (hrec v0 (hlat v0 hv0)).2 v hv1

/-! ### `_get_starting_paths`, the loop body of `glob()` -/

theorem PPat.text_bnorm (p : PPat) : p.bnorm.text = p.text := by cases p <;> rfl

theorem startingPaths_latin1 {fs : FS} (hfs : FSLatin1 fs) (w : WalkCfg) (absPat : Bool) (curdir : List Char)
    (dirOnly : Bool) (hc : absPat = true → Latin1 curdir) :
    ∀ v, Ev.y v ∈ startingPaths w fs absPat curdir dirOnly → Latin1 v.path := by
  intro v hv
  unfold startingPaths at hv
  split at hv
  · simp only [List.mem_cons, reduceCtorEq, false_or, List.mem_map, List.mem_filter] at hv
    obtain ⟨e, ⟨he, _⟩, hev⟩ := hv
    cases hev
    exact iterDir_latin1 hfs w _ _ _ e he
  · rename_i hcond
    simp only [List.mem_cons, Ev.y.injEq, List.not_mem_nil, or_false] at hv
    subst hv
    try simp only []
    cases ha : absPat with
    | true => exact hc ha
    | false =>
      simp only [ha, Bool.not_false, Bool.true_and, Bool.and_eq_true, bne_iff_ne, ne_eq, not_and,
        Decidable.not_not] at hcond
      by_cases h1 : curdir = dotdot
      · rw [h1]; exact latin1_dotdot
      · by_cases h2 : curdir = dot
        · rw [h2]; exact latin1_dot
        · rw [hcond ⟨h1, h2⟩]; exact latin1_slash

/-- the first part of an absolute pattern is Latin-1 text (for `globSplit`'s output it is `/`) -/
def HeadOK (pattern : List GPart) : Prop :=
  ∀ p0 rest, pattern = p0 :: rest → p0.isDrive = true → Latin1 p0.pat.text

theorem globPattern_twin {fs : FS} (hfs : FSLatin1 fs) (w : WalkCfg) (fuel : Nat) {ps₁ ps₂ : List GPart}
    (h : bnormP ps₁ = bnormP ps₂) (hok : HeadOK ps₁) :
    globPattern w fs fuel ps₁ = globPattern w fs fuel ps₂ ∧
    ∀ v, Ev.y v ∈ globPattern w fs fuel ps₁ → Latin1 v.path := by
  cases ps₁ with
  | nil => rw [bnormP_nil_left h]; exact ⟨by first | rfl | trivial, fun v hv => by simp [globPattern] at hv⟩
  | cons a r₁ =>
    cases ps₂ with
    | nil => exact absurd (bnormP_nil_right h) (by simp)
    | cons b r₂ =>
      obtain ⟨hab, hr⟩ := bnormP_cons h
      obtain ⟨hpat, hmg, _, _, hdo, hdr⟩ := GPart.bnorm_eq_fields hab
      have htext : a.pat.text = b.pat.text := by rw [← PPat.text_bnorm a.pat, hpat, PPat.text_bnorm]
      have hlast := bnormP_last (·.dirOnly) (fun _ => rfl) h
      simp only [globPattern]
      rw [← hmg, ← hdr, ← htext, ← hdo, ← hlast]
      split
      · split
        · exact ⟨by first | rfl | trivial, fun v hv => by simp at hv⟩
        · have hsl := startingPaths_latin1 hfs w a.isDrive a.pat.text
            (((a :: r₁).getLast?.map (·.dirOnly)).getD false) (hok a r₁ rfl)
          split
          · cases r₁ with
            | nil =>
              rw [bnormP_nil_left hr]
              exact ⟨by first | rfl | trivial, fun v hv => by
                obtain ⟨v0, hv0, hv1⟩ := mem_bindEv hv
                simp only [List.mem_cons, Ev.y.injEq, List.not_mem_nil, or_false] at hv1
                subst hv1; exact hsl _ hv0⟩
            | cons t₁ s₁ =>
              cases r₂ with
              | nil => exact absurd (bnormP_nil_right hr) (by simp)
              | cons t₂ s₂ =>
                try simp only []
                have hrec := fun (v : Y) (hv : Latin1 v.path) =>
                  globParts_twin hfs w a.isDrive fuel _ (t₁ :: s₁) (t₂ :: s₂) (Nat.le_refl _) hr v.path v.loc hv
                refine ⟨bindEv_congr_mem (fun v hv => (hrec v (hsl v hv)).1), fun v hv => ?_⟩
                obtain ⟨v0, hv0, hv1⟩ := mem_bindEv hv
                exact (hrec v0 (hsl v0 hv0)).2 v hv1
          · refine ⟨by first | rfl | trivial, fun v hv => ?_⟩
            obtain ⟨v0, hv0, hv1⟩ := mem_bindEv hv
            split at hv1
            · simp only [List.mem_cons, Ev.y.injEq, List.not_mem_nil, or_false] at hv1
              subst hv1; exact hsl _ hv0
            · simp at hv1
      · exact globParts_twin hfs w a.isDrive fuel _ (a :: r₁) (b :: r₂) (Nat.le_refl _) h [] (some fs.cwd) Latin1.nil

/-! ### exclusion, formatting, uniqueness -/

theorem latin1_exclSubject {v : Y} (h : Latin1 v.path) : Latin1 (exclSubject v) := by
  unfold exclSubject
  split
  · exact h.append latin1_slash
  · exact h

theorem isExcluded_twin (w : WCtx) {e₂ : List Re} (he : bnormL w.excl = bnormL e₂) {v : Y} (hv : Latin1 v.path) :
    isExcluded w v = isExcluded { w with excl := e₂ } v := by
  unfold isExcluded
  exact any_bnormL (fun r₁ r₂ hr => (ReBytesTwin.of_bnorm_eq hr).fullmatch_eq _ (latin1_exclSubject hv)) he

theorem patternOut_twin {fs : FS} (hfs : FSLatin1 fs) (w : WCtx) {e₂ : List Re} (he : bnormL w.excl = bnormL e₂)
    (fuel : Nat) {ps₁ ps₂ : List GPart} (h : bnormP ps₁ = bnormP ps₂) (hok : HeadOK ps₁) :
    patternOut w fs fuel ps₁ = patternOut { w with excl := e₂ } fs fuel ps₂ := by
  unfold patternOut
  obtain ⟨hg, hlat⟩ := globPattern_twin hfs w.toWalkCfg fuel h hok
  try simp only []
  rw [← hg, ← bnormP_last (·.dirOnly) (fun _ => rfl) h]
  apply bindEv_congr_mem
  intro v hv
  rw [← isExcluded_twin w he (hlat v hv)]
  rfl

theorem uniqEv_excl (w : WCtx) (e₂ : List Re) : ∀ (l : List (Ev (List Char))) (seen : List (List Char)),
    uniqEv w seen l = uniqEv { w with excl := e₂ } seen l := by
  intro l
  induction l with
  | nil => intro seen; simp only [uniqEv]
  | cons e r ih =>
    intro seen
    cases e with
    | y p =>
      simp only [uniqEv]
      have hk : ∀ q, uniqKey { w with excl := e₂ } q = uniqKey w q := fun _ => rfl
      simp only [hk, ← ih]
    | scan p => simp only [uniqEv, ← ih]
    | oof => simp only [uniqEv, ← ih]

/-- **the walker does not see the type**: on a tree whose names are Latin-1, two `Glob` objects that
    differ only in the spelling of the full range inside their compiled parts and exclusions
    produce the same event sequence (every `os.scandir` attempt and every result, in order). -/
theorem globEvents_twin {fs : FS} (hfs : FSLatin1 fs) (w : WCtx) {e₂ : List Re} (he : bnormL w.excl = bnormL e₂)
    (fuel : Nat) : ∀ {pats₁ pats₂ : List (List GPart)}, pats₁.map bnormP = pats₂.map bnormP →
      (∀ ps ∈ pats₁, HeadOK ps) →
      globEvents w fs fuel pats₁ = globEvents { w with excl := e₂ } fs fuel pats₂ := by
  intro pats₁ pats₂ h hok
  unfold globEvents
  rw [← uniqEv_excl w e₂]
  congr 1
  induction pats₁ generalizing pats₂ with
  | nil =>
    cases pats₂ with
    | nil => rfl
    | cons b r => simp at h
  | cons a r ih =>
    cases pats₂ with
    | nil => simp at h
    | cons b r₂ =>
      simp only [List.map_cons, List.cons.injEq] at h
      simp only [List.flatMap_cons]
      rw [patternOut_twin hfs w he fuel h.1 (hok a List.mem_cons_self),
        ih h.2 (fun ps hps => hok ps (List.mem_cons_of_mem _ hps))]

/-! ### a decidable, structural form of `FSLatin1` -/

def nameLatin1 (n : Name) : Bool := n.all (fun c => decide (c.toNat < 256))

theorem nameLatin1_iff (n : Name) : nameLatin1 n = true ↔ Latin1 n := by
  simp only [nameLatin1, List.all_eq_true, decide_eq_true_eq, Latin1]

mutual
/-- every entry name anywhere in the tree is Latin-1 -/
def Node.latin1 : Node → Bool
  | .dir es => Node.latin1L es
  | _ => true
def Node.latin1L : List (Name × Node) → Bool
  | [] => true
  | (n, c) :: r => nameLatin1 n && c.latin1 && Node.latin1L r
end

theorem latin1L_mem : ∀ {es : List (Name × Node)}, Node.latin1L es = true →
    ∀ e ∈ es, nameLatin1 e.1 = true ∧ e.2.latin1 = true
  | [], _, e, he => by simp at he
  | (n, c) :: r, h, e, he => by
    simp only [Node.latin1L, Bool.and_eq_true] at h
    rcases List.mem_cons.mp he with rfl | he
    · exact ⟨h.1.1, h.1.2⟩
    · exact latin1L_mem h.2 e he

theorem Node.get_latin1 : ∀ (rp : RPath) (nd nd' : Node), nd.latin1 = true → nd.get rp = some nd' →
    nd'.latin1 = true := by
  intro rp
  induction rp with
  | nil => intro nd nd' h hg; simp only [Node.get, Option.some.injEq] at hg; subst hg; exact h
  | cons n r ih =>
    intro nd nd' h hg
    cases nd with
    | file => simp [Node.get] at hg
    | link t => simp [Node.get] at hg
    | dir es =>
      simp only [Node.get] at hg
      split at hg
      · rename_i c hc
        simp only [Node.latin1] at h
        exact ih c nd' (latin1L_mem h _ (findEntry_mem hc)).2 hg
      · cases hg

/-- a tree whose entry names are all Latin-1 lists Latin-1 names only -/
theorem FSLatin1.of_node {fs : FS} (h : fs.top.latin1 = true) : FSLatin1 fs := by
  intro l es hs e he
  unfold FS.scandir at hs
  cases l with
  | none => cases hs
  | some rp =>
    simp only [] at hs
    cases hen : fs.entries (some rp) with
    | none => rw [hen] at hs; cases hs
    | some es0 =>
      rw [hen] at hs
      simp only [Option.some.injEq] at hs
      subst hs
      obtain ⟨x, hx, rfl⟩ := List.mem_map.mp he
      simp only [FS.entries] at hen
      split at hen
      · rename_i es1 hget
        simp only [Option.some.injEq] at hen
        subst hen
        have hd := Node.get_latin1 rp fs.top _ h hget
        simp only [Node.latin1] at hd
        exact (nameLatin1_iff _).mp (latin1L_mem hd x hx).1
      · cases hen

end WcModel

import WcModel.Properties.C16
import WcModel.Properties.C04cap
import WcModel.Properties.C05split
import WcModel.Properties.C10wf
import WcModel.Proofs.GlobExists
/-
  C16 — pathlib methods as views of `wcmatch.glob`: lemmas for `Properties/C16views.lean`.

  `Model/Pathlib.lean` takes `glob.iglob` / `glob.globmatch` as *parameters* (`Env`).  Here they are
  instantiated with the models of the real functions (`Model/Match.lean`: `compileMatch` +
  `matchReal`; `Model/GlobWalk.lean`: `GInit.ofNat` + `GlobObj.build` + `globResults`), and the
  glue that this needs is proved:

  * Part 1  the concrete environment `realEnv`;
  * Part 2  `_GlobSplit.split` raises the `_NOABSOLUTE` `ValueError` exactly for absolute patterns,
            and never fails otherwise (`globSplit_total`, `globSplit_noabs_iff`);
  * Part 3  the two models of the `seen` set (`Model/Pathlib.lean` `formatPaths`/`seenKey`, tied by
            K8, and `Model/GlobWalk.lean` `uniqEv`/`uniqKey`, tied by K5) agree
            (`globResults_eq_formatPaths`) — on every path, since the D16 repair put the POSIX
            `_pathlib_norm` regex (with its `$`-before-a-final-newline rule) into both.
-/
namespace WcModel.PathlibViews
open WcModel WcModel.Pathlib

/-! ## Part 1: the concrete environment -/

/-- what every pathlib method passes through untouched: the pattern list (after `expand`) and the
    `exclude=` list -/
structure GArgs where
  exps : List (List Char)
  excl : Option (List (List Char)) := none
  deriving Repr, Inhabited

/-- `glob.globmatch(name, patterns, flags=f, exclude=…)` on the model (`Model/Match.lean`) -/
def globmatchM (fs : FS) (isBytes : Bool) (name : List Char) (a : GArgs) (f : Nat) : Except SplitErr Bool :=
  match compileMatch f isBytes a.exps a.excl with
  | .error e => .error e
  | .ok o => .ok (matchReal fs o name)

/-- the tree seen from `root_dir` -/
def atRoot (fs : FS) (root : List Char) : FS :=
  match fs.resolve root with
  | some rp => { fs with cwd := rp }
  | none => fs

/-- `list(glob.iglob(patterns, flags=f, root_dir=root, exclude=…))` on the model
    (`Model/GlobWalk.lean`) -/
def iglobM (fs : FS) (isBytes : Bool) (fuel : Nat) (a : GArgs) (f : Nat) (root : List Char) :
    Except SplitErr (List (List Char)) :=
  let g := GInit.ofNat f a.excl.isSome isBytes false
  match GlobObj.build g (some [a.exps]) (a.excl.map fun e => [e]) with
  | .error e => .error e
  | .ok o => .ok (globResults (GlobObj.wctx g o) (atRoot fs root) fuel o.pattern)

/-- **the environment of `Model/Pathlib.lean` with the models of the real `wcmatch.glob` functions.**
    Path objects are their `str`; `is_dir()` is the tree's; `joinpath` (pathlib's own
    normalisation) stays a parameter. -/
def realEnv (fs : FS) (isBytes : Bool) (fuel : Nat) (jp : List Char → List Char → List Char) :
    Env (List Char) GArgs SplitErr where
  hostWin := hostIsWindows
  iglob := iglobM fs isBytes fuel
  globmatch := globmatchM fs isBytes
  str := id
  isDir := fs.isdir
  joinpath := jp

theorem realEnv_hostWin (fs : FS) (b : Bool) (fuel : Nat) (jp) : (realEnv fs b fuel jp).hostWin = false := by
  show hostIsWindows = false
  decide

/-! ## Part 2: `_GlobSplit.split` and `_NOABSOLUTE` -/

/-- `_wcparse._compile(value, flags)` under Unix rules without `_ANCHOR`: raises exactly for a value
    that starts with `/` under `_NOABSOLUTE` in path mode — and always yields a regex otherwise -/
theorem compilePart_total (f : Flags) (isBytes : Bool) (v : List Char) (hu : isUnixStyle f = true)
    (ha : f.anchor = false) :
    (compilePart f isBytes v = .error .noAbsolute ∧ f.noabsolute = true ∧ f.pathname = true ∧ v.head? = some '/') ∨
    (∃ r, compilePart f isBytes v = .ok r ∧ ¬ (f.noabsolute = true ∧ f.pathname = true ∧ v.head? = some '/')) := by
  unfold compilePart Driver.parsePattern
  rw [Flags.ofNat_toNat]
  have hwd : (Cfg.ofFlags isBytes f).winDriveDetect = false := by simp [Cfg.ofFlags, hu]
  have han : (Cfg.ofFlags isBytes f).anchor = false := by simp [Cfg.ofFlags, ha]
  have key := C16.noabs_unix_iff (Cfg.ofFlags isBytes f) (winDrive (Cfg.ofFlags isBytes f)) v hwd han
  have e1 : (Cfg.ofFlags isBytes f).noAbs = f.noabsolute := rfl
  have e2 : (Cfg.ofFlags isBytes f).pathname = f.pathname := rfl
  rw [e1, e2] at key
  cases hp : parseItems (Cfg.ofFlags isBytes f) (winDrive (Cfg.ofFlags isBytes f)) v with
  | error e =>
    cases e
    left
    exact ⟨rfl, key.mp hp⟩
  | ok parsed =>
    right
    obtain ⟨r, hr⟩ := Option.isSome_iff_exists.mp (parse_toRe_isSome_winDrive _ v parsed hp)
    refine ⟨r, by simp [hr], ?_⟩
    intro h
    have := key.mpr h
    rw [hp] at this
    cases this

theorem compilePart_ok_of_rel (f : Flags) (isBytes : Bool) (v : List Char) (hu : isUnixStyle f = true)
    (ha : f.anchor = false) (hv : v.head? ≠ some '/') : ∃ r, compilePart f isBytes v = .ok r := by
  rcases compilePart_total f isBytes v hu ha with ⟨_, _, _, h⟩ | ⟨r, h, _⟩
  · exact absurd h hv
  · exact ⟨r, h⟩

/-- `store` does not fail on a value that does not start with a separator -/
theorem store_ok (c : SplitCfg) (hu : isUnixStyle c.flags = true) (ha : c.flags.anchor = false)
    (v : List Char) (l : List GPart) (d : Bool) (hv : v.head? ≠ some '/') :
    ∃ l', GSplit.store c v l d = .ok l' := by
  unfold GSplit.store
  split
  · exact ⟨l, rfl⟩
  · simp only
    cases hm : GSplit.isMagic c.flags v with
    | false =>
      simp only [Bool.false_eq_true, if_false]
      split <;> exact ⟨_, rfl⟩
    | true =>
      simp only [if_true]
      have hu' : isUnixStyle c.partFlags = true := by
        simpa [SplitCfg.partFlags, Flags.noBase, isUnixStyle] using hu
      have ha' : c.partFlags.anchor = false := by
        simpa [SplitCfg.partFlags, Flags.noBase] using ha
      obtain ⟨r, hr⟩ := compilePart_ok_of_rel c.partFlags c.isBytes v hu' ha' hv
      simp only [hr, Except.map]
      split <;> exact ⟨_, rfl⟩

theorem storeAll_ok (c : SplitCfg) (hu : isUnixStyle c.flags = true) (ha : c.flags.anchor = false)
    (p : List Char) : ∀ (splits : List (Nat × Nat)) (start : Int) (l : List GPart),
      (∀ v ∈ valuesN p splits (start + 1).toNat, v.head? ≠ some '/') →
      ∃ r, GSplit.storeAll c p splits start l = .ok r := by
  intro splits
  induction splits with
  | nil => intro start l _; exact ⟨_, rfl⟩
  | cons so r ih =>
    intro start l hv
    obtain ⟨split, off⟩ := so
    simp only [GSplit.storeAll]
    obtain ⟨l1, h1⟩ := store_ok c hu ha (GSplit.slice p (start + 1).toNat split) l true
      (hv _ (by simp [valuesN]))
    simp only [h1]
    apply ih
    intro v hvm
    apply hv
    rw [toNat_ofNat_succ] at hvm
    simp [valuesN, hvm]

/-- **the scanning / storing part of `split` never fails** (Unix rules, no `_ANCHOR`): no value it
    cuts out of the pattern starts with a separator, so `_NOABSOLUTE` cannot fire inside a part,
    and every part's regex is well formed (C10) -/
theorem storedParts_ok (c : SplitCfg) (hu : isUnixStyle c.flags = true) (ha : c.flags.anchor = false)
    (p : List Char) : ∃ s, storedParts c p = .ok s := by
  by_cases hp : p = []
  · subst hp; exact ⟨_, storedParts_nil c⟩
  · unfold storedParts
    have hinit : ∃ l0 st0 it0, driveInit p = (l0, st0, it0) ∧ It.At p it0 ∧ it0.idx = (st0 + 1).toNat ∧
        it0.rest.length < p.length + 2 := by
      rcases driveInit_cases p with ⟨r, rfl, hd⟩ | ⟨_, hd⟩
      · exact ⟨_, _, _, hd, ⟨by simp, by simp⟩, rfl, by simp; omega⟩
      · exact ⟨_, _, _, hd, ⟨by simp, by simp⟩, rfl, by simp⟩
    obtain ⟨l0, st0, it0, hd, hat, hidx, hfuel⟩ := hinit
    rw [hd]
    rw [scan_eq]
    simp only [List.reverse_nil, List.nil_append]
    have hgood := scan'_good c.flags.extmatch p (p.length + 2) it0 it0.idx hat (Nat.le_refl _) (Or.inl rfl) hfuel
    rw [hidx] at hgood
    obtain ⟨hvals, htail⟩ := good_values p _ _ hgood
    obtain ⟨⟨l1, st1⟩, h1⟩ := storeAll_ok c hu ha p (scan' c.flags.extmatch (p.length + 2) it0) st0 l0 hvals
    simp only [h1]
    obtain ⟨hfin, _⟩ := storeAll_spec c p _ _ _ _ _ h1
    rw [← hfin] at htail
    by_cases hcond : st1 < (p.length : Int) ∧ (!(List.drop (st1 + 1).toNat p).isEmpty) = true
    · obtain ⟨l2, h2⟩ := store_ok c hu ha (p.drop (st1 + 1).toNat) l1 false htail
      simp only [hcond, and_self, if_true, h2]
      exact ⟨_, rfl⟩
    · simp only [hcond, if_false]
      exact ⟨_, rfl⟩

theorem withBase_head_drive (c : SplitCfg) (s : List GPart)
    (hd : ∀ q, s.head? = some q → q.isDrive = true → q = drivePart) :
    ((withBase c s).head?.map (·.isDrive)).getD false = (s.head?.map (·.isDrive)).getD false := by
  unfold withBase
  by_cases hb : (needBase c s && !((s.head?.map (·.isGlobstar)).getD false)) = true
  · simp only [hb, if_true, List.head?_cons, Option.map_some, Option.getD_some]
    have hbase : (basePart c).isDrive = false := by
      rcases basePart_cases c with ⟨h, _, _⟩ | h <;> rw [h]
    rw [hbase]
    rw [Bool.and_eq_true] at hb
    replace hb := hb.1
    unfold needBase at hb
    cases hs : s.head? with
    | none => rfl
    | some q =>
      simp only [Option.map_some, Option.getD_some]
      cases hq : q.isDrive with
      | false => rfl
      | true =>
        have := hd q hs hq
        subst this
        simp [hs, drivePart] at hb
  · simp only [hb, Bool.false_eq_true, if_false]

/-- **`_GlobSplit(p, flags).split()` as a total function of its outcome** (no `_ANCHOR` in the
    word, which `glob.FLAG_MASK` guarantees): Windows rules are not modelled; under Unix rules it
    raises `ValueError` exactly when `_NOABSOLUTE` is set and the pattern starts with `/`, and
    returns a part list in every other case. -/
theorem globSplit_total (f : Flags) (isBytes : Bool) (p : List Char) (ha : f.anchor = false) :
    (isUnixStyle f = false ∧ globSplit f isBytes p = .error .windows) ∨
    (isUnixStyle f = true ∧ f.noabsolute = true ∧ (effPattern f p).head? = some '/' ∧
      globSplit f isBytes p = .error .noAbsolute) ∨
    (isUnixStyle f = true ∧ ¬ (f.noabsolute = true ∧ (effPattern f p).head? = some '/') ∧
      ∃ parts, globSplit f isBytes p = .ok parts) := by
  rw [globSplit_eq]
  cases hu : isUnixStyle f with
  | false => left; simp
  | true =>
    right
    simp only [Bool.not_true, Bool.false_eq_true, if_false]
    have hu' : isUnixStyle (SplitCfg.ofFlags f isBytes).flags = true := by
      simpa [SplitCfg.ofFlags, isUnixStyle] using hu
    have ha' : (SplitCfg.ofFlags f isBytes).flags.anchor = false := ha
    obtain ⟨s, hs⟩ := storedParts_ok (SplitCfg.ofFlags f isBytes) hu' ha' (effPattern f p)
    simp only [hs]
    obtain ⟨hne, _, hok, habs, hrel⟩ := storedParts_shape _ _ _ hs
    have hhead : ((withBase (SplitCfg.ofFlags f isBytes) s).head?.map (·.isDrive)).getD false =
        decide ((effPattern f p).head? = some '/') := by
      rw [withBase_head_drive]
      · by_cases hh : (effPattern f p).head? = some '/'
        · simp [habs hh, hh, drivePart]
        · simp only [hh, decide_false]
          cases hs0 : s.head? with
          | none => rfl
          | some q => simp [hrel hh q (List.mem_of_mem_head? hs0)]
      · intro q hq hqd
        rcases hok q (List.mem_of_mem_head? hq) with h | ⟨v, d, hst, _⟩
        · exact h
        · rw [hst.drive] at hqd; cases hqd
    rw [hhead]
    have hna : (SplitCfg.ofFlags f isBytes).flags.noabsolute = f.noabsolute := rfl
    rw [hna]
    by_cases hc : f.noabsolute = true ∧ (effPattern f p).head? = some '/'
    · left
      simp [hc.1, hc.2]
    · right
      refine ⟨trivial, hc, withBase (SplitCfg.ofFlags f isBytes) s, ?_⟩
      have : (f.noabsolute && decide ((effPattern f p).head? = some '/')) = false := by
        cases hn : f.noabsolute with
        | false => rfl
        | true =>
          have : (effPattern f p).head? ≠ some '/' := fun h => hc ⟨hn, h⟩
          simp [this]
      simp only [this, Bool.false_eq_true, if_false]

/-- **noabsolute_raises, `_GlobSplit` site** -/
theorem globSplit_noabs_iff (f : Flags) (isBytes : Bool) (p : List Char) (ha : f.anchor = false) :
    globSplit f isBytes p = .error .noAbsolute ↔
      (isUnixStyle f = true ∧ f.noabsolute = true ∧ (effPattern f p).head? = some '/') := by
  rcases globSplit_total f isBytes p ha with ⟨h1, h2⟩ | ⟨h1, h2, h3, h4⟩ | ⟨h1, h2, parts, h3⟩
  · rw [h2, h1]; simp
  · rw [h4]; simp [h1, h2, h3]
  · rw [h3]
    constructor
    · intro h; cases h
    · intro h; exact absurd ⟨h.2.1, h.2.2⟩ h2

/-! ## Part 3: the two models of the `seen` set agree -/

theorem lowerChar_eq (c : Char) : lowerChar c = asciiLower c := by
  unfold lowerChar asciiLower
  by_cases h1 : 'A' ≤ c <;> by_cases h2 : c ≤ 'Z' <;> simp [h1, h2]

theorem lowerAscii_eq (s : List Char) : lowerAscii s = lowerS s := by
  unfold lowerAscii lowerS
  exact List.map_congr_left (fun c _ => lowerChar_eq c)

theorem isSep_false (c : Char) : isSep false c = decide (c = '/') := by
  unfold isSep
  by_cases h1 : c = '/' <;> simp [h1]

/-- the walker model's `re_pathlib_norm.sub` (`Model/GlobWalk.lean` `pathlibDots`) IS the pathlib
    model's (`Model/Pathlib.lean` `dotNormGo`) with the POSIX regex — on every path (since the D16
    repair both port `(?:((?<=^)|(?<=/))\.(?:/|$))+`, including `$` before a final newline) -/
theorem pathlibDots_eq : ∀ (b : Bool) (s : List Char), pathlibDots b s = dotNormGo false b s
  | _, [] => rfl
  | b, [c] => by
    simp only [pathlibDots, dotNormGo]
    by_cases hc : c = '.' <;> simp [hc]
  | b, c :: d :: rest => by
    simp only [pathlibDots, dotNormGo, isSep_false]
    by_cases hbc : (b && decide (c = '.')) = true
    · have hbc' : (b && c == '.') = true := by simpa using hbc
      simp only [hbc, hbc', if_true]
      by_cases hd : d = '/'
      · simp only [hd, decide_true, if_true]
        exact pathlibDots_eq true rest
      · simp only [hd, decide_false, Bool.false_eq_true, if_false]
        by_cases hnl : (d == '\n' && rest.isEmpty) = true
        · have hnl' : (decide (d = '\n') && rest.isEmpty) = true := by simpa using hnl
          simp only [hnl, hnl', if_true]
        · have hnl' : ¬ ((decide (d = '\n') && rest.isEmpty) = true) := by simpa using hnl
          simp only [hnl, hnl', Bool.false_eq_true, if_false]
          rw [pathlibDots_eq false (d :: rest)]
    · have hbc' : ¬ ((b && c == '.') = true) := by simpa using hbc
      simp only [hbc, hbc', Bool.false_eq_true, if_false]
      rw [pathlibDots_eq _ (d :: rest)]

/-- the two `_pathlib_norm` models agree on every path -/
theorem pathlibNorm_eq (p : List Char) :
    WcModel.pathlibNorm p = Pathlib.pathlibNorm false false p := by
  unfold WcModel.pathlibNorm Pathlib.pathlibNorm dotNorm
  rw [pathlibDots_eq true p]
  generalize dotNormGo false true p = q
  simp only
  cases hq : q.getLast? with
  | none => simp
  | some c =>
    simp only [isSep, Bool.false_and, Bool.or_false]
    by_cases hc : c = '/'
    · subst hc; simp
    · have : (c == '/') = false := by simpa using hc
      simp [this]

/-- the former finding `norm_models_differ` (the walker model's port lacked the
    `$`-before-a-final-newline rule), now settled by the D16 repair of the model: on a path whose
    last component is `.⏎` both models give what Python gives.  (The REAL-CODE consequence stays:
    `_pathlib_norm(".\n") = "\n"`, so `Path('.').glob('?(.)\n', DOTMATCH|EXTGLOB)` yields only one of
    the two different files `"\n"` and `".\n"` while `glob.glob` yields both.) -/
theorem norm_models_agree_nl :
    WcModel.pathlibNorm ".\n".toList = "\n".toList ∧ Pathlib.pathlibNorm false false ".\n".toList = "\n".toList ∧
    WcModel.pathlibNorm "d/.\n".toList = "d/\n".toList ∧ Pathlib.pathlibNorm false false "d/.\n".toList = "d/\n".toList := by
  decide

/-- the de-duplication configuration of a walker context, as `Model/Pathlib.lean` names it -/
def ucfgOf (w : WCtx) : UCfg :=
  { nounique := w.nounique, caseSensitive := w.caseSensitive, pathlib := w.pathlib, mark := w.mark }

theorem codeReWin_false : codeReWin = false := by decide

theorem uniqKey_eq (w : WCtx) (p : List Char) : uniqKey w p = seenKey (ucfgOf w) p := by
  unfold uniqKey seenKey ucfgOf
  simp only [codeReWin_false]
  cases w.pathlib <;> cases w.caseSensitive <;> simp [pathlibNorm_eq p, lowerAscii_eq]

theorem pjoin_empty_eq (a : List Char) : pjoin a [] = joinEmpty '/' a := by
  unfold pjoin joinEmpty
  cases hl : a.getLast? with
  | none =>
    have : a = [] := by simpa using hl
    subst this; simp
  | some c =>
    have hne : a ≠ [] := by intro h; subst h; simp at hl
    by_cases hc : c = '/'
    · subst hc; simp
    · have : (c == '/') = false := by simpa using hc
      simp [hne, hc, this]

/-- `_format_path`'s string, in both models -/
theorem formatPath_eq (w : WCtx) (dirOnly : Bool) (v : Y) :
    formatPath w dirOnly v = Cand.formatted (ucfgOf w) '/' ⟨v.path, v.isDir, dirOnly⟩ := by
  unfold formatPath Cand.formatted ucfgOf
  simp only [pjoin_empty_eq]

theorem seenFilter_congr {α κ : Type} [DecidableEq κ] (k₁ k₂ : α → κ) :
    ∀ (l : List α) (seen : List κ), (∀ x ∈ l, k₁ x = k₂ x) → seenFilter k₁ seen l = seenFilter k₂ seen l := by
  intro l
  induction l with
  | nil => intro _ _; rfl
  | cons x xs ih =>
    intro seen h
    have hx := h x List.mem_cons_self
    have ht : ∀ y ∈ xs, k₁ y = k₂ y := fun y hy => h y (List.mem_cons_of_mem _ hy)
    simp only [seenFilter, hx]
    split
    · exact ih seen ht
    · rw [ih _ ht]

/-- the `seen` set threaded through the event list is the first-occurrence filter of the results -/
theorem results_uniqEv (w : WCtx) : ∀ (l : List (Ev (List Char))) (seen : List (List Char)),
    results (uniqEv w seen l) = if w.nounique then results l else seenFilter (uniqKey w) seen (results l) := by
  intro l
  induction l with
  | nil => intro _; simp [uniqEv, seenFilter]
  | cons e r ih =>
    intro seen
    cases e with
    | scan p => simp only [uniqEv, results_cons_scan]; exact ih seen
    | oof => simp only [uniqEv, results_cons_oof]; exact ih seen
    | y p =>
      simp only [uniqEv, results_cons_y]
      cases hn : w.nounique with
      | true => simp only [if_true, results_cons_y]; rw [ih, hn]; rfl
      | false =>
        simp only [Bool.false_eq_true, if_false, seenFilter]
        split
        · rw [ih, hn]; rfl
        · rw [results_cons_y, ih, hn]; rfl

/-- the candidate stream `_format_path` is called on during one `Glob.glob()` run: for each
    pattern, what the walk finds and no exclusion pattern matches, with the pattern's `dir_only` -/
def candsOf (w : WCtx) (fs : FS) (fuel : Nat) (ps : List (List GPart)) : List Cand :=
  ps.flatMap (fun p => ((results (globPattern w.toWalkCfg fs fuel p)).filter (fun v => !isExcluded w v)).map
    (fun v => ⟨v.path, v.isDir, dirOnlyOf p⟩))

theorem perPatterns_eq_formatted (w : WCtx) (fs : FS) (fuel : Nat) (ps : List (List GPart)) :
    ps.flatMap (perPattern w fs fuel) = (candsOf w fs fuel ps).map (Cand.formatted (ucfgOf w) '/') := by
  unfold candsOf
  induction ps with
  | nil => rfl
  | cons p r ih =>
    simp only [List.flatMap_cons, List.map_append, ih, perPattern_eq, List.map_map]
    congr 1
    apply List.map_congr_left
    intro v _
    exact formatPath_eq w (dirOnlyOf p) v

/-- **the walker's result list is `formatPaths` of its candidate stream** — the `seen`-set model
    the C16 uniqueness theorems are about (`Model/Pathlib.lean`, tied to the code by K8) is the one
    the walker model uses (`Model/GlobWalk.lean`, tied by K5) — unconditionally since the D16
    repair (both hold the POSIX `_pathlib_norm` regex). -/
theorem globResults_eq_formatPaths (w : WCtx) (fs : FS) (fuel : Nat) (ps : List (List GPart)) :
    globResults w fs fuel ps = formatPaths (ucfgOf w) '/' (candsOf w fs fuel ps) := by
  rw [globResults_eq, results_uniqEv, results_patterns, perPatterns_eq_formatted]
  unfold formatPaths
  have : (ucfgOf w).nounique = w.nounique := rfl
  rw [this]
  cases w.nounique with
  | true => rfl
  | false =>
    simp only [Bool.false_eq_true, if_false]
    exact seenFilter_congr _ _ _ _ (fun x _ => uniqKey_eq w x)

end WcModel.PathlibViews

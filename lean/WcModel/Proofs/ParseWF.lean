import WcModel.Model.ToRe
import WcModel.Model.WinDrive
/-
  C10 — every string compiles to a well-formed regex (on the faithful port of `WcParse`).

  `WF o l`  : the FORWARD item list `l` is well formed.  `o = false` ("closed"): no
              placeholder, every `invOpen` is directly followed by its `closed`, no stray
              `closed`; bodies/tails are closed-WF recursively.  `o = true` ("open"):
              additionally an `invOpen` may be directly followed by a placeholder `ph`.
  `WFr o l` : the same for a REVERSED list (the parser's `current`/`extended` stacks).

  Plan of the file
    1. `WF`/`WFr`, `phCount`, closure lemmas, `eraseCapL`, `cleanUpGo_spec`/`cleanUpInverse_spec`
       (an open-WF stack with k placeholders becomes closed-WF, counter decremented by k).
    2. fuel adequacy: `toRe_fuel` (`seqToRe f` needs `f ≥ sizeL`, `listToRe f` needs
       `f ≥ sizeL + 1`), hence `Parsed.toRe_isSome_of_WF`.
    3. the parser.  The big model functions are not unfolded by `simp` (structure updates
       explode); instead their local helper functions are copied verbatim as top-level
       definitions (`hsSel`/`hsBody`, `peEnter`/`peFinish`/`peBuild`/`peClose`, `elCont`/`elOther`,
       `rlOther`, `rootPre`/`rootPost`) and tied to the model by `rfl` equations
       (`handleStar_eq`, `parseExtend_succ`, `extLoop_succ`, `rootLoop_succ`, `root_eq`), so the
       model's executable behaviour is untouched and the kernel checks the copies.
       Invariants: inside a list (`inList`) the stack is closed-WF and `invExt` is unchanged
       by every completed step (`ELPost`, `PEPost`); at top level (`Top`) the stack is open-WF,
       `phCount cur = ps.invExt`, and — needed because `_handle_star` OVERWRITES `current[-1]`
       when it emits a globstar — whenever `dirStart ∨ afterStart` the last item is `Simple`
       (not a placeholder / closing item).
    4. `root`, `_parse`, the goal theorem `parse_toRe_isSome`, `DriveOK` for the real drive
       scanner, non-vacuity and necessity witnesses.
-/
namespace WcModel

inductive WF : Bool → List Item → Prop
  | nil {o} : WF o []
  | re {o r l} : WF o l → WF o (Item.re r :: l)
  | empty {o l} : WF o l → WF o (Item.empty :: l)
  | bar {o l} : WF o l → WF o (Item.bar :: l)
  | group {o k c body l} : WF false body → WF o l → WF o (Item.group k c body :: l)
  | inv {o c body tail eop star l} : WF false body → WF false tail → WF o l →
      WF o (Item.invOpen c body :: Item.closed tail eop star :: l)
  | invPh {c body star l} : WF false body → WF true l →
      WF true (Item.invOpen c body :: Item.ph star :: l)

/-- the same on a reversed list (head = last element) -/
inductive WFr : Bool → List Item → Prop
  | nil {o} : WFr o []
  | re {o r l} : WFr o l → WFr o (Item.re r :: l)
  | empty {o l} : WFr o l → WFr o (Item.empty :: l)
  | bar {o l} : WFr o l → WFr o (Item.bar :: l)
  | group {o k c body l} : WF false body → WFr o l → WFr o (Item.group k c body :: l)
  | inv {o c body tail eop star l} : WF false body → WF false tail → WFr o l →
      WFr o (Item.closed tail eop star :: Item.invOpen c body :: l)
  | invPh {c body star l} : WF false body → WFr true l →
      WFr true (Item.ph star :: Item.invOpen c body :: l)

/-- number of top-level placeholders -/
def phCount : List Item → Nat
  | [] => 0
  | .ph _ :: l => phCount l + 1
  | _ :: l => phCount l

@[simp] theorem phCount_nil : phCount [] = 0 := rfl
@[simp] theorem phCount_ph (s l) : phCount (.ph s :: l) = phCount l + 1 := rfl
@[simp] theorem phCount_re (r l) : phCount (.re r :: l) = phCount l := rfl
@[simp] theorem phCount_empty (l) : phCount (.empty :: l) = phCount l := rfl
@[simp] theorem phCount_bar (l) : phCount (.bar :: l) = phCount l := rfl
@[simp] theorem phCount_group (k c b l) : phCount (.group k c b :: l) = phCount l := rfl
@[simp] theorem phCount_invOpen (c b l) : phCount (.invOpen c b :: l) = phCount l := rfl
@[simp] theorem phCount_closed (t e s l) : phCount (.closed t e s :: l) = phCount l := rfl

theorem phCount_append (a b : List Item) : phCount (a ++ b) = phCount a + phCount b := by
  induction a with
  | nil => simp
  | cons x a ih => cases x <;> simp [ih] <;> omega

/-! ### basic closure properties -/

theorem WF.mono {o l} (h : WF o l) : WF true l := by
  induction h with
  | nil => exact .nil
  | re _ ih => exact .re ih
  | empty _ ih => exact .empty ih
  | bar _ ih => exact .bar ih
  | group hb _ _ ih => exact .group hb ih
  | inv hb ht _ _ _ ih => exact .inv hb ht ih
  | invPh hb _ _ ih => exact .invPh hb ih

theorem WFr.mono {o l} (h : WFr o l) : WFr true l := by
  induction h with
  | nil => exact .nil
  | re _ ih => exact .re ih
  | empty _ ih => exact .empty ih
  | bar _ ih => exact .bar ih
  | group hb _ ih => exact .group hb ih
  | inv hb ht _ ih => exact .inv hb ht ih
  | invPh hb _ ih => exact .invPh hb ih

theorem WF.append {o a b} (ha : WF o a) (hb : WF o b) : WF o (a ++ b) := by
  induction ha with
  | nil => simpa using hb
  | re _ ih => exact .re (ih hb)
  | empty _ ih => exact .empty (ih hb)
  | bar _ ih => exact .bar (ih hb)
  | group hbody _ _ ih => exact .group hbody (ih hb)
  | inv hbody ht _ _ _ ih => exact .inv hbody ht (ih hb)
  | invPh hbody _ _ ih => exact .invPh hbody (ih hb)

theorem WFr.append {o a b} (ha : WFr o a) (hb : WFr o b) : WFr o (a ++ b) := by
  induction ha with
  | nil => simpa using hb
  | re _ ih => exact .re (ih hb)
  | empty _ ih => exact .empty (ih hb)
  | bar _ ih => exact .bar (ih hb)
  | group hbody _ ih => exact .group hbody (ih hb)
  | inv hbody ht _ ih => exact .inv hbody ht (ih hb)
  | invPh hbody _ ih => exact .invPh hbody (ih hb)

theorem WFr.toWF {o l} (h : WFr o l) : WF o l.reverse := by
  induction h with
  | nil => exact .nil
  | re _ ih => simpa using ih.append (.re .nil)
  | empty _ ih => simpa using ih.append (.empty .nil)
  | bar _ ih => simpa using ih.append (.bar .nil)
  | group hb _ ih => simpa using ih.append (.group hb .nil)
  | inv hb ht _ ih => simpa using ih.append (.inv hb ht .nil)
  | invPh hb _ ih => simpa using ih.append (.invPh hb .nil)

theorem WF.toWFr {o l} (h : WF o l) : WFr o l.reverse := by
  induction h with
  | nil => exact .nil
  | re _ ih => simpa using ih.append (.re .nil)
  | empty _ ih => simpa using ih.append (.empty .nil)
  | bar _ ih => simpa using ih.append (.bar .nil)
  | group hb _ _ ih => simpa using ih.append (.group hb .nil)
  | inv hb ht _ _ _ ih => simpa using ih.append (.inv hb ht .nil)
  | invPh hb _ _ ih => simpa using ih.append (.invPh hb .nil)

theorem WFr.phCount_eq_zero {l} (h : WFr false l) : phCount l = 0 := by
  generalize ho : false = o at h
  induction h with
  | nil => rfl
  | re _ ih => simpa using ih ho
  | empty _ ih => simpa using ih ho
  | bar _ ih => simpa using ih ho
  | group _ _ ih => simpa using ih ho
  | inv _ _ _ ih => simpa using ih ho
  | invPh _ _ _ => cases ho

theorem WF.phCount_eq_zero {l} (h : WF false l) : phCount l = 0 := by
  generalize ho : false = o at h
  induction h with
  | nil => rfl
  | re _ ih => simpa using ih ho
  | empty _ ih => simpa using ih ho
  | bar _ ih => simpa using ih ho
  | group _ _ _ ih => simpa using ih ho
  | inv _ _ _ _ _ ih => simpa using ih ho
  | invPh _ _ _ _ => cases ho

theorem WFr.close {o l} (h : WFr o l) (h0 : phCount l = 0) : WFr false l := by
  induction h with
  | nil => exact .nil
  | re _ ih => exact .re (ih (by simpa using h0))
  | empty _ ih => exact .empty (ih (by simpa using h0))
  | bar _ ih => exact .bar (ih (by simpa using h0))
  | group hb _ ih => exact .group hb (ih (by simpa using h0))
  | inv hb ht _ ih => exact .inv hb ht (ih (by simpa using h0))
  | invPh _ _ _ => simp at h0

/-- every item is a plain regex fragment -/
theorem WF.of_all_re {o} : ∀ {l : List Item}, (∀ x ∈ l, ∃ r, x = Item.re r) → WF o l
  | [], _ => .nil
  | x :: l, h => by
    obtain ⟨r, rfl⟩ := h x (by simp)
    exact .re (WF.of_all_re (fun y hy => h y (by simp [hy])))

/-! ### `eraseCapL` preserves well-formedness -/

theorem WF.eraseCapL {o l} (h : WF o l) : WF o (Item.eraseCapL l) := by
  induction h with
  | nil => simpa [Item.eraseCapL] using WF.nil
  | re _ ih => simpa [Item.eraseCapL, Item.eraseCap] using WF.re ih
  | empty _ ih => simpa [Item.eraseCapL, Item.eraseCap] using WF.empty ih
  | bar _ ih => simpa [Item.eraseCapL, Item.eraseCap] using WF.bar ih
  | group _ _ ihb ih => simpa [Item.eraseCapL, Item.eraseCap] using WF.group ihb ih
  | inv _ _ _ ihb iht ih => simpa [Item.eraseCapL, Item.eraseCap] using WF.inv ihb iht ih
  | invPh _ _ ihb ih => simpa [Item.eraseCapL, Item.eraseCap] using WF.invPh ihb ih

/-! ### `clean_up_inverse` -/

theorem cleanUpGo_spec (cfg : Cfg) (nested : Bool) {o rev} (h : WFr o rev) :
    ∀ done n, WF false done →
      WF false (cleanUpGo cfg nested rev done n).1 ∧
      (cleanUpGo cfg nested rev done n).2 = n + phCount rev := by
  induction h with
  | nil => intro done n hd; simpa [cleanUpGo] using hd
  | re _ ih => intro done n hd; simpa [cleanUpGo] using ih _ n (.re hd)
  | empty _ ih => intro done n hd; simpa [cleanUpGo] using ih _ n (.empty hd)
  | bar _ ih => intro done n hd; simpa [cleanUpGo] using ih _ n (.bar hd)
  | group hb _ ih => intro done n hd; simpa [cleanUpGo] using ih _ n (.group hb hd)
  | inv hb ht _ ih => intro done n hd; simpa [cleanUpGo] using ih _ n (.inv hb ht hd)
  | @invPh c body star l hb _ ih =>
    intro done n hd
    have hc : WF false (if cfg.capture = true then Item.eraseCapL done else done) := by
      split
      · exact hd.eraseCapL
      · exact hd
    have := ih _ (n + 1) (.inv (c := c) (eop := if nested then none else some cfg.eop)
      (star := star) hb hc hd)
    simp only [cleanUpGo, phCount_ph, phCount_invOpen]
    refine ⟨this.1, ?_⟩
    rw [this.2]; omega

theorem cleanUpInverse_spec (cfg : Cfg) (ps : PS) (cur : List Item) (nested : Bool)
    (h : WFr true cur) (hle : phCount cur ≤ ps.invExt) :
    WFr false (cleanUpInverse cfg ps cur nested).1 ∧
    (cleanUpInverse cfg ps cur nested).2.invExt = ps.invExt - phCount cur ∧
    (cleanUpInverse cfg ps cur nested).2.inList = ps.inList := by
  unfold cleanUpInverse
  split
  · rename_i h0
    have : phCount cur = 0 := by omega
    refine ⟨h.close this, ?_, ?_⟩ <;> simp [this]
  · have := cleanUpGo_spec cfg nested h [] 0 .nil
    simp only
    refine ⟨this.1.toWFr, ?_, ?_⟩ <;> simp [this.2]

/-! ### fuel adequacy of `Item.listToRe` on closed-WF lists -/

/-- closed-WF and bar free: one alternative of a list -/
inductive WFnb : List Item → Prop
  | nil : WFnb []
  | re {r l} : WFnb l → WFnb (Item.re r :: l)
  | empty {l} : WFnb l → WFnb (Item.empty :: l)
  | group {k c body l} : WF false body → WFnb l → WFnb (Item.group k c body :: l)
  | inv {c body tail eop star l} : WF false body → WF false tail → WFnb l →
      WFnb (Item.invOpen c body :: Item.closed tail eop star :: l)

theorem Item.sizeL_pos (l : List Item) : 1 ≤ Item.sizeL l := by
  induction l with
  | nil => simp [Item.sizeL]
  | cons x l ih => simp [Item.sizeL]; omega

theorem Item.sizeL_append (a b : List Item) : Item.sizeL (a ++ b) + 1 = Item.sizeL a + Item.sizeL b := by
  induction a with
  | nil => simp [Item.sizeL]; omega
  | cons x a ih => simp [Item.sizeL]; omega

theorem splitBars_spec {l} (h : WF false l) :
    ∃ a as, splitBars l = a :: as ∧ WFnb a ∧ Item.sizeL a ≤ Item.sizeL l ∧
      ∀ p ∈ as, WFnb p ∧ Item.sizeL p ≤ Item.sizeL l := by
  generalize ho : false = o at h
  induction h with
  | nil => exact ⟨[], [], rfl, .nil, Nat.le_refl _, by simp⟩
  | @re o r l _ ih =>
    obtain ⟨a, as, h1, h2, h3, h4⟩ := ih ho
    refine ⟨.re r :: a, as, by simp [splitBars, h1], .re h2, by simp [Item.sizeL, Item.size]; omega, ?_⟩
    intro p hp; have := h4 p hp; refine ⟨this.1, ?_⟩; simp [Item.sizeL, Item.size]; omega
  | @empty o l _ ih =>
    obtain ⟨a, as, h1, h2, h3, h4⟩ := ih ho
    refine ⟨.empty :: a, as, by simp [splitBars, h1], .empty h2, by simp [Item.sizeL, Item.size]; omega, ?_⟩
    intro p hp; have := h4 p hp; refine ⟨this.1, ?_⟩; simp [Item.sizeL, Item.size]; omega
  | @bar o l _ ih =>
    obtain ⟨a, as, h1, h2, h3, h4⟩ := ih ho
    refine ⟨[], a :: as, by simp [splitBars, h1], .nil, by simp [Item.sizeL, Item.size], ?_⟩
    intro p hp
    simp only [List.mem_cons] at hp
    rcases hp with rfl | hp
    · exact ⟨h2, by simp [Item.sizeL, Item.size]; omega⟩
    · have := h4 p hp; refine ⟨this.1, ?_⟩; simp [Item.sizeL, Item.size]; omega
  | @group o k c body l hb _ _ ih =>
    obtain ⟨a, as, h1, h2, h3, h4⟩ := ih ho
    refine ⟨.group k c body :: a, as, by simp [splitBars, h1], .group hb h2,
      by simp [Item.sizeL, Item.size]; omega, ?_⟩
    intro p hp; have := h4 p hp; refine ⟨this.1, ?_⟩; simp [Item.sizeL, Item.size]; omega
  | @inv o c body tail eop star l hb ht _ _ _ ih =>
    obtain ⟨a, as, h1, h2, h3, h4⟩ := ih ho
    refine ⟨.invOpen c body :: .closed tail eop star :: a, as, by simp [splitBars, h1],
      .inv hb ht h2, by simp [Item.sizeL, Item.size]; omega, ?_⟩
    intro p hp; have := h4 p hp; refine ⟨this.1, ?_⟩; simp [Item.sizeL, Item.size]; omega
  | invPh _ _ _ _ => cases ho

theorem mapM_option_isSome {α β} (g : α → Option β) :
    ∀ xs : List α, (∀ x ∈ xs, (g x).isSome = true) → (xs.mapM g).isSome = true
  | [], _ => by simp
  | x :: xs, h => by
    have h1 := h x (by simp)
    have h2 := mapM_option_isSome g xs (fun y hy => h y (by simp [hy]))
    obtain ⟨v, hv⟩ := Option.isSome_iff_exists.mp h1
    obtain ⟨w, hw⟩ := Option.isSome_iff_exists.mp h2
    simp [List.mapM_cons, hv, hw]

theorem toRe_fuel : ∀ f : Nat,
    (∀ l, WFnb l → Item.sizeL l ≤ f → (Item.seqToRe f l).isSome = true) ∧
    (∀ l, WF false l → Item.sizeL l + 1 ≤ f → (Item.listToRe f l).isSome = true)
  | 0 => by
    refine ⟨fun l _ h => ?_, fun l _ h => ?_⟩
    · have := Item.sizeL_pos l; omega
    · omega
  | f+1 => by
    have ih := toRe_fuel f
    refine ⟨fun l hl hs => ?_, fun l hl hs => ?_⟩
    · cases hl with
      | nil => simp [Item.seqToRe]
      | @re r rest h =>
        simp only [Item.sizeL, Item.size] at hs
        obtain ⟨v, hv⟩ := Option.isSome_iff_exists.mp (ih.1 rest h (by omega))
        simp [Item.seqToRe, hv]
      | @empty rest h =>
        simp only [Item.sizeL, Item.size] at hs
        simpa [Item.seqToRe] using ih.1 rest h (by omega)
      | @group k c body rest hb h =>
        simp only [Item.sizeL, Item.size] at hs
        have := Item.sizeL_pos rest
        obtain ⟨v, hv⟩ := Option.isSome_iff_exists.mp (ih.1 rest h (by omega))
        obtain ⟨w, hw⟩ := Option.isSome_iff_exists.mp (ih.2 body hb (by omega))
        simp [Item.seqToRe, hv, hw]
      | @inv c body tail eop star rest hb ht h =>
        simp only [Item.sizeL, Item.size] at hs
        have := Item.sizeL_pos rest
        have := Item.sizeL_pos body
        obtain ⟨v, hv⟩ := Option.isSome_iff_exists.mp (ih.1 rest h (by omega))
        obtain ⟨w, hw⟩ := Option.isSome_iff_exists.mp (ih.2 body hb (by omega))
        have key : ∀ E : List Item, WF false E → Item.sizeL E ≤ 2 →
            ∃ u, Item.listToRe f (Item.re (.grp w) :: (tail ++ E)) = some u := by
          intro E hE hEs
          have hla : WF false (Item.re (.grp w) :: (tail ++ E)) := .re (ht.append hE)
          have := Item.sizeL_append tail E
          exact Option.isSome_iff_exists.mp
            (ih.2 _ hla (by simp only [Item.sizeL, Item.size]; omega))
        rcases eop with _ | e
        · obtain ⟨u, hu⟩ := key [] .nil (by simp [Item.sizeL])
          simp only [List.append_nil] at hu
          simp [Item.seqToRe, hv, hw, hu]
        · obtain ⟨u, hu⟩ := key [.re e] (.re .nil) (by simp [Item.sizeL, Item.size])
          simp [Item.seqToRe, hv, hw, hu]
    · obtain ⟨a, as, h1, h2, h3, h4⟩ := splitBars_spec hl
      have : ((splitBars l).mapM (Item.seqToRe f)).isSome = true := by
        apply mapM_option_isSome
        intro p hp
        rw [h1] at hp
        simp only [List.mem_cons] at hp
        rcases hp with rfl | hp
        · exact ih.1 _ h2 (by omega)
        · exact ih.1 _ (h4 p hp).1 (by have := (h4 p hp).2; omega)
      obtain ⟨v, hv⟩ := Option.isSome_iff_exists.mp this
      simp [Item.listToRe, hv]

/-- a closed-WF item list always converts to a regex AST -/
theorem Parsed.toRe_isSome_of_WF (p : Parsed) (h : WF false p.items) : p.toRe.isSome = true := by
  obtain ⟨v, hv⟩ := Option.isSome_iff_exists.mp
    ((toRe_fuel (2 * Item.sizeL p.items + 4)).2 p.items h (by omega))
  simp [Parsed.toRe, hv]

/-! ## the parser preserves well-formedness -/

@[simp] theorem PS.setAfterStart_inList (p : PS) : p.setAfterStart.inList = p.inList := rfl
@[simp] theorem PS.setAfterStart_invExt (p : PS) : p.setAfterStart.invExt = p.invExt := rfl
@[simp] theorem PS.setStartDir_inList (p : PS) : p.setStartDir.inList = p.inList := rfl
@[simp] theorem PS.setStartDir_invExt (p : PS) : p.setStartDir.invExt = p.invExt := rfl
@[simp] theorem PS.resetDirTrack_inList (p : PS) : p.resetDirTrack.inList = p.inList := rfl
@[simp] theorem PS.resetDirTrack_invExt (p : PS) : p.resetDirTrack.invExt = p.invExt := rfl
@[simp] theorem PS.updateDirState_inList (p : PS) : p.updateDirState.inList = p.inList := by
  unfold PS.updateDirState; (repeat' split) <;> rfl
@[simp] theorem PS.updateDirState_invExt (p : PS) : p.updateDirState.invExt = p.invExt := by
  unfold PS.updateDirState; (repeat' split) <;> rfl

/-- `cur'` is as well formed as `cur`, with the same number of placeholders -/
def Keeps (cur cur' : List Item) : Prop :=
  (∀ o, WFr o cur → WFr o cur') ∧ phCount cur' = phCount cur

theorem Keeps.refl (cur) : Keeps cur cur := ⟨fun _ h => h, rfl⟩
theorem Keeps.re (r cur) : Keeps cur (.re r :: cur) := ⟨fun _ h => .re h, rfl⟩

def HS (ps : PS) (cur : List Item) (r : PS × It × List Item) : Prop :=
  r.1.inList = ps.inList ∧ r.1.invExt = ps.invExt ∧ Keeps cur r.2.2

/-- the "which star is this" selector of `handleStar`, copied verbatim -/
def hsSel (cfg : Cfg) (ps : PS) (it : It) (capture0 : Bool) : Bool × Bool × It × PS :=
    if ps.afterStart && ps.globstar && !ps.inList then
      -- second (and third) star; `prev` = iterator just before the last star read
      let (skip, capture, it, prev) : Bool × Bool × It × It :=
        match it.next with
        | none => (true, capture0, it, it)
        | some (c, it1) =>
          if c != '*' then (true, capture0, it, it)
          else if cfg.globstarlong then
            match it1.next with
            | none => (false, capture0, it1, it)
            | some (c2, it2) => if c2 != '*' then (false, capture0, it1, it) else (false, false, it2, it1)
          else (false, capture0, it1, it)
      if skip then (false, capture, it, ps)
      else
        match it.next with
        | none => (true, capture, it, ps)
        | some (c, it1) =>
          if c = '\\' then
            match referencesSeq cfg it1 with
            | .val _ _ => (false, capture, it, ps)
            | .dot _ => (false, capture, it, ps)
            | .pathname =>
              -- the escape was a separator: both characters are consumed
              (true, capture, it1.advance 1, { ps with matchbase := false })
            | .stop => (true, capture, it1, ps)
          else if c = '/' then (true, capture, it1, { ps with matchbase := false })
          else if c = '(' && cfg.extend then (false, capture, prev, ps)
          else (false, capture, it, ps)
    else (false, capture0, it, ps)

def hsBody (cfg : Cfg) (cur : List Item) (star globstar : Re) (t : Bool × Bool × It × PS) :
    PS × It × List Item :=
  let win := cfg.win
  let (isGlob, capture, it, ps) := t
  let globstar := if capture then Re.gcap globstar else globstar
  if !isGlob then
    let (value, it) :=
      if ps.afterStart then (Re.cat cfg.needChar star, dropStars cfg.extend it) else (star, it)
    (ps.resetDirTrack, it, .re value :: cur)
  else
    let ps := ps.resetDirTrack
    match cur with
    | last :: before =>
      if last.isDiv win then (ps.setStartDir, consumePathSep cfg it, cur)
      else
        let cur := if last.isEmpty then .re globstar :: before
                   else .re globstar :: .re (Frag.needSep win) :: before
        let it := consumePathSep cfg it
        (ps.setStartDir, it, .re (Frag.globstarDiv win) :: cur)
    | [] => (ps.setStartDir, it, cur)

def hsStar (cfg : Cfg) (ps : PS) : Re × Re :=
  let win := cfg.win
    if cfg.pathname then
      if ps.afterStart && !cfg.dot then (Frag.pathStarDot2 win, Frag.pathGstarDot2 win)
      else if ps.afterStart then (Frag.pathStarDot1 win, Frag.pathGstarDot1 win)
      else (Frag.pathStar win, Frag.pathGstarDot1 win)
    else
      if ps.afterStart && !cfg.dot then (.cat Frag.noDot Frag.star, .eps)
      else (Frag.star, .eps)

theorem handleStar_eq (cfg : Cfg) (ps : PS) (it : It) (cur : List Item) :
    handleStar cfg ps it cur =
      hsBody cfg cur (hsStar cfg ps).1 (hsStar cfg ps).2
        (hsSel cfg ps it (cfg.pathname && cfg.globstarCapture)) := by
  rfl

theorem hsSel_spec (cfg : Cfg) (ps : PS) (it : It) (c0 : Bool) :
    (hsSel cfg ps it c0).2.2.2.inList = ps.inList ∧ (hsSel cfg ps it c0).2.2.2.invExt = ps.invExt := by
  unfold hsSel
  repeat' split
  all_goals exact ⟨rfl, rfl⟩


/-- items that can be dropped or overwritten without breaking well-formedness -/
def Item.Simple : Item → Prop
  | .re _ => True
  | .empty => True
  | .bar => True
  | .group _ _ body => WF false body
  | _ => False

def simpleHead : List Item → Prop
  | [] => True
  | x :: _ => x.Simple

theorem Keeps.star3 (a b c cur) : Keeps cur (.re a :: .re b :: .re c :: cur) :=
  ⟨fun _ h => .re (.re (.re h)), rfl⟩
theorem Keeps.drop {x before} (hx : x.Simple) : Keeps (x :: before) before := by
  cases x <;> simp [Item.Simple] at hx
  all_goals refine ⟨fun _ h => ?_, by simp⟩
  all_goals cases h; assumption
theorem Keeps.trans {a b c} (h1 : Keeps a b) (h2 : Keeps b c) : Keeps a c :=
  ⟨fun o h => h2.1 o (h1.1 o h), by rw [h2.2, h1.2]⟩

theorem hsSel_glob (cfg : Cfg) (ps : PS) (it : It) (c0 : Bool)
    (h : (hsSel cfg ps it c0).1 = true) : ps.afterStart = true ∧ ps.inList = false := by
  unfold hsSel at h
  split at h
  · rename_i hc
    simp only [Bool.and_eq_true, Bool.not_eq_eq_eq_not, Bool.not_true] at hc
    exact ⟨hc.1.1, hc.2⟩
  · cases h

theorem handleStar_spec (cfg : Cfg) (ps : PS) (it : It) (cur : List Item)
    (hJ : ps.inList = false → ps.afterStart = true → simpleHead cur) :
    HS ps cur (handleStar cfg ps it cur) ∧ simpleHead (handleStar cfg ps it cur).2.2 := by
  rw [handleStar_eq]
  generalize (hsStar cfg ps).1 = star
  generalize (hsStar cfg ps).2 = globstar
  have := hsSel_spec cfg ps it (cfg.pathname && cfg.globstarCapture)
  have hg := hsSel_glob cfg ps it (cfg.pathname && cfg.globstarCapture)
  generalize hsSel cfg ps it (cfg.pathname && cfg.globstarCapture) = t at this hg
  obtain ⟨isGlob, capture, it', ps'⟩ := t
  obtain ⟨h1, h2⟩ := this
  simp only at h1 h2 hg
  unfold hsBody
  simp only
  split
  · exact ⟨⟨by simp [h1], by simp [h2], Keeps.re _ _⟩, trivial⟩
  · rename_i hglob
    simp only [Bool.not_eq_eq_eq_not, Bool.not_true, Bool.not_eq_false] at hglob
    have hJ' := hJ (hg hglob).2 (hg hglob).1
    split
    · rename_i last before
      split
      · refine ⟨⟨by simp [h1], by simp [h2], Keeps.refl _⟩, ?_⟩
        rename_i hd
        cases last <;> simp [Item.isDiv] at hd
        trivial
      · refine ⟨⟨by simp [h1], by simp [h2], ?_⟩, trivial⟩
        simp only
        split
        · exact (Keeps.drop hJ').trans ((Keeps.re _ _).trans (Keeps.re _ _))
        · exact (Keeps.drop hJ').trans (Keeps.star3 _ _ _ _)
    · exact ⟨⟨by simp [h1], by simp [h2], Keeps.refl _⟩, trivial⟩

def PEPost (ps : PS) (cur : List Item) (r : Bool × PS × It × List Item) : Prop :=
  r.2.1.inList = ps.inList ∧
  (ps.inList = true → WFr false cur → WFr false r.2.2.2 ∧ r.2.1.invExt = ps.invExt) ∧
  (ps.inList = false → WFr true cur → phCount cur = ps.invExt →
     WFr true r.2.2.2 ∧ phCount r.2.2.2 = r.2.1.invExt) ∧
  (r.1 = true → r.2.1.dirStart = false ∧ r.2.1.afterStart = false) ∧
  (r.1 = false → r.2.2.2 = cur ∧ r.2.1.dirStart = ps.dirStart ∧ r.2.1.afterStart = ps.afterStart)

def ELPost (k : Nat) : Except PS (PS × It × List Item) → Prop
  | .ok (ps', _, ext') => ps'.inList = true ∧ ps'.invExt = k ∧ WFr false ext'
  | .error ps' => ps'.inList = true

/-! copies of the local functions of `parseExtend` / `extLoop` -/

def peEnter (ps : PS) (listType : Char) (resetDot : Bool) : PS :=
  let ps := { ps with inList := true, invNest := listType = '!' }
  if resetDot then { ps with matchDotDir := false } else ps

def peFinish (ps0 : PS) (success : Bool) (ps : PS) (it : It) (cur : List Item) :
    Bool × PS × It × List Item :=
  let ps := if !ps0.inList then { ps with inList := false } else ps
  let ps := if !ps0.invNest then { ps with invNest := false } else ps
  let ps := if success then ps.resetDirTrack
            else { ps with dirStart := ps0.dirStart, afterStart := ps0.afterStart }
  (success, ps, it, cur)

def peFail (ps0 : PS) (index : It) (cur : List Item) (ps : PS) :=
  peFinish ps0 false { ps with invExt := ps0.invExt } index cur

def peBuild (cfg : Cfg) (ps0 : PS) (listType : Char) (cur : List Item) (ps : PS) (body : List Item) :
    List Item × PS :=
  let tAfterStart := ps0.afterStart
          if listType = '?' then (.group .q (if cfg.capture then .yes else .no) body :: cur, ps)
          else if listType = '*' then (.group .s (if cfg.capture then .yes else .no) body :: cur, ps)
          else if listType = '+' then (.group .p (if cfg.capture then .yes else .no) body :: cur, ps)
          else if listType = '@' then (.group .a (if cfg.capture then .yes else .no) body :: cur, ps)
          else
            let ps := { ps with invExt := ps.invExt + 1 }
            let star : Re :=
              if cfg.pathname then
                if !tAfterStart || ps.matchDotDir then Frag.pathStar cfg.win
                else if tAfterStart && !cfg.dot then Frag.pathStarDot2 cfg.win
                else Frag.pathStarDot1 cfg.win
              else
                if !tAfterStart || cfg.dot then Frag.star else .cat Frag.noDot Frag.star
            let star := if tAfterStart then Re.cat cfg.needChar star else star
            (.ph star :: .invOpen cfg.capture body :: cur, ps)

def peClose (cfg : Cfg) (ps0 : PS) (it : It) (r : List Item × PS) : Bool × PS × It × List Item :=
  let (cur, ps) := r
  let (cur, ps) :=
    if ps0.inList then cleanUpInverse cfg ps cur (ps0.invNest && ps.invNest) else (cur, ps)
  peFinish ps0 true ps it cur

theorem parseExtend_succ (cfg : Cfg) (fuel : Nat) (listType : Char) (it : It) (ps : PS)
    (cur : List Item) (resetDot : Bool) :
    parseExtend cfg (fuel+1) listType it ps cur resetDot =
      match it.next with
      | none => peFail ps it cur (peEnter ps listType resetDot)
      | some (c, it') =>
        if c != '(' then peFail ps it cur (peEnter ps listType resetDot) else
        match extLoop cfg fuel it' (peEnter ps listType resetDot) [] ps.afterStart ps.invNest with
        | .error ps' => peFail ps it cur ps'
        | .ok (ps1, it1, extended) =>
          peClose cfg ps it1 (peBuild cfg ps listType cur ps1 extended.reverse) := by
  rw [parseExtend]
  rfl


@[simp] theorem peEnter_inList (ps lt rd) : (peEnter ps lt rd).inList = true := by
  unfold peEnter; split <;> rfl
@[simp] theorem peEnter_invExt (ps lt rd) : (peEnter ps lt rd).invExt = ps.invExt := by
  unfold peEnter; split <;> rfl

theorem peFinish_spec (ps0 : PS) (s : Bool) (ps : PS) (it : It) (cur : List Item)
    (h : ps.inList = true) :
    ∃ ps', peFinish ps0 s ps it cur = (s, ps', it, cur) ∧ ps'.inList = ps0.inList ∧
      ps'.invExt = ps.invExt ∧
      (s = true → ps'.dirStart = false ∧ ps'.afterStart = false) ∧
      (s = false → ps'.dirStart = ps0.dirStart ∧ ps'.afterStart = ps0.afterStart) := by
  refine ⟨_, rfl, ?_, ?_, ?_, ?_⟩
  · cases h0 : ps0.inList <;> cases ps0.invNest <;> cases s <;> simp [PS.resetDirTrack, h]
  · cases ps0.inList <;> cases ps0.invNest <;> cases s <;> simp [PS.resetDirTrack]
  · intro hs; subst hs
    cases ps0.inList <;> cases ps0.invNest <;> simp [PS.resetDirTrack]
  · intro hs; subst hs
    cases ps0.inList <;> cases ps0.invNest <;> simp

theorem peFail_post (ps : PS) (it : It) (cur : List Item) (ps' : PS) (h : ps'.inList = true) :
    PEPost ps cur (peFail ps it cur ps') := by
  unfold peFail
  obtain ⟨q, hq, h1, h2, -, h4⟩ := peFinish_spec ps false { ps' with invExt := ps.invExt } it cur h
  rw [hq]
  refine ⟨h1, fun _ hc => ⟨hc, h2⟩, fun _ hc hn => ⟨hc, by simp [h2, hn]⟩, by simp, fun _ => ⟨rfl, h4 rfl⟩⟩

theorem peBuild_spec (cfg : Cfg) (ps0 : PS) (lt : Char) (cur : List Item) (ps1 : PS) (body : List Item)
    (hb : WF false body) :
    (peBuild cfg ps0 lt cur ps1 body).2.inList = ps1.inList ∧
    (WFr true cur → WFr true (peBuild cfg ps0 lt cur ps1 body).1) ∧
    phCount (peBuild cfg ps0 lt cur ps1 body).1 + ps1.invExt =
      phCount cur + (peBuild cfg ps0 lt cur ps1 body).2.invExt := by
  unfold peBuild
  simp only
  split
  · exact ⟨rfl, fun h => .group hb h, by simp⟩
  split
  · exact ⟨rfl, fun h => .group hb h, by simp⟩
  split
  · exact ⟨rfl, fun h => .group hb h, by simp⟩
  split
  · exact ⟨rfl, fun h => .group hb h, by simp⟩
  · exact ⟨rfl, fun h => .invPh hb h, by simp; omega⟩

theorem peClose_post (cfg : Cfg) (ps : PS) (it : It) (cur : List Item) (r : List Item × PS)
    (h1 : r.2.inList = true) (h2 : WFr true cur → WFr true r.1)
    (h3 : phCount r.1 + ps.invExt = phCount cur + r.2.invExt) :
    PEPost ps cur (peClose cfg ps it r) := by
  obtain ⟨cur1, ps1⟩ := r
  simp only at h1 h2 h3
  unfold peClose
  simp only
  cases hin : ps.inList
  · simp only [Bool.false_eq_true, if_false]
    obtain ⟨q, hq, g1, g2, g3, -⟩ := peFinish_spec ps true ps1 it cur1 h1
    rw [hq]
    refine ⟨by simp [g1, hin], by simp [hin], fun _ hc hn => ⟨h2 hc, ?_⟩, fun _ => g3 rfl, by simp⟩
    simp only; omega
  · simp only [if_true]
    have key : WFr false cur → WFr false (cleanUpInverse cfg ps1 cur1 (ps.invNest && ps1.invNest)).1 ∧
        (cleanUpInverse cfg ps1 cur1 (ps.invNest && ps1.invNest)).2.invExt = ps.invExt := by
      intro hc
      have h0 := hc.phCount_eq_zero
      have := cleanUpInverse_spec cfg ps1 cur1 (ps.invNest && ps1.invNest) (h2 hc.mono) (by omega)
      exact ⟨this.1, by rw [this.2.1]; omega⟩
    have hl : (cleanUpInverse cfg ps1 cur1 (ps.invNest && ps1.invNest)).2.inList = true := by
      unfold cleanUpInverse; split <;> simp [h1]
    generalize cleanUpInverse cfg ps1 cur1 (ps.invNest && ps1.invNest) = r at key hl
    obtain ⟨cur2, ps2⟩ := r
    simp only at key hl ⊢
    obtain ⟨q, hq, g1, g2, g3, -⟩ := peFinish_spec ps true ps2 it cur2 hl
    rw [hq]
    refine ⟨by simp [g1, hin], fun _ hc => ?_, by simp [hin], fun _ => g3 rfl, by simp⟩
    simp only
    exact ⟨(key hc).1, by rw [g2]; exact (key hc).2⟩

theorem parseExtend_step (cfg : Cfg) (n : Nat)
    (hEL : ∀ it ps ext a b, ps.inList = true → WFr false ext →
      ELPost ps.invExt (extLoop cfg n it ps ext a b))
    (lt : Char) (it : It) (ps : PS) (cur : List Item) (rd : Bool) :
    PEPost ps cur (parseExtend cfg (n+1) lt it ps cur rd) := by
  rw [parseExtend_succ]
  split
  · exact peFail_post _ _ _ _ (by simp)
  · split
    · exact peFail_post _ _ _ _ (by simp)
    · rename_i c it' _ _
      have := hEL it' (peEnter ps lt rd) [] ps.afterStart ps.invNest (by simp) .nil
      split
      · rename_i ps' heq
        rw [heq] at this
        exact peFail_post _ _ _ _ this
      · rename_i ps1 it1 extended heq
        rw [heq] at this
        obtain ⟨e1, e2, e3⟩ := this
        simp only [peEnter_invExt] at e2
        have hb := peBuild_spec cfg ps lt cur ps1 extended.reverse e3.toWF
        exact peClose_post cfg ps it1 cur _ (by rw [hb.1, e1]) hb.2.1 (by rw [← e2]; exact hb.2.2)


def elCont (cfg : Cfg) (fuel : Nat) (c : Char) (tAfterStart tInvNest : Bool)
    (ps : PS) (it : It) (ext : List Item) (upd : Bool) : Except PS (PS × It × List Item) :=
  let ps := if upd then ps.updateDirState else ps
  if c = ')' then .ok (ps, it, ext)
  else extLoop cfg fuel it ps ext tAfterStart tInvNest

def elOther (cfg : Cfg) (fuel : Nat) (c : Char) (tAfterStart tInvNest : Bool)
    (ps : PS) (it : It) (ext : List Item) : Except PS (PS × It × List Item) :=
  let continue_ := elCont cfg fuel c tAfterStart tInvNest
        if c = '*' then
          let (ps, it, ext) := handleStar cfg ps it ext
          continue_ ps it ext true
        else if c = '.' then
          let d := handleDot cfg ps it
          let ps := if ps.afterStart then
                      { ps with matchDotDir := cfg.dot && !cfg.nodotdir }.resetDirTrack
                    else ps
          continue_ ps it (.re d :: ext) true
        else if c = '?' then
          let (q, ps) := qmarkItem cfg ps
          continue_ ps it (q :: ext) true
        else if c = '/' then
          let ext := match restrictExtendedSlash cfg with
                     | some g => .re g :: ext
                     | none => ext
          continue_ ps it (.re (Frag.sep cfg.win) :: ext) true
        else if c = '|' then
          let (ext, ps) := if ps.invNest then cleanUpInverse cfg ps ext tInvNest else (ext, ps)
          let ps := if tAfterStart then ps.setStartDir else ps
          continue_ ps it (.bar :: ext) true
        else if c = '\\' then
          match references cfg ps it with
          | .val v it' ps' => continue_ ps' it' (.re v :: ext) true
          | .dot it' => continue_ ps it' ext false
          | .stop => continue_ ps it ext true
        else if c = '[' then
          match sequence cfg ps it with
          | some (r, ps', it') => continue_ ps' it' (.re r :: ext) true
          | none => continue_ ps it (.re (.lit '[') :: ext) true
        else if c != ')' then continue_ ps it (.re (.lit c) :: ext) true
        else continue_ ps it ext true

theorem extLoop_succ (cfg : Cfg) (fuel : Nat) (it : It) (ps : PS) (ext : List Item)
    (tAfterStart tInvNest : Bool) :
    extLoop cfg (fuel+1) it ps ext tAfterStart tInvNest =
      match it.next with
      | none => .error ps
      | some (c, it) =>
        match (if cfg.extend && c ∈ extTypes then some (parseExtend cfg fuel c it ps ext false)
               else none : Option (Bool × PS × It × List Item)) with
        | some (true, ps', it', ext') => elCont cfg fuel c tAfterStart tInvNest ps' it' ext' true
        | other =>
          elOther cfg fuel c tAfterStart tInvNest
            (match other with
              | some (_, ps', _, _) => ps'
              | none => ps) it ext := by
  rw [extLoop]
  rfl


theorem sequence_ps (cfg : Cfg) (ps : PS) (it : It) (x : Re × PS × It)
    (h : sequence cfg ps it = some x) : x.2.1 = ps ∨ x.2.1 = ps.resetDirTrack := by
  unfold sequence at h
  simp only [] at h
  repeat' (split at h)
  all_goals first | (cases h) | skip
  all_goals first | (left; rfl) | (right; rfl) | skip

theorem references_ps (cfg : Cfg) (ps : PS) (it : It) (v it' ps')
    (h : references cfg ps it = .val v it' ps') : ps' = ps ∨ ps' = ps.setStartDir := by
  unfold references at h
  simp only [] at h
  repeat' (split at h)
  all_goals first | (cases h) | skip
  all_goals first | (left; rfl) | (right; rfl) | skip

theorem elCont_post (cfg : Cfg) (n : Nat)
    (hEL : ∀ it ps ext a b, ps.inList = true → WFr false ext →
      ELPost ps.invExt (extLoop cfg n it ps ext a b))
    (c : Char) (a b : Bool) (ps : PS) (it : It) (ext : List Item) (upd : Bool) (k : Nat)
    (h1 : ps.inList = true) (h2 : ps.invExt = k) (h3 : WFr false ext) :
    ELPost k (elCont cfg n c a b ps it ext upd) := by
  unfold elCont
  simp only
  have g1 : (if upd = true then ps.updateDirState else ps).inList = true := by split <;> simp [h1]
  have g2 : (if upd = true then ps.updateDirState else ps).invExt = k := by split <;> simp [h2]
  generalize (if upd = true then ps.updateDirState else ps) = ps2 at g1 g2
  split
  · exact ⟨g1, g2, h3⟩
  · rw [← g2]; exact hEL _ _ _ _ _ g1 h3

theorem elOther_post (cfg : Cfg) (n : Nat)
    (hEL : ∀ it ps ext a b, ps.inList = true → WFr false ext →
      ELPost ps.invExt (extLoop cfg n it ps ext a b))
    (c : Char) (a b : Bool) (ps : PS) (it : It) (ext : List Item)
    (h1 : ps.inList = true) (h3 : WFr false ext) :
    ELPost ps.invExt (elOther cfg n c a b ps it ext) := by
  have C := elCont_post cfg n hEL c a b
  unfold elOther
  simp only
  split
  · -- star
    have hs := (handleStar_spec cfg ps it ext (by simp [h1])).1
    generalize handleStar cfg ps it ext = r at hs
    obtain ⟨ps', it', ext'⟩ := r
    obtain ⟨s1, s2, s3⟩ := hs
    simp only at s1 s2 s3 ⊢
    exact C _ _ _ _ _ (by rw [s1, h1]) s2 (s3.1 _ h3)
  split
  · -- dot
    apply C
    · split <;> simp [h1]
    · split <;> simp
    · exact .re h3
  split
  · -- qmark
    exact C (qmarkItem cfg ps).2 it ((qmarkItem cfg ps).1 :: ext) true _
      (by show ps.resetDirTrack.inList = true; simp [h1])
      (by show ps.resetDirTrack.invExt = _; simp)
      (by show WFr false (.re _ :: ext); exact .re h3)
  split
  · -- slash
    apply C _ _ _ _ _ h1 rfl
    split
    · exact .re (.re h3)
    · exact .re h3
  split
  · -- bar
    have hc := cleanUpInverse_spec cfg ps ext b h3.mono (by rw [h3.phCount_eq_zero]; omega)
    rw [h3.phCount_eq_zero] at hc
    have : ∀ r : List Item × PS, r = (if ps.invNest = true then cleanUpInverse cfg ps ext b else (ext, ps)) →
        WFr false r.1 ∧ r.2.invExt = ps.invExt ∧ r.2.inList = true := by
      intro r hr
      split at hr
      · subst hr; exact ⟨hc.1, by simpa using hc.2.1, by rw [hc.2.2, h1]⟩
      · subst hr; exact ⟨h3, rfl, h1⟩
    have := this _ rfl
    generalize (if ps.invNest = true then cleanUpInverse cfg ps ext b else (ext, ps)) = r at this
    obtain ⟨ext', ps'⟩ := r
    obtain ⟨t1, t2, t3⟩ := this
    simp only at t1 t2 t3 ⊢
    apply C
    · split <;> simp [t3]
    · split <;> simp [t2]
    · exact .bar t1
  split
  · -- backslash
    split
    · rename_i v it' ps' heq
      have := references_ps cfg ps it v it' ps' heq
      apply C
      · rcases this with rfl | rfl <;> simp [h1]
      · rcases this with rfl | rfl <;> simp
      · exact .re h3
    · exact C _ _ _ _ _ h1 rfl h3
    · exact C _ _ _ _ _ h1 rfl h3
  split
  · -- bracket
    split
    · rename_i r ps' it' heq
      have := sequence_ps cfg ps it _ heq
      simp only at this
      apply C
      · rcases this with rfl | rfl <;> simp [h1]
      · rcases this with rfl | rfl <;> simp
      · exact .re h3
    · exact C _ _ _ _ _ h1 rfl (.re h3)
  split
  · exact C _ _ _ _ _ h1 rfl (.re h3)
  · exact C _ _ _ _ _ h1 rfl h3

theorem extLoop_step (cfg : Cfg) (n : Nat)
    (hPE : ∀ lt it ps cur rd, PEPost ps cur (parseExtend cfg n lt it ps cur rd))
    (hEL : ∀ it ps ext a b, ps.inList = true → WFr false ext →
      ELPost ps.invExt (extLoop cfg n it ps ext a b))
    (it : It) (ps : PS) (ext : List Item) (a b : Bool)
    (h1 : ps.inList = true) (h3 : WFr false ext) :
    ELPost ps.invExt (extLoop cfg (n+1) it ps ext a b) := by
  rw [extLoop_succ]
  split
  · exact h1
  · rename_i c it' _
    have hpe := hPE c it' ps ext false
    generalize parseExtend cfg n c it' ps ext false = r at hpe
    obtain ⟨b0, ps0, it0, ext0⟩ := r
    obtain ⟨p1, p2, -⟩ := hpe
    simp only at p1 p2
    have p2 := p2 h1 h3
    by_cases hx : (cfg.extend && decide (c ∈ extTypes)) = true
    · simp only [hx, if_true]
      cases b0
      · simp only
        have := elOther_post cfg n hEL c a b ps0 it' ext (by rw [p1, h1]) h3
        rw [p2.2] at this
        exact this
      · simp only
        exact elCont_post cfg n hEL c a b _ _ _ _ _ (by rw [p1, h1]) p2.2 p2.1
    · simp only [hx]
      exact elOther_post cfg n hEL c a b ps it' ext h1 h3


theorem ext_main (cfg : Cfg) : ∀ n : Nat,
    (∀ lt it ps cur rd, PEPost ps cur (parseExtend cfg n lt it ps cur rd)) ∧
    (∀ it ps ext a b, ps.inList = true → WFr false ext →
      ELPost ps.invExt (extLoop cfg n it ps ext a b))
  | 0 => by
    refine ⟨fun lt it ps cur rd => ?_, fun it ps ext a b h1 _ => ?_⟩
    · rw [parseExtend]
      exact ⟨rfl, fun _ h => ⟨h, rfl⟩, fun _ h hn => ⟨h, hn⟩, by simp, fun _ => ⟨rfl, rfl, rfl⟩⟩
    · rw [extLoop]; exact h1
  | n+1 =>
    have ih := ext_main cfg n
    ⟨parseExtend_step cfg n ih.2, extLoop_step cfg n ih.1 ih.2⟩

/-! ### the top-level loop -/

def Top0 (ps : PS) (cur : List Item) : Prop :=
  ps.inList = false ∧ WFr true cur ∧ phCount cur = ps.invExt

def Top (ps : PS) (cur : List Item) : Prop :=
  Top0 ps cur ∧ ((ps.dirStart = true ∨ ps.afterStart = true) → simpleHead cur)

theorem updateDirState_flags (p : PS) :
    (p.updateDirState.dirStart = true ∨ p.updateDirState.afterStart = true) →
    (p.dirStart = true ∨ p.afterStart = true) := by
  obtain ⟨a, d, _, _, _, _, _, _, _⟩ := p
  cases a <;> cases d <;> simp [PS.updateDirState, PS.setAfterStart, PS.resetDirTrack]

theorem Top.upd {ps cur} (h : Top ps cur) : Top ps.updateDirState cur :=
  ⟨⟨by simp [h.1.1], h.1.2.1, by simp [h.1.2.2]⟩, fun hf => h.2 (updateDirState_flags ps hf)⟩

theorem Top0.re {ps cur} (h : Top0 ps cur) (ps' : PS) (r : Re)
    (h1 : ps'.inList = ps.inList) (h2 : ps'.invExt = ps.invExt) : Top ps' (.re r :: cur) :=
  ⟨⟨by rw [h1, h.1], .re h.2.1, by rw [h2]; simpa using h.2.2⟩, fun _ => trivial⟩

theorem Top0.cleanUp {ps cur} (cfg : Cfg) (h : Top0 ps cur) (nested : Bool) :
    Top0 (cleanUpInverse cfg ps cur nested).2 (cleanUpInverse cfg ps cur nested).1 ∧
    WFr false (cleanUpInverse cfg ps cur nested).1 ∧
    (cleanUpInverse cfg ps cur nested).2.invExt = 0 := by
  have := cleanUpInverse_spec cfg ps cur nested h.2.1 (by rw [h.2.2]; omega)
  have h0 : (cleanUpInverse cfg ps cur nested).2.invExt = 0 := by rw [this.2.1, h.2.2]; omega
  exact ⟨⟨by rw [this.2.2, h.1], this.1.mono, by rw [this.1.phCount_eq_zero, h0]⟩, this.1, h0⟩

def rlOther (cfg : Cfg) (fuel : Nat) (c : Char) (ps : PS) (it : It) (cur : List Item) :
    PS × List Item :=
        if c = '.' then
          rootLoop cfg fuel it ps.updateDirState (.re (handleDot cfg ps it) :: cur)
        else if c = '*' then
          let (ps, it, cur) := handleStar cfg ps it cur
          rootLoop cfg fuel it ps.updateDirState cur
        else if c = '?' then
          let (q, ps) := qmarkItem cfg ps
          rootLoop cfg fuel it ps.updateDirState (q :: cur)
        else if c = '/' then
          if cfg.pathname then
            let ps := ps.setStartDir
            let (cur, ps) := cleanUpInverse cfg ps cur false
            let it := consumePathSep cfg it
            let ps := { ps with matchbase := false }
            rootLoop cfg fuel it ps.updateDirState (.re (Frag.sepPlus cfg.win) :: cur)
          else
            rootLoop cfg fuel it ps.updateDirState (.re (Frag.sep cfg.win) :: cur)
        else if c = '\\' then
          match references cfg ps it with
          | .val v it' ps' =>
            if ps'.dirStart then
              let (cur, ps') := cleanUpInverse cfg ps' cur false
              let it' := consumePathSep cfg it'
              let ps' := { ps' with matchbase := false }
              rootLoop cfg fuel it' ps'.updateDirState (.re v :: cur)
            else
              rootLoop cfg fuel it' ps'.updateDirState (.re v :: cur)
          | .dot it' => rootLoop cfg fuel it' ps cur
          | .stop => rootLoop cfg fuel it ps.updateDirState cur
        else if c = '[' then
          match sequence cfg ps it with
          | some (r, ps', it') => rootLoop cfg fuel it' ps'.updateDirState (.re r :: cur)
          | none => rootLoop cfg fuel it ps.updateDirState (.re (.lit '[') :: cur)
        else
          rootLoop cfg fuel it ps.updateDirState (.re (.lit c) :: cur)

theorem rootLoop_succ (cfg : Cfg) (fuel : Nat) (it : It) (ps : PS) (cur : List Item) :
    rootLoop cfg (fuel+1) it ps cur =
      match it.next with
      | none => (ps, cur)
      | some (c, it) =>
        match (if cfg.extend && c ∈ extTypes then
            some (parseExtend cfg (2 * it.rest.length + 8) c it ps cur true) else none :
              Option (Bool × PS × It × List Item)) with
        | some (true, ps', it', cur') => rootLoop cfg fuel it' ps'.updateDirState cur'
        | other =>
          rlOther cfg fuel c (match other with
            | some (_, ps', _, _) => ps'
            | none => ps) it cur := by
  rw [rootLoop]
  rfl

theorem rlOther_spec (cfg : Cfg) (n : Nat)
    (ih : ∀ it ps cur, Top ps cur → Top (rootLoop cfg n it ps cur).1 (rootLoop cfg n it ps cur).2)
    (c : Char) (ps : PS) (it : It) (cur : List Item) (h : Top ps cur) :
    Top (rlOther cfg n c ps it cur).1 (rlOther cfg n c ps it cur).2 := by
  unfold rlOther
  split
  · exact ih _ _ _ (h.1.re _ _ (by simp) (by simp))
  split
  · have hs := handleStar_spec cfg ps it cur (fun _ ha => h.2 (.inr ha))
    generalize handleStar cfg ps it cur = r at hs
    obtain ⟨ps', it', cur'⟩ := r
    obtain ⟨⟨s1, s2, s3⟩, s4⟩ := hs
    simp only at s1 s2 s3 s4 ⊢
    apply ih
    apply Top.upd
    exact ⟨⟨by rw [s1, h.1.1], s3.1 _ h.1.2.1, by rw [s3.2, s2, h.1.2.2]⟩, fun _ => s4⟩
  split
  · exact ih _ _ _ (h.1.re (qmarkItem cfg ps).2.updateDirState _
      (by show ps.resetDirTrack.updateDirState.inList = _; simp)
      (by show ps.resetDirTrack.updateDirState.invExt = _; simp))
  split
  · split
    · have hc := Top0.cleanUp cfg (ps := ps.setStartDir) (cur := cur)
        ⟨by simp [h.1.1], h.1.2.1, by simp [h.1.2.2]⟩ false
      simp only []
      generalize cleanUpInverse cfg ps.setStartDir cur false = r at hc ⊢
      obtain ⟨cur', ps'⟩ := r
      simp only at hc ⊢
      exact ih _ _ _ (hc.1.re _ _ (by simp) (by simp))
    · exact ih _ _ _ (h.1.re _ _ (by simp) (by simp))
  split
  · split
    · rename_i v it' ps' heq
      have hps := references_ps cfg ps it v it' ps' heq
      have h0 : Top0 ps' cur := by
        rcases hps with rfl | rfl
        · exact h.1
        · exact ⟨by simp [h.1.1], h.1.2.1, by simp [h.1.2.2]⟩
      split
      · have hc := Top0.cleanUp cfg h0 false
        simp only []
        generalize cleanUpInverse cfg ps' cur false = r at hc ⊢
        obtain ⟨cur', ps''⟩ := r
        simp only at hc ⊢
        exact ih _ _ _ (hc.1.re _ _ (by simp) (by simp))
      · exact ih _ _ _ (h0.re _ _ (by simp) (by simp))
    · exact ih _ _ _ h
    · exact ih _ _ _ h.upd
  split
  · split
    · rename_i r ps' it' heq
      have hps := sequence_ps cfg ps it _ heq
      simp only at hps
      have h0 : Top0 ps' cur := by
        rcases hps with rfl | rfl
        · exact h.1
        · exact ⟨by simp [h.1.1], h.1.2.1, by simp [h.1.2.2]⟩
      exact ih _ _ _ (h0.re _ _ (by simp) (by simp))
    · exact ih _ _ _ (h.1.re _ _ (by simp) (by simp))
  · exact ih _ _ _ (h.1.re _ _ (by simp) (by simp))

theorem rootLoop_spec (cfg : Cfg) : ∀ (n : Nat) (it : It) (ps : PS) (cur : List Item),
    Top ps cur → Top (rootLoop cfg n it ps cur).1 (rootLoop cfg n it ps cur).2
  | 0, it, ps, cur, h => by rw [rootLoop]; exact h
  | n+1, it, ps, cur, h => by
    have ih := rootLoop_spec cfg n
    rw [rootLoop_succ]
    split
    · exact h
    · rename_i c it' _
      have hpe := (ext_main cfg (2 * it'.rest.length + 8)).1 c it' ps cur true
      generalize parseExtend cfg (2 * it'.rest.length + 8) c it' ps cur true = r at hpe
      obtain ⟨b0, ps0, it0, cur0⟩ := r
      obtain ⟨p1, -, p3, p4, p5⟩ := hpe
      simp only at p1 p3 p4 p5
      have p3' := p3 h.1.1 h.1.2.1 h.1.2.2
      clear p3
      by_cases hx : (cfg.extend && decide (c ∈ extTypes)) = true
      · simp only [hx, if_true]
        cases b0
        · simp only
          apply rlOther_spec cfg n ih
          obtain ⟨q1, q2, q3⟩ := p5 rfl
          subst q1
          exact ⟨⟨by rw [p1, h.1.1], p3'.1, p3'.2⟩, by rw [q2, q3]; exact h.2⟩
        · simp only
          apply ih
          apply Top.upd
          refine ⟨⟨by rw [p1, h.1.1], p3'.1, p3'.2⟩, ?_⟩
          have := p4 rfl
          simp [this.1, this.2]
      · simp only [hx]
        exact rlOther_spec cfg n ih c ps it' cur h


/-! ### `root`, `_parse` -/

/-- what the theorem needs from the Windows-drive function: the drive items are plain
    fragments (`re`/`empty`/`bar`) or closed groups -/
def DriveOK (d : DriveInfo) : Prop :=
  ∀ items, d.drive = some items → ∀ x ∈ items, x.Simple

theorem WFr.of_all_simple : ∀ {l : List Item}, (∀ x ∈ l, x.Simple) → WFr false l
  | [], _ => .nil
  | x :: l, h => by
    have hx := h x (by simp)
    have hl := WFr.of_all_simple (l := l) (fun y hy => h y (by simp [hy]))
    cases x <;> simp [Item.Simple] at hx
    · exact .re hl
    · exact .empty hl
    · exact .bar hl
    · exact .group hx hl

theorem simpleHead_append {a b : List Item} (ha : ∀ x ∈ a, x.Simple) (hb : simpleHead b) :
    simpleHead (a ++ b) := by
  cases a with
  | nil => simpa using hb
  | cons x a => exact ha x (by simp)

def rootPre (cfg : Cfg) (drive : List Char → DriveInfo) (pattern : List Char) (cur : List Item) :
    Bool × It × List Item :=
  let it : It := ⟨0, pattern⟩
    if cfg.winDriveDetect then
      let d := drive pattern
      match d.drive with
      | some items =>
        let cur := items.reverse ++ cur
        let cur := if d.slash then .re (Frag.sepPlus cfg.win) :: cur else cur
        (d.rootSpecified, consumePathSep cfg (it.advance d.endIdx), cur)
      | none => (d.rootSpecified, it, cur)
    else if cfg.pathname && pattern.head? = some '/' then (true, it, cur)
    else (false, it, cur)

def rootPost (cfg : Cfg) (ps : PS) (t : Bool × It × List Item) : Except ParseErr (PS × List Item) :=
  let (rootSpecified, it, cur) := t
  if cfg.noAbs && rootSpecified then .error .noAbsolute else
  let ps := if rootSpecified then { ps with matchbase := false, extmatchbase := false } else ps
  let cur := if !rootSpecified && cfg.realpath then
               .empty :: .re (if cfg.winDriveDetect then Frag.noWinRoot else Frag.noRoot) :: cur
             else cur
  let (ps, cur) := rootLoop cfg (it.rest.length + 1) it ps cur
  let (cur, ps) := cleanUpInverse cfg ps cur false
  let cur := if cfg.pathname then .re (Frag.pathTrail cfg.win) :: cur else cur
  .ok (ps, cur)

theorem root_eq (cfg : Cfg) (drive : List Char → DriveInfo) (pattern : List Char) (ps : PS)
    (cur : List Item) :
    root cfg drive pattern ps cur = rootPost cfg ps.setAfterStart (rootPre cfg drive pattern cur) := by
  rfl

theorem rootPre_spec (cfg : Cfg) (drive : List Char → DriveInfo) (hd : ∀ s, DriveOK (drive s))
    (pattern : List Char) (cur : List Item) (h1 : WFr false cur) (h2 : simpleHead cur) :
    WFr false (rootPre cfg drive pattern cur).2.2 ∧ simpleHead (rootPre cfg drive pattern cur).2.2 := by
  unfold rootPre
  simp only
  split
  · split
    · rename_i items heq
      have hs : ∀ x ∈ items.reverse, x.Simple := fun x hx => hd pattern items heq x (by simpa using hx)
      have w := (WFr.of_all_simple hs).append h1
      have sh := simpleHead_append hs h2
      split
      · exact ⟨.re w, trivial⟩
      · exact ⟨w, sh⟩
    · exact ⟨h1, h2⟩
  · split <;> exact ⟨h1, h2⟩

theorem rootPost_spec (cfg : Cfg) (ps : PS) (t : Bool × It × List Item)
    (h1 : ps.inList = false) (h2 : ps.invExt = 0) (h3 : WFr false t.2.2) (h4 : simpleHead t.2.2)
    (r : PS × List Item) (h : rootPost cfg ps t = .ok r) :
    r.1.inList = false ∧ r.1.invExt = 0 ∧ WFr false r.2 := by
  obtain ⟨rs, it, cur⟩ := t
  simp only at h3 h4
  unfold rootPost at h
  simp only at h
  split at h
  · cases h
  · have hT : Top (if rs = true then { ps with matchbase := false, extmatchbase := false } else ps)
        (if (!rs && cfg.realpath) = true then
          .empty :: .re (if cfg.winDriveDetect = true then Frag.noWinRoot else Frag.noRoot) :: cur
         else cur) := by
      refine ⟨⟨?_, ?_, ?_⟩, fun _ => ?_⟩
      · split <;> simp [h1]
      · split
        · exact .empty (.re h3.mono)
        · exact h3.mono
      · have : phCount cur = 0 := h3.phCount_eq_zero
        have e1 : (if rs = true then { ps with matchbase := false, extmatchbase := false } else ps).invExt = 0 := by
          split <;> simp [h2]
        rw [e1]
        split <;> simp [this]
      · split
        · trivial
        · exact h4
    have hL := rootLoop_spec cfg (it.rest.length + 1) it _ _ hT
    generalize rootLoop cfg (it.rest.length + 1) it _ _ = q at hL h
    obtain ⟨ps1, cur1⟩ := q
    simp only at hL h
    have hc := Top0.cleanUp cfg hL.1 false
    generalize cleanUpInverse cfg ps1 cur1 false = q at hc h
    obtain ⟨cur2, ps2⟩ := q
    simp only at hc h
    cases h
    refine ⟨hc.1.1, hc.2.2, ?_⟩
    simp only
    split
    · exact .re hc.2.1
    · exact hc.2.1

theorem root_spec (cfg : Cfg) (drive : List Char → DriveInfo) (hd : ∀ s, DriveOK (drive s))
    (pattern : List Char) (ps : PS) (cur : List Item)
    (h1 : ps.inList = false) (h2 : ps.invExt = 0) (h3 : WFr false cur) (h4 : simpleHead cur)
    (r : PS × List Item) (h : root cfg drive pattern ps cur = .ok r) :
    r.1.inList = false ∧ r.1.invExt = 0 ∧ WFr false r.2 := by
  rw [root_eq] at h
  have := rootPre_spec cfg drive hd pattern cur h3 h4
  exact rootPost_spec cfg _ _ (by simp [h1]) (by simp [h2]) this.1 this.2 r h

theorem parsePrepend_spec (cfg : Cfg) (drive : List Char → DriveInfo) (hd : ∀ s, DriveOK (drive s))
    (ps : PS) (h1 : ps.inList = false) (h2 : ps.invExt = 0)
    (r : PS × List Item) (h : parsePrepend cfg drive ps = .ok r) :
    r.1.inList = false ∧ r.1.invExt = 0 ∧ WFr false r.2 := by
  unfold parsePrepend at h
  split at h
  · split at h
    · exact root_spec cfg drive hd _ ps _ h1 h2 (.empty .nil) trivial r h
    · split at h
      · rename_i ps' pre heq
        have := root_spec cfg drive hd _ _ _ (by simpa using h1) (by simpa using h2)
          (.empty .nil) trivial _ heq
        cases h
        exact ⟨this.1, this.2.1, this.2.2⟩
      · cases h
  · cases h
    exact ⟨h1, h2, .empty .nil⟩

theorem parseBody_spec (cfg : Cfg) (drive : List Char → DriveInfo) (hd : ∀ s, DriveOK (drive s))
    (p : List Char) (ps : PS) (prepend : List Item)
    (h1 : ps.inList = false) (h2 : ps.invExt = 0) (h3 : WFr false prepend)
    (parsed : Parsed) (h : parseBody cfg drive p ps prepend = .ok parsed) :
    WF false parsed.items := by
  unfold parseBody at h
  simp only at h
  generalize (if p = ['\\'] then [] else p) = p' at h
  split at h
  · cases h
  · rename_i ps1 result heq
    cases h
    simp only
    have hr : WFr false result := by
      by_cases hp : p'.isEmpty = true
      · rw [if_pos hp] at heq
        cases heq; exact .empty .nil
      · rw [if_neg hp] at heq
        exact (root_spec cfg drive hd _ ps _ h1 h2 (.empty .nil) trivial _ heq).2.2
    split
    · exact (hr.append h3).toWF
    · exact hr.toWF

theorem anchorStep_inList (cfg : Cfg) (p : List Char) (ps : PS) :
    (anchorStep cfg p ps).2.inList = ps.inList := by
  unfold anchorStep
  split
  · simp only; split <;> rfl
  · rfl

theorem anchorStep_invExt (cfg : Cfg) (p : List Char) (ps : PS) :
    (anchorStep cfg p ps).2.invExt = ps.invExt := by
  unfold anchorStep
  split
  · simp only; split <;> rfl
  · rfl

/-- the item list of every successfully parsed pattern is closed well formed -/
theorem parseItems_WF (cfg : Cfg) (drive : List Char → DriveInfo) (hdrive : ∀ s, DriveOK (drive s))
    (p : List Char) (parsed : Parsed) (h : parseItems cfg drive p = .ok parsed) :
    WF false parsed.items := by
  unfold parseItems at h
  simp only at h
  split at h
  · cases h
  · rename_i ps prepend heq
    have hp := parsePrepend_spec cfg drive hdrive _
      (by rw [anchorStep_inList]) (by rw [anchorStep_invExt]) _ heq
    exact parseBody_spec cfg drive hdrive _ ps prepend hp.1 hp.2.1 hp.2.2 parsed h

/-- **C10 (well-formedness)**: for every configuration and every string, if the pass returns
    at all (it fails only with `noAbsolute`), its output is a well-formed regex. -/
theorem parse_toRe_isSome (cfg : Cfg) (drive : List Char → DriveInfo) (hdrive : ∀ s, DriveOK (drive s))
    (p : List Char) (parsed : Parsed) (h : parseItems cfg drive p = .ok parsed) :
    parsed.toRe.isSome = true :=
  Parsed.toRe_isSome_of_WF parsed (parseItems_WF cfg drive hdrive p parsed h)

/-! ### the real drive scanner (and the trivial one) satisfy `DriveOK` -/

theorem winDrive_drive (cfg : Cfg) (p : List Char) :
    (winDrive cfg p).drive = none ∨ ∃ r, (winDrive cfg p).drive = some [.re r] := by
  unfold winDrive
  extract_lets none_ altA fin tryFrom altB
  clear_value altA altB
  split
  · extract_lets part0 isSpecial st
    split
    · exact .inr ⟨_, rfl⟩
    · exact .inl rfl
  · split
    · extract_lets g0 letterOk
      split
      · exact .inr ⟨_, rfl⟩
      · exact .inl rfl
    · split <;> exact .inl rfl

theorem winDrive_ok (cfg : Cfg) (p : List Char) : DriveOK (winDrive cfg p) := by
  intro items h x hx
  rcases winDrive_drive cfg p with h0 | ⟨r, h0⟩
  · rw [h0] at h; cases h
  · rw [h0] at h; cases h
    simp only [List.mem_singleton] at hx
    subst hx; trivial

theorem default_ok (s : List Char) : DriveOK ((fun _ => default : List Char → DriveInfo) s) := by
  intro items h; cases h


/-- the goal theorem instantiated with the real `_get_win_drive` port -/
theorem parse_toRe_isSome_winDrive (cfg : Cfg) (p : List Char) (parsed : Parsed)
    (h : parseItems cfg (winDrive cfg) p = .ok parsed) : parsed.toRe.isSome = true :=
  parse_toRe_isSome cfg (winDrive cfg) (winDrive_ok cfg) p parsed h

/-- … and with the "no drive" function used by the Unix-only properties -/
theorem parse_toRe_isSome_default (cfg : Cfg) (p : List Char) (parsed : Parsed)
    (h : parseItems cfg (fun _ => default) p = .ok parsed) : parsed.toRe.isSome = true :=
  parse_toRe_isSome cfg (fun _ => default) default_ok p parsed h

/-! ### non-vacuity and necessity of the hypothesis -/

/-- non-vacuity of `parse_toRe_isSome`: nested `!(…)` inside and outside lists, path mode with
    globstar, MATCHBASE prefix, translate/capture mode, and a Windows drive — all parse (`.ok`), so
    the theorem says something about each of them. -/
theorem parse_toRe_isSome_nonvacuous :
    ([ (Gen.FEXTMATCH + Gen.FFORCEUNIX, "!(a|!(b)|*(c))d!(e)"),
       (Gen.FEXTMATCH + Gen.FPATHNAME + Gen.FGLOBSTAR + Gen.FFORCEUNIX, "!(a)/**/+(b|!(c))/**"),
       (Gen.FEXTMATCH + Gen.FPATHNAME + Gen.FGLOBSTAR + Gen.FMATCHBASE + Gen.FFORCEUNIX, "!(a)b"),
       (Gen.FEXTMATCH + Gen.FPATHNAME + Gen.FGLOBSTAR + Gen.FREALPATH + Gen.F_TRANSLATE + Gen.FFORCEUNIX,
          "**/!(x|@(y))"),
       (Gen.FEXTMATCH + Gen.FPATHNAME + Gen.FGLOBSTAR + Gen.FFORCEWIN, "C:/!(a)\\\\**/b"),
       (Gen.FEXTMATCH + Gen.FPATHNAME + Gen.FFORCEWIN, "//server/share/!(a)") ].all fun (fl, p) =>
      let cfg := Cfg.ofFlags false (Flags.ofNat fl)
      match parseItems cfg (winDrive cfg) p.toList with
      | .ok parsed => parsed.items.any (fun x => match x with | .invOpen _ _ => true | _ => false)
      | .error _ => false) = true := by
  decide +kernel

/-- `DriveOK` cannot simply be dropped: a drive function that hands back a stray placeholder
    makes the output ill-formed. -/
theorem DriveOK_needed :
    (match parseItems (Cfg.ofFlags false (Flags.ofNat (Gen.FPATHNAME + Gen.FFORCEWIN)))
        (fun _ => { rootSpecified := false, drive := some [.ph .eps], slash := false, endIdx := 0 })
        "a".toList with
      | .ok parsed => parsed.toRe.isSome
      | .error _ => true) = false := by
  decide +kernel

end WcModel

import WcModel.Proofs.GlobTop
/-
  Shape of `_GlobSplit.split` output (`globSplit`), for ALL pattern strings and flag words.

  Part 1  list plumbing (`Chain`), what `store` builds (`Stored`), how `store` grows the list.
  Part 2  the scanner (`GSplit.scan`): iterator bookkeeping (`It.Le`, `It.At`), the scanner
          without its accumulator (`scan'`), one step of it (`scan'_step`) and the one fact about
          split offsets the shape theorems need — a value handed to `store` never STARTS with a
          separator (`scan'_good`), so no stored part is the string `/`.
  Part 3  `storeAll`, `globSplit` in stages (`globSplit_eq`), the shape of the list before the
          implicit base part (`storedParts_shape`) and of the whole output (`globSplit_shape`),
          facts about single parts (`PartOK'.*`) and the goal theorems (`globSplit_*`).
  Part 4  MATCHBASE / `_EXTMATCHBASE` change nothing in the split but the base part
          (`globSplit_base_only`); every compiled part is compiled with both flags cleared
          (`globSplit_part_compiled`) — the G6 repair, for all strings and flag words.

  The inner fuel of `parse_extend` is immaterial here: running out of it is one more way for a
  group to fail, and every statement below holds whether a group succeeds or fails.  The outer
  fuel `pattern.length + 2` is shown sufficient (`scan'_good` never reaches fuel 0).
-/
set_option linter.unusedSimpArgs false
namespace WcModel

/-! ## Part 1: lists and `store` -/

/-- the glob text of a part: the literal string, or the text the regex was compiled from
    (`PPat.text` is `[]` for a compiled part) -/
def PPat.src : PPat → List Char
  | .lit s => s
  | .re s _ => s

theorem PPat.text_eq_src_or_nil (p : PPat) : p.text = p.src ∨ p.text = [] := by
  cases p <;> simp [PPat.text, PPat.src]

/-! ### adjacent-pair predicate -/

/-- `R` holds between every two adjacent elements -/
def Chain {α : Type} (R : α → α → Prop) : List α → Prop
  | [] => True
  | [_] => True
  | a :: b :: r => R a b ∧ Chain R (b :: r)

theorem Chain.tail {α : Type} {R : α → α → Prop} {a : α} {l : List α} (h : Chain R (a :: l)) : Chain R l := by
  cases l with
  | nil => trivial
  | cons b r => exact h.2

theorem chain_concat {α : Type} {R : α → α → Prop} (l : List α) (x : α) :
    Chain R (l ++ [x]) ↔ Chain R l ∧ ∀ y, l.getLast? = some y → R y x := by
  induction l with
  | nil => simp [Chain]
  | cons a r ih =>
    cases r with
    | nil => simp [Chain]
    | cons b r' =>
      have : (a :: b :: r') ++ [x] = a :: (b :: (r' ++ [x])) := rfl
      rw [this]
      simp only [Chain]
      have ih' : Chain R (b :: (r' ++ [x])) ↔ Chain R (b :: r') ∧ ∀ y, (b :: r').getLast? = some y → R y x := ih
      rw [ih']
      have hl : (a :: b :: r').getLast? = (b :: r').getLast? := by simp [List.getLast?_cons_cons]
      rw [hl]
      constructor
      · rintro ⟨h1, h2, h3⟩; exact ⟨⟨h1, h2⟩, h3⟩
      · rintro ⟨⟨h1, h2⟩, h3⟩; exact ⟨h1, h2, h3⟩

theorem chain_cons {α : Type} {R : α → α → Prop} (a : α) (l : List α) :
    Chain R (a :: l) ↔ Chain R l ∧ ∀ y, l.head? = some y → R a y := by
  cases l with
  | nil => simp [Chain]
  | cons b r => simp [Chain, and_comm]

theorem chain_imp {α : Type} {R S : α → α → Prop} (h : ∀ a b, R a b → S a b) :
    ∀ l : List α, Chain R l → Chain S l
  | [], _ => trivial
  | [_], _ => trivial
  | a :: b :: r, hc => ⟨h a b hc.1, chain_imp h (b :: r) hc.2⟩

/-- adjacency, spelled out -/
theorem chain_iff_adj {α : Type} {R : α → α → Prop} (l : List α) :
    Chain R l ↔ ∀ pre a b post, l = pre ++ a :: b :: post → R a b := by
  induction l with
  | nil => simp [Chain]
  | cons x r ih =>
    cases r with
    | nil =>
      simp only [Chain, true_iff]
      intro pre a b post h
      have := congrArg List.length h
      simp at this; omega
    | cons y r' =>
      simp only [Chain]
      rw [ih]
      constructor
      · rintro ⟨h1, h2⟩ pre a b post h
        cases pre with
        | nil => simp at h; obtain ⟨rfl, rfl, _⟩ := h; exact h1
        | cons p pre' =>
          simp at h
          exact h2 pre' a b post h.2
      · intro h
        exact ⟨h [] x y r' rfl, fun pre a b post hh => h (x :: pre) a b post (by simp [hh])⟩

/-! ### what `store` builds -/

def star2 : List Char := ['*', '*']
def star3 : List Char := ['*', '*', '*']

/-- `q` is the part `store` builds from the value `v` with `dir_only = d` -/
structure Stored (c : SplitCfg) (v : List Char) (d : Bool) (q : GPart) : Prop where
  src : q.pat.src = v
  dirOnly : q.dirOnly = d
  drive : q.isDrive = false
  magic : q.isMagic = GSplit.isMagic c.flags v
  lit : q.isMagic = false → q.pat = .lit v
  re : q.isMagic = true → ∃ r, compilePart c.partFlags c.isBytes v = .ok r ∧ q.pat = .re v r
  gs : q.isGlobstar = ((c.globstarlong && v == star3) || (c.globstar && v == star2))
  gsl : q.isGlobstarLong = (c.globstarlong && v == star3)

/-- the three ways `store` can end well -/
theorem store_cases {c : SplitCfg} {v : List Char} {l l' : List GPart} {d : Bool}
    (h : GSplit.store c v l d = .ok l') :
    (l ≠ [] ∧ v = [] ∧ l' = l) ∨
    ∃ q, Stored c v d q ∧ (l = [] ∨ v ≠ []) ∧
      ((q.isGlobstar = true ∧ ∃ l0 g, l = l0 ++ [g] ∧ g.isGlobstar = true ∧ l' = l0 ++ [q]) ∨
       ((∀ g, l.getLast? = some g → q.isGlobstar = true → g.isGlobstar = false) ∧ l' = l ++ [q])) := by
  unfold GSplit.store at h
  split at h
  · rename_i hskip
    left
    simp only [Bool.and_eq_true, Bool.not_eq_true', List.isEmpty_iff] at hskip
    cases h
    refine ⟨?_, hskip.2, rfl⟩
    intro hl; subst hl; simp at hskip
  · rename_i hskip
    have hne : l = [] ∨ v ≠ [] := by
      cases l with
      | nil => exact Or.inl rfl
      | cons a r => right; intro hv; subst hv; simp at hskip
    right
    simp only at h
    split at h
    · cases h
    · rename_i pv hpv
      have hst : Stored c v d ⟨pv, GSplit.isMagic c.flags v,
          (c.globstarlong && v == ['*', '*', '*']) || (c.globstar && v == ['*', '*']),
          c.globstarlong && v == ['*', '*', '*'], d, false⟩ := by
        cases hm : GSplit.isMagic c.flags v with
        | false =>
          simp only [hm, Bool.false_eq_true, if_false] at hpv
          cases hpv
          exact ⟨rfl, rfl, rfl, hm.symm, fun _ => rfl, (fun h => by cases h), rfl, rfl⟩
        | true =>
          simp only [hm, if_true] at hpv
          cases hc : compilePart c.partFlags c.isBytes v with
          | error e => simp [hc, Except.map] at hpv
          | ok r =>
            simp only [hc, Except.map] at hpv
            cases hpv
            exact ⟨rfl, rfl, rfl, hm.symm, (fun h => by cases h), fun _ => ⟨r, hc, rfl⟩, rfl, rfl⟩
      refine ⟨_, hst, hne, ?_⟩
      split at h
      · rename_i hg
        left
        simp only [Bool.and_eq_true] at hg
        obtain ⟨hg1, hg2⟩ := hg
        refine ⟨hg1, ?_⟩
        rcases List.eq_nil_or_concat l with rfl | ⟨l0, g, rfl⟩
        · simp at hg2
        · refine ⟨l0, g, by simp, ?_, ?_⟩
          · simpa using hg2
          · cases h; simp
      · rename_i hg
        right
        cases h
        refine ⟨?_, rfl⟩
        intro g hlast hq
        simp only at hq
        cases hgg : g.isGlobstar with
        | false => rfl
        | true => exfalso; apply hg; simp [hlast, hgg, hq]

/-- anything true of the old parts and of every part `store` can build is true afterwards -/
theorem store_forall {c : SplitCfg} {v : List Char} {l l' : List GPart} {d : Bool} {P : GPart → Prop}
    (h : GSplit.store c v l d = .ok l') (hl : ∀ q ∈ l, P q) (hv : ∀ q, Stored c v d q → P q) :
    ∀ q ∈ l', P q := by
  rcases store_cases h with ⟨_, _, rfl⟩ | ⟨q, hq, _, ⟨_, l0, g, rfl, _, rfl⟩ | ⟨_, rfl⟩⟩
  · exact hl
  · intro x hx
    simp only [List.mem_append, List.mem_singleton] at hx hl
    rcases hx with hx | rfl
    · exact hl x (Or.inl hx)
    · exact hv _ hq
  · intro x hx
    simp only [List.mem_append, List.mem_singleton] at hx
    rcases hx with hx | rfl
    · exact hl x hx
    · exact hv _ hq

theorem Stored.gs_src {c : SplitCfg} {v : List Char} {d : Bool} {q : GPart} (h : Stored c v d q)
    (hg : q.isGlobstar = true) : v = star2 ∨ v = star3 := by
  rw [h.gs] at hg
  simp only [Bool.or_eq_true, Bool.and_eq_true, beq_iff_eq] at hg
  rcases hg with ⟨_, hv⟩ | ⟨_, hv⟩
  · exact Or.inr hv
  · exact Or.inl hv

theorem Stored.gs_ne {c : SplitCfg} {v : List Char} {d : Bool} {q : GPart} (h : Stored c v d q)
    (hg : q.isGlobstar = true) : v ≠ [] := by
  rcases h.gs_src hg with rfl | rfl <;> simp [star2, star3]

theorem Stored.gsl_gs {c : SplitCfg} {v : List Char} {d : Bool} {q : GPart} (h : Stored c v d q)
    (hg : q.isGlobstarLong = true) : q.isGlobstar = true ∧ v = star3 ∧ c.globstarlong = true := by
  rw [h.gsl] at hg
  simp only [Bool.and_eq_true, beq_iff_eq] at hg
  refine ⟨?_, hg.2, hg.1⟩
  rw [h.gs]; simp [hg.1, hg.2]

/-- what holds between two adjacent parts the scanner stored -/
def Adj (a b : GPart) : Prop :=
  a.dirOnly = true ∧ b.isDrive = false ∧ ¬(a.isGlobstar = true ∧ b.isGlobstar = true) ∧ b.pat.src ≠ []

theorem store_chain {c : SplitCfg} {v : List Char} {l l' : List GPart} {d : Bool}
    (h : GSplit.store c v l d = .ok l') (hc : Chain Adj l) (hd : ∀ q ∈ l, q.dirOnly = true) :
    Chain Adj l' := by
  rcases store_cases h with ⟨_, _, rfl⟩ | ⟨q, hq, hne, ⟨hqg, l0, g, rfl, hg, rfl⟩ | ⟨hlast, rfl⟩⟩
  · exact hc
  · rw [chain_concat] at hc ⊢
    refine ⟨hc.1, fun y hy => ?_⟩
    obtain ⟨h1, _, h3, _⟩ := hc.2 y hy
    refine ⟨h1, hq.drive, fun hh => h3 ⟨hh.1, hg⟩, ?_⟩
    rw [hq.src]; exact hq.gs_ne hqg
  · rw [chain_concat]
    refine ⟨hc, fun y hy => ?_⟩
    have hy' : y ∈ l := List.mem_of_getLast? hy
    refine ⟨hd y hy', hq.drive, ?_, ?_⟩
    · rintro ⟨h1, h2⟩
      have := hlast y hy h2
      rw [h1] at this; cases this
    · rw [hq.src]
      rcases hne with rfl | hne
      · cases hy'
      · exact hne


/-! ## Part 2: the scanner -/

/-- `it'` is `it` moved forward by zero or more characters -/
def It.Le (it it' : It) : Prop := ∃ mid, it.rest = mid ++ it'.rest ∧ it'.idx = it.idx + mid.length

theorem It.Le.refl (it : It) : It.Le it it := ⟨[], by simp, by simp⟩

theorem It.Le.trans {a b c : It} (h1 : It.Le a b) (h2 : It.Le b c) : It.Le a c := by
  obtain ⟨m1, hr1, hi1⟩ := h1
  obtain ⟨m2, hr2, hi2⟩ := h2
  exact ⟨m1 ++ m2, by rw [hr1, hr2, List.append_assoc], by rw [hi2, hi1, List.length_append]; omega⟩

theorem It.Le.length {a b : It} (h : It.Le a b) : b.rest.length ≤ a.rest.length := by
  obtain ⟨m, hr, _⟩ := h
  rw [hr, List.length_append]; omega

theorem It.Le.idx {a b : It} (h : It.Le a b) : a.idx ≤ b.idx := by
  obtain ⟨m, _, hi⟩ := h
  omega

theorem It.next_some {it it1 : It} {c : Char} (h : it.next = some (c, it1)) :
    it.rest = c :: it1.rest ∧ it1.idx = it.idx + 1 := by
  unfold It.next at h
  split at h
  · cases h
  · rename_i c' r hr
    cases h
    exact ⟨hr, rfl⟩

theorem It.next_none {it : It} (h : it.next = none) : it.rest = [] := by
  unfold It.next at h
  split at h
  · assumption
  · cases h

theorem It.next_le {it it1 : It} {c : Char} (h : it.next = some (c, it1)) : It.Le it it1 := by
  obtain ⟨hr, hi⟩ := It.next_some h
  exact ⟨[c], by simp [hr], by simp [hi]⟩

/-- `matchPosix` (the model of `RE_POSIX`) reads exactly `:name:]`, and a class name holds neither
    a `/` nor a `|` -/
theorem matchPosix_shape {s : List Char} {n : PosixName} {len : Nat} {rest' : List Char}
    (h : matchPosix s = some (n, len, rest')) :
    ∃ mid, s = mid ++ rest' ∧ mid.length = len ∧ '/' ∉ mid ∧ '|' ∉ mid := by
  unfold matchPosix at h
  split at h
  · rename_i rest
    obtain ⟨m, _, hm⟩ := List.exists_of_findSome?_eq_some h
    dsimp only at hm
    split at hm
    · rename_i hpre
      split at hm
      · rename_i r' hd
        simp only [Option.some.injEq, Prod.mk.injEq] at hm
        obtain ⟨t, ht⟩ := List.isPrefixOf_iff_prefix.mp hpre
        rw [← ht, List.drop_left] at hd
        have hnm : '/' ∉ m.name.toList ∧ '|' ∉ m.name.toList := by cases m <;> decide
        refine ⟨':' :: (m.name.toList ++ [':', ']']), ?_, ?_, ?_, ?_⟩
        · rw [← ht, hd, ← hm.2.2]; simp
        · rw [← hm.2.1]; simp
        · simp [hnm.1]
        · simp [hnm.2]
      · cases hm
    · cases hm
  · cases h

/-- `i.match(RE_POSIX)` moves forward over text without a separator (or not at all) -/
theorem skipPosix_mid (it : It) : ∃ mid, it.rest = mid ++ (GSplit.skipPosix it).rest ∧
    (GSplit.skipPosix it).idx = it.idx + mid.length ∧ '/' ∉ mid := by
  unfold GSplit.skipPosix
  split
  · rename_i n len rest' h
    obtain ⟨mid, h1, h2, h3, _⟩ := matchPosix_shape h
    exact ⟨mid, h1, by simp [h2], h3⟩
  · exact ⟨[], by simp, by simp, by simp⟩

theorem skipPosix_le (it : It) : It.Le it (GSplit.skipPosix it) := by
  obtain ⟨mid, h1, h2, _⟩ := skipPosix_mid it
  exact ⟨mid, h1, h2⟩

theorem skipIf_le (c : Char) (it : It) : It.Le it (if c = '[' then GSplit.skipPosix it else it) := by
  split
  · exact skipPosix_le it
  · exact It.Le.refl _

theorem seqLoop_le : ∀ (fuel : Nat) (c : Char) (it it' : It), GSplit.seqLoop fuel c it = some it' → It.Le it it' := by
  intro fuel
  induction fuel with
  | zero => intro c it it' h; simp [GSplit.seqLoop] at h
  | succ n ih =>
    intro c it it' h
    unfold GSplit.seqLoop at h
    split at h
    · cases h; exact It.Le.refl _
    · split at h
      · split at h
        · cases h
        · rename_i d it2 hn
          split at h
          · cases h
          · split at h
            · cases h
            · rename_i c' it3 hn2
              exact (It.next_le hn).trans ((It.next_le hn2).trans (ih _ _ _ h))
      · split at h
        · cases h
        · split at h
          · cases h
          · rename_i c' it2 hn
            exact (skipIf_le c it).trans ((It.next_le hn).trans (ih _ _ _ h))

theorem sequence_le {it it' : It} (h : GSplit.sequence it = some it') : It.Le it it' := by
  unfold GSplit.sequence at h
  cases h1 : it.next with
  | none => simp [h1] at h
  | some p1 =>
    obtain ⟨c1, i1⟩ := p1
    simp only [h1, Option.bind_eq_bind, Option.bind_some] at h
    have l1 := It.next_le h1
    have stepB : ∀ (c : Char) (i r : It),
        (if c = '[' then
            (GSplit.skipPosix i).next.bind fun x => GSplit.seqLoop (x.snd.rest.length + 2) x.fst x.snd
          else if c = '-' ∨ c = ']' then
            i.next.bind fun x => GSplit.seqLoop (x.snd.rest.length + 2) x.fst x.snd
          else GSplit.seqLoop (i.rest.length + 2) c i) = some r → It.Le i r := by
      intro c i r hr
      split at hr
      · cases hn : (GSplit.skipPosix i).next with
        | none => simp [hn] at hr
        | some p =>
          obtain ⟨c', i'⟩ := p
          simp only [hn, Option.bind_some] at hr
          exact (skipPosix_le i).trans ((It.next_le hn).trans (seqLoop_le _ _ _ _ hr))
      · split at hr
        · cases hn : i.next with
          | none => simp [hn] at hr
          | some p =>
            obtain ⟨c', i'⟩ := p
            simp only [hn, Option.bind_some] at hr
            exact (It.next_le hn).trans (seqLoop_le _ _ _ _ hr)
        · exact seqLoop_le _ _ _ _ hr
    split at h
    · cases hn : i1.next with
      | none => simp [hn] at h
      | some p =>
        obtain ⟨c', i'⟩ := p
        simp only [hn, Option.bind_some] at h
        exact l1.trans ((It.next_le hn).trans (stepB _ _ _ h))
    · exact l1.trans (stepB _ _ _ h)

/-- `parse_extend` never moves the iterator backwards past its entry point, and the `while`
    loop never past its rewind mark -/
theorem parseExtend_extLoop_le (e : Bool) : ∀ (fuel : Nat),
    (∀ it, It.Le it (GSplit.parseExtend e fuel it).2) ∧
    (∀ it mark, It.Le mark it → It.Le mark (GSplit.extLoop e fuel it mark).2) := by
  intro fuel
  induction fuel with
  | zero =>
    constructor
    · intro it; unfold GSplit.parseExtend; exact It.Le.refl _
    · intro it mark _; unfold GSplit.extLoop; exact It.Le.refl _
  | succ n ih =>
    obtain ⟨ih1, ih2⟩ := ih
    constructor
    · intro it
      unfold GSplit.parseExtend
      split
      · exact It.Le.refl _
      · rename_i c it1 hn
        split
        · exact It.Le.refl _
        · exact ih2 it1 it (It.next_le hn)
    · intro it mark hm
      unfold GSplit.extLoop
      split
      · exact It.Le.refl _
      · rename_i c it1 hn
        have hm1 : It.Le mark it1 := hm.trans (It.next_le hn)
        split
        · exact hm1
        · split
          · exact ih2 _ _ (hm1.trans (ih1 it1))
          · split
            · split
              · exact ih2 _ _ hm1
              · rename_i d it2 hn2
                exact ih2 _ _ (hm1.trans (It.next_le hn2))
            · split
              · split
                · rename_i it2 hs
                  exact ih2 _ _ (hm1.trans (sequence_le hs))
                · exact ih2 _ _ hm1
              · exact ih2 _ _ hm1

theorem parseExtend_le (e : Bool) (fuel : Nat) (it : It) : It.Le it (GSplit.parseExtend e fuel it).2 :=
  (parseExtend_extLoop_le e fuel).1 it

/-! ### the scanner without its accumulator -/

/-- `GSplit.scan` producing its list front to back -/
def scan' (extend : Bool) : Nat → It → List (Nat × Nat)
  | 0, _ => []
  | fuel+1, it =>
    match it.next with
    | none => []
    | some (c, it1) =>
      let ext := if extend && extTypes.contains c then GSplit.parseExtend extend (it1.rest.length + 2) it1 else (false, it1)
      if ext.1 then scan' extend fuel ext.2
      else
        let it1 := ext.2
        if c = '\\' then
          match it1.next with
          | none => scan' extend fuel it1
          | some (d, it2) =>
            if d = '/' then (it2.idx - 2, 1) :: scan' extend fuel it2
            else scan' extend fuel it2
        else if c = '/' then (it1.idx - 1, 0) :: scan' extend fuel it1
        else if c = '[' then
          match GSplit.sequence it1 with
          | some it2 => scan' extend fuel it2
          | none => scan' extend fuel it1
        else scan' extend fuel it1

theorem scan_eq (e : Bool) : ∀ (fuel : Nat) (it : It) (acc : List (Nat × Nat)),
    GSplit.scan e fuel it acc = acc.reverse ++ scan' e fuel it := by
  intro fuel
  induction fuel with
  | zero => intro it acc; simp [GSplit.scan, scan']
  | succ n ih =>
    intro it acc
    unfold GSplit.scan scan'
    cases hn : it.next with
    | none => simp
    | some p =>
      obtain ⟨c, it1⟩ := p
      simp only
      generalize (if (e && extTypes.contains c) = true then GSplit.parseExtend e (it1.rest.length + 2) it1
        else (false, it1)) = ext
      obtain ⟨b, j⟩ := ext
      cases b with
      | true => simp only [if_true]; exact ih _ _
      | false =>
        simp only [Bool.false_eq_true, if_false]
        by_cases hb : c = '\\'
        · simp only [hb, if_true]
          cases hj : j.next with
          | none => exact ih _ _
          | some q =>
            obtain ⟨d, j2⟩ := q
            simp only
            by_cases hd : d = '/'
            · simp only [hd, if_true]; rw [ih]; simp
            · simp only [hd, if_false]; exact ih _ _
        · simp only [hb, if_false]
          by_cases hs : c = '/'
          · simp only [hs, if_true]; rw [ih]; simp
          · simp only [hs, if_false]
            by_cases hq : c = '['
            · simp only [hq, if_true]
              cases hseq : GSplit.sequence j with
              | none => exact ih _ _
              | some j2 => exact ih _ _
            · simp only [hq, if_false]; exact ih _ _

theorem scan'_succ (extend : Bool) (fuel : Nat) (it : It) :
    scan' extend (fuel + 1) it =
    match it.next with
    | none => []
    | some (c, it1) =>
      let ext := if extend && extTypes.contains c then GSplit.parseExtend extend (it1.rest.length + 2) it1 else (false, it1)
      if ext.1 then scan' extend fuel ext.2
      else
        let it1 := ext.2
        if c = '\\' then
          match it1.next with
          | none => scan' extend fuel it1
          | some (d, it2) =>
            if d = '/' then (it2.idx - 2, 1) :: scan' extend fuel it2
            else scan' extend fuel it2
        else if c = '/' then (it1.idx - 1, 0) :: scan' extend fuel it1
        else if c = '[' then
          match GSplit.sequence it1 with
          | some it2 => scan' extend fuel it2
          | none => scan' extend fuel it1
        else scan' extend fuel it1 := by
  rw [scan']

theorem extTypes_ne : ∀ c ∈ extTypes, c ≠ '/' ∧ c ≠ '\\' ∧ c ≠ '[' := by decide

/-- one step of the scanner: a separator, an escaped separator, or something else that moves
    forward without recording a split -/
theorem scan'_step (e : Bool) (fuel : Nat) {it it1 : It} {c : Char} (hn : it.next = some (c, it1)) :
    (c = '/' ∧ scan' e (fuel + 1) it = (it.idx, 0) :: scan' e fuel it1) ∨
    (c = '\\' ∧ ∃ it2, it1.next = some ('/', it2) ∧ scan' e (fuel + 1) it = (it.idx, 1) :: scan' e fuel it2) ∨
    (c ≠ '/' ∧ ∃ it', It.Le it1 it' ∧ scan' e (fuel + 1) it = scan' e fuel it') := by
  obtain ⟨_, hi1⟩ := It.next_some hn
  by_cases hx : (e && extTypes.contains c) = true
  · have hc : c ∈ extTypes := by
      simp only [Bool.and_eq_true, List.contains_iff_mem] at hx; exact hx.2
    obtain ⟨h1, h2, h3⟩ := extTypes_ne c hc
    right; right
    refine ⟨h1, _, parseExtend_le e (it1.rest.length + 2) it1, ?_⟩
    rw [scan'_succ]
    simp only [hn, hx, if_true]
    cases (GSplit.parseExtend e (it1.rest.length + 2) it1).1 with
    | true => simp only [if_true]
    | false => simp only [Bool.false_eq_true, h1, h2, h3, if_false]
  · have hx' : (e && extTypes.contains c) = false := by simpa using hx
    by_cases hb : c = '\\'
    · subst hb
      have hb : '\\' = '\\' := rfl
      cases hn2 : it1.next with
      | none =>
        right; right
        refine ⟨by decide, it1, It.Le.refl _, ?_⟩
        rw [scan'_succ]
        simp only [hn, hx', Bool.false_eq_true, if_false, hb, if_true, hn2]
      | some p =>
        obtain ⟨d, it2⟩ := p
        obtain ⟨_, hi2⟩ := It.next_some hn2
        by_cases hd : d = '/'
        · right; left
          subst hd
          refine ⟨hb, it2, rfl, ?_⟩
          rw [scan'_succ]
          simp only [hn, hx', Bool.false_eq_true, if_false, hb, if_true, hn2]
          have : it2.idx - 2 = it.idx := by omega
          rw [this]
        · right; right
          refine ⟨by decide, it2, It.next_le hn2, ?_⟩
          rw [scan'_succ]
          simp only [hn, hx', Bool.false_eq_true, if_false, hb, if_true, hn2, hd]
    · by_cases hs : c = '/'
      · left
        subst hs
        have hs : '/' = '/' := rfl
        refine ⟨hs, ?_⟩
        rw [scan'_succ]
        simp only [hn, hx', Bool.false_eq_true, if_false, hb, hs, if_true]
        have : it1.idx - 1 = it.idx := by omega
        rw [this]
      · right; right
        refine ⟨hs, ?_⟩
        by_cases hq : c = '['
        · subst hq
          have hq : '[' = '[' := rfl
          cases hseq : GSplit.sequence it1 with
          | none =>
            refine ⟨it1, It.Le.refl _, ?_⟩
            rw [scan'_succ]
            simp only [hn, hx', Bool.false_eq_true, if_false, hb, hs, hq, if_true, hseq]
          | some it2 =>
            refine ⟨it2, sequence_le hseq, ?_⟩
            rw [scan'_succ]
            simp only [hn, hx', Bool.false_eq_true, if_false, hb, hs, hq, if_true, hseq]
        · refine ⟨it1, It.Le.refl _, ?_⟩
          rw [scan'_succ]
          simp only [hn, hx', Bool.false_eq_true, if_false, hb, hs, hq]

/-! ### positions in the pattern -/

/-- the iterator stands at position `it.idx` of `p` -/
def It.At (p : List Char) (it : It) : Prop := it.idx ≤ p.length ∧ it.rest = p.drop it.idx

theorem It.At.le {p : List Char} {a b : It} (h : It.At p a) (hl : It.Le a b) : It.At p b := by
  obtain ⟨hi, hr⟩ := h
  obtain ⟨m, hm, hmi⟩ := hl
  have hlen : a.rest.length = p.length - a.idx := by rw [hr, List.length_drop]
  have hlen2 : a.rest.length = m.length + b.rest.length := by rw [hm, List.length_append]
  constructor
  · omega
  · rw [hmi, ← List.drop_drop, ← hr, hm, List.drop_left]

theorem It.At.getElem {p : List Char} {it it1 : It} {c : Char} (h : It.At p it) (hn : it.next = some (c, it1)) :
    p[it.idx]? = some c := by
  obtain ⟨hr, _⟩ := It.next_some hn
  have := h.2
  rw [hr] at this
  rw [← List.head?_drop, ← this]; rfl

/-- the values `storeAll` cuts out of the pattern, with the start positions as naturals
    (`s` = Python's `start + 1`) -/
def valuesN (p : List Char) : List (Nat × Nat) → Nat → List (List Char)
  | [], _ => []
  | (split, off) :: r, s => GSplit.slice p s split :: valuesN p r (split + off + 1)

def finalN : List (Nat × Nat) → Nat → Nat
  | [], s => s
  | (split, off) :: r, _ => finalN r (split + off + 1)

/-- no value, and not the rest of the pattern after the last split, starts with `/` -/
def Good (p : List Char) : List (Nat × Nat) → Nat → Prop
  | [], s => (p.drop s).head? ≠ some '/'
  | (split, off) :: r, s => (GSplit.slice p s split).head? ≠ some '/' ∧ Good p r (split + off + 1)

theorem slice_head (p : List Char) (s split : Nat) :
    (GSplit.slice p s split).head? = if s < split then p[s]? else none := by
  unfold GSplit.slice
  rw [List.head?_drop, List.getElem?_take]

theorem scan'_good (e : Bool) (p : List Char) : ∀ (fuel : Nat) (it : It) (s : Nat), It.At p it →
    s ≤ it.idx → (s = it.idx ∨ p[s]? ≠ some '/') → it.rest.length < fuel → Good p (scan' e fuel it) s := by
  intro fuel
  induction fuel with
  | zero => intro it s _ _ _ h; omega
  | succ n ih =>
    intro it s hat hs hor hf
    cases hn : it.next with
    | none =>
      have hr := It.next_none hn
      rw [scan'_succ]; simp only [hn]
      unfold Good
      rw [List.head?_drop]
      rcases hor with rfl | h
      · have : p.length ≤ it.idx := by
          have h2 := hat.2
          rw [hr] at h2
          have := congrArg List.length h2
          simp at this; omega
        rw [List.getElem?_eq_none this]; simp
      · exact h
    | some q =>
      obtain ⟨c, it1⟩ := q
      obtain ⟨hr, hi1⟩ := It.next_some hn
      have hpc := hat.getElem hn
      have hat1 : It.At p it1 := hat.le (It.next_le hn)
      have hl1 : it1.rest.length < n := by rw [hr] at hf; simp at hf; omega
      -- the value that ends at a split recorded here does not start with `/`
      have hval : (GSplit.slice p s it.idx).head? ≠ some '/' := by
        rw [slice_head]
        rcases hor with rfl | h
        · simp
        · split
          · exact h
          · simp
      rcases scan'_step e n hn with ⟨_, heq⟩ | ⟨_, it2, hn2, heq⟩ | ⟨hc, it', hle, heq⟩
      · rw [heq]
        refine ⟨hval, ?_⟩
        exact ih it1 _ hat1 (by omega) (Or.inl (by omega)) hl1
      · rw [heq]
        refine ⟨hval, ?_⟩
        obtain ⟨hr2, hi2⟩ := It.next_some hn2
        refine ih it2 _ (hat1.le (It.next_le hn2)) (by omega) (Or.inl (by omega)) ?_
        rw [hr2] at hl1; simp at hl1; omega
      · rw [heq]
        refine ih it' s (hat1.le hle) ?_ (Or.inr ?_) ?_
        · have := hle.idx; omega
        · rcases hor with rfl | h
          · rw [hpc]; intro hh; cases hh; exact hc rfl
          · exact h
        · have := hle.length; omega


/-! ### separators inside a value

  The scanner steps over a `/` without recording a split only inside an extended-match group
  `?(…)`, `*(…)`, … (whether the group then parses or not: a failed group can still leave the
  iterator beyond a `/`, because `parse_extend` rewinds to the last `[` it met).  So a value
  that contains a separator also contains a `(`, and EXTMATCH is on. -/

/-- `it'` is `it` moved forward over exactly `mid` -/
def It.Mid (it it' : It) (mid : List Char) : Prop := it.rest = mid ++ it'.rest ∧ it'.idx = it.idx + mid.length

theorem It.Mid.le {a b : It} {mid : List Char} (h : It.Mid a b mid) : It.Le a b := ⟨mid, h⟩

theorem It.Mid.refl (it : It) : It.Mid it it [] := ⟨by simp, by simp⟩

theorem It.Mid.trans {a b c : It} {m1 m2 : List Char} (h1 : It.Mid a b m1) (h2 : It.Mid b c m2) :
    It.Mid a c (m1 ++ m2) :=
  ⟨by rw [h1.1, h2.1, List.append_assoc], by rw [h2.2, h1.2, List.length_append]; omega⟩

theorem It.next_mid {it it1 : It} {c : Char} (h : it.next = some (c, it1)) : It.Mid it it1 [c] := by
  obtain ⟨hr, hi⟩ := It.next_some h
  exact ⟨by simp [hr], by simp [hi]⟩

/-- `it.rest = mid ++ it.rest` forces `mid = []` -/
theorem It.Mid.self_nil {a : It} {mid : List Char} (h : It.Mid a a mid) : mid = [] := by
  have := congrArg List.length h.1
  rw [List.length_append] at this
  exact List.length_eq_zero_iff.1 (by omega)

theorem skipIf_mid (c : Char) (it : It) :
    ∃ mid, It.Mid it (if c = '[' then GSplit.skipPosix it else it) mid ∧ '/' ∉ mid := by
  split
  · obtain ⟨mid, h1, h2, h3⟩ := skipPosix_mid it
    exact ⟨mid, ⟨h1, h2⟩, h3⟩
  · exact ⟨[], It.Mid.refl _, by simp⟩

theorem seqLoop_noslash : ∀ (fuel : Nat) (c : Char) (it it' : It), GSplit.seqLoop fuel c it = some it' →
    c ≠ '/' ∧ ∃ mid, It.Mid it it' mid ∧ '/' ∉ mid := by
  intro fuel
  induction fuel with
  | zero => intro c it it' h; simp [GSplit.seqLoop] at h
  | succ n ih =>
    intro c it it' h
    unfold GSplit.seqLoop at h
    split at h
    · rename_i hc
      cases h
      exact ⟨by rw [hc]; decide, [], It.Mid.refl _, by simp⟩
    · split at h
      · rename_i hc
        split at h
        · cases h
        · rename_i d it2 hn
          split at h
          · cases h
          · rename_i hd
            split at h
            · cases h
            · rename_i c' it3 hn2
              obtain ⟨hc', mid, hm, hns⟩ := ih _ _ _ h
              refine ⟨by rw [hc]; decide, _, (It.next_mid hn).trans ((It.next_mid hn2).trans hm), ?_⟩
              simp only [List.cons_append, List.nil_append, List.mem_cons, not_or]
              exact ⟨fun hh => hd hh.symm, fun hh => hc' hh.symm, hns⟩
      · split at h
        · cases h
        · rename_i hcs
          split at h
          · cases h
          · rename_i c' it2 hn
            obtain ⟨hc', mid, hm, hns⟩ := ih _ _ _ h
            obtain ⟨m0, hm0, hns0⟩ := skipIf_mid c it
            refine ⟨hcs, _, hm0.trans ((It.next_mid hn).trans hm), ?_⟩
            simp only [List.cons_append, List.nil_append, List.mem_append, List.mem_cons, not_or]
            exact ⟨hns0, fun hh => hc' hh.symm, hns⟩

/-- a bracket expression the scanner steps over contains no separator -/
theorem sequence_noslash {it it' : It} (h : GSplit.sequence it = some it') :
    ∃ mid, It.Mid it it' mid ∧ '/' ∉ mid := by
  unfold GSplit.sequence at h
  cases h1 : it.next with
  | none => simp [h1] at h
  | some p1 =>
    obtain ⟨c1, i1⟩ := p1
    simp only [h1, Option.bind_eq_bind, Option.bind_some] at h
    have l1 := It.next_mid h1
    have stepB : ∀ (c : Char) (i r : It),
        (if c = '[' then
            (GSplit.skipPosix i).next.bind fun x => GSplit.seqLoop (x.snd.rest.length + 2) x.fst x.snd
          else if c = '-' ∨ c = ']' then
            i.next.bind fun x => GSplit.seqLoop (x.snd.rest.length + 2) x.fst x.snd
          else GSplit.seqLoop (i.rest.length + 2) c i) = some r → c ≠ '/' ∧ ∃ mid, It.Mid i r mid ∧ '/' ∉ mid := by
      intro c i r hr
      split at hr
      · rename_i hc
        have hcs : c ≠ '/' := by rw [hc]; decide
        cases hn : (GSplit.skipPosix i).next with
        | none => simp [hn] at hr
        | some p =>
          obtain ⟨c', i'⟩ := p
          simp only [hn, Option.bind_some] at hr
          obtain ⟨hc', mid, hm, hns⟩ := seqLoop_noslash _ _ _ _ hr
          obtain ⟨m0, h01, h02, hns0⟩ := skipPosix_mid i
          refine ⟨hcs, _, (It.Mid.trans ⟨h01, h02⟩ ((It.next_mid hn).trans hm)), ?_⟩
          simp only [List.cons_append, List.nil_append, List.mem_append, List.mem_cons, not_or]
          exact ⟨hns0, fun hh => hc' hh.symm, hns⟩
      · split at hr
        · rename_i hc
          have hcs : c ≠ '/' := by rcases hc with rfl | rfl <;> decide
          cases hn : i.next with
          | none => simp [hn] at hr
          | some p =>
            obtain ⟨c', i'⟩ := p
            simp only [hn, Option.bind_some] at hr
            obtain ⟨hc', mid, hm, hns⟩ := seqLoop_noslash _ _ _ _ hr
            refine ⟨hcs, _, (It.next_mid hn).trans hm, ?_⟩
            simp only [List.cons_append, List.nil_append, List.mem_cons, not_or]
            exact ⟨fun hh => hc' hh.symm, hns⟩
        · exact seqLoop_noslash _ _ _ _ hr
    split at h
    · rename_i hc1
      cases hn : i1.next with
      | none => simp [hn] at h
      | some p =>
        obtain ⟨c', i'⟩ := p
        simp only [hn, Option.bind_some] at h
        obtain ⟨hc', mid, hm, hns⟩ := stepB _ _ _ h
        refine ⟨_, l1.trans ((It.next_mid hn).trans hm), ?_⟩
        simp only [List.cons_append, List.nil_append, List.mem_cons, not_or]
        exact ⟨by rcases hc1 with rfl | rfl <;> decide, fun hh => hc' hh.symm, hns⟩
    · obtain ⟨hc', mid, hm, hns⟩ := stepB _ _ _ h
      refine ⟨_, l1.trans hm, ?_⟩
      simp only [List.cons_append, List.nil_append, List.mem_cons, not_or]
      exact ⟨fun hh => hc' hh.symm, hns⟩

/-- inside `parse_extend`, once the `(` is read: the loop ends at the entry point (a rewind
    with the original mark) or somewhere after the `(` -/
theorem extLoop_inv (e : Bool) (it0 i1 : It) : ∀ (fuel : Nat) (j mark : It),
    (mark = it0 ∨ It.Le i1 mark) → It.Le i1 j →
    (GSplit.extLoop e fuel j mark).2 = it0 ∨ It.Le i1 (GSplit.extLoop e fuel j mark).2 := by
  intro fuel
  induction fuel with
  | zero => intro j mark hm _; unfold GSplit.extLoop; exact hm
  | succ n ih =>
    intro j mark hm hj
    unfold GSplit.extLoop
    split
    · exact hm
    · rename_i c j1 hn
      have hj1 : It.Le i1 j1 := hj.trans (It.next_le hn)
      split
      · exact Or.inr hj1
      · split
        · exact ih _ _ hm (hj1.trans (parseExtend_le e n j1))
        · split
          · split
            · exact ih _ _ hm hj1
            · rename_i d j2 hn2
              exact ih _ _ hm (hj1.trans (It.next_le hn2))
          · split
            · split
              · rename_i j2 hs
                exact ih _ _ hm (hj1.trans (sequence_le hs))
              · exact ih _ _ hm hj1
            · exact ih _ _ hm hj1

/-- what `parse_extend` steps over is nothing, or starts with the `(` -/
theorem parseExtend_mid (e : Bool) (fuel : Nat) (it : It) :
    ∃ mid, It.Mid it (GSplit.parseExtend e fuel it).2 mid ∧ (mid = [] ∨ mid.head? = some '(') := by
  cases fuel with
  | zero => unfold GSplit.parseExtend; exact ⟨[], It.Mid.refl _, Or.inl rfl⟩
  | succ n =>
    unfold GSplit.parseExtend
    split
    · exact ⟨[], It.Mid.refl _, Or.inl rfl⟩
    · rename_i c it1 hn
      split
      · exact ⟨[], It.Mid.refl _, Or.inl rfl⟩
      · rename_i hc
        have hc' : c = '(' := by simpa using hc
        subst hc'
        rcases extLoop_inv e it it1 n it1 it (Or.inl rfl) (It.Le.refl _) with h | ⟨mid, hm⟩
        · rw [h]; exact ⟨[], It.Mid.refl _, Or.inl rfl⟩
        · exact ⟨_, (It.next_mid hn).trans hm, Or.inr rfl⟩

/-- `scan'_step` with the characters stepped over made explicit -/
theorem scan'_step2 (e : Bool) (fuel : Nat) {it it1 : It} {c : Char} (hn : it.next = some (c, it1)) :
    (c = '/' ∧ scan' e (fuel + 1) it = (it.idx, 0) :: scan' e fuel it1) ∨
    (c = '\\' ∧ ∃ it2, it1.next = some ('/', it2) ∧ scan' e (fuel + 1) it = (it.idx, 1) :: scan' e fuel it2) ∨
    (c ≠ '/' ∧ ∃ it' mid, It.Mid it1 it' mid ∧ scan' e (fuel + 1) it = scan' e fuel it' ∧
      ('/' ∈ mid → e = true ∧ mid.head? = some '(')) := by
  obtain ⟨_, hi1⟩ := It.next_some hn
  by_cases hx : (e && extTypes.contains c) = true
  · have hc : c ∈ extTypes := by
      simp only [Bool.and_eq_true, List.contains_iff_mem] at hx; exact hx.2
    have he : e = true := by simp only [Bool.and_eq_true] at hx; exact hx.1
    obtain ⟨h1, h2, h3⟩ := extTypes_ne c hc
    obtain ⟨mid, hm, hmid⟩ := parseExtend_mid e (it1.rest.length + 2) it1
    right; right
    refine ⟨h1, _, mid, hm, ?_, ?_⟩
    · rw [scan'_succ]
      simp only [hn, hx, if_true]
      cases (GSplit.parseExtend e (it1.rest.length + 2) it1).1 with
      | true => simp only [if_true]
      | false => simp only [Bool.false_eq_true, h1, h2, h3, if_false]
    · intro hs
      rcases hmid with rfl | hh
      · cases hs
      · exact ⟨he, hh⟩
  · have hx' : (e && extTypes.contains c) = false := by simpa using hx
    by_cases hb : c = '\\'
    · subst hb
      have hb : '\\' = '\\' := rfl
      cases hn2 : it1.next with
      | none =>
        right; right
        refine ⟨by decide, it1, [], It.Mid.refl _, ?_, fun h => by cases h⟩
        rw [scan'_succ]
        simp only [hn, hx', Bool.false_eq_true, if_false, hb, if_true, hn2]
      | some p =>
        obtain ⟨d, it2⟩ := p
        obtain ⟨_, hi2⟩ := It.next_some hn2
        by_cases hd : d = '/'
        · right; left
          subst hd
          refine ⟨hb, it2, rfl, ?_⟩
          rw [scan'_succ]
          simp only [hn, hx', Bool.false_eq_true, if_false, hb, if_true, hn2]
          have : it2.idx - 2 = it.idx := by omega
          rw [this]
        · right; right
          refine ⟨by decide, it2, [d], It.next_mid hn2, ?_, ?_⟩
          · rw [scan'_succ]
            simp only [hn, hx', Bool.false_eq_true, if_false, hb, if_true, hn2, hd]
          · intro hs
            simp only [List.mem_singleton] at hs
            exact absurd hs.symm hd
    · by_cases hs : c = '/'
      · left
        subst hs
        have hs : '/' = '/' := rfl
        refine ⟨hs, ?_⟩
        rw [scan'_succ]
        simp only [hn, hx', Bool.false_eq_true, if_false, hb, hs, if_true]
        have : it1.idx - 1 = it.idx := by omega
        rw [this]
      · right; right
        refine ⟨hs, ?_⟩
        by_cases hq : c = '['
        · subst hq
          have hq : '[' = '[' := rfl
          cases hseq : GSplit.sequence it1 with
          | none =>
            refine ⟨it1, [], It.Mid.refl _, ?_, fun h => by cases h⟩
            rw [scan'_succ]
            simp only [hn, hx', Bool.false_eq_true, if_false, hb, hs, hq, if_true, hseq]
          | some it2 =>
            obtain ⟨mid, hm, hns⟩ := sequence_noslash hseq
            refine ⟨it2, mid, hm, ?_, fun h => absurd h hns⟩
            rw [scan'_succ]
            simp only [hn, hx', Bool.false_eq_true, if_false, hb, hs, hq, if_true, hseq]
        · refine ⟨it1, [], It.Mid.refl _, ?_, fun h => by cases h⟩
          rw [scan'_succ]
          simp only [hn, hx', Bool.false_eq_true, if_false, hb, hs, hq]

/-- a value with a separator in it has a `(` in it, and EXTMATCH is on -/
def Clean (e : Bool) (v : List Char) : Prop := '/' ∈ v → e = true ∧ '(' ∈ v

theorem clean_nil (e : Bool) : Clean e [] := fun h => by cases h

def Good2 (e : Bool) (p : List Char) : List (Nat × Nat) → Nat → Prop
  | [], s => Clean e (p.drop s)
  | (split, off) :: r, s => Clean e (GSplit.slice p s split) ∧ Good2 e p r (split + off + 1)

theorem slice_self (p : List Char) (s : Nat) : GSplit.slice p s s = [] := by
  unfold GSplit.slice
  rw [List.drop_eq_nil_iff]
  simp [List.length_take]; omega

/-- extending the scanned prefix of the current value -/
theorem slice_extend (p : List Char) (s i : Nat) (x R : List Char) (hs : s ≤ i) (hi : i ≤ p.length)
    (hd : p.drop i = x ++ R) : GSplit.slice p s (i + x.length) = GSplit.slice p s i ++ x := by
  unfold GSplit.slice
  have hp : p = p.take i ++ (x ++ R) := by rw [← hd, List.take_append_drop]
  have hlen : (p.take i).length = i := by rw [List.length_take]; omega
  have h1 : p.take (i + x.length) = p.take i ++ x := by
    conv => lhs; rw [hp]
    rw [← List.append_assoc]
    have : i + x.length = (p.take i ++ x).length := by rw [List.length_append, hlen]
    rw [this, List.take_left]
  rw [h1, List.drop_append_of_le_length (by rw [hlen]; exact hs)]

theorem scan'_good2 (e : Bool) (p : List Char) : ∀ (fuel : Nat) (it : It) (s : Nat), It.At p it →
    s ≤ it.idx → Clean e (GSplit.slice p s it.idx) → it.rest.length < fuel → Good2 e p (scan' e fuel it) s := by
  intro fuel
  induction fuel with
  | zero => intro it s _ _ _ h; omega
  | succ n ih =>
    intro it s hat hs hcl hf
    cases hn : it.next with
    | none =>
      have hr := It.next_none hn
      rw [scan'_succ]; simp only [hn]
      unfold Good2
      have hlen : p.length ≤ it.idx := by
        have h2 := hat.2
        rw [hr] at h2
        have := congrArg List.length h2
        simp at this; omega
      have : GSplit.slice p s it.idx = p.drop s := by
        unfold GSplit.slice; rw [List.take_of_length_le hlen]
      rw [← this]; exact hcl
    | some q =>
      obtain ⟨c, it1⟩ := q
      obtain ⟨hr, hi1⟩ := It.next_some hn
      have hat1 : It.At p it1 := hat.le (It.next_le hn)
      have hl1 : it1.rest.length < n := by rw [hr] at hf; simp at hf; omega
      rcases scan'_step2 e n hn with ⟨_, heq⟩ | ⟨_, it2, hn2, heq⟩ | ⟨hc, it', mid, hm, heq, hmid⟩
      · rw [heq]
        refine ⟨hcl, ?_⟩
        have : it.idx + 0 + 1 = it1.idx := by omega
        rw [this]
        exact ih it1 _ hat1 (Nat.le_refl _) (by rw [slice_self]; exact clean_nil e) hl1
      · rw [heq]
        refine ⟨hcl, ?_⟩
        obtain ⟨hr2, hi2⟩ := It.next_some hn2
        have : it.idx + 1 + 1 = it2.idx := by omega
        rw [this]
        refine ih it2 _ (hat1.le (It.next_le hn2)) (Nat.le_refl _) (by rw [slice_self]; exact clean_nil e) ?_
        rw [hr2] at hl1; simp at hl1; omega
      · rw [heq]
        have hle := hm.le
        refine ih it' s (hat1.le hle) ?_ ?_ ?_
        · have := hle.idx; omega
        · have hdrop : p.drop it.idx = (c :: mid) ++ it'.rest := by
            rw [← hat.2, hr, hm.1]; rfl
          have hidx : it'.idx = it.idx + (c :: mid).length := by
            rw [hm.2, hi1]; simp; omega
          rw [hidx, slice_extend p s it.idx (c :: mid) it'.rest hs hat.1 hdrop]
          intro hsl
          simp only [List.mem_append, List.mem_cons] at hsl
          rcases hsl with hsl | hsl | hsl
          · obtain ⟨h1, h2⟩ := hcl hsl
            exact ⟨h1, List.mem_append_left _ h2⟩
          · exact absurd hsl.symm hc
          · obtain ⟨h1, h2⟩ := hmid hsl
            refine ⟨h1, List.mem_append_right _ (List.mem_cons_of_mem _ ?_)⟩
            cases mid with
            | nil => cases hsl
            | cons a r => simp at h2; subst h2; exact List.mem_cons_self
        · have := hle.length; omega

theorem good2_values (e : Bool) (p : List Char) : ∀ (splits : List (Nat × Nat)) (s : Nat), Good2 e p splits s →
    (∀ v ∈ valuesN p splits s, Clean e v) ∧ Clean e (p.drop (finalN splits s)) := by
  intro splits
  induction splits with
  | nil => intro s h; exact ⟨by simp [valuesN], h⟩
  | cons so r ih =>
    intro s h
    obtain ⟨split, off⟩ := so
    obtain ⟨h1, h2⟩ := h
    obtain ⟨i1, i2⟩ := ih _ h2
    refine ⟨?_, i2⟩
    intro v hv
    simp only [valuesN, List.mem_cons] at hv
    rcases hv with rfl | hv
    · exact h1
    · exact i1 v hv

/-! ## Part 3: `storeAll`, `globSplit`, the goal theorems -/

theorem store_ne_nil {c : SplitCfg} {v : List Char} {l l' : List GPart} {d : Bool}
    (h : GSplit.store c v l d = .ok l') : l' ≠ [] := by
  rcases store_cases h with ⟨hl, _, rfl⟩ | ⟨q, _, _, ⟨_, l0, g, _, _, rfl⟩ | ⟨_, rfl⟩⟩
  · exact hl
  · simp
  · simp

theorem toNat_ofNat_succ (n : Nat) : (Int.ofNat n + 1).toNat = n + 1 := by
  have : Int.ofNat n + 1 = Int.ofNat (n + 1) := rfl
  rw [this]; rfl

/-- everything `storeAll` does to the list -/
theorem storeAll_spec (c : SplitCfg) (p : List Char) : ∀ (splits : List (Nat × Nat)) (start : Int)
    (l l' : List GPart) (st' : Int), GSplit.storeAll c p splits start l = .ok (l', st') →
    (st' + 1).toNat = finalN splits (start + 1).toNat ∧
    (splits = [] → st' = start) ∧
    ((l ≠ [] ∨ splits ≠ []) → l' ≠ []) ∧
    (Chain Adj l → (∀ q ∈ l, q.dirOnly = true) → Chain Adj l' ∧ ∀ q ∈ l', q.dirOnly = true) ∧
    (∀ P : GPart → Prop, (∀ q ∈ l, P q) →
      (∀ v ∈ valuesN p splits (start + 1).toNat, ∀ q, Stored c v true q → P q) → ∀ q ∈ l', P q) := by
  intro splits
  induction splits with
  | nil =>
    intro start l l' st' h
    simp only [GSplit.storeAll] at h
    cases h
    refine ⟨rfl, fun _ => rfl, ?_, fun h1 h2 => ⟨h1, h2⟩, fun P h1 _ => h1⟩
    rintro (h | h)
    · exact h
    · exact absurd rfl h
  | cons so r ih =>
    intro start l l' st' h
    obtain ⟨split, off⟩ := so
    simp only [GSplit.storeAll] at h
    cases hst : GSplit.store c (GSplit.slice p (start + 1).toNat split) l true with
    | error e => simp [hst] at h
    | ok l1 =>
      simp only [hst] at h
      obtain ⟨i1, _, i3, i4, i5⟩ := ih _ _ _ _ h
      rw [toNat_ofNat_succ] at i1 i5
      refine ⟨i1, (fun hh => by cases hh), fun _ => i3 (Or.inl (store_ne_nil hst)), ?_, ?_⟩
      · intro hc hd
        exact i4 (store_chain hst hc hd) (store_forall hst hd (fun q hq => hq.dirOnly))
      · intro P hl hv
        apply i5 P
        · exact store_forall hst hl (fun q hq => hv _ (by simp [valuesN]) q hq)
        · intro v hvm q hq
          exact hv v (by simp [valuesN, hvm]) q hq

/-- `store` only ever touches the end of the list: a first part that is not a globstar stays -/
theorem store_head {c : SplitCfg} {v : List Char} {l l' : List GPart} {d : Bool}
    (h : GSplit.store c v l d = .ok l') (a : GPart) (ha : l.head? = some a) (hg : a.isGlobstar = false) :
    l'.head? = some a := by
  rcases store_cases h with ⟨_, _, rfl⟩ | ⟨q, _, _, ⟨_, l0, g, rfl, hgg, rfl⟩ | ⟨_, rfl⟩⟩
  · exact ha
  · cases l0 with
    | nil =>
      simp only [List.nil_append, List.head?_cons, Option.some.injEq] at ha
      subst ha; rw [hg] at hgg; cases hgg
    | cons x r => simpa using ha
  · cases l with
    | nil => cases ha
    | cons x r => simpa using ha

theorem storeAll_head (c : SplitCfg) (p : List Char) : ∀ (splits : List (Nat × Nat)) (start : Int)
    (l l' : List GPart) (st' : Int), GSplit.storeAll c p splits start l = .ok (l', st') →
    ∀ a, l.head? = some a → a.isGlobstar = false → l'.head? = some a := by
  intro splits
  induction splits with
  | nil =>
    intro start l l' st' h a ha _
    simp only [GSplit.storeAll] at h
    cases h; exact ha
  | cons so r ih =>
    intro start l l' st' h a ha hg
    obtain ⟨split, off⟩ := so
    simp only [GSplit.storeAll] at h
    cases hst : GSplit.store c (GSplit.slice p (start + 1).toNat split) l true with
    | error e => simp [hst] at h
    | ok l1 =>
      simp only [hst] at h
      exact ih _ _ _ _ h a (store_head hst a ha hg) hg

/-! ### `globSplit` in stages -/

def drivePart : GPart := ⟨.lit ['/'], false, false, false, true, true⟩
def emptyPart : GPart := ⟨.lit [], false, false, false, false, false⟩

/-- the drive detection of `split` (328-331) -/
def driveInit (p : List Char) : List GPart × Int × It :=
  match p with
  | '/' :: r => ([drivePart], 0, ⟨1, r⟩)
  | _ => ([], -1, ⟨0, p⟩)

/-- `globSplit`'s own `match` on the pattern is `driveInit` (stated with the matcher constant of
    `globSplit`, which is a different constant from the one `driveInit` compiles to) -/
theorem driveInit_eq (p : List Char) :
    globSplit.match_1 (fun _ => List GPart × Int × It) p
      (fun r => ([⟨.lit ['/'], false, false, false, true, true⟩], 0, ⟨1, r⟩))
      (fun _ => ([], -1, ⟨0, p⟩)) = driveInit p := by
  unfold driveInit
  split
  · rfl
  · rename_i hno
    split
    · rename_i r; exact absurd rfl (hno r)
    · rfl

/-- the part list before the implicit MATCHBASE part is put in front -/
def storedParts (c : SplitCfg) (p : List Char) : Except SplitErr (List GPart) :=
  match GSplit.storeAll c p (GSplit.scan c.flags.extmatch (p.length + 2) (driveInit p).2.2 [])
      (driveInit p).2.1 (driveInit p).1 with
  | .error e => .error e
  | .ok (parts, start) =>
    match (if start < p.length ∧ !(p.drop (start + 1).toNat).isEmpty then
        GSplit.store c (p.drop (start + 1).toNat) parts false else .ok parts) with
    | .error e => .error e
    | .ok parts => .ok (if p.isEmpty then parts ++ [emptyPart] else parts)

def needBase (c : SplitCfg) (parts : List GPart) : Bool :=
  (c.flags.extmatchbase && !((parts.head?.map (·.isDrive)).getD false)) ||
  (c.flags.matchbase && parts.length == 1 && !((parts.head?.map (·.dirOnly)).getD false))

/-- the implicit part goes in front only if the list does not already begin with a globstar
    (the RGLOBSTAR repair) -/
def withBase (c : SplitCfg) (parts : List GPart) : List GPart :=
  if needBase c parts && !((parts.head?.map (·.isGlobstar)).getD false) then basePart c :: parts else parts

/-- the pattern `split` really works on -/
def effPattern (f : Flags) (p : List Char) : List Char := if isNegative f p then p.take 1 else p

theorem globSplit_eq (f : Flags) (isBytes : Bool) (p0 : List Char) :
    globSplit f isBytes p0 =
      if !isUnixStyle f then .error .windows else
      match storedParts (SplitCfg.ofFlags f isBytes) (effPattern f p0) with
      | .error e => .error e
      | .ok s =>
        if (SplitCfg.ofFlags f isBytes).flags.noabsolute &&
            ((withBase (SplitCfg.ofFlags f isBytes) s).head?.map (·.isDrive)).getD false then .error .noAbsolute
        else .ok (withBase (SplitCfg.ofFlags f isBytes) s) := by
  unfold globSplit
  split
  · rfl
  · simp only
    unfold storedParts effPattern
    generalize (if isNegative f p0 = true then List.take 1 p0 else p0) = p
    generalize SplitCfg.ofFlags f isBytes = c
    rw [driveInit_eq p]
    cases h1 : GSplit.storeAll c p (GSplit.scan c.flags.extmatch (p.length + 2) (driveInit p).2.2 [])
      (driveInit p).2.1 (driveInit p).1 with
    | error e => rfl
    | ok r =>
      obtain ⟨parts, start⟩ := r
      simp only
      cases h2 : (if start < (p.length : Int) ∧ (!(p.drop (start + 1).toNat).isEmpty) = true then
        GSplit.store c (p.drop (start + 1).toNat) parts false else Except.ok parts) with
      | error e => rfl
      | ok parts2 => rfl

theorem driveInit_cases (p : List Char) :
    (∃ r, p = '/' :: r ∧ driveInit p = ([drivePart], 0, ⟨1, r⟩)) ∨
    (p.head? ≠ some '/' ∧ driveInit p = ([], -1, ⟨0, p⟩)) := by
  unfold driveInit
  split
  · rename_i r; exact Or.inl ⟨r, rfl, rfl⟩
  · rename_i hno
    right
    refine ⟨?_, rfl⟩
    cases p with
    | nil => simp
    | cons a r =>
      intro h
      simp at h
      subst h
      exact hno r rfl

/-- every part of the list before the implicit base part: the drive, or built by `store` from a
    value that does not start with a separator -/
def PartOK (c : SplitCfg) (q : GPart) : Prop :=
  q = drivePart ∨ ∃ v d, Stored c v d q ∧ v.head? ≠ some '/' ∧ Clean c.flags.extmatch v

theorem isMagic_nil (f : Flags) : GSplit.isMagic f [] = false := by
  simp [GSplit.isMagic]

theorem emptyPart_stored (c : SplitCfg) : Stored c [] false emptyPart :=
  ⟨rfl, rfl, rfl, (isMagic_nil _).symm, fun _ => rfl, (fun h => by cases h), (by simp [emptyPart, star2, star3]),
    (by simp [emptyPart, star3])⟩

theorem good_values (p : List Char) : ∀ (splits : List (Nat × Nat)) (s : Nat), Good p splits s →
    (∀ v ∈ valuesN p splits s, v.head? ≠ some '/') ∧ (p.drop (finalN splits s)).head? ≠ some '/' := by
  intro splits
  induction splits with
  | nil => intro s h; exact ⟨by simp [valuesN], h⟩
  | cons so r ih =>
    intro s h
    obtain ⟨split, off⟩ := so
    obtain ⟨h1, h2⟩ := h
    obtain ⟨i1, i2⟩ := ih _ h2
    refine ⟨?_, i2⟩
    intro v hv
    simp only [valuesN, List.mem_cons] at hv
    rcases hv with rfl | hv
    · exact h1
    · exact i1 v hv

theorem storedParts_nil (c : SplitCfg) : storedParts c [] = .ok [emptyPart] := by rfl

theorem drivePart_ok (c : SplitCfg) : PartOK c drivePart := Or.inl rfl

/-- **the list before the base part**: non-empty, adjacent parts related by `Adj`, every part the
    drive or a stored value not starting with `/` -/
theorem storedParts_shape (c : SplitCfg) (p : List Char) (s : List GPart) (h : storedParts c p = .ok s) :
    s ≠ [] ∧ Chain Adj s ∧ (∀ q ∈ s, PartOK c q) ∧
    (p.head? = some '/' → s.head? = some drivePart) ∧ (p.head? ≠ some '/' → ∀ q ∈ s, q.isDrive = false) := by
  by_cases hp : p = []
  · subst hp
    rw [storedParts_nil] at h
    cases h
    refine ⟨by simp, trivial, ?_, by simp, ?_⟩
    · intro q hq
      simp only [List.mem_singleton] at hq
      subst hq
      exact Or.inr ⟨[], false, emptyPart_stored c, by simp, clean_nil _⟩
    · intro _ q hq
      simp only [List.mem_singleton] at hq
      subst hq
      rfl
  · unfold storedParts at h
    have hpe : p.isEmpty = false := by cases p <;> simp_all
    -- the initial state
    have hinit : ∃ l0 st0 it0, driveInit p = (l0, st0, it0) ∧ It.At p it0 ∧ it0.idx = (st0 + 1).toNat ∧
        it0.rest.length < p.length + 2 ∧ Chain Adj l0 ∧ (∀ q ∈ l0, q.dirOnly = true) ∧ (∀ q ∈ l0, PartOK c q) ∧
        (l0 = [] → st0 = -1) ∧ (p.head? = some '/' → l0.head? = some drivePart) ∧
        (p.head? ≠ some '/' → l0 = []) := by
      rcases driveInit_cases p with ⟨r, rfl, hd⟩ | ⟨hns, hd⟩
      · refine ⟨_, _, _, hd, ⟨by simp, by simp⟩, rfl, by simp; omega, trivial, ?_, ?_, by simp, fun _ => rfl,
          fun h => absurd rfl h⟩
        · intro q hq; simp only [List.mem_singleton] at hq; subst hq; rfl
        · intro q hq; simp only [List.mem_singleton] at hq; subst hq; exact drivePart_ok c
      · refine ⟨_, _, _, hd, ⟨by simp, by simp⟩, rfl, by simp, trivial, by simp, by simp, fun _ => rfl,
          fun h => absurd h hns, fun _ => rfl⟩
    obtain ⟨l0, st0, it0, hd, hat, hidx, hfuel, hc0, hd0, hok0, hst0, habs0, hrel0⟩ := hinit
    rw [hd] at h
    simp only at h
    rw [scan_eq] at h
    simp only [List.reverse_nil, List.nil_append] at h
    have hgood := scan'_good c.flags.extmatch p (p.length + 2) it0 it0.idx hat (Nat.le_refl _) (Or.inl rfl) hfuel
    rw [hidx] at hgood
    obtain ⟨hvals, htail⟩ := good_values p _ _ hgood
    have hgood2 := scan'_good2 c.flags.extmatch p (p.length + 2) it0 it0.idx hat (Nat.le_refl _)
      (by rw [slice_self]; exact clean_nil _) hfuel
    rw [hidx] at hgood2
    obtain ⟨hvals2, htail2⟩ := good2_values _ p _ _ hgood2
    cases h1 : GSplit.storeAll c p (scan' c.flags.extmatch (p.length + 2) it0) st0 l0 with
    | error e => simp [h1] at h
    | ok r1 =>
      obtain ⟨l1, st1⟩ := r1
      simp only [h1] at h
      obtain ⟨hfin, hsame, hne1, hch1, hall1⟩ := storeAll_spec c p _ _ _ _ _ h1
      obtain ⟨hc1, hd1⟩ := hch1 hc0 hd0
      have hok1 : ∀ q ∈ l1, PartOK c q :=
        hall1 (PartOK c) hok0 (fun v hv q hq => Or.inr ⟨v, true, hq, hvals v hv, hvals2 v hv⟩)
      rw [← hfin] at htail htail2
      have habs1 : p.head? = some '/' → l1.head? = some drivePart :=
        fun hh => storeAll_head c p _ _ _ _ _ h1 drivePart (habs0 hh) rfl
      have hrel1 : p.head? ≠ some '/' → ∀ q ∈ l1, q.isDrive = false := by
        intro hh
        refine hall1 (fun q => q.isDrive = false) ?_ (fun v _ q hq => hq.drive)
        rw [hrel0 hh]; simp
      simp only [hpe, Bool.false_eq_true, if_false] at h
      by_cases hcond : st1 < (p.length : Int) ∧ (!(List.drop (st1 + 1).toNat p).isEmpty) = true
      · simp only [hcond, and_self, if_true] at h
        cases h2 : GSplit.store c (List.drop (st1 + 1).toNat p) l1 false with
        | error e => simp [h2] at h
        | ok l2 =>
          simp only [h2] at h
          cases h
          refine ⟨store_ne_nil h2, store_chain h2 hc1 hd1, ?_, ?_, ?_⟩
          · exact store_forall h2 hok1 (fun q hq => Or.inr ⟨_, false, hq, htail, htail2⟩)
          · exact fun hh => store_head h2 drivePart (habs1 hh) rfl
          · exact fun hh => store_forall h2 (hrel1 hh) (fun q hq => hq.drive)
      · simp only [hcond, if_false] at h
        cases h
        refine ⟨?_, hc1, hok1, habs1, hrel1⟩
        apply hne1
        by_cases hl0 : l0 = []
        · right
          intro hsp
          apply hcond
          have h1' := hsame hsp
          have h0 := hst0 hl0
          rw [h1', h0]
          refine ⟨by omega, ?_⟩
          simp [hpe]
        · exact Or.inl hl0

/-! ### the whole of `globSplit` -/

/-- **shape of every `globSplit` output**: the stored list `s` of `storedParts_shape`, possibly
    with the implicit base part in front (and then `s` begins neither with the drive nor with a
    globstar) -/
theorem globSplit_shape (f : Flags) (isBytes : Bool) (p : List Char) (parts : List GPart)
    (h : globSplit f isBytes p = .ok parts) :
    ∃ s, s ≠ [] ∧ Chain Adj s ∧ (∀ q ∈ s, PartOK (SplitCfg.ofFlags f isBytes) q) ∧
      ((effPattern f p).head? = some '/' → s.head? = some drivePart) ∧
      ((effPattern f p).head? ≠ some '/' → ∀ q ∈ s, q.isDrive = false) ∧
      (parts = s ∨
        (parts = basePart (SplitCfg.ofFlags f isBytes) :: s ∧ (∀ q, s.head? = some q → q.isDrive = false) ∧
          (f.extmatchbase = true ∨ f.matchbase = true) ∧ (∀ q, s.head? = some q → q.isGlobstar = false))) := by
  rw [globSplit_eq] at h
  split at h
  · cases h
  · cases hs : storedParts (SplitCfg.ofFlags f isBytes) (effPattern f p) with
    | error e => simp [hs] at h
    | ok s =>
      simp only [hs] at h
      split at h
      · cases h
      · cases h
        obtain ⟨hne, hch, hok, habs, hrel⟩ := storedParts_shape _ _ _ hs
        refine ⟨s, hne, hch, hok, habs, hrel, ?_⟩
        unfold withBase
        by_cases hb : (needBase (SplitCfg.ofFlags f isBytes) s &&
            !((s.head?.map (·.isGlobstar)).getD false)) = true
        · right
          simp only [hb, if_true, true_and]
          rw [Bool.and_eq_true] at hb
          obtain ⟨hb, hgs⟩ := hb
          unfold needBase at hb
          simp only [Bool.or_eq_true, Bool.and_eq_true, Bool.not_eq_true', beq_iff_eq] at hb
          refine ⟨?_, ?_, ?_⟩
          · intro q hq
            rcases hb with ⟨_, hb⟩ | ⟨_, hb⟩
            · simpa [hq] using hb
            · have hqm : q ∈ s := List.mem_of_mem_head? hq
              rcases hok q hqm with rfl | ⟨v, d, hst, _⟩
              · simp [hq, drivePart] at hb
              · exact hst.drive
          · rcases hb with ⟨hb, _⟩ | ⟨⟨hb, _⟩, _⟩
            · exact Or.inl hb
            · exact Or.inr hb
          · intro q hq
            simpa [hq] using hgs
        · left
          simp only [hb, Bool.false_eq_true, if_false]

/-! ### facts about single parts -/

theorem star_magic (f : Flags) (v : List Char) (h : '*' ∈ v) : GSplit.isMagic f v = true := by
  unfold GSplit.isMagic
  rw [List.any_eq_true]
  refine ⟨'*', ?_, by simpa using h⟩
  unfold GSplit.magicSymbols
  simp only [List.mem_append]
  exact Or.inl (Or.inl (Or.inl (Or.inl (Or.inl (by decide)))))

theorem slash_not_magic (f : Flags) : GSplit.isMagic f ['/'] = false := by
  unfold GSplit.isMagic GSplit.magicSymbols
  cases f.brace <;> cases f.split <;> cases f.globtilde <;> cases f.extmatch <;> cases f.negate <;>
    cases f.minusnegate <;> decide

/-- a part of a `globSplit` output: the drive, a stored value, or the implicit base part -/
def PartOK' (c : SplitCfg) (q : GPart) : Prop := PartOK c q ∨ q = basePart c

theorem basePart_cases (c : SplitCfg) :
    (basePart c = ⟨.lit star3, true, true, true, true, false⟩ ∧ c.globstarlong = true ∧ c.flags.follow = true) ∨
    basePart c = ⟨.lit star2, true, true, false, true, false⟩ := by
  unfold basePart
  split
  · rename_i h
    simp only [Bool.and_eq_true] at h
    exact Or.inl ⟨rfl, h.1, h.2⟩
  · exact Or.inr rfl

theorem globSplit_parts_ok {f : Flags} {isBytes : Bool} {p : List Char} {parts : List GPart}
    (h : globSplit f isBytes p = .ok parts) : ∀ q ∈ parts, PartOK' (SplitCfg.ofFlags f isBytes) q := by
  obtain ⟨s, _, _, hok, _, _, rfl | ⟨rfl, _, _⟩⟩ := globSplit_shape f isBytes p parts h
  · intro q hq; exact Or.inl (hok q hq)
  · intro q hq
    rcases List.mem_cons.1 hq with rfl | hq
    · exact Or.inr rfl
    · exact Or.inl (hok q hq)

/-- the drive flag is exactly "the part is the written string `/`", and the drive is a
    directory part -/
theorem PartOK'.drive {c : SplitCfg} {q : GPart} (h : PartOK' c q) :
    (q.isDrive = (q.pat.text == ['/'])) ∧ (q.isDrive = true → q.dirOnly = true) := by
  rcases h with (rfl | ⟨v, d, hst, hv, _⟩) | rfl
  · exact ⟨rfl, fun _ => rfl⟩
  · refine ⟨?_, fun h => by rw [hst.drive] at h; cases h⟩
    rw [hst.drive]
    symm
    rw [beq_eq_false_iff_ne]
    intro ht
    rcases q.pat.text_eq_src_or_nil with h1 | h1
    · rw [h1, hst.src] at ht; subst ht; exact hv rfl
    · rw [h1] at ht; cases ht
  · rcases basePart_cases c with ⟨h, _, _⟩ | h <;> rw [h] <;> exact ⟨rfl, fun h => by cases h⟩

/-- a non-magic part is a literal string -/
theorem PartOK'.litText {c : SplitCfg} {q : GPart} (h : PartOK' c q) (hm : q.isMagic = false) :
    q.pat = .lit q.pat.text := by
  rcases h with (rfl | ⟨v, d, hst, _⟩) | rfl
  · rfl
  · rw [hst.lit hm]; rfl
  · rcases basePart_cases c with ⟨h, _, _⟩ | h <;> rw [h] at hm <;> cases hm

/-- a magic part other than the base part is a compiled regex whose source is the part's text;
    a non-magic one is the literal -/
theorem PartOK'.pat {c : SplitCfg} {q : GPart} (h : PartOK' c q) :
    (q.isMagic = false ∧ q.pat = .lit q.pat.src) ∨ (q.isMagic = true ∧ ∃ r, q.pat = .re q.pat.src r) ∨
    q = basePart c := by
  rcases h with (rfl | ⟨v, d, hst, _⟩) | rfl
  · exact Or.inl ⟨rfl, rfl⟩
  · cases hm : q.isMagic with
    | false => left; rw [hst.lit hm]; exact ⟨rfl, rfl⟩
    | true => right; left; obtain ⟨r, _, hr⟩ := hst.re hm; rw [hr]; exact ⟨rfl, r, rfl⟩
  · exact Or.inr (Or.inr rfl)

/-- `is_magic` of a part is `_GlobSplit.is_magic` of its text (the base part is magic by fiat) -/
theorem PartOK'.magic {c : SplitCfg} {q : GPart} (h : PartOK' c q) :
    q.isMagic = GSplit.isMagic c.flags q.pat.src := by
  rcases h with (rfl | ⟨v, d, hst, _⟩) | rfl
  · exact (slash_not_magic _).symm
  · rw [hst.src]; exact hst.magic
  · rcases basePart_cases c with ⟨h, _, _⟩ | h <;> rw [h] <;> symm <;> apply star_magic <;> simp [PPat.src, star2, star3]

/-- a globstar part is magic, is not the drive, and its text is `**` or `***` -/
theorem PartOK'.globstar {c : SplitCfg} {q : GPart} (h : PartOK' c q) (hg : q.isGlobstar = true) :
    (q.pat.src = star2 ∨ q.pat.src = star3) ∧ q.isMagic = true ∧ q.isDrive = false := by
  rcases h with (rfl | ⟨v, d, hst, _⟩) | rfl
  · cases hg
  · have hs := hst.gs_src hg
    refine ⟨by rw [hst.src]; exact hs, ?_, hst.drive⟩
    rw [hst.magic]
    apply star_magic
    rcases hs with rfl | rfl <;> simp [star2, star3]
  · rcases basePart_cases c with ⟨h, _, _⟩ | h <;> rw [h] <;> simp [PPat.src]

/-- `***`: only with GLOBSTARLONG, only for the text `***`, and always a globstar too -/
theorem PartOK'.globstarLong {c : SplitCfg} {q : GPart} (h : PartOK' c q) (hg : q.isGlobstarLong = true) :
    q.pat.src = star3 ∧ q.isGlobstar = true ∧ c.globstarlong = true := by
  rcases h with (rfl | ⟨v, d, hst, _⟩) | rfl
  · cases hg
  · obtain ⟨h1, h2, h3⟩ := hst.gsl_gs hg
    exact ⟨by rw [hst.src]; exact h2, h1, h3⟩
  · rcases basePart_cases c with ⟨h, h1, _⟩ | h
    · rw [h]; exact ⟨rfl, rfl, h1⟩
    · rw [h] at hg; cases hg

/-- no part other than the drive starts with a separator -/
theorem PartOK'.src_head {c : SplitCfg} {q : GPart} (h : PartOK' c q) (hd : q.isDrive = false) :
    q.pat.src.head? ≠ some '/' := by
  rcases h with (rfl | ⟨v, d, hst, hv, _⟩) | rfl
  · cases hd
  · rw [hst.src]; exact hv
  · rcases basePart_cases c with ⟨h, _, _⟩ | h <;> rw [h] <;> simp [PPat.src, star2, star3]

/-- a part with a separator inside (not the drive) needs EXTMATCH and a `(` in the part -/
theorem PartOK'.inner_slash {c : SplitCfg} {q : GPart} (h : PartOK' c q) (hd : q.isDrive = false)
    (hs : '/' ∈ q.pat.src) : c.flags.extmatch = true ∧ '(' ∈ q.pat.src ∧ q.isMagic = true := by
  rcases h with (rfl | ⟨v, d, hst, _, hcl⟩) | rfl
  · cases hd
  · rw [hst.src] at hs ⊢
    obtain ⟨h1, h2⟩ := hcl hs
    refine ⟨h1, h2, ?_⟩
    rw [hst.magic]
    unfold GSplit.isMagic
    rw [List.any_eq_true]
    refine ⟨'(', ?_, by simpa using h2⟩
    unfold GSplit.magicSymbols
    simp only [List.mem_append]
    exact Or.inl (Or.inr (by rw [h1]; decide))
  · rcases basePart_cases c with ⟨h, _, _⟩ | h <;> rw [h] at hs <;> simp [PPat.src, star2, star3] at hs

/-! ### the goal theorems -/

theorem wfParts_of_chain : ∀ l : List GPart, Chain Adj l → WFParts l
  | [], _ => trivial
  | [_], _ => trivial
  | _ :: b :: r, h => ⟨h.1.1, wfParts_of_chain (b :: r) h.2⟩

theorem basePart_dirOnly (c : SplitCfg) : (basePart c).dirOnly = true := by
  unfold basePart; split <;> rfl

theorem basePart_isGlobstar (c : SplitCfg) : (basePart c).isGlobstar = true := by
  unfold basePart; split <;> rfl

/-- **only the last part may lack `dir_only`** -/
theorem globSplit_WFParts (f : Flags) (isBytes : Bool) (p : List Char) (parts : List GPart)
    (h : globSplit f isBytes p = .ok parts) : WFParts parts := by
  obtain ⟨s, hne, hch, _, _, _, rfl | ⟨rfl, _, _⟩⟩ := globSplit_shape f isBytes p parts h
  · exact wfParts_of_chain _ hch
  · cases s with
    | nil => exact absurd rfl hne
    | cons a r => exact ⟨basePart_dirOnly _, wfParts_of_chain _ hch⟩

/-- the drive fact, for EVERY part -/
theorem globSplit_drive_all (f : Flags) (isBytes : Bool) (p : List Char) (parts : List GPart)
    (h : globSplit f isBytes p = .ok parts) :
    ∀ q ∈ parts, (q.isDrive = (q.pat.text == ['/'])) ∧ (q.isDrive = true → q.dirOnly = true) :=
  fun q hq => (globSplit_parts_ok h q hq).drive

/-- exactly `TopOK.drive` -/
theorem globSplit_drive (f : Flags) (isBytes : Bool) (p : List Char) (parts : List GPart)
    (h : globSplit f isBytes p = .ok parts) :
    ∀ q rest, parts = q :: rest → (q.isDrive = (q.pat.text == ['/'])) ∧ (q.isDrive = true → q.dirOnly = true) := by
  intro q rest hp
  exact globSplit_drive_all f isBytes p parts h q (by rw [hp]; exact List.mem_cons_self)

/-- the literal fact, for EVERY part -/
theorem globSplit_litText_all (f : Flags) (isBytes : Bool) (p : List Char) (parts : List GPart)
    (h : globSplit f isBytes p = .ok parts) :
    ∀ q ∈ parts, q.isMagic = false → q.pat = .lit q.pat.text :=
  fun q hq => (globSplit_parts_ok h q hq).litText

/-- exactly `TopOK.litText` -/
theorem globSplit_litText (f : Flags) (isBytes : Bool) (p : List Char) (parts : List GPart)
    (h : globSplit f isBytes p = .ok parts) :
    ∀ q rest, parts = q :: rest → q.isMagic = false → q.pat = .lit q.pat.text := by
  intro q rest hp
  exact globSplit_litText_all f isBytes p parts h q (by rw [hp]; exact List.mem_cons_self)

/-- the parts list is never empty -/
theorem globSplit_ne_nil (f : Flags) (isBytes : Bool) (p : List Char) (parts : List GPart)
    (h : globSplit f isBytes p = .ok parts) : parts ≠ [] := by
  obtain ⟨s, hne, _, _, _, _, rfl | ⟨rfl, _, _⟩⟩ := globSplit_shape f isBytes p parts h
  · exact hne
  · simp

/-- **no part other than the first is the drive** -/
theorem globSplit_drive_first (f : Flags) (isBytes : Bool) (p : List Char) (parts : List GPart)
    (h : globSplit f isBytes p = .ok parts) :
    ∀ pre a b post, parts = pre ++ a :: b :: post → b.isDrive = false := by
  obtain ⟨s, hne, hch, _, _, _, rfl | ⟨rfl, hhd, _⟩⟩ := globSplit_shape f isBytes p parts h
  · intro pre a b post hp
    exact ((chain_iff_adj _).1 hch pre a b post hp).2.1
  · intro pre a b post hp
    cases pre with
    | nil =>
      simp only [List.nil_append, List.cons.injEq] at hp
      obtain ⟨_, rfl⟩ := hp
      exact hhd b rfl
    | cons x pre' =>
      simp only [List.cons_append, List.cons.injEq] at hp
      exact ((chain_iff_adj _).1 hch pre' a b post hp.2).2.1

/-- a globstar part has text `**` or `***`, is magic and is not the drive; a long one has text
    `***` (for every part) -/
theorem globSplit_globstar (f : Flags) (isBytes : Bool) (p : List Char) (parts : List GPart)
    (h : globSplit f isBytes p = .ok parts) :
    ∀ q ∈ parts, (q.isGlobstar = true → (q.pat.src = star2 ∨ q.pat.src = star3) ∧ q.isMagic = true ∧ q.isDrive = false) ∧
      (q.isGlobstarLong = true → q.pat.src = star3 ∧ q.isGlobstar = true ∧ f.globstarlong = true) :=
  fun q hq => ⟨(globSplit_parts_ok h q hq).globstar, (globSplit_parts_ok h q hq).globstarLong⟩

/-- without GLOBSTARLONG no part is a `***` -/
theorem globSplit_noLong (f : Flags) (isBytes : Bool) (p : List Char) (parts : List GPart)
    (h : globSplit f isBytes p = .ok parts) (hf : f.globstarlong = false) : NoLong parts := by
  intro q hq
  cases hl : q.isGlobstarLong with
  | false => rfl
  | true =>
    have := ((globSplit_globstar f isBytes p parts h q hq).2 hl).2.2
    rw [hf] at this; cases this

/-- **two adjacent parts are never both globstars** — `store` merges them inside the pattern,
    and (since the RGLOBSTAR repair) the implicit base part is not put in front of a
    pattern-initial globstar (`adjacent_globstar_fixed_witness`) -/
theorem globSplit_adjacent_globstar (f : Flags) (isBytes : Bool) (p : List Char) (parts : List GPart)
    (h : globSplit f isBytes p = .ok parts) :
    ∀ pre a b post, parts = pre ++ a :: b :: post → a.isGlobstar = true → b.isGlobstar = true → False := by
  obtain ⟨s, hne, hch, _, _, _, rfl | ⟨rfl, _, _, hgs⟩⟩ := globSplit_shape f isBytes p parts h
  · intro pre a b post hp ha hb
    exact absurd ⟨ha, hb⟩ ((chain_iff_adj _).1 hch pre a b post hp).2.2.1
  · intro pre a b post hp ha hb
    cases pre with
    | nil =>
      simp only [List.nil_append, List.cons.injEq] at hp
      obtain ⟨_, rfl⟩ := hp
      have := hgs b rfl
      rw [hb] at this; cases this
    | cons x pre' =>
      simp only [List.cons_append, List.cons.injEq] at hp
      exact absurd ⟨ha, hb⟩ ((chain_iff_adj _).1 hch pre' a b post hp.2).2.2.1

/-- **a part with a predecessor has non-empty text — except directly after the implicit base
    part** (the exception is real: `empty_after_base_witness`) -/
theorem globSplit_nonempty_src (f : Flags) (isBytes : Bool) (p : List Char) (parts : List GPart)
    (h : globSplit f isBytes p = .ok parts) :
    ∀ pre a b post, parts = pre ++ a :: b :: post → b.pat.src = [] →
      pre = [] ∧ a = basePart (SplitCfg.ofFlags f isBytes) ∧ (f.extmatchbase = true ∨ f.matchbase = true) := by
  obtain ⟨s, hne, hch, _, _, _, rfl | ⟨rfl, _, hfl, _⟩⟩ := globSplit_shape f isBytes p parts h
  · intro pre a b post hp hb
    exact absurd hb ((chain_iff_adj _).1 hch pre a b post hp).2.2.2
  · intro pre a b post hp hb
    cases pre with
    | nil =>
      simp only [List.nil_append, List.cons.injEq] at hp
      exact ⟨rfl, hp.1.symm, hfl⟩
    | cons x pre' =>
      simp only [List.cons_append, List.cons.injEq] at hp
      exact absurd hb ((chain_iff_adj _).1 hch pre' a b post hp.2).2.2.2

/-- no part other than the drive starts with a separator; in particular a non-drive part is
    never the string `/` (an escaped `\/` is a split point, not text) -/
theorem globSplit_src_head (f : Flags) (isBytes : Bool) (p : List Char) (parts : List GPart)
    (h : globSplit f isBytes p = .ok parts) :
    ∀ q ∈ parts, q.isDrive = false → q.pat.src.head? ≠ some '/' :=
  fun q hq => (globSplit_parts_ok h q hq).src_head

/-- `is_magic` of every part is `_GlobSplit.is_magic` of its text, and the pattern field is the
    literal text or a regex compiled from it (or the part is the base part, a literal `**`) -/
theorem globSplit_pat (f : Flags) (isBytes : Bool) (p : List Char) (parts : List GPart)
    (h : globSplit f isBytes p = .ok parts) :
    ∀ q ∈ parts, q.isMagic = GSplit.isMagic (SplitCfg.ofFlags f isBytes).flags q.pat.src ∧
      ((q.isMagic = false ∧ q.pat = .lit q.pat.src) ∨ (q.isMagic = true ∧ ∃ r, q.pat = .re q.pat.src r) ∨
        q = basePart (SplitCfg.ofFlags f isBytes)) :=
  fun q hq => ⟨(globSplit_parts_ok h q hq).magic, (globSplit_parts_ok h q hq).pat⟩


/-- **the pattern is absolute exactly when it is written with a leading `/`**: the first part is
    the drive iff the pattern `split` works on starts with a separator -/
theorem globSplit_absolute (f : Flags) (isBytes : Bool) (p : List Char) (parts : List GPart)
    (h : globSplit f isBytes p = .ok parts) :
    ∀ q rest, parts = q :: rest → (q.isDrive = true ↔ (effPattern f p).head? = some '/') := by
  obtain ⟨s, hne, _, _, habs, hrel, rfl | ⟨rfl, hhd, _⟩⟩ := globSplit_shape f isBytes p parts h
  · intro q rest hp
    subst hp
    constructor
    · intro hq
      apply Classical.byContradiction
      intro hn
      have := hrel hn q List.mem_cons_self
      rw [hq] at this; cases this
    · intro hh
      have := habs hh
      simp only [List.head?_cons, Option.some.injEq] at this
      rw [this]; rfl
  · intro q rest hp
    simp only [List.cons.injEq] at hp
    obtain ⟨rfl, rfl⟩ := hp
    constructor
    · intro hq
      rcases basePart_cases (SplitCfg.ofFlags f isBytes) with ⟨hb, _, _⟩ | hb <;> rw [hb] at hq <;> cases hq
    · intro hh
      have h1 := habs hh
      have := hhd _ h1
      cases this

/-- with `_NOABSOLUTE` a successful split is of a pattern without a leading `/` -/
theorem globSplit_noabsolute (f : Flags) (isBytes : Bool) (p : List Char) (parts : List GPart)
    (h : globSplit f isBytes p = .ok parts) (hf : f.noabsolute = true) :
    (effPattern f p).head? ≠ some '/' ∧ ∀ q ∈ parts, q.isDrive = false := by
  have hnd : ∀ q rest, parts = q :: rest → q.isDrive = false := by
    intro q rest hp
    rw [globSplit_eq] at h
    split at h
    · cases h
    · split at h
      · cases h
      · split at h
        · cases h
        · rename_i hno
          cases h
          rw [hp] at hno
          have hf' : (SplitCfg.ofFlags f isBytes).flags.noabsolute = true := hf
          simpa [hf'] using hno
  cases hparts : parts with
  | nil => exact absurd hparts (globSplit_ne_nil f isBytes p parts h)
  | cons q rest =>
    have hq := hnd q rest hparts
    have habs := globSplit_absolute f isBytes p parts h q rest hparts
    refine ⟨(fun hh => by rw [habs.2 hh] at hq; cases hq), ?_⟩
    intro x hx
    rcases List.mem_cons.1 hx with rfl | hx
    · exact hq
    · obtain ⟨pre, post, hsp⟩ := List.append_of_mem hx
      cases pre with
      | nil => exact globSplit_drive_first f isBytes p parts h [] q x post (by rw [hparts, hsp]; rfl)
      | cons y pre' =>
        obtain ⟨pre2, z, hz⟩ : ∃ pre2 z, y :: pre' = pre2 ++ [z] := by
          rcases List.eq_nil_or_concat (y :: pre') with h0 | ⟨a, b, hab⟩
          · cases h0
          · exact ⟨a, b, by simpa using hab⟩
        refine globSplit_drive_first f isBytes p parts h (q :: pre2) z x post ?_
        rw [hparts, hsp, hz]; simp

/-- **a separator inside a part** (other than the drive) is possible only under EXTMATCH, in a
    magic part that contains a `(` (`inner_slash_witness`: an unterminated group) … -/
theorem globSplit_inner_slash (f : Flags) (isBytes : Bool) (p : List Char) (parts : List GPart)
    (h : globSplit f isBytes p = .ok parts) :
    ∀ q ∈ parts, q.isDrive = false → '/' ∈ q.pat.src → f.extmatch = true ∧ '(' ∈ q.pat.src ∧ q.isMagic = true :=
  fun q hq => (globSplit_parts_ok h q hq).inner_slash

/-- … so **a literal part is a single path segment**: no separator in its text -/
theorem globSplit_lit_noslash (f : Flags) (isBytes : Bool) (p : List Char) (parts : List GPart)
    (h : globSplit f isBytes p = .ok parts) :
    ∀ q ∈ parts, q.isMagic = false → q.isDrive = false → '/' ∉ q.pat.text := by
  intro q hq hm hd hs
  have hlit := globSplit_litText_all f isBytes p parts h q hq hm
  have hsrc : q.pat.src = q.pat.text := by rw [hlit]; rfl
  have := (globSplit_inner_slash f isBytes p parts h q hq hd (by rw [hsrc]; exact hs)).2.2
  rw [hm] at this; cases this

/-! ## Part 4: MATCHBASE / `_EXTMATCHBASE` and the split (the G6 repair)

  `store` compiles a magic part under `self.flags & ~(MATCHBASE | _EXTMATCHBASE)` (`SplitCfg.partFlags`),
  so the two flags reach nothing in `split` but the decision to put the base part in front. -/

/-- the configuration with MATCHBASE / `_EXTMATCHBASE` cleared -/
def SplitCfg.noBase (c : SplitCfg) : SplitCfg := { c with flags := c.flags.noBase }

theorem SplitCfg.ofFlags_noBase (f : Flags) (isBytes : Bool) :
    SplitCfg.ofFlags f.noBase isBytes = (SplitCfg.ofFlags f isBytes).noBase := rfl

theorem store_noBase (c : SplitCfg) (v : List Char) (l : List GPart) (d : Bool) :
    GSplit.store c.noBase v l d = GSplit.store c v l d := rfl

theorem storeAll_noBase (c : SplitCfg) (p : List Char) : ∀ (splits : List (Nat × Nat)) (start : Int) (l : List GPart),
    GSplit.storeAll c.noBase p splits start l = GSplit.storeAll c p splits start l := by
  intro splits
  induction splits with
  | nil => intro start l; rfl
  | cons so r ih =>
    intro start l
    obtain ⟨split, off⟩ := so
    simp only [GSplit.storeAll, store_noBase]
    cases GSplit.store c (GSplit.slice p (start + 1).toNat split) l true with
    | error e => rfl
    | ok l1 => exact ih _ _

theorem storedParts_noBase (c : SplitCfg) (p : List Char) : storedParts c.noBase p = storedParts c p := by
  unfold storedParts
  rw [storeAll_noBase]
  rfl

theorem needBase_noBase (c : SplitCfg) (s : List GPart) : needBase c.noBase s = false := rfl

theorem withBase_noBase (c : SplitCfg) (s : List GPart) : withBase c.noBase s = s := rfl

/-- a stored list that begins with the drive gets no base part -/
theorem withBase_drive (c : SplitCfg) (p : List Char) (s : List GPart) (hs : storedParts c p = .ok s)
    (hd : (s.head?.map (·.isDrive)).getD false = true) : withBase c s = s := by
  obtain ⟨_, _, hok, _, _⟩ := storedParts_shape c p s hs
  cases s with
  | nil => simp at hd
  | cons a r =>
    simp only [List.head?_cons, Option.map_some, Option.getD_some] at hd
    have ha : a = drivePart := by
      rcases hok a List.mem_cons_self with rfl | ⟨v, d, hst, _⟩
      · rfl
      · rw [hst.drive] at hd; cases hd
    subst ha
    unfold withBase needBase
    simp [drivePart]

theorem withBase_head_drive (c : SplitCfg) (s : List GPart)
    (hd : ((withBase c s).head?.map (·.isDrive)).getD false = true) :
    (s.head?.map (·.isDrive)).getD false = true := by
  unfold withBase at hd
  split at hd
  · rcases basePart_cases c with ⟨h, _, _⟩ | h <;> rw [h] at hd <;> simp at hd
  · exact hd

/-- **MATCHBASE / `_EXTMATCHBASE` have exactly one effect on the split: the implicit base part.**
    For every pattern string and flag word, `_GlobSplit(p, f).split()` is the split under
    `f & ~(MATCHBASE | _EXTMATCHBASE)` — the same parts, the same compiled regexes — with the base
    part `**` / `***` put in front when the flags ask for it (the G6 repair; before it every magic
    part was compiled with the flags still set and carried the prefix itself). -/
theorem globSplit_base_only (f : Flags) (isBytes : Bool) (p : List Char) :
    globSplit f isBytes p = (globSplit f.noBase isBytes p).map (withBase (SplitCfg.ofFlags f isBytes)) := by
  rw [globSplit_eq f, globSplit_eq f.noBase, SplitCfg.ofFlags_noBase]
  have hu : isUnixStyle f.noBase = isUnixStyle f := rfl
  have he : effPattern f.noBase p = effPattern f p := rfl
  rw [hu, he, storedParts_noBase]
  split
  · rfl
  · cases hs : storedParts (SplitCfg.ofFlags f isBytes) (effPattern f p) with
    | error e => rfl
    | ok s =>
      simp only [withBase_noBase]
      have hna : (SplitCfg.ofFlags f isBytes).noBase.flags.noabsolute = (SplitCfg.ofFlags f isBytes).flags.noabsolute := rfl
      rw [hna]
      cases hn : (SplitCfg.ofFlags f isBytes).flags.noabsolute with
      | false => simp [Except.map]
      | true =>
        simp only [Bool.true_and]
        by_cases hd : (s.head?.map (·.isDrive)).getD false = true
        · have hw := withBase_drive _ _ s hs hd
          rw [hw]; simp [hd, Except.map]
        · have hd' : ¬ ((withBase (SplitCfg.ofFlags f isBytes) s).head?.map (·.isDrive)).getD false = true :=
            fun h => hd (withBase_head_drive _ s h)
          simp [hd, hd', Except.map]

/-- … in particular the parts of a successful split are the parts of the split under the cleared
    flags, after the base part (if there is one) -/
theorem globSplit_base_only_ok (f : Flags) (isBytes : Bool) (p : List Char) (parts : List GPart)
    (h : globSplit f isBytes p = .ok parts) :
    ∃ s, globSplit f.noBase isBytes p = .ok s ∧
      (parts = s ∨ (parts = basePart (SplitCfg.ofFlags f isBytes) :: s ∧ (f.extmatchbase = true ∨ f.matchbase = true))) := by
  rw [globSplit_base_only] at h
  cases hs : globSplit f.noBase isBytes p with
  | error e => rw [hs] at h; cases h
  | ok s =>
    rw [hs] at h
    simp only [Except.map] at h
    cases h
    refine ⟨s, rfl, ?_⟩
    unfold withBase
    by_cases hb : needBase (SplitCfg.ofFlags f isBytes) s = true
    · by_cases hg : (s.head?.map (·.isGlobstar)).getD false = true
      · left; simp [hb, hg]
      · right
        have hg' : (s.head?.map (·.isGlobstar)).getD false = false := by simpa using hg
        refine ⟨by simp [hb, hg'], ?_⟩
        unfold needBase at hb
        simp only [Bool.or_eq_true, Bool.and_eq_true] at hb
        rcases hb with ⟨hb, _⟩ | ⟨⟨hb, _⟩, _⟩
        · exact Or.inl hb
        · exact Or.inr hb
    · left
      have hb' : needBase (SplitCfg.ofFlags f isBytes) s = false := by simpa using hb
      simp [hb']

/-- **every compiled part is compiled under `flags & ~(MATCHBASE | _EXTMATCHBASE)`**: a magic part
    other than the base part holds the regex `_wcparse._compile(text, …)` gives for its text under
    the flags with both bits cleared -/
theorem globSplit_part_compiled (f : Flags) (isBytes : Bool) (p : List Char) (parts : List GPart)
    (h : globSplit f isBytes p = .ok parts) :
    ∀ q ∈ parts, q.isMagic = true → q ≠ basePart (SplitCfg.ofFlags f isBytes) →
      ∃ r, compilePart (SplitCfg.ofFlags f isBytes).flags.noBase isBytes q.pat.src = .ok r ∧ q.pat = .re q.pat.src r := by
  intro q hq hm hb
  rcases globSplit_parts_ok h q hq with (rfl | ⟨v, d, hst, _⟩) | rfl
  · cases hm
  · obtain ⟨r, hc, hr⟩ := hst.re hm
    rw [hst.src]
    exact ⟨r, hc, hr⟩
  · exact absurd rfl hb

end WcModel

import WcModel.Proofs.LiteralLang
import WcModel.Proofs.WinUnixSem
/-
  C09 under Windows rules, part (1): FNMATCH MODE (no PATHNAME) with FORCEWIN.

  `fnmatch.escape(s)` is `_wcparse.escape(s, pathname=False)`: the drive carve-out is switched off
  by `pathname=False`, so it is the Unix escape `escapeUnix` on every platform.  The faithful port
  run on a pattern made of literal units under Windows rules (`unix = false`; outside path mode
  `winDriveDetect = bslashAbort = false`) emits one item per unit: `[\\/]` for `/` and for the
  escaped backslash `\\`, a literal for every other character.

  This file: the engine (`rootLoop_litsW`, `parseItems_litsW`) and the language
  (`literal_language_win`), the Windows twin of `Literal.lean` / `LiteralLang.lean`.
-/
namespace WcModel

/-- a separator character under Windows rules -/
def isSepW (c : Char) : Bool := c == '/' || c == '\\'

theorem isSepW_iff (c : Char) : isSepW c = true ↔ (c = '/' ∨ c = '\\') := by
  simp [isSepW]

/-- what the pass emits for a literal character in fnmatch mode, Windows rules -/
def litReW (c : Char) : Re := if isSepW c then Frag.sep true else .lit c
def litItemW (c : Char) : Item := .re (litReW c)

/-- fnmatch mode, Windows rules (what `Cfg.ofFlags` gives for FORCEWIN without PATHNAME) -/
structure FnWin (cfg : Cfg) : Prop where
  pathname : cfg.pathname = false
  unix : cfg.unix = false
  bslash : cfg.bslashAbort = false
  wdd : cfg.winDriveDetect = false
  realpath : cfg.realpath = false

theorem FnWin.win {cfg : Cfg} (h : FnWin cfg) : cfg.win = true := by simp [Cfg.win, h.unix]

theorem rootLoop_plainW (cfg : Cfg) (h : FnWin cfg) (fuel i : Nat) (c : Char) (rest : List Char) (ps : PS)
    (cur : List Item) (hinv : TopInv ps)
    (h1 : c ≠ '*') (h2 : c ≠ '?') (h3 : c ≠ '[') (h4 : c ≠ '\\')
    (hext : cfg.extend = true → c ∈ extTypes → rest.head? ≠ some '(') :
    rootLoop cfg (fuel + 1) ⟨i, c :: rest⟩ ps cur =
      rootLoop cfg fuel ⟨i + 1, rest⟩ ps.updateDirState (litItemW c :: cur) := by
  have hwin := h.win
  have hfail : cfg.extend = true → c ∈ extTypes →
      parseExtend cfg (2 * rest.length + 8) c ⟨i + 1, rest⟩ ps cur true = (false, ps, ⟨i + 1, rest⟩, cur) := by
    intro he hm
    have := hext he hm
    apply parseExtend_fail_noparen cfg (2 * rest.length + 7) c ⟨i + 1, rest⟩ ps cur hinv
    intro d it' hn
    cases rest with
    | nil => simp [It.next] at hn
    | cons x xs =>
      simp [It.next] at hn
      simp at this
      rw [← hn.1]; exact this
  conv => lhs; unfold rootLoop
  simp only [It.next]
  by_cases hx : (cfg.extend && decide (c ∈ extTypes)) = true
  · simp only [Bool.and_eq_true, decide_eq_true_eq] at hx
    simp only [hx.1, hx.2, decide_true, Bool.and_self, ite_true, hfail hx.1 hx.2]
    by_cases hd : c = '.'
    · subst hd; simp [handleDot, h.pathname, litItemW, litReW, isSepW]
    · by_cases hs : c = '/'
      · subst hs; simp [h.pathname, litItemW, litReW, isSepW, hwin]
      · simp [hd, hs, h1, h2, h3, h4, litItemW, litReW, isSepW]
  · simp only [hx, Bool.false_eq_true, ite_false]
    by_cases hd : c = '.'
    · subst hd; simp [handleDot, h.pathname, litItemW, litReW, isSepW]
    · by_cases hs : c = '/'
      · subst hs; simp [h.pathname, litItemW, litReW, isSepW, hwin]
      · simp [hd, hs, h1, h2, h3, h4, litItemW, litReW, isSepW]

/-- an escaped character other than `.` : one iteration (`\\` and `\/` give `[\\/]`) -/
theorem rootLoop_escW (cfg : Cfg) (h : FnWin cfg) (fuel i : Nat) (c : Char) (rest : List Char) (ps : PS)
    (cur : List Item) (hinv : TopInv ps) (hd : c ≠ '.') :
    rootLoop cfg (fuel + 1) ⟨i, '\\' :: c :: rest⟩ ps cur =
      rootLoop cfg fuel ⟨i + 2, rest⟩ ps.updateDirState (litItemW c :: cur) := by
  have hwin := h.win
  conv => lhs; unfold rootLoop
  simp only [It.next, bs_not_ext, decide_false, Bool.and_false, Bool.false_eq_true, ite_false]
  by_cases hb : c = '\\'
  · subst hb
    simp [references, It.next, h.bslash, h.unix, hinv.dirStart, litItemW, litReW, isSepW, hwin]
  · by_cases hs : c = '/'
    · subst hs
      simp [references, It.next, h.pathname, hinv.dirStart, litItemW, litReW, isSepW, hwin]
    · simp [references, It.next, hb, hs, hd, hinv.dirStart, litItemW, litReW, isSepW]

/-- `\.` : the escape is dropped and the dot is read again (two iterations) -/
theorem rootLoop_esc_dotW (cfg : Cfg) (h : FnWin cfg) (fuel i : Nat) (rest : List Char) (ps : PS)
    (cur : List Item) (hinv : TopInv ps) :
    rootLoop cfg (fuel + 2) ⟨i, '\\' :: '.' :: rest⟩ ps cur =
      rootLoop cfg fuel ⟨i + 2, rest⟩ ps.updateDirState (litItemW '.' :: cur) := by
  have step1 : rootLoop cfg (fuel + 2) ⟨i, '\\' :: '.' :: rest⟩ ps cur =
      rootLoop cfg (fuel + 1) ⟨i + 1, '.' :: rest⟩ ps cur := by
    conv => lhs; unfold rootLoop
    simp [It.next, bs_not_ext, references]
  rw [step1]
  have hne : ¬ ('.' ∈ extTypes) := by rw [extTypes_eq]; decide
  exact rootLoop_plainW cfg h fuel (i + 1) '.' rest ps cur hinv (by decide) (by decide) (by decide) (by decide)
    (fun _ hm => absurd hm hne)

/-- **a run of literal units becomes a run of literal items** — any length, any flags of
    fnmatch mode / Windows rules -/
theorem rootLoop_litsW (cfg : Cfg) (h : FnWin cfg) :
    ∀ (ts : List LTok) (fuel i : Nat) (ps : PS) (cur : List Item), okToks cfg ts → TopInv ps →
      (printToks ts).length + 1 ≤ fuel →
      ∃ ps', rootLoop cfg fuel ⟨i, printToks ts⟩ ps cur =
          (ps', (ts.map (fun t => litItemW t.c)).reverse ++ cur) ∧ TopInv ps' := by
  intro ts
  induction ts with
  | nil =>
    intro fuel i ps cur _ hinv hf
    cases fuel with
    | zero => simp at hf
    | succ f => exact ⟨ps, by simp [printToks, rootLoop, It.next], hinv⟩
  | cons t rest ih =>
    intro fuel i ps cur hok hinv hf
    obtain ⟨hk, hrest⟩ := hok
    rw [printToks_cons] at hf ⊢
    cases he : t.esc with
    | true =>
      simp only [LTok.print, he, ite_true, List.cons_append, List.nil_append, List.length_cons] at hf ⊢
      by_cases hd : t.c = '.'
      · obtain ⟨f, rfl⟩ : ∃ f, fuel = f + 2 := ⟨fuel - 2, by omega⟩
        rw [hd, rootLoop_esc_dotW cfg h f i _ ps cur hinv]
        obtain ⟨ps', h1, h2⟩ := ih f (i + 2) ps.updateDirState (litItemW '.' :: cur) hrest hinv.update (by omega)
        exact ⟨ps', by rw [h1]; simp [hd], h2⟩
      · obtain ⟨f, rfl⟩ : ∃ f, fuel = f + 1 := ⟨fuel - 1, by omega⟩
        rw [rootLoop_escW cfg h f i t.c _ ps cur hinv hd]
        obtain ⟨ps', h1, h2⟩ := ih f (i + 2) ps.updateDirState (litItemW t.c :: cur) hrest hinv.update (by omega)
        exact ⟨ps', by rw [h1]; simp, h2⟩
    | false =>
      simp only [LTok.print, he, Bool.false_eq_true, ite_false, List.cons_append, List.nil_append,
        List.length_cons] at hf ⊢
      have hk' : t.c ≠ '*' ∧ t.c ≠ '?' ∧ t.c ≠ '[' ∧ t.c ≠ '\\' ∧
          (cfg.extend = true → t.c ∈ extTypes → nextNotParen rest) := by
        rcases hk with hk | hk
        · simp [he] at hk
        · exact hk
      obtain ⟨f, rfl⟩ : ∃ f, fuel = f + 1 := ⟨fuel - 1, by omega⟩
      rw [rootLoop_plainW cfg h f i t.c _ ps cur hinv hk'.1 hk'.2.1 hk'.2.2.1 hk'.2.2.2.1
        (fun e m => head_printToks_ne_paren rest (hk'.2.2.2.2 e m))]
      obtain ⟨ps', h1, h2⟩ := ih f (i + 1) ps.updateDirState (litItemW t.c :: cur) hrest hinv.update (by omega)
      exact ⟨ps', by rw [h1]; simp, h2⟩

/-- fnmatch entry conditions on the configuration under Windows rules -/
structure FnWinEntry (cfg : Cfg) : Prop extends FnWin cfg where
  anchor : cfg.anchor = false
  matchbase : cfg.matchbase0 = false
  extmatchbase : cfg.extmatchbase0 = false

theorem root_litsW (cfg : Cfg) (h : FnWin cfg) (drive : List Char → DriveInfo) (ts : List LTok)
    (hok : okToks cfg ts) (ps : PS) (hinv : TopInv ps) :
    ∃ ps', root cfg drive (printToks ts) ps [.empty] =
      .ok (ps', (ts.map (fun t => litItemW t.c)).reverse ++ [.empty]) ∧ TopInv ps' := by
  have hinv' : TopInv ps.setAfterStart :=
    ⟨rfl, hinv.inList, hinv.invNest, hinv.mdd, hinv.inv0, hinv.mb, hinv.emb⟩
  obtain ⟨ps', h1, h2⟩ := rootLoop_litsW cfg h ts ((printToks ts).length + 1) 0 ps.setAfterStart [.empty]
    hok hinv' (Nat.le_refl _)
  refine ⟨ps', ?_, h2⟩
  unfold root
  simp only [h.wdd, h.pathname, h.realpath, Bool.false_and, Bool.false_eq_true, ite_false, Bool.and_false,
    Bool.not_false, Bool.true_and]
  simp only [h1, cleanUpInverse, h2.inv0, ite_true]

/-- the whole pass on a literal pattern -/
theorem parseItems_litsW (cfg : Cfg) (h : FnWinEntry cfg) (drive : List Char → DriveInfo) (ts : List LTok)
    (hok : okToks cfg ts) :
    parseItems cfg drive (printToks ts) =
      .ok { items := .empty :: ts.map (fun t => litItemW t.c), ci := !cfg.caseSensitive } := by
  unfold parseItems
  simp only [anchorStep, h.anchor, Bool.false_eq_true, ite_false]
  simp only [parsePrepend, h.matchbase, h.extmatchbase, Bool.or_self, Bool.false_eq_true, ite_false]
  unfold parseBody
  have hne := printToks_ne_bs ts (okToks_bs cfg ts hok)
  simp only [hne, ite_false]
  by_cases hemp : (printToks ts).isEmpty = true
  · have : ts = [] := by
      cases ts with
      | nil => rfl
      | cons t r =>
        rw [printToks_cons] at hemp
        cases he : t.esc <;> simp [LTok.print, he] at hemp
    subst this
    simp [printToks]
  · obtain ⟨ps', hr, hi⟩ := root_litsW cfg h.toFnWin drive ts hok
      { matchbase := false, extmatchbase := false, globstar := cfg.globstar0 } ⟨rfl, rfl, rfl, rfl, rfl, rfl, rfl⟩
    simp only [hemp, Bool.false_eq_true, ite_false, hr]
    simp [hi.mb, hi.emb]

/-! ### from the item list to the regex and its language -/

def litsReW : List Char → Re
  | [] => .eps
  | c :: cs => catE' (litReW c) (litsReW cs)

theorem seqToRe_litsW (cs : List Char) : ∀ fuel, cs.length + 1 ≤ fuel →
    Item.seqToRe fuel (cs.map litItemW) = some (litsReW cs) := by
  induction cs with
  | nil => intro fuel hf; cases fuel with
    | zero => simp at hf
    | succ f => simp [Item.seqToRe, litsReW]
  | cons c cs ih =>
    intro fuel hf
    cases fuel with
    | zero => simp at hf
    | succ f =>
      have := ih f (by simp at hf; omega)
      simp [Item.seqToRe, litItemW, litsReW] at this ⊢
      simp [this, litItemW]

theorem splitBars_litsW (cs : List Char) : splitBars (cs.map litItemW) = [cs.map litItemW] := by
  induction cs with
  | nil => rfl
  | cons c cs ih => simp [splitBars, litItemW] at ih ⊢; simp [ih]

theorem sizeL_litsW (cs : List Char) : Item.sizeL (cs.map litItemW) = cs.length + 1 := by
  induction cs with
  | nil => rfl
  | cons c cs ih => simp [Item.sizeL, Item.size, litItemW] at ih ⊢; omega

theorem toRe_litsW (cs : List Char) (ci : Bool) :
    (Parsed.toRe { items := .empty :: cs.map litItemW, ci := ci }) =
      some (.cat .bos (.cat (.flags true ci (litsReW cs)) .eos)) := by
  unfold Parsed.toRe
  have hsz : Item.sizeL (.empty :: cs.map litItemW) = cs.length + 2 := by
    simp [Item.sizeL, Item.size, sizeL_litsW]; omega
  rw [hsz]
  have hsplit : splitBars (.empty :: cs.map litItemW) = [.empty :: cs.map litItemW] := by
    simp [splitBars, splitBars_litsW]
  have : 2 * (cs.length + 2) + 4 = (2 * cs.length + 6) + 1 + 1 := by omega
  rw [this]
  simp only [Item.listToRe, hsplit, List.mapM_cons, List.mapM_nil, Item.seqToRe]
  rw [seqToRe_litsW cs (2 * cs.length + 6) (by omega)]
  rfl

/-- the per-character test of a literal item under Windows rules: a separator of the pattern
    (`/` or `\`) accepts either separator, any other character accepts itself under the case rule -/
def litPW (ci : Bool) (c d : Char) : Bool := if isSepW c then isSepW d else charEq ci c d

/-- `[\\/]` accepts exactly the two separators, in every mode -/
theorem clsSepW_iff (ci : Bool) (d : Char) :
    clsMatch ci false (Frag.sepItems true) d = isSepW d := by
  rw [nrm_lit_slash, charEq_nonLetter' nonLetter_fslash, Bool.eq_iff_iff]
  simp only [beq_iff_eq, isSepW_iff]
  rw [nrm_eq_slash]
  exact Or.comm

theorem M_sepW (md : Mode) (a b : St) :
    Re.M md (Frag.sep true) a b ↔ consume1 isSepW a b := by
  simp only [Frag.sep, Re.M]
  constructor
  · rintro ⟨d, s, h1, h2, h3⟩
    exact ⟨d, s, h1, by rw [← clsSepW_iff md.ci d]; exact h2, h3⟩
  · rintro ⟨d, s, h1, h2, h3⟩
    exact ⟨d, s, h1, by rw [clsSepW_iff md.ci d]; exact h2, h3⟩

theorem M_litReW (md : Mode) (c : Char) (a b : St) :
    Re.M md (litReW c) a b ↔ consume1 (litPW md.ci c) a b := by
  unfold litReW litPW
  by_cases h : isSepW c = true
  · simp only [h, ite_true]; exact M_sepW md a b
  · simp only [h, Bool.false_eq_true, ite_false, Re.M]

theorem litReW_ne_eps (c : Char) : litReW c ≠ .eps := by
  unfold litReW; split <;> simp [Frag.sep]

/-- a run of literal items consumes exactly a text that matches character by character -/
def LitRunW (ci : Bool) : List Char → St → St → Prop
  | [], a, b => b = a
  | c :: cs, a, b => ∃ m, consume1 (litPW ci c) a m ∧ LitRunW ci cs m b

theorem M_litsReW (md : Mode) (cs : List Char) :
    ∀ a b, Re.M md (litsReW cs) a b ↔ LitRunW md.ci cs a b := by
  induction cs with
  | nil => intro a b; simp [litsReW, Re.M, LitRunW]
  | cons c cs ih =>
    intro a b
    simp only [litsReW, LitRunW]
    rw [M_catE' md _ _ (litReW_ne_eps c)]
    constructor
    · rintro ⟨m, h1, h2⟩; exact ⟨m, (M_litReW md c a m).mp h1, (ih m b).mp h2⟩
    · rintro ⟨m, h1, h2⟩; exact ⟨m, (M_litReW md c a m).mpr h1, (ih m b).mpr h2⟩

/-- **`WinLitEq ci s s'`**: `s'` equals `s` character by character, where a separator (`/` or
    `\`) of `s` stands for either separator and every other character for itself under the case
    rule (`ci`: ASCII case-insensitive) -/
def WinLitEq (ci : Bool) : List Char → List Char → Bool
  | [], [] => true
  | c :: cs, d :: ds => litPW ci c d && WinLitEq ci cs ds
  | _, _ => false

theorem LitRunW_iff (ci : Bool) (cs : List Char) : ∀ (t : Bool) (s : List Char),
    (∃ f, LitRunW ci cs ⟨t, s⟩ ⟨f, []⟩) ↔ WinLitEq ci cs s = true := by
  induction cs with
  | nil =>
    intro t s
    simp only [LitRunW]
    constructor
    · rintro ⟨f, h⟩; injection h with _ h2; subst h2; rfl
    · intro h; cases s with
      | nil => exact ⟨t, rfl⟩
      | cons d ds => simp [WinLitEq] at h
  | cons c cs ih =>
    intro t s
    simp only [LitRunW]
    constructor
    · rintro ⟨f, m, ⟨d, r, h1, h2, rfl⟩, h3⟩
      simp only at h1; subst h1
      simp [WinLitEq, h2, (ih false r).mp ⟨f, h3⟩]
    · intro h
      cases s with
      | nil => simp [WinLitEq] at h
      | cons d r =>
        simp only [WinLitEq, Bool.and_eq_true] at h
        obtain ⟨f, hf⟩ := (ih false r).mpr h.2
        exact ⟨f, ⟨false, r⟩, ⟨d, r, rfl, h.1, rfl⟩, hf⟩

/-- **the language of a literal pattern** (fnmatch mode, Windows rules): exactly the texts equal
    to it character by character under the case rule in force, `/` and `\` interchangeable -/
theorem literal_language_win (cfg : Cfg) (h : FnWinEntry cfg) (drive : List Char → DriveInfo) (ts : List LTok)
    (hok : okToks cfg ts) :
    ∃ parsed r, parseItems cfg drive (printToks ts) = .ok parsed ∧ parsed.toRe = some r ∧
      ∀ s, r.FullMatch s ↔ WinLitEq (!cfg.caseSensitive) (ts.map (·.c)) s = true := by
  refine ⟨_, .cat .bos (.cat (.flags true (!cfg.caseSensitive) (litsReW (ts.map (·.c)))) .eos),
    parseItems_litsW cfg h drive ts hok, ?_, ?_⟩
  · have := toRe_litsW (ts.map (·.c)) (!cfg.caseSensitive)
    simp only [List.map_map] at this
    exact this
  · intro s
    rw [← LitRunW_iff (!cfg.caseSensitive) (ts.map (·.c)) true s]
    unfold Re.FullMatch
    simp only [Re.M]
    constructor
    · rintro ⟨b, c, ⟨rfl, _⟩, c', hm, rfl, _⟩
      exact ⟨b, (M_litsReW _ _ _ _).mp hm⟩
    · rintro ⟨f, hm⟩
      exact ⟨f, _, ⟨rfl, trivial⟩, _, (M_litsReW ⟨true, !cfg.caseSensitive⟩ _ _ _).mpr hm, rfl, by simp [atEos]⟩

end WcModel

import WcModel.Proofs.PathlibViewsParse
import WcModel.Proofs.PathlibViews
/-
  C16: `compile_pattern` / `Glob.__init__` for a literal one-segment pattern, from conditions on
  the configuration (`compileMatch_emLit`, `build_emLit`), and those conditions for the flag words
  pathlib really passes (`matchCfg_ok`, `globInit_ok`) — for every user flag word `n` without
  DOTMATCH, FOLLOW, NODIR, IGNORECASE.
-/
namespace WcModel.PathlibViews
open WcModel

/-! ### `glob.globmatch`'s matcher object -/

/-- what `matchReal_emLit` needs of the configuration `compile_pattern` runs the parser with -/
structure MatchCfgOK (W : Nat) : Prop where
  pu : PathUnix (C09path.globCfg W false)
  realpath : (C09path.globCfg W false).realpath = true
  cap : (C09path.globCfg W false).globstarCapture = true
  dot : (C09path.globCfg W false).dot = false
  anchor : (C09path.globCfg W false).anchor = false
  emb : (C09path.globCfg W false).extmatchbase0 = true
  long : ((C09path.globCfg W false).globstarlong && (C09path.globCfg W false).follow) = false
  cs : (C09path.globCfg W false).caseSensitive = true
  unixT : isUnixStyle (Flags.ofNat (globFlagTransform W)) = true
  real : hasBit (globFlagTransform W) Gen.FREALPATH = true
  follow : (hasBit (globFlagTransform W) Gen.FFOLLOW && !hasBit (globFlagTransform W) Gen.FGLOBSTARLONG) = false

/-- **`glob.globmatch`'s compilation of a plain one-segment pattern under `_EXTMATCHBASE`** -/
theorem compileMatch_emLit (W : Nat) (h : MatchCfgOK W) (hnd : hasBit (globFlagTransform W) Gen.FNODIR = false)
    (s : List Char) (hp : PlainSeg s) :
    compileMatch W false [s] none =
      .ok { incl := [emLitRe (C09path.globCfg W false) s], excl := [], real := true, follow := false } := by
  have hsh : s.head? ≠ some '/' := by
    have := joinSl_head [s] (by intro c hc; simp only [List.mem_singleton] at hc; subst hc; exact hp.compOK)
    simpa [joinSl] using this
  have hone : compileOne (globFlagTransform W) false s = .ok (emLitRe (C09path.globCfg W false) s) := by
    unfold compileOne compilePart Driver.parsePattern
    rw [Flags.ofNat_toNat]
    have := parseItems_emLit (C09path.globCfg W false) h.pu h.realpath h.cap h.dot h.anchor h.emb h.long
      (winDrive (C09path.globCfg W false)) s hp
    unfold C09path.globCfg at this
    simp only [this]
    have ht := emItems_toRe (C09path.globCfg W false) h.realpath s hp.ne hsh
      (!(C09path.globCfg W false).caseSensitive)
    unfold C09path.globCfg at ht
    simp only [ht]
    rfl
  unfold compileMatch compilePattern
  simp only [Option.isSome_none, Bool.false_eq_true, ite_false, compileSeq, List.not_mem_nil, hp.not_negative, hone,
    List.nil_append, List.isEmpty_nil, Bool.not_true, Bool.false_and, List.isEmpty_cons, Bool.not_false, hnd,
    Bool.and_false, h.real, h.follow]

/-! ### `Glob.__init__` -/

theorem iterPatterns_one (g : GInit) (nu : Bool) (s : List Char) (hp : PlainSeg s) :
    iterPatterns g nu false [] [s] = [(false, s)] := by
  simp only [iterPatterns, hp.not_negative, Bool.false_and, Bool.false_eq_true, if_false,
    List.not_mem_nil, Bool.or_false]
  split <;> rfl

/-- **`Glob.__init__` for one plain one-segment pattern under `_EXTMATCHBASE`** (Unix rules, no
    NODIR): one split pattern `[**, s]`, no exclusion regex -/
theorem build_emLit (g : GInit) (hu : isUnixStyle g.flags = true) (hem : g.flags.extmatchbase = true)
    (hnd : g.nodir = false) (s : List Char) (hp : PlainSeg s) :
    ∃ nu, GlobObj.build g (some [[s]]) none =
      .ok { pattern := [[basePart (SplitCfg.ofFlags g.flags g.isBytes), litPart s]], npatterns := [], nounique := nu } := by
  unfold GlobObj.build
  simp only
  unfold parsePatterns
  simp only [List.flatten_cons, List.flatten_nil, List.append_nil, iterPatterns_one g _ s hp, parseItemsInto,
    globSplit_plain g.flags g.isBytes s hp hu hem, List.nil_append, List.isEmpty_cons, Bool.false_and,
    Bool.false_eq_true, if_false, hnd, Bool.not_false]
  by_cases hc : (true && decide ([[basePart (SplitCfg.ofFlags g.flags g.isBytes), litPart s]].length ≤ 1) &&
      !g.flags.nodotdir && !g.nouniqueFlag && !(g.pathlib && g.scandotdir)) = true
  · rw [if_pos hc]; exact ⟨_, rfl⟩
  · rw [if_neg hc]; exact ⟨_, rfl⟩

/-! ### the flag words pathlib passes -/

/-- what the user's flag word must not contain (each one is a recorded defect of C16 or outside
    the fragment): DOTMATCH, FOLLOW, NODIR (KF-D16), IGNORECASE (KF-G2) -/
structure UserFlagsOK (n : Nat) : Prop where
  dotmatch : hasBit n Gen.FDOTMATCH = false
  follow : hasBit n Gen.FFOLLOW = false
  ignorecase : hasBit n Gen.FIGNORECASE = false

theorem gen_DOTMATCH : Gen.FDOTMATCH = 2 ^ 6 := by decide
theorem gen_IGNORECASE : Gen.FIGNORECASE = 2 ^ 1 := by decide
theorem gen_CASE : Gen.FCASE = 2 ^ 0 := by decide
theorem gen_TRANSLATE : Gen.F_TRANSLATE = 2 ^ 32 := by decide
theorem gen_NGC : Gen.F_NO_GLOBSTAR_CAPTURE = 2 ^ 36 := by decide
theorem gen_MARK : Gen.globMARK = 2 ^ 24 := by decide
theorem gen_PATHLIB : Gen.globPATHLIB = 2 ^ 27 := by decide
theorem gen_NEGATEALL : Gen.FNEGATEALL = 2 ^ 15 := by decide

theorem hasBit_of_pow {F k : Nat} (h : F = 2 ^ k) (X : Nat) : hasBit X F = X.testBit k := by
  rw [h, hasBit_pow]

theorem UserFlagsOK.bits {n : Nat} (h : UserFlagsOK n) :
    n.testBit 6 = false ∧ n.testBit 11 = false ∧ n.testBit 1 = false := by
  refine ⟨?_, ?_, ?_⟩
  · rw [← hasBit_pow, ← gen_DOTMATCH]; exact h.dotmatch
  · rw [← hasBit_pow, ← gen_FOLLOW]; exact h.follow
  · rw [← hasBit_pow, ← gen_IGNORECASE]; exact h.ignorecase

/-- the word `PurePath.match` hands to `glob.globmatch`, bit by bit, through `_flag_transform` -/
theorem matchW_bit (cls : Pathlib.PathClass) (m k : Nat) (h5 : k ≠ 5) (h16 : k ≠ 16) (h17 : k ≠ 17) :
    (globFlagTransform (Pathlib.okWord cls m ||| Gen.F_EXTMATCHBASE)).testBit k =
      (((m.testBit k && Gen.pathlibFlagMask.testBit k) || decide (k = 34)) && Gen.globFlagMask.testBit k) := by
  rw [gft_bit _ k h5 h16 h17, Nat.testBit_or, Pathlib.okWord_testBit, gen_EXTMATCHBASE, Nat.testBit_two_pow]
  have e1 : decide (Pathlib.pPN = k) = false := by
    have : Pathlib.pPN = 5 := by decide
    rw [this]; simpa using Ne.symm h5
  have e2 : decide ((if cls.isWindows = true then Pathlib.pFW else Pathlib.pFU) = k) = false := by
    have a : Pathlib.pFW = 16 := by decide
    have b : Pathlib.pFU = 17 := by decide
    rw [a, b]
    cases cls.isWindows
    · simpa using Ne.symm h17
    · simpa using Ne.symm h16
  rw [e1, e2]
  have : decide (34 = k) = decide (k = 34) := by
    by_cases h : k = 34
    · subst h; rfl
    · simp [h, Ne.symm h]
  rw [this]; simp

theorem matchW_forcewin (cls : Pathlib.PathClass) (hcls : cls.isWindows = false) (m : Nat) :
    (globFlagTransform (Pathlib.okWord cls m ||| Gen.F_EXTMATCHBASE)).testBit 16 = false := by
  apply gft_forcewin
  rw [Nat.testBit_or, Pathlib.okWord_testBit, gen_EXTMATCHBASE, Nat.testBit_two_pow, hcls]
  have a : Pathlib.pPN = 5 := by decide
  have b : Pathlib.pFU = 17 := by decide
  have c : Gen.pathlibFlagMask.testBit 16 = false := by decide
  simp [a, b, c]

theorem or_realpath_bit (n k : Nat) (hk : k ≠ 10) : (n ||| Gen.FREALPATH).testBit k = n.testBit k := by
  rw [Nat.testBit_or, gen_REALPATH, Nat.testBit_two_pow]
  simp [Ne.symm hk]

/-- **the configuration `q.match(s, flags = n | REALPATH)` compiles with** is in the scope of
    `compileMatch_emLit`, for every user word `n` in `UserFlagsOK` and every POSIX path class -/
theorem matchCfg_ok (cls : Pathlib.PathClass) (hcls : cls.isWindows = false) (n : Nat) (hn : UserFlagsOK n) :
    MatchCfgOK (Pathlib.okWord cls (n ||| Gen.FREALPATH) ||| Gen.F_EXTMATCHBASE) := by
  obtain ⟨b6, b11, b1⟩ := hn.bits
  have hfw := matchW_forcewin cls hcls (n ||| Gen.FREALPATH)
  -- the flag record the parser is configured with
  have fld : ∀ k, k ≠ 5 → k ≠ 16 → k ≠ 17 →
      (globFlagTransform (Pathlib.okWord cls (n ||| Gen.FREALPATH) ||| Gen.F_EXTMATCHBASE) &&& Gen.parseFlagMask).testBit k =
        ((((n ||| Gen.FREALPATH).testBit k && Gen.pathlibFlagMask.testBit k) || decide (k = 34)) &&
          Gen.globFlagMask.testBit k && Gen.parseFlagMask.testBit k) := by
    intro k h5 h16 h17
    rw [Nat.testBit_and, matchW_bit cls _ k h5 h16 h17]
  have f_pathname : (Flags.ofNat (globFlagTransform (Pathlib.okWord cls (n ||| Gen.FREALPATH) ||| Gen.F_EXTMATCHBASE) &&&
      Gen.parseFlagMask)).pathname = true := by
    simp only [Flags.ofNat]
    rw [hasBit_of_pow gen_PATHNAME, Nat.testBit_and, gft_pathname]; decide
  have f_forcewin : (Flags.ofNat (globFlagTransform (Pathlib.okWord cls (n ||| Gen.FREALPATH) ||| Gen.F_EXTMATCHBASE) &&&
      Gen.parseFlagMask)).forcewin = false := by
    simp only [Flags.ofNat]
    rw [hasBit_of_pow gen_FORCEWIN, Nat.testBit_and, hfw]; rfl
  have f_unix : isUnixStyle (Flags.ofNat (globFlagTransform (Pathlib.okWord cls (n ||| Gen.FREALPATH) ||| Gen.F_EXTMATCHBASE) &&&
      Gen.parseFlagMask)) = true := by
    simp [isUnixStyle, f_forcewin, gen_host_not_windows]
  have f_realpath : (Flags.ofNat (globFlagTransform (Pathlib.okWord cls (n ||| Gen.FREALPATH) ||| Gen.F_EXTMATCHBASE) &&&
      Gen.parseFlagMask)).realpath = true := by
    simp only [Flags.ofNat]
    rw [hasBit_of_pow gen_REALPATH, fld 10 (by decide) (by decide) (by decide), Nat.testBit_or, gen_REALPATH,
      Nat.testBit_two_pow_self]
    have a : Gen.pathlibFlagMask.testBit 10 = true := by decide
    have b : Gen.globFlagMask.testBit 10 = true := by decide
    have c : Gen.parseFlagMask.testBit 10 = true := by decide
    simp [a, b, c]
  have f_translate : (Flags.ofNat (globFlagTransform (Pathlib.okWord cls (n ||| Gen.FREALPATH) ||| Gen.F_EXTMATCHBASE) &&&
      Gen.parseFlagMask)).translate = false := by
    simp only [Flags.ofNat]
    rw [hasBit_of_pow gen_TRANSLATE, fld 32 (by decide) (by decide) (by decide)]
    have : Gen.pathlibFlagMask.testBit 32 = false := by decide
    rw [this]; simp
  have f_ngc : (Flags.ofNat (globFlagTransform (Pathlib.okWord cls (n ||| Gen.FREALPATH) ||| Gen.F_EXTMATCHBASE) &&&
      Gen.parseFlagMask)).noGlobstarCapture = false := by
    simp only [Flags.ofNat]
    rw [hasBit_of_pow gen_NGC, fld 36 (by decide) (by decide) (by decide)]
    have : Gen.pathlibFlagMask.testBit 36 = false := by decide
    rw [this]; simp
  have f_anchor : (Flags.ofNat (globFlagTransform (Pathlib.okWord cls (n ||| Gen.FREALPATH) ||| Gen.F_EXTMATCHBASE) &&&
      Gen.parseFlagMask)).anchor = false := by
    simp only [Flags.ofNat]
    rw [hasBit_of_pow gen_ANCHOR, fld 33 (by decide) (by decide) (by decide)]
    have : Gen.pathlibFlagMask.testBit 33 = false := by decide
    rw [this]; simp
  have f_dot : (Flags.ofNat (globFlagTransform (Pathlib.okWord cls (n ||| Gen.FREALPATH) ||| Gen.F_EXTMATCHBASE) &&&
      Gen.parseFlagMask)).dotmatch = false := by
    simp only [Flags.ofNat]
    rw [hasBit_of_pow gen_DOTMATCH, fld 6 (by decide) (by decide) (by decide), or_realpath_bit n 6 (by decide), b6]
    simp
  have f_follow : (Flags.ofNat (globFlagTransform (Pathlib.okWord cls (n ||| Gen.FREALPATH) ||| Gen.F_EXTMATCHBASE) &&&
      Gen.parseFlagMask)).follow = false := by
    simp only [Flags.ofNat]
    rw [hasBit_of_pow gen_FOLLOW, fld 11 (by decide) (by decide) (by decide), or_realpath_bit n 11 (by decide), b11]
    simp
  have f_ign : (Flags.ofNat (globFlagTransform (Pathlib.okWord cls (n ||| Gen.FREALPATH) ||| Gen.F_EXTMATCHBASE) &&&
      Gen.parseFlagMask)).ignorecase = false := by
    simp only [Flags.ofNat]
    rw [hasBit_of_pow gen_IGNORECASE, fld 1 (by decide) (by decide) (by decide), or_realpath_bit n 1 (by decide), b1]
    simp
  have f_emb : (Flags.ofNat (globFlagTransform (Pathlib.okWord cls (n ||| Gen.FREALPATH) ||| Gen.F_EXTMATCHBASE) &&&
      Gen.parseFlagMask)).extmatchbase = true := by
    simp only [Flags.ofNat]
    rw [hasBit_of_pow gen_EXTMATCHBASE, fld 34 (by decide) (by decide) (by decide)]
    have a : Gen.globFlagMask.testBit 34 = true := by decide
    have b : Gen.parseFlagMask.testBit 34 = true := by decide
    rw [a, b]; simp
  have hcsHost : Gen.hostCaseSensitive = true := by decide
  refine ⟨⟨?_, ?_, ?_, ?_⟩, ?_, ?_, ?_, ?_, ?_, ?_, ?_, ?_, ?_, ?_⟩
  · simp [C09path.globCfg, Cfg.ofFlags, f_pathname]
  · simp [C09path.globCfg, Cfg.ofFlags, f_unix]
  · simp [C09path.globCfg, Cfg.ofFlags, f_unix]
  · simp [C09path.globCfg, Cfg.ofFlags, f_unix]
  · simp [C09path.globCfg, Cfg.ofFlags, f_realpath, f_pathname]
  · simp [C09path.globCfg, Cfg.ofFlags, f_realpath, f_pathname, f_translate, f_ngc]
  · simp [C09path.globCfg, Cfg.ofFlags, f_dot]
  · simp [C09path.globCfg, Cfg.ofFlags, f_anchor]
  · simp [C09path.globCfg, Cfg.ofFlags, f_emb]
  · simp [C09path.globCfg, Cfg.ofFlags, f_follow]
  · simp only [C09path.globCfg, Cfg.ofFlags, getCase, f_ign, Bool.or_false, isCaseSensitiveFlags, f_forcewin,
      Bool.false_eq_true, if_false, hcsHost]
    cases (Flags.ofNat (globFlagTransform (Pathlib.okWord cls (n ||| Gen.FREALPATH) ||| Gen.F_EXTMATCHBASE) &&&
      Gen.parseFlagMask)).case_ <;>
    cases (Flags.ofNat (globFlagTransform (Pathlib.okWord cls (n ||| Gen.FREALPATH) ||| Gen.F_EXTMATCHBASE) &&&
      Gen.parseFlagMask)).forceunix <;> simp
  · simp only [isUnixStyle, Flags.ofNat]
    rw [hasBit_of_pow gen_FORCEWIN, hfw]
    simp [gen_host_not_windows]
  · rw [hasBit_of_pow gen_REALPATH, matchW_bit cls _ 10 (by decide) (by decide) (by decide), Nat.testBit_or, gen_REALPATH,
      Nat.testBit_two_pow_self]
    have a : Gen.pathlibFlagMask.testBit 10 = true := by decide
    have b : Gen.globFlagMask.testBit 10 = true := by decide
    simp [a, b]
  · have : hasBit (globFlagTransform (Pathlib.okWord cls (n ||| Gen.FREALPATH) ||| Gen.F_EXTMATCHBASE)) Gen.FFOLLOW = false := by
      rw [hasBit_of_pow gen_FOLLOW, matchW_bit cls _ 11 (by decide) (by decide) (by decide), or_realpath_bit n 11 (by decide), b11]
      simp
    rw [this]; rfl

/-! ### the word `Path.rglob` passes, through `Glob.__init__` -/

/-- what the walker side needs of `Glob.__init__`'s fields -/
structure GlobInitOK (G : Nat) : Prop where
  unix : isUnixStyle (GInit.ofNat G false false false).flags = true
  emb : (GInit.ofNat G false false false).flags.extmatchbase = true
  dot : (GInit.ofNat G false false false).flags.dotmatch = false
  cs : (GInit.ofNat G false false false).caseSensitive = true
  follow : (GInit.ofNat G false false false).followLinks = false
  long : (basePart (SplitCfg.ofFlags (GInit.ofNat G false false false).flags false)).isGlobstarLong = false
  mark : (GInit.ofNat G false false false).mark = false

theorem globW_bit (cls : Pathlib.PathClass) (n k : Nat) (h5 : k ≠ 5) (h16 : k ≠ 16) (h17 : k ≠ 17) (h35 : k ≠ 35)
    (h27 : k ≠ 27) (h25 : k ≠ 25) :
    (Pathlib.globWord cls n ||| Gen.F_EXTMATCHBASE).testBit k =
      ((n.testBit k && Gen.pathlibFlagMask.testBit k) || decide (k = 34)) := by
  rw [Nat.testBit_or, Pathlib.globWord_testBit, gen_EXTMATCHBASE, Nat.testBit_two_pow]
  have a : Pathlib.pPN = 5 := by decide
  have b : Pathlib.pNA = 35 := by decide
  have c : Pathlib.pFW = 16 := by decide
  have d : Pathlib.pFU = 17 := by decide
  have e : Pathlib.pPL = 27 := by decide
  have f : Pathlib.pSD = 25 := by decide
  rw [a, b, c, d, e, f]
  have e1 : decide (5 = k) = false := by simpa using Ne.symm h5
  have e2 : decide (35 = k) = false := by simpa using Ne.symm h35
  have e3 : decide ((if cls.isWindows = true then 16 else 17) = k) = false := by
    cases cls.isWindows
    · simpa using Ne.symm h17
    · simpa using Ne.symm h16
  have e4 : decide (27 = k) = false := by simpa using Ne.symm h27
  have e5 : decide (25 = k) = false := by simpa using Ne.symm h25
  rw [e1, e2, e3, e4, e5]
  have : decide (34 = k) = decide (k = 34) := by
    by_cases h : k = 34
    · subst h; rfl
    · simp [h, Ne.symm h]
  rw [this]; simp

/-- **the fields `Glob.__init__` computes from the word `Path.rglob(s, flags = n)` passes** are in
    the scope of the walker-side theorem, for every user word in `UserFlagsOK` -/
theorem globInit_ok (cls : Pathlib.PathClass) (n : Nat) (hn : UserFlagsOK n) :
    GlobInitOK (Pathlib.globWord cls n ||| Gen.F_EXTMATCHBASE) := by
  obtain ⟨b6, b11, b1⟩ := hn.bits
  have hunix := unix_on_this_host (Pathlib.globWord cls n ||| Gen.F_EXTMATCHBASE) false false false
  have hfw : (GInit.ofNat (Pathlib.globWord cls n ||| Gen.F_EXTMATCHBASE) false false false).flags.forcewin = false := by
    have := hunix
    unfold isUnixStyle at this
    simp only [Bool.and_eq_true, Bool.not_eq_true'] at this
    exact this.2
  have hstrip : initStrip (Pathlib.globWord cls n ||| Gen.F_EXTMATCHBASE) false =
      Pathlib.globWord cls n ||| Gen.F_EXTMATCHBASE := rfl
  have hfollowBit : (GInit.ofNat (Pathlib.globWord cls n ||| Gen.F_EXTMATCHBASE) false false false).flags.follow = false := by
    simp only [GInit.ofNat, Flags.ofNat, hstrip]
    rw [hasBit_of_pow gen_FOLLOW, tb_initWord (by decide) (by decide),
      globW_bit cls n 11 (by decide) (by decide) (by decide) (by decide) (by decide) (by decide), b11]
    simp
  refine ⟨hunix, ?_, ?_, ?_, ?_, ?_, ?_⟩
  · simp only [GInit.ofNat, Flags.ofNat, hstrip]
    rw [hasBit_of_pow gen_EXTMATCHBASE, tb_initWord (by decide) (by decide),
      globW_bit cls n 34 (by decide) (by decide) (by decide) (by decide) (by decide) (by decide)]
    simp
  · simp only [GInit.ofNat, Flags.ofNat, hstrip]
    rw [hasBit_of_pow gen_DOTMATCH, tb_initWord (by decide) (by decide),
      globW_bit cls n 6 (by decide) (by decide) (by decide) (by decide) (by decide) (by decide), b6]
    simp
  · have hign : (GInit.ofNat (Pathlib.globWord cls n ||| Gen.F_EXTMATCHBASE) false false false).flags.ignorecase = false := by
      simp only [GInit.ofNat, Flags.ofNat, hstrip]
      rw [hasBit_of_pow gen_IGNORECASE, tb_initWord (by decide) (by decide),
        globW_bit cls n 1 (by decide) (by decide) (by decide) (by decide) (by decide) (by decide), b1]
      simp
    have hcsHost : Gen.hostCaseSensitive = true := by decide
    simp only [GInit.caseSensitive, getCase, hign, Bool.or_false, isCaseSensitiveFlags, hfw, Bool.false_eq_true,
      if_false, hcsHost]
    cases (GInit.ofNat (Pathlib.globWord cls n ||| Gen.F_EXTMATCHBASE) false false false).flags.case_ <;>
    cases (GInit.ofNat (Pathlib.globWord cls n ||| Gen.F_EXTMATCHBASE) false false false).flags.forceunix <;> simp
  · rw [followLinks_table, hasBit_of_pow gen_FOLLOW,
      globW_bit cls n 11 (by decide) (by decide) (by decide) (by decide) (by decide) (by decide), b11]
    simp
  · rw [(basePart_long _).1]
    have : (SplitCfg.ofFlags (GInit.ofNat (Pathlib.globWord cls n ||| Gen.F_EXTMATCHBASE) false false false).flags false).flags.follow =
        (GInit.ofNat (Pathlib.globWord cls n ||| Gen.F_EXTMATCHBASE) false false false).flags.follow := rfl
    rw [this, hfollowBit]; simp
  · simp only [GInit.ofNat, hstrip]
    rw [hasBit_of_pow gen_MARK,
      globW_bit cls n 24 (by decide) (by decide) (by decide) (by decide) (by decide) (by decide)]
    have : Gen.pathlibFlagMask.testBit 24 = false := by decide
    rw [this]; simp

/-- NODIR reaches both sides unchanged -/
theorem matchW_nodir (cls : Pathlib.PathClass) (n : Nat) :
    hasBit (globFlagTransform (Pathlib.okWord cls (n ||| Gen.FREALPATH) ||| Gen.F_EXTMATCHBASE)) Gen.FNODIR =
      hasBit n Gen.FNODIR := by
  rw [hasBit_of_pow gen_NODIR, hasBit_of_pow gen_NODIR,
    matchW_bit cls _ 14 (by decide) (by decide) (by decide), or_realpath_bit n 14 (by decide)]
  have a : Gen.pathlibFlagMask.testBit 14 = true := by decide
  have b : Gen.globFlagMask.testBit 14 = true := by decide
  simp [a, b]

theorem globInit_nodir (cls : Pathlib.PathClass) (n : Nat) :
    (GInit.ofNat (Pathlib.globWord cls n ||| Gen.F_EXTMATCHBASE) false false false).nodir = hasBit n Gen.FNODIR := by
  have hstrip : initStrip (Pathlib.globWord cls n ||| Gen.F_EXTMATCHBASE) false =
      Pathlib.globWord cls n ||| Gen.F_EXTMATCHBASE := rfl
  simp only [GInit.ofNat, hstrip]
  rw [hasBit_of_pow gen_NODIR, hasBit_of_pow gen_NODIR, tb_clearIf (by decide), tb_clearIf (by decide),
    globW_bit cls n 14 (by decide) (by decide) (by decide) (by decide) (by decide) (by decide)]
  have a : Gen.pathlibFlagMask.testBit 14 = true := by decide
  simp [a]

/-! ### `_pathlib_norm` is the identity on clean paths without a `.` component that do not end in
    a newline (so the `seen` set of `Path.glob` identifies no two of them).  Since the D16 repair
    the instance holds the POSIX regex: a backslash is an ordinary character (KF-PLNORM is gone). -/

/-- `re_pathlib_norm` (`(?:((?<=^)|(?<=/))\.(?:/|$))+`) finds nothing to remove -/
def DotSafe : Bool → List Char → Prop
  | _, [] => True
  | b, [c] => ¬ (b = true ∧ c = '.')
  | b, c :: d :: r =>
    if b = true ∧ c = '.' then d ≠ '/' ∧ ¬ (d = '\n' ∧ r = []) ∧ DotSafe false (d :: r)
    else DotSafe (decide (c = '/')) (d :: r)

theorem pathlibDots_safe : ∀ (b : Bool) (x : List Char), DotSafe b x → pathlibDots b x = x
  | _, [], _ => rfl
  | b, [c], h => by
    simp only [DotSafe] at h
    simp only [pathlibDots]
    have : ¬ ((b && decide (c = '.')) = true) := by simpa using h
    simp [this]
  | b, c :: d :: r, h => by
    simp only [DotSafe] at h
    simp only [pathlibDots]
    by_cases hc : b = true ∧ c = '.'
    · rw [if_pos hc] at h
      have h1 : (b && decide (c = '.')) = true := by simpa using hc
      have h3 : ¬ ((decide (d = '\n') && r.isEmpty) = true) := by
        intro hh
        simp only [Bool.and_eq_true, decide_eq_true_eq, List.isEmpty_iff] at hh
        exact h.2.1 hh
      rw [pathlibDots_safe false (d :: r) h.2.2]
      simp [h1, h.1, h3]
    · rw [if_neg hc] at h
      have h1 : ¬ ((b && decide (c = '.')) = true) := by simpa using hc
      rw [pathlibDots_safe _ (d :: r) h]
      simp [h1]

/-- a component without `/`, not `.` if it opens a segment, not ending in a newline if it is the
    last one, followed by nothing or by a separator and a safe rest -/
theorem dotSafe_comp : ∀ (d' : List Char) (c : Char) (b : Bool) (rest : List Char),
    (∀ ch ∈ c :: d', ch ≠ '/') → (b = true → c :: d' ≠ ['.']) →
    (rest = [] → (c :: d').getLast? ≠ some '\n') →
    (rest = [] ∨ ∃ rest', rest = '/' :: rest' ∧ DotSafe true rest') → DotSafe b (c :: d' ++ rest) := by
  intro d'
  induction d' with
  | nil =>
    intro c b rest hok hb _ hrest
    have hc : ¬ (b = true ∧ c = '.') := fun ⟨h1, h2⟩ => hb h1 (by rw [h2])
    rcases hrest with rfl | ⟨rest', rfl, hr⟩
    · simpa [DotSafe] using hc
    · have hcs := hok c List.mem_cons_self
      simp only [List.cons_append, List.nil_append, DotSafe, hc, if_false, hcs, decide_false]
      cases rest' with
      | nil => simp [DotSafe]
      | cons e r'' => simpa [DotSafe] using hr
  | cons d d'' ih =>
    intro c b rest hok hb hnl hrest
    have hd := hok d (List.mem_cons_of_mem _ List.mem_cons_self)
    have hcs := hok c List.mem_cons_self
    have hnl' : rest = [] → (d :: d'').getLast? ≠ some '\n' := by
      intro hr
      have := hnl hr
      rwa [List.getLast?_cons_cons] at this
    have ih' := ih d false rest (fun ch hch => hok ch (List.mem_cons_of_mem _ hch)) (fun h => by cases h) hnl' hrest
    simp only [List.cons_append] at ih' ⊢
    simp only [DotSafe]
    by_cases hc : b = true ∧ c = '.'
    · rw [if_pos hc]
      refine ⟨hd, ?_, ih'⟩
      rintro ⟨rfl, he⟩
      have he' := List.append_eq_nil_iff.mp he
      have := hnl' he'.2
      rw [he'.1] at this
      exact this rfl
    · rw [if_neg hc]
      simpa [hcs] using ih'

theorem dotSafe_joinSl : ∀ (comps : List Name), (∀ c ∈ comps, CompOK c ∧ c ≠ dot) →
    (∀ x, comps.getLast? = some x → x.getLast? ≠ some '\n') → DotSafe true (joinSl comps) := by
  intro comps
  induction comps with
  | nil => intro _ _; simp [joinSl, DotSafe]
  | cons a r ih =>
    intro h hlast
    obtain ⟨⟨ha1, ha2⟩, ha4⟩ := h a List.mem_cons_self
    cases a with
    | nil => exact absurd rfl ha1
    | cons c a' =>
      by_cases hre : r = []
      · subst hre
        have := dotSafe_comp a' c true [] ha2 (fun _ => ha4) (fun _ => hlast _ rfl) (Or.inl rfl)
        simpa [joinSl] using this
      · have hr := ih (fun c hc => h c (List.mem_cons_of_mem _ hc)) (fun x hx => hlast x (by
          cases r with
          | nil => exact absurd rfl hre
          | cons y r' => rw [List.getLast?_cons_cons]; exact hx))
        rw [joinSl_cons _ _ hre]
        exact dotSafe_comp a' c true _ ha2 (fun _ => ha4) (fun h0 => by cases h0) (Or.inr ⟨_, rfl, hr⟩)

/-- **`_pathlib_norm` does not touch a clean relative path** none of whose components is `.` and
    which does not end in a newline -/
theorem pathlibNorm_clean (comps : List Name) (hne : comps ≠ [])
    (h : ∀ c ∈ comps, CompOK c ∧ c ≠ dot) (hlast : ∀ x, comps.getLast? = some x → x.getLast? ≠ some '\n') :
    WcModel.pathlibNorm (joinSl comps) = joinSl comps := by
  unfold WcModel.pathlibNorm
  rw [pathlibDots_safe true _ (dotSafe_joinSl comps h hlast)]
  have hl := joinSl_getLast comps hne (fun c hc => (h c hc).1)
  have : ((joinSl comps).getLast? == some '/') = false := by
    cases hj : (joinSl comps).getLast? with
    | none => rfl
    | some x =>
      rw [hj] at hl
      have : x ≠ '/' := fun e => hl (by rw [e])
      simp [this]
  simp [this]

end WcModel.PathlibViews

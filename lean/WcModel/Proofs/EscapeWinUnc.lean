import WcModel.Proofs.EscapeWinCarve
/-
  C09 under Windows rules, part (3): the agreement hypothesis `DriveAgree` PROVED for the plain UNC
  forms — for all separators `x1 x2 y z ∈ {/, \}`, every non-empty separator-free `host` other
  than `?` / `.` (those open the device forms) and `share`, every rest:

      x1 x2 host y share z rest        x1 x2 host y share

  (`RE_WIN_DRIVE`'s second alternative on one side; `RE_WIN_DRIVE_START`'s first alternative, one
  round of the `RE_WIN_DRIVE_PART` loop and `RE_WIN_DRIVE_UNESCAPE` on the other — `{`, `}`, `|` in the
  host / share are backslash-escaped by `escape` and un-escaped by the parser; every other
  character, metacharacters included, stays as it is and is matched literally.)
-/
set_option linter.unusedSimpArgs false
namespace WcModel

open EscW Win

/-- the pattern text of a separator character: `/`, or two backslashes -/
def sp (z : Char) : List Char := if z = '\\' then ['\\', '\\'] else [z]

theorem sp_cases {z : Char} (hz : isSepW z = true) : (z = '/' ∧ sp z = ['/']) ∨ (z = '\\' ∧ sp z = ['\\', '\\']) := by
  rcases (isSepW_iff z).mp hz with rfl | rfl
  · left; exact ⟨rfl, by decide⟩
  · right; exact ⟨rfl, by decide⟩

theorem sep2_sp {z : Char} (hz : isSepW z = true) (t : List Char) : sep2 (sp z ++ t) = some (sp z).length := by
  rcases sp_cases hz with ⟨_, e⟩ | ⟨_, e⟩ <;> rw [e] <;> rfl

/-- the part characters: a separator-free text with its `{ } |` escaped, up to a separator or the end -/
theorem partChars_dms : ∀ (w : List Char), (∀ c ∈ w, isSepW c = false) → ∀ (tail : List Char),
    (tail = [] ∨ (∃ t, tail = '/' :: t) ∨ (∃ t, tail = '\\' :: '\\' :: t)) →
    partChars (driveMagicSub w ++ tail) = (driveMagicSub w, tail) := by
  intro w
  induction w with
  | nil =>
    intro _ tail ht
    rcases ht with rfl | ⟨t, rfl⟩ | ⟨t, rfl⟩
    · rfl
    · simp [driveMagicSub, partChars]
    · simp [driveMagicSub, partChars]
  | cons c w ih =>
    intro hf tail ht
    have hc := hf c (by simp)
    obtain ⟨_, n2, n3⟩ := nrm_nonsep hc
    have ih' := ih (fun x hx => hf x (by simp [hx])) tail ht
    have e : driveMagicSub (c :: w) = (if c ∈ driveMagicChars then ['\\', c] else [c]) ++ driveMagicSub w := by
      simp [driveMagicSub]
    rw [e]
    by_cases hm : c ∈ driveMagicChars
    · simp only [hm, ite_true, List.cons_append, List.nil_append]
      rw [partChars]
      simp [n2, n3, ih']
    · simp only [hm, ite_false, List.cons_append, List.nil_append]
      rw [partChars]
      · simp [ih']
      · intro c' r' e' _; exact n3 e'
      · intro e' _; exact n3 e'
      · intro e'; exact n2 e'

/-- `winDrive` through alternative (A): two separators and a first part -/
theorem winDrive_altA (cfg : Cfg) (p : List Char) (n1 n2 n4 : Nat) (g2 p3 : List Char) (b4 : Bool)
    (h1 : sep2 p = some n1) (h2 : sep2 (p.drop n1) = some n2)
    (h3 : partChars (p.drop (n1 + n2)) = (g2, p3)) (h4 : g2 ≠ []) (h5 : sepOrEnd p3 = some (n4, b4)) :
    winDrive cfg p =
      (let end0 := n1 + n2 + g2.length + n4
       let part0 := unescape g2
       let isSpecial := lower part0 = ['.'] || lower part0 = ['?']
       let st := partsLoop isSpecial (p.length + 1) (p.drop end0)
         { parts := [part0], slash := false, endIdx := end0, count := 0, complete := 1, first := 1 }
       if st.count = st.complete then
         { rootSpecified := true,
           drive := some [.re (.cat (.rep 2 2 (Frag.sep true))
             (joinSep (st.parts.map (fun q => escapeDrive q cfg.caseSensitive))))],
           slash := st.slash, endIdx := st.endIdx }
       else { rootSpecified := true, drive := none, slash := false, endIdx := 0 }) := by
  have h4' : g2.isEmpty = false := by cases g2 <;> simp_all
  unfold winDrive
  simp only [h1, h2, h3, h4', h5, Bool.false_eq_true, ite_false]

/-- one round of the parts loop that completes the drive: a part that is not a device keyword -/
theorem partsLoop_one (special : Bool) (fuel : Nat) (s g : List Char) (n : Nat) (b : Bool) (st : Scan)
    (hpa : partAt s = some (g, n, b)) (hc : st.count + 1 = st.complete)
    (hk : special = true → lower (unescape g) ≠ ['u', 'n', 'c'] ∧
      lower (unescape g) ≠ ['g', 'l', 'o', 'b', 'a', 'l']) :
    partsLoop special (fuel + 1) s st =
      { st with parts := st.parts ++ [unescape g], slash := b, endIdx := st.endIdx + 0 + n,
                count := st.count + 1 } := by
  have hs : partSearch (s.length + 1) s 0 = some (0, g, n, b) := by
    simp [partSearch, hpa]
  rw [partsLoop]
  cases special with
  | false => simp [hs, hc]
  | true =>
    obtain ⟨k1, k2⟩ := hk rfl
    simp [hs, hc, k1, k2]

/-- one round that does not complete the drive (no keyword either): the loop goes on behind the part -/
theorem partsLoop_more (special : Bool) (fuel : Nat) (s g : List Char) (n : Nat) (b : Bool) (st : Scan)
    (hpa : partAt s = some (g, n, b)) (hc : st.count + 1 ≠ st.complete)
    (hk : special = true → st.count + 1 ≠ st.first) :
    partsLoop special (fuel + 1) s st =
      partsLoop special fuel (s.drop n)
        { st with parts := st.parts ++ [unescape g], slash := b, endIdx := st.endIdx + 0 + n,
                  count := st.count + 1 } := by
  have hs : partSearch (s.length + 1) s 0 = some (0, g, n, b) := by
    simp [partSearch, hpa]
  rw [partsLoop]
  cases special with
  | false => simp [hs, hc]
  | true =>
    have := hk rfl
    simp [hs, hc, this]

/-- the round that reads the keyword `unc` just behind `//?/` or `//./` : two more parts are needed -/
theorem partsLoop_unc (fuel : Nat) (s g : List Char) (n : Nat) (b : Bool) (st : Scan)
    (hpa : partAt s = some (g, n, b)) (hf : st.count + 1 = st.first)
    (hu : lower (unescape g) = ['u', 'n', 'c']) (hc : st.count + 1 ≠ st.complete + 2) :
    partsLoop true (fuel + 1) s st =
      partsLoop true fuel (s.drop n)
        { st with parts := st.parts ++ [unescape g], slash := b, endIdx := st.endIdx + 0 + n,
                  count := st.count + 1, complete := st.complete + 2 } := by
  have hs : partSearch (s.length + 1) s 0 = some (0, g, n, b) := by
    simp [partSearch, hpa]
  have hc' : st.first ≠ st.complete + 2 := hf ▸ hc
  rw [partsLoop]
  simp [hs, hf, hu, hc']

theorem partAt_dms (w : List Char) (hw : w ≠ []) (hf : ∀ c ∈ w, isSepW c = false) (tail : List Char)
    (ht : tail = [] ∨ (∃ t, tail = '/' :: t) ∨ (∃ t, tail = '\\' :: '\\' :: t)) (n : Nat) (b : Bool)
    (hse : sepOrEnd tail = some (n, b)) :
    partAt (driveMagicSub w ++ tail) = some (driveMagicSub w, (driveMagicSub w).length + n, b) := by
  have hne : (driveMagicSub w).isEmpty = false := by
    cases w with
    | nil => exact absurd rfl hw
    | cons c r => 
      simp only [driveMagicSub, List.flatMap_cons]
      split <;> simp
  unfold partAt
  simp [partChars_dms w hf tail ht, hne, hse]

theorem unescape_dms : ∀ (w : List Char), (∀ c ∈ w, isSepW c = false) → unescape (driveMagicSub w) = w := by
  intro w
  induction w with
  | nil => intro _; rfl
  | cons c w ih =>
    intro hf
    have hc := hf c (by simp)
    obtain ⟨_, n2, n3⟩ := nrm_nonsep hc
    have ih' := ih (fun x hx => hf x (by simp [hx]))
    have e : driveMagicSub (c :: w) = (if c ∈ driveMagicChars then ['\\', c] else [c]) ++ driveMagicSub w := by
      simp [driveMagicSub]
    rw [e]
    by_cases hm : c ∈ driveMagicChars
    · have hnl : c ≠ '\n' := by rintro rfl; revert hm; decide
      simp only [hm, ite_true, List.cons_append, List.nil_append]
      rw [unescape]
      simp [hnl, ih']
    · simp only [hm, ite_false, List.cons_append, List.nil_append]
      rw [unescape]
      · simp [ih']
      · intro c' r' e' _; exact n3 e'

theorem sepOrEnd_sp {z : Char} (hz : isSepW z = true) (t : List Char) :
    sepOrEnd (sp z ++ t) = some ((sp z).length, true) := by
  unfold sepOrEnd
  rw [sep2_sp hz]

theorem sp_shape {z : Char} (hz : isSepW z = true) (t : List Char) :
    sp z ++ t = [] ∨ (∃ t', sp z ++ t = '/' :: t') ∨ (∃ t', sp z ++ t = '\\' :: '\\' :: t') := by
  rcases sp_cases hz with ⟨_, e⟩ | ⟨_, e⟩ <;> rw [e]
  · right; left; exact ⟨t, rfl⟩
  · right; right; exact ⟨t, rfl⟩

theorem dms_ne_nil (w : List Char) (hw : w ≠ []) : driveMagicSub w ≠ [] := by
  cases w with
  | nil => exact absurd rfl hw
  | cons c r =>
    simp only [driveMagicSub, List.flatMap_cons]
    split <;> simp

theorem drop_app2 (a b c : List Char) : (a ++ (b ++ c)).drop (a.length + b.length) = c := by
  rw [← List.append_assoc, ← List.length_append]; exact List.drop_left

theorem drop_app4 (a b c d e : List Char) :
    (a ++ (b ++ (c ++ (d ++ e)))).drop (a.length + b.length + c.length + d.length) = e := by
  have : a ++ (b ++ (c ++ (d ++ e))) = (a ++ b ++ c ++ d) ++ e := by simp
  rw [this]
  have : a.length + b.length + c.length + d.length = (a ++ b ++ c ++ d).length := by simp; omega
  rw [this]; exact List.drop_left

/-- **the parser on a plain UNC prefix** `sep sep host sep share (sep … | end)` -/
theorem winDrive_unc (cfg : Cfg) (x1 x2 y : Char) (hx1 : isSepW x1 = true) (hx2 : isSepW x2 = true)
    (hy : isSepW y = true) (host share : List Char) (hh : host ≠ []) (hs : share ≠ [])
    (hhf : ∀ c ∈ host, isSepW c = false) (hsf : ∀ c ∈ share, isSepW c = false)
    (hsp : (lower host = ['.'] ∨ lower host = ['?']) →
      lower share ≠ ['u', 'n', 'c'] ∧ lower share ≠ ['g', 'l', 'o', 'b', 'a', 'l']) (tl : List Char)
    (ht : tl = [] ∨ (∃ t, tl = '/' :: t) ∨ (∃ t, tl = '\\' :: '\\' :: t)) (n : Nat) (b : Bool)
    (hse : sepOrEnd tl = some (n, b)) :
    winDrive cfg (sp x1 ++ (sp x2 ++ (driveMagicSub host ++ (sp y ++ (driveMagicSub share ++ tl))))) =
      { rootSpecified := true,
        drive := some [.re (.cat (.rep 2 2 (Frag.sep true))
          (joinSep ([host, share].map (fun q => escapeDrive q cfg.caseSensitive))))],
        slash := b,
        endIdx := (sp x1).length + (sp x2).length + (driveMagicSub host).length + (sp y).length + 0 +
          ((driveMagicSub share).length + n) } := by
  rw [winDrive_altA cfg _ (sp x1).length (sp x2).length (sp y).length (driveMagicSub host)
    (sp y ++ (driveMagicSub share ++ tl)) true (sep2_sp hx1 _)
    (by rw [List.drop_left]; exact sep2_sp hx2 _)
    (by rw [drop_app2]; exact partChars_dms host hhf _ (sp_shape hy _))
    (dms_ne_nil host hh) (sepOrEnd_sp hy _)]
  simp only [unescape_dms host hhf, drop_app4]
  rw [partsLoop_one _ _ _ (driveMagicSub share) ((driveMagicSub share).length + n) b _
    (partAt_dms share hs hsf tl ht n b hse) rfl
    (by intro hsp2
        rw [unescape_dms share hsf]
        apply hsp
        simpa using hsp2)]
  simp [unescape_dms share hsf]

/-! ### escape's side -/

theorem dbl_single (c : Char) : dbl [c] = sp c := by simp [dbl, sp]

theorem dbl_sepfree : ∀ (w : List Char), (∀ c ∈ w, isSepW c = false) → dbl w = w := by
  intro w
  induction w with
  | nil => intro _; rfl
  | cons c w ih =>
    intro hf
    obtain ⟨_, _, n3⟩ := nrm_nonsep (hf c (by simp))
    have := ih (fun x hx => hf x (by simp [hx]))
    simp only [dbl, List.flatMap_cons, n3, ite_false] at this ⊢
    rw [this]; rfl

theorem sepD_sp {z : Char} (hz : isSepW z = true) (t : List Char) : sepD (sp z ++ t) = some t := by
  rcases sp_cases hz with ⟨_, e⟩ | ⟨_, e⟩ <;> rw [e] <;> rfl

theorem notSepC_of {c : Char} (h : isSepW c = false) : notSepC c = true := by
  obtain ⟨_, n2, n3⟩ := nrm_nonsep h
  simp [notSepC, n2, n3]

theorem dropWhile_notSep : ∀ (w : List Char), (∀ c ∈ w, isSepW c = false) → ∀ (tail : List Char),
    (tail = [] ∨ ∃ c t, tail = c :: t ∧ isSepW c = true) → (w ++ tail).dropWhile notSepC = tail := by
  intro w
  induction w with
  | nil =>
    intro _ tail ht
    rcases ht with rfl | ⟨c, t, rfl, hc⟩
    · rfl
    · have : notSepC c = false := by
        rcases (isSepW_iff c).mp hc with rfl | rfl <;> decide
      simp [List.dropWhile, this]
  | cons c w ih =>
    intro hf tail ht
    simp only [List.cons_append, List.dropWhile, notSepC_of (hf c (by simp))]
    exact ih (fun x hx => hf x (by simp [hx])) tail ht

theorem part1_sepfree (w : List Char) (hw : w ≠ []) (hf : ∀ c ∈ w, isSepW c = false) (tail : List Char)
    (ht : tail = [] ∨ ∃ c t, tail = c :: t ∧ isSepW c = true) : part1 (w ++ tail) = some tail := by
  cases w with
  | nil => exact absurd rfl hw
  | cons c w =>
    simp only [List.cons_append, part1, notSepC_of (hf c (by simp)), ite_true]
    rw [dropWhile_notSep w (fun x hx => hf x (by simp [hx])) tail ht]

theorem sp_head {z : Char} (hz : isSepW z = true) (t : List Char) :
    ∃ c t', sp z ++ t = c :: t' ∧ isSepW c = true := by
  rcases sp_cases hz with ⟨_, e⟩ | ⟨_, e⟩ <;> rw [e]
  · exact ⟨'/', t, rfl, by decide⟩
  · exact ⟨'\\', '\\' :: t, rfl, by decide⟩

/-- `RE_WIN_DRIVE` on a plain UNC prefix (host not `?` / `.`): the second alternative -/
theorem reWinDrive_unc (x1 x2 y : Char) (hx1 : isSepW x1 = true) (hx2 : isSepW x2 = true)
    (hy : isSepW y = true) (host share : List Char) (hh : host ≠ []) (hs : share ≠ [])
    (hhf : ∀ c ∈ host, isSepW c = false) (hsf : ∀ c ∈ share, isSepW c = false)
    (hsp : host ≠ ['.'] ∧ host ≠ ['?']) (tl out : List Char)
    (ht : tl = [] ∨ ∃ c t, tl = c :: t ∧ isSepW c = true) (htl : tailD tl = some out) :
    reWinDrive (sp x1 ++ (sp x2 ++ (host ++ (sp y ++ (share ++ tl))))) = some out := by
  have a2 : part1 (host ++ (sp y ++ (share ++ tl))) = some (sp y ++ (share ++ tl)) :=
    part1_sepfree host hh hhf _ (.inr (sp_head hy _))
  have a3 : part1 (share ++ tl) = some tl := part1_sepfree share hs hsf _ ht
  unfold reWinDrive
  simp only [sepD_sp hx1, sepD_sp hx2, Option.bind_eq_bind, Option.bind_some, a2, sepD_sp hy, a3, htl]
  -- the first alternative fails: the host is not `?` / `.`
  cases host with
  | nil => exact absurd rfl hh
  | cons c h' =>
    by_cases hc : (c = '?' || c = '.') = true
    · cases h' with
      | nil =>
        simp only [Bool.or_eq_true, decide_eq_true_eq] at hc
        rcases hc with rfl | rfl
        · exact absurd rfl hsp.2
        · exact absurd rfl hsp.1
      | cons d h'' =>
        have hd : isSepW d = false := hhf d (by simp)
        obtain ⟨_, n2, n3⟩ := nrm_nonsep hd
        have : sepD (d :: (h'' ++ (sp y ++ (share ++ tl)))) = none := by simp [sepD, n2, n3]
        simp [hc, this, Option.orElse]
    · simp [hc, Option.orElse]

/-! ### the assembly -/

theorem dbl_cons_sp (c : Char) (r : List Char) : dbl (c :: r) = sp c ++ dbl r := by
  simp [dbl, sp]

theorem dms_append (a b : List Char) : driveMagicSub (a ++ b) = driveMagicSub a ++ driveMagicSub b := by
  simp [driveMagicSub, List.flatMap_append]

theorem dms_sp {z : Char} (hz : isSepW z = true) : driveMagicSub (sp z) = sp z := by
  rcases sp_cases hz with ⟨_, e⟩ | ⟨_, e⟩ <;> rw [e] <;> decide

theorem dms_sepfree_dbl (w : List Char) (hf : ∀ c ∈ w, isSepW c = false) :
    driveMagicSub (dbl w) = driveMagicSub w := by rw [dbl_sepfree w hf]

theorem tailD_sp {z : Char} (hz : isSepW z = true) (t : List Char) : tailD (sp z ++ t) = some t := by
  unfold tailD; rw [sepD_sp hz]

theorem lower_eq_single {w : List Char} {k : Char} (hk : nonLetter k) (h : lower w = [k]) : w = [k] := by
  cases w with
  | nil => simp [lower] at h
  | cons c r =>
    cases r with
    | nil =>
      simp only [lower, List.map_cons, List.map_nil, List.cons.injEq, and_true] at h
      rw [(asciiLower_eq_nonLetter hk c).mp h]
    | cons d r' => simp [lower] at h

theorem splitSepW_sepfree : ∀ (w : List Char), (∀ c ∈ w, isSepW c = false) → splitSepW w = [w] := by
  intro w
  induction w with
  | nil => intro _; rfl
  | cons c w ih =>
    intro hf
    simp only [splitSepW, hf c (by simp), Bool.false_eq_true, ite_false,
      ih (fun x hx => hf x (by simp [hx]))]

theorem splitSepW_append_sep : ∀ (w : List Char), (∀ c ∈ w, isSepW c = false) → ∀ (y : Char) (v : List Char),
    isSepW y = true → splitSepW (w ++ y :: v) = w :: splitSepW v := by
  intro w
  induction w with
  | nil => intro _ y v hy; simp [splitSepW, hy]
  | cons c w ih =>
    intro hf y v hy
    simp only [List.cons_append, splitSepW, hf c (by simp), Bool.false_eq_true, ite_false,
      ih (fun x hx => hf x (by simp [hx])) y v hy]

theorem endsSepW_append_single (a : List Char) (z : Char) : endsSepW (a ++ [z]) = isSepW z := by
  simp [endsSepW]

theorem endsSepW_sepfree_tail (a w : List Char) (hw : w ≠ []) (hf : ∀ c ∈ w, isSepW c = false) :
    endsSepW (a ++ w) = false := by
  unfold endsSepW
  rw [getLast_append_ne a w hw, List.getLast?_eq_some_getLast hw]
  exact hf _ (List.getLast_mem hw)

/-- the assembly for `sep sep host sep share sep rest`, given escape's side -/
theorem driveAgree_unc_sep_of (cfg : Cfg) (x1 x2 y z : Char) (hx1 : isSepW x1 = true) (hx2 : isSepW x2 = true)
    (hy : isSepW y = true) (hz : isSepW z = true) (host share : List Char) (hh : host ≠ []) (hs : share ≠ [])
    (hhf : ∀ c ∈ host, isSepW c = false) (hsf : ∀ c ∈ share, isSepW c = false)
    (rest : List Char)
    (hsp' : (lower host = ['.'] ∨ lower host = ['?']) →
      lower share ≠ ['u', 'n', 'c'] ∧ lower share ≠ ['g', 'l', 'o', 'b', 'a', 'l'])
    (hre : reWinDrive (sp x1 ++ (sp x2 ++ (host ++ (sp y ++ (share ++ (sp z ++ dbl rest)))))) = some (dbl rest)) :
    DriveAgree cfg (x1 :: x2 :: (host ++ y :: (share ++ [z]))) rest = true := by
  have hdbl : dbl (x1 :: x2 :: (host ++ y :: (share ++ [z])) ++ rest) =
      sp x1 ++ (sp x2 ++ (host ++ (sp y ++ (share ++ (sp z ++ dbl rest))))) := by
    simp only [List.cons_append, dbl_cons_sp, List.append_assoc, dbl_append, dbl_sepfree host hhf,
      dbl_sepfree share hsf, List.nil_append, dbl_single]
  have hc : reWinDrive (dbl (x1 :: x2 :: (host ++ y :: (share ++ [z])) ++ rest)) = some (dbl rest) := by
    rw [hdbl]
    exact hre
  have hdm : driveMagicSub (dbl (x1 :: x2 :: (host ++ y :: (share ++ [z])))) =
      sp x1 ++ (sp x2 ++ (driveMagicSub host ++ (sp y ++ (driveMagicSub share ++ sp z)))) := by
    have e0 : driveMagicSub (dbl []) = [] := rfl
    simp only [dbl_cons_sp, dbl_append, dms_append, dms_sp hx1, dms_sp hx2, dms_sp hy, dms_sp hz,
      dbl_sepfree host hhf, dbl_sepfree share hsf, dbl_single, List.append_assoc, e0, List.append_nil]
  have hp := escapeWin_carve _ _ hc
  rw [hdm] at hp
  have hp' : escapeWin (x1 :: x2 :: (host ++ y :: (share ++ [z])) ++ rest) =
      sp x1 ++ (sp x2 ++ (driveMagicSub host ++ (sp y ++ (driveMagicSub share ++ (sp z ++ escapeUnix rest))))) := by
    rw [hp]; simp only [List.append_assoc]
  have hw := winDrive_unc cfg x1 x2 y hx1 hx2 hy host share hh hs hhf hsf hsp' (sp z ++ escapeUnix rest)
    (by rcases sp_shape hz (escapeUnix rest) with h | h | h
        · exact .inl h
        · exact .inr (.inl h)
        · exact .inr (.inr h))
    (sp z).length true (sepOrEnd_sp hz _)
  apply DriveAgreeP.agree
  refine ⟨hc, ?_, ?_, ?_, ?_⟩
  · rw [hp', hw]
  · rw [hp', hw, hdm]; simp only [List.length_append]; omega
  · rw [hp', hw]
    have : x1 :: x2 :: (host ++ y :: (share ++ [z])) = (x1 :: x2 :: (host ++ y :: share)) ++ [z] := by simp
    rw [this, endsSepW_append_single, hz]
  · rw [hp', hw]
    have e1 : x1 :: x2 :: (host ++ y :: (share ++ [z])) = (x1 :: x2 :: (host ++ y :: share)) ++ [z] := by simp
    have e2 : driveCore (x1 :: x2 :: (host ++ y :: (share ++ [z]))) = x1 :: x2 :: (host ++ y :: share) := by
      rw [e1]
      unfold driveCore
      rw [endsSepW_append_single, hz]
      simp only [ite_true, List.dropLast_concat]
    rw [e2]
    simp only [driveReOf, hx1, hx2, Bool.and_self, ite_true, splitSepW_append_sep host hhf y share hy,
      splitSepW_sepfree share hsf]

/-- `sep sep host sep share sep rest` : the two scanners agree — for every rest -/
theorem driveAgree_unc_sep (cfg : Cfg) (x1 x2 y z : Char) (hx1 : isSepW x1 = true) (hx2 : isSepW x2 = true)
    (hy : isSepW y = true) (hz : isSepW z = true) (host share : List Char) (hh : host ≠ []) (hs : share ≠ [])
    (hhf : ∀ c ∈ host, isSepW c = false) (hsf : ∀ c ∈ share, isSepW c = false)
    (hsp : host ≠ ['.'] ∧ host ≠ ['?']) (rest : List Char) :
    DriveAgree cfg (x1 :: x2 :: (host ++ y :: (share ++ [z]))) rest = true := by
  refine driveAgree_unc_sep_of cfg x1 x2 y z hx1 hx2 hy hz host share hh hs hhf hsf rest ?_
    (reWinDrive_unc x1 x2 y hx1 hx2 hy host share hh hs hhf hsf hsp _ _ (.inr (sp_head hz _)) (tailD_sp hz _))
  rintro (e | e)
  · exact absurd (lower_eq_single (by unfold nonLetter; decide) e) hsp.1
  · exact absurd (lower_eq_single (by unfold nonLetter; decide) e) hsp.2

/-- the assembly for `sep sep host sep share`, given escape's side -/
theorem driveAgree_unc_end_of (cfg : Cfg) (x1 x2 y : Char) (hx1 : isSepW x1 = true) (hx2 : isSepW x2 = true)
    (hy : isSepW y = true) (host share : List Char) (hh : host ≠ []) (hs : share ≠ [])
    (hhf : ∀ c ∈ host, isSepW c = false) (hsf : ∀ c ∈ share, isSepW c = false)
    (hsp' : (lower host = ['.'] ∨ lower host = ['?']) →
      lower share ≠ ['u', 'n', 'c'] ∧ lower share ≠ ['g', 'l', 'o', 'b', 'a', 'l'])
    (hre : reWinDrive (sp x1 ++ (sp x2 ++ (host ++ (sp y ++ (share ++ []))))) = some []) :
    DriveAgree cfg (x1 :: x2 :: (host ++ y :: share)) [] = true := by
  have hdbl : dbl (x1 :: x2 :: (host ++ y :: share) ++ []) =
      sp x1 ++ (sp x2 ++ (host ++ (sp y ++ (share ++ [])))) := by
    simp only [List.append_nil, dbl_cons_sp, dbl_append, dbl_sepfree host hhf, dbl_sepfree share hsf]
  have hc : reWinDrive (dbl (x1 :: x2 :: (host ++ y :: share) ++ [])) = some (dbl []) := by
    rw [hdbl]
    exact hre
  have hdm : driveMagicSub (dbl (x1 :: x2 :: (host ++ y :: share))) =
      sp x1 ++ (sp x2 ++ (driveMagicSub host ++ (sp y ++ (driveMagicSub share ++ [])))) := by
    simp only [dbl_cons_sp, dbl_append, dms_append, dms_sp hx1, dms_sp hx2, dms_sp hy,
      dbl_sepfree host hhf, dbl_sepfree share hsf, List.append_nil]
  have hp := escapeWin_carve _ _ hc
  have hp' : escapeWin (x1 :: x2 :: (host ++ y :: share) ++ []) =
      sp x1 ++ (sp x2 ++ (driveMagicSub host ++ (sp y ++ (driveMagicSub share ++ [])))) := by
    rw [hp, hdm]; simp [escapeUnix]
  have hw := winDrive_unc cfg x1 x2 y hx1 hx2 hy host share hh hs hhf hsf hsp' [] (.inl rfl) 0 false rfl
  apply DriveAgreeP.agree
  refine ⟨hc, ?_, ?_, ?_, ?_⟩
  · rw [hp', hw]
  · rw [hp', hw, hdm]; simp only [List.length_append, List.length_nil]; omega
  · rw [hp', hw]
    have : x1 :: x2 :: (host ++ y :: share) = (x1 :: x2 :: (host ++ [y])) ++ share := by simp
    rw [this, endsSepW_sepfree_tail _ share hs hsf]
  · rw [hp', hw]
    have e1 : x1 :: x2 :: (host ++ y :: share) = (x1 :: x2 :: (host ++ [y])) ++ share := by simp
    have e2 : driveCore (x1 :: x2 :: (host ++ y :: share)) = x1 :: x2 :: (host ++ y :: share) := by
      unfold driveCore
      rw [e1, endsSepW_sepfree_tail _ share hs hsf]
      simp
    rw [e2]
    simp only [driveReOf, hx1, hx2, Bool.and_self, ite_true, splitSepW_append_sep host hhf y share hy,
      splitSepW_sepfree share hsf]

/-- `sep sep host sep share` (end of the string) -/
theorem driveAgree_unc_end (cfg : Cfg) (x1 x2 y : Char) (hx1 : isSepW x1 = true) (hx2 : isSepW x2 = true)
    (hy : isSepW y = true) (host share : List Char) (hh : host ≠ []) (hs : share ≠ [])
    (hhf : ∀ c ∈ host, isSepW c = false) (hsf : ∀ c ∈ share, isSepW c = false)
    (hsp : host ≠ ['.'] ∧ host ≠ ['?']) :
    DriveAgree cfg (x1 :: x2 :: (host ++ y :: share)) [] = true := by
  refine driveAgree_unc_end_of cfg x1 x2 y hx1 hx2 hy host share hh hs hhf hsf ?_
    (reWinDrive_unc x1 x2 y hx1 hx2 hy host share hh hs hhf hsf hsp [] [] (.inl rfl) rfl)
  rintro (e | e)
  · exact absurd (lower_eq_single (by unfold nonLetter; decide) e) hsp.1
  · exact absurd (lower_eq_single (by unfold nonLetter; decide) e) hsp.2

/-! ### the device drive-letter forms `//?/c:/…`, `//./c:` -/

/-- `RE_WIN_DRIVE` on `sep sep [?.] sep l:` : the first alternative -/
theorem reWinDrive_devLetter (x1 x2 y q l : Char) (hx1 : isSepW x1 = true) (hx2 : isSepW x2 = true)
    (hy : isSepW y = true) (hq : q = '?' ∨ q = '.') (hl : isLetter l = true) (tl out : List Char)
    (htl : tailD tl = some out) :
    reWinDrive (sp x1 ++ (sp x2 ++ ([q] ++ (sp y ++ ([l, ':'] ++ tl))))) = some out := by
  have hq' : (q = '?' || q = '.') = true := by rcases hq with rfl | rfl <;> decide
  unfold reWinDrive
  simp only [sepD_sp hx1, sepD_sp hx2, Option.bind_eq_bind, Option.bind_some, List.cons_append,
    List.nil_append, hq', ite_true, sepD_sp hy, letterColon, hl, htl, Option.orElse]

theorem device_host_props {q : Char} (hq : q = '?' ∨ q = '.') :
    [q] ≠ [] ∧ (∀ c ∈ [q], isSepW c = false) := by
  rcases hq with rfl | rfl <;> exact ⟨by simp, by decide⟩

theorem letter_share_props {l : Char} (hl : isLetter l = true) :
    [l, ':'] ≠ [] ∧ (∀ c ∈ [l, ':'], isSepW c = false) ∧
      (lower [l, ':'] ≠ ['u', 'n', 'c'] ∧ lower [l, ':'] ≠ ['g', 'l', 'o', 'b', 'a', 'l']) := by
  have h1 : l ≠ '/' := by rintro rfl; revert hl; decide
  have h2 : l ≠ '\\' := by rintro rfl; revert hl; decide
  refine ⟨by simp, ?_, by simp [lower], by simp [lower]⟩
  intro c hc
  simp only [List.mem_cons, List.not_mem_nil, or_false] at hc
  rcases hc with rfl | rfl
  · exact isSepW_false_of h1 h2
  · decide

/-- `sep sep [?.] sep l: sep rest` -/
theorem driveAgree_devLetter_sep (cfg : Cfg) (x1 x2 y z q l : Char) (hx1 : isSepW x1 = true)
    (hx2 : isSepW x2 = true) (hy : isSepW y = true) (hz : isSepW z = true) (hq : q = '?' ∨ q = '.')
    (hl : isLetter l = true) (rest : List Char) :
    DriveAgree cfg (x1 :: x2 :: ([q] ++ y :: ([l, ':'] ++ [z]))) rest = true := by
  obtain ⟨a1, a2⟩ := device_host_props hq
  obtain ⟨b1, b2, b3⟩ := letter_share_props hl
  exact driveAgree_unc_sep_of cfg x1 x2 y z hx1 hx2 hy hz [q] [l, ':'] a1 b1 a2 b2 rest (fun _ => b3)
    (reWinDrive_devLetter x1 x2 y q l hx1 hx2 hy hq hl _ _ (tailD_sp hz _))

/-- `sep sep [?.] sep l:` (end of the string) -/
theorem driveAgree_devLetter_end (cfg : Cfg) (x1 x2 y q l : Char) (hx1 : isSepW x1 = true)
    (hx2 : isSepW x2 = true) (hy : isSepW y = true) (hq : q = '?' ∨ q = '.') (hl : isLetter l = true) :
    DriveAgree cfg (x1 :: x2 :: ([q] ++ y :: [l, ':'])) [] = true := by
  obtain ⟨a1, a2⟩ := device_host_props hq
  obtain ⟨b1, b2, b3⟩ := letter_share_props hl
  exact driveAgree_unc_end_of cfg x1 x2 y hx1 hx2 hy [q] [l, ':'] a1 b1 a2 b2 (fun _ => b3)
    (reWinDrive_devLetter x1 x2 y q l hx1 hx2 hy hq hl [] [] rfl)

end WcModel

import WcModel.Proofs.Regex
import WcModel.Proofs.CharLemmas
/-
  Case-insensitive matching is closed under changing the ASCII case of the subject:
  if every `(?i…)` scope inside `r` is case-insensitive, then in case-insensitive mode `r`
  cannot distinguish two subjects that are equal up to ASCII case.
-/
namespace WcModel

/-- equal up to ASCII case -/
def ceqC (c d : Char) : Prop := asciiLower c = asciiLower d

inductive ceq : List Char → List Char → Prop
  | nil : ceq [] []
  | cons {c d s t} : ceqC c d → ceq s t → ceq (c :: s) (d :: t)

theorem ceq.symm {s t : List Char} (h : ceq s t) : ceq t s := by
  induction h with
  | nil => exact .nil
  | cons hc _ ih => exact .cons hc.symm ih

theorem ceq.refl (s : List Char) : ceq s s := by
  induction s with
  | nil => exact .nil
  | cons c s ih => exact .cons rfl ih

/-- related states -/
def Rel (a a' : St) : Prop := a.atStart = a'.atStart ∧ ceq a.rest a'.rest

theorem Rel.symm {a a' : St} (h : Rel a a') : Rel a' a := ⟨h.1.symm, h.2.symm⟩

/-! ### ASCII facts -/

theorem isUpper_iff (d : Char) : ('A' ≤ d ∧ d ≤ 'Z') ↔ (65 ≤ d.toNat ∧ d.toNat ≤ 90) := by
  constructor
  · rintro ⟨h1, h2⟩; rw [Char.le_def] at h1 h2; exact ⟨h1, h2⟩
  · rintro ⟨h1, h2⟩; exact ⟨Char.le_def.mpr h1, Char.le_def.mpr h2⟩

theorem isLower_iff (d : Char) : ('a' ≤ d ∧ d ≤ 'z') ↔ (97 ≤ d.toNat ∧ d.toNat ≤ 122) := by
  constructor
  · rintro ⟨h1, h2⟩; rw [Char.le_def] at h1 h2; exact ⟨h1, h2⟩
  · rintro ⟨h1, h2⟩; exact ⟨Char.le_def.mpr h1, Char.le_def.mpr h2⟩

theorem lower_toNat (d : Char) :
    (asciiLower d).toNat = if 65 ≤ d.toNat ∧ d.toNat ≤ 90 then d.toNat + 32 else d.toNat := by
  unfold asciiLower
  by_cases h : 'A' ≤ d ∧ d ≤ 'Z'
  · have h' := (isUpper_iff d).mp h
    simp only [h, and_self, ite_true, h']
    exact toNat_ofNat_small _ (by omega)
  · have h' : ¬ (65 ≤ d.toNat ∧ d.toNat ≤ 90) := fun x => h ((isUpper_iff d).mpr x)
    simp only [h, ite_false, h']

theorem upper_toNat (d : Char) :
    (asciiUpper d).toNat = if 97 ≤ d.toNat ∧ d.toNat ≤ 122 then d.toNat - 32 else d.toNat := by
  unfold asciiUpper
  by_cases h : 'a' ≤ d ∧ d ≤ 'z'
  · have h' := (isLower_iff d).mp h
    simp only [h, and_self, ite_true, h']
    exact toNat_ofNat_small _ (by omega)
  · have h' : ¬ (97 ≤ d.toNat ∧ d.toNat ≤ 122) := fun x => h ((isLower_iff d).mpr x)
    simp only [h, ite_false, h']

theorem char_ext {c d : Char} (h : c.toNat = d.toNat) : c = d := by
  have := congrArg Char.ofNat h
  simpa using this

/-- the set `{d, lower d, upper d}` only depends on `lower d` -/
theorem case_variants {d d' : Char} (h : ceqC d d') :
    (d' = d ∨ d' = asciiLower d ∨ d' = asciiUpper d) ∧ asciiUpper (asciiLower d) = asciiUpper (asciiLower d') := by
  unfold ceqC at h
  refine ⟨?_, by rw [h]⟩
  have hn := congrArg Char.toNat h
  rw [lower_toNat, lower_toNat] at hn
  by_cases h1 : 65 ≤ d.toNat ∧ d.toNat ≤ 90
  · by_cases h2 : 65 ≤ d'.toNat ∧ d'.toNat ≤ 90
    · simp only [h1, h2, and_self, ite_true] at hn
      left; exact char_ext (by omega)
    · simp only [h1, h2, and_self, ite_true, ite_false] at hn
      right; left; apply char_ext; rw [lower_toNat]; simp only [h1, and_self, ite_true]; omega
  · by_cases h2 : 65 ≤ d'.toNat ∧ d'.toNat ≤ 90
    · simp only [h1, h2, and_self, ite_true, ite_false] at hn
      right; right; apply char_ext; rw [upper_toNat]
      have : 97 ≤ d.toNat ∧ d.toNat ≤ 122 := by omega
      simp only [this, and_self, ite_true]; omega
    · simp only [h1, h2, ite_false] at hn
      left; exact char_ext hn.symm

theorem upper_lower (d : Char) : asciiUpper (asciiLower d) = asciiUpper d := by
  apply char_ext
  rw [upper_toNat, upper_toNat, lower_toNat]
  by_cases h1 : 65 ≤ d.toNat ∧ d.toNat ≤ 90
  · simp only [h1, and_self, ite_true]
    have h2 : 97 ≤ d.toNat + 32 ∧ d.toNat + 32 ≤ 122 := by omega
    have h3 : ¬ (97 ≤ d.toNat ∧ d.toNat ≤ 122) := by omega
    simp only [h2, and_self, ite_true, h3, ite_false]; omega
  · simp only [h1, ite_false]

theorem lower_lower (d : Char) : asciiLower (asciiLower d) = asciiLower d := by
  apply char_ext
  rw [lower_toNat, lower_toNat]
  by_cases h1 : 65 ≤ d.toNat ∧ d.toNat ≤ 90
  · simp only [h1, and_self, ite_true]
    have h2 : ¬ (65 ≤ d.toNat + 32 ∧ d.toNat + 32 ≤ 90) := by omega
    simp only [h2, ite_false]
  · simp only [h1, ite_false]

theorem lower_upper (d : Char) : asciiLower (asciiUpper d) = asciiLower d := by
  apply char_ext
  rw [lower_toNat, lower_toNat, upper_toNat]
  by_cases h1 : 97 ≤ d.toNat ∧ d.toNat ≤ 122
  · simp only [h1, and_self, ite_true]
    have h2 : 65 ≤ d.toNat - 32 ∧ d.toNat - 32 ≤ 90 := by omega
    have h3 : ¬ (65 ≤ d.toNat ∧ d.toNat ≤ 90) := by omega
    simp only [h2, and_self, ite_true, h3, ite_false]; omega
  · simp only [h1, ite_false]

theorem upper_upper (d : Char) : asciiUpper (asciiUpper d) = asciiUpper d := by
  apply char_ext
  rw [upper_toNat, upper_toNat]
  by_cases h1 : 97 ≤ d.toNat ∧ d.toNat ≤ 122
  · simp only [h1, and_self, ite_true]
    have h2 : ¬ (97 ≤ d.toNat - 32 ∧ d.toNat - 32 ≤ 122) := by omega
    simp only [h2, ite_false]
  · simp only [h1, ite_false]

theorem self_variant (d : Char) : d = asciiLower d ∨ d = asciiUpper d := by
  by_cases h1 : 65 ≤ d.toNat ∧ d.toNat ≤ 90
  · right; apply char_ext; rw [upper_toNat]
    have : ¬ (97 ≤ d.toNat ∧ d.toNat ≤ 122) := by omega
    simp only [this, ite_false]
  · left; apply char_ext; rw [lower_toNat]; simp only [h1, ite_false]

/-- class membership under the case-insensitive rule depends only on the case class -/
theorem hasCi_ceq (it : ClsItem) {d d' : Char} (h : ceqC d d') : it.hasCi true d = it.hasCi true d' := by
  have hl : asciiLower d = asciiLower d' := h
  have hu : asciiUpper d = asciiUpper d' := by
    rw [← upper_lower d, ← upper_lower d', hl]
  have key : ∀ x : Char, it.hasCi true x = (it.has (asciiLower x) || it.has (asciiUpper x)) := by
    intro x
    simp only [ClsItem.hasCi, Bool.true_and]
    rcases self_variant x with hx | hx
    · rw [← hx]; cases it.has x <;> cases it.has (asciiUpper x) <;> rfl
    · rw [← hx]; cases it.has x <;> cases it.has (asciiLower x) <;> rfl
  rw [key d, key d', hl, hu]

theorem clsMatch_ceq (neg : Bool) (items : List ClsItem) {d d' : Char} (h : ceqC d d') :
    clsMatch true neg items d = clsMatch true neg items d' := by
  simp only [clsMatch]
  congr 1
  induction items with
  | nil => rfl
  | cons it rest ih => simp only [List.any_cons, hasCi_ceq it h, ih]

theorem nonLetter_nl : nonLetter '\n' := by unfold nonLetter; decide

theorem nl_ceq {d d' : Char} (h : ceqC d d') : (d = '\n') ↔ (d' = '\n') := by
  unfold ceqC at h
  constructor
  · intro hd; subst hd
    have : asciiLower d' = '\n' := by rw [← h]; decide
    exact (asciiLower_eq_nonLetter nonLetter_nl d').mp this
  · intro hd; subst hd
    have : asciiLower d = '\n' := by rw [h]; decide
    exact (asciiLower_eq_nonLetter nonLetter_nl d).mp this

theorem atEos_ceq {s t : List Char} (h : ceq s t) : atEos s = atEos t := by
  cases h with
  | nil => rfl
  | cons hc hr =>
    cases hr with
    | nil =>
      rename_i c d
      have := nl_ceq hc
      by_cases h1 : c = '\n'
      · have h2 := this.mp h1
        subst h1; subst h2; rfl
      · have h2 : ¬ d = '\n' := fun x => h1 (this.mpr x)
        have e1 : (c == '\n') = false := by simpa using h1
        have e2 : (d == '\n') = false := by simpa using h2
        simp [atEos, e1, e2]
    | cons _ _ => simp [atEos]

/-! ### the simulation -/

/-- every `(?…)` flag scope inside `r` is case-insensitive -/
def Re.allCi : Re → Bool
  | .flags _ i r => i && r.allCi
  | .cat a b => a.allCi && b.allCi
  | .alt a b => a.allCi && b.allCi
  | .grp r => r.allCi
  | .cap r => r.allCi
  | .gcap r => r.allCi
  | .opt r => r.allCi
  | .star _ r => r.allCi
  | .plus r => r.allCi
  | .rep _ _ r => r.allCi
  | .look _ r => r.allCi
  | _ => true

theorem consume1_sim {p : Char → Bool} (hp : ∀ d d', ceqC d d' → p d = p d') {a b a' : St}
    (h : consume1 p a b) (hr : Rel a a') : ∃ b', consume1 p a' b' ∧ Rel b b' := by
  obtain ⟨d, s, h1, h2, rfl⟩ := h
  rcases a' with ⟨f', r'⟩
  obtain ⟨_, hc⟩ := hr
  simp only at hc
  rw [h1] at hc
  cases hc with
  | @cons _ d' _ t hcd hst =>
    exact ⟨⟨false, t⟩, ⟨d', t, rfl, by rw [← hp d d' hcd]; exact h2, rfl⟩, rfl, hst⟩

theorem Iter_sim {R : St → St → Prop}
    (hR : ∀ a b a', R a b → Rel a a' → ∃ b', R a' b' ∧ Rel b b') {a b a' : St}
    (h : Iter R a b) (hr : Rel a a') : ∃ b', Iter R a' b' ∧ Rel b b' := by
  induction h generalizing a' with
  | refl a => exact ⟨a', Iter.refl a', hr⟩
  | step hab _ ih =>
    obtain ⟨m', h1, h2⟩ := hR _ _ _ hab hr
    obtain ⟨b', h3, h4⟩ := ih h2
    exact ⟨b', Iter.step h1 h3, h4⟩

theorem IterN_sim {R : St → St → Prop}
    (hR : ∀ a b a', R a b → Rel a a' → ∃ b', R a' b' ∧ Rel b b') {n : Nat} {a b a' : St}
    (h : IterN R n a b) (hr : Rel a a') : ∃ b', IterN R n a' b' ∧ Rel b b' := by
  induction h generalizing a' with
  | zero a => exact ⟨a', IterN.zero a', hr⟩
  | succ hab _ ih =>
    obtain ⟨m', h1, h2⟩ := hR _ _ _ hab hr
    obtain ⟨b', h3, h4⟩ := ih h2
    exact ⟨b', IterN.succ h1 h3, h4⟩

/-- **case-insensitive matching cannot see ASCII case** -/
theorem Re.M_ci_sim (r : Re) (hall : r.allCi = true) : ∀ (dl : Bool) (a b a' : St),
    Re.M ⟨dl, true⟩ r a b → Rel a a' → ∃ b', Re.M ⟨dl, true⟩ r a' b' ∧ Rel b b' := by
  induction r with
  | eps => intro dl a b a' h hr; simp only [Re.M] at h ⊢; exact ⟨a', rfl, h ▸ hr⟩
  | lit c =>
    intro dl a b a' h hr
    simp only [Re.M] at h ⊢
    exact consume1_sim (fun d d' hd => by
      simp only [charEq, ite_true]
      have : asciiLower d = asciiLower d' := hd
      rw [this]) h hr
  | any =>
    intro dl a b a' h hr
    simp only [Re.M] at h ⊢
    exact consume1_sim (fun d d' hd => by
      have := nl_ceq hd
      by_cases h1 : d = '\n'
      · have h2 := this.mp h1
        subst h1; subst h2; rfl
      · have h2 : ¬ d' = '\n' := fun x => h1 (this.mpr x)
        have e1 : (d != '\n') = true := by simpa using h1
        have e2 : (d' != '\n') = true := by simpa using h2
        simp [anyMatch, e1, e2]) h hr
  | cls neg items =>
    intro dl a b a' h hr
    simp only [Re.M] at h ⊢
    exact consume1_sim (fun d d' hd => clsMatch_ceq neg items hd) h hr
  | cat r₁ r₂ ih₁ ih₂ =>
    intro dl a b a' h hr
    simp only [Re.allCi, Bool.and_eq_true] at hall
    simp only [Re.M] at h ⊢
    obtain ⟨c, h1, h2⟩ := h
    obtain ⟨c', h3, h4⟩ := ih₁ hall.1 dl _ _ _ h1 hr
    obtain ⟨b', h5, h6⟩ := ih₂ hall.2 dl _ _ _ h2 h4
    exact ⟨b', ⟨c', h3, h5⟩, h6⟩
  | alt r₁ r₂ ih₁ ih₂ =>
    intro dl a b a' h hr
    simp only [Re.allCi, Bool.and_eq_true] at hall
    simp only [Re.M] at h ⊢
    rcases h with h | h
    · obtain ⟨b', h1, h2⟩ := ih₁ hall.1 dl _ _ _ h hr; exact ⟨b', Or.inl h1, h2⟩
    · obtain ⟨b', h1, h2⟩ := ih₂ hall.2 dl _ _ _ h hr; exact ⟨b', Or.inr h1, h2⟩
  | grp r ih => intro dl a b a' h hr; simp only [Re.M] at h ⊢; exact ih (by simpa [Re.allCi] using hall) dl _ _ _ h hr
  | cap r ih => intro dl a b a' h hr; simp only [Re.M] at h ⊢; exact ih (by simpa [Re.allCi] using hall) dl _ _ _ h hr
  | gcap r ih => intro dl a b a' h hr; simp only [Re.M] at h ⊢; exact ih (by simpa [Re.allCi] using hall) dl _ _ _ h hr
  | opt r ih =>
    intro dl a b a' h hr
    simp only [Re.M] at h ⊢
    rcases h with h | h
    · exact ⟨a', Or.inl rfl, h ▸ hr⟩
    · obtain ⟨b', h1, h2⟩ := ih (by simpa [Re.allCi] using hall) dl _ _ _ h hr; exact ⟨b', Or.inr h1, h2⟩
  | star l r ih =>
    intro dl a b a' h hr
    simp only [Re.M] at h ⊢
    exact Iter_sim (fun x y x' => ih (by simpa [Re.allCi] using hall) dl x y x') h hr
  | plus r ih =>
    intro dl a b a' h hr
    simp only [Re.M] at h ⊢
    obtain ⟨c, h1, h2⟩ := h
    obtain ⟨c', h3, h4⟩ := ih (by simpa [Re.allCi] using hall) dl _ _ _ h1 hr
    obtain ⟨b', h5, h6⟩ := Iter_sim (fun x y x' => ih (by simpa [Re.allCi] using hall) dl x y x') h2 h4
    exact ⟨b', ⟨c', h3, h5⟩, h6⟩
  | rep lo hi r ih =>
    intro dl a b a' h hr
    simp only [Re.M] at h ⊢
    obtain ⟨n, h1, h2, h3⟩ := h
    obtain ⟨b', h4, h5⟩ := IterN_sim (fun x y x' => ih (by simpa [Re.allCi] using hall) dl x y x') h3 hr
    exact ⟨b', ⟨n, h1, h2, h4⟩, h5⟩
  | look neg r ih =>
    intro dl a b a' h hr
    have hall' : r.allCi = true := by simpa [Re.allCi] using hall
    cases neg with
    | false =>
      simp only [Re.M] at h ⊢
      obtain ⟨rfl, c, hc⟩ := h
      obtain ⟨c', h1, _⟩ := ih hall' dl _ _ _ hc hr
      exact ⟨a', ⟨rfl, c', h1⟩, hr⟩
    | true =>
      simp only [Re.M] at h ⊢
      obtain ⟨rfl, hno⟩ := h
      refine ⟨a', ⟨rfl, ?_⟩, hr⟩
      rintro ⟨c', hc'⟩
      obtain ⟨c, h1, _⟩ := ih hall' dl _ _ _ hc' hr.symm
      exact hno ⟨c, h1⟩
  | bos =>
    intro dl a b a' h hr
    simp only [Re.M] at h ⊢
    exact ⟨a', ⟨rfl, hr.1 ▸ h.2⟩, h.1 ▸ hr⟩
  | eos =>
    intro dl a b a' h hr
    simp only [Re.M] at h ⊢
    exact ⟨a', ⟨rfl, (atEos_ceq hr.2) ▸ h.2⟩, h.1 ▸ hr⟩
  | flags s i r ih =>
    intro dl a b a' h hr
    simp only [Re.allCi, Bool.and_eq_true] at hall
    simp only [Re.M] at h ⊢
    have hi : i = true := hall.1
    subst hi
    exact ih hall.2 s _ _ _ h hr

end WcModel

import WcModel.Proofs.PassPrint
/-
  PassRead, part 1: the one-token facts for the spellings the printer `PP.print` never writes
  (fnmatch mode, Unix rules, EXTMATCH: `PP.FnX cfg`).

    * a bare literal character that the printer would have escaped: `! + @` not followed by `(`,
      `(` anywhere, `|` and `)` at top level                                  (`run_bare`)
    * an escaped ordinary character `\a`, `\/`                                 (`run_esc`)
    * `\.` (two iterations: the escape is dropped, the dot is read again)      (`run_esc_dot`)
    * a run of stars `**…*`: ONE item `(?=.)[(?![.])].*?` at the start of the name (`dropStars`),
      one `.*?` per star elsewhere                                             (`run_stars`)

  All facts are stated in the style the inductions of `PassRead.lean` consume (`RunR` for the
  top-level loop, `RunE` for the loop inside a group): "reading `w ++ rest` consumes exactly `w`,
  spends at most `|w|` iterations and pushes the items `x as`".
-/
namespace WcModel
namespace PR
open PP

/-- top-level loop: the word `w` is consumed, at most `|w|` iterations, the items `x as` pushed.
    `ps.globstar = false` is only needed (and only asked) at the very start of the name. -/
def RunR (cfg : Cfg) (w : List Char) (x : Bool → List Item) (side : List Char → Prop) : Prop :=
  ∀ (as : Bool) (k F i : Nat) (rest : List Char) (ps : PS) (l : List Item), Inv ps as false k →
    (as = true → ps.globstar = false) → side rest → w.length ≤ F →
    ∃ ps' F', F - w.length ≤ F' ∧ Inv ps' false false k ∧
      rootLoop cfg F ⟨i, w ++ rest⟩ ps l = rootLoop cfg F' ⟨i + w.length, rest⟩ ps' ((x as).reverse ++ l)

/-- the loop inside a group -/
def RunE (cfg : Cfg) (w : List Char) (x : Bool → List Item) (side : List Char → Prop) : Prop :=
  ∀ (as : Bool) (k F i : Nat) (rest : List Char) (ps : PS) (l : List Item) (a n : Bool), Inv ps as true k →
    side rest → w.length ≤ F →
    ∃ ps' F', F - w.length ≤ F' ∧ Inv ps' false true k ∧
      extLoop cfg F ⟨i, w ++ rest⟩ ps l a n = extLoop cfg F' ⟨i + w.length, rest⟩ ps' ((x as).reverse ++ l) a n

theorem RunR_of_step {cfg : Cfg} {w : List Char} {x : Bool → Item} {side : List Char → Prop}
    (hs : Step cfg w x side) (hw : 1 ≤ w.length) : RunR cfg w (fun as => [x as]) side := by
  intro as k F i rest ps l hi _ hsd hF
  obtain ⟨F', rfl⟩ : ∃ F', F = F' + 1 := ⟨F - 1, by omega⟩
  obtain ⟨ps', hi', e⟩ := (hs as false k F' i rest ps l hi hsd).1
  exact ⟨ps', F', by omega, hi', by rw [e]; rfl⟩

theorem RunE_of_step {cfg : Cfg} {w : List Char} {x : Bool → Item} {side : List Char → Prop}
    (hs : Step cfg w x side) (hw : 1 ≤ w.length) : RunE cfg w (fun as => [x as]) side := by
  intro as k F i rest ps l a n hi hsd hF
  obtain ⟨F', rfl⟩ : ∃ F', F = F' + 1 := ⟨F - 1, by omega⟩
  obtain ⟨ps', hi', e⟩ := (hs as true k F' i rest ps l hi hsd).2 a n
  exact ⟨ps', F', by omega, hi', by rw [e]; rfl⟩

/-! ### bare literal characters -/

/-- a bare character that is not `* ? [ \` is a literal at top level … -/
theorem tok_bare_root (cfg : Cfg) (h : FnX cfg) (c : Char) (c1 : c ≠ '*') (c2 : c ≠ '?') (c3 : c ≠ '[')
    (c4 : c ≠ '\\') (it : It) (ps : PS) (l : List Item) :
    HF.rootPlain cfg c it ps l = (it, ps.updateDirState, litItem c :: l) := by
  have hwin : cfg.win = false := by simp [Cfg.win, h.unix]
  by_cases hd : c = '.'
  · subst hd
    simp [HF.rootPlain, handleDot_fn cfg h.pathname, litItem, litRe']
  · by_cases hs : c = '/'
    · subst hs
      simp [HF.rootPlain, h.pathname, litItem, litRe', hwin]
    · simp [HF.rootPlain, hd, hs, c1, c2, c3, c4, litItem, litRe']

/-- … and, when it is neither `|` nor `)`, inside a group -/
theorem tok_bare_ext (cfg : Cfg) (h : FnX cfg) (c : Char) (c1 : c ≠ '*') (c2 : c ≠ '?') (c3 : c ≠ '[')
    (c4 : c ≠ '\\') (c8 : c ≠ '|') (c10 : c ≠ ')') (it : It) (ps : PS) (l : List Item)
    (a n : Bool) {as il : Bool} {k : Nat} (hi : Inv ps as il k) :
    ∃ ps' as', Inv ps' as' il k ∧ HF.extPlain cfg c it ps l a n = (ps', it, litItem c :: l, true) := by
  have hwin : cfg.win = false := by simp [Cfg.win, h.unix]
  by_cases hd : c = '.'
  · subst hd
    refine ⟨_, false, ?_, by simp [HF.extPlain, handleDot_fn cfg h.pathname, litItem, litRe']; rfl⟩
    split
    · exact ⟨rfl, rfl, hi.inList, hi.invExt, hi.mb, hi.emb⟩
    · rename_i hn
      exact ⟨by simpa using hn, hi.dirStart, hi.inList, hi.invExt, hi.mb, hi.emb⟩
  · by_cases hs : c = '/'
    · subst hs
      exact ⟨_, _, hi, by simp [HF.extPlain, restrictExtendedSlash, h.pathname, litItem, litRe', hwin]⟩
    · exact ⟨_, _, hi, by simp [HF.extPlain, hd, hs, c1, c2, c3, c4, c8, c10, litItem, litRe']⟩

/-- the side condition of a bare literal: an extended-group opener must not stand before `(` -/
def bareSide (c : Char) (rest : List Char) : Prop := c ∈ extTypes → rest.head? ≠ some '('

theorem run_bare_root (cfg : Cfg) (h : FnX cfg) (c : Char) (c1 : c ≠ '*') (c2 : c ≠ '?') (c3 : c ≠ '[')
    (c4 : c ≠ '\\') : RunR cfg [c] (fun _ => [litItem c]) (bareSide c) := by
  intro as k F i rest ps l hi _ hsd hF
  obtain ⟨F', rfl⟩ : ∃ F', F = F' + 1 := ⟨F - 1, by simp at hF; omega⟩
  obtain ⟨ps1, hi1, e⟩ := rootTok_plain cfg c ⟨i+1, rest⟩ ps l hi hsd
  refine ⟨ps1.updateDirState, F', by simp, hi1.upd, ?_⟩
  show rootLoop cfg (F'+1) ⟨i, c :: rest⟩ ps l = _
  rw [rootLoop_cons, e, tok_bare_root cfg h c c1 c2 c3 c4]
  rfl

theorem run_bare_ext (cfg : Cfg) (h : FnX cfg) (c : Char) (c1 : c ≠ '*') (c2 : c ≠ '?') (c3 : c ≠ '[')
    (c4 : c ≠ '\\') (c8 : c ≠ '|') (c10 : c ≠ ')') : RunE cfg [c] (fun _ => [litItem c]) (bareSide c) := by
  intro as k F i rest ps l a n hi hsd hF
  obtain ⟨F', rfl⟩ : ∃ F', F = F' + 1 := ⟨F - 1, by simp at hF; omega⟩
  obtain ⟨ps1, hi1, e⟩ := extTok_plain' cfg F' c ⟨i+1, rest⟩ ps l a n hi hsd
  obtain ⟨ps2, as2, hi2, e2⟩ := tok_bare_ext cfg h c c1 c2 c3 c4 c8 c10 ⟨i+1, rest⟩ ps1 l a n hi1
  refine ⟨ps2.updateDirState, F', by simp, hi2.upd, ?_⟩
  show extLoop cfg (F'+1) ⟨i, c :: rest⟩ ps l a n = _
  rw [extLoop_cons, e, e2, extCont_ne _ _ _ _ _ _ _ _ c10]
  rfl

/-! ### escaped characters -/

/-- `\c` for any `c` but the dot -/
theorem tok_esc' (cfg : Cfg) (h : FnX cfg) (c : Char) (hd : c ≠ '.') (i : Nat) (rest : List Char) (ps : PS)
    (l : List Item) (a n : Bool) (hds : ps.dirStart = false) :
    HF.rootPlain cfg '\\' ⟨i, c :: rest⟩ ps l = (⟨i + 1, rest⟩, ps.updateDirState, litItem c :: l) ∧
    HF.extPlain cfg '\\' ⟨i, c :: rest⟩ ps l a n = (ps, ⟨i + 1, rest⟩, litItem c :: l, true) := by
  have hwin : cfg.win = false := by simp [Cfg.win, h.unix]
  have href : references cfg ps ⟨i, c :: rest⟩ = .val (litRe' c) ⟨i + 1, rest⟩ ps := by
    unfold references
    by_cases hb : c = '\\'
    · subst hb; simp [It.next, h.bslash, h.unix, litRe']
    · by_cases hs : c = '/'
      · subst hs; simp [It.next, h.pathname, litRe', hwin]
      · simp [It.next, hb, hs, hd, litRe']
  constructor
  · simp [HF.rootPlain, href, hds, litItem]
  · simp [HF.extPlain, href, litItem]

theorem step_esc' (cfg : Cfg) (h : FnX cfg) (c : Char) (hd : c ≠ '.') :
    Step cfg ['\\', c] (fun _ => litItem c) (fun _ => True) := by
  intro as il k F i rest ps l hi _
  constructor
  · obtain ⟨ps1, hi1, e⟩ := rootTok_plain cfg '\\' ⟨i+1, c :: rest⟩ ps l hi (fun hx => absurd hx bs_not_ext')
    refine ⟨ps1.updateDirState, hi1.upd, ?_⟩
    show rootLoop cfg (F+1) ⟨i, '\\' :: c :: rest⟩ ps l = _
    rw [rootLoop_cons, e, (tok_esc' cfg h c hd _ _ ps1 l false false hi1.dirStart).1]
    rfl
  · intro a n
    obtain ⟨ps1, hi1, e⟩ := extTok_plain' cfg F '\\' ⟨i+1, c :: rest⟩ ps l a n hi (fun hx => absurd hx bs_not_ext')
    refine ⟨ps1.updateDirState, hi1.upd, ?_⟩
    show extLoop cfg (F+1) ⟨i, '\\' :: c :: rest⟩ ps l a n = _
    rw [extLoop_cons, e, (tok_esc' cfg h c hd _ _ ps1 l a n hi1.dirStart).2, extCont_ne _ _ _ _ _ _ _ _ (by decide)]
    rfl

/-- the first of the two iterations spent on `\.`: the backslash is dropped, nothing is pushed,
    the state is not touched -/
theorem esc_dot_first (cfg : Cfg) (F i : Nat) (rest : List Char) (ps : PS) (l : List Item) (a n : Bool)
    {as il : Bool} {k : Nat} (hi : Inv ps as il k) :
    (∃ ps1, Inv ps1 as il k ∧ ps1.globstar = ps.globstar ∧
      rootLoop cfg (F+1) ⟨i, '\\' :: '.' :: rest⟩ ps l = rootLoop cfg F ⟨i+1, '.' :: rest⟩ ps1 l) ∧
    (∃ ps1, Inv ps1 as il k ∧
      extLoop cfg (F+1) ⟨i, '\\' :: '.' :: rest⟩ ps l a n = extLoop cfg F ⟨i+1, '.' :: rest⟩ ps1 l a n) := by
  have href : ∀ ps1 : PS, references cfg ps1 ⟨i+1, '.' :: rest⟩ = .dot ⟨i+1, '.' :: rest⟩ := by
    intro ps1; simp [references, It.next]
  constructor
  · have hx : ¬ ((cfg.extend && decide ('\\' ∈ extTypes)) = true) := by simp [bs_not_ext']
    refine ⟨ps, hi, rfl, ?_⟩
    rw [rootLoop_cons]
    unfold HF.rootTok
    rw [if_neg hx]
    simp [HF.rootPlain, href]
  · obtain ⟨ps1, hi1, e⟩ := extTok_plain' cfg F '\\' ⟨i+1, '.' :: rest⟩ ps l a n hi (fun hx => absurd hx bs_not_ext')
    refine ⟨ps1, hi1, ?_⟩
    rw [extLoop_cons, e]
    simp [HF.extPlain, href, HF.extCont]

theorem dot_not_esc : '.' ∉ escSet := by decide

theorem run_esc_dot_root (cfg : Cfg) (h : FnX cfg) :
    RunR cfg ['\\', '.'] (fun _ => [litItem '.']) (fun _ => True) := by
  intro as k F i rest ps l hi _ _ hF
  obtain ⟨F', rfl⟩ : ∃ F', F = F' + 2 := ⟨F - 2, by simp at hF; omega⟩
  obtain ⟨ps1, hi1, _, e1⟩ := (esc_dot_first cfg (F'+1) i rest ps l false false hi).1
  obtain ⟨ps2, hi2, e2⟩ := (step_lit cfg h '.' dot_not_esc as false k F' (i+1) rest ps1 l hi1 trivial).1
  refine ⟨ps2, F', by simp, hi2, ?_⟩
  show rootLoop cfg (F'+1+1) ⟨i, '\\' :: '.' :: rest⟩ ps l = _
  rw [e1]
  exact e2

theorem run_esc_dot_ext (cfg : Cfg) (h : FnX cfg) :
    RunE cfg ['\\', '.'] (fun _ => [litItem '.']) (fun _ => True) := by
  intro as k F i rest ps l a n hi _ hF
  obtain ⟨F', rfl⟩ : ∃ F', F = F' + 2 := ⟨F - 2, by simp at hF; omega⟩
  obtain ⟨ps1, hi1, e1⟩ := (esc_dot_first cfg (F'+1) i rest ps l a n hi).2
  obtain ⟨ps2, hi2, e2⟩ := (step_lit cfg h '.' dot_not_esc as true k F' (i+1) rest ps1 l hi1 trivial).2 a n
  refine ⟨ps2, F', by simp, hi2, ?_⟩
  show extLoop cfg (F'+1+1) ⟨i, '\\' :: '.' :: rest⟩ ps l a n = _
  rw [e1]
  exact e2

/-- an escaped character, whichever it is -/
theorem run_esc_root (cfg : Cfg) (h : FnX cfg) (c : Char) :
    RunR cfg ['\\', c] (fun _ => [litItem c]) (fun _ => True) := by
  by_cases hd : c = '.'
  · subst hd; exact run_esc_dot_root cfg h
  · exact RunR_of_step (step_esc' cfg h c hd) (by simp)

theorem run_esc_ext (cfg : Cfg) (h : FnX cfg) (c : Char) :
    RunE cfg ['\\', c] (fun _ => [litItem c]) (fun _ => True) := by
  by_cases hd : c = '.'
  · subst hd; exact run_esc_dot_ext cfg h
  · exact RunE_of_step (step_esc' cfg h c hd) (by simp)

/-! ### runs of stars -/

/-- `n` stars -/
def stars (n : Nat) : List Char := List.replicate n '*'

/-- what may follow a (maximal) run of stars: not `(`; and a further star only as the opener
    of a `*(…)` group -/
def starSide (rest : List Char) : Prop :=
  rest.head? ≠ some '(' ∧ (rest.head? ≠ some '*' ∨ ∃ r, rest = '*' :: '(' :: r)

theorem dropWhileCount_stars (n : Nat) : ∀ (rest : List Char) (i : Nat), rest.head? ≠ some '*' →
    dropWhileCount '*' (stars n ++ rest) i = (i + n, rest) := by
  induction n with
  | zero =>
    intro rest i hr
    cases rest with
    | nil => simp [stars, dropWhileCount]
    | cons d r =>
      have : d ≠ '*' := by simpa using hr
      simp [stars, dropWhileCount, this]
  | succ n ih =>
    intro rest i hr
    have : stars (n+1) ++ rest = '*' :: (stars n ++ rest) := by simp [stars, List.replicate_succ]
    rw [this, dropWhileCount]
    simp only [if_true]
    rw [ih rest (i+1) hr]
    congr 1; omega

theorem stars_succ (n : Nat) : stars (n+1) = '*' :: stars n := by simp [stars, List.replicate_succ]

theorem stars_succ' (n : Nat) : stars (n+1) = stars n ++ ['*'] := by
  simp [stars, List.replicate_succ']

theorem stars_length (n : Nat) : (stars n).length = n := by simp [stars]

/-- `dropStars` skips the rest of a maximal run -/
theorem dropStars_run (n i : Nat) (rest : List Char) (hs : starSide rest) :
    dropStars true ⟨i, stars n ++ rest⟩ = ⟨i + n, rest⟩ := by
  obtain ⟨h1, h2⟩ := hs
  rcases h2 with h2 | ⟨r, rfl⟩
  · unfold dropStars
    simp only [dropWhileCount_stars n rest i h2]
    have : ¬ (rest.head? = some '(') := h1
    simp [this]
  · -- the run goes on with the opener of a `*(` group: one star is put back
    have e : stars n ++ '*' :: '(' :: r = stars (n+1) ++ '(' :: r := by
      rw [stars_succ']; simp
    unfold dropStars
    simp only [e, dropWhileCount_stars (n+1) ('(' :: r) i (by simp)]
    have hgt : i + (n + 1) > i := by omega
    simp [hgt]

/-- a star at the start of the name, followed by the rest of its run -/
theorem handleStar_start (cfg : Cfg) (h : FnX cfg) (ps : PS) (i n : Nat) (rest : List Char) (cur : List Item)
    (ha : ps.afterStart = true) (hg : ps.inList = true ∨ ps.globstar = false) (hs : starSide rest) :
    handleStar cfg ps ⟨i, stars n ++ rest⟩ cur =
      (ps.resetDirTrack, ⟨i + n, rest⟩, .re (starRe cfg true) :: cur) := by
  have hn : cfg.needChar = Frag.needChar := by simp [Cfg.needChar, h.pathname]
  rw [handleStar_eq]
  have hsel : hsSel cfg ps ⟨i, stars n ++ rest⟩ (cfg.pathname && cfg.globstarCapture) =
      (false, false, ⟨i, stars n ++ rest⟩, ps) := by
    unfold hsSel
    have : (ps.afterStart && ps.globstar && !ps.inList) = false := by
      rcases hg with hg | hg <;> simp [hg]
    simp [this, h.pathname]
  rw [hsel]
  unfold hsBody hsStar
  simp only [h.pathname, Bool.false_eq_true, ite_false, Bool.not_false, ite_true, hn, ha, h.extend,
    dropStars_run n i rest hs]
  simp [starRe, PP.guard]
  split <;> rfl

/-- a star elsewhere: nothing is skipped -/
theorem handleStar_mid (cfg : Cfg) (h : FnX cfg) (ps : PS) (it : It) (cur : List Item)
    (ha : ps.afterStart = false) :
    handleStar cfg ps it cur = (ps.resetDirTrack, it, .re Frag.star :: cur) := by
  rw [handleStar_eq]
  have hsel : hsSel cfg ps it (cfg.pathname && cfg.globstarCapture) = (false, false, it, ps) := by
    unfold hsSel
    simp [ha, h.pathname]
  rw [hsel]
  unfold hsBody hsStar
  simp [h.pathname, ha]

/-- the items pushed for a run of `n+1` stars -/
def starItems (cfg : Cfg) (as : Bool) (n : Nat) : List Item :=
  if as then [.re (starRe cfg true)] else List.replicate (n+1) (.re Frag.star)

theorem replicate_reverse_append {α : Type} (x : α) (n : Nat) (l : List α) :
    (List.replicate (n+1) x).reverse ++ l = (List.replicate n x).reverse ++ (x :: l) := by
  simp only [List.reverse_replicate]
  rw [List.replicate_succ', List.append_assoc]
  rfl

/-- one star that is not at the start of the name, at top level -/
theorem star_mid_root (cfg : Cfg) (h : FnX cfg) (F i : Nat) (rest : List Char) (ps : PS) (l : List Item)
    {k : Nat} (hi : Inv ps false false k) (hn : rest.head? ≠ some '(') :
    ∃ ps', Inv ps' false false k ∧
      rootLoop cfg (F+1) ⟨i, '*' :: rest⟩ ps l = rootLoop cfg F ⟨i+1, rest⟩ ps' (.re Frag.star :: l) := by
  obtain ⟨ps1, hi1, e⟩ := rootTok_plain cfg '*' ⟨i+1, rest⟩ ps l hi (fun _ => hn)
  refine ⟨ps1.resetDirTrack.updateDirState, hi1.reset.upd, ?_⟩
  rw [rootLoop_cons, e]
  simp [HF.rootPlain, handleStar_mid cfg h ps1 _ l hi1.afterStart]

theorem star_mid_ext (cfg : Cfg) (h : FnX cfg) (F i : Nat) (rest : List Char) (ps : PS) (l : List Item)
    (a n : Bool) {k : Nat} (hi : Inv ps false true k) (hn : rest.head? ≠ some '(') :
    ∃ ps', Inv ps' false true k ∧
      extLoop cfg (F+1) ⟨i, '*' :: rest⟩ ps l a n = extLoop cfg F ⟨i+1, rest⟩ ps' (.re Frag.star :: l) a n := by
  obtain ⟨ps1, hi1, e⟩ := extTok_plain' cfg F '*' ⟨i+1, rest⟩ ps l a n hi (fun _ => hn)
  refine ⟨ps1.resetDirTrack.updateDirState, hi1.reset.upd, ?_⟩
  rw [extLoop_cons, e]
  simp only [HF.extPlain, if_true, handleStar_mid cfg h ps1 _ l hi1.afterStart]
  rw [extCont_ne _ _ _ _ _ _ _ _ (by decide)]

theorem stars_head (n : Nat) (rest : List Char) (hs : starSide rest) :
    (stars n ++ rest).head? ≠ some '(' := by
  cases n with
  | zero => simpa [stars] using hs.1
  | succ n => rw [stars_succ]; simp

/-- a run of stars away from the start of the name: one `.*?` each -/
theorem stars_mid_root (cfg : Cfg) (h : FnX cfg) : ∀ (n F i : Nat) (rest : List Char) (ps : PS) (l : List Item)
    {k : Nat}, Inv ps false false k → starSide rest → n ≤ F →
    ∃ ps', Inv ps' false false k ∧
      rootLoop cfg F ⟨i, stars n ++ rest⟩ ps l =
        rootLoop cfg (F - n) ⟨i + n, rest⟩ ps' ((List.replicate n (.re Frag.star)).reverse ++ l) := by
  intro n
  induction n with
  | zero => intro F i rest ps l k hi _ _; exact ⟨ps, hi, by simp [stars]⟩
  | succ n ih =>
    intro F i rest ps l k hi hs hF
    obtain ⟨F', rfl⟩ : ∃ F', F = F' + 1 := ⟨F - 1, by omega⟩
    rw [stars_succ]
    obtain ⟨ps1, hi1, e1⟩ := star_mid_root cfg h F' i (stars n ++ rest) ps l hi (stars_head n rest hs)
    obtain ⟨ps2, hi2, e2⟩ := ih F' (i+1) rest ps1 (.re Frag.star :: l) hi1 hs (by omega)
    refine ⟨ps2, hi2, ?_⟩
    show rootLoop cfg (F'+1) ⟨i, '*' :: (stars n ++ rest)⟩ ps l = _
    rw [e1, e2, replicate_reverse_append]
    have a1 : F' + 1 - (n + 1) = F' - n := by omega
    have a2 : i + 1 + n = i + (n + 1) := by omega
    rw [a1, a2]

theorem stars_mid_ext (cfg : Cfg) (h : FnX cfg) (a nn : Bool) : ∀ (n F i : Nat) (rest : List Char) (ps : PS)
    (l : List Item) {k : Nat}, Inv ps false true k → starSide rest → n ≤ F →
    ∃ ps', Inv ps' false true k ∧
      extLoop cfg F ⟨i, stars n ++ rest⟩ ps l a nn =
        extLoop cfg (F - n) ⟨i + n, rest⟩ ps' ((List.replicate n (.re Frag.star)).reverse ++ l) a nn := by
  intro n
  induction n with
  | zero => intro F i rest ps l k hi _ _; exact ⟨ps, hi, by simp [stars]⟩
  | succ n ih =>
    intro F i rest ps l k hi hs hF
    obtain ⟨F', rfl⟩ : ∃ F', F = F' + 1 := ⟨F - 1, by omega⟩
    rw [stars_succ]
    obtain ⟨ps1, hi1, e1⟩ := star_mid_ext cfg h F' i (stars n ++ rest) ps l a nn hi (stars_head n rest hs)
    obtain ⟨ps2, hi2, e2⟩ := ih F' (i+1) rest ps1 (.re Frag.star :: l) hi1 hs (by omega)
    refine ⟨ps2, hi2, ?_⟩
    show extLoop cfg (F'+1) ⟨i, '*' :: (stars n ++ rest)⟩ ps l a nn = _
    rw [e1, e2, replicate_reverse_append]
    have a1 : F' + 1 - (n + 1) = F' - n := by omega
    have a2 : i + 1 + n = i + (n + 1) := by omega
    rw [a1, a2]

theorem stars_head_star (n : Nat) (rest : List Char) (hs : starSide rest) :
    (stars n ++ rest).head? ≠ some '(' := stars_head n rest hs

/-- `rootTok_plain`, keeping track of `globstar` (a failed `parse_extend` attempt does not write it) -/
theorem rootTok_plainG (cfg : Cfg) (c : Char) (it : It) (ps : PS) (cur : List Item) {as il : Bool} {k : Nat}
    (hi : Inv ps as il k) (hn : c ∈ extTypes → it.rest.head? ≠ some '(') :
    ∃ ps1, Inv ps1 as il k ∧ ps1.globstar = ps.globstar ∧
      HF.rootTok cfg c it ps cur = HF.rootPlain cfg c it ps1 cur := by
  unfold HF.rootTok
  split
  · rename_i hx
    simp only [Bool.and_eq_true, decide_eq_true_eq] at hx
    have : 2 * it.rest.length + 8 = (2 * it.rest.length + 7) + 1 := rfl
    rw [this, parseExtend_noparen _ _ _ _ _ _ _ (hn hx.2)]
    refine ⟨_, hi.peFail c true, ?_, by simp⟩
    unfold HF.peFail HF.peFinish HF.peEnter
    cases ps.inList <;> cases ps.invNest <;> rfl
  · exact ⟨ps, hi, rfl, rfl⟩

/-- **a run of `n+1` stars**, top level -/
theorem run_stars_root (cfg : Cfg) (h : FnX cfg) (n : Nat) :
    RunR cfg (stars (n+1)) (fun as => starItems cfg as n) starSide := by
  intro as k F i rest ps l hi hg hs hF
  rw [stars_length] at hF
  cases as with
  | true =>
    obtain ⟨F', rfl⟩ : ∃ F', F = F' + 1 := ⟨F - 1, by omega⟩
    obtain ⟨ps1, hi1, hgs, e⟩ := rootTok_plainG cfg '*' ⟨i+1, stars n ++ rest⟩ ps l hi (fun _ => stars_head n rest hs)
    refine ⟨ps1.resetDirTrack.updateDirState, F', by rw [stars_length]; omega, hi1.reset.upd, ?_⟩
    rw [stars_succ]
    show rootLoop cfg (F'+1) ⟨i, '*' :: (stars n ++ rest)⟩ ps l = _
    have hg1 : ps1.inList = true ∨ ps1.globstar = false := Or.inr (hgs.trans (hg rfl))
    rw [rootLoop_cons, e]
    simp only [HF.rootPlain, show ('*' : Char) ≠ '.' by decide, if_false, if_true,
      handleStar_start cfg h ps1 (i+1) n rest l hi1.afterStart hg1 hs, starItems]
    have : i + 1 + n = i + ('*' :: stars n).length := by simp [stars_length]; omega
    rw [this]; rfl
  | false =>
    obtain ⟨ps', hi', e⟩ := stars_mid_root cfg h (n+1) F i rest ps l hi hs hF
    exact ⟨ps', F - (n+1), by rw [stars_length]; omega, hi', by rw [e, stars_length]; rfl⟩

/-- **a run of `n+1` stars**, inside a group -/
theorem run_stars_ext (cfg : Cfg) (h : FnX cfg) (n : Nat) :
    RunE cfg (stars (n+1)) (fun as => starItems cfg as n) starSide := by
  intro as k F i rest ps l a nn hi hs hF
  rw [stars_length] at hF
  cases as with
  | true =>
    obtain ⟨F', rfl⟩ : ∃ F', F = F' + 1 := ⟨F - 1, by omega⟩
    obtain ⟨ps1, hi1, e⟩ := extTok_plain' cfg F' '*' ⟨i+1, stars n ++ rest⟩ ps l a nn hi
      (fun _ => stars_head n rest hs)
    refine ⟨ps1.resetDirTrack.updateDirState, F', by rw [stars_length]; omega, hi1.reset.upd, ?_⟩
    rw [stars_succ]
    show extLoop cfg (F'+1) ⟨i, '*' :: (stars n ++ rest)⟩ ps l a nn = _
    rw [extLoop_cons, e]
    simp only [HF.extPlain, if_true,
      handleStar_start cfg h ps1 (i+1) n rest l hi1.afterStart (Or.inl hi1.inList) hs, starItems]
    rw [extCont_ne _ _ _ _ _ _ _ _ (by decide)]
    have : i + 1 + n = i + ('*' :: stars n).length := by simp [stars_length]; omega
    rw [this]; rfl
  | false =>
    obtain ⟨ps', hi', e⟩ := stars_mid_ext cfg h a nn (n+1) F i rest ps l hi hs hF
    exact ⟨ps', F - (n+1), by rw [stars_length]; omega, hi', by rw [e, stars_length]; rfl⟩

end PR
end WcModel

import WcModel.Proofs.GlobDeep
/-
  C05_partial: the walker below a directory returns exactly what the part list `Denotes`
  there — for every tree and every part list, under the hypotheses that exclude the known
  defects and nothing else:

  * `SegAgree` — the per-part matcher and the segment language (full match) agree on the
    names the tree offers.  Since the D14 repair (`fullmatch` instead of `re.match`, which
    accepted `name + "\n"`) this is a THEOREM, `segAgree_all`, for every tree and part list;
    the hypothesis is kept in the lemmas below so that they do not depend on that fact;
  * the walk starts in a directory (false for `f/.`-style patterns: D17);
  * `WFParts` — only the last part may lack `dir_only` (true of every `_GlobSplit` output);
  * no FOLLOW / `***`, fuel above the tree height (then the fuel is immaterial, C06).
-/
namespace WcModel

/-- only the last part of a split pattern can be a non-directory part -/
def WFParts : List GPart → Prop
  | [] => True
  | [_] => True
  | p :: q :: r => p.dirOnly = true ∧ WFParts (q :: r)

/-- the matcher the walker applies and the segment language agree on every offered name -/
def SegAgree (fs : FS) (w : WalkCfg) (parts : List GPart) : Prop :=
  ∀ p ∈ parts, ∀ (d : Dir) (o : Offer), o ∈ offered fs d →
    (getMatcher w.caseSensitive (some p.pat)).test o.name = segOK w.caseSensitive p.pat o.name

/-- **since the D14 repair `SegAgree` holds for every tree, configuration and part list**: the
    walker applies a compiled part with `fullmatch`, which is the segment language itself -/
theorem segAgree_all (fs : FS) (w : WalkCfg) (parts : List GPart) : SegAgree fs w parts := by
  intro p _ d o _
  cases p.pat with
  | lit s => rfl
  | re src r => rfl

theorem FS.locIsDir_iff {fs : FS} {l : Loc} : fs.locIsDir l = true ↔ ∃ ds, fs.scandir l = some ds := by
  unfold FS.locIsDir FS.scandir
  cases l with
  | none => simp [FS.entries]
  | some rp =>
    cases h : fs.entries (some rp) with
    | none => simp [h]
    | some es => simp [h]

theorem dropLast_isDir {fs : FS} {rp : RPath} (h : fs.locIsDir (some rp) = true) :
    fs.locIsDir (some rp.dropLast) = true := by
  unfold FS.locIsDir at h ⊢
  cases he : fs.entries (some rp) with
  | none => simp [he] at h
  | some es =>
    obtain ⟨rp', hrp, hg⟩ := FS.entries_some he
    cases hrp
    rcases List.eq_nil_or_concat rp with rfl | ⟨q, x, hqx⟩
    · exact h
    · have hrp : rp = q ++ [x] := by simpa using hqx
      subst hrp
      have hdl : (q ++ [x]).dropLast = q := by simp
      rw [hdl]
      rw [Node.get_append] at hg
      cases hq : fs.top.get q with
      | none => simp [hq] at hg
      | some nd =>
        simp only [hq, Option.bind_some] at hg
        obtain ⟨es', rfl, _⟩ := Node.get_one hg
        simp [FS.entries, hq]

/-- a directory an offer leads to is a directory location -/
theorem offered_dir {fs : FS} {d : Dir} {o : Offer} (ho : o ∈ offered fs d) (hd : o.isDir = true) :
    fs.locIsDir o.loc = true := by
  unfold offered at ho
  split at ho
  · rename_i hdir
    simp only [List.cons_append, List.nil_append, List.mem_cons] at ho
    cases hl : d.loc with
    | none => simp [hl, FS.locIsDir, FS.entries] at hdir
    | some rp =>
      rw [hl] at hdir
      have hent : ∃ es, fs.entries (some rp) = some es := by
        unfold FS.locIsDir at hdir
        cases h : fs.entries (some rp) with
        | none => simp [h] at hdir
        | some es => exact ⟨es, rfl⟩
      obtain ⟨es, hes⟩ := hent
      rcases ho with rfl | rfl | ho
      · simp only [hl, FS.step, hes, dot]
        simpa using hdir
      · simp only [hl, FS.step, hes, dot, dotdot]
        simp
        exact dropLast_isDir hdir
      · unfold entriesOf at ho
        cases hsc : fs.scandir d.loc with
        | none => simp [hsc] at ho
        | some ds =>
          simp only [hsc, List.mem_map] at ho
          obtain ⟨x, hx, rfl⟩ := ho
          obtain ⟨rp', es', hrp, _, hds⟩ := FS.scandir_some hsc
          subst hds
          obtain ⟨⟨n, nd⟩, _, rfl⟩ := List.mem_map.1 hx
          simpa [FS.nodeIsDir] using hd
  · cases ho

theorem entries_dir {fs : FS} {d : Dir} {o : Offer} (ho : o ∈ entriesOf fs d) (hd : o.isDir = true) :
    fs.locIsDir o.loc = true := by
  have hdir : fs.locIsDir d.loc = true := by
    unfold entriesOf at ho
    cases hsc : fs.scandir d.loc with
    | none => simp [hsc] at ho
    | some ds => exact FS.locIsDir_iff.2 ⟨ds, hsc⟩
  apply offered_dir (d := d) _ hd
  unfold offered
  simp only [hdir, if_true]
  exact List.mem_append_right _ ho

theorem below_dir {fs : FS} {w : WalkCfg} {long : Bool} {d d' : Dir} (h : Below fs w long d d')
    (hd : fs.locIsDir d.loc = true) : fs.locIsDir d'.loc = true := by
  induction h with
  | here => exact hd
  | down _ ho hdesc _ =>
    simp only [descends, Bool.and_eq_true] at hdesc
    exact entries_dir ho hdesc.1.1

/-- the one-level listing with a segment matcher, in a directory: the offered names the segment
    accepts (directories only when asked) -/
theorem shallow_seg_iff (w : WalkCfg) (fs : FS) (absPat : Bool) (pat : PPat) (dirOnly gf : Bool) (d : Dir) (v : Y)
    (hdir : fs.locIsDir d.loc = true)
    (hag : ∀ o ∈ offered fs d, (getMatcher w.caseSensitive (some pat)).test o.name = segOK w.caseSensitive pat o.name) :
    v ∈ shallow w fs absPat (getMatcher w.caseSensitive (some pat)) dirOnly gf d ↔
      ∃ o ∈ offered fs d, segOK w.caseSensitive pat o.name = true ∧ (dirOnly = true → o.isDir = true) ∧ v = o.toY d := by
  obtain ⟨ds, hsc⟩ := FS.locIsDir_iff.1 hdir
  have hsome : (getMatcher w.caseSensitive (some pat)).isNone = false := by cases pat <;> rfl
  have hoff : offered fs d = [⟨dot, true, fs.step d.loc dot, false⟩, ⟨dotdot, true, fs.step d.loc dotdot, false⟩] ++
      ds.map (fun e => ⟨e.name, e.isDir, e.loc, e.isLink⟩) := by
    simp [offered, hdir, entriesOf, hsc]
  rw [mem_shallow]
  constructor
  · rintro ⟨e, he, hv⟩
    unfold iterDir at he
    simp only [hsc, List.mem_append, List.mem_map, List.mem_filter, List.mem_cons, List.mem_nil_iff, or_false] at he
    rcases he with (rfl | rfl) | ⟨x, ⟨hx, hf⟩, rfl⟩
    · simp only [yieldOf, if_true] at hv
      split at hv
      · rename_i hm
        simp at hv; subst hv
        refine ⟨⟨dot, true, fs.step d.loc dot, false⟩, by rw [hoff]; simp, ?_, fun _ => rfl, rfl⟩
        rw [← hag _ (by rw [hoff]; simp)]; exact hm
      · cases hv
    · simp only [yieldOf, if_true] at hv
      split at hv
      · rename_i hm
        simp at hv; subst hv
        refine ⟨⟨dotdot, true, fs.step d.loc dotdot, false⟩, by rw [hoff]; simp, ?_, fun _ => rfl, rfl⟩
        rw [← hag _ (by rw [hoff]; simp)]; exact hm
      · cases hv
    · simp only [yieldOf, Bool.false_eq_true, if_false, hsome, Bool.false_and, Bool.false_or] at hv
      split at hv
      · rename_i hm
        simp at hv; subst hv
        have hmem : (⟨x.name, x.isDir, x.loc, x.isLink⟩ : Offer) ∈ offered fs d := by
          rw [hoff]; exact List.mem_append_right _ (List.mem_map.2 ⟨x, hx, rfl⟩)
        refine ⟨⟨x.name, x.isDir, x.loc, x.isLink⟩, hmem, ?_, ?_, rfl⟩
        · rw [← hag _ hmem]; exact hm
        · intro hdo; simpa [hdo] using hf
      · cases hv
  · rintro ⟨o, ho, hseg, hdo, rfl⟩
    have hm : (getMatcher w.caseSensitive (some pat)).test o.name = true := by rw [hag o ho]; exact hseg
    rw [hoff] at ho
    simp only [List.cons_append, List.nil_append, List.mem_cons, List.mem_map] at ho
    rcases ho with rfl | rfl | ⟨x, hx, rfl⟩
    · refine ⟨⟨dot, true, true, false, true, fs.step d.loc dot⟩, ?_, ?_⟩
      · unfold iterDir; simp [hsc]
      · simp only at hm; simp [yieldOf, hm, Offer.toY]
    · refine ⟨⟨dotdot, true, true, false, true, fs.step d.loc dotdot⟩, ?_, ?_⟩
      · unfold iterDir; simp [hsc]
      · simp only at hm; simp [yieldOf, hm, Offer.toY]
    · refine ⟨⟨x.name, x.isDir, isHidden w.dot x.name, x.isLink, false, x.loc⟩, ?_, ?_⟩
      · unfold iterDir
        simp only [hsc, List.mem_append, List.mem_map, List.mem_filter]
        refine Or.inr ⟨x, ⟨hx, ?_⟩, rfl⟩
        cases hd : dirOnly with
        | false => simp
        | true => have := hdo hd; simp only at this; simp [this]
      · simp only at hm
        simp [yieldOf, hm, Offer.toY]

/-- **the `**` expansion at a fixed fuel above the tree height** (no FOLLOW, not `***`) -/
theorem deep_fixed (w : WalkCfg) (fs : FS) (absPat : Bool) (m : Matcher) (dirOnly : Bool)
    (hw : w.followLinks = false) (F : Nat) (hF : fs.top.height < F) (d : Dir) (v : Y) :
    v ∈ results (globDir w fs absPat m dirOnly true false F d.path d.loc) ↔
      ∃ d', Below fs w false d d' ∧ v ∈ shallow w fs absPat m dirOnly false d' := by
  constructor
  · exact deep_sound w fs absPat m dirOnly false F d v
  · rintro ⟨d', hb, hv⟩
    obtain ⟨n, hn⟩ := belowList_complete fs w false hb
    have := deep_complete_list w fs absPat m dirOnly false n d d' hn (max F (n + 1)) (by omega) v hv
    rwa [globDir_stable w fs absPat m dirOnly true hw (max F (n + 1)) F (by omega) hF] at this

theorem shallow_eq (w : WalkCfg) (fs : FS) (absPat : Bool) (m : Matcher) (dirOnly gf : Bool) (F : Nat)
    (curdir : List Char) (loc : Loc) :
    results (globDir w fs absPat m dirOnly false gf (F + 1) curdir loc) = shallow w fs absPat m dirOnly gf ⟨curdir, loc⟩ := by
  unfold shallow
  rw [globDir_shallow w fs absPat m dirOnly gf F 0 curdir loc]

theorem SegAgree.tail {fs : FS} {w : WalkCfg} {p : GPart} {r : List GPart} (h : SegAgree fs w (p :: r)) :
    SegAgree fs w r := fun q hq => h q (List.mem_cons_of_mem _ hq)

theorem NoLong.tail {p : GPart} {r : List GPart} (h : NoLong (p :: r)) : NoLong r :=
  fun q hq => h q (List.mem_cons_of_mem _ hq)

/-- **C05_partial (below a directory)**: without FOLLOW / `***`, for any fuel above the tree
    height, the walker started in a directory returns exactly what the part list denotes there. -/
theorem globParts_iff_denotes (w : WalkCfg) (fs : FS) (absPat : Bool) (hw : w.followLinks = false)
    (F : Nat) (hF : fs.top.height < F) :
    ∀ (parts : List GPart) (curdir : List Char) (loc : Loc), NoLong parts → WFParts parts → SegAgree fs w parts →
      fs.locIsDir loc = true → ∀ v,
      (v ∈ results (globParts w fs absPat F parts curdir loc) ↔ Denotes fs w parts ⟨curdir, loc⟩ v) := by
  intro parts curdir loc
  induction parts, curdir, loc using globParts.induct with
  | case1 curdir loc =>
    intro _ _ _ _ v
    constructor
    · intro h; simp [globParts] at h
    · intro h; cases h
  | case2 part curdir loc hgs =>
    intro hl _ _ hdir v
    have hlong : part.isGlobstarLong = false := hl part List.mem_cons_self
    have hstar : part.isStar = true := hgs
    simp only [globParts, hgs, if_true, hlong, results_append, List.mem_append]
    rw [deep_fixed w fs absPat none part.dirOnly hw F hF ⟨curdir, loc⟩ v]
    constructor
    · rintro (h | ⟨d', hb, hs⟩)
      · split at h
        · rename_i hne
          simp at h; subst h
          exact Denotes.starSelf hstar (by simpa using hne)
        · cases h
      · obtain ⟨o, ho, hh, hdo, rfl⟩ := (shallow_none_iff w fs absPat part.dirOnly false d' v).1 hs
        exact Denotes.starAny hstar (hlong ▸ hb) ho hh hdo
    · intro h
      cases h with
      | last hs _ _ _ => rw [hstar] at hs; cases hs
      | starSelf _ hne =>
        left
        have : (!curdir.isEmpty) = true := by cases curdir <;> simp_all
        simp [this]
      | starAny _ hb ho hh hdo =>
        right
        exact ⟨_, hlong ▸ hb, (shallow_none_iff w fs absPat part.dirOnly false _ _).2 ⟨_, ho, hh, hdo, rfl⟩⟩
  | case3 part curdir loc hgs this =>
    intro hl _ hag hdir v
    have hlong : part.isGlobstarLong = false := hl part List.mem_cons_self
    have hstar : part.isStar = true := hgs
    have hagt := hag this (by simp)
    simp only [globParts, hgs, if_true, hlong]
    rw [deep_fixed w fs absPat _ this.dirOnly hw F hF ⟨curdir, loc⟩ v]
    constructor
    · rintro ⟨d', hb, hs⟩
      have hd' := below_dir hb hdir
      obtain ⟨o, ho, hseg, hdo, rfl⟩ :=
        (shallow_seg_iff w fs absPat this.pat this.dirOnly false d' v hd' (fun o ho => hagt d' o ho)).1 hs
      exact Denotes.starLast hstar (hlong ▸ hb) ho hseg hdo
    · intro h
      cases h with
      | inner hs _ _ _ _ => rw [hstar] at hs; cases hs
      | starLast _ hb ho hseg hdo =>
        have hb' := hlong ▸ hb
        have hd' := below_dir hb' hdir
        exact ⟨_, hb', (shallow_seg_iff w fs absPat this.pat this.dirOnly false _ _ hd'
          (fun o ho => hagt _ o ho)).2 ⟨_, ho, hseg, hdo, rfl⟩⟩
  | case4 part curdir loc hgs this this2 rest2 ih =>
    intro hl hwf hag hdir v
    have hlong : part.isGlobstarLong = false := hl part List.mem_cons_self
    have hstar : part.isStar = true := hgs
    have hagt := hag this (by simp)
    have hthis : this.dirOnly = true := hwf.2.1
    have hl' : NoLong (this2 :: rest2) := hl.tail.tail
    have hwf' : WFParts (this2 :: rest2) := hwf.2.2
    have hag' : SegAgree fs w (this2 :: rest2) := hag.tail.tail
    simp only [globParts, hgs, if_true, hlong, results_bindEv, List.mem_flatMap]
    constructor
    · rintro ⟨y, hy, hv⟩
      obtain ⟨d', hb, hs⟩ := (deep_fixed w fs absPat _ this.dirOnly hw F hF ⟨curdir, loc⟩ y).1 hy
      have hd' := below_dir hb hdir
      obtain ⟨o, ho, hseg, hdo, rfl⟩ :=
        (shallow_seg_iff w fs absPat this.pat this.dirOnly false d' y hd' (fun o ho => hagt d' o ho)).1 hs
      have hod := hdo hthis
      have := (ih (o.toY d') hl' hwf' hag' (offered_dir ho hod) v).1 hv
      exact Denotes.starInner hstar (hlong ▸ hb) ho hseg hod this
    · intro h
      cases h with
      | inner hs _ _ _ _ => rw [hstar] at hs; cases hs
      | @starInner _ _ _ _ _ d' o _ _ hb ho hseg hod hrest =>
        have hb' := hlong ▸ hb
        have hd' := below_dir hb' hdir
        refine ⟨o.toY d', ?_, ?_⟩
        · exact (deep_fixed w fs absPat _ this.dirOnly hw F hF ⟨curdir, loc⟩ _).2
            ⟨d', hb', (shallow_seg_iff w fs absPat this.pat this.dirOnly false d' _ hd'
              (fun o ho => hagt d' o ho)).2 ⟨o, ho, hseg, fun _ => hod, rfl⟩⟩
        · exact (ih (o.toY d') hl' hwf' hag' (offered_dir ho hod) v).2 hrest
  | case5 part rest curdir loc hgs hd =>
    intro _ hwf hag hdir v
    have hgs' : (part.isMagic && part.isGlobstar) = false := by simpa using hgs
    have hstar : part.isStar = false := hgs'
    have hdo : part.dirOnly = false := by simpa using hd
    have hrest : rest = [] := by
      cases rest with
      | nil => rfl
      | cons q r => have := hwf.1; rw [hdo] at this; cases this
    subst hrest
    have hagp := hag part (by simp)
    simp only [globParts, hgs', hd, Bool.false_eq_true, if_false, if_true]
    rw [shallow_eq, shallow_seg_iff w fs absPat part.pat false false ⟨curdir, loc⟩ v hdir (fun o ho => hagp _ o ho)]
    constructor
    · rintro ⟨o, ho, hseg, _, rfl⟩
      exact Denotes.last hstar ho hseg (fun h => by rw [hdo] at h; cases h)
    · intro h
      cases h with
      | last _ ho hseg _ => exact ⟨_, ho, hseg, (fun h => by cases h), rfl⟩
      | starSelf hs _ => rw [hstar] at hs; cases hs
      | starAny hs _ _ _ _ => rw [hstar] at hs; cases hs
  | case6 part curdir loc hgs hd =>
    intro _ _ hag hdir v
    have hgs' : (part.isMagic && part.isGlobstar) = false := by simpa using hgs
    have hstar : part.isStar = false := hgs'
    have hd' : (!part.dirOnly) = false := by simpa using hd
    have hdo : part.dirOnly = true := by simpa using hd'
    have hagp := hag part (by simp)
    simp only [globParts, hgs', hd', Bool.false_eq_true, if_false]
    rw [shallow_eq, shallow_seg_iff w fs absPat part.pat true false ⟨curdir, loc⟩ v hdir (fun o ho => hagp _ o ho)]
    constructor
    · rintro ⟨o, ho, hseg, hod, rfl⟩
      exact Denotes.last hstar ho hseg (fun _ => hod rfl)
    · intro h
      cases h with
      | last _ ho hseg hod => exact ⟨_, ho, hseg, fun _ => hod hdo, rfl⟩
      | starSelf hs _ => rw [hstar] at hs; cases hs
      | starAny hs _ _ _ _ => rw [hstar] at hs; cases hs
  | case7 part curdir loc hgs hd this rest1 ih =>
    intro hl hwf hag hdir v
    have hgs' : (part.isMagic && part.isGlobstar) = false := by simpa using hgs
    have hstar : part.isStar = false := hgs'
    have hd' : (!part.dirOnly) = false := by simpa using hd
    have hagp := hag part (by simp)
    have hl' : NoLong (this :: rest1) := hl.tail
    have hwf' : WFParts (this :: rest1) := hwf.2
    have hag' : SegAgree fs w (this :: rest1) := hag.tail
    have key : ∀ y, y ∈ results (globDir w fs absPat (getMatcher w.caseSensitive (some part.pat)) true false false (F + 1) curdir loc) ↔
        ∃ o ∈ offered fs ⟨curdir, loc⟩, segOK w.caseSensitive part.pat o.name = true ∧ (true = true → o.isDir = true) ∧
          y = o.toY ⟨curdir, loc⟩ := by
      intro y
      rw [shallow_eq, shallow_seg_iff w fs absPat part.pat true false ⟨curdir, loc⟩ y hdir (fun o ho => hagp _ o ho)]
    have fwd : ∀ y, y ∈ results (globDir w fs absPat (getMatcher w.caseSensitive (some part.pat)) true false false (F + 1) curdir loc) →
        v ∈ results (globParts w fs absPat F (this :: rest1) y.path y.loc) → Denotes fs w (part :: this :: rest1) ⟨curdir, loc⟩ v := by
      intro y hy hv
      obtain ⟨o, ho, hseg, hod, rfl⟩ := (key y).1 hy
      exact Denotes.inner hstar ho hseg (hod rfl) ((ih (o.toY ⟨curdir, loc⟩) hl' hwf' hag' (offered_dir ho (hod rfl)) v).1 hv)
    have bwd : ∀ (o : Offer), o ∈ offered fs ⟨curdir, loc⟩ → segOK w.caseSensitive part.pat o.name = true → o.isDir = true →
        Denotes fs w (this :: rest1) ⟨pjoin curdir o.name, o.loc⟩ v →
        ∃ y ∈ results (globDir w fs absPat (getMatcher w.caseSensitive (some part.pat)) true false false (F + 1) curdir loc),
          v ∈ results (globParts w fs absPat F (this :: rest1) y.path y.loc) := by
      intro o ho hseg hod hrest
      exact ⟨o.toY ⟨curdir, loc⟩, (key _).2 ⟨o, ho, hseg, fun _ => hod, rfl⟩,
        (ih (o.toY ⟨curdir, loc⟩) hl' hwf' hag' (offered_dir ho hod) v).2 hrest⟩
    rcases rest1 with _ | ⟨t2, r⟩
    · simp only [globParts, hgs', hd', Bool.false_eq_true, if_false, results_bindEv, List.mem_flatMap]
      constructor
      · rintro ⟨y, hy, hv⟩; exact fwd y hy hv
      · intro h
        cases h with
        | @inner _ _ _ _ o _ _ ho hseg hod hrest => exact bwd o ho hseg hod hrest
        | starLast hs _ _ _ _ => rw [hstar] at hs; cases hs
    · simp only [globParts, hgs', hd', Bool.false_eq_true, if_false, results_bindEv, List.mem_flatMap]
      constructor
      · rintro ⟨y, hy, hv⟩; exact fwd y hy hv
      · intro h
        cases h with
        | @inner _ _ _ _ o _ _ ho hseg hod hrest => exact bwd o ho hseg hod hrest
        | starInner hs _ _ _ _ _ => rw [hstar] at hs; cases hs

end WcModel

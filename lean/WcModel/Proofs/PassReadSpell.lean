import WcModel.Proofs.PassRead
/-
  PassRead, part 4: every string the strict reader accepts is the text of a spelled pattern.

  `spell_of_parsePat`:  `Grammar.parsePat true p = some g`  ⊢
        ∃ sp, sprint sp = p ∧ erase sp = g ∧ sok cfg true sp [] ∧ sclsOK cfg sp
  — by following the reader's recursion (`parseSeq` / `parseAlts`, one token at a time; a run of
  stars is peeled as a whole; a bracket through `bracket_read`).  No side condition on `p` is
  needed: whatever the reader reads as a group opener (`?(` `*(` `+(` `@(` `!(`) the pass reads
  as one too, and a bare `! + @ ( | )` is a literal for both.
-/
namespace WcModel
namespace PR
open PP Grammar

/-! ### lists of tokens / alternatives as spelled patterns -/

def sseqOf : List SPat → SPat
  | [] => .eps
  | [p] => p
  | p :: ps => .seq p (sseqOf ps)

def saltOf : List SPat → SPat
  | [] => .eps
  | [p] => p
  | p :: ps => .alt p (saltOf ps)

/-- the side conditions of a list of tokens -/
def soks (cfg : Cfg) (top : Bool) : List SPat → List Char → Prop
  | [], _ => True
  | t :: ts, rest => sok cfg top t (ts.flatMap sprint ++ rest) ∧ soks cfg top ts rest

theorem sprint_sseqOf : ∀ l : List SPat, sprint (sseqOf l) = l.flatMap sprint
  | [] => rfl
  | [p] => by simp [sseqOf]
  | p :: q :: r => by
    have ih := sprint_sseqOf (q :: r)
    simp only [sseqOf, sprint, ih, List.flatMap_cons]

theorem erase_sseqOf : ∀ l : List SPat, erase (sseqOf l) = seqOf (l.map erase)
  | [] => rfl
  | [p] => rfl
  | p :: q :: r => by
    have ih := erase_sseqOf (q :: r)
    simp only [sseqOf, erase, ih, List.map_cons, seqOf]

theorem sok_sseqOf (cfg : Cfg) (top : Bool) : ∀ (l : List SPat) (rest : List Char), soks cfg top l rest →
    sok cfg top (sseqOf l) rest
  | [], _, _ => trivial
  | [p], rest, h => by simpa [sseqOf, soks] using h.1
  | p :: q :: r, rest, h => by
    have ih := sok_sseqOf cfg top (q :: r) rest h.2
    simp only [sseqOf, sok, sprint_sseqOf]
    exact ⟨h.1, ih⟩

theorem sclsOK_sseqOf (cfg : Cfg) : ∀ (l : List SPat), (∀ t ∈ l, sclsOK cfg t) → sclsOK cfg (sseqOf l)
  | [], _ => trivial
  | [p], h => h p (by simp)
  | p :: q :: r, h => by
    have ih := sclsOK_sseqOf cfg (q :: r) (fun t ht => h t (List.mem_cons_of_mem _ ht))
    exact ⟨h p (by simp), ih⟩

theorem erase_saltOf : ∀ l : List SPat, erase (saltOf l) = altOf (l.map erase)
  | [] => rfl
  | [p] => rfl
  | p :: q :: r => by
    have ih := erase_saltOf (q :: r)
    simp only [saltOf, erase, ih, List.map_cons, altOf]

/-- brackets linked to their grammar members (`sclsOK`) and alternations only directly inside
    groups, right-nested (the shape the reader produces) -/
def sgood (cfg : Cfg) : Bool → SPat → Prop
  | _, .cls _ _ items cis => cis.map unflag = items.map (SCls.toClsItem cfg.isBytes)
  | _, .seq a b => sgood cfg false a ∧ sgood cfg false b
  | b, .alt p q => b = true ∧ sgood cfg false p ∧ sgood cfg true q
  | _, .ext _ body => sgood cfg true body
  | _, _ => True

theorem sgood_mono (cfg : Cfg) (sp : SPat) (h : sgood cfg false sp) : sgood cfg true sp := by
  cases sp <;> first | exact h | (simp only [sgood] at h; exact absurd h.1 (by decide))

theorem sgood_sclsOK (cfg : Cfg) : ∀ (sp : SPat) (b : Bool), sgood cfg b sp → sclsOK cfg sp := by
  intro sp
  induction sp with
  | seq p q ihp ihq => intro b h; exact ⟨ihp _ h.1, ihq _ h.2⟩
  | alt p q ihp ihq => intro b h; exact ⟨ihp _ h.2.1, ihq _ h.2.2⟩
  | ext k body ih => intro b h; exact ih _ h
  | cls w neg items cis => intro b h; exact h
  | _ => intro b _; trivial

/-- the shape of the reader's output: alternations only directly inside groups, right-nested -/
def shp : Bool → Pat → Bool
  | b, .alt p q => b && shp false p && shp true q
  | _, .seq p q => shp false p && shp false q
  | _, .ext _ body => shp true body
  | _, _ => true

theorem sgood_shp (cfg : Cfg) : ∀ (sp : SPat) (b : Bool), sgood cfg b sp → shp b (erase sp) = true := by
  intro sp
  induction sp with
  | seq p q ihp ihq => intro b h; simp [erase, shp, ihp _ h.1, ihq _ h.2]
  | alt p q ihp ihq => intro b h; simp [erase, shp, h.1, ihp _ h.2.1, ihq _ h.2.2]
  | ext k body ih => intro b h; simp only [erase, shp]; exact ih _ h
  | _ => intro b _; rfl

theorem sgood_sseqOf (cfg : Cfg) : ∀ (l : List SPat), (∀ t ∈ l, sgood cfg false t) → sgood cfg false (sseqOf l)
  | [], _ => trivial
  | [p], h => h p (by simp)
  | p :: q :: r, h => by
    have ih := sgood_sseqOf cfg (q :: r) (fun t ht => h t (List.mem_cons_of_mem _ ht))
    exact ⟨h p (by simp), ih⟩

theorem rpp_of_shp : ∀ (g : Pat) (b : Bool), shp b g = true → g.negFree = true → rpp b g = true := by
  intro g
  induction g with
  | seq p q ihp ihq =>
    intro b h hn
    simp only [shp, Bool.and_eq_true] at h
    simp only [Pat.negFree, Bool.and_eq_true] at hn
    simp [rpp, ihp _ h.1 hn.1, ihq _ h.2 hn.2]
  | alt p q ihp ihq =>
    intro b h hn
    simp only [shp, Bool.and_eq_true] at h
    simp only [Pat.negFree, Bool.and_eq_true] at hn
    simp [rpp, h.1.1, ihp _ h.1.2 hn.1, ihq _ h.2 hn.2]
  | ext k body ih =>
    intro b h hn
    simp only [shp] at h
    cases k <;> first | (simp [Pat.negFree] at hn; done) | (simp only [Pat.negFree] at hn; simp [rpp, ih _ h hn])
  | _ => intro b _ _; rfl

/-- on the reader's shape, C01's scope for `!(…)` is the fragment of `pass_spelled` -/
theorem rppTop_of_scope : ∀ (g : Pat), shp false g = true → g.c01Scope = true → rppTop g = true := by
  intro g
  induction g with
  | seq a b _ ihb =>
    intro h hs
    simp only [shp, Bool.and_eq_true] at h
    by_cases hn : ∃ body, a = .ext .neg body
    · obtain ⟨body, rfl⟩ := hn
      simp only [Pat.c01Scope, Bool.and_eq_true] at hs
      simp only [shp] at h
      simp [rppTop, rpp_of_shp body true h.1 hs.1, hs.2]
    · have hn' : ∀ body, a ≠ .ext .neg body := fun body e => hn ⟨body, e⟩
      have hsc : (Pat.seq a b).c01Scope = (a.negFree && b.c01Scope) := by
        cases a with
        | ext k body => cases k <;> first | rfl | exact absurd rfl (hn' body)
        | _ => rfl
      rw [hsc] at hs
      simp only [Bool.and_eq_true] at hs
      rw [rppTop_seq a b hn', rpp_of_shp a false h.1 hs.1, ihb h.2 hs.2]
      rfl
  | ext k body =>
    intro h hs
    simp only [shp] at h
    cases k with
    | neg => simp only [Pat.c01Scope] at hs; simp [rppTop, rpp_of_shp body true h hs]
    | _ =>
      simp only [Pat.c01Scope, Pat.negFree] at hs
      simp [rppTop, rpp, rpp_of_shp body true h hs]
  | alt p q => intro h; simp [shp] at h
  | _ => intro _ _; rfl

/-! ### the reader, one token at a time -/

/-- a star already at the end of the accumulator: the text does not go on with a plain star -/
def StarOK (acc : List Pat) (s : List Char) : Prop :=
  acc.getLast? = some .star → (s.head? ≠ some '*' ∨ ∃ r, s = '*' :: '(' :: r)

theorem StarOK_of_last {acc : List Pat} {t : Pat} (ht : t ≠ .star) (s : List Char) : StarOK (acc ++ [t]) s := by
  intro h
  rw [List.getLast?_concat] at h
  injection h with h
  exact absurd h ht

/-- a maximal run of plain stars -/
theorem split_stars : ∀ r : List Char, r.head? ≠ some '(' →
    ∃ n rest, '*' :: r = stars (n+1) ++ rest ∧ starSide rest
  | [], _ => ⟨0, [], rfl, by simp [starSide]⟩
  | d :: r', hd => by
    have hd' : d ≠ '(' := by simpa using hd
    by_cases hs : d = '*'
    · subst hs
      by_cases hp : r'.head? = some '('
      · cases r' with
        | nil => simp at hp
        | cons x r'' =>
          have : x = '(' := by simpa using hp
          subst this
          exact ⟨0, '*' :: '(' :: r'', rfl, by simp, Or.inr ⟨_, rfl⟩⟩
      · obtain ⟨n, rest, e, hs⟩ := split_stars r' hp
        exact ⟨n+1, rest, by rw [stars_succ (n+1), List.cons_append, ← e], hs⟩
    · exact ⟨0, d :: r', rfl, by simpa using hd', Or.inl (by simpa using hs)⟩

theorem grpOf_star_none (F : Nat) (r : List Char) (h : r.head? ≠ some '(') : grpOf F '*' r = none :=
  grpOf_none_of_head F '*' r h

/-- one more star of a run: the accumulator is not touched -/
theorem PS_star_again (F : Nat) (ig : Bool) (rest : List Char) (acc : List Pat) (hn : rest.head? ≠ some '(')
    (hs : acc.getLast? = some .star) :
    parseSeq true (F+1) ig ('*' :: rest) acc = parseSeq true F ig rest acc := by
  rw [parseSeq_cons, grpOf_none_of_head F _ _ hn]
  simp [plainOf, hs]

/-- the reader on a run of stars -/
theorem PS_run (ig : Bool) (rest : List Char) (hs : starSide rest) : ∀ (n F1 : Nat) (acc : List Pat)
    (v : Pat × List Char), acc.getLast? = some .star →
    parseSeq true F1 ig (stars n ++ rest) acc = some v →
    ∃ G, F1 = G + n ∧ parseSeq true G ig rest acc = some v := by
  intro n
  induction n with
  | zero => intro F1 acc v _ h; exact ⟨F1, rfl, by simpa [stars] using h⟩
  | succ n ih =>
    intro F1 acc v hl h
    cases F1 with
    | zero => simp [parseSeq] at h
    | succ F =>
      rw [stars_succ, List.cons_append, PS_star_again F ig _ acc (stars_head n rest hs) hl] at h
      obtain ⟨G, hG, hv⟩ := ih F acc v hl h
      exact ⟨G, by omega, hv⟩

theorem extOf_some_iff {c : Char} {k : ExtKind} (h : extOf c = some k) : c = extChar k := by
  unfold extOf at h
  split at h
  · injection h with h; subst h; assumption
  · split at h
    · injection h with h; subst h; assumption
    · split at h
      · injection h with h; subst h; assumption
      · split at h
        · injection h with h; subst h; assumption
        · split at h
          · injection h with h; subst h; assumption
          · cases h

theorem extOf_of_mem {c : Char} (h : c ∈ extTypes) : ∃ k, extOf c = some k := by
  rw [extTypes_eq] at h
  simp only [List.mem_cons, List.not_mem_nil, or_false] at h
  rcases h with rfl | rfl | rfl | rfl | rfl
  · exact ⟨.neg, by decide⟩
  · exact ⟨.star, by decide⟩
  · exact ⟨.plus, by decide⟩
  · exact ⟨.opt, by decide⟩
  · exact ⟨.one, by decide⟩

/-- `grpOf = none`: the character does not open a group -/
theorem grpOf_none_bare {F : Nat} {c : Char} {r : List Char} (h : grpOf F c r = none) : bareSide c r := by
  intro hm
  obtain ⟨k, hk⟩ := extOf_of_mem hm
  intro hh
  cases r with
  | nil => simp at hh
  | cons x r' =>
    have : x = '(' := by simpa using hh
    subst this
    unfold grpOf at h
    rw [hk] at h
    simp at h

theorem grpOf_some {F : Nat} {c : Char} {r : List Char} {o : Option (Pat × List Char)}
    (h : grpOf F c r = some o) : ∃ k r0, c = extChar k ∧ r = '(' :: r0 ∧ o = parseAlts true F k r0 [] := by
  unfold grpOf at h
  split at h
  · rename_i k r0 hk
    injection h with h
    exact ⟨k, r0, extOf_some_iff hk, rfl, h.symm⟩
  · cases h

theorem bracket_is_cls {s : List Char} {b : Pat} {r' : List Char} (h : bracket s = some (b, r')) :
    ∃ neg items, b = .cls neg items := by
  unfold bracket at h
  split at h
  split at h
  · injection h with h; injection h with h1 h2
    exact ⟨_, _, h1.symm⟩
  · cases h

/-- what the two readers deliver -/
def SeqClaim (cfg : Cfg) (F : Nat) : Prop :=
  ∀ (ig : Bool) (s : List Char) (acc : List Pat) (g : Pat) (rest : List Char),
    parseSeq true F ig s acc = some (g, rest) → StarOK acc s →
    ∃ sps : List SPat, s = sps.flatMap sprint ++ rest ∧ g = seqOf (acc ++ sps.map erase) ∧
      soks cfg (!ig) sps rest ∧ (∀ t ∈ sps, sgood cfg false t)

def AltClaim (cfg : Cfg) (F : Nat) : Prop :=
  ∀ (k : ExtKind) (s : List Char) (alts : List Pat) (g : Pat) (rest : List Char),
    parseAlts true F k s alts = some (g, rest) →
    ∃ as : List SPat, as ≠ [] ∧ s = sprint (saltOf as) ++ ')' :: rest ∧
      g = .ext k (altOf (alts ++ as.map erase)) ∧ sok cfg false (saltOf as) (')' :: rest) ∧
      sgood cfg true (saltOf as)

theorem saltOf_cons (a : SPat) (l : List SPat) (h : l ≠ []) : saltOf (a :: l) = .alt a (saltOf l) := by
  cases l with
  | nil => exact absurd rfl h
  | cons b r => rfl

theorem claims (cfg : Cfg) (h : FnX cfg) : ∀ F : Nat, SeqClaim cfg F ∧ AltClaim cfg F := by
  intro F
  induction F using Nat.strongRecOn with
  | _ F ih =>
    cases F with
    | zero =>
      exact ⟨fun ig s acc g rest hp => by simp [parseSeq] at hp,
        fun k s alts g rest hp => by simp [parseAlts] at hp⟩
    | succ F =>
      have ihS : ∀ G, G ≤ F → SeqClaim cfg G := fun G hG => (ih G (by omega)).1
      have ihA : AltClaim cfg F := (ih F (by omega)).2
      constructor
      · -- the sequence reader
        intro ig s acc g rest hp hst
        cases s with
        | nil =>
          rw [parseSeq.eq_def] at hp
          simp only [] at hp
          cases ig with
          | true => simp at hp
          | false =>
            simp only [Bool.false_eq_true, if_false, Option.some.injEq, Prod.mk.injEq] at hp
            exact ⟨[], by simp [hp.2], by simp [hp.1], trivial, by simp⟩
        | cons c r =>
          rw [parseSeq_cons] at hp
          split at hp
          · -- the end of an alternative
            simp only [Option.some.injEq, Prod.mk.injEq] at hp
            exact ⟨[], by simp [hp.2], by simp [hp.1], trivial, by simp⟩
          · rename_i hend
            cases hg : grpOf F c r with
            | some o =>
              -- a group
              obtain ⟨k, r0, hc, hr, ho⟩ := grpOf_some hg
              rw [hg] at hp
              cases o with
              | none => simp at hp
              | some v =>
                obtain ⟨g1, r1⟩ := v
                simp only [] at hp
                obtain ⟨as, hne, htxt, hg1, hok1, hcl1⟩ := ihA k r0 [] g1 r1 ho.symm
                obtain ⟨sps, hs2, hg2, hok2, hcl2⟩ := ihS F (Nat.le_refl _) ig r1 (acc ++ [g1]) g rest hp
                  (StarOK_of_last (by rw [hg1]; simp) r1)
                refine ⟨.ext k (saltOf as) :: sps, ?_, ?_, ⟨?_, hok2⟩, ?_⟩
                · rw [hc, hr, htxt, hs2]; simp [sprint]
                · rw [hg2, hg1]; simp [erase, erase_saltOf]
                · simp only [sok]; rw [← hs2]; exact hok1
                · intro t ht
                  rcases List.mem_cons.mp ht with rfl | ht
                  · exact hcl1
                  · exact hcl2 t ht
            | none =>
              rw [hg] at hp
              simp only [] at hp
              unfold plainOf at hp
              have hbare := grpOf_none_bare hg
              split at hp
              · -- an escaped character
                rename_i hc
                subst hc
                cases r with
                | nil => simp at hp
                | cons d r' =>
                  simp only [] at hp
                  obtain ⟨sps, hs2, hg2, hok2, hcl2⟩ := ihS F (Nat.le_refl _) ig r' (acc ++ [.lit d]) g rest hp
                    (StarOK_of_last (by simp) r')
                  refine ⟨.lit d true :: sps, ?_, ?_, ⟨trivial, hok2⟩, ?_⟩
                  · rw [hs2]; simp [sprint]
                  · rw [hg2]; simp [erase]
                  · intro t ht
                    rcases List.mem_cons.mp ht with rfl | ht
                    · trivial
                    · exact hcl2 t ht
              · rename_i hc1
                split at hp
                · -- a run of stars
                  rename_i hc
                  subst hc
                  have hnp : r.head? ≠ some '(' := hbare (by decide)
                  have hlast : acc.getLast? ≠ some .star := by
                    intro hl
                    rcases hst hl with h1 | ⟨r2, h2⟩
                    · simp at h1
                    · injection h2 with _ h2; rw [h2] at hnp; simp at hnp
                  simp only [hlast, if_false] at hp
                  obtain ⟨n, rest1, hrun, hss⟩ := split_stars r hnp
                  have hr : r = stars n ++ rest1 := by
                    rw [stars_succ, List.cons_append] at hrun
                    injection hrun
                  rw [hr] at hp
                  obtain ⟨G, hG, hv⟩ := PS_run ig rest1 hss n F (acc ++ [.star]) (g, rest)
                    (List.getLast?_concat) hp
                  have hst' : StarOK (acc ++ [.star]) rest1 := fun _ => hss.2
                  obtain ⟨sps, hs2, hg2, hok2, hcl2⟩ := ihS G (by omega) ig rest1 (acc ++ [.star]) g rest hv hst'
                  refine ⟨.star n :: sps, ?_, ?_, ⟨?_, hok2⟩, ?_⟩
                  · rw [hrun, hs2]; simp [sprint]
                  · rw [hg2]; simp [erase]
                  · simp only [sok]; rw [← hs2]; exact hss
                  · intro t ht
                    rcases List.mem_cons.mp ht with rfl | ht
                    · trivial
                    · exact hcl2 t ht
                · rename_i hc2
                  split at hp
                  · -- `?`
                    rename_i hc
                    subst hc
                    have hnp : r.head? ≠ some '(' := hbare (by decide)
                    obtain ⟨sps, hs2, hg2, hok2, hcl2⟩ := ihS F (Nat.le_refl _) ig r (acc ++ [.any]) g rest hp
                      (StarOK_of_last (by simp) r)
                    refine ⟨.any :: sps, ?_, ?_, ⟨?_, hok2⟩, ?_⟩
                    · rw [hs2]; simp [sprint]
                    · rw [hg2]; simp [erase]
                    · simp only [sok]; rw [← hs2]; exact hnp
                    · intro t ht
                      rcases List.mem_cons.mp ht with rfl | ht
                      · trivial
                      · exact hcl2 t ht
                  · rename_i hc3
                    split at hp
                    · -- a bracket
                      rename_i hc
                      subst hc
                      cases hb : bracket r with
                      | none => simp [hb] at hp
                      | some v =>
                        obtain ⟨b, r'⟩ := v
                        simp only [hb] at hp
                        obtain ⟨neg, items, rfl⟩ := bracket_is_cls hb
                        obtain ⟨w, cis, hw, hcis, hseq⟩ := bracket_read cfg h r neg items r' hb
                        obtain ⟨sps, hs2, hg2, hok2, hcl2⟩ := ihS F (Nat.le_refl _) ig r' (acc ++ [.cls neg items]) g rest
                          hp (StarOK_of_last (by simp) r')
                        refine ⟨.cls w neg items cis :: sps, ?_, ?_, ⟨?_, hok2⟩, ?_⟩
                        · rw [hw, hs2]; simp [sprint]
                        · rw [hg2]; simp [erase]
                        · simp only [sok]; rw [← hs2, ← hw]; exact hseq
                        · intro t ht
                          rcases List.mem_cons.mp ht with rfl | ht
                          · exact hcis
                          · exact hcl2 t ht
                    · -- a bare literal
                      rename_i hc4
                      obtain ⟨sps, hs2, hg2, hok2, hcl2⟩ := ihS F (Nat.le_refl _) ig r (acc ++ [.lit c]) g rest hp
                        (StarOK_of_last (by simp) r)
                      refine ⟨.lit c false :: sps, ?_, ?_, ⟨?_, hok2⟩, ?_⟩
                      · rw [hs2]; simp [sprint]
                      · rw [hg2]; simp [erase]
                      · simp only [sok]; rw [← hs2]
                        refine ⟨hc2, hc3, hc4, hc1, hbare, ?_⟩
                        intro htop
                        have hig : ig = true := by cases ig <;> simp_all
                        subst hig
                        simp only [Bool.true_and, Bool.or_eq_true, decide_eq_true_eq, not_or] at hend
                        exact hend
                      · intro t ht
                        rcases List.mem_cons.mp ht with rfl | ht
                        · trivial
                        · exact hcl2 t ht
      · -- the alternatives of a group
        intro k s alts g rest hp
        rw [parseAlts_succ] at hp
        cases hps : parseSeq true F true s [] with
        | none => simp [hps] at hp
        | some v =>
          obtain ⟨a, r1⟩ := v
          obtain ⟨sps, hs1, ha, hok1, hcl1⟩ := ihS F (Nat.le_refl _) true s [] a r1 hps (by intro hl; simp at hl)
          simp only [List.nil_append] at ha
          have ha' : a = erase (sseqOf sps) := by rw [erase_sseqOf]; exact ha
          have hokA : ∀ rest', rest' = r1 → sok cfg false (sseqOf sps) rest' := by
            intro rest' e; subst e; exact sok_sseqOf cfg false sps _ (by simpa using hok1)
          simp only [hps] at hp
          cases r1 with
          | nil => simp at hp
          | cons x r1' =>
            by_cases hx1 : x = '|'
            · -- `|`: more alternatives
              subst hx1
              simp only [] at hp
              obtain ⟨as, hne, htxt, hg, hok2, hcl2⟩ := ihA k r1' (alts ++ [a]) g rest hp
              refine ⟨sseqOf sps :: as, by simp, ?_, ?_, ?_, ?_⟩
              · rw [saltOf_cons _ _ hne, hs1, htxt]; simp [sprint, sprint_sseqOf]
              · rw [hg, ha']; simp
              · rw [saltOf_cons _ _ hne]
                simp only [sok]
                refine ⟨?_, hok2⟩
                rw [← htxt]; exact hokA _ rfl
              · rw [saltOf_cons _ _ hne]
                exact ⟨rfl, sgood_sseqOf cfg sps hcl1, hcl2⟩
            · by_cases hx2 : x = ')'
              · -- `)`: the group is closed
                subst hx2
                simp only [Option.some.injEq, Prod.mk.injEq] at hp
                refine ⟨[sseqOf sps], by simp, ?_, ?_, ?_, ?_⟩
                · rw [hs1, hp.2]; simp [saltOf, sprint_sseqOf]
                · rw [← hp.1, ha']; simp
                · simp only [saltOf]; rw [← hp.2]; exact hokA _ rfl
                · exact sgood_mono cfg _ (sgood_sseqOf cfg sps hcl1)
              · exfalso
                split at hp
                · rename_i heq; cases heq
                · rename_i heq
                  injection heq with heq; injection heq with _ e2; injection e2 with e2 _
                  exact hx1 e2
                · rename_i heq
                  injection heq with heq; injection heq with _ e2; injection e2 with e2 _
                  exact hx2 e2
                · cases hp

/-- **every accepted string is the text of a spelled pattern** -/
theorem spell_of_parsePat (cfg : Cfg) (h : FnX cfg) (p : List Char) (g : Pat)
    (hp : parsePat true p = some g) :
    ∃ sp : SPat, sprint sp = p ∧ erase sp = g ∧ sok cfg true sp [] ∧ sgood cfg false sp := by
  unfold parsePat at hp
  cases hps : parseSeq true (2 * p.length + 4) false p [] with
  | none => simp [hps] at hp
  | some v =>
    obtain ⟨g', rest⟩ := v
    simp only [hps] at hp
    cases rest with
    | cons x r => simp at hp
    | nil =>
      simp only [Option.some.injEq] at hp
      subst hp
      obtain ⟨sps, hs, hg, hok, hcl⟩ := (claims cfg h _).1 false p [] g' [] hps (by intro hl; simp at hl)
      refine ⟨sseqOf sps, ?_, ?_, ?_, sgood_sseqOf cfg sps hcl⟩
      · rw [sprint_sseqOf, hs]; simp
      · rw [erase_sseqOf, hg]; simp
      · exact sok_sseqOf cfg true sps [] (by simpa using hok)

/-- **pass_read**: read by the strict reader as `g` (in C01's scope for `!(…)`) ⇒ compiled by the
    faithful port to the regex of the tidy compiler for `g`, up to `Eqv` — whatever the spelling. -/
theorem pass_read (cfg : Cfg) (h : FnX cfg) (hg0 : cfg.globstar0 = false) (drive : List Char → DriveInfo)
    (p : List Char) (g : Pat) (hp : parsePat true p = some g) (hs : g.c01Scope = true) :
    ∃ parsed r, parseItems cfg drive p = .ok parsed ∧ parsed.toRe = some r ∧
      Eqv r (wrap (!cfg.caseSensitive) (comp cfg.isBytes cfg.dot true g)) := by
  obtain ⟨sp, h1, h2, h3, h4⟩ := spell_of_parsePat cfg h p g hp
  have hbs : sprint sp ≠ ['\\'] := by
    rw [h1]
    intro e
    rw [e] at hp
    have : parsePat true ['\\'] = none := by decide
    rw [this] at hp
    cases hp
  have hshape : rppTop (erase sp) = true := by
    rw [h2]
    exact rppTop_of_scope g (by rw [← h2]; exact sgood_shp cfg sp false h4) hs
  obtain ⟨parsed, r, e1, e2, e3⟩ := pass_spelled cfg h hg0 drive sp hshape h3 (sgood_sclsOK cfg sp false h4) hbs
  rw [h1] at e1
  rw [h2] at e3
  exact ⟨parsed, r, e1, e2, e3⟩

/-! ### non-vacuity -/

/-- a pattern full of non-canonical spellings (see `C01.read_nonvacuous`) -/
def pDemo : List Char := "\\a**[]\\]-][^[:alpha:]\\-]+(x|\\y)!(d|e**).t\\xt".toList

theorem pDemo_read : (match parsePat true pDemo with
    | some g => g.c01Scope && !(ppTop g)
    | none => false) = true := by decide +kernel

/-- `spell_of_parsePat`, `pass_spelled` and `pass_read` apply to it (every hypothesis is met):
    there is a spelled pattern with text `pDemo` in the fragment of `pass_spelled` -/
example (cfg : Cfg) (h : FnX cfg) : ∃ sp : SPat, sprint sp = pDemo ∧ rppTop (erase sp) = true ∧
    sok cfg true sp [] ∧ sclsOK cfg sp ∧ sprint sp ≠ ['\\'] := by
  cases hg : parsePat true pDemo with
  | none => have := pDemo_read; simp [hg] at this
  | some g =>
    have hs : g.c01Scope = true := by
      have := pDemo_read; simp only [hg, Bool.and_eq_true] at this; exact this.1
    obtain ⟨sp, h1, h2, h3, h4⟩ := spell_of_parsePat cfg h pDemo g hg
    refine ⟨sp, h1, ?_, h3, sgood_sclsOK cfg sp false h4, ?_⟩
    · rw [h2]; exact rppTop_of_scope g (by rw [← h2]; exact sgood_shp cfg sp false h4) hs
    · rw [h1]; decide

end PR
end WcModel

import WcModel.Model.Escape
import WcModel.Model.WinDrive
/-
  Model of `_wcparse.escape(pattern, unix=False, pathname=True)` (wcmatch/_wcparse.py:301-342):

      pattern = pattern.replace('\\', '\\\\')
      m = RE_WIN_DRIVE.match(pattern)
      if m: drive = RE_WIN_DRIVE_MAGIC.sub(r'\\\1', m.group(0)); pattern = pattern[len(m.group(0)):]
      return drive + RE_MAGIC_ESCAPE.sub(r'\\\1', pattern)

  `RE_WIN_DRIVE` (lines 22-51; the text is pinned in the source, compiled with `re.I`) is ported by
  hand as a backtracking-order scanner `reWinDrive` (first successful path of the alternation

      (  sep{2} [?.] sep ( [a-z]: | unc (sep [^\\/]+){2} | (global sep)+ ( [a-z]: | unc (sep [^\\/]+){2} | [^\\/]+ ) )
       | sep{2} [^\\/]+ sep [^\\/]+
       | [a-z]:
      ) ( sep | $ )                       where sep = `\\\\` (two backslashes) or `/`

  in Python's priority order; `[^\\/]+` is greedy and giving characters back never helps because
  what follows it must start with a separator or be the end).  As in `Model/WinDrive.lean`, `[a-z]`
  under `re.I` is taken as the ASCII letters (for `str` patterns Python also accepts U+212A KELVIN
  SIGN and U+017F LONG S there; `bytes` patterns are exact).

  After the doubling every run of backslashes is even, so the lone-backslash alternative of
  `RE_MAGIC_ESCAPE` / `RE_WIN_DRIVE_MAGIC` never fires (as for `escapeUnix`); the cut made by the
  drive match falls after a complete `\\\\` pair, a `/`, or at the end.

  The function was compared with the real `glob.escape(s, unix=False)` on 40 000 random strings
  over the alphabet of the drive syntax (two seeds × 20 000, 0 mismatches; about 8 % of them carry a
  drive, all five shapes); `escapeWin_samples` below pins a few outputs of the real function.
-/
namespace WcModel
namespace EscW

/-- `pattern.replace('\\', '\\\\')` -/
def dbl (s : List Char) : List Char := s.flatMap (fun c => if c = '\\' then ['\\', '\\'] else [c])

/-- `RE_MAGIC_ESCAPE.sub(r'\\\1', t)` on a text whose backslash runs are even -/
def magicSub (t : List Char) : List Char :=
  t.flatMap (fun c => if c ∈ magicEscapeChars then ['\\', c] else [c])

/-- the character class of the first alternative of `RE_WIN_DRIVE_MAGIC` -/
def driveMagicChars : List Char := ['{', '}', '|']

/-- `RE_WIN_DRIVE_MAGIC.sub(r'\\\1', t)` on a text whose backslash runs are even -/
def driveMagicSub (t : List Char) : List Char :=
  t.flatMap (fun c => if c ∈ driveMagicChars then ['\\', c] else [c])

/-- `(?:\\\\|/)` : returns what follows -/
def sepD : List Char → Option (List Char)
  | '\\' :: '\\' :: r => some r
  | '/' :: r => some r
  | _ => none

def notSepC (c : Char) : Bool := c != '\\' && c != '/'

/-- `[^\\/]+` (greedy) : returns what follows -/
def part1 : List Char → Option (List Char)
  | [] => none
  | c :: r => if notSepC c then some (r.dropWhile notSepC) else none

/-- `((?:\\\\|/){1}|$)` -/
def tailD (s : List Char) : Option (List Char) :=
  match sepD s with
  | some r => some r
  | none => if atEos s then some s else none

/-- `[a-z]:` under `re.I` -/
def letterColon : List Char → Option (List Char)
  | l :: ':' :: r => if Win.isLetter l then some r else none
  | _ => none

/-- a keyword under `re.I` (`w` in lower case) -/
def kw (w : List Char) (s : List Char) : Option (List Char) :=
  if (s.take w.length).length = w.length ∧ Win.lower (s.take w.length) = w then some (s.drop w.length) else none

/-- `unc(?:(?:\\\\|/)[^\\/]+){2}` -/
def uncTwo (s : List Char) : Option (List Char) := do
  let s ← kw "unc".toList s
  let s ← sepD s
  let s ← part1 s
  let s ← sepD s
  part1 s

/-- the ways to read `(?:global(?:\\\\|/))+`, most repetitions first -/
def globals : Nat → List Char → List (List Char)
  | 0, _ => []
  | f+1, s =>
    match (kw "global".toList s).bind sepD with
    | none => []
    | some r => globals f r ++ [r]

/-- `(?:[a-z]:|unc(…){2}|[^\\/]+)` followed by the final `(sep|$)` -/
def innerG (s : List Char) : Option (List Char) :=
  ((letterColon s).bind tailD).orElse fun _ => ((uncTwo s).bind tailD).orElse fun _ => (part1 s).bind tailD

/-- `RE_WIN_DRIVE.match(t)` : what follows group 0, if the regex matches -/
def reWinDrive (t : List Char) : Option (List Char) :=
  let alt1 : Option (List Char) := do
    let s ← sepD t
    let s ← sepD s
    match s with
    | c :: s' =>
      if c = '?' || c = '.' then do
        let s ← sepD s'
        ((letterColon s).bind tailD).orElse fun _ => ((uncTwo s).bind tailD).orElse fun _ =>
          (globals s.length s).findSome? innerG
      else none
    | [] => none
  let alt2 : Option (List Char) := do
    let s ← sepD t
    let s ← sepD s
    let s ← part1 s
    let s ← sepD s
    let s ← part1 s
    tailD s
  let alt3 : Option (List Char) := (letterColon t).bind tailD
  alt1.orElse fun _ => alt2.orElse fun _ => alt3

/-- **`escape(s, unix=False)`** (path mode) -/
def escapeWin (s : List Char) : List Char :=
  let t := dbl s
  match reWinDrive t with
  | some rest => driveMagicSub (t.take (t.length - rest.length)) ++ magicSub rest
  | none => magicSub t

/-- `escapeWin` on strings -/
def escS (s : String) : String := String.ofList (escapeWin s.toList)

/-- outputs of the real `glob.escape(s, unix=False)` (pinned tree), reproduced by the model -/
theorem escapeWin_samples :
    escS "c:/a*" = "c:/a\\*" ∧
    escS "C:\\a-b" = "C:\\\\a\\-b" ∧
    escS "c:" = "c:" ∧
    escS "c:\n" = "c:\n" ∧
    escS "c:x*" = "c:x\\*" ∧
    escS "//ho{st/sh|re/x" = "//ho\\{st/sh\\|re/x" ∧
    escS "\\\\host\\share\\x-" = "\\\\\\\\host\\\\share\\\\x\\-" ∧
    escS "//?/UNC/file" = "//?/UNC/file" ∧
    escS "//?/c:/x-" = "//?/c:/x\\-" ∧
    escS "a\\b*" = "a\\\\b\\*" ∧
    escS "//?/GLOBAL/GLOBAL/UNC/h/s/x*" = "//?/GLOBAL/GLOBAL/UNC/h/s/x\\*" ∧
    escS "//?/global/global" = "//?/global/global" ∧
    escS "//host//share/x*" = "//host//share/x\\*" ∧
    escS "//./x{y/[z]" = "//./x\\{y/\\[z\\]" ∧
    escS "/a*" = "/a\\*" ∧
    escS "//h*t/sh?re/[x]" = "//h*t/sh?re/\\[x\\]" := by
  decide +kernel

end EscW
end WcModel

import WcModel.Proofs.BridgeFS
import WcModel.Proofs.GlobSpec
/-
  C04 bridge, part 2: what a split pattern DENOTES on a tree (`Spec/Denotes.lean`, the walker's
  specification) against the documented path language (`Spec/PathLang.lean`, the regex's
  specification) — on the level of the two specifications.

  * `BelowN`     `Below` with the names it went through;
  * `DenP`       "the part list denotes, below `d`, the path `d/comps`" (trailing separator ignored);
  * `denP_last`, `denP_inner`, `denP_star`, `denP_star_cons`   one step of `Denotes` in terms of names;
  * `segsLink`   `segsMatch` (the documented language) threaded with the display path, with the link
                 rule on the pieces a globstar stands for (`noLinks`: the SAME test `_fs_match` makes,
                 `fs.islink` on the joined prefix);
  * `denP_iff_segsLink`   the bridge below a directory, by induction on the segments.
-/
namespace WcModel.Bridge

/-- a component in scope: sane, visible (so neither `.` nor `..`), and — under DOTGLOB, where
    `_NO_DIR`'s `$` is tested (D3p) — not ending in a newline -/
structure NameOK (dot : Bool) (n : Name) : Prop where
  sane' : Sane n
  vis : visible dot n = true
  nl : dot = false ∨ n.getLast? ≠ some '\n'

theorem NameOK.clean {dot : Bool} {n : Name} (h : NameOK dot n) : Clean n := by
  obtain ⟨hs, hv, _⟩ := h
  simp only [visible, isDotDir, Bool.and_eq_true, Bool.not_eq_true', Bool.or_eq_false_iff,
    decide_eq_false_iff_not] at hv
  exact ⟨hs.1, hv.1.1, hv.1.2, hs.2⟩

theorem NameOK.sane {dot : Bool} {n : Name} (h : NameOK dot n) : Sane n := h.sane'

theorem NameOK.notHidden {dot : Bool} {n : Name} (h : NameOK dot n) : isHidden dot n = false := by
  obtain ⟨_, hv, _⟩ := h
  simp only [visible, Bool.and_eq_true, Bool.or_eq_true] at hv
  unfold isHidden
  rcases hv.2 with h | h
  · simp [h]
  · cases dot
    · simp only [Bool.not_false, Bool.true_and]
      simpa using h
    · rfl

/-! ### `Below`, with the names -/

/-- `Below`, recording the entry names gone through -/
inductive BelowN (fs : FS) (c : WalkCfg) (long : Bool) : Dir → List Name → Dir → Prop
  | here (d : Dir) : BelowN fs c long d [] d
  | down {d d' : Dir} {o : Offer} {ns : List Name} : o ∈ entriesOf fs d → descends c long o = true →
      BelowN fs c long ⟨pjoin d.path o.name, o.loc⟩ ns d' → BelowN fs c long d (o.name :: ns) d'

theorem BelowN.toBelow {fs : FS} {c : WalkCfg} {long : Bool} {d d' : Dir} {ns : List Name}
    (h : BelowN fs c long d ns d') : Below fs c long d d' := by
  induction h with
  | here => exact Below.here _
  | down ho hd _ ih => exact Below.trans (Below.step ho hd) ih

theorem BelowN.snoc {fs : FS} {c : WalkCfg} {long : Bool} {d d' : Dir} {ns : List Name} {o : Offer}
    (h : BelowN fs c long d ns d') (ho : o ∈ entriesOf fs d') (hd : descends c long o = true) :
    BelowN fs c long d (ns ++ [o.name]) ⟨pjoin d'.path o.name, o.loc⟩ := by
  induction h with
  | here d => exact BelowN.down ho hd (BelowN.here _)
  | down ho' hd' _ ih => exact BelowN.down ho' hd' (ih ho)

theorem belowN_of_below {fs : FS} {c : WalkCfg} {long : Bool} {d d' : Dir} (h : Below fs c long d d') :
    ∃ ns, BelowN fs c long d ns d' := by
  induction h with
  | here => exact ⟨[], BelowN.here _⟩
  | down _ ho hd ih =>
    obtain ⟨ns, hn⟩ := ih
    exact ⟨_, hn.snoc ho hd⟩

theorem BelowN.path {fs : FS} {c : WalkCfg} {long : Bool} {d d' : Dir} {ns : List Name}
    (h : BelowN fs c long d ns d') : d'.path = pjoins d.path ns := by
  induction h with
  | here => rfl
  | down _ _ _ ih => exact ih

theorem BelowN.loc {fs : FS} (hwf : fs.WFTree) {c : WalkCfg} {long : Bool} {d d' : Dir} {ns : List Name}
    (h : BelowN fs c long d ns d') : d'.loc = fs.steps d.loc ns := by
  induction h with
  | here => rfl
  | down ho _ _ ih => rw [ih]; simp only [FS.steps]; rw [(entry_char hwf ho).2.1]

theorem BelowN.names {fs : FS} (hwf : fs.WFTree) {c : WalkCfg} {long : Bool} {d d' : Dir} {ns : List Name}
    (h : BelowN fs c long d ns d') : ∀ n ∈ ns, Clean n := by
  induction h with
  | here => intro n hn; cases hn
  | down ho _ _ ih =>
    intro n hn
    rcases List.mem_cons.1 hn with rfl | hn
    · exact (entry_char hwf ho).1
    · exact ih n hn

theorem BelowN.eq_dir {fs : FS} (hwf : fs.WFTree) {c : WalkCfg} {long : Bool} {d d' : Dir} {ns : List Name}
    (h : BelowN fs c long d ns d') : d' = ⟨pjoins d.path ns, fs.steps d.loc ns⟩ := by
  have h1 := h.path
  have h2 := h.loc hwf
  cases d'
  simp only at h1 h2
  rw [h1, h2]

/-! ### what `Denotes` yields, as names -/

theorem offer_sane {fs : FS} (hwf : fs.WFTree) {d : Dir} {o : Offer} (ho : o ∈ offered fs d) : Sane o.name := by
  unfold offered at ho
  split at ho
  · simp only [List.cons_append, List.nil_append, List.mem_cons] at ho
    rcases ho with rfl | rfl | ho
    · exact sane_dot
    · exact sane_dotdot
    · exact (entry_char hwf ho).1.sane
  · cases ho

/-- an offer with a clean name is an entry (not the fake `.` / `..`) -/
theorem offer_clean {fs : FS} {d : Dir} {o : Offer} (ho : o ∈ offered fs d) (hc : Clean o.name) :
    o ∈ entriesOf fs d := by
  unfold offered at ho
  split at ho
  · simp only [List.cons_append, List.nil_append, List.mem_cons] at ho
    rcases ho with rfl | rfl | ho
    · exact absurd rfl hc.2.1
    · exact absurd rfl hc.2.2.1
    · exact ho
  · cases ho

/-- the part list denotes `d/comps` below `d` (one trailing separator ignored) -/
def DenP (fs : FS) (c : WalkCfg) (parts : List GPart) (d : Dir) (comps : List Name) : Prop :=
  ∃ v, Denotes fs c parts d v ∧ untrail v.path = pjoins d.path comps

theorem toY_path (fs : FS) (hwf : fs.WFTree) {d : Dir} {o : Offer} (ho : o ∈ offered fs d) (hd : NoTrail d.path) :
    untrail (o.toY d).path = pjoins d.path [o.name] := by
  simp only [Offer.toY, pjoins_cons, pjoins_nil]
  exact untrail_noTrail (pjoin_noTrail _ (offer_sane hwf ho) hd)

theorem belowN_noTrail {fs : FS} (hwf : fs.WFTree) {c : WalkCfg} {long : Bool} {d d' : Dir} {ns : List Name}
    (h : BelowN fs c long d ns d') (hd : NoTrail d.path) : NoTrail d'.path := by
  rw [h.path]
  exact pjoins_noTrail _ hd ns (fun n hn => (h.names hwf n hn).sane)

/-- every denoted path is the directory's path followed by sane names -/
theorem denotes_shape {fs : FS} (hwf : fs.WFTree) {c : WalkCfg} {parts : List GPart} {d : Dir} {v : Y}
    (h : Denotes fs c parts d v) (hd : NoTrail d.path) :
    ∃ names, (∀ n ∈ names, Sane n) ∧ untrail v.path = pjoins d.path names := by
  induction h with
  | last _ ho _ _ =>
    exact ⟨[_], fun n hn => by rw [List.mem_singleton] at hn; subst hn; exact offer_sane hwf ho, toY_path fs hwf ho hd⟩
  | @inner p q rest d o v _ ho _ _ _ ih =>
    obtain ⟨names, hs, he⟩ := ih (pjoin_noTrail _ (offer_sane hwf ho) hd)
    refine ⟨o.name :: names, ?_, ?_⟩
    · intro n hn
      rcases List.mem_cons.1 hn with rfl | hn
      · exact offer_sane hwf ho
      · exact hs n hn
    · rw [he]; rfl
  | @starSelf p d _ hne =>
    refine ⟨[], by simp, ?_⟩
    simp only [pjoins_nil]
    rw [pjoin_empty _ hne hd, untrail_snoc]
  | @starAny p d d' o _ hb ho _ _ =>
    obtain ⟨ns, hn⟩ := belowN_of_below hb
    have ho' := entriesOf_sub_offered ho
    refine ⟨ns ++ [o.name], ?_, ?_⟩
    · intro n hm
      rcases List.mem_append.1 hm with hm | hm
      · exact (hn.names hwf n hm).sane
      · rw [List.mem_singleton] at hm; subst hm; exact offer_sane hwf ho'
    · rw [toY_path fs hwf ho' (belowN_noTrail hwf hn hd), hn.path, pjoins_append]
  | @starLast p q d d' o _ hb ho _ _ =>
    obtain ⟨ns, hn⟩ := belowN_of_below hb
    refine ⟨ns ++ [o.name], ?_, ?_⟩
    · intro n hm
      rcases List.mem_append.1 hm with hm | hm
      · exact (hn.names hwf n hm).sane
      · rw [List.mem_singleton] at hm; subst hm; exact offer_sane hwf ho
    · rw [toY_path fs hwf ho (belowN_noTrail hwf hn hd), hn.path, pjoins_append]
  | @starInner p q r rest d d' o v _ hb ho _ _ _ ih =>
    obtain ⟨ns, hn⟩ := belowN_of_below hb
    have hd' := belowN_noTrail hwf hn hd
    obtain ⟨names, hs, he⟩ := ih (pjoin_noTrail _ (offer_sane hwf ho) hd')
    refine ⟨ns ++ o.name :: names, ?_, ?_⟩
    · intro n hm
      rcases List.mem_append.1 hm with hm | hm
      · exact (hn.names hwf n hm).sane
      · rcases List.mem_cons.1 hm with rfl | hm
        · exact offer_sane hwf ho
        · exact hs n hm
    · rw [he, pjoins_append, ← hn.path]; rfl

/-! ### one step of `Denotes`, in terms of names -/

/-- a last name segment -/
theorem denP_last {fs : FS} (hwf : fs.WFTree) {c : WalkCfg} {p : GPart} (hp : p.isStar = false) {d : Dir}
    (hd : NoTrail d.path) {comps : List Name} (hc : ∀ n ∈ comps, Sane n) :
    DenP fs c [p] d comps ↔
      ∃ o ∈ offered fs d, comps = [o.name] ∧ segOK c.caseSensitive p.pat o.name = true ∧
        (p.dirOnly = true → o.isDir = true) := by
  constructor
  · rintro ⟨v, h, he⟩
    cases h with
    | @last _ _ o _ ho hs hdo =>
      rw [toY_path fs hwf ho hd] at he
      have := pjoins_inj d.path hd _ _ (fun n hn => by
        rw [List.mem_singleton] at hn; subst hn; exact offer_sane hwf ho) hc he
      exact ⟨o, ho, this.symm, hs, hdo⟩
    | starSelf hs _ => rw [hp] at hs; cases hs
    | starAny hs _ _ _ _ => rw [hp] at hs; cases hs
  · rintro ⟨o, ho, rfl, hs, hdo⟩
    exact ⟨o.toY d, Denotes.last hp ho hs hdo, toY_path fs hwf ho hd⟩

/-- an inner name segment -/
theorem denP_inner {fs : FS} (hwf : fs.WFTree) {c : WalkCfg} {p q : GPart} {rest : List GPart}
    (hp : p.isStar = false) {d : Dir} (hd : NoTrail d.path) {comps : List Name} (hc : ∀ n ∈ comps, Sane n) :
    DenP fs c (p :: q :: rest) d comps ↔
      ∃ o ∈ offered fs d, ∃ cs, comps = o.name :: cs ∧ segOK c.caseSensitive p.pat o.name = true ∧
        o.isDir = true ∧ DenP fs c (q :: rest) ⟨pjoin d.path o.name, o.loc⟩ cs := by
  constructor
  · rintro ⟨v, h, he⟩
    cases h with
    | @inner _ _ _ _ o _ _ ho hs hdir hsub =>
      obtain ⟨names, hsn, hen⟩ := denotes_shape hwf hsub (pjoin_noTrail _ (offer_sane hwf ho) hd)
      have e : pjoins d.path (o.name :: names) = pjoins d.path comps := by rw [← he, hen]; rfl
      have := pjoins_inj d.path hd _ _ (fun n hn => by
        rcases List.mem_cons.1 hn with rfl | hn
        · exact offer_sane hwf ho
        · exact hsn n hn) hc e
      exact ⟨o, ho, names, this.symm, hs, hdir, v, hsub, hen⟩
    | starLast hs _ _ _ _ => rw [hp] at hs; cases hs
    | starInner hs _ _ _ _ _ => rw [hp] at hs; cases hs
  · rintro ⟨o, ho, cs, rfl, hs, hdir, v, hsub, he⟩
    exact ⟨v, Denotes.inner hp ho hs hdir hsub, by rw [he]; rfl⟩

/-- a final `**` -/
theorem denP_star {fs : FS} (hwf : fs.WFTree) {c : WalkCfg} {p : GPart} (hp : p.isStar = true)
    (hl : p.isGlobstarLong = false) {d : Dir} (hd : NoTrail d.path) {comps : List Name} (hc : ∀ n ∈ comps, Sane n) :
    DenP fs c [p] d comps ↔
      (comps = [] ∧ d.path ≠ []) ∨
      ∃ pre d' o, BelowN fs c false d pre d' ∧ o ∈ entriesOf fs d' ∧ comps = pre ++ [o.name] ∧
        isHidden c.dot o.name = false ∧ (p.dirOnly = true → o.isDir = true) := by
  constructor
  · rintro ⟨v, h, he⟩
    cases h with
    | last hs _ _ _ => rw [hp] at hs; cases hs
    | starSelf _ hne =>
      left
      simp only at he
      rw [pjoin_empty _ hne hd, untrail_snoc] at he
      have := pjoins_inj d.path hd [] comps (by simp) hc he
      exact ⟨this.symm, hne⟩
    | @starAny _ _ d' o _ hb ho hh hdo =>
      right
      rw [hl] at hb
      obtain ⟨ns, hn⟩ := belowN_of_below hb
      have ho' := entriesOf_sub_offered ho
      rw [toY_path fs hwf ho' (belowN_noTrail hwf hn hd), hn.path, ← pjoins_append] at he
      have := pjoins_inj d.path hd _ _ (fun n hm => by
        rcases List.mem_append.1 hm with hm | hm
        · exact (hn.names hwf n hm).sane
        · rw [List.mem_singleton] at hm; subst hm; exact offer_sane hwf ho') hc he
      exact ⟨ns, d', o, hn, ho, this.symm, hh, hdo⟩
  · rintro (⟨rfl, hne⟩ | ⟨pre, d', o, hn, ho, rfl, hh, hdo⟩)
    · refine ⟨_, Denotes.starSelf hp hne, ?_⟩
      simp only [pjoins_nil]
      rw [pjoin_empty _ hne hd, untrail_snoc]
    · refine ⟨o.toY d', Denotes.starAny hp (by rw [hl]; exact hn.toBelow) ho hh hdo, ?_⟩
      rw [toY_path fs hwf (entriesOf_sub_offered ho) (belowN_noTrail hwf hn hd), hn.path, pjoins_append]

/-- `**` followed by a name segment -/
theorem denP_star_cons {fs : FS} (hwf : fs.WFTree) {c : WalkCfg} {p q : GPart} {rest : List GPart}
    (hp : p.isStar = true) (hq : q.isStar = false) (hl : p.isGlobstarLong = false) {d : Dir} (hd : NoTrail d.path)
    {comps : List Name} (hc : ∀ n ∈ comps, Sane n) :
    DenP fs c (p :: q :: rest) d comps ↔
      ∃ pre d' cs, BelowN fs c false d pre d' ∧ comps = pre ++ cs ∧ DenP fs c (q :: rest) d' cs := by
  constructor
  · rintro ⟨v, h, he⟩
    have key : ∀ d', Below fs c false d d' → Denotes fs c (q :: rest) d' v →
        ∃ pre d' cs, BelowN fs c false d pre d' ∧ comps = pre ++ cs ∧ DenP fs c (q :: rest) d' cs := by
      intro d' hb hsub
      obtain ⟨ns, hn⟩ := belowN_of_below hb
      obtain ⟨names, hsn, hen⟩ := denotes_shape hwf hsub (belowN_noTrail hwf hn hd)
      have e : pjoins d.path (ns ++ names) = pjoins d.path comps := by
        rw [← he, hen, pjoins_append, ← hn.path]
      have := pjoins_inj d.path hd _ _ (fun n hm => by
        rcases List.mem_append.1 hm with hm | hm
        · exact (hn.names hwf n hm).sane
        · exact hsn n hm) hc e
      exact ⟨ns, d', names, hn, this.symm, v, hsub, hen⟩
    cases h with
    | inner hs _ _ _ _ => rw [hp] at hs; cases hs
    | @starLast _ _ _ d' o _ hb ho hs hdo =>
      rw [hl] at hb
      exact key d' hb (Denotes.last hq ho hs hdo)
    | @starInner _ _ _ _ _ d' o _ _ hb ho hs hdir hsub =>
      rw [hl] at hb
      exact key d' hb (Denotes.inner hq ho hs hdir hsub)
  · rintro ⟨pre, d', cs, hn, rfl, v, hsub, he⟩
    have hb : Below fs c p.isGlobstarLong d d' := by rw [hl]; exact hn.toBelow
    have he' : untrail v.path = pjoins d.path (pre ++ cs) := by rw [he, hn.path, pjoins_append]
    cases hsub with
    | last _ ho hs hdo => exact ⟨_, Denotes.starLast hp hb ho hs hdo, he'⟩
    | inner _ ho hs hdir hsub' => exact ⟨_, Denotes.starInner hp hb ho hs hdir hsub', he'⟩
    | starSelf hs _ => rw [hq] at hs; cases hs
    | starAny hs _ _ _ _ => rw [hq] at hs; cases hs
    | starLast hs _ _ _ _ => rw [hq] at hs; cases hs
    | starInner hs _ _ _ _ _ => rw [hq] at hs; cases hs

end WcModel.Bridge

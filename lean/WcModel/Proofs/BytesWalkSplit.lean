import WcModel.Proofs.GlobSplitShape
import WcModel.Proofs.BytesWalkList
/-
  C18 on the walkers — `_GlobSplit` (`Model/GlobSplit.lean`).

  `isBytes` is a field of `SplitCfg`; the scanner (`scan`, `parseExtend`, `sequence`), the magic
  test, the globstar tests and the MATCHBASE insertion never read it.  The one reader is `store`,
  which hands it to `compilePart` for a magic part.  Hence (`globSplit_twin`): the bytes and the
  str split of the same pattern text fail alike or give part lists that are equal after
  `GPart.bnorm` — the same number of parts, the same literal texts, the same five switches per
  part, the same source text of every compiled part, and compiled regexes that are bytes twins.
-/
namespace WcModel

def PPat.bnorm : PPat → PPat
  | .lit s => .lit s
  | .re src r => .re src r.bnorm

def GPart.bnorm (p : GPart) : GPart := { p with pat := p.pat.bnorm }

abbrev bnormP (l : List GPart) : List GPart := l.map GPart.bnorm

/-- part-wise statement of `bnormP l₁ = bnormP l₂` -/
def PPatTwin : PPat → PPat → Prop
  | .lit s₁, .lit s₂ => s₁ = s₂
  | .re src₁ r₁, .re src₂ r₂ => src₁ = src₂ ∧ ReBytesTwin r₁ r₂
  | _, _ => False

theorem ppatTwin_iff (p₁ p₂ : PPat) : PPatTwin p₁ p₂ ↔ p₁.bnorm = p₂.bnorm := by
  cases p₁ <;> cases p₂ <;> simp [PPatTwin, PPat.bnorm, ReBytesTwin_iff_bnorm]

/-- the two parts have the same switches and twin patterns -/
def GPartTwin (p₁ p₂ : GPart) : Prop :=
  PPatTwin p₁.pat p₂.pat ∧ p₁.isMagic = p₂.isMagic ∧ p₁.isGlobstar = p₂.isGlobstar ∧
    p₁.isGlobstarLong = p₂.isGlobstarLong ∧ p₁.dirOnly = p₂.dirOnly ∧ p₁.isDrive = p₂.isDrive

theorem gpartTwin_iff (p₁ p₂ : GPart) : GPartTwin p₁ p₂ ↔ p₁.bnorm = p₂.bnorm := by
  obtain ⟨a1, b1, c1, d1, e1, f1⟩ := p₁
  obtain ⟨a2, b2, c2, d2, e2, f2⟩ := p₂
  simp only [GPartTwin, GPart.bnorm, GPart.mk.injEq, ppatTwin_iff]

theorem bnormP_isEmpty {l₁ l₂ : List GPart} (h : bnormP l₁ = bnormP l₂) : l₁.isEmpty = l₂.isEmpty := by
  cases l₁ <;> cases l₂ <;> simp [bnormP] at h ⊢

theorem bnormP_length {l₁ l₂ : List GPart} (h : bnormP l₁ = bnormP l₂) : l₁.length = l₂.length := by
  have := congrArg List.length h
  simpa [bnormP] using this

/-- anything read off the last / first part through a projection that `bnorm` keeps -/
theorem bnormP_last {γ : Type} (g : GPart → γ) (hg : ∀ p, g p.bnorm = g p) {l₁ l₂ : List GPart}
    (h : bnormP l₁ = bnormP l₂) : l₁.getLast?.map g = l₂.getLast?.map g := by
  have h' := congrArg (fun l => l.getLast?.map g) h
  simpa [bnormP, List.getLast?_map, Option.map_map, Function.comp_def, hg] using h'

theorem bnormP_head {γ : Type} (g : GPart → γ) (hg : ∀ p, g p.bnorm = g p) {l₁ l₂ : List GPart}
    (h : bnormP l₁ = bnormP l₂) : l₁.head?.map g = l₂.head?.map g := by
  have h' := congrArg (fun l => l.head?.map g) h
  simpa [bnormP, List.head?_map, Option.map_map, Function.comp_def, hg] using h'

theorem bnormP_dropLast {l₁ l₂ : List GPart} (h : bnormP l₁ = bnormP l₂) :
    bnormP l₁.dropLast = bnormP l₂.dropLast := by
  have h' := congrArg List.dropLast h
  simpa [bnormP, List.map_dropLast] using h'

/-! ### `store` -/

/-- the part `store` builds from a value (the only reader of `isBytes`) -/
def storePart (c : SplitCfg) (v : List Char) (d : Bool) : Except SplitErr GPart :=
  (if GSplit.isMagic c.flags v then (compilePart c.partFlags c.isBytes v).map (PPat.re v) else .ok (PPat.lit v)).map
    (fun pv => ⟨pv, GSplit.isMagic c.flags v,
      (c.globstarlong && v == ['*', '*', '*']) || (c.globstar && v == ['*', '*']),
      c.globstarlong && v == ['*', '*', '*'], d, false⟩)

/-- … and where it goes: a globstar after a globstar replaces it -/
def putPart (l : List GPart) (part : GPart) : List GPart :=
  if part.isGlobstar && (l.getLast?.map (·.isGlobstar)).getD false then l.dropLast ++ [part] else l ++ [part]

theorem store_eq (c : SplitCfg) (v : List Char) (l : List GPart) (d : Bool) :
    GSplit.store c v l d =
      if !l.isEmpty && v.isEmpty then .ok l else (storePart c v d).map (putPart l) := by
  unfold GSplit.store storePart putPart
  split
  · rfl
  · cases GSplit.isMagic c.flags v with
    | false => simp only [Bool.false_eq_true, ↓reduceIte, Except.map]; split <;> rfl
    | true =>
      simp only [↓reduceIte]
      cases compilePart c.partFlags c.isBytes v with
      | error e => rfl
      | ok r => simp only [Except.map]; split <;> rfl

theorem storePart_twin (fl : Flags) (v : List Char) (d : Bool) :
    (storePart ⟨fl, true⟩ v d).map GPart.bnorm = (storePart ⟨fl, false⟩ v d).map GPart.bnorm := by
  unfold storePart
  simp only [SplitCfg.globstarlong, SplitCfg.globstar, SplitCfg.partFlags]
  cases hm : GSplit.isMagic fl v with
  | false => simp only [Bool.false_eq_true, ↓reduceIte, Except.map, GPart.bnorm, PPat.bnorm]
  | true =>
    simp only [↓reduceIte]
    rcases exceptMap_cases (compilePart_twin fl.noBase v) with ⟨x, hB, hS⟩ | ⟨a, b, hB, hS, hab⟩
    · rw [hB, hS]
    · rw [hB, hS]
      simp only [Except.map, GPart.bnorm, PPat.bnorm, hab]

theorem putPart_twin {lB lS : List GPart} (h : bnormP lB = bnormP lS) {a b : GPart} (hab : a.bnorm = b.bnorm) :
    bnormP (putPart lB a) = bnormP (putPart lS b) := by
  unfold putPart
  have hgs : a.isGlobstar = b.isGlobstar :=
    (congrArg GPart.isGlobstar hab : a.bnorm.isGlobstar = b.bnorm.isGlobstar)
  rw [bnormP_last (·.isGlobstar) (fun _ => rfl) h, hgs]
  have h' : List.map GPart.bnorm lB = List.map GPart.bnorm lS := h
  split
  · simp only [bnormP, List.map_append, List.map_cons, List.map_nil, hab]
    rw [show List.map GPart.bnorm lB.dropLast = List.map GPart.bnorm lS.dropLast from bnormP_dropLast h]
  · simp only [bnormP, List.map_append, List.map_cons, List.map_nil, hab, h']

theorem store_twin (fl : Flags) (v : List Char) (d : Bool) {lB lS : List GPart} (h : bnormP lB = bnormP lS) :
    (GSplit.store ⟨fl, true⟩ v lB d).map bnormP = (GSplit.store ⟨fl, false⟩ v lS d).map bnormP := by
  rw [store_eq, store_eq, bnormP_isEmpty h]
  split
  · simp only [Except.map, h]
  · rcases exceptMap_cases (storePart_twin fl v d) with ⟨x, hB, hS⟩ | ⟨a, b, hB, hS, hab⟩
    · rw [hB, hS]; rfl
    · rw [hB, hS]
      simp only [Except.map]
      rw [putPart_twin h hab]

def nPS (x : List GPart × Int) : List GPart × Int := (bnormP x.1, x.2)

theorem storeAll_twin (fl : Flags) (p : List Char) : ∀ (splits : List (Nat × Nat)) (start : Int)
    (lB lS : List GPart), bnormP lB = bnormP lS →
    (GSplit.storeAll ⟨fl, true⟩ p splits start lB).map nPS = (GSplit.storeAll ⟨fl, false⟩ p splits start lS).map nPS := by
  intro splits
  induction splits with
  | nil => intro start lB lS h; simp only [GSplit.storeAll, Except.map, nPS, h]
  | cons s r ih =>
    intro start lB lS h
    obtain ⟨split, offset⟩ := s
    simp only [GSplit.storeAll]
    rcases exceptMap_cases (store_twin fl (GSplit.slice p (start + 1).toNat split) true h) with
      ⟨x, hB, hS⟩ | ⟨a, b, hB, hS, hab⟩
    · rw [hB, hS]
    · rw [hB, hS]
      exact ih _ a b hab

theorem storedParts_twin (fl : Flags) (p : List Char) :
    (storedParts ⟨fl, true⟩ p).map bnormP = (storedParts ⟨fl, false⟩ p).map bnormP := by
  unfold storedParts
  rcases exceptMap_cases (storeAll_twin fl p (GSplit.scan fl.extmatch (p.length + 2) (driveInit p).2.2 [])
      (driveInit p).2.1 (driveInit p).1 (driveInit p).1 rfl) with ⟨x, hB, hS⟩ | ⟨a, b, hB, hS, hab⟩
  · rw [hB, hS]
  · rw [hB, hS]
    obtain ⟨pB, stB⟩ := a
    obtain ⟨pS, stS⟩ := b
    simp only [nPS, Prod.mk.injEq] at hab
    obtain ⟨hp, rfl⟩ := hab
    simp only []
    have hpm : List.map GPart.bnorm pB = List.map GPart.bnorm pS := hp
    by_cases hc : stB < (p.length : Int) ∧ (!(p.drop (stB + 1).toNat).isEmpty) = true
    · simp only [hc, and_self, ↓reduceIte]
      rcases exceptMap_cases (store_twin fl (p.drop (stB + 1).toNat) false hp) with ⟨x, hB2, hS2⟩ | ⟨a, b, hB2, hS2, hab2⟩
      · rw [hB2, hS2]
      · rw [hB2, hS2]
        have hm2 : List.map GPart.bnorm a = List.map GPart.bnorm b := hab2
        simp only [Except.map]
        split
        · simp only [bnormP, List.map_append, hm2]
        · simp only [bnormP, hm2]
    · simp only [hc, ↓reduceIte, Except.map]
      split
      · simp only [bnormP, List.map_append, hpm]
      · simp only [bnormP, hpm]

theorem basePart_bytes (fl : Flags) (b : Bool) : basePart ⟨fl, b⟩ = basePart ⟨fl, false⟩ := rfl

theorem basePart_bnorm (c : SplitCfg) : (basePart c).bnorm = basePart c := by
  unfold basePart
  split <;> rfl

theorem withBase_twin (fl : Flags) {sB sS : List GPart} (h : bnormP sB = bnormP sS) :
    bnormP (withBase ⟨fl, true⟩ sB) = bnormP (withBase ⟨fl, false⟩ sS) := by
  unfold withBase needBase
  simp only [bnormP_head (·.isDrive) (fun _ => rfl) h, bnormP_head (·.dirOnly) (fun _ => rfl) h,
    bnormP_head (·.isGlobstar) (fun _ => rfl) h, bnormP_length h]
  split
  · simp only [bnormP, List.map_cons, basePart_bytes fl true]
    rw [show List.map GPart.bnorm sB = List.map GPart.bnorm sS from h]
  · exact h

/-- **`_GlobSplit(bytes pattern).split()` vs `_GlobSplit(str pattern).split()`**: for every flag set
    and every pattern text the two splits raise the same error or give part lists that are equal
    up to the spelling of the full range inside the compiled parts. -/
theorem globSplit_twin (f : Flags) (p : List Char) :
    (globSplit f true p).map bnormP = (globSplit f false p).map bnormP := by
  rw [globSplit_eq, globSplit_eq]
  split
  · rfl
  · obtain ⟨fl, hfl⟩ : ∃ fl, fl = (SplitCfg.ofFlags f false).flags := ⟨_, rfl⟩
    have eB : SplitCfg.ofFlags f true = ⟨fl, true⟩ := by rw [hfl]; rfl
    have eS : SplitCfg.ofFlags f false = ⟨fl, false⟩ := by rw [hfl]; rfl
    rw [eB, eS]
    rcases exceptMap_cases (storedParts_twin fl (effPattern f p)) with ⟨x, hB, hS⟩ | ⟨a, b, hB, hS, hab⟩
    · rw [hB, hS]
    · rw [hB, hS]
      have hw := withBase_twin fl hab
      simp only [bnormP_head (·.isDrive) (fun _ => rfl) hw]
      cases hc : (fl.noabsolute && ((withBase ⟨fl, false⟩ b).head?.map (·.isDrive)).getD false)
      · simp only [Bool.false_eq_true, ↓reduceIte, Except.map]
        rw [hw]
      · simp only [↓reduceIte]

/-- what `globSplit_twin` says for two successful splits -/
theorem globSplit_twin_ok {f : Flags} {p : List Char} {pB pS : List GPart}
    (hB : globSplit f true p = .ok pB) (hS : globSplit f false p = .ok pS) : bnormP pB = bnormP pS := by
  have h := globSplit_twin f p
  rw [hB, hS] at h
  simpa [Except.map] using h

end WcModel
